import SctpVerif.Proofs.Reset.Handle
/-!
The incarnation bookkeeping `GInv` for every operation of the two-endpoint system, together with `SysInv`.
-/
namespace Rs

/-- fewer identifiers are judged -/
theorem GDir.taintMore {A B : Ep} {taint : List Nat} {gen : Nat → Nat} (g : GDir A B taint gen) (sid : Nat) :
    GDir A B (sid :: taint) gen := by
  obtain ⟨g1, g2, g3, g4, g5, g6⟩ := g
  have w : ∀ x, x ∉ sid :: taint → x ∉ taint := fun x hx h => hx (List.mem_cons_of_mem _ h)
  exact ⟨fun h o ho ht => g1 h o ho (w _ ht), fun h h' o o' a b ht => g2 h h' o o' a b (w _ ht),
    fun h o ho ht => g3 h o ho (w _ ht), fun s h o ht => g4 s h o (w _ ht), fun h o ho ht => g5 h o ho (w _ ht),
    fun h o ho ht => g6 h o ho (w _ ht)⟩

/-- an object of an identifier that is no longer judged enters the table -/
theorem GDir.addTainted {A A' B : Ep} {taint : List Nat} {gen : Nat → Nat} (g : GDir A B taint gen) (ra : RInv A) (sid gn : Nat)
    (ht : sid ∈ taint) (hreg : A'.reg = insert sid A.objs.length A.reg) (hobjs : A'.objs = A.objs ++ [{ sid := sid, gen := gn }])
    (hlog : A'.reqLog = A.reqLog) (hperf : A'.perf = A.perf) : GDir A' B taint gen := by
  obtain ⟨g1, g2, g3, g4, g5, g6⟩ := g
  have back : ∀ (h : Nat) (o' : Obj), A'.objs[h]? = some o' → A.objs[h]? = some o' ∨ (h = A.objs.length ∧ o' = { sid := sid, gen := gn }) := by
    intro h o' ho'; rw [hobjs] at ho'; exact getElem?_append_one h o' ho'
  have hdead : ∀ h, deadW A B h → deadW A' B h := fun h d => d.mono (fun r hr => by rw [hlog]; exact hr) (fun _ x => x)
  refine ⟨?_, ?_, ?_, ?_, ?_, ?_⟩
  · intro h o' ho' ht'
    rcases back h o' ho' with ho | ⟨_, rfl⟩
    · exact g1 h o' ho ht'
    · exact absurd ht ht'
  · intro h h' o1 o2 ho1 ho2 ht' hs hg
    rcases back h o1 ho1 with hp1 | ⟨_, rfl⟩
    · rcases back h' o2 ho2 with hp2 | ⟨_, rfl⟩
      · exact g2 h h' o1 o2 hp1 hp2 ht' hs hg
      · exact absurd (by rw [hs]; exact ht) ht'
    · exact absurd ht ht'
  · intro h o' ho' ht' hlt
    rcases back h o' ho' with ho | ⟨_, rfl⟩
    · exact hdead h (g3 h o' ho ht' hlt)
    · exact absurd ht ht'
  · intro sid' h o' ht' hl ho'
    have hs : sid' ≠ sid := fun e => ht' (e ▸ ht)
    rw [hreg, lookup_insert_ne _ _ _ _ hs] at hl
    rcases back h o' ho' with ho | ⟨hh, _⟩
    · exact g4 sid' h o' ht' hl ho
    · obtain ⟨o2, ho2, _, _⟩ := ra.regOK sid' h hl
      rw [hh] at ho2; exact absurd (getElem?_lt ho2) (Nat.lt_irrefl _)
  · intro h o' ho' ht' c hc
    rcases back h o' ho' with ho | ⟨_, rfl⟩
    · exact g5 h o' ho ht' c hc
    · cases hc
  · intro h o' ho' ht' hre
    rcases back h o' ho' with ho | ⟨_, rfl⟩
    · obtain ⟨hw, w, a1, a2, a3, a4, a5⟩ := g6 h o' ho ht' hre
      exact ⟨hw, w, a1, a2, a3, a4.mono (fun _ x => x) (fun r hr => by rw [hperf]; exact hr), a5⟩
    · cases hre

/-- a new incarnation is opened at `A` after both directions were reset -/
theorem GDir.openQuiet {A A' B : Ep} {taint : List Nat} {gen : Nat → Nat} (gA : GDir A B taint gen) (gB : GDir B A taint gen)
    (ra : RInv A) (sid : Nat) (hnoneB : lookup sid B.reg = none)
    (deadA : ∀ (h : Nat) (o : Obj), A.objs[h]? = some o → o.sid = sid → deadW A B h)
    (deadB : ∀ (h : Nat) (o : Obj), B.objs[h]? = some o → o.sid = sid → deadW B A h)
    (hreg : A'.reg = insert sid A.objs.length A.reg) (hobjs : A'.objs = A.objs ++ [{ sid := sid, gen := gen sid + 1 }])
    (hlog : A'.reqLog = A.reqLog) (hperf : A'.perf = A.perf) (hsent : A'.sent = A.sent) :
    GDir A' B taint (fun i => if i = sid then gen sid + 1 else gen i) ∧
    GDir B A' taint (fun i => if i = sid then gen sid + 1 else gen i) := by
  have back : ∀ (h : Nat) (o' : Obj), A'.objs[h]? = some o' → A.objs[h]? = some o' ∨ (h = A.objs.length ∧ o' = { sid := sid, gen := gen sid + 1 }) := by
    intro h o' ho'; rw [hobjs] at ho'; exact getElem?_append_one h o' ho'
  have old : ∀ (h : Nat) (o : Obj), A.objs[h]? = some o → A'.objs[h]? = some o := by
    intro h o ho; rw [hobjs, List.getElem?_append_left (getElem?_lt ho)]; exact ho
  have hdeadA : ∀ h, deadW A B h → deadW A' B h := fun h d => d.mono (fun r hr => by rw [hlog]; exact hr) (fun _ x => x)
  have hdeadB : ∀ h, deadW B A h → deadW B A' h := fun h d => d.mono (fun _ x => x) (fun r hr => by rw [hperf]; exact hr)
  constructor
  · obtain ⟨g1, g2, g3, g4, g5, g6⟩ := gA
    refine ⟨?_, ?_, ?_, ?_, ?_, ?_⟩
    · intro h o' ho' ht
      rcases back h o' ho' with ho | ⟨_, rfl⟩
      · have := g1 h o' ho ht
        show o'.gen ≤ if o'.sid = sid then gen sid + 1 else gen o'.sid
        split
        · rename_i hs; rw [hs] at this; omega
        · exact this
      · simp
    · intro h h' o1 o2 ho1 ho2 ht hs hg
      rcases back h o1 ho1 with hp1 | ⟨e1, rfl⟩ <;> rcases back h' o2 ho2 with hp2 | ⟨e2, rfl⟩
      · exact g2 h h' o1 o2 hp1 hp2 ht hs hg
      · exfalso
        have hs' : o1.sid = sid := hs
        have := g1 h o1 hp1 ht
        rw [hs'] at this
        have hg' : o1.gen = gen sid + 1 := hg
        omega
      · exfalso
        have hs' : o2.sid = sid := hs.symm
        have ht2 : o2.sid ∉ taint := by rw [hs']; exact ht
        have := g1 h' o2 hp2 ht2
        rw [hs'] at this
        have hg' : o2.gen = gen sid + 1 := hg.symm
        omega
      · rw [e1, e2]
    · intro h o' ho' ht hlt
      rcases back h o' ho' with ho | ⟨_, rfl⟩
      · by_cases hs : o'.sid = sid
        · exact hdeadA h (deadA h o' ho hs)
        · simp only [hs, ↓reduceIte] at hlt
          exact hdeadA h (g3 h o' ho ht hlt)
      · simp at hlt
    · intro sid' h o' ht hl ho'
      rw [hreg] at hl
      by_cases hs : sid' = sid
      · subst hs
        rw [lookup_insert_self] at hl; cases hl
        rcases back _ o' ho' with ho | ⟨_, rfl⟩
        · exact absurd (getElem?_lt ho) (Nat.lt_irrefl _)
        · simp
      · rw [lookup_insert_ne _ _ _ _ hs] at hl
        simp only [hs, ↓reduceIte]
        rcases back h o' ho' with ho | ⟨hh, _⟩
        · exact g4 sid' h o' ht hl ho
        · obtain ⟨o2, ho2, _, _⟩ := ra.regOK sid' h hl
          rw [hh] at ho2; exact absurd (getElem?_lt ho2) (Nat.lt_irrefl _)
    · intro h o' ho' ht c hc
      rcases back h o' ho' with ho | ⟨_, rfl⟩
      · exact g5 h o' ho ht c hc
      · cases hc
    · intro h o' ho' ht hre
      rcases back h o' ho' with ho | ⟨_, rfl⟩
      · obtain ⟨hw, w, a1, a2, a3, a4, a5⟩ := g6 h o' ho ht hre
        exact ⟨hw, w, a1, a2, a3, a4.mono (fun _ x => x) (fun r hr => by rw [hperf]; exact hr), a5⟩
      · cases hre
  · obtain ⟨g1, g2, g3, g4, g5, g6⟩ := gB
    refine ⟨?_, g2, ?_, ?_, g5, ?_⟩
    · intro h o ho ht
      have := g1 h o ho ht
      show o.gen ≤ if o.sid = sid then gen sid + 1 else gen o.sid
      split
      · rename_i hs; rw [hs] at this; omega
      · exact this
    · intro h o ho ht hlt
      by_cases hs : o.sid = sid
      · exact hdeadB h (deadB h o ho hs)
      · simp only [hs, ↓reduceIte] at hlt
        exact hdeadB h (g3 h o ho ht hlt)
    · intro sid' h o ht hl ho
      by_cases hs : sid' = sid
      · subst hs; rw [hnoneB] at hl; cases hl
      · simp only [hs, ↓reduceIte]; exact g4 sid' h o ht hl ho
    · intro h o ho ht hre
      obtain ⟨hw, w, a1, a2, a3, a4, a5⟩ := g6 h o ho ht hre
      exact ⟨hw, w, old hw w a1, a2, a3, a4.mono (fun r hr => by rw [hlog]; exact hr) (fun _ x => x),
        fun c hc => a5 c (by rw [hsent] at hc; exact hc)⟩

/-- "both directions reset" means: every object with this identifier, at either endpoint, is dead -/
theorem sideQuiet_dead (e peer : Ep) (sid : Nat) (hs : SInv e) (hq : sideQuiet e peer sid = true) :
    lookup sid e.reg = none ∧ ∀ (h : Nat) (o : Obj), e.objs[h]? = some o → o.sid = sid → deadW e peer h := by
  unfold sideQuiet at hq
  simp only [Bool.and_eq_true, Option.isNone_iff_eq_none, List.all_eq_true, Bool.or_eq_true, bne_iff_ne, ne_eq] at hq
  obtain ⟨⟨⟨hreg, hobjs⟩, hpend⟩, hreqs⟩ := hq
  refine ⟨hreg, ?_⟩
  intro h o ho hos
  have hclosed : ¬ isOpen o := by
    rcases hobjs o (List.mem_of_getElem? ho) with h1 | h1
    · exact absurd hos h1
    · exact h1
  rcases hs.closedHas h o ho hclosed with ⟨s, hm⟩ | ⟨rec, hrec, hmem⟩
  · exfalso
    obtain ⟨o2, ho2, hos2, _⟩ := hs.markerClosed s h hm
    rw [ho] at ho2; cases ho2
    have := hpend _ hm
    simp only [bne_iff_ne, ne_eq] at this
    exact this (hos2.symm.trans hos)
  · refine ⟨rec, hrec, hmem, ?_⟩
    obtain ⟨hlen, _, hall⟩ := hs.recOK rec hrec
    obtain ⟨sd, hz⟩ := mem_wobjs_zip rec hlen h hmem
    obtain ⟨o2, ho2, hos2, _⟩ := hall _ hz
    simp only at ho2 hos2
    rw [ho] at ho2; cases ho2
    have hsd : sd = sid := hos2.symm.trans hos
    have hmemS : sid ∈ rec.sids := hsd ▸ (List.of_mem_zip hz).1
    unfold reqsDone at hreqs
    simp only [List.all_eq_true, Bool.or_eq_true, Bool.not_eq_true', List.contains_eq_mem, decide_eq_false_iff_not, decide_eq_true_eq] at hreqs
    rcases hreqs rec hrec with h1 | h1
    · exact absurd hmemS h1
    · exact h1

/-! ### every operation -/

theorem bool_not_eq {x z : Bool} (h : ¬ x = z) : x = !z := by cases x <;> cases z <;> simp_all

/-- endpoint `z` moved to `e'`; ghost taint / incarnation counters possibly changed too -/
theorem GInv.update {s : Sys} (z : Bool) (e' : Ep) (t : List Nat) (gn : Nat → Nat)
    (h1 : GDir e' (s.ep (!z)) t gn) (h2 : GDir (s.ep (!z)) e' t gn) :
    GInv { s.setEp z e' with taint := t, gen := gn } := by
  intro x
  have e1 : ∀ y, ({ s.setEp z e' with taint := t, gen := gn } : Sys).ep y = (s.setEp z e').ep y := fun y => by cases y <;> rfl
  show GDir (({ s.setEp z e' with taint := t, gen := gn } : Sys).ep x) (({ s.setEp z e' with taint := t, gen := gn } : Sys).ep (!x)) t gn
  rw [e1, e1]
  by_cases hx : x = z
  · subst hx; simpa using h1
  · have := bool_not_eq hx
    subst this
    simpa using h2

@[simp] theorem taint_setEp (s : Sys) (z : Bool) (e : Ep) : (s.setEp z e).taint = s.taint := by cases z <;> rfl
@[simp] theorem gen_setEp (s : Sys) (z : Bool) (e : Ep) : (s.setEp z e).gen = s.gen := by cases z <;> rfl

theorem GInv.of (s s' : Sys) (z : Bool) (e' : Ep) (t : List Nat) (gn : Nat → Nat) (hz : s'.ep z = e') (ho : s'.ep (!z) = s.ep (!z))
    (ht : s'.taint = t) (hg : s'.gen = gn) (h1 : GDir e' (s.ep (!z)) t gn) (h2 : GDir (s.ep (!z)) e' t gn) : GInv s' := by
  intro x
  rw [ht, hg]
  by_cases hx : x = z
  · subst hx; rw [hz, ho]; exact h1
  · have := bool_not_eq hx
    subst this
    rw [ho, Bool.not_not, hz]; exact h2

theorem GInv.updateEp {s : Sys} (z : Bool) (e' : Ep)
    (h1 : GDir e' (s.ep (!z)) s.taint s.gen) (h2 : GDir (s.ep (!z)) e' s.taint s.gen) : GInv (s.setEp z e') := by
  have := GInv.update (s := s) z e' s.taint s.gen h1 h2
  have e : ({ s.setEp z e' with taint := s.taint, gen := s.gen } : Sys) = s.setEp z e' := by cases z <;> rfl
  rw [e] at this; exact this

/-- nothing the incarnation bookkeeping reads has changed at `z` -/
theorem GInv.same {s : Sys} (g : GInv s) (z : Bool) (e' : Ep) (hobjs : ObjsRel GSame (s.ep z).objs e'.objs)
    (hreg : e'.reg = (s.ep z).reg) (hlog : e'.reqLog = (s.ep z).reqLog) (hperf : e'.perf = (s.ep z).perf)
    (hsent : e'.sent = (s.ep z).sent) : GInv (s.setEp z e') := by
  apply GInv.updateEp
  · exact (g z).mono hobjs hreg (fun r hr => by rw [hlog]; exact hr) (fun _ h => h) (fun hw w h => ⟨w, h, rfl, rfl⟩)
      (fun _ h => h) (fun r hr => by rw [hperf]; exact hr) (fun c hc => Or.inl hc)
  · have g2 := g (!z)
    simp only [Bool.not_not] at g2
    refine g2.mono (ObjsRel.refl GSame.refl _) rfl (fun _ h => h) (fun r hr => by rw [hperf]; exact hr) ?_
      (fun r hr => by rw [hlog]; exact hr) (fun _ h => h) (fun c hc => Or.inl (by rw [hsent] at hc; exact hc))
    intro hw w hwo
    obtain ⟨w', hw', r⟩ := hobjs.2 hw w hwo
    exact ⟨w', hw', r.sid, r.gen⟩

theorem write_reg (e : Ep) (h len : Nat) (u : Bool) (m : Nat) : (write e h len u m).1.reg = e.reg := by
  unfold write
  split
  · rfl
  · split
    · rfl
    · split <;> rfl

theorem close_reg (e : Ep) (h : Nat) : (close e h).1.reg = e.reg := by
  unfold close
  split
  · rfl
  · split <;> rfl

theorem read_reg (e : Ep) (h : Nat) : (read e h).1.reg = e.reg := by
  unfold read
  split <;> rfl

theorem accept_reg (e : Ep) : (accept e).1.reg = e.reg := by
  unfold accept
  split <;> rfl

theorem read_gsame (e : Ep) (h : Nat) : ObjsRel GSame e.objs (read e h).1.objs := by
  unfold read
  split
  · exact ObjsRel.refl GSame.refl _
  · rename_i o ho
    obtain ⟨s1, s2, s3, s4, _⟩ := drain_same (o.ord.length + o.unord.length) o []
    have rs : GSame o (if (drain (o.ord.length + o.unord.length) o []).1.readErr
        then { (drain (o.ord.length + o.unord.length) o []).1 with eofSeen := true } else (drain (o.ord.length + o.unord.length) o []).1) := by
      split <;> exact ⟨s1, s2, s4, s3⟩
    exact ObjsRel.set GSame.refl _ _ _ _ ho rs

theorem setEp_self (s : Sys) (z : Bool) : s.setEp z (s.ep z) = s := by cases z <;> rfl

/-- the endpoint after OpenStream created an object -/
def addObjEp (e : Ep) (sid gen : Nat) : Ep :=
  { e with objs := e.objs ++ [{ sid := sid, gen := gen }], reg := insert sid e.objs.length e.reg }

theorem openStream_none (e : Ep) (sid gen : Nat) (h : lookup sid e.reg = none) :
    openStream e sid gen = (addObjEp e sid gen, e.objs.length, true) := by
  unfold openStream addObjEp; rw [h]

theorem openStream_some (e : Ep) (sid gen h : Nat) (hl : lookup sid e.reg = some h) :
    openStream e sid gen = (e, h, false) := by
  unfold openStream; rw [hl]

theorem step_ginv (s : Sys) (op : Op) (inv : SysInv s) (g : GInv s) : GInv (s.step op) := by
  cases op with
  | openS z sid =>
    simp only [Sys.step]
    cases hl : lookup sid (s.ep z).reg with
    | some h =>
      rw [openStream_some _ _ _ _ hl]
      simp only [Bool.false_eq_true, ↓reduceIte]
      rw [setEp_self]; exact g
    | none =>
      rw [openStream_none _ _ _ hl]
      simp only [↓reduceIte]
      have gz := g z
      have gz' := g (!z)
      simp only [Bool.not_not] at gz'
      have rz := (inv z).ri
      split
      · -- both directions were reset: a new incarnation
        rename_i hq
        have hq2 : sideQuiet (s.ep z) (s.ep (!z)) sid = true ∧ sideQuiet (s.ep (!z)) (s.ep z) sid = true := by
          unfold Sys.quiet at hq
          simp only [Bool.and_eq_true] at hq
          cases z
          · exact ⟨hq.1, hq.2⟩
          · exact ⟨hq.2, hq.1⟩
        obtain ⟨_, deadA⟩ := sideQuiet_dead _ _ sid (inv z).si hq2.1
        obtain ⟨hnB, deadB⟩ := sideQuiet_dead _ _ sid (inv (!z)).si hq2.2
        obtain ⟨r1, r2⟩ := GDir.openQuiet (A' := addObjEp (s.ep z) sid (s.gen sid + 1)) gz gz' rz sid hnB deadA deadB rfl rfl rfl rfl rfl
        exact GInv.of s _ z _ _ _ (by cases z <;> rfl) (by cases z <;> rfl) (by cases z <;> rfl) (by cases z <;> rfl) r1 r2
      · -- re-opened too early: the identifier is no longer judged
        refine GInv.of s _ z (addObjEp (s.ep z) sid (s.gen sid + 1)) (sid :: s.taint) s.gen (by cases z <;> rfl) (by cases z <;> rfl) (by cases z <;> rfl) (by cases z <;> rfl) ?_ ?_
        · exact (gz.taintMore sid).addTainted (A' := addObjEp (s.ep z) sid (s.gen sid + 1)) rz sid (s.gen sid + 1) List.mem_cons_self rfl rfl rfl rfl
        · refine (gz'.taintMore sid).mono (ObjsRel.refl GSame.refl _) rfl (fun _ h => h) (fun _ h => h) ?_ (fun _ h => h) (fun _ h => h)
            (fun c hc => Or.inl hc)
          intro hw w hwo
          refine ⟨w, ?_, rfl, rfl⟩
          show ((s.ep z).objs ++ [{ sid := sid, gen := s.gen sid + 1 }])[hw]? = some w
          rw [List.getElem?_append_left (getElem?_lt hwo)]; exact hwo
  | write z h len u m =>
    simp only [Sys.step]
    obtain ⟨f1, f2, _, _, _, f6, _, _, f9⟩ := write_fields (s.ep z) h len u m
    exact g.same z _ (f9.imp (fun _ _ r => ⟨r.sid, r.gen, r.rx, r.readErr⟩)) (write_reg _ _ _ _ _) f2 f6 f1
  | close z h =>
    simp only [Sys.step]
    obtain ⟨f1, f2, _, _, _, f6, _, _, f9⟩ := close_fields (s.ep z) h
    exact g.same z _ (f9.imp (fun _ _ r => ⟨r.sid, r.gen, r.rx, r.readErr⟩)) (close_reg _ _) f2 f6 f1
  | gather z sel pre post sack =>
    simp only [Sys.step]
    split
    · rename_i e out hg
      have hsz := (inv z).si
      unfold gather at hg
      split at hg
      · cases hg
      · rename_i popped left hp
        simp only at hg
        split at hg
        · simp only [Option.some.injEq, Prod.mk.injEq] at hg
          obtain ⟨rfl, _⟩ := hg
          obtain ⟨_, _, _, a4, a5, _, a7, _⟩ := gatherEp_fields (s.ep z) popped left
          obtain ⟨b1, _, _, b4, _⟩ := assign_spec popped (s.ep z).nextTSN
          have hmem := popSel_mem (s.ep z).il sel _ _ _ hp
          have hsent : (gatherEp (s.ep z) popped left).sent = (s.ep z).sent ++ (assign (s.ep z).nextTSN popped).1 := by
            unfold gatherEp; simp only; split <;> rfl
          have hlog : ∀ r ∈ (s.ep z).reqLog, r ∈ (gatherEp (s.ep z) popped left).reqLog := by
            intro r hr; unfold gatherEp; simp only; split
            · exact hr
            · exact List.mem_append_left _ hr
          have e1 : s.put z (gatherEp (s.ep z) popped left) out = { s.setEp z (gatherEp (s.ep z) popped left) with
              taint := s.taint, gen := s.gen, ha := (s.put z (gatherEp (s.ep z) popped left) out).ha,
              hb := (s.put z (gatherEp (s.ep z) popped left) out).hb } := by cases z <;> rfl
          have key : GInv (s.setEp z (gatherEp (s.ep z) popped left)) := by
            apply GInv.updateEp
            · exact (g z).mono (a5 ▸ ObjsRel.refl GSame.refl _) a4 hlog (fun _ h => h) (fun hw w h => ⟨w, h, rfl, rfl⟩)
                (fun _ h => h) (fun r hr => by rw [a7]; exact hr) (fun c hc => Or.inl hc)
            · have g2 := g (!z)
              simp only [Bool.not_not] at g2
              refine g2.mono (ObjsRel.refl GSame.refl _) rfl (fun _ h => h) (fun r hr => by rw [a7]; exact hr)
                (fun hw w h => ⟨w, by rw [a5]; exact h, rfl, rfl⟩) hlog (fun _ h => h) ?_
              intro c hc
              rw [hsent] at hc
              rcases List.mem_append.mp hc with hc | hc
              · exact Or.inl hc
              · right
                intro rec hrec hmemw
                have hd : c.d ∈ pendData popped := by rw [← b1]; exact List.mem_map_of_mem hc
                have hdp : Item.data c.d ∈ (s.ep z).pend := (hmem _).mpr (Or.inl ((mem_pendData _ _).mp hd))
                obtain ⟨hlen, _, hall⟩ := hsz.recOK rec hrec
                obtain ⟨sd, hz⟩ := mem_wobjs_zip rec hlen _ hmemw
                obtain ⟨_, _, _, _, _, x4, _⟩ := hall _ hz
                exact x4 c.d hdp rfl
          exact GInv.of s _ z (gatherEp (s.ep z) popped left) s.taint s.gen (by cases z <;> rfl) (by cases z <;> rfl) (by cases z <;> rfl)
            (by cases z <;> rfl) (by have := key z; simpa using this) (by have := key (!z); simpa using this)
        · cases hg
    · exact g
  | deliver x i =>
    simp only [Sys.step]
    split
    · exact g
    · rename_i p hp
      have hmem : p ∈ s.hist x := List.mem_of_getElem? hp
      have hok : PktOK (s.ep x) p := (inv x).xi.hist p hmem
      have gy := g (!x)
      simp only [Bool.not_not] at gy
      have ctx : HCtx (s.ep x) (s.ep (!x)) (s.hist x) s.taint s.gen :=
        ⟨(inv x).si, (inv x).wi, (inv x).xi, (inv (!x)).ri, gy, g x⟩
      have ctx' := ctx.handle p hok
      apply GInv.updateEp
      · simp only [Bool.not_not]; exact ctx'.gR
      · simp only [Bool.not_not]; exact ctx'.gS
  | trc z =>
    simp only [Sys.step]
    exact g.same z _ (ObjsRel.refl GSame.refl _) rfl rfl rfl rfl
  | t3 z => exact g
  | read z h =>
    simp only [Sys.step]
    obtain ⟨f1, f2, _, _, _, f6, _, _, _⟩ := read_fields (s.ep z) h
    exact g.same z _ (read_gsame _ _) (read_reg _ _) f2 f6 f1
  | accept z =>
    simp only [Sys.step]
    obtain ⟨f1, f2, _, _, _, f6, _, _, f9⟩ := accept_fields (s.ep z)
    exact g.same z _ (f9 ▸ ObjsRel.refl GSame.refl _) (accept_reg _) f2 f6 f1

theorem init_ginv (il : Bool) (tsnA tsnB : Nat) : GInv (Sys.init il tsnA tsnB) := by
  intro x
  have : ∀ A B : Ep, A.objs = [] → GDir A B [] (fun _ => 0) := by
    intro A B h
    refine ⟨?_, ?_, ?_, ?_, ?_, ?_⟩ <;> (rw [h]; intros; simp_all)
  cases x <;> exact this _ _ rfl

/-- every reachable state satisfies the system invariant and the incarnation bookkeeping -/
theorem run_all (il : Bool) (tsnA tsnB : Nat) (ha : 0 < tsnA) (hb : 0 < tsnB) (ops : List Op) :
    SysInv ((Sys.init il tsnA tsnB).run ops) ∧ GInv ((Sys.init il tsnA tsnB).run ops) := by
  unfold Sys.run
  have : ∀ s, SysInv s → GInv s → SysInv (ops.foldl Sys.step s) ∧ GInv (ops.foldl Sys.step s) := by
    induction ops with
    | nil => intro s h g; exact ⟨h, g⟩
    | cons op rest ih => intro s h g; simp only [List.foldl_cons]; exact ih _ (step_inv s op h) (step_ginv s op h g)
  exact this _ (init_inv il tsnA tsnB ha hb) (init_ginv il tsnA tsnB)

end Rs
