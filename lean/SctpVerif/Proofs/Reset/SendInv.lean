import SctpVerif.Proofs.Reset.RecvFrame
/-!
`SInv` and `WInv` are kept by every operation of an endpoint: the application calls (`openStream`, `write`, `close`,
`read`, `accept`), the write loop (`gather`), timer expiry and inbound packets (`handle`).
-/
namespace Rs

theorem getElem?_lt {α : Type} {l : List α} {i : Nat} {a : α} (h : l[i]? = some a) : i < l.length := by
  rcases Nat.lt_or_ge i l.length with x | x
  · exact x
  · rw [List.getElem?_eq_none x] at h; cases h

/-- `WInv` only depends on WHICH data items exist, not on whether they are still pending -/
theorem WInv.transportItems {e e' : Ep} (inv : WInv e) (hil : e'.il = e.il) (hobjs : e'.objs = e.objs)
    (hitems : ∀ d, d ∈ e'.items ↔ d ∈ e.items) : WInv e' := by
  obtain ⟨h1, h2, h3, h4⟩ := inv
  refine ⟨?_, ?_, ?_, ?_⟩
  · rw [hil, hobjs]; intro d hd; exact h1 d ((hitems d).mp hd)
  · rw [hobjs]; intro h o ho m u hm
    obtain ⟨d, hd, r⟩ := h2 h o ho m u hm
    exact ⟨d, (hitems d).mpr hd, r⟩
  · rw [hil, hobjs]; intro h o ho u k m hn hk
    obtain ⟨d, hd, r⟩ := h3 h o ho u k m hn hk
    exact ⟨d, (hitems d).mpr hd, r⟩
  · rw [hil, hobjs]; exact h4

/-! ### openStream, read, accept, trc, handle: nothing of the send half moves -/

theorem openStream_inv (e : Ep) (sid gen : Nat) (hs : SInv e) (hw : WInv e) :
    SInv (openStream e sid gen).1 ∧ WInv (openStream e sid gen).1 := by
  unfold openStream
  split
  · exact ⟨hs, hw⟩
  · have same : SendSame e { e with objs := e.objs ++ [{ sid := sid, gen := gen }], reg := insert sid e.objs.length e.reg } :=
      ⟨rfl, rfl, rfl, rfl, rfl, rfl⟩
    have st := ObjsStep.append e.objs { sid := sid, gen := gen } (freshW_new sid gen)
    exact ⟨hs.transport same st hs.ctlResp, hw.transport same st⟩

theorem readOne_writerSame (o : Obj) (m : Nat × Bool) (o' : Obj) (h : readOne o = some (m, o')) : WriterSame o o' := by
  unfold readOne at h
  split at h
  · simp only [Option.some.injEq, Prod.mk.injEq] at h
    obtain ⟨_, rfl⟩ := h
    exact ⟨rfl, rfl, rfl, Iff.rfl, fun _ => ⟨rfl, rfl, rfl⟩⟩
  · split at h
    · cases h
    · split at h
      · simp only [Option.some.injEq, Prod.mk.injEq] at h
        obtain ⟨_, rfl⟩ := h
        exact ⟨rfl, rfl, rfl, Iff.rfl, fun _ => ⟨rfl, rfl, rfl⟩⟩
      · cases h

theorem drain_writerSame (fuel : Nat) : ∀ (o : Obj) (acc : List Nat), WriterSame o (drain fuel o acc).1 := by
  induction fuel with
  | zero => intro o acc; exact WriterSame.refl o
  | succ n ih =>
    intro o acc
    simp only [drain]
    split
    · rename_i m o' hr
      have w1 := readOne_writerSame o m o' hr
      have w2 : WriterSame o' { o' with got := o'.got ++ [m] } := ⟨rfl, rfl, rfl, Iff.rfl, fun _ => ⟨rfl, rfl, rfl⟩⟩
      exact (w1.trans w2).trans (ih _ _)
    · exact WriterSame.refl o

theorem read_inv (e : Ep) (h : Nat) (hs : SInv e) (hw : WInv e) : SInv (read e h).1 ∧ WInv (read e h).1 := by
  unfold read
  split
  · exact ⟨hs, hw⟩
  · rename_i o ho
    simp only
    have ws : WriterSame o (if (drain (o.ord.length + o.unord.length) o []).1.readErr
        then { (drain (o.ord.length + o.unord.length) o []).1 with eofSeen := true } else (drain (o.ord.length + o.unord.length) o []).1) := by
      have := drain_writerSame (o.ord.length + o.unord.length) o []
      split
      · exact this.trans ⟨rfl, rfl, rfl, Iff.rfl, fun _ => ⟨rfl, rfl, rfl⟩⟩
      · exact this
    have st := ObjsStep.set e.objs h o _ ho ws
    exact ⟨hs.transport ⟨rfl, rfl, rfl, rfl, rfl, rfl⟩ st hs.ctlResp, hw.transport ⟨rfl, rfl, rfl, rfl, rfl, rfl⟩ st⟩

theorem accept_inv (e : Ep) (hs : SInv e) (hw : WInv e) : SInv (accept e).1 ∧ WInv (accept e).1 := by
  unfold accept
  split
  · exact ⟨hs, hw⟩
  · exact ⟨hs.transport ⟨rfl, rfl, rfl, rfl, rfl, rfl⟩ (ObjsStep.refl _) hs.ctlResp,
      hw.transport ⟨rfl, rfl, rfl, rfl, rfl, rfl⟩ (ObjsStep.refl _)⟩

theorem trc_inv (e : Ep) (hs : SInv e) (hw : WInv e) : SInv (trc e) ∧ WInv (trc e) :=
  ⟨hs.transport ⟨rfl, rfl, rfl, rfl, rfl, rfl⟩ (ObjsStep.refl _) hs.ctlResp,
   hw.transport ⟨rfl, rfl, rfl, rfl, rfl, rfl⟩ (ObjsStep.refl _)⟩

theorem handle_inv (e : Ep) (p : Msg) (hs : SInv e) (hw : WInv e) : SInv (handle e p) ∧ WInv (handle e p) := by
  obtain ⟨same, st, hctl⟩ := handle_frame e p
  refine ⟨hs.transport same st ?_, hw.transport same st⟩
  intro q hq
  rcases hctl q hq with h | h
  · exact hs.ctlResp q h
  · exact h

end Rs

namespace Rs

/-! ### write -/

theorem bump_state (il : Bool) (o : Obj) (u : Bool) : (bump il o u).state = o.state := by
  unfold bump; split
  · split <;> rfl
  · split <;> rfl

theorem bump_sid (il : Bool) (o : Obj) (u : Bool) : (bump il o u).sid = o.sid ∧ (bump il o u).gen = o.gen ∧ (bump il o u).wrote = o.wrote := by
  unfold bump; split
  · split <;> exact ⟨rfl, rfl, rfl⟩
  · split <;> exact ⟨rfl, rfl, rfl⟩

theorem wroteCls_append (o : Obj) (m : Nat) (u u' : Bool) (w : List (Nat × Bool)) (hw : w = o.wrote ++ [(m, u)]) :
    wroteCls { o with wrote := w } u' = wroteCls o u' ++ (if u = u' then [m] else []) := by
  subst hw
  unfold wroteCls
  simp only [List.filter_append, List.map_append]
  congr 1
  by_cases h : u = u'
  · subst h; simp
  · simp [h]

theorem seqOf_bump (il : Bool) (o : Obj) (u u' : Bool) (hn : numbered il u' = true) :
    seqOf il (bump il o u) u' = seqOf il o u' + (if u = u' then 1 else 0) := by
  unfold seqOf bump numbered at *
  cases il <;> cases u <;> cases u' <;> simp_all

theorem write_inv (e : Ep) (h len : Nat) (unord : Bool) (msg : Nat) (hs : SInv e) (hw : WInv e) :
    SInv (write e h len unord msg).1 ∧ WInv (write e h len unord msg).1 := by
  unfold write
  split
  · exact ⟨hs, hw⟩
  · rename_i o ho
    split
    · exact ⟨hs, hw⟩
    · rename_i hst
      have hopen : isOpen o := by simpa [isOpen] using hst
      split
      · exact ⟨hs.transport ⟨rfl, rfl, rfl, rfl, rfl, rfl⟩ (ObjsStep.refl _) hs.ctlResp,
          hw.transport ⟨rfl, rfl, rfl, rfl, rfl, rfl⟩ (ObjsStep.refl _)⟩
      · simp only
        generalize hd : ({ sid := o.sid, unord := unord, seq := seqOf e.il o unord, msg := msg, len := max len 4, wobj := h, gen := o.gen } : Data) = d
        generalize ho' : ({ bump e.il o unord with wrote := o.wrote ++ [(msg, unord)] } : Obj) = o'
        have hlt : h < e.objs.length := getElem?_lt ho
        have hget : (e.objs.set h o')[h]? = some o' := by simp [hlt]
        have hne : ∀ j, j ≠ h → (e.objs.set h o')[j]? = e.objs[j]? := fun j hj => List.getElem?_set_ne (Ne.symm hj)
        have ho'open : isOpen o' := by rw [← ho']; unfold isOpen; simp only; rw [bump_state]; exact hopen
        have ho'sid : o'.sid = o.sid ∧ o'.gen = o.gen := by rw [← ho']; exact ⟨(bump_sid _ _ _).1, (bump_sid _ _ _).2.1⟩
        have ho'wrote : o'.wrote = o.wrote ++ [(msg, unord)] := by rw [← ho']
        -- an object with a marker or a request is not open: it is not h
        have noMarker : ∀ s j, Item.marker s j ∈ e.pend → j ≠ h := by
          intro s j hm hj
          obtain ⟨o2, ho2, _, hc⟩ := hs.markerClosed s j hm
          rw [hj, ho] at ho2; cases ho2; exact hc hopen
        have hdw : d.wobj = h := by rw [← hd]
        refine ⟨⟨hs.tsnLt, hs.tsnInj, ?_, ?_, ?_, ?_, ?_, hs.rsnInj, hs.recUniq, hs.ctlResp⟩, ⟨?_, ?_, ?_, ?_⟩⟩
        · -- markerClosed
          intro s j hm
          simp only [List.mem_append, List.mem_singleton] at hm
          rcases hm with hm | hm
          · obtain ⟨o2, ho2, a, b⟩ := hs.markerClosed s j hm
            exact ⟨o2, by rw [hne j (noMarker s j hm)]; exact ho2, a, b⟩
          · cases hm
        · -- markerLast
          refine List.pairwise_append.mpr ⟨hs.markerLast, List.pairwise_singleton _ _, ?_⟩
          intro a ha b hb
          simp only [List.mem_singleton] at hb; subst hb
          intro s j haj d2 hd2
          cases hd2
          subst haj
          rw [hdw]; exact Ne.symm (noMarker s j ha)
        · -- markerUniq
          refine List.pairwise_append.mpr ⟨hs.markerUniq, List.pairwise_singleton _ _, ?_⟩
          intro a _ b hb
          simp only [List.mem_singleton] at hb; subst hb
          intro s j s' _ hc; cases hc
        · -- closedHas
          intro j oj hoj hc
          by_cases hj : j = h
          · subst hj; rw [hget] at hoj; cases hoj; exact absurd ho'open hc
          · rw [hne j hj] at hoj
            rcases hs.closedHas j oj hoj hc with ⟨s, hm⟩ | hr
            · exact Or.inl ⟨s, List.mem_append_left _ hm⟩
            · exact Or.inr hr
        · -- recOK
          intro rec hr
          obtain ⟨a, b, c⟩ := hs.recOK rec hr
          refine ⟨a, b, ?_⟩
          intro p hp
          obtain ⟨o2, ho2, x1, x2, x3, x4, x5⟩ := c p hp
          have hph : p.2 ≠ h := by
            intro hj; rw [hj, ho] at ho2; cases ho2; exact x2 hopen
          refine ⟨o2, by rw [hne _ hph]; exact ho2, x1, x2, ?_, ?_, x5⟩
          · intro s hm
            simp only [List.mem_append, List.mem_singleton] at hm
            rcases hm with hm | hm
            · exact x3 s hm
            · cases hm
          · intro d2 hd2
            simp only [List.mem_append, List.mem_singleton] at hd2
            rcases hd2 with hd2 | hd2
            · exact x4 d2 hd2
            · cases hd2; rw [hdw]; exact Ne.symm hph
        · -- item
          intro d2 hd2
          have : d2 ∈ e.items ∨ d2 = d := by
            unfold Ep.items at hd2 ⊢
            simp only [pendData_append, List.mem_append] at hd2 ⊢
            rcases hd2 with h1 | h1 | h1
            · exact Or.inl (Or.inl h1)
            · exact Or.inl (Or.inr h1)
            · right; simpa [pendData] using h1
          rcases this with hold | hnew
          · obtain ⟨o2, ho2, a, b, c, f⟩ := hw.item d2 hold
            by_cases hj : d2.wobj = h
            · rw [hj, ho] at ho2; cases ho2
              refine ⟨o', by rw [hj]; exact hget, ho'sid.1.trans a, ho'sid.2.trans b, by rw [ho'wrote]; exact List.mem_append_left _ c, ?_⟩
              intro hn
              have := wroteCls_append (bump e.il o unord) msg unord d2.unord _ (by rw [(bump_sid _ _ _).2.2])
              rw [ho'] at this
              have hb : wroteCls (bump e.il o unord) d2.unord = wroteCls o d2.unord := wroteCls_same (bump_sid _ _ _).2.2 _
              rw [this, hb]
              have := f hn
              rw [List.getElem?_append_left (getElem?_lt this)]; exact this
            · exact ⟨o2, by rw [hne _ hj]; exact ho2, a, b, c, f⟩
          · rw [hnew]
            refine ⟨o', by rw [hdw]; exact hget, ?_, ?_, ?_, ?_⟩
            · rw [← hd]; exact ho'sid.1
            · rw [← hd]; exact ho'sid.2
            · rw [ho'wrote, ← hd]; simp
            · intro hn
              have hdu : d.unord = unord := by rw [← hd]
              have hds : d.seq = seqOf e.il o unord := by rw [← hd]
              have hdm : d.msg = msg := by rw [← hd]
              rw [hdu] at hn ⊢
              have := wroteCls_append (bump e.il o unord) msg unord unord _ (by rw [(bump_sid _ _ _).2.2])
              rw [ho'] at this
              have hb : wroteCls (bump e.il o unord) unord = wroteCls o unord := wroteCls_same (bump_sid _ _ _).2.2 _
              rw [this, hb, hds, hw.ctr h o ho hopen unord hn, hdm]
              simp
        · -- cover
          intro j oj hoj m u hm
          have hsub : ∀ d2, d2 ∈ e.items → d2 ∈ ({ e with objs := e.objs.set h o', pend := e.pend ++ [Item.data d] } : Ep).items := by
            intro d2 h2
            unfold Ep.items at h2 ⊢
            simp only [pendData_append, List.mem_append] at h2 ⊢
            rcases h2 with h2 | h2
            · exact Or.inl h2
            · exact Or.inr (Or.inl h2)
          by_cases hj : j = h
          · subst hj; rw [hget] at hoj; cases hoj
            rw [ho'wrote] at hm
            simp only [List.mem_append, List.mem_singleton, Prod.mk.injEq] at hm
            rcases hm with hm | ⟨rfl, rfl⟩
            · obtain ⟨d2, hd2, r⟩ := hw.cover j o ho m u hm
              exact ⟨d2, hsub d2 hd2, r⟩
            · refine ⟨d, ?_, hdw, by rw [← hd], by rw [← hd]⟩
              unfold Ep.items; simp [pendData]
          · rw [hne j hj] at hoj
            obtain ⟨d2, hd2, r⟩ := hw.cover j oj hoj m u hm
            exact ⟨d2, hsub d2 hd2, r⟩
        · -- coverN
          intro j oj hoj u k m hn hk
          have hsub : ∀ d2, d2 ∈ e.items → d2 ∈ ({ e with objs := e.objs.set h o', pend := e.pend ++ [Item.data d] } : Ep).items := by
            intro d2 h2
            unfold Ep.items at h2 ⊢
            simp only [pendData_append, List.mem_append] at h2 ⊢
            rcases h2 with h2 | h2
            · exact Or.inl h2
            · exact Or.inr (Or.inl h2)
          by_cases hj : j = h
          · subst hj; rw [hget] at hoj; cases hoj
            have := wroteCls_append (bump e.il o unord) msg unord u _ (by rw [(bump_sid _ _ _).2.2])
            rw [ho'] at this
            have hb : wroteCls (bump e.il o unord) u = wroteCls o u := wroteCls_same (bump_sid _ _ _).2.2 _
            rw [this, hb] at hk
            rcases Nat.lt_or_ge k (wroteCls o u).length with hl | hl
            · rw [List.getElem?_append_left hl] at hk
              obtain ⟨d2, hd2, r⟩ := hw.coverN j o ho u k m hn hk
              exact ⟨d2, hsub d2 hd2, r⟩
            · rw [List.getElem?_append_right hl] at hk
              by_cases hu : unord = u
              · subst hu
                simp only [↓reduceIte] at hk
                have hk0 : k - (wroteCls o unord).length = 0 := by
                  rcases Nat.eq_zero_or_pos (k - (wroteCls o unord).length) with h0 | h0
                  · exact h0
                  · rw [List.getElem?_eq_none (by simp; omega)] at hk; cases hk
                rw [hk0] at hk
                simp at hk
                refine ⟨d, ?_, hdw, by rw [← hd], ?_, by rw [← hd]; exact hk⟩
                · unfold Ep.items; simp [pendData]
                · rw [← hd]; simp only
                  rw [hw.ctr j o ho hopen unord hn]; omega
              · simp [hu] at hk
          · rw [hne j hj] at hoj
            obtain ⟨d2, hd2, r⟩ := hw.coverN j oj hoj u k m hn hk
            exact ⟨d2, hsub d2 hd2, r⟩
        · -- ctr
          intro j oj hoj hop u hn
          by_cases hj : j = h
          · subst hj; rw [hget] at hoj; cases hoj
            have h1 := wroteCls_append (bump e.il o unord) msg unord u _ (by rw [(bump_sid _ _ _).2.2])
            rw [ho'] at h1
            have hb : wroteCls (bump e.il o unord) u = wroteCls o u := wroteCls_same (bump_sid _ _ _).2.2 _
            have hseq : seqOf e.il o' u = seqOf e.il (bump e.il o unord) u := by rw [← ho']; rfl
            rw [h1, hb, hseq, seqOf_bump e.il o unord u hn, hw.ctr j o ho hopen u hn]
            split <;> simp
          · rw [hne j hj] at hoj
            exact hw.ctr j oj hoj hop u hn

end Rs

namespace Rs

/-! ### close -/

theorem close_inv (e : Ep) (h : Nat) (hs : SInv e) (hw : WInv e) : SInv (close e h).1 ∧ WInv (close e h).1 := by
  unfold close
  split
  · exact ⟨hs, hw⟩
  · rename_i o ho
    split
    · rename_i hst
      have hopen : isOpen o := by simpa [isOpen] using hst
      simp only
      generalize ho' : ({ o with state := if o.readErr then Gen.StreamStateClosed else Gen.StreamStateClosing } : Obj) = o'
      have hlt : h < e.objs.length := getElem?_lt ho
      have hget : (e.objs.set h o')[h]? = some o' := by simp [hlt]
      have hne : ∀ j, j ≠ h → (e.objs.set h o')[j]? = e.objs[j]? := fun j hj => List.getElem?_set_ne (Ne.symm hj)
      have hclosed : ¬ isOpen o' := by
        rw [← ho']; unfold isOpen; simp only; split <;> decide
      have hsame : o'.sid = o.sid ∧ o'.gen = o.gen ∧ o'.wrote = o.wrote := by rw [← ho']; exact ⟨rfl, rfl, rfl⟩
      have noMarker : ∀ s j, Item.marker s j ∈ e.pend → j ≠ h := by
        intro s j hm hj
        obtain ⟨o2, ho2, _, hc⟩ := hs.markerClosed s j hm
        rw [hj, ho] at ho2; cases ho2; exact hc hopen
      have hitems : ({ e with objs := e.objs.set h o', pend := e.pend ++ [Item.marker o.sid h] } : Ep).items = e.items := by
        unfold Ep.items; simp [pendData]
      refine ⟨⟨hs.tsnLt, hs.tsnInj, ?_, ?_, ?_, ?_, ?_, hs.rsnInj, hs.recUniq, hs.ctlResp⟩, ⟨?_, ?_, ?_, ?_⟩⟩
      · intro s j hm
        simp only [List.mem_append, List.mem_singleton] at hm
        rcases hm with hm | hm
        · obtain ⟨o2, ho2, a, b⟩ := hs.markerClosed s j hm
          exact ⟨o2, by rw [hne j (noMarker s j hm)]; exact ho2, a, b⟩
        · cases hm; exact ⟨o', hget, hsame.1, hclosed⟩
      · refine List.pairwise_append.mpr ⟨hs.markerLast, List.pairwise_singleton _ _, ?_⟩
        intro a _ b hb
        simp only [List.mem_singleton] at hb; subst hb
        intro s j _ d2 hd2; cases hd2
      · refine List.pairwise_append.mpr ⟨hs.markerUniq, List.pairwise_singleton _ _, ?_⟩
        intro a ha b hb
        simp only [List.mem_singleton] at hb; subst hb
        intro s j s' haj hc
        subst haj
        cases hc
        exact noMarker s h ha rfl
      · intro j oj hoj hc
        by_cases hj : j = h
        · subst hj; exact Or.inl ⟨o.sid, by simp⟩
        · rw [hne j hj] at hoj
          rcases hs.closedHas j oj hoj hc with ⟨s, hm⟩ | hr
          · exact Or.inl ⟨s, List.mem_append_left _ hm⟩
          · exact Or.inr hr
      · intro rec hr
        obtain ⟨a, b, c⟩ := hs.recOK rec hr
        refine ⟨a, b, ?_⟩
        intro p hp
        obtain ⟨o2, ho2, x1, x2, x3, x4, x5⟩ := c p hp
        have hph : p.2 ≠ h := by
          intro hj; rw [hj, ho] at ho2; cases ho2; exact x2 hopen
        refine ⟨o2, by rw [hne _ hph]; exact ho2, x1, x2, ?_, ?_, x5⟩
        · intro s hm
          simp only [List.mem_append, List.mem_singleton] at hm
          rcases hm with hm | hm
          · exact x3 s hm
          · cases hm; exact hph rfl
        · intro d2 hd2
          simp only [List.mem_append, List.mem_singleton] at hd2
          rcases hd2 with hd2 | hd2
          · exact x4 d2 hd2
          · cases hd2
      · rw [hitems]
        intro d hd
        obtain ⟨o2, ho2, a, b, c, f⟩ := hw.item d hd
        by_cases hj : d.wobj = h
        · rw [hj, ho] at ho2; cases ho2
          refine ⟨o', by rw [hj]; exact hget, hsame.1.trans a, hsame.2.1.trans b, by rw [hsame.2.2]; exact c, ?_⟩
          intro hn; rw [wroteCls_same hsame.2.2]; exact f hn
        · exact ⟨o2, by rw [hne _ hj]; exact ho2, a, b, c, f⟩
      · rw [hitems]
        intro j oj hoj m u hm
        by_cases hj : j = h
        · subst hj; rw [hget] at hoj; cases hoj
          exact hw.cover j o ho m u (by rw [← hsame.2.2]; exact hm)
        · rw [hne j hj] at hoj; exact hw.cover j oj hoj m u hm
      · rw [hitems]
        intro j oj hoj u k m hn hk
        by_cases hj : j = h
        · subst hj; rw [hget] at hoj; cases hoj
          exact hw.coverN j o ho u k m hn (by rw [← wroteCls_same hsame.2.2]; exact hk)
        · rw [hne j hj] at hoj; exact hw.coverN j oj hoj u k m hn hk
      · intro j oj hoj hop u hn
        by_cases hj : j = h
        · subst hj; rw [hget] at hoj; cases hoj; exact absurd hop hclosed
        · rw [hne j hj] at hoj; exact hw.ctr j oj hoj hop u hn
    · exact ⟨hs, hw⟩

end Rs

namespace Rs

/-! ### the write loop -/

theorem zip_map_fst_snd {α β : Type} (l : List (α × β)) : (l.map (·.1)).zip (l.map (·.2)) = l := by
  induction l with
  | nil => rfl
  | cons x rest ih => simp [ih]

theorem gatherEp_inv (e : Ep) (sel : List Nat) (popped left : List Item)
    (hp : popSel e.il e.pend sel = some (popped, left)) (hs : SInv e) (hw : WInv e) :
    SInv (gatherEp e popped left) ∧ WInv (gatherEp e popped left) := by
  obtain ⟨a1, a2, a3, a4, a5⟩ := assign_spec popped e.nextTSN
  have hmem := popSel_mem e.il sel _ _ _ hp
  have hsub := popSel_sublist e.il sel _ _ _ hp
  have hperm := popSel_perm e.il sel _ _ _ hp
  generalize hA : assign e.nextTSN popped = A at a1 a2 a3 a4 a5
  -- facts about the new sent log and the rest of the queue
  have H_tsnLt : ∀ c ∈ e.sent ++ A.1, c.tsn < A.2.2 := by
    intro c hc
    rcases List.mem_append.mp hc with h | h
    · have := hs.tsnLt c h; omega
    · exact (a4 c h).2
  have H_tsnInj : ∀ c ∈ e.sent ++ A.1, ∀ c' ∈ e.sent ++ A.1, c.tsn = c'.tsn → c = c' := by
    intro c hc c' hc' heq
    rcases List.mem_append.mp hc with h | h <;> rcases List.mem_append.mp hc' with h' | h'
    · exact hs.tsnInj c h c' h' heq
    · have := hs.tsnLt c h; have := (a4 c' h').1; omega
    · have := hs.tsnLt c' h'; have := (a4 c h).1; omega
    · exact pairwise_lt_inj A.1 a5 c h c' h' heq
  have H_mc : ∀ s h, Item.marker s h ∈ left → ∃ o, e.objs[h]? = some o ∧ o.sid = s ∧ ¬ isOpen o :=
    fun s h hm => hs.markerClosed s h (hsub.subset hm)
  have H_items : ∀ d, d ∈ (e.sent ++ A.1).map (·.d) ++ pendData left ↔ d ∈ e.items := by
    intro d
    unfold Ep.items
    simp only [List.map_append, List.mem_append, a1, mem_pendData]
    rw [hmem (Item.data d)]
    constructor
    · rintro ((h | h) | h)
      · exact Or.inl h
      · exact Or.inr (Or.inl h)
      · exact Or.inr (Or.inr h)
    · rintro (h | h | h)
      · exact Or.inl (Or.inl h)
      · exact Or.inl (Or.inr h)
      · exact Or.inr h
  have hsid : ∀ s w d, Item.marker s w ∈ e.pend → Item.data d ∈ e.pend → d.wobj = w → d.sid = s := by
    intro s w d hm hd hdw
    obtain ⟨o, ho, hos, _⟩ := hs.markerClosed s w hm
    have hdi : d ∈ e.items := by unfold Ep.items; exact List.mem_append_right _ ((mem_pendData _ _).mpr hd)
    obtain ⟨o2, ho2, hs2, _⟩ := hw.item d hdi
    rw [hdw, ho] at ho2; cases ho2
    rw [← hs2, hos]
  -- old requests stay what they were
  have H_oldRec : ∀ rec ∈ e.reqLog, ∀ p ∈ rec.sids.zip rec.wobjs, ∃ o, e.objs[p.2]? = some o ∧ o.sid = p.1 ∧ ¬ isOpen o ∧
      (∀ s, Item.marker s p.2 ∉ left) ∧ (∀ d, Item.data d ∈ left → d.wobj ≠ p.2) ∧
      (∀ c ∈ e.sent ++ A.1, c.d.wobj = p.2 → c.tsn ≤ rec.last) := by
    intro rec hr p hpz
    obtain ⟨o, ho, x1, x2, x3, x4, x5⟩ := (hs.recOK rec hr).2.2 p hpz
    refine ⟨o, ho, x1, x2, fun s hm => x3 s (hsub.subset hm), fun d hd => x4 d (hsub.subset hd), ?_⟩
    intro c hc hcw
    rcases List.mem_append.mp hc with h | h
    · exact x5 c h hcw
    · exfalso
      have : c.d ∈ pendData popped := by rw [← a1]; exact List.mem_map_of_mem h
      have : Item.data c.d ∈ e.pend := (hmem _).mpr (Or.inl ((mem_pendData _ _).mp this))
      exact x4 c.d this hcw
  have hwinv : ∀ (e2 : Ep), e2.il = e.il → e2.objs = e.objs → e2.pend = left → e2.sent = e.sent ++ A.1 → WInv e2 := by
    intro e2 h1 h2 h3 h4
    apply hw.transportItems h1 h2
    intro d
    unfold Ep.items at *
    rw [h3, h4]; exact H_items d
  unfold gatherEp
  rw [hA]
  simp only
  by_cases hmk : A.2.1.isEmpty = true
  · -- no marker left the queue: no new request
    rw [if_pos hmk]
    have hnomark : ∀ s h, Item.marker s h ∉ popped := by
      intro s h hm
      have : (s, h) ∈ pendMarkers popped := (mem_pendMarkers _ _ _).mpr hm
      rw [← a2] at this
      have hnil : A.2.1 = [] := by simpa using hmk
      rw [hnil] at this; cases this
    refine ⟨⟨H_tsnLt, H_tsnInj, H_mc, hs.markerLast.sublist hsub, hs.markerUniq.sublist hsub, ?_, ?_, hs.rsnInj, hs.recUniq, ?_⟩,
      hwinv _ rfl rfl rfl rfl⟩
    · intro j oj hoj hc
      rcases hs.closedHas j oj hoj hc with ⟨s, hm⟩ | hr
      · rcases (hmem _).mp hm with h | h
        · exact absurd h (hnomark s j)
        · exact Or.inl ⟨s, h⟩
      · exact Or.inr hr
    · intro rec hr
      exact ⟨(hs.recOK rec hr).1, (hs.recOK rec hr).2.1, H_oldRec rec hr⟩
    · intro p hp; cases hp
  · -- markers were popped: the request that closes their objects
    rw [if_neg hmk]
    have hmarkers : ∀ s h, (s, h) ∈ A.2.1 ↔ Item.marker s h ∈ popped := by
      intro s h; rw [a2]; exact mem_pendMarkers _ _ _
    -- symmetric form of "one marker per object" moved along the permutation
    have huniq : ∀ s h s', Item.marker s h ∈ popped → Item.marker s' h ∉ left := by
      intro s h s' hpop hleft
      have hsym : (popped ++ left).Pairwise (fun a b => ∀ s h s', ¬ (a = Item.marker s h ∧ b = Item.marker s' h)) := by
        have hpw : e.pend.Pairwise (fun a b => ∀ s h s', ¬ (a = Item.marker s h ∧ b = Item.marker s' h)) := by
          refine hs.markerUniq.imp ?_
          intro a b hab s h s' ⟨ha, hb⟩
          exact hab s h s' ha hb
        refine (List.Perm.pairwise_iff ?_ hperm).mp hpw
        intro a b hab s h s' ⟨ha, hb⟩
        exact hab s' h s ⟨hb, ha⟩
      exact (List.pairwise_append.mp hsym).2.2 _ hpop _ hleft s h s' ⟨rfl, rfl⟩
    have hnew : ∀ p ∈ (newReqRec e A.2.1 A.2.2).sids.zip (newReqRec e A.2.1 A.2.2).wobjs,
        ∃ o, e.objs[p.2]? = some o ∧ o.sid = p.1 ∧ ¬ isOpen o ∧
        (∀ s, Item.marker s p.2 ∉ left) ∧ (∀ d, Item.data d ∈ left → d.wobj ≠ p.2) ∧
        (∀ c ∈ e.sent ++ A.1, c.d.wobj = p.2 → c.tsn ≤ (newReqRec e A.2.1 A.2.2).last) := by
      intro p hpz
      simp only [newReqRec, zip_map_fst_snd] at hpz
      have hpop : Item.marker p.1 p.2 ∈ popped := (hmarkers p.1 p.2).mp hpz
      obtain ⟨o, ho, x1, x2⟩ := hs.markerClosed p.1 p.2 ((hmem _).mpr (Or.inl hpop))
      refine ⟨o, ho, x1, x2, fun s => huniq p.1 p.2 s hpop, ?_, ?_⟩
      · exact popSel_marker e.il sel _ _ _ hp hs.markerLast hsid p.1 p.2 hpop
      · intro c hc _
        have := H_tsnLt c hc
        simp only [newReqRec]; omega
    refine ⟨⟨H_tsnLt, H_tsnInj, H_mc, hs.markerLast.sublist hsub, hs.markerUniq.sublist hsub, ?_, ?_, ?_, ?_, ?_⟩,
      hwinv _ rfl rfl rfl rfl⟩
    · intro j oj hoj hc
      rcases hs.closedHas j oj hoj hc with ⟨s, hm⟩ | ⟨rec, hr, hj⟩
      · rcases (hmem _).mp hm with h | h
        · refine Or.inr ⟨newReqRec e A.2.1 A.2.2, List.mem_append_right _ (List.mem_singleton.mpr rfl), ?_⟩
          simp only [newReqRec, List.mem_map]
          exact ⟨(s, j), (hmarkers s j).mpr h, rfl⟩
        · exact Or.inl ⟨s, h⟩
      · exact Or.inr ⟨rec, List.mem_append_left _ hr, hj⟩
    · intro rec hr
      rcases List.mem_append.mp hr with hr | hr
      · exact ⟨(hs.recOK rec hr).1, Nat.lt_succ_of_lt (hs.recOK rec hr).2.1, H_oldRec rec hr⟩
      · simp only [List.mem_singleton] at hr; subst hr
        exact ⟨by simp [newReqRec], by simp [newReqRec], hnew⟩
    · intro r hr r' hr' heq
      rcases List.mem_append.mp hr with h | h <;> rcases List.mem_append.mp hr' with h' | h'
      · exact hs.rsnInj r h r' h' heq
      · simp only [List.mem_singleton] at h'; subst h'
        have := (hs.recOK r h).2.1; simp only [newReqRec] at heq; omega
      · simp only [List.mem_singleton] at h; subst h
        have := (hs.recOK r' h').2.1; simp only [newReqRec] at heq; omega
      · simp only [List.mem_singleton] at h h'; rw [h, h']
    · -- an object is named by at most one request
      have hfresh : ∀ r ∈ e.reqLog, ∀ j, j ∈ r.wobjs → j ∉ (newReqRec e A.2.1 A.2.2).wobjs := by
        intro r hr j hj hjn
        simp only [newReqRec, List.mem_map] at hjn
        obtain ⟨⟨s, j'⟩, hsj, rfl⟩ := hjn
        have hpop := (hmarkers s j').mp hsj
        -- j' is the second component of some pair of r
        obtain ⟨hlen, _, hall⟩ := hs.recOK r hr
        obtain ⟨i, hi, hij⟩ := List.mem_iff_getElem.mp hj
        have hi' : i < r.sids.length := by omega
        have hz : (r.sids[i], r.wobjs[i]) ∈ r.sids.zip r.wobjs := by
          apply List.mem_iff_getElem.mpr
          refine ⟨i, by simp [List.length_zip]; omega, by simp⟩
        obtain ⟨_, _, _, _, x3, _, _⟩ := hall _ hz
        simp only [hij] at x3
        exact x3 s ((hmem _).mpr (Or.inl hpop))
      intro r hr r' hr' j hj hj'
      rcases List.mem_append.mp hr with h | h <;> rcases List.mem_append.mp hr' with h' | h'
      · exact hs.recUniq r h r' h' j hj hj'
      · simp only [List.mem_singleton] at h'; subst h'
        exact absurd hj' (hfresh r h j hj)
      · simp only [List.mem_singleton] at h; subst h
        exact absurd hj (hfresh r' h' j hj')
      · simp only [List.mem_singleton] at h h'; rw [h, h']
    · intro p hp; cases hp

theorem gather_inv (e : Ep) (sel : List Nat) (pre post : List (List Nat)) (sack : Bool) (e2 : Ep) (out : List Msg)
    (hg : gather e sel pre post sack = some (e2, out)) (hs : SInv e) (hw : WInv e) : SInv e2 ∧ WInv e2 := by
  unfold gather at hg
  split at hg
  · cases hg
  · rename_i popped left hp
    simp only at hg
    split at hg
    · simp only [Option.some.injEq, Prod.mk.injEq] at hg
      rw [← hg.1]
      exact gatherEp_inv e sel popped left hp hs hw
    · cases hg

end Rs
