import SctpVerif.Proofs.Reset.Basic
/-!
What one pass of the write loop takes out of the pending queue (`popSel`, `assign`): membership, order, TSNs, and the
position of the end-of-stream marker relative to the data of the object that queued it.
-/
namespace Rs

def pendData (p : List Item) : List Data := p.filterMap (fun it => match it with | .data d => some d | .marker .. => none)

def pendMarkers (p : List Item) : List (Nat × Nat) := p.filterMap (fun it => match it with | .data _ => none | .marker s h => some (s, h))

theorem mem_pendData (p : List Item) (d : Data) : d ∈ pendData p ↔ Item.data d ∈ p := by
  unfold pendData
  rw [List.mem_filterMap]
  constructor
  · rintro ⟨it, hit, h⟩
    cases it with
    | data d' => simp at h; subst h; exact hit
    | marker s w => simp at h
  · intro h; exact ⟨_, h, rfl⟩

theorem mem_pendMarkers (p : List Item) (s h : Nat) : (s, h) ∈ pendMarkers p ↔ Item.marker s h ∈ p := by
  unfold pendMarkers
  rw [List.mem_filterMap]
  constructor
  · rintro ⟨it, hit, hh⟩
    cases it with
    | data d' => simp at hh
    | marker s' w => simp at hh; obtain ⟨rfl, rfl⟩ := hh; exact hit
  · intro hh; exact ⟨_, hh, rfl⟩

theorem pendData_append (p q : List Item) : pendData (p ++ q) = pendData p ++ pendData q := by
  simp [pendData, List.filterMap_append]

theorem mem_eraseIdx_or {α : Type} (l : List α) (i : Nat) (x a : α) (hi : l[i]? = some x) :
    a ∈ l ↔ a = x ∨ a ∈ l.eraseIdx i := by
  have hlt : i < l.length := by
    rcases Nat.lt_or_ge i l.length with h | h
    · exact h
    · rw [List.getElem?_eq_none h] at hi; cases hi
  have hx : l[i] = x := by
    have := List.getElem?_eq_getElem hlt
    rw [this] at hi; exact Option.some.inj hi
  have hsplit : l = l.take i ++ x :: l.drop (i + 1) := by
    rw [← hx, List.getElem_cons_drop hlt, List.take_append_drop]
  have herase : l.eraseIdx i = l.take i ++ l.drop (i + 1) := List.eraseIdx_eq_take_drop_succ l i
  rw [herase]
  constructor
  · intro ha
    rw [hsplit] at ha
    simp only [List.mem_append, List.mem_cons] at ha ⊢
    rcases ha with h | h | h
    · exact Or.inr (Or.inl h)
    · exact Or.inl h
    · exact Or.inr (Or.inr h)
  · intro ha
    rw [hsplit]
    simp only [List.mem_append, List.mem_cons] at ha ⊢
    rcases ha with h | h | h
    · exact Or.inr (Or.inl h)
    · exact Or.inl h
    · exact Or.inr (Or.inr h)

/-- the end-of-stream marker of an object is never followed (in queue order) by data of that object -/
def MarkerBefore (a b : Item) : Prop := ∀ s h, a = .marker s h → ∀ d, b = .data d → d.wobj ≠ h

theorem popSel_cons (il : Bool) (pend : List Item) (i : Nat) (rest : List Nat) (popped left : List Item)
    (h : popSel il pend (i :: rest) = some (popped, left)) :
    mayPop il pend i = true ∧ ∃ it out, pend[i]? = some it ∧ popSel il (pend.eraseIdx i) rest = some (out, left) ∧ popped = it :: out := by
  unfold popSel at h
  split at h
  · rename_i hm
    refine ⟨hm, ?_⟩
    split at h
    · rename_i it out left' hi hr
      simp only [Option.some.injEq, Prod.mk.injEq] at h
      obtain ⟨rfl, rfl⟩ := h
      exact ⟨it, out, hi, hr, rfl⟩
    · cases h
  · cases h

theorem popSel_mem (il : Bool) (sel : List Nat) : ∀ (pend popped left : List Item),
    popSel il pend sel = some (popped, left) → ∀ it, it ∈ pend ↔ it ∈ popped ∨ it ∈ left := by
  induction sel with
  | nil =>
    intro pend popped left h it
    simp only [popSel, Option.some.injEq, Prod.mk.injEq] at h
    obtain ⟨rfl, rfl⟩ := h
    simp
  | cons i rest ih =>
    intro pend popped left h it
    obtain ⟨_, x, out, hi, hr, rfl⟩ := popSel_cons il pend i rest popped left h
    rw [mem_eraseIdx_or pend i x it hi, ih _ _ _ hr it]
    simp only [List.mem_cons]
    constructor
    · rintro (h | h | h)
      · exact Or.inl (Or.inl h)
      · exact Or.inl (Or.inr h)
      · exact Or.inr h
    · rintro ((h | h) | h)
      · exact Or.inl h
      · exact Or.inr (Or.inl h)
      · exact Or.inr (Or.inr h)

theorem popSel_sublist (il : Bool) (sel : List Nat) : ∀ (pend popped left : List Item),
    popSel il pend sel = some (popped, left) → left.Sublist pend := by
  induction sel with
  | nil =>
    intro pend popped left h
    simp only [popSel, Option.some.injEq, Prod.mk.injEq] at h
    obtain ⟨rfl, rfl⟩ := h
    exact List.Sublist.refl _
  | cons i rest ih =>
    intro pend popped left h
    obtain ⟨_, x, out, _, hr, rfl⟩ := popSel_cons il pend i rest popped left h
    exact (ih _ _ _ hr).trans (List.eraseIdx_sublist pend i)

/-- when a marker leaves the queue, no data of the object that queued it stays behind -/
theorem popSel_marker (il : Bool) (sel : List Nat) : ∀ (pend popped left : List Item),
    popSel il pend sel = some (popped, left) → pend.Pairwise MarkerBefore →
    (∀ s w d, Item.marker s w ∈ pend → Item.data d ∈ pend → d.wobj = w → d.sid = s) →
    ∀ s w, Item.marker s w ∈ popped → ∀ d, Item.data d ∈ left → d.wobj ≠ w := by
  induction sel with
  | nil =>
    intro pend popped left h _ _ s w hm
    simp only [popSel, Option.some.injEq, Prod.mk.injEq] at h
    obtain ⟨rfl, rfl⟩ := h
    cases hm
  | cons i rest ih =>
    intro pend popped left h hpw hsid s w hm d hd
    obtain ⟨hmay, x, out, hi, hr, rfl⟩ := popSel_cons il pend i rest popped left h
    have hsub : (pend.eraseIdx i).Sublist pend := List.eraseIdx_sublist pend i
    rcases List.mem_cons.mp hm with hx | hout
    · -- the marker is the entry popped now
      subst hx
      have hdl : Item.data d ∈ pend.eraseIdx i := (popSel_sublist il rest _ _ _ hr).subset hd
      have hlt : i < pend.length := by
        rcases Nat.lt_or_ge i pend.length with h | h
        · exact h
        · rw [List.getElem?_eq_none h] at hi; cases hi
      have hx : pend[i] = Item.marker s w := by
        have := List.getElem?_eq_getElem hlt
        rw [this] at hi; exact Option.some.inj hi
      have hsplit : pend = pend.take i ++ Item.marker s w :: pend.drop (i + 1) := by
        rw [← hx, List.getElem_cons_drop hlt, List.take_append_drop]
      rw [List.eraseIdx_eq_take_drop_succ] at hdl
      have hmp : Item.marker s w ∈ pend := by rw [hsplit]; simp
      rcases List.mem_append.mp hdl with hbefore | hafter
      · -- before the marker: excluded by the queue discipline
        intro hw
        have hds : d.sid = s := hsid s w d hmp ((List.take_subset i pend) hbefore) hw
        unfold mayPop at hmay
        rw [hi] at hmay
        simp only at hmay
        cases il with
        | true =>
          simp only [↓reduceIte, List.all_eq_true, bne_iff_ne, ne_eq] at hmay
          exact hmay _ hbefore (by simpa [Item.sid] using hds)
        | false =>
          simp only [Bool.false_eq_true, ↓reduceIte, Item.isUnord, Bool.and_eq_true, beq_iff_eq] at hmay
          have : i = 0 := hmay.2
          subst this
          simp at hbefore
      · -- behind the marker: excluded by the invariant of the queue
        rw [hsplit] at hpw
        have := (List.pairwise_append.mp hpw).2.1
        have := (List.pairwise_cons.mp this).1 _ hafter
        exact this s w rfl d rfl
    · exact ih _ _ _ hr (hpw.sublist hsub) (fun s w d h1 h2 => hsid s w d (hsub.subset h1) (hsub.subset h2)) s w hout d hd

theorem perm_eraseIdx {α : Type} (l : List α) (i : Nat) (x : α) (hi : l[i]? = some x) : l.Perm (x :: l.eraseIdx i) := by
  have hlt : i < l.length := by
    rcases Nat.lt_or_ge i l.length with h | h
    · exact h
    · rw [List.getElem?_eq_none h] at hi; cases hi
  have hx : l[i] = x := by
    have := List.getElem?_eq_getElem hlt
    rw [this] at hi; exact Option.some.inj hi
  have hsplit : l = l.take i ++ x :: l.drop (i + 1) := by
    rw [← hx, List.getElem_cons_drop hlt, List.take_append_drop]
  rw [List.eraseIdx_eq_take_drop_succ]
  conv => lhs; rw [hsplit]
  exact List.perm_middle

theorem popSel_perm (il : Bool) (sel : List Nat) : ∀ (pend popped left : List Item),
    popSel il pend sel = some (popped, left) → pend.Perm (popped ++ left) := by
  induction sel with
  | nil =>
    intro pend popped left h
    simp only [popSel, Option.some.injEq, Prod.mk.injEq] at h
    obtain ⟨rfl, rfl⟩ := h
    simp
  | cons i rest ih =>
    intro pend popped left h
    obtain ⟨_, x, out, hi, hr, rfl⟩ := popSel_cons il pend i rest popped left h
    exact (perm_eraseIdx pend i x hi).trans (List.Perm.cons x (ih _ _ _ hr))

theorem pairwise_lt_inj (l : List Chunk) (h : l.Pairwise (fun a b => a.tsn < b.tsn)) :
    ∀ c ∈ l, ∀ c' ∈ l, c.tsn = c'.tsn → c = c' := by
  induction l with
  | nil => intro c hc; cases hc
  | cons x rest ih =>
    obtain ⟨hx, hr⟩ := List.pairwise_cons.mp h
    intro c hc c' hc' heq
    rcases List.mem_cons.mp hc with h1 | h1
    · rcases List.mem_cons.mp hc' with h2 | h2
      · rw [h1, h2]
      · have := hx c' h2; rw [h1] at heq; omega
    · rcases List.mem_cons.mp hc' with h2 | h2
      · have := hx c h1; rw [h2] at heq; omega
      · exact ih hr c h1 c' h2 heq

/-! ### TSN assignment -/

theorem assign_spec (popped : List Item) : ∀ next,
    (assign next popped).1.map (·.d) = pendData popped ∧ (assign next popped).2.1 = pendMarkers popped ∧
    (assign next popped).2.2 = next + (pendData popped).length ∧
    (∀ c ∈ (assign next popped).1, next ≤ c.tsn ∧ c.tsn < (assign next popped).2.2) ∧
    (assign next popped).1.Pairwise (fun a b => a.tsn < b.tsn) := by
  induction popped with
  | nil => intro next; simp [assign, pendData, pendMarkers]
  | cons it rest ih =>
    intro next
    cases it with
    | data d =>
      obtain ⟨h1, h2, h3, h4, h5⟩ := ih (next + 1)
      simp only [assign]
      refine ⟨?_, ?_, ?_, ?_, ?_⟩
      · simp [pendData] at h1 ⊢; exact h1
      · simp [pendMarkers] at h2 ⊢; exact h2
      · rw [h3]; simp [pendData]; omega
      · intro c hc
        rcases List.mem_cons.mp hc with rfl | hc
        · simp only; rw [h3]; omega
        · have := h4 c hc; omega
      · refine List.pairwise_cons.mpr ⟨?_, h5⟩
        intro c hc
        have := h4 c hc
        simp only; omega
    | marker s w =>
      obtain ⟨h1, h2, h3, h4, h5⟩ := ih next
      simp only [assign]
      refine ⟨?_, ?_, ?_, h4, h5⟩
      · simp [pendData] at h1 ⊢; exact h1
      · simp [pendMarkers] at h2 ⊢; exact h2
      · rw [h3]; simp [pendData]

end Rs
