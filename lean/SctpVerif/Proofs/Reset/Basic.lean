import SctpVerif.Model.Reset
/-!
Basic facts about the stream-reset model `Rs`: association-list helpers, and what the handlers of RE-CONFIG
parameters can and cannot touch (the local halves of C14: a performed request is only answered, a response never
touches an open stream, a reset leaves the receive queues alone).
-/
namespace Rs

/-! ### association lists -/

theorem lookup_cons {β : Type} (k k' : Nat) (v : β) (l : List (Nat × β)) :
    lookup k ((k', v) :: l) = if k' = k then some v else lookup k l := rfl

theorem lookup_erase_self {β : Type} (k : Nat) (l : List (Nat × β)) : lookup k (erase k l) = none := by
  induction l with
  | nil => rfl
  | cons p rest ih =>
    obtain ⟨k', v⟩ := p
    unfold erase at ih ⊢
    by_cases h : k' = k
    · subst h; simpa [List.filter_cons] using ih
    · simp only [List.filter_cons, bne_iff_ne, ne_eq, h, not_false_eq_true, ↓reduceIte, lookup_cons]; exact ih

theorem lookup_erase_ne {β : Type} (k k' : Nat) (l : List (Nat × β)) (hne : k' ≠ k) :
    lookup k' (erase k l) = lookup k' l := by
  induction l with
  | nil => rfl
  | cons p rest ih =>
    obtain ⟨k'', v⟩ := p
    unfold erase at ih ⊢
    by_cases h : k'' = k
    · subst h
      have : ¬ k'' = k' := fun h => hne h.symm
      simpa [List.filter_cons, lookup_cons, this] using ih
    · simp only [List.filter_cons, bne_iff_ne, ne_eq, h, not_false_eq_true, ↓reduceIte, lookup_cons]
      rw [ih]

theorem lookup_insert_self {β : Type} (k : Nat) (v : β) (l : List (Nat × β)) : lookup k (insert k v l) = some v := by
  simp [insert, lookup_cons]

theorem lookup_insert_ne {β : Type} (k k' : Nat) (v : β) (l : List (Nat × β)) (hne : k' ≠ k) :
    lookup k' (insert k v l) = lookup k' l := by
  have : ¬ k = k' := fun h => hne h.symm
  simp [insert, lookup_cons, this, lookup_erase_ne k k' l hne]

theorem lookup_mem {β : Type} (k : Nat) (v : β) (l : List (Nat × β)) (h : lookup k l = some v) : (k, v) ∈ l := by
  induction l with
  | nil => simp [lookup] at h
  | cons p rest ih =>
    obtain ⟨k', v'⟩ := p
    rw [lookup_cons] at h
    split at h
    · rename_i hk; subst hk; cases h; exact List.mem_cons_self
    · exact List.mem_cons_of_mem _ (ih h)

theorem mem_erase {β : Type} (k : Nat) (l : List (Nat × β)) (p : Nat × β) : p ∈ erase k l ↔ p ∈ l ∧ p.1 ≠ k := by
  simp [erase]

/-! ### which fields of a stream object a handler may change -/

/-- everything the reader will be handed, and the identity of the object, is the same -/
structure QueueSame (o o' : Obj) : Prop where
  sid : o'.sid = o.sid
  gen : o'.gen = o.gen
  nextSeq : o'.nextSeq = o.nextSeq
  ord : o'.ord = o.ord
  unord : o'.unord = o.unord
  got : o'.got = o.got
  rx : o'.rx = o.rx
  wrote : o'.wrote = o.wrote
  eofSeen : o'.eofSeen = o.eofSeen

theorem QueueSame.refl (o : Obj) : QueueSame o o := ⟨rfl, rfl, rfl, rfl, rfl, rfl, rfl, rfl, rfl⟩

theorem QueueSame.trans {a b c : Obj} (h1 : QueueSame a b) (h2 : QueueSame b c) : QueueSame a c :=
  ⟨h2.sid.trans h1.sid, h2.gen.trans h1.gen, h2.nextSeq.trans h1.nextSeq, h2.ord.trans h1.ord, h2.unord.trans h1.unord,
   h2.got.trans h1.got, h2.rx.trans h1.rx, h2.wrote.trans h1.wrote, h2.eofSeen.trans h1.eofSeen⟩

theorem inboundReset_queueSame (o : Obj) : QueueSame o (inboundReset o) := ⟨rfl, rfl, rfl, rfl, rfl, rfl, rfl, rfl, rfl⟩

/-- pointwise relation between two object tables -/
def ObjsRel (R : Obj → Obj → Prop) (l l' : List Obj) : Prop :=
  l'.length = l.length ∧ ∀ (h : Nat) (o : Obj), l[h]? = some o → ∃ o', l'[h]? = some o' ∧ R o o'

theorem ObjsRel.refl {R : Obj → Obj → Prop} (hr : ∀ o, R o o) (l : List Obj) : ObjsRel R l l :=
  ⟨rfl, fun _ o h => ⟨o, h, hr o⟩⟩

theorem ObjsRel.trans {R : Obj → Obj → Prop} (ht : ∀ a b c, R a b → R b c → R a c) {l l' l'' : List Obj}
    (h1 : ObjsRel R l l') (h2 : ObjsRel R l' l'') : ObjsRel R l l'' := by
  refine ⟨h2.1.trans h1.1, ?_⟩
  intro h o ho
  obtain ⟨o', ho', r1⟩ := h1.2 h o ho
  obtain ⟨o'', ho'', r2⟩ := h2.2 h o' ho'
  exact ⟨o'', ho'', ht _ _ _ r1 r2⟩

theorem ObjsRel.set {R : Obj → Obj → Prop} (hr : ∀ o, R o o) (l : List Obj) (h : Nat) (o o' : Obj)
    (ho : l[h]? = some o) (r : R o o') : ObjsRel R l (l.set h o') := by
  refine ⟨by simp, ?_⟩
  intro j oj hj
  by_cases hjh : h = j
  · subst hjh
    rw [ho] at hj; cases hj
    have hlt : h < l.length := by
      rcases Nat.lt_or_ge h l.length with hl | hl
      · exact hl
      · rw [List.getElem?_eq_none hl] at ho; cases ho
    exact ⟨o', by simp [hlt], r⟩
  · exact ⟨oj, by rw [List.getElem?_set_ne hjh]; exact hj, hr oj⟩

/-! ### the reset handlers leave the receive queues alone (local half of `C14_received_stay_readable`) -/

theorem resetOne_objs (e : Ep) (sid : Nat) : ObjsRel QueueSame e.objs (resetOne e sid).objs := by
  unfold resetOne
  split
  · exact ObjsRel.refl QueueSame.refl _
  · split
    · exact ObjsRel.refl QueueSame.refl _
    · rename_i h _ o ho
      exact ObjsRel.set QueueSame.refl _ _ _ _ ho (inboundReset_queueSame o)

theorem foldl_resetOne_objs (sids : List Nat) (e : Ep) : ObjsRel QueueSame e.objs (sids.foldl resetOne e).objs := by
  induction sids generalizing e with
  | nil => exact ObjsRel.refl QueueSame.refl _
  | cons s rest ih =>
    simp only [List.foldl_cons]
    exact ObjsRel.trans (R := QueueSame) (fun _ _ _ h1 h2 => QueueSame.trans h1 h2) (resetOne_objs e s) (ih _)

theorem resetStreamsIfAny_objs (e : Ep) (rsn last : Nat) (sids : List Nat) :
    ObjsRel QueueSame e.objs (resetStreamsIfAny e rsn last sids).1.objs := by
  unfold resetStreamsIfAny
  split
  · exact foldl_resetOne_objs sids e
  · exact ObjsRel.refl QueueSame.refl _

/-- a reset request — performed, deferred, refused or repeated — never changes what an object holds for its reader -/
theorem handleReq_objs (e : Ep) (rsn last : Nat) (sids : List Nat) :
    ObjsRel QueueSame e.objs (handleReq e rsn last sids).1.objs := by
  unfold handleReq
  split
  · exact ObjsRel.refl QueueSame.refl _
  · split
    · exact ObjsRel.refl QueueSame.refl _
    · exact resetStreamsIfAny_objs { e with rreqs := insert rsn (last, sids) e.rreqs } rsn last sids

/-! ### a request whose number was performed is answered, never performed again (local half of D10) -/

theorem handleReq_performed (e : Ep) (rsn last : Nat) (sids : List Nat) (h : rsn ∈ e.perf) :
    handleReq e rsn last sids = (e, [.resp rsn Gen.reconfigResultSuccessPerformed]) := by
  unfold handleReq
  simp [h]

/-! ### a response never touches a stream that is open (local half of D16) -/

/-- counters may have been rewound, and only on an object that is not open -/
def RewindRel (o o' : Obj) : Prop := o' = o ∨ (o.state ≠ Gen.StreamStateOpen ∧ o' = zeroCounters o)

theorem RewindRel.refl (o : Obj) : RewindRel o o := Or.inl rfl

theorem zeroCounters_idem (o : Obj) : zeroCounters (zeroCounters o) = zeroCounters o := rfl

theorem RewindRel.trans (a b c : Obj) (h1 : RewindRel a b) (h2 : RewindRel b c) : RewindRel a c := by
  rcases h1 with rfl | ⟨hs, rfl⟩
  · exact h2
  · rcases h2 with rfl | ⟨_, rfl⟩
    · exact Or.inr ⟨hs, rfl⟩
    · exact Or.inr ⟨hs, rfl⟩

theorem rewindOne_objs (e : Ep) (sid : Nat) : ObjsRel RewindRel e.objs (rewindOne e sid).objs := by
  unfold rewindOne
  split
  · exact ObjsRel.refl RewindRel.refl _
  · split
    · exact ObjsRel.refl RewindRel.refl _
    · rename_i h _ o ho
      split
      · rename_i hst
        exact ObjsRel.set RewindRel.refl _ _ _ _ ho (Or.inr ⟨by simpa using hst, rfl⟩)
      · exact ObjsRel.refl RewindRel.refl _

theorem foldl_rewindOne_objs (sids : List Nat) (e : Ep) : ObjsRel RewindRel e.objs (sids.foldl rewindOne e).objs := by
  induction sids generalizing e with
  | nil => exact ObjsRel.refl RewindRel.refl _
  | cons s rest ih =>
    simp only [List.foldl_cons]
    exact ObjsRel.trans RewindRel.trans (rewindOne_objs e s) (ih _)

theorem handleResp_objs (e : Ep) (rsn result : Nat) : ObjsRel RewindRel e.objs (handleResp e rsn result).objs := by
  unfold handleResp
  split
  · exact ObjsRel.refl RewindRel.refl _
  · simp only
    split
    · split
      · exact foldl_rewindOne_objs _ e
      · exact ObjsRel.refl RewindRel.refl _
    · exact ObjsRel.refl RewindRel.refl _

end Rs
