import SctpVerif.Proofs.Reset.Keeps
/-!
Evaluation lemmas: what single operations do on an endpoint of which only some fields are known. Used to run the
explicit schedule "write, close, both resets complete, re-open, write" for every message count.
-/
namespace Rs

/-- an ordered 8-byte message on an open stream object -/
theorem write_eval (e : Ep) (h : Nat) (o : Obj) (v : Nat) (ho : e.objs[h]? = some o) (hopen : o.state = Gen.StreamStateOpen)
    (hmps : 8 ≤ e.mps) :
    (write e h 8 false v).1 = { e with objs := e.objs.set h { bump e.il o false with wrote := o.wrote ++ [(v, false)] }, pend := e.pend ++ [Item.data { sid := o.sid, unord := false, seq := seqOf e.il o false, msg := v, len := 8, wobj := h, gen := o.gen }] } := by
  unfold write
  rw [ho]
  simp only [hopen, bne_self_eq_false, Bool.false_eq_true, ↓reduceIte]
  have : ¬ 8 > e.mps := by omega
  simp [this]

theorem findChunk_new (sent : List Chunk) (c : Chunk) (h : ∀ x ∈ sent, x.tsn < c.tsn) : findChunk (sent ++ [c]) c.tsn = some c := by
  unfold findChunk
  induction sent with
  | nil => simp
  | cons x rest ih =>
    have hx : x.tsn < c.tsn := h x List.mem_cons_self
    have : (x.tsn == c.tsn) = false := by simp; omega
    simp only [List.cons_append, List.find?_cons, this]
    exact ih (fun y hy => h y (List.mem_cons_of_mem _ hy))

/-- the write loop sends the single pending ordered message in a packet of its own -/
theorem gather_one (e : Ep) (d : Data) (hp : e.pend = [Item.data d]) (hu : d.unord = false) (hctl : e.ctl = []) (hwr : e.wr = false)
    (hlt : ∀ c ∈ e.sent, c.tsn < e.nextTSN) :
    gather e [0] [[e.nextTSN]] [] false =
      some ({ e with pend := [], sent := e.sent ++ [{ tsn := e.nextTSN, d := d }], nextTSN := e.nextTSN + 1, ctl := [], wr := false }, [Msg.data [{ tsn := e.nextTSN, d := d }]]) := by
  have hpop : popSel e.il e.pend [0] = some ([Item.data d], []) := by
    rw [hp]
    simp only [popSel]
    have hm : mayPop e.il [Item.data d] 0 = true := by
      unfold mayPop
      cases e.il <;> simp [Item.isUnord, hu]
    simp [hm]
  have hfind : findChunk (e.sent ++ [{ tsn := e.nextTSN, d := d }]) e.nextTSN = some { tsn := e.nextTSN, d := d } :=
    findChunk_new e.sent { tsn := e.nextTSN, d := d } hlt
  unfold gather
  rw [hpop]
  simp only [assign, mkDatas, mkData, findAll, hfind, Option.map_some]
  simp [gatherEp, gatherOut, assign, hctl, hwr]

theorem sum_map_zero {α : Type} (f : α → Nat) (l : List α) (h : ∀ p ∈ l, f p = 0) : (l.map f).sum = 0 := by
  induction l with
  | nil => rfl
  | cons x rest ih =>
    simp only [List.map_cons, List.sum_cons]
    rw [h x List.mem_cons_self, ih (fun p hp => h p (List.mem_cons_of_mem _ hp))]

theorem credit_pos_of_empty (e : Ep) (hb : 0 < e.buf)
    (hq : ∀ p ∈ e.reg, ∀ o, e.objs[p.2]? = some o → o.ord = [] ∧ o.unord = []) : credit e ≠ 0 := by
  unfold credit
  have h0 : ∀ f : Nat × Nat → Nat, (∀ p ∈ e.reg, f p = 0) →
      ¬ ((if (e.reg.map f).sum ≥ e.buf then 0 else e.buf - (e.reg.map f).sum) = 0) := by
    intro f hf
    rw [sum_map_zero f _ hf]
    have : ¬ 0 ≥ e.buf := by omega
    simp only [this, ↓reduceIte]
    omega
  apply h0
  intro p hp
  split
  · rename_i o ho
    obtain ⟨a, b⟩ := hq p hp o ho
    simp [objBytes, a, b]
  · rfl

/-- the next in-order chunk for a registered stream object, nothing deferred: the cumulative point moves by one -/
theorem handleData_inorder (e : Ep) (c : Chunk) (h : Nat) (o : Obj) (hrcv : e.rcv = []) (htsn : c.tsn = e.cum + 1) (hoff : 1 ≤ e.maxOff)
    (hl : lookup c.d.sid e.reg = some h) (ho : e.objs[h]? = some o) (hcr : credit e ≠ 0) (hrr : e.rreqs = []) :
    handleData e c = ({ e with objs := e.objs.set h (pushObj e.il o c), rcv := [], cum := e.cum + 1 }, []) := by
  unfold handleData
  have hcan : (!e.rcv.contains c.tsn && decide (e.cum < c.tsn) && decide (c.tsn ≤ e.cum + e.maxOff)) = true := by
    rw [hrcv, htsn]; simp; omega
  simp only [hcan, ↓reduceIte, hl]
  have hcr' : (credit e == 0) = false := by simpa using hcr
  simp only [hcr', Bool.false_eq_true, ↓reduceIte, ho]
  simp only [hrcv, List.length_cons, List.length_nil, Nat.zero_add, advance, htsn]
  simp [recheck, hrr]

/-- the first chunk for an identifier that is not in the stream table -/
theorem handleData_inorder_new (e : Ep) (c : Chunk) (hrcv : e.rcv = []) (htsn : c.tsn = e.cum + 1) (hoff : 1 ≤ e.maxOff)
    (hl : lookup c.d.sid e.reg = none) (hacq : e.acq.length < e.accCap) (hrr : e.rreqs = [])
    (hcr : credit { e with objs := e.objs ++ [{ sid := c.d.sid, gen := c.d.gen }], reg := insert c.d.sid e.objs.length e.reg, acq := e.acq ++ [e.objs.length] } ≠ 0) :
    handleData e c = ({ e with objs := e.objs ++ [pushObj e.il { sid := c.d.sid, gen := c.d.gen } c], reg := insert c.d.sid e.objs.length e.reg, acq := e.acq ++ [e.objs.length], rcv := [], cum := e.cum + 1 }, []) := by
  unfold handleData
  have hcan : (!e.rcv.contains c.tsn && decide (e.cum < c.tsn) && decide (c.tsn ≤ e.cum + e.maxOff)) = true := by
    rw [hrcv, htsn]; simp; omega
  simp only [hcan, ↓reduceIte, hl, hacq]
  have hcr' : (credit { e with objs := e.objs ++ [{ sid := c.d.sid, gen := c.d.gen }], reg := insert c.d.sid e.objs.length e.reg, acq := e.acq ++ [e.objs.length] } == 0) = false := by simpa using hcr
  simp only [hcr', Bool.false_eq_true, ↓reduceIte]
  simp only [List.getElem?_append_right (Nat.le_refl _), Nat.sub_self, List.getElem?_cons_zero]
  simp only [hrcv, List.length_cons, List.length_nil, Nat.zero_add, advance, htsn]
  simp [recheck, hrr]

/-- an ordered chunk with the expected sequence number enters an empty ordered queue -/
theorem pushObj_next (il : Bool) (o : Obj) (c : Chunk) (hu : c.d.unord = false) (hs : c.d.seq = o.nextSeq) (hord : o.ord = []) :
    pushObj il o c = { o with rx := o.rx ++ [c], ord := [{ seq := c.d.seq, msg := c.d.msg, len := c.d.len }] } := by
  unfold pushObj
  simp [hu, hs, hord, insOrd]

/-- reading exactly the one queued ordered message -/
theorem read_one (e : Ep) (h : Nat) (o : Obj) (q : QMsg) (ho : e.objs[h]? = some o) (hun : o.unord = []) (hord : o.ord = [q])
    (hs : q.seq = o.nextSeq) (hre : o.readErr = false) :
    (read e h).1 = { e with objs := e.objs.set h { o with ord := [], nextSeq := o.nextSeq + 1, got := o.got ++ [(q.msg, false)] } } := by
  unfold read
  rw [ho]
  simp only [hun, hord, List.length_cons, List.length_nil, Nat.zero_add, Nat.add_zero]
  simp [drain, readOne, hun, hord, hs, hre]

/-! ### one message through the fault-free path: write, send, deliver, read -/

theorem run_append (s : Sys) (l1 l2 : List Op) : s.run (l1 ++ l2) = (s.run l1).run l2 := by
  unfold Sys.run; rw [List.foldl_append]

theorem run_inv_of (s : Sys) (ops : List Op) (h : SysInv s) : SysInv (s.run ops) := by
  unfold Sys.run
  induction ops generalizing s with
  | nil => exact h
  | cons op rest ih => simp only [List.foldl_cons]; exact ih _ (step_inv s op h)

/-- the chunk that carries message `v` written as the `k`-th ordered message of object `hA` (stream 1) -/
def chunkOf (tsn k v hA gn : Nat) : Chunk :=
  { tsn := tsn, d := { sid := 1, unord := false, seq := k, msg := v, len := 8, wobj := hA, gen := gn } }

/-- A writes one ordered message on its open object and the write loop sends it in a packet of its own -/
theorem flow_send (s : Sys) (hA k v : Nat) (wo : Obj) (hwo : s.a.objs[hA]? = some wo) (hopen : wo.state = Gen.StreamStateOpen)
    (hsid : wo.sid = 1) (hseq : seqOf s.a.il wo false = k) (aPend : s.a.pend = []) (aCtl : s.a.ctl = []) (aWr : s.a.wr = false)
    (aMps : 8 ≤ s.a.mps) (hlt : ∀ c ∈ s.a.sent, c.tsn < s.a.nextTSN) :
    ∃ A2 : Ep, (s.step (.write false hA 8 false v)).step (.gather false [0] [[s.a.nextTSN]] [] false) =
        { s with a := A2, ha := s.ha ++ [Msg.data [chunkOf s.a.nextTSN k v hA wo.gen]] } ∧
      A2.objs = s.a.objs.set hA { bump s.a.il wo false with wrote := wo.wrote ++ [(v, false)] } ∧
      A2.pend = [] ∧ A2.ctl = [] ∧ A2.wr = false ∧ A2.mps = s.a.mps ∧ A2.nextTSN = s.a.nextTSN + 1 ∧ A2.il = s.a.il ∧
      A2.reg = s.a.reg ∧ A2.reconfigs = s.a.reconfigs ∧ A2.reqLog = s.a.reqLog ∧ A2.nextRSN = s.a.nextRSN ∧ A2.perf = s.a.perf ∧
      A2.cum = s.a.cum ∧ A2.rcv = s.a.rcv ∧ A2.rreqs = s.a.rreqs ∧ A2.acq = s.a.acq ∧ A2.maxOff = s.a.maxOff ∧ A2.buf = s.a.buf ∧
      A2.accCap = s.a.accCap ∧ A2.maxReq = s.a.maxReq ∧ A2.sent = s.a.sent ++ [chunkOf s.a.nextTSN k v hA wo.gen] ∧ A2.unsup = s.a.unsup := by
  have hd : ({ sid := wo.sid, unord := false, seq := seqOf s.a.il wo false, msg := v, len := 8, wobj := hA, gen := wo.gen } : Data)
      = (chunkOf s.a.nextTSN k v hA wo.gen).d := by
    simp [chunkOf, hsid, hseq]
  have e1 := write_eval s.a hA wo v hwo hopen aMps
  rw [hd, aPend] at e1
  generalize hA1 : (write s.a hA 8 false v).1 = A1 at e1
  have g1 := gather_one A1 (chunkOf s.a.nextTSN k v hA wo.gen).d (by rw [e1]; rfl) rfl (by rw [e1]; exact aCtl) (by rw [e1]; exact aWr)
    (by rw [e1]; exact hlt)
  have hnext : A1.nextTSN = s.a.nextTSN := by rw [e1]
  rw [hnext] at g1
  have hstep1 : s.step (.write false hA 8 false v) = { s with a := A1 } := by
    simp only [Sys.step, Sys.ep, Sys.setEp, Bool.false_eq_true, ↓reduceIte, hA1]
  refine ⟨{ A1 with pend := [], sent := A1.sent ++ [{ tsn := s.a.nextTSN, d := (chunkOf s.a.nextTSN k v hA wo.gen).d }], nextTSN := s.a.nextTSN + 1, ctl := [], wr := false }, ?_, ?_⟩
  · rw [hstep1]
    simp only [Sys.step, Sys.ep, Bool.false_eq_true, ↓reduceIte, g1, Sys.put]
    rfl
  · rw [e1]
    exact ⟨rfl, rfl, rfl, rfl, rfl, rfl, rfl, rfl, rfl, rfl, rfl, rfl, rfl, rfl, rfl, rfl, rfl, rfl, rfl, rfl, rfl, rfl⟩

theorem handle_data_one (e : Ep) (c : Chunk) (e' : Ep) (h : handleData e c = (e', [])) : handle e (Msg.data [c]) = e' := by
  simp [handle, handleDatas, h, sortReplies]

/-- B (endpoint true) gets the first chunk of a stream it does not know and its application reads the message -/
theorem recv_first (s : Sys) (idx v hA gn : Nat) (hidx : s.ha[idx]? = some (Msg.data [chunkOf (s.b.cum + 1) 0 v hA gn]))
    (hreg : s.b.reg = []) (hrcv : s.b.rcv = []) (hoff : 1 ≤ s.b.maxOff) (hrr : s.b.rreqs = []) (hbuf : 0 < s.b.buf)
    (hacq : s.b.acq.length < s.b.accCap) :
    ∃ B4 : Ep, (s.step (.deliver false idx)).step (.read true s.b.objs.length) = { s with b := B4 } ∧
      B4.reg = [(1, s.b.objs.length)] ∧ B4.rcv = [] ∧ B4.cum = s.b.cum + 1 ∧ B4.rreqs = [] ∧
      B4.objs = s.b.objs ++ [{ sid := 1, gen := gn, nextSeq := 1, got := [(v, false)], rx := [chunkOf (s.b.cum + 1) 0 v hA gn] }] ∧
      B4.acq = s.b.acq ++ [s.b.objs.length] ∧ B4.maxOff = s.b.maxOff ∧ B4.buf = s.b.buf ∧ B4.accCap = s.b.accCap ∧ B4.il = s.b.il ∧
      B4.ctl = s.b.ctl ∧ B4.pend = s.b.pend ∧ B4.sent = s.b.sent ∧ B4.nextTSN = s.b.nextTSN ∧ B4.nextRSN = s.b.nextRSN ∧
      B4.reconfigs = s.b.reconfigs ∧ B4.reqLog = s.b.reqLog ∧ B4.perf = s.b.perf ∧ B4.wr = s.b.wr ∧ B4.mps = s.b.mps ∧ B4.maxReq = s.b.maxReq ∧ B4.unsup = s.b.unsup := by
  generalize hc : chunkOf (s.b.cum + 1) 0 v hA gn = c at hidx
  have hcd : c.d.sid = 1 ∧ c.d.gen = gn ∧ c.d.unord = false ∧ c.d.seq = 0 ∧ c.d.msg = v ∧ c.d.len = 8 ∧ c.tsn = s.b.cum + 1 := by
    rw [← hc]; exact ⟨rfl, rfl, rfl, rfl, rfl, rfl, rfl⟩
  obtain ⟨c1, c2, c3, c4, c5, c6, c7⟩ := hcd
  have hnone : lookup c.d.sid s.b.reg = none := by rw [hreg]; rfl
  have hcr : credit { s.b with objs := s.b.objs ++ [{ sid := c.d.sid, gen := c.d.gen }], reg := insert c.d.sid s.b.objs.length s.b.reg, acq := s.b.acq ++ [s.b.objs.length] } ≠ 0 := by
    refine credit_pos_of_empty { s.b with objs := s.b.objs ++ [{ sid := c.d.sid, gen := c.d.gen }], reg := insert c.d.sid s.b.objs.length s.b.reg, acq := s.b.acq ++ [s.b.objs.length] } hbuf ?_
    intro p hp o ho
    simp only [hreg, insert, erase, List.filter_nil, List.mem_singleton] at hp
    subst hp
    simp only at ho
    rw [List.getElem?_append_right (Nat.le_refl _)] at ho
    simp at ho
    subst ho; exact ⟨rfl, rfl⟩
  have hd0 := handleData_inorder_new s.b c hrcv c7 hoff hnone hacq hrr hcr
  have hpush : pushObj s.b.il { sid := c.d.sid, gen := c.d.gen } c = { sid := 1, gen := gn, rx := [c], ord := [{ seq := 0, msg := v, len := 8 }] } := by
    rw [pushObj_next s.b.il _ c c3 (by rw [c4]) rfl, c1, c2, c4, c5, c6]; rfl
  rw [hpush] at hd0
  have hh := handle_data_one s.b c _ hd0
  have hstep1 : s.step (.deliver false idx) = { s with b := handle s.b (Msg.data [c]) } := by
    simp only [Sys.step, Sys.hist, Bool.false_eq_true, ↓reduceIte, hidx, Bool.not_false, Sys.ep, Sys.setEp]
  rw [hstep1, hh]
  simp only [Sys.step, Sys.ep, Sys.setEp, ↓reduceIte]
  generalize hB3 : ({ s.b with objs := s.b.objs ++ [{ sid := 1, gen := gn, rx := [c], ord := [{ seq := 0, msg := v, len := 8 }] }], reg := insert c.d.sid s.b.objs.length s.b.reg, acq := s.b.acq ++ [s.b.objs.length], rcv := [], cum := s.b.cum + 1 } : Ep) = B3
  have hB3objs : B3.objs = s.b.objs ++ [{ sid := 1, gen := gn, rx := [c], ord := [{ seq := 0, msg := v, len := 8 }] }] := by rw [← hB3]
  have hget : B3.objs[s.b.objs.length]? = some { sid := 1, gen := gn, rx := [c], ord := [{ seq := 0, msg := v, len := 8 }] } := by
    rw [hB3objs]; simp
  have hr := read_one B3 s.b.objs.length _ { seq := 0, msg := v, len := 8 } hget rfl rfl rfl rfl
  refine ⟨_, by rw [hr], ?_⟩
  rw [← hB3]
  refine ⟨?_, rfl, rfl, hrr, ?_, rfl, rfl, rfl, rfl, rfl, rfl, rfl, rfl, rfl, rfl, rfl, rfl, rfl, rfl, rfl, rfl, rfl⟩
  · simp [c1, hreg, insert, erase]
  · simp [List.set_append_right]

/-- B gets the next in-order chunk for its registered object `hB` (queues empty) and its application reads the message -/
theorem recv_next (s : Sys) (idx k v hA gn hB : Nat) (ro : Obj) (hidx : s.ha[idx]? = some (Msg.data [chunkOf (s.b.cum + 1) k v hA gn]))
    (hreg : s.b.reg = [(1, hB)]) (hro : s.b.objs[hB]? = some ro) (hord : ro.ord = []) (hun : ro.unord = []) (hns : ro.nextSeq = k)
    (hre : ro.readErr = false) (hrcv : s.b.rcv = []) (hoff : 1 ≤ s.b.maxOff) (hrr : s.b.rreqs = []) (hbuf : 0 < s.b.buf) :
    ∃ B4 : Ep, (s.step (.deliver false idx)).step (.read true hB) = { s with b := B4 } ∧
      B4.reg = [(1, hB)] ∧ B4.rcv = [] ∧ B4.cum = s.b.cum + 1 ∧ B4.rreqs = [] ∧
      B4.objs = s.b.objs.set hB { ro with rx := ro.rx ++ [chunkOf (s.b.cum + 1) k v hA gn], nextSeq := k + 1, got := ro.got ++ [(v, false)] } ∧
      B4.acq = s.b.acq ∧ B4.maxOff = s.b.maxOff ∧ B4.buf = s.b.buf ∧ B4.accCap = s.b.accCap ∧ B4.il = s.b.il ∧
      B4.ctl = s.b.ctl ∧ B4.pend = s.b.pend ∧ B4.sent = s.b.sent ∧ B4.nextTSN = s.b.nextTSN ∧ B4.nextRSN = s.b.nextRSN ∧
      B4.reconfigs = s.b.reconfigs ∧ B4.reqLog = s.b.reqLog ∧ B4.perf = s.b.perf ∧ B4.wr = s.b.wr ∧ B4.mps = s.b.mps ∧ B4.maxReq = s.b.maxReq ∧ B4.unsup = s.b.unsup := by
  generalize hc : chunkOf (s.b.cum + 1) k v hA gn = c at hidx
  have hcd : c.d.sid = 1 ∧ c.d.unord = false ∧ c.d.seq = k ∧ c.d.msg = v ∧ c.d.len = 8 ∧ c.tsn = s.b.cum + 1 := by
    rw [← hc]; exact ⟨rfl, rfl, rfl, rfl, rfl, rfl⟩
  obtain ⟨c1, c3, c4, c5, c6, c7⟩ := hcd
  have hl : lookup c.d.sid s.b.reg = some hB := by rw [hreg, c1]; rfl
  have hcr : credit s.b ≠ 0 := by
    refine credit_pos_of_empty s.b hbuf ?_
    intro p hp o ho
    rw [hreg] at hp
    simp only [List.mem_singleton] at hp
    subst hp
    simp only at ho
    rw [hro] at ho; cases ho
    exact ⟨hord, hun⟩
  have hd0 := handleData_inorder s.b c hB ro hrcv c7 hoff hl hro hcr hrr
  have hpush : pushObj s.b.il ro c = { ro with rx := ro.rx ++ [c], ord := [{ seq := k, msg := v, len := 8 }] } := by
    rw [pushObj_next s.b.il ro c c3 (by rw [c4, hns]) hord, c4, c5, c6]
  rw [hpush] at hd0
  have hh := handle_data_one s.b c _ hd0
  have hstep1 : s.step (.deliver false idx) = { s with b := handle s.b (Msg.data [c]) } := by
    simp only [Sys.step, Sys.hist, Bool.false_eq_true, ↓reduceIte, hidx, Bool.not_false, Sys.ep, Sys.setEp]
  rw [hstep1, hh]
  simp only [Sys.step, Sys.ep, Sys.setEp, ↓reduceIte]
  have hlt := getElem?_lt hro
  generalize hB3 : ({ s.b with objs := s.b.objs.set hB { ro with rx := ro.rx ++ [c], ord := [{ seq := k, msg := v, len := 8 }] }, rcv := [], cum := s.b.cum + 1 } : Ep) = B3
  have hget : B3.objs[hB]? = some { ro with rx := ro.rx ++ [c], ord := [{ seq := k, msg := v, len := 8 }] } := by
    rw [← hB3]; simp [hlt]
  have hr := read_one B3 hB _ { seq := k, msg := v, len := 8 } hget hun rfl hns.symm hre
  refine ⟨_, by rw [hr], ?_⟩
  rw [← hB3]
  refine ⟨hreg, rfl, rfl, hrr, ?_, rfl, rfl, rfl, rfl, rfl, rfl, rfl, rfl, rfl, rfl, rfl, rfl, rfl, rfl, rfl, rfl, rfl⟩
  simp [hns, hord]

/-! ### the same three lemmas as equations between whole states -/

theorem ep_ext (e e' : Ep) (h1 : e'.il = e.il) (h2 : e'.nextTSN = e.nextTSN) (h3 : e'.nextRSN = e.nextRSN) (h4 : e'.cum = e.cum)
    (h5 : e'.maxOff = e.maxOff) (h6 : e'.accCap = e.accCap) (h7 : e'.maxReq = e.maxReq) (h8 : e'.buf = e.buf) (h9 : e'.mps = e.mps)
    (h10 : e'.pend = e.pend) (h11 : e'.sent = e.sent) (h12 : e'.ctl = e.ctl) (h13 : e'.reconfigs = e.reconfigs) (h14 : e'.wr = e.wr)
    (h15 : e'.rcv = e.rcv) (h16 : e'.rreqs = e.rreqs) (h17 : e'.perf = e.perf) (h18 : e'.reg = e.reg) (h19 : e'.objs = e.objs)
    (h20 : e'.acq = e.acq) (h21 : e'.unsup = e.unsup) (h22 : e'.reqLog = e.reqLog) : e' = e := by
  cases e; cases e'; simp_all

theorem send_eq (s : Sys) (hA k v : Nat) (wo : Obj) (hwo : s.a.objs[hA]? = some wo) (hopen : wo.state = Gen.StreamStateOpen)
    (hsid : wo.sid = 1) (hseq : seqOf s.a.il wo false = k) (aPend : s.a.pend = []) (aCtl : s.a.ctl = []) (aWr : s.a.wr = false)
    (aMps : 8 ≤ s.a.mps) (hlt : ∀ c ∈ s.a.sent, c.tsn < s.a.nextTSN) :
    (s.step (.write false hA 8 false v)).step (.gather false [0] [[s.a.nextTSN]] [] false) =
      { s with a := { s.a with objs := s.a.objs.set hA { bump s.a.il wo false with wrote := wo.wrote ++ [(v, false)] }, sent := s.a.sent ++ [chunkOf s.a.nextTSN k v hA wo.gen], nextTSN := s.a.nextTSN + 1 }, ha := s.ha ++ [Msg.data [chunkOf s.a.nextTSN k v hA wo.gen]] } := by
  obtain ⟨A2, heq, f1, f2, f3, f4, f5, f6, f7, f8, f9, f10, f11, f12, f13, f14, f15, f16, f17, f18, f19, f20, f21, f22⟩ :=
    flow_send s hA k v wo hwo hopen hsid hseq aPend aCtl aWr aMps hlt
  rw [heq]
  congr 1
  exact ep_ext _ _ f7 f6 f11 f13 f17 f19 f20 f18 f5 (f2.trans aPend.symm) f21 (f3.trans aCtl.symm) f9 (f4.trans aWr.symm) f14 f15 f12 f8 f1 f16 f22 f10

theorem recv_first_eq (s : Sys) (idx v hA gn : Nat) (hidx : s.ha[idx]? = some (Msg.data [chunkOf (s.b.cum + 1) 0 v hA gn]))
    (hreg : s.b.reg = []) (hrcv : s.b.rcv = []) (hoff : 1 ≤ s.b.maxOff) (hrr : s.b.rreqs = []) (hbuf : 0 < s.b.buf)
    (hacq : s.b.acq.length < s.b.accCap) :
    (s.step (.deliver false idx)).step (.read true s.b.objs.length) =
      { s with b := { s.b with reg := [(1, s.b.objs.length)], objs := s.b.objs ++ [{ sid := 1, gen := gn, nextSeq := 1, got := [(v, false)], rx := [chunkOf (s.b.cum + 1) 0 v hA gn] }], acq := s.b.acq ++ [s.b.objs.length], cum := s.b.cum + 1 } } := by
  obtain ⟨B4, heq, f1, f2, f3, f4, f5, f6, f7, f8, f9, f10, f11, f12, f13, f14, f15, f16, f17, f18, f19, f20, f21, f22⟩ :=
    recv_first s idx v hA gn hidx hreg hrcv hoff hrr hbuf hacq
  rw [heq]
  congr 1
  exact ep_ext _ _ f10 f14 f15 f3 f7 f9 f21 f8 f20 f12 f13 f11 f16 f19 (f2.trans hrcv.symm) (f4.trans hrr.symm) f18 f1 f5 f6 f22 f17

theorem recv_next_eq (s : Sys) (idx k v hA gn hB : Nat) (ro : Obj) (hidx : s.ha[idx]? = some (Msg.data [chunkOf (s.b.cum + 1) k v hA gn]))
    (hreg : s.b.reg = [(1, hB)]) (hro : s.b.objs[hB]? = some ro) (hord : ro.ord = []) (hun : ro.unord = []) (hns : ro.nextSeq = k)
    (hre : ro.readErr = false) (hrcv : s.b.rcv = []) (hoff : 1 ≤ s.b.maxOff) (hrr : s.b.rreqs = []) (hbuf : 0 < s.b.buf) :
    (s.step (.deliver false idx)).step (.read true hB) =
      { s with b := { s.b with objs := s.b.objs.set hB { ro with rx := ro.rx ++ [chunkOf (s.b.cum + 1) k v hA gn], nextSeq := k + 1, got := ro.got ++ [(v, false)] }, cum := s.b.cum + 1 } } := by
  obtain ⟨B4, heq, f1, f2, f3, f4, f5, f6, f7, f8, f9, f10, f11, f12, f13, f14, f15, f16, f17, f18, f19, f20, f21, f22⟩ :=
    recv_next s idx k v hA gn hB ro hidx hreg hro hord hun hns hre hrcv hoff hrr hbuf
  rw [heq]
  congr 1
  exact ep_ext _ _ f10 f14 f15 f3 f7 f9 f21 f8 f20 f12 f13 f11 f16 f19 (f2.trans hrcv.symm) (f4.trans hrr.symm) f18 (f1.trans hreg.symm) f5 f6 f22 f17

/-! ### a whole list of messages, one block each -/

/-- the four operations that carry one message from A's application to B's -/
def block (hA hB v tsn idx : Nat) : List Op :=
  [.write false hA 8 false v, .gather false [0] [[tsn]] [] false, .deliver false idx, .read true hB]

def transferOps (hA hB : Nat) : Nat → Nat → List Nat → List Op
  | _, _, [] => []
  | tsn, idx, v :: rest => block hA hB v tsn idx ++ transferOps hA hB (tsn + 1) (idx + 1) rest

theorem set_self {α : Type} (l : List α) (i : Nat) (a : α) (h : l[i]? = some a) : l.set i a = l := by
  apply List.ext_getElem?
  intro j
  by_cases hj : i = j
  · subst hj; rw [List.getElem?_set_self (getElem?_lt h), h]
  · rw [List.getElem?_set_ne hj]

theorem seqOf_bump_false (il : Bool) (o : Obj) : seqOf il { bump il o false with wrote := o.wrote ++ [(v, false)] } false = seqOf il o false + 1 := by
  have := seqOf_bump il o false false (by simp [numbered])
  simp only [↓reduceIte] at this
  rw [← this]; rfl

/-- B already has its object: every further message goes the same way -/
theorem transfer_next (hA hB gn : Nat) (ms : List Nat) : ∀ (s : Sys) (k : Nat) (wo ro : Obj),
    s.a.objs[hA]? = some wo → wo.state = Gen.StreamStateOpen → wo.sid = 1 → wo.gen = gn → seqOf s.a.il wo false = k →
    s.a.pend = [] → s.a.ctl = [] → s.a.wr = false → 8 ≤ s.a.mps → (∀ c ∈ s.a.sent, c.tsn < s.a.nextTSN) →
    s.b.reg = [(1, hB)] → s.b.objs[hB]? = some ro → ro.ord = [] → ro.unord = [] → ro.nextSeq = k → ro.readErr = false →
    s.b.rcv = [] → s.b.cum + 1 = s.a.nextTSN → 1 ≤ s.b.maxOff → s.b.rreqs = [] → 0 < s.b.buf →
    ∃ (woN roN : Obj) (cs : List Chunk) (pk : List Msg),
      s.run (transferOps hA hB s.a.nextTSN s.ha.length ms) =
        { s with a := { s.a with objs := s.a.objs.set hA woN, sent := s.a.sent ++ cs, nextTSN := s.a.nextTSN + ms.length },
                 b := { s.b with objs := s.b.objs.set hB roN, cum := s.b.cum + ms.length }, ha := s.ha ++ pk } ∧
      pk.length = ms.length ∧ (∀ c ∈ cs, c.tsn < s.a.nextTSN + ms.length) ∧
      woN.state = Gen.StreamStateOpen ∧ woN.sid = 1 ∧ woN.gen = gn ∧ seqOf s.a.il woN false = k + ms.length ∧
      woN.wrote = wo.wrote ++ ms.map (fun m => (m, false)) ∧
      roN.ord = [] ∧ roN.unord = [] ∧ roN.nextSeq = k + ms.length ∧ roN.readErr = false ∧ roN.sid = ro.sid ∧ roN.gen = ro.gen ∧
      roN.eofSeen = ro.eofSeen ∧ roN.got = ro.got ++ ms.map (fun m => (m, false)) ∧ roN.state = ro.state ∧
      woN.readErr = wo.readErr ∧ woN.ord = wo.ord ∧ woN.unord = wo.unord := by
  induction ms with
  | nil =>
    intro s k wo ro h1 h2 h3 h4 h5 h6 h7 h8 h9 h10 h11 h12 h13 h14 h15 h16 h17 h18 h19 h20 h21
    refine ⟨wo, ro, [], [], ?_, rfl, (fun c hc => by cases hc), h2, h3, h4, (by rw [List.length_nil, Nat.add_zero]; exact h5), (by simp), h13, h14, (by rw [List.length_nil, Nat.add_zero]; exact h15), h16, rfl, rfl, rfl, (by simp), rfl, rfl, rfl, rfl⟩
    simp only [transferOps, Sys.run, List.foldl_nil, List.length_nil, Nat.add_zero, List.append_nil]
    rw [set_self _ _ _ h1, set_self _ _ _ h12]
  | cons v rest ih =>
    intro s k wo ro h1 h2 h3 h4 h5 h6 h7 h8 h9 h10 h11 h12 h13 h14 h15 h16 h17 h18 h19 h20 h21
    -- the first block
    have e1 := send_eq s hA k v wo h1 h2 h3 h5 h6 h7 h8 h9 h10
    generalize hs1 : (s.step (.write false hA 8 false v)).step (.gather false [0] [[s.a.nextTSN]] [] false) = s1 at e1
    have hidx : s1.ha[s.ha.length]? = some (Msg.data [chunkOf (s1.b.cum + 1) k v hA gn]) := by
      rw [e1]; simp only [List.getElem?_append_right (Nat.le_refl _), Nat.sub_self, List.getElem?_cons_zero, h18, h4]
    have hb1 : s1.b = s.b := by rw [e1]
    have e2 := recv_next_eq s1 s.ha.length k v hA gn hB ro hidx (by rw [hb1]; exact h11) (by rw [hb1]; exact h12) h13 h14 h15 h16
      (by rw [hb1]; exact h17) (by rw [hb1]; exact h19) (by rw [hb1]; exact h20) (by rw [hb1]; exact h21)
    generalize hs2 : (s1.step (.deliver false s.ha.length)).step (.read true hB) = s2 at e2
    have hrun : s.run (transferOps hA hB s.a.nextTSN s.ha.length (v :: rest)) = s2.run (transferOps hA hB (s.a.nextTSN + 1) (s.ha.length + 1) rest) := by
      simp only [transferOps, block, run_append]
      simp only [Sys.run, List.foldl_cons, List.foldl_nil]
      rw [hs1, hs2]
    -- the state after the first block, spelled out
    have hs2eq : s2 = { s with a := { s.a with objs := s.a.objs.set hA { bump s.a.il wo false with wrote := wo.wrote ++ [(v, false)] }, sent := s.a.sent ++ [chunkOf s.a.nextTSN k v hA wo.gen], nextTSN := s.a.nextTSN + 1 }, b := { s.b with objs := s.b.objs.set hB { ro with rx := ro.rx ++ [chunkOf (s.b.cum + 1) k v hA gn], nextSeq := k + 1, got := ro.got ++ [(v, false)] }, cum := s.b.cum + 1 }, ha := s.ha ++ [Msg.data [chunkOf s.a.nextTSN k v hA wo.gen]] } := by
      rw [e2, e1]
    generalize hwo1 : ({ bump s.a.il wo false with wrote := wo.wrote ++ [(v, false)] } : Obj) = wo1 at hs2eq
    generalize hro1 : ({ ro with rx := ro.rx ++ [chunkOf (s.b.cum + 1) k v hA gn], nextSeq := k + 1, got := ro.got ++ [(v, false)] } : Obj) = ro1 at hs2eq
    have hltA := getElem?_lt h1
    have hltB := getElem?_lt h12
    have a2objs : s2.a.objs[hA]? = some wo1 := by rw [hs2eq]; simp [hltA]
    have b2objs : s2.b.objs[hB]? = some ro1 := by rw [hs2eq]; simp [hltB]
    have hwo1f : wo1.state = Gen.StreamStateOpen ∧ wo1.sid = 1 ∧ wo1.gen = gn ∧ seqOf s.a.il wo1 false = k + 1 ∧ wo1.wrote = wo.wrote ++ [(v, false)] := by
      rw [← hwo1]
      refine ⟨?_, ?_, ?_, ?_, rfl⟩
      · show (bump s.a.il wo false).state = _; rw [bump_state]; exact h2
      · show (bump s.a.il wo false).sid = _; rw [(bump_sid _ _ _).1]; exact h3
      · show (bump s.a.il wo false).gen = _; rw [(bump_sid _ _ _).2.1]; exact h4
      · rw [seqOf_bump_false, h5]
    obtain ⟨w1, w2, w3, w4, w5⟩ := hwo1f
    have hwo1r : wo1.readErr = wo.readErr ∧ wo1.ord = wo.ord ∧ wo1.unord = wo.unord := by
      rw [← hwo1]
      have r := bump_readerSame s.a.il wo false
      exact ⟨r.readErr, r.ord, r.unord⟩
    obtain ⟨woN, roN, cs, pk, hrest, p1, p2, p3, p4, p5, p6, p7, q1, q2, q3, q4, q5, q6, q7, q8, q9, r1, r2, r3⟩ :=
      ih s2 (k + 1) wo1 ro1 a2objs w1 w2 w3 (by rw [hs2eq]; exact w4) (by rw [hs2eq]; exact h6) (by rw [hs2eq]; exact h7)
        (by rw [hs2eq]; exact h8) (by rw [hs2eq]; exact h9)
        (by
          rw [hs2eq]
          intro c hc
          simp only [List.mem_append, List.mem_singleton] at hc
          rcases hc with hc | rfl
          · have := h10 c hc; simp only; omega
          · simp [chunkOf])
        (by rw [hs2eq]; exact h11) b2objs (by rw [← hro1]; exact h13) (by rw [← hro1]; exact h14) (by rw [← hro1])
        (by rw [← hro1]; exact h16) (by rw [hs2eq]; exact h17) (by rw [hs2eq]; simp only; omega) (by rw [hs2eq]; exact h19)
        (by rw [hs2eq]; exact h20) (by rw [hs2eq]; exact h21)
    have hn2 : s2.a.nextTSN = s.a.nextTSN + 1 := by rw [hs2eq]
    have hl2 : s2.ha.length = s.ha.length + 1 := by rw [hs2eq]; simp
    rw [hn2, hl2] at hrest
    refine ⟨woN, roN, chunkOf s.a.nextTSN k v hA wo.gen :: cs, Msg.data [chunkOf s.a.nextTSN k v hA wo.gen] :: pk, ?_, by simp [p1], ?_,
      p3, p4, p5, ?_, ?_, q1, q2, ?_, q4, ?_, ?_, ?_, ?_, ?_, r1.trans hwo1r.1, r2.trans hwo1r.2.1, r3.trans hwo1r.2.2⟩
    · rw [hrun, hrest, hs2eq]
      simp only [List.set_set, List.append_assoc, List.singleton_append, List.length_cons, Nat.add_assoc, Nat.add_comm 1]
    · intro c hc
      rcases List.mem_cons.mp hc with rfl | hc
      · simp [chunkOf]
      · have := p2 c hc; rw [hn2] at this; simp only [List.length_cons]; omega
    · have : s2.a.il = s.a.il := by rw [hs2eq]
      rw [this] at p6; rw [p6]; simp only [List.length_cons]; omega
    · rw [p7, w5]; simp
    · rw [q3]; simp only [List.length_cons]; omega
    · rw [q5, ← hro1]
    · rw [q6, ← hro1]
    · rw [q7, ← hro1]
    · rw [q8, ← hro1]; simp
    · rw [q9, ← hro1]

/-- a whole incarnation's worth of messages (at least one), starting with B not knowing the stream -/
theorem transfer (hA gn v : Nat) (ms : List Nat) (s : Sys) (wo : Obj)
    (h1 : s.a.objs[hA]? = some wo) (h2 : wo.state = Gen.StreamStateOpen) (h3 : wo.sid = 1) (h4 : wo.gen = gn) (h5 : seqOf s.a.il wo false = 0)
    (h6 : s.a.pend = []) (h7 : s.a.ctl = []) (h8 : s.a.wr = false) (h9 : 8 ≤ s.a.mps) (h10 : ∀ c ∈ s.a.sent, c.tsn < s.a.nextTSN)
    (h11 : s.b.reg = []) (h17 : s.b.rcv = []) (h18 : s.b.cum + 1 = s.a.nextTSN) (h19 : 1 ≤ s.b.maxOff) (h20 : s.b.rreqs = [])
    (h21 : 0 < s.b.buf) (h22 : s.b.acq.length < s.b.accCap) :
    ∃ (woN roN : Obj) (cs : List Chunk) (pk : List Msg),
      s.run (transferOps hA s.b.objs.length s.a.nextTSN s.ha.length (v :: ms)) =
        { s with a := { s.a with objs := s.a.objs.set hA woN, sent := s.a.sent ++ cs, nextTSN := s.a.nextTSN + (ms.length + 1) },
                 b := { s.b with reg := [(1, s.b.objs.length)], objs := s.b.objs ++ [roN], acq := s.b.acq ++ [s.b.objs.length], cum := s.b.cum + (ms.length + 1) },
                 ha := s.ha ++ pk } ∧
      pk.length = ms.length + 1 ∧ (∀ c ∈ cs, c.tsn < s.a.nextTSN + (ms.length + 1)) ∧
      woN.state = Gen.StreamStateOpen ∧ woN.sid = 1 ∧ woN.gen = gn ∧ seqOf s.a.il woN false = ms.length + 1 ∧
      woN.wrote = wo.wrote ++ (v :: ms).map (fun m => (m, false)) ∧
      roN.ord = [] ∧ roN.unord = [] ∧ roN.nextSeq = ms.length + 1 ∧ roN.readErr = false ∧ roN.sid = 1 ∧ roN.gen = gn ∧
      roN.eofSeen = false ∧ roN.got = (v :: ms).map (fun m => (m, false)) ∧ roN.state = Gen.StreamStateOpen ∧
      woN.readErr = wo.readErr ∧ woN.ord = wo.ord ∧ woN.unord = wo.unord ∧ roN.rx.length = roN.rx.length := by
  have e1 := send_eq s hA 0 v wo h1 h2 h3 h5 h6 h7 h8 h9 h10
  generalize hs1 : (s.step (.write false hA 8 false v)).step (.gather false [0] [[s.a.nextTSN]] [] false) = s1 at e1
  have hidx : s1.ha[s.ha.length]? = some (Msg.data [chunkOf (s1.b.cum + 1) 0 v hA gn]) := by
    rw [e1]; simp only [List.getElem?_append_right (Nat.le_refl _), Nat.sub_self, List.getElem?_cons_zero, h18, h4]
  have hb1 : s1.b = s.b := by rw [e1]
  have e2 := recv_first_eq s1 s.ha.length v hA gn hidx (by rw [hb1]; exact h11) (by rw [hb1]; exact h17) (by rw [hb1]; exact h19)
    (by rw [hb1]; exact h20) (by rw [hb1]; exact h21) (by rw [hb1]; exact h22)
  rw [hb1] at e2
  generalize hs2 : (s1.step (.deliver false s.ha.length)).step (.read true s.b.objs.length) = s2 at e2
  have hrun : s.run (transferOps hA s.b.objs.length s.a.nextTSN s.ha.length (v :: ms)) =
      s2.run (transferOps hA s.b.objs.length (s.a.nextTSN + 1) (s.ha.length + 1) ms) := by
    simp only [transferOps, block, run_append]
    simp only [Sys.run, List.foldl_cons, List.foldl_nil]
    rw [hs1, hs2]
  generalize hwo1 : ({ bump s.a.il wo false with wrote := wo.wrote ++ [(v, false)] } : Obj) = wo1 at e1
  generalize hro1 : ({ sid := 1, gen := gn, nextSeq := 1, got := [(v, false)], rx := [chunkOf (s.b.cum + 1) 0 v hA gn] } : Obj) = ro1 at e2
  have hs2eq : s2 = { s with a := { s.a with objs := s.a.objs.set hA wo1, sent := s.a.sent ++ [chunkOf s.a.nextTSN 0 v hA wo.gen], nextTSN := s.a.nextTSN + 1 }, b := { s.b with reg := [(1, s.b.objs.length)], objs := s.b.objs ++ [ro1], acq := s.b.acq ++ [s.b.objs.length], cum := s.b.cum + 1 }, ha := s.ha ++ [Msg.data [chunkOf s.a.nextTSN 0 v hA wo.gen]] } := by
    rw [e2, e1]
  have hltA := getElem?_lt h1
  have a2objs : s2.a.objs[hA]? = some wo1 := by rw [hs2eq]; simp [hltA]
  have b2objs : s2.b.objs[s.b.objs.length]? = some ro1 := by rw [hs2eq]; simp
  have hwo1f : wo1.state = Gen.StreamStateOpen ∧ wo1.sid = 1 ∧ wo1.gen = gn ∧ seqOf s.a.il wo1 false = 0 + 1 ∧ wo1.wrote = wo.wrote ++ [(v, false)] := by
    rw [← hwo1]
    refine ⟨?_, ?_, ?_, ?_, rfl⟩
    · show (bump s.a.il wo false).state = _; rw [bump_state]; exact h2
    · show (bump s.a.il wo false).sid = _; rw [(bump_sid _ _ _).1]; exact h3
    · show (bump s.a.il wo false).gen = _; rw [(bump_sid _ _ _).2.1]; exact h4
    · rw [seqOf_bump_false, h5]
  obtain ⟨w1, w2, w3, w4, w5⟩ := hwo1f
  have hwo1r : wo1.readErr = wo.readErr ∧ wo1.ord = wo.ord ∧ wo1.unord = wo.unord := by
    rw [← hwo1]
    have r := bump_readerSame s.a.il wo false
    exact ⟨r.readErr, r.ord, r.unord⟩
  obtain ⟨woN, roN, cs, pk, hrest, p1, p2, p3, p4, p5, p6, p7, q1, q2, q3, q4, q5, q6, q7, q8, q9, r1, r2, r3⟩ :=
    transfer_next hA s.b.objs.length gn ms s2 (0 + 1) wo1 ro1 a2objs w1 w2 w3 (by rw [hs2eq]; exact w4) (by rw [hs2eq]; exact h6)
      (by rw [hs2eq]; exact h7) (by rw [hs2eq]; exact h8) (by rw [hs2eq]; exact h9)
      (by
        rw [hs2eq]
        intro c hc
        simp only [List.mem_append, List.mem_singleton] at hc
        rcases hc with hc | rfl
        · have := h10 c hc; simp only; omega
        · simp [chunkOf])
      (by rw [hs2eq]) b2objs (by rw [← hro1]) (by rw [← hro1]) (by rw [← hro1]) (by rw [← hro1]) (by rw [hs2eq]; exact h17)
      (by rw [hs2eq]; simp only; omega) (by rw [hs2eq]; exact h19) (by rw [hs2eq]; exact h20) (by rw [hs2eq]; exact h21)
  have hn2 : s2.a.nextTSN = s.a.nextTSN + 1 := by rw [hs2eq]
  have hl2 : s2.ha.length = s.ha.length + 1 := by rw [hs2eq]; simp
  rw [hn2, hl2] at hrest
  refine ⟨woN, roN, chunkOf s.a.nextTSN 0 v hA wo.gen :: cs, Msg.data [chunkOf s.a.nextTSN 0 v hA wo.gen] :: pk, ?_, by simp [p1], ?_,
    p3, p4, p5, ?_, ?_, q1, q2, ?_, q4, ?_, ?_, ?_, ?_, ?_, r1.trans hwo1r.1, r2.trans hwo1r.2.1, r3.trans hwo1r.2.2, rfl⟩
  · rw [hrun, hrest, hs2eq]
    simp only [List.set_set, List.append_assoc, List.singleton_append, Nat.add_assoc, Nat.add_comm 1, List.set_append_right,
      Nat.le_refl, Nat.sub_self, List.set_cons_zero]
  · intro c hc
    rcases List.mem_cons.mp hc with rfl | hc
    · simp [chunkOf]
    · have := p2 c hc; rw [hn2] at this; omega
  · have : s2.a.il = s.a.il := by rw [hs2eq]
    rw [this] at p6; rw [p6]; omega
  · rw [p7, w5]; simp
  · rw [q3]; omega
  · rw [q5, ← hro1]
  · rw [q6, ← hro1]
  · rw [q7, ← hro1]
  · rw [q8, ← hro1]; simp
  · rw [q9, ← hro1]

end Rs
