import SctpVerif.Proofs.Reset.GStep
/-!
The end-to-end consequence of the invariants: an object whose reader has been given EOF has handed out every message
its partner wrote.
-/
namespace Rs

/-- `R` holds the reader object `o` (EOF already reported), `S` is the peer. -/
theorem eof_after_data_core {S R : Ep} {H : List Msg} {taint : List Nat} {gen : Nat → Nat}
    (sS : SInv S) (wS : WInv S) (x : XInv S R H) (rR : RInv R) (gR : GDir R S taint gen) (gS : GDir S R taint gen)
    (hil : R.il = S.il)
    (ho : Nat) (o : Obj) (hobj : R.objs[ho]? = some o) (heof : o.eofSeen = true) (ht : o.sid ∉ taint) :
    ∃ (hw : Nat) (w : Obj), S.objs[hw]? = some w ∧ w.sid = o.sid ∧ w.gen = o.gen ∧ ¬ isOpen w ∧
      (wroteCls w false).Sublist (ordGot o) ∧ ∀ m, (m, true) ∈ w.wrote → (m, true) ∈ o.got := by
  obtain ⟨hre, hnone⟩ := rR.eofErr ho o hobj heof
  have hrd := rR.reader ho o hobj
  obtain ⟨hw, w, hwo, hws, hwg, hdead, hall⟩ := gR.eofLink ho o hobj ht hre
  obtain ⟨rq, hrq, hmem, _⟩ := hdead
  obtain ⟨hlen, _, hrec⟩ := sS.recOK rq hrq
  obtain ⟨sd, hz⟩ := mem_wobjs_zip rq hlen hw hmem
  obtain ⟨w2, hw2, _, hclosed, _, hnopend, _⟩ := hrec _ hz
  simp only at hw2
  rw [hwo] at hw2; cases hw2
  -- every chunk the reader object holds was written by w
  have hfrom : ∀ c ∈ o.rx, c ∈ S.sent ∧ c.d.wobj = hw := by
    intro c hc
    obtain ⟨hcs, hsid, _⟩ := x.rx ho o hobj c hc
    have hi : c.d ∈ S.items := by unfold Ep.items; exact List.mem_append_left _ (List.mem_map_of_mem hcs)
    obtain ⟨w3, hw3, hs3, hg3, _, _⟩ := wS.item c.d hi
    have hg : c.d.gen = o.gen := gR.rxGen ho o hobj ht c hc
    have : c.d.wobj = hw := gS.uniq _ hw w3 w hw3 hwo (by rw [hs3, hsid]; exact ht) (by rw [hs3, hsid, hws]) (by rw [hg3, hg, hwg])
    exact ⟨hcs, this⟩
  -- the numbering of w's messages on the wire
  have hnum : ∀ c ∈ o.rx, ∀ u, c.d.unord = u → numbered S.il u = true → (wroteCls w u)[c.d.seq]? = some c.d.msg := by
    intro c hc u hu hn
    obtain ⟨hcs, hcw⟩ := hfrom c hc
    have hi : c.d ∈ S.items := by unfold Ep.items; exact List.mem_append_left _ (List.mem_map_of_mem hcs)
    obtain ⟨w3, hw3, _, _, _, hnum⟩ := wS.item c.d hi
    rw [hcw, hwo] at hw3; cases hw3
    rw [← hu]; exact hnum (by rw [hu]; exact hn)
  -- every data item of w is a chunk that was sent (nothing of a closed, requested object is pending): it is in o.rx
  have hitem : ∀ d ∈ S.items, d.wobj = hw → ∃ c ∈ o.rx, c.d = d := by
    intro d hd hdw
    unfold Ep.items at hd
    rcases List.mem_append.mp hd with h | h
    · obtain ⟨c, hc, rfl⟩ := List.mem_map.mp h
      exact ⟨c, hall c hc hdw, rfl⟩
    · exact absurd hdw (hnopend d ((mem_pendData _ _).mp h))
  refine ⟨hw, w, hwo, hws, hwg, hclosed, ?_, ?_⟩
  · -- ordered messages: the cursor has passed all of them, and what was handed out below the cursor is a prefix
    have hpre := hrd.pref (wroteCls w false) (fun c hc hu => hnum c hc false hu (by simp [numbered]))
    have hpast : (wroteCls w false).length ≤ o.nextSeq := by
      apply cursor_past R.il o hrd hnone
      intro k hk
      obtain ⟨d, hd, hdw, hdu, hds, _⟩ := wS.coverN hw w hwo false k _ (by simp [numbered]) (List.getElem?_eq_getElem hk)
      obtain ⟨c, hc, rfl⟩ := hitem d hd hdw
      exact ⟨c, hc, hdu, hds⟩
    rw [List.take_of_length_le hpast] at hpre
    exact hpre
  · intro m hm
    obtain ⟨d, hd, hdw, hdu, hdm⟩ := wS.cover hw w hwo m true hm
    obtain ⟨c, hc, rfl⟩ := hitem d hd hdw
    obtain ⟨c', hc', hu', r2, r3, hgot⟩ := unord_all_read R.il o hrd hnone c hc hdu
    cases hilv : R.il with
    | false =>
      have := r3 hilv; subst this
      rw [hdm] at hgot; exact hgot
    | true =>
      have hseq := r2 hilv
      have hn : numbered S.il true = true := by rw [← hil, hilv]; rfl
      have e1 := hnum c' hc' true hu' hn
      have e2 := hnum c hc true hdu hn
      rw [hseq, e2] at e1
      have : c'.d.msg = c.d.msg := (Option.some.inj e1).symm
      rw [this, hdm] at hgot; exact hgot

theorem write_inv_il (e : Ep) (h len : Nat) (u : Bool) (m : Nat) : (write e h len u m).1.il = e.il := by
  unfold write
  split
  · rfl
  · split
    · rfl
    · split <;> rfl

theorem close_inv_il (e : Ep) (h : Nat) : (close e h).1.il = e.il := by
  unfold close
  split
  · rfl
  · split <;> rfl

/-- both endpoints use the same framing -/
theorem il_same (s : Sys) (op : Op) (h : s.a.il = s.b.il) : (s.step op).a.il = (s.step op).b.il := by
  have key : ∀ (z : Bool) (e' : Ep), e'.il = (s.ep z).il → (s.setEp z e').a.il = (s.setEp z e').b.il := by
    intro z e' he
    cases z <;> simp [Sys.setEp, Sys.ep] at he ⊢ <;> rw [he] <;> first | exact h | exact h.symm ▸ rfl
  cases op with
  | openS z sid =>
    simp only [Sys.step]
    have : (openStream (s.ep z) sid (s.gen sid + 1)).1.il = (s.ep z).il := by unfold openStream; split <;> rfl
    split
    · split <;> exact key z _ this
    · exact key z _ this
  | write z h len u m =>
    simp only [Sys.step]
    exact key z _ (write_inv_il _ _ _ _ _)
  | close z h => simp only [Sys.step]; exact key z _ (close_inv_il _ _)
  | gather z sel pre post sack =>
    simp only [Sys.step]
    split
    · rename_i e out hg
      have : e.il = (s.ep z).il := by
        unfold gather at hg
        split at hg
        · cases hg
        · simp only at hg
          split at hg
          · simp only [Option.some.injEq, Prod.mk.injEq] at hg
            rw [← hg.1]; exact (gatherEp_fields _ _ _).1
          · cases hg
      have := key z e this
      cases z <;> simpa [Sys.put, Sys.setEp] using this
    · exact h
  | deliver x i =>
    simp only [Sys.step]
    split
    · exact h
    · rename_i p _
      exact key (!x) _ (handle_frame _ p).1.il
  | trc z => simp only [Sys.step]; exact key z _ rfl
  | t3 z => exact h
  | read z h' => simp only [Sys.step]; exact key z _ (by unfold read; split <;> rfl)
  | accept z => simp only [Sys.step]; exact key z _ (by unfold accept; split <;> rfl)

end Rs
