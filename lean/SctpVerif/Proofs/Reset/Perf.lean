import SctpVerif.Model.Reset
import SctpVerif.Proofs.Sna
/-!
The performed-request bookkeeping of the D10 fix (`rememberPerformedReset`, exact model `Rs.PerfSet`):
shift invariance for arbitrary call sequences, and the window that survives trimming for consecutive
request sequence numbers.
-/
namespace Rs
open Gen Sna

def PerfSet.shift (d : BitVec 32) (p : PerfSet) : PerfSet := { set := p.set.map (· + d), newest := p.newest + d }

theorem sna32LT_shift (a b d : BitVec 32) : sna32LT (a + d) (b + d) = sna32LT a b := by
  rw [Bool.eq_iff_iff, lt32_iff, lt32_iff, sub_shift32]

theorem contains_map_add (l : List (BitVec 32)) (r d : BitVec 32) : (l.map (· + d)).contains (r + d) = l.contains r := by
  induction l with
  | nil => rfl
  | cons x xs ih =>
    simp only [List.map_cons, List.contains_cons, ih]
    congr 1
    rw [Bool.eq_iff_iff]
    simp only [beq_iff_eq]
    constructor <;> intro h <;> bv_omega

/-- two states related by a shift: same set up to the constant; the watermark only matters once something is in the set -/
def ShiftRel (d : BitVec 32) (p p' : PerfSet) : Prop :=
  p'.set = p.set.map (· + d) ∧ (p.set ≠ [] → p'.newest = p.newest + d)

theorem remember_shiftRel (d : BitVec 32) (p p' : PerfSet) (r : BitVec 32) (h : ShiftRel d p p') :
    ShiftRel d (p.remember r) (p'.remember (r + d)) ∧ (p.remember r).newest + d = (p'.remember (r + d)).newest := by
  obtain ⟨hs, hn⟩ := h
  -- the new watermark
  have hnew : (if p'.set.isEmpty || sna32LT p'.newest (r + d) then r + d else p'.newest)
      = (if p.set.isEmpty || sna32LT p.newest r then r else p.newest) + d := by
    rw [hs]
    cases hp : p.set with
    | nil => simp
    | cons x xs =>
      have : p'.newest = p.newest + d := hn (by simp [hp])
      simp only [List.map_cons, List.isEmpty_cons, Bool.false_or, this, sna32LT_shift]
      split <;> rfl
  have hset : (if p'.set.contains (r + d) then p'.set else (r + d) :: p'.set)
      = (if p.set.contains r then p.set else r :: p.set).map (· + d) := by
    rw [hs, contains_map_add]
    split <;> simp
  have hfilter : ∀ (l : List (BitVec 32)) (n : BitVec 32),
      (l.map (· + d)).filter (fun old => !sna32LT old (n + d - BitVec.ofNat 32 perfKeep))
        = (l.filter (fun old => !sna32LT old (n - BitVec.ofNat 32 perfKeep))).map (· + d) := by
    intro l n
    rw [List.filter_map]
    congr 1
    apply List.filter_congr
    intro x _
    simp only [Function.comp]
    have : n + d - BitVec.ofNat 32 perfKeep = (n - BitVec.ofNat 32 perfKeep) + d := by bv_omega
    rw [this, sna32LT_shift]
  generalize hN : (if p.set.isEmpty || sna32LT p.newest r then r else p.newest) = N at hnew
  generalize hS : (if p.set.contains r then p.set else r :: p.set) = S at hset
  have e1 : p.remember r = if S.length > 2 * perfKeep then
      { set := S.filter (fun old => !sna32LT old (N - BitVec.ofNat 32 perfKeep)), newest := N } else { set := S, newest := N } := by
    unfold PerfSet.remember; simp only [hN, hS]
  have e2 : p'.remember (r + d) = if S.length > 2 * perfKeep then
      { set := (S.map (· + d)).filter (fun old => !sna32LT old (N + d - BitVec.ofNat 32 perfKeep)), newest := N + d }
      else { set := S.map (· + d), newest := N + d } := by
    unfold PerfSet.remember; simp only [hnew, hset, List.length_map]
  rw [e1, e2]
  by_cases hl : S.length > 2 * perfKeep
  · simp only [hl, if_true]
    exact ⟨⟨hfilter _ _, fun _ => rfl⟩, trivial⟩
  · simp only [hl, if_false]
    exact ⟨⟨rfl, fun _ => rfl⟩, trivial⟩

theorem run_shiftRel (d : BitVec 32) (rs : List (BitVec 32)) (p p' : PerfSet) (h : ShiftRel d p p') :
    ShiftRel d (p.run rs) (p'.run (rs.map (· + d))) := by
  induction rs generalizing p p' with
  | nil => exact h
  | cons r rest ih =>
    simp only [PerfSet.run, List.map_cons, List.foldl_cons]
    exact ih _ _ (remember_shiftRel d p p' r h).1


/-! ### consecutive request sequence numbers: what survives the trim -/

def consec (start : BitVec 32) (n : Nat) : List (BitVec 32) := (List.range n).map (fun k => start + BitVec.ofNat 32 k)

structure ConsecInv (start : BitVec 32) (n : Nat) (p : PerfSet) : Prop where
  empty : n = 0 → p.set = []
  newest : 0 < n → p.newest = start + BitVec.ofNat 32 (n - 1)
  sub : ∀ x ∈ p.set, ∃ k, k < n ∧ x = start + BitVec.ofNat 32 k
  win : ∀ k, k < n → n ≤ k + 1025 → start + BitVec.ofNat 32 k ∈ p.set

theorem lt_next (start : BitVec 32) (n : Nat) (hn : 0 < n) :
    sna32LT (start + BitVec.ofNat 32 (n - 1)) (start + BitVec.ofNat 32 n) = true := by
  rw [lt32_iff]
  have : start + BitVec.ofNat 32 n - (start + BitVec.ofNat 32 (n - 1)) = 1#32 := by
    apply BitVec.eq_of_toNat_eq
    simp only [BitVec.toNat_sub, BitVec.toNat_add, BitVec.toNat_ofNat]
    omega
  rw [this]; decide

theorem not_lt_window (start : BitVec 32) (n k : Nat) (hk : k ≤ n) (hw : n ≤ k + 1024) :
    sna32LT (start + BitVec.ofNat 32 k) (start + BitVec.ofNat 32 n - BitVec.ofNat 32 perfKeep) = false := by
  rw [Bool.eq_false_iff]
  intro h
  rw [lt32_iff] at h
  simp only [BitVec.toNat_sub, BitVec.toNat_add, BitVec.toNat_ofNat, perfKeep] at h
  omega

theorem remember_consec (start : BitVec 32) (n : Nat) (p : PerfSet) (h : ConsecInv start n p) :
    ConsecInv start (n + 1) (p.remember (start + BitVec.ofNat 32 n)) := by
  obtain ⟨hE, hN, hS, hW⟩ := h
  -- the watermark moves to the number just remembered
  have hnew : (if p.set.isEmpty || sna32LT p.newest (start + BitVec.ofNat 32 n) then start + BitVec.ofNat 32 n else p.newest)
      = start + BitVec.ofNat 32 n := by
    rcases Nat.eq_zero_or_pos n with h0 | hpos
    · simp [hE h0]
    · rw [hN hpos, lt_next start n hpos]; simp
  generalize hSet : (if p.set.contains (start + BitVec.ofNat 32 n) then p.set else (start + BitVec.ofNat 32 n) :: p.set) = S
  have hmemS : ∀ x, x ∈ S ↔ x = start + BitVec.ofNat 32 n ∨ x ∈ p.set := by
    intro x
    rw [← hSet]
    split
    · rename_i hc
      have : start + BitVec.ofNat 32 n ∈ p.set := by simpa using hc
      constructor
      · exact Or.inr
      · rintro (rfl | h) <;> assumption
    · simp
  have e1 : p.remember (start + BitVec.ofNat 32 n) = if S.length > 2 * perfKeep then
      { set := S.filter (fun old => !sna32LT old (start + BitVec.ofNat 32 n - BitVec.ofNat 32 perfKeep)), newest := start + BitVec.ofNat 32 n }
      else { set := S, newest := start + BitVec.ofNat 32 n } := by
    unfold PerfSet.remember; simp only [hnew, hSet]
  have subS : ∀ x ∈ S, ∃ k, k < n + 1 ∧ x = start + BitVec.ofNat 32 k := by
    intro x hx
    rcases (hmemS x).mp hx with rfl | hx
    · exact ⟨n, Nat.lt_succ_self n, rfl⟩
    · obtain ⟨k, hk, rfl⟩ := hS x hx
      exact ⟨k, Nat.lt_succ_of_lt hk, rfl⟩
  have winS : ∀ k, k < n + 1 → n + 1 ≤ k + 1025 → start + BitVec.ofNat 32 k ∈ S := by
    intro k hk hw
    rcases Nat.lt_succ_iff_lt_or_eq.mp hk with hlt | rfl
    · exact (hmemS _).mpr (Or.inr (hW k hlt (by omega)))
    · exact (hmemS _).mpr (Or.inl rfl)
  rw [e1]
  by_cases hl : S.length > 2 * perfKeep
  · simp only [hl, if_true]
    refine ⟨by omega, fun _ => by simp, ?_, ?_⟩
    · intro x hx
      exact subS x (List.mem_filter.mp hx).1
    · intro k hk hw
      refine List.mem_filter.mpr ⟨winS k hk hw, ?_⟩
      rw [not_lt_window start n k (by omega) (by omega)]; rfl
  · simp only [hl, if_false]
    exact ⟨by omega, fun _ => by simp, subS, winS⟩

theorem consec_succ (start : BitVec 32) (n : Nat) : consec start (n + 1) = consec start n ++ [start + BitVec.ofNat 32 n] := by
  simp [consec, List.range_succ]

theorem run_consec (start : BitVec 32) (n : Nat) : ConsecInv start n (({} : PerfSet).run (consec start n)) := by
  induction n with
  | zero => exact ⟨fun _ => rfl, fun h => absurd h (Nat.lt_irrefl 0), fun x hx => by simp [PerfSet.run, consec] at hx, fun k hk => absurd hk (Nat.not_lt_zero k)⟩
  | succ n ih =>
    rw [consec_succ]
    simp only [PerfSet.run, List.foldl_append, List.foldl_cons, List.foldl_nil]
    exact remember_consec start n _ ih

end Rs
