import SctpVerif.Proofs.Reset.System
/-!
Incarnations. Every stream object and every chunk carries (as ghost data) the incarnation number of its identifier.
For an identifier that the applications only re-open after both directions were reset (`sid ∉ taint`):
each endpoint has at most one object per incarnation; objects of earlier incarnations are dead (closed, their reset
request performed by the peer); the stream table only holds objects of the current incarnation; an object only ever
receives chunks of its own incarnation; and an object whose inbound side was reset received EVERY chunk its partner
(the peer's object of the same incarnation) ever sent.
-/
namespace Rs

/-- the object's outgoing side is closed and the peer has performed the request that closed it -/
def deadW (S R : Ep) (h : Nat) : Prop := ∃ rec ∈ S.reqLog, h ∈ rec.wobjs ∧ rec.rsn ∈ R.perf

structure GDir (A B : Ep) (taint : List Nat) (gen : Nat → Nat) : Prop where
  genLe : ∀ (h : Nat) (o : Obj), A.objs[h]? = some o → o.sid ∉ taint → o.gen ≤ gen o.sid
  uniq : ∀ (h h' : Nat) (o o' : Obj), A.objs[h]? = some o → A.objs[h']? = some o' → o.sid ∉ taint → o.sid = o'.sid → o.gen = o'.gen → h = h'
  oldDead : ∀ (h : Nat) (o : Obj), A.objs[h]? = some o → o.sid ∉ taint → o.gen < gen o.sid → deadW A B h
  regCur : ∀ (sid h : Nat) (o : Obj), sid ∉ taint → lookup sid A.reg = some h → A.objs[h]? = some o → o.gen = gen sid
  rxGen : ∀ (h : Nat) (o : Obj), A.objs[h]? = some o → o.sid ∉ taint → ∀ c ∈ o.rx, c.d.gen = o.gen
  eofLink : ∀ (h : Nat) (o : Obj), A.objs[h]? = some o → o.sid ∉ taint → o.readErr = true →
      ∃ (hw : Nat) (w : Obj), B.objs[hw]? = some w ∧ w.sid = o.sid ∧ w.gen = o.gen ∧ deadW B A hw ∧ ∀ c ∈ B.sent, c.d.wobj = hw → c ∈ o.rx

def GInv (s : Sys) : Prop := ∀ x, GDir (s.ep x) (s.ep (!x)) s.taint s.gen

/-- the part of a stream object the incarnation bookkeeping depends on -/
structure GSame (o o' : Obj) : Prop where
  sid : o'.sid = o.sid
  gen : o'.gen = o.gen
  rx : o'.rx = o.rx
  readErr : o'.readErr = o.readErr

theorem GSame.refl (o : Obj) : GSame o o := ⟨rfl, rfl, rfl, rfl⟩

theorem ObjsRel.back {R : Obj → Obj → Prop} {l l' : List Obj} (r : ObjsRel R l l') (h : Nat) (o' : Obj) (ho' : l'[h]? = some o') :
    ∃ o, l[h]? = some o ∧ R o o' := by
  have hlt : h < l.length := by rw [← r.1]; exact getElem?_lt ho'
  obtain ⟨o'', ho'', x⟩ := r.2 h _ (List.getElem?_eq_getElem hlt)
  rw [ho'] at ho''; cases ho''
  exact ⟨_, List.getElem?_eq_getElem hlt, x⟩

theorem deadW.mono {S S' R R' : Ep} {h : Nat} (d : deadW S R h) (hlog : ∀ r ∈ S.reqLog, r ∈ S'.reqLog)
    (hperf : ∀ r ∈ R.perf, r ∈ R'.perf) : deadW S' R' h := by
  obtain ⟨rec, hr, a, b⟩ := d
  exact ⟨rec, hlog rec hr, a, hperf _ b⟩

/-- changes that the incarnation bookkeeping does not notice -/
theorem GDir.mono {A A' B B' : Ep} {taint : List Nat} {gen : Nat → Nat} (g : GDir A B taint gen)
    (hobjsA : ObjsRel GSame A.objs A'.objs) (hregA : A'.reg = A.reg)
    (hlogA : ∀ r ∈ A.reqLog, r ∈ A'.reqLog) (hperfB : ∀ r ∈ B.perf, r ∈ B'.perf)
    (hobjsB : ∀ (hw : Nat) (w : Obj), B.objs[hw]? = some w → ∃ w', B'.objs[hw]? = some w' ∧ w'.sid = w.sid ∧ w'.gen = w.gen)
    (hlogB : ∀ r ∈ B.reqLog, r ∈ B'.reqLog) (hperfA : ∀ r ∈ A.perf, r ∈ A'.perf)
    (hsentB : ∀ c ∈ B'.sent, c ∈ B.sent ∨ ∀ rec ∈ B.reqLog, c.d.wobj ∉ rec.wobjs) : GDir A' B' taint gen := by
  obtain ⟨g1, g2, g3, g4, g5, g6⟩ := g
  refine ⟨?_, ?_, ?_, ?_, ?_, ?_⟩
  · intro h o' ho' ht
    obtain ⟨o, ho, r⟩ := hobjsA.back h o' ho'
    rw [r.sid, r.gen]; exact g1 h o ho (by rw [← r.sid]; exact ht)
  · intro h h' o1 o2 ho1 ho2 ht hs hg
    obtain ⟨p1, hp1, r1⟩ := hobjsA.back h o1 ho1
    obtain ⟨p2, hp2, r2⟩ := hobjsA.back h' o2 ho2
    exact g2 h h' p1 p2 hp1 hp2 (by rw [← r1.sid]; exact ht) (by rw [← r1.sid, ← r2.sid]; exact hs) (by rw [← r1.gen, ← r2.gen]; exact hg)
  · intro h o' ho' ht hlt
    obtain ⟨o, ho, r⟩ := hobjsA.back h o' ho'
    exact (g3 h o ho (by rw [← r.sid]; exact ht) (by rw [← r.sid, ← r.gen]; exact hlt)).mono hlogA hperfB
  · intro sid h o' ht hl ho'
    obtain ⟨o, ho, r⟩ := hobjsA.back h o' ho'
    rw [r.gen]; exact g4 sid h o ht (by rw [← hregA]; exact hl) ho
  · intro h o' ho' ht c hc
    obtain ⟨o, ho, r⟩ := hobjsA.back h o' ho'
    rw [r.gen]; exact g5 h o ho (by rw [← r.sid]; exact ht) c (by rw [← r.rx]; exact hc)
  · intro h o' ho' ht hre
    obtain ⟨o, ho, r⟩ := hobjsA.back h o' ho'
    obtain ⟨hw, w, hw1, hw2, hw3, hw4, hw5⟩ := g6 h o ho (by rw [← r.sid]; exact ht) (by rw [← r.readErr]; exact hre)
    obtain ⟨w', hw', a, b⟩ := hobjsB hw w hw1
    refine ⟨hw, w', hw', by rw [a, r.sid]; exact hw2, by rw [b, r.gen]; exact hw3, hw4.mono hlogB hperfA, ?_⟩
    intro c hc hcw
    rw [r.rx]
    rcases hsentB c hc with hold | hnew
    · exact hw5 c hold hcw
    · obtain ⟨rec, hr, hmem, _⟩ := hw4
      exact absurd (hcw ▸ hmem) (hnew rec hr)

theorem getElem?_append_one {l : List Obj} {o : Obj} (h : Nat) (o' : Obj) (ho' : (l ++ [o])[h]? = some o') :
    l[h]? = some o' ∨ (h = l.length ∧ o' = o) := by
  rcases Nat.lt_or_ge h l.length with hl | hl
  · rw [List.getElem?_append_left hl] at ho'; exact Or.inl ho'
  · rw [List.getElem?_append_right hl] at ho'
    rcases Nat.eq_zero_or_pos (h - l.length) with h0 | h0
    · rw [h0] at ho'; simp at ho'; exact Or.inr ⟨by omega, ho'.symm⟩
    · rw [List.getElem?_eq_none (by simp; omega)] at ho'; cases ho'

/-- a new object enters the table of `A` under an identifier that is not registered; for an identifier that is still
judged it must be of the current incarnation and the first of it at this endpoint -/
theorem GDir.addObj {A A' B : Ep} {taint : List Nat} {gen : Nat → Nat} (g : GDir A B taint gen) (ra : RInv A) (sid gn : Nat)
    (hnone : lookup sid A.reg = none)
    (hcur : sid ∉ taint → gn = gen sid ∧ ∀ (h : Nat) (o : Obj), A.objs[h]? = some o → o.sid = sid → o.gen ≠ gen sid)
    (hreg : A'.reg = insert sid A.objs.length A.reg) (hobjs : A'.objs = A.objs ++ [{ sid := sid, gen := gn }])
    (hlog : A'.reqLog = A.reqLog) (hperf : A'.perf = A.perf) : GDir A' B taint gen := by
  obtain ⟨g1, g2, g3, g4, g5, g6⟩ := g
  have old : ∀ (h : Nat) (o : Obj), A.objs[h]? = some o → A'.objs[h]? = some o := by
    intro h o ho
    rw [hobjs, List.getElem?_append_left (getElem?_lt ho)]; exact ho
  have back : ∀ (h : Nat) (o' : Obj), A'.objs[h]? = some o' → A.objs[h]? = some o' ∨ (h = A.objs.length ∧ o' = { sid := sid, gen := gn }) := by
    intro h o' ho'; rw [hobjs] at ho'; exact getElem?_append_one h o' ho'
  have hdead : ∀ h, deadW A B h → deadW A' B h := fun h d => d.mono (fun r hr => by rw [hlog]; exact hr) (fun _ x => x)
  refine ⟨?_, ?_, ?_, ?_, ?_, ?_⟩
  · intro h o' ho' ht
    rcases back h o' ho' with ho | ⟨_, rfl⟩
    · exact g1 h o' ho ht
    · exact Nat.le_of_eq (hcur ht).1
  · intro h h' o1 o2 ho1 ho2 ht hs hg
    rcases back h o1 ho1 with hp1 | ⟨e1, rfl⟩ <;> rcases back h' o2 ho2 with hp2 | ⟨e2, rfl⟩
    · exact g2 h h' o1 o2 hp1 hp2 ht hs hg
    · exfalso
      have hs' : o1.sid = sid := hs
      have ht' : sid ∉ taint := by rw [← hs']; exact ht
      exact (hcur ht').2 h o1 hp1 hs (by rw [hg]; exact (hcur ht').1)
    · exfalso
      have ht' : sid ∉ taint := ht
      exact (hcur ht').2 h' o2 hp2 hs.symm (by rw [← hg]; exact (hcur ht').1)
    · rw [e1, e2]
  · intro h o' ho' ht hlt
    rcases back h o' ho' with ho | ⟨_, rfl⟩
    · exact hdead h (g3 h o' ho ht hlt)
    · have := (hcur ht).1; simp only at hlt; omega
  · intro sid' h o' ht hl ho'
    rw [hreg] at hl
    by_cases hs : sid' = sid
    · subst hs
      rw [lookup_insert_self] at hl; cases hl
      rcases back _ o' ho' with ho | ⟨_, rfl⟩
      · exact absurd (getElem?_lt ho) (Nat.lt_irrefl _)
      · exact (hcur ht).1
    · rw [lookup_insert_ne _ _ _ _ hs] at hl
      rcases back h o' ho' with ho | ⟨hh, _⟩
      · exact g4 sid' h o' ht hl ho
      · -- the handle registered for another identifier is an old one
        obtain ⟨o2, ho2, _, _⟩ := ra.regOK sid' h hl
        rw [hh] at ho2; exact absurd (getElem?_lt ho2) (Nat.lt_irrefl _)
  · intro h o' ho' ht c hc
    rcases back h o' ho' with ho | ⟨_, rfl⟩
    · exact g5 h o' ho ht c hc
    · cases hc
  · intro h o' ho' ht hre
    rcases back h o' ho' with ho | ⟨_, rfl⟩
    · obtain ⟨hw, w, a1, a2, a3, a4, a5⟩ := g6 h o' ho ht hre
      exact ⟨hw, w, a1, a2, a3, a4.mono (fun _ x => x) (fun r hr => by rw [hperf]; exact hr), a5⟩
    · cases hre

/-- a chunk of the object's own incarnation is handed to a registered object -/
theorem GDir.push {A A' B : Ep} {taint : List Nat} {gen : Nat → Nat} (g : GDir A B taint gen) (h : Nat) (o : Obj) (c : Chunk)
    (ho : A.objs[h]? = some o) (hcg : o.sid ∉ taint → c.d.gen = o.gen)
    (hreg : A'.reg = A.reg) (hobjs : A'.objs = A.objs.set h (pushObj A.il o c))
    (hlog : A'.reqLog = A.reqLog) (hperf : A'.perf = A.perf) : GDir A' B taint gen := by
  obtain ⟨g1, g2, g3, g4, g5, g6⟩ := g
  have hlt := getElem?_lt ho
  have hget : A'.objs[h]? = some (pushObj A.il o c) := by rw [hobjs]; simp [hlt]
  have hother : ∀ j, j ≠ h → A'.objs[j]? = A.objs[j]? := fun j hj => by rw [hobjs]; exact List.getElem?_set_ne (Ne.symm hj)
  obtain ⟨p1, p2, p3, _, p5, _⟩ := pushObj_same A.il o c
  -- every object of the new table is an object of the old one with the same identity
  have back : ∀ (j : Nat) (oj : Obj), A'.objs[j]? = some oj → ∃ o0, A.objs[j]? = some o0 ∧ oj.sid = o0.sid ∧ oj.gen = o0.gen ∧ oj.readErr = o0.readErr ∧
      (∀ c' ∈ oj.rx, c' ∈ o0.rx ∨ (j = h ∧ c' = c)) ∧ (∀ c' ∈ o0.rx, c' ∈ oj.rx) := by
    intro j oj hoj
    by_cases hj : j = h
    · subst hj; rw [hget] at hoj; cases hoj
      refine ⟨o, ho, p1, p2, p3, ?_, ?_⟩
      · intro c' hc'; rw [p5] at hc'
        rcases List.mem_append.mp hc' with x | x
        · exact Or.inl x
        · exact Or.inr ⟨rfl, by simpa using x⟩
      · intro c' hc'; rw [p5]; exact List.mem_append_left _ hc'
    · rw [hother j hj] at hoj
      exact ⟨oj, hoj, rfl, rfl, rfl, fun c' hc' => Or.inl hc', fun c' hc' => hc'⟩
  have hdead : ∀ j, deadW A B j → deadW A' B j := fun j d => d.mono (fun r hr => by rw [hlog]; exact hr) (fun _ x => x)
  refine ⟨?_, ?_, ?_, ?_, ?_, ?_⟩
  · intro j oj hoj ht
    obtain ⟨o0, h0, a, b, _⟩ := back j oj hoj
    rw [a, b]; exact g1 j o0 h0 (by rw [← a]; exact ht)
  · intro j j' o1 o2 ho1 ho2 ht hs hg
    obtain ⟨p1', hp1, a1, b1, _⟩ := back j o1 ho1
    obtain ⟨p2', hp2, a2, b2, _⟩ := back j' o2 ho2
    exact g2 j j' p1' p2' hp1 hp2 (by rw [← a1]; exact ht) (by rw [← a1, ← a2]; exact hs) (by rw [← b1, ← b2]; exact hg)
  · intro j oj hoj ht hlt'
    obtain ⟨o0, h0, a, b, _⟩ := back j oj hoj
    exact hdead j (g3 j o0 h0 (by rw [← a]; exact ht) (by rw [← a, ← b]; exact hlt'))
  · intro sid j oj ht hl hoj
    obtain ⟨o0, h0, _, b, _⟩ := back j oj hoj
    rw [b]; exact g4 sid j o0 ht (by rw [← hreg]; exact hl) h0
  · intro j oj hoj ht c' hc'
    obtain ⟨o0, h0, a, b, _, r1, _⟩ := back j oj hoj
    rw [b]
    rcases r1 c' hc' with x | ⟨hj, rfl⟩
    · exact g5 j o0 h0 (by rw [← a]; exact ht) c' x
    · subst hj; rw [ho] at h0; cases h0
      exact hcg (by rw [← a]; exact ht)
  · intro j oj hoj ht hre
    obtain ⟨o0, h0, a, b, e, _, r2⟩ := back j oj hoj
    obtain ⟨hw, w, a1, a2, a3, a4, a5⟩ := g6 j o0 h0 (by rw [← a]; exact ht) (by rw [← e]; exact hre)
    exact ⟨hw, w, a1, by rw [a]; exact a2, by rw [b]; exact a3, a4.mono (fun _ x => x) (fun r hr => by rw [hperf]; exact hr),
      fun c' hc' hw' => r2 c' (a5 c' hc' hw')⟩

/-! ### a request is performed -/

theorem mem_wobjs_zip (rec : ReqRec) (hlen : rec.sids.length = rec.wobjs.length) (h : Nat) (hh : h ∈ rec.wobjs) :
    ∃ sd, (sd, h) ∈ rec.sids.zip rec.wobjs := by
  obtain ⟨i, hi, hij⟩ := List.mem_iff_getElem.mp hh
  have hi' : i < rec.sids.length := by omega
  refine ⟨rec.sids[i], ?_⟩
  apply List.mem_iff_getElem.mpr
  refine ⟨i, by simp [List.length_zip]; omega, by simp [hij]⟩

theorem mem_sids_zip (rec : ReqRec) (hlen : rec.sids.length = rec.wobjs.length) (sd : Nat) (hh : sd ∈ rec.sids) :
    ∃ h, (sd, h) ∈ rec.sids.zip rec.wobjs := by
  obtain ⟨i, hi, hij⟩ := List.mem_iff_getElem.mp hh
  have hi' : i < rec.wobjs.length := by omega
  refine ⟨rec.wobjs[i], ?_⟩
  apply List.mem_iff_getElem.mpr
  refine ⟨i, by simp [List.length_zip]; omega, by simp [hij]⟩

/-- a chunk of a dead object was received long ago -/
theorem dead_chunk_recvd {S R : Ep} {H : List Msg} (sS : SInv S) (x : XInv S R H) (c : Chunk) (hc : c ∈ S.sent)
    (hd : deadW S R c.d.wobj) : c.tsn ≤ R.cum := by
  obtain ⟨rec, hrec, hmem, hperf⟩ := hd
  obtain ⟨rec', hrec', heq, hle⟩ := x.perf _ hperf
  have : rec' = rec := sS.rsnInj rec' hrec' rec hrec heq
  subst this
  obtain ⟨hlen, _, hall⟩ := sS.recOK rec' hrec
  obtain ⟨sd, hz⟩ := mem_wobjs_zip rec' hlen _ hmem
  obtain ⟨_, _, _, _, _, _, h5⟩ := hall _ hz
  have := h5 c hc rfl
  omega

/-- a chunk that was never received belongs to the current incarnation of its identifier -/
theorem fresh_gen {S R : Ep} {H : List Msg} {taint : List Nat} {gen : Nat → Nat} (gS : GDir S R taint gen) (sS : SInv S) (wS : WInv S)
    (x : XInv S R H) (c : Chunk) (hc : c ∈ S.sent) (hfresh : ¬ Recvd R c.tsn) (ht : c.d.sid ∉ taint) :
    c.d.gen = gen c.d.sid ∧ ∃ o, S.objs[c.d.wobj]? = some o ∧ o.sid = c.d.sid ∧ o.gen = c.d.gen := by
  have hi : c.d ∈ S.items := by unfold Ep.items; exact List.mem_append_left _ (List.mem_map_of_mem hc)
  obtain ⟨o, ho, hs, hg, _, _⟩ := wS.item c.d hi
  refine ⟨?_, o, ho, hs, hg⟩
  have hle := gS.genLe _ o ho (by rw [hs]; exact ht)
  rcases Nat.lt_or_ge o.gen (gen o.sid) with hlt | hge
  · exfalso
    have hd := gS.oldDead _ o ho (by rw [hs]; exact ht) hlt
    exact hfresh (Or.inl (dead_chunk_recvd sS x c hc hd))
  · rw [← hg, ← hs]; omega

def ResetRel (sids : List Nat) (o o' : Obj) : Prop := o' = o ∨ (o' = inboundReset o ∧ o.readErr = false ∧ o.sid ∈ sids)

theorem foldl_resetOne_spec (sids : List Nat) : ∀ e, RInv e →
    (∀ sid h, lookup sid (sids.foldl resetOne e).reg = some h → lookup sid e.reg = some h) ∧
    ObjsRel (ResetRel sids) e.objs (sids.foldl resetOne e).objs := by
  induction sids with
  | nil => intro e _; exact ⟨fun _ _ h => h, ObjsRel.refl (fun o => Or.inl rfl) _⟩
  | cons s rest ih =>
    intro e re
    simp only [List.foldl_cons]
    obtain ⟨i1, i2⟩ := ih (resetOne e s) (resetOne_rinv e s re)
    -- one identifier
    have one : (∀ sid h, lookup sid (resetOne e s).reg = some h → lookup sid e.reg = some h) ∧
        ObjsRel (ResetRel [s]) e.objs (resetOne e s).objs := by
      unfold resetOne
      split
      · exact ⟨fun _ _ h => h, ObjsRel.refl (fun o => Or.inl rfl) _⟩
      · rename_i h hl
        obtain ⟨o, ho, hos, hoe⟩ := re.regOK s h hl
        rw [ho]
        simp only
        refine ⟨?_, ObjsRel.set (fun o => Or.inl rfl) _ _ _ _ ho (Or.inr ⟨rfl, hoe, by simp [hos]⟩)⟩
        intro sid h' hl'
        by_cases hs : sid = s
        · subst hs; rw [lookup_erase_self] at hl'; cases hl'
        · rw [lookup_erase_ne _ _ _ hs] at hl'; exact hl'
    refine ⟨fun sid h hl => one.1 sid h (i1 sid h hl), ?_⟩
    refine ObjsRel.trans (R := ResetRel (s :: rest)) ?_ (one.2.imp ?_) (i2.imp ?_)
    · intro a b c hab hbc
      rcases hab with rfl | ⟨rfl, h1, h2⟩
      · exact hbc
      · rcases hbc with rfl | ⟨_, h3, _⟩
        · exact Or.inr ⟨rfl, h1, h2⟩
        · simp [inboundReset] at h3
    · intro o o' h
      rcases h with h | ⟨a, b, c⟩
      · exact Or.inl h
      · exact Or.inr ⟨a, b, by simp at c; simp [c]⟩
    · intro o o' h
      rcases h with h | ⟨a, b, c⟩
      · exact Or.inl h
      · exact Or.inr ⟨a, b, List.mem_cons_of_mem _ c⟩

/-- the endpoint after it performed a request (Go: the first branch of resetStreamsIfAny) -/
def performEp (A : Ep) (rsn : Nat) (sids : List Nat) : Ep :=
  { sids.foldl resetOne A with rreqs := erase rsn (sids.foldl resetOne A).rreqs, perf := rsn :: (sids.foldl resetOne A).perf }

theorem GDir.perform {A B : Ep} {H : List Msg} {taint : List Nat} {gen : Nat → Nat}
    (gA : GDir A B taint gen) (gB : GDir B A taint gen) (sB : SInv B) (wB : WInv B) (x : XInv B A H) (rA : RInv A)
    (rq : ReqRec) (hrec : rq ∈ B.reqLog) (hle : rq.last ≤ A.cum) (hfresh : rq.rsn ∉ A.perf) :
    GDir (performEp A rq.rsn rq.sids) B taint gen := by
  obtain ⟨g1, g2, g3, g4, g5, g6⟩ := gA
  unfold performEp
  obtain ⟨regShrink, rel⟩ := foldl_resetOne_spec rq.sids A rA
  obtain ⟨_, _, _, _, f5, _⟩ := foldl_resetOne_fields rq.sids A
  have hlogSame : (rq.sids.foldl resetOne A).reqLog = A.reqLog := (foldl_resetOne_frame rq.sids A).same.reqLog
  have hdead : ∀ j, deadW A B j → deadW (performEp A rq.rsn rq.sids) B j :=
    fun j d => d.mono (fun r hr => by show r ∈ (rq.sids.foldl resetOne A).reqLog; rw [hlogSame]; exact hr) (fun _ h => h)
  have hdeadB : ∀ j, deadW B A j → deadW B (performEp A rq.rsn rq.sids) j :=
    fun j d => d.mono (fun _ h => h) (fun r hr => by show r ∈ rq.rsn :: (rq.sids.foldl resetOne A).perf; rw [f5]; exact List.mem_cons_of_mem _ hr)
  -- identity of every object is kept
  have back : ∀ (j : Nat) (o' : Obj), (rq.sids.foldl resetOne A).objs[j]? = some o' → ∃ o, A.objs[j]? = some o ∧ ResetRel rq.sids o o' ∧
      o'.sid = o.sid ∧ o'.gen = o.gen ∧ o'.rx = o.rx := by
    intro j o' ho'
    obtain ⟨o, ho, r⟩ := rel.back j o' ho'
    refine ⟨o, ho, r, ?_⟩
    rcases r with rfl | ⟨rfl, _, _⟩
    · exact ⟨rfl, rfl, rfl⟩
    · exact ⟨rfl, rfl, rfl⟩
  refine ⟨?_, ?_, ?_, ?_, ?_, ?_⟩
  · intro j o' ho' ht
    obtain ⟨o, ho, _, a, b, _⟩ := back j o' ho'
    rw [a, b]; exact g1 j o ho (by rw [← a]; exact ht)
  · intro j j' o1 o2 ho1 ho2 ht hs hg
    obtain ⟨p1, hp1, _, a1, b1, _⟩ := back j o1 ho1
    obtain ⟨p2, hp2, _, a2, b2, _⟩ := back j' o2 ho2
    exact g2 j j' p1 p2 hp1 hp2 (by rw [← a1]; exact ht) (by rw [← a1, ← a2]; exact hs) (by rw [← b1, ← b2]; exact hg)
  · intro j o' ho' ht hlt
    obtain ⟨o, ho, _, a, b, _⟩ := back j o' ho'
    exact hdead j (g3 j o ho (by rw [← a]; exact ht) (by rw [← a, ← b]; exact hlt))
  · intro sid j o' ht hl ho'
    obtain ⟨o, ho, _, _, b, _⟩ := back j o' ho'
    rw [b]; exact g4 sid j o ht (regShrink sid j hl) ho
  · intro j o' ho' ht c hc
    obtain ⟨o, ho, _, a, b, d⟩ := back j o' ho'
    rw [b]; exact g5 j o ho (by rw [← a]; exact ht) c (by rw [← d]; exact hc)
  · intro j o' ho' ht hre
    obtain ⟨o, ho, r, a, b, d⟩ := back j o' ho'
    have hto : o.sid ∉ taint := by rw [← a]; exact ht
    rcases r with rfl | ⟨rfl, hoe, hmem⟩
    · -- was reset before: the old link, the peer's request log and our performed set only grew
      obtain ⟨hw, w, a1, a2, a3, a4, a5⟩ := g6 j o' ho hto hre
      exact ⟨hw, w, a1, a2, a3, hdeadB hw a4, a5⟩
    · -- reset now, by this request: its partner is the object the request names for this identifier
      obtain ⟨hlen, _, hall⟩ := sB.recOK rq hrec
      obtain ⟨hw, hz⟩ := mem_sids_zip rq hlen o.sid hmem
      obtain ⟨w, hwo, hws, _, _, _, hchunks⟩ := hall _ hz
      have hwmem : hw ∈ rq.wobjs := (List.of_mem_zip hz).2
      -- o is registered (it had not been reset): it is of the current incarnation
      have hreg : lookup o.sid A.reg = some j := by
        rcases rA.unregErr j o ho with h | h
        · exact h
        · rw [hoe] at h; cases h
      have hog : o.gen = gen o.sid := g4 o.sid j o hto hreg ho
      -- so is w: otherwise it would be dead, i.e. this very request would have been performed already
      have hwt : w.sid ∉ taint := by simp only at hws; rw [hws]; exact hto
      have hwg : w.gen = gen o.sid := by
        have hle' := gB.genLe hw w hwo hwt
        simp only at hws
        rw [hws] at hle'
        rcases Nat.lt_or_ge w.gen (gen o.sid) with hlt | hge
        · exfalso
          obtain ⟨rq', hrec', hm', hp'⟩ := gB.oldDead hw w hwo hwt (by rw [hws]; exact hlt)
          have : rq' = rq := sB.recUniq rq' hrec' rq hrec hw hm' hwmem
          subst this
          exact hfresh hp'
        · omega
      refine ⟨hw, w, hwo, (by show w.sid = o.sid; simpa using hws), (by show w.gen = o.gen; rw [hwg]; exact hog.symm), ⟨rq, hrec, hwmem, List.mem_cons_self⟩, ?_⟩
      -- every chunk of w is at or below the request's last TSN, hence received, hence in SOME object of A of the same
      -- identifier and incarnation: that is o
      intro c hc hcw
      have hct : c.tsn ≤ A.cum := by have := hchunks c hc hcw; omega
      obtain ⟨j2, o2, ho2, hco2⟩ := x.complete c hc (Or.inl hct)
      obtain ⟨_, hsid2, _⟩ := x.rx j2 o2 ho2 c hco2
      have hi : c.d ∈ B.items := by unfold Ep.items; exact List.mem_append_left _ (List.mem_map_of_mem hc)
      obtain ⟨w2, hw2, hs2, hg2, _, _⟩ := wB.item c.d hi
      rw [hcw, hwo] at hw2; cases hw2
      simp only at hws
      have ho2sid : o2.sid = o.sid := by rw [← hsid2, ← hs2, hws]
      have ho2gen : o2.gen = o.gen := by
        rw [← g5 j2 o2 ho2 (by rw [ho2sid]; exact hto) c hco2, ← hg2, hwg, hog]
      have : j2 = j := g2 j2 j o2 o ho2 ho (by rw [ho2sid]; exact hto) ho2sid ho2gen
      subst this
      rw [ho] at ho2; cases ho2
      exact hco2

end Rs
