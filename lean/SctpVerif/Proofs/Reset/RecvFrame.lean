import SctpVerif.Proofs.Reset.Inv
/-!
Frame facts for the receive half (`handle` and what it is made of), `read` and `accept`: they never touch the pending
queue, the sent log, the request log or the TSN / RSN counters, they keep the writer part of every stream object, and
whatever they put into the control queue is a re-configuration response.
-/
namespace Rs

theorem FreshW.transport {o o' : Obj} (hf : FreshW o) (ws : WriterSame o o') : FreshW o' := by
  obtain ⟨a, b, c⟩ := ws.ctr hf.isOpen
  exact ⟨ws.openIff.mpr hf.isOpen, ws.wrote.trans hf.wrote, a.trans hf.ssn, b.trans hf.omid, c.trans hf.umid⟩

theorem ObjsStep.trans {l l' l'' : List Obj} (h1 : ObjsStep l l') (h2 : ObjsStep l' l'') : ObjsStep l l'' := by
  refine ⟨Nat.le_trans h1.len h2.len, ?_, ?_⟩
  · intro h o ho
    obtain ⟨o', ho', w1⟩ := h1.old h o ho
    obtain ⟨o'', ho'', w2⟩ := h2.old h o' ho'
    exact ⟨o'', ho'', w1.trans w2⟩
  · intro h o'' ho'' hl
    rcases h2.back h o'' ho'' with ⟨o', ho', ws⟩ | ⟨_, hf⟩
    · exact (h1.new h o' ho' hl).transport ws
    · exact hf

/-- send-half fields and writer parts untouched -/
structure RFrame (e e' : Ep) : Prop where
  same : SendSame e e'
  objs : ObjsStep e.objs e'.objs
  ctl : e'.ctl = e.ctl

theorem RFrame.refl (e : Ep) : RFrame e e := ⟨⟨rfl, rfl, rfl, rfl, rfl, rfl⟩, ObjsStep.refl _, rfl⟩

theorem SendSame.trans {a b c : Ep} (h1 : SendSame a b) (h2 : SendSame b c) : SendSame a c :=
  ⟨h2.il.trans h1.il, h2.nextTSN.trans h1.nextTSN, h2.nextRSN.trans h1.nextRSN, h2.pend.trans h1.pend,
   h2.sent.trans h1.sent, h2.reqLog.trans h1.reqLog⟩

theorem RFrame.trans {a b c : Ep} (h1 : RFrame a b) (h2 : RFrame b c) : RFrame a c :=
  ⟨h1.same.trans h2.same, h1.objs.trans h2.objs, h2.ctl.trans h1.ctl⟩

theorem inboundReset_writerSame (o : Obj) : WriterSame o (inboundReset o) := by
  refine ⟨rfl, rfl, rfl, ?_, fun _ => ⟨rfl, rfl, rfl⟩⟩
  unfold isOpen inboundReset
  simp only
  split
  · rename_i h
    have h : o.state = Gen.StreamStateClosing := by simpa using h
    rw [h]; decide
  · exact Iff.rfl

theorem zeroCounters_writerSame (o : Obj) (h : ¬ isOpen o) : WriterSame o (zeroCounters o) :=
  ⟨rfl, rfl, rfl, Iff.rfl, fun x => absurd x h⟩

theorem pushObj_writerSame (il : Bool) (o : Obj) (c : Chunk) : WriterSame o (pushObj il o c) := by
  unfold pushObj
  simp only
  split
  · split <;> exact ⟨rfl, rfl, rfl, Iff.rfl, fun _ => ⟨rfl, rfl, rfl⟩⟩
  · split
    · exact ⟨rfl, rfl, rfl, Iff.rfl, fun _ => ⟨rfl, rfl, rfl⟩⟩
    · split <;> exact ⟨rfl, rfl, rfl, Iff.rfl, fun _ => ⟨rfl, rfl, rfl⟩⟩

theorem ObjsStep.set (l : List Obj) (h : Nat) (o o' : Obj) (ho : l[h]? = some o) (ws : WriterSame o o') :
    ObjsStep l (l.set h o') :=
  ObjsStep.ofRel (R := WriterSame) (fun _ _ x => x) (ObjsRel.set WriterSame.refl l h o o' ho ws)

theorem resetOne_frame (e : Ep) (sid : Nat) : RFrame e (resetOne e sid) := by
  unfold resetOne
  split
  · exact RFrame.refl e
  · split
    · exact ⟨⟨rfl, rfl, rfl, rfl, rfl, rfl⟩, ObjsStep.refl _, rfl⟩
    · rename_i h _ o ho
      exact ⟨⟨rfl, rfl, rfl, rfl, rfl, rfl⟩, ObjsStep.set _ _ _ _ ho (inboundReset_writerSame o), rfl⟩

theorem foldl_resetOne_frame (sids : List Nat) (e : Ep) : RFrame e (sids.foldl resetOne e) := by
  induction sids generalizing e with
  | nil => exact RFrame.refl e
  | cons s rest ih => simp only [List.foldl_cons]; exact (resetOne_frame e s).trans (ih _)

theorem resetStreamsIfAny_frame (e : Ep) (rsn last : Nat) (sids : List Nat) :
    RFrame e (resetStreamsIfAny e rsn last sids).1 ∧ ∃ v, (resetStreamsIfAny e rsn last sids).2 = Msg.resp rsn v := by
  unfold resetStreamsIfAny
  split
  · have := foldl_resetOne_frame sids e
    exact ⟨⟨⟨this.same.il, this.same.nextTSN, this.same.nextRSN, this.same.pend, this.same.sent, this.same.reqLog⟩, this.objs, this.ctl⟩, _, rfl⟩
  · exact ⟨RFrame.refl e, _, rfl⟩

def AllResp (l : List Msg) : Prop := ∀ p ∈ l, ∃ r v, p = Msg.resp r v

theorem AllResp.append {a b : List Msg} (ha : AllResp a) (hb : AllResp b) : AllResp (a ++ b) := by
  intro p hp
  rcases List.mem_append.mp hp with h | h
  · exact ha p h
  · exact hb p h

theorem recheck_frame (l : List (Nat × Nat × List Nat)) : ∀ e, RFrame e (recheck e l).1 ∧ AllResp (recheck e l).2 := by
  induction l with
  | nil => intro e; exact ⟨RFrame.refl e, fun _ h => by cases h⟩
  | cons r rest ih =>
    intro e
    simp only [recheck]
    obtain ⟨f1, v, hv⟩ := resetStreamsIfAny_frame e r.1 r.2.1 r.2.2
    obtain ⟨f2, a2⟩ := ih (resetStreamsIfAny e r.1 r.2.1 r.2.2).1
    refine ⟨f1.trans f2, ?_⟩
    intro p hp
    rcases List.mem_cons.mp hp with h | h
    · exact ⟨_, _, h.trans hv⟩
    · exact a2 p h

theorem advance_frame (fuel : Nat) : ∀ e, RFrame e (advance fuel e).1 ∧ AllResp (advance fuel e).2 := by
  induction fuel with
  | zero => intro e; exact ⟨RFrame.refl e, fun _ h => by cases h⟩
  | succ n ih =>
    intro e
    simp only [advance]
    split
    · obtain ⟨f1, a1⟩ := recheck_frame ({ e with rcv := e.rcv.filter (· != e.cum + 1), cum := e.cum + 1 } : Ep).rreqs
        { e with rcv := e.rcv.filter (· != e.cum + 1), cum := e.cum + 1 }
      obtain ⟨f2, a2⟩ := ih (recheck { e with rcv := e.rcv.filter (· != e.cum + 1), cum := e.cum + 1 }
        ({ e with rcv := e.rcv.filter (· != e.cum + 1), cum := e.cum + 1 } : Ep).rreqs).1
      have f0 : RFrame e { e with rcv := e.rcv.filter (· != e.cum + 1), cum := e.cum + 1 } :=
        ⟨⟨rfl, rfl, rfl, rfl, rfl, rfl⟩, ObjsStep.refl _, rfl⟩
      exact ⟨f0.trans (f1.trans f2), a1.append a2⟩
    · exact ⟨RFrame.refl e, fun _ h => by cases h⟩

theorem freshW_new (sid gen : Nat) : FreshW { sid := sid, gen := gen } := ⟨rfl, rfl, rfl, rfl, rfl⟩

theorem handleData_frame (e : Ep) (c : Chunk) : RFrame e (handleData e c).1 ∧ AllResp (handleData e c).2 := by
  unfold handleData
  simp only
  split
  · split
    · rename_i r hr
      exact ⟨RFrame.refl e, fun _ h => by cases h⟩
    · rename_i r e1 h hr
      -- e1 is e (stream known) or e with a fresh object appended
      have f1 : RFrame e e1 := by
        split at hr
        · cases hr; exact RFrame.refl e
        · split at hr
          · cases hr
            exact ⟨⟨rfl, rfl, rfl, rfl, rfl, rfl⟩, ObjsStep.append _ _ (freshW_new _ _), rfl⟩
          · cases hr
      split
      · exact ⟨f1.trans ⟨⟨rfl, rfl, rfl, rfl, rfl, rfl⟩, ObjsStep.refl _, rfl⟩, fun _ h => by cases h⟩
      · split
        · exact ⟨f1.trans ⟨⟨rfl, rfl, rfl, rfl, rfl, rfl⟩, ObjsStep.refl _, rfl⟩, fun _ h => by cases h⟩
        · rename_i o ho
          have f2 : RFrame e1 { e1 with objs := e1.objs.set h (pushObj e1.il o c), rcv := c.tsn :: e1.rcv } :=
            ⟨⟨rfl, rfl, rfl, rfl, rfl, rfl⟩, ObjsStep.set _ _ _ _ ho (pushObj_writerSame _ _ _), rfl⟩
          obtain ⟨f3, a3⟩ := advance_frame ({ e1 with objs := e1.objs.set h (pushObj e1.il o c), rcv := c.tsn :: e1.rcv } : Ep).rcv.length
            { e1 with objs := e1.objs.set h (pushObj e1.il o c), rcv := c.tsn :: e1.rcv }
          exact ⟨f1.trans (f2.trans f3), a3⟩
  · exact advance_frame _ e

theorem handleDatas_frame (cs : List Chunk) : ∀ e, RFrame e (handleDatas e cs).1 ∧ AllResp (handleDatas e cs).2 := by
  induction cs with
  | nil => intro e; exact ⟨RFrame.refl e, fun _ h => by cases h⟩
  | cons c rest ih =>
    intro e
    simp only [handleDatas]
    obtain ⟨f1, a1⟩ := handleData_frame e c
    obtain ⟨f2, a2⟩ := ih (handleData e c).1
    exact ⟨f1.trans f2, a1.append a2⟩

theorem handleReq_frame (e : Ep) (rsn last : Nat) (sids : List Nat) :
    RFrame e (handleReq e rsn last sids).1 ∧ AllResp (handleReq e rsn last sids).2 := by
  unfold handleReq
  split
  · exact ⟨RFrame.refl e, fun p h => by simp at h; exact ⟨_, _, h⟩⟩
  · split
    · exact ⟨RFrame.refl e, fun _ h => by cases h⟩
    · obtain ⟨f, v, hv⟩ := resetStreamsIfAny_frame { e with rreqs := insert rsn (last, sids) e.rreqs } rsn last sids
      have f0 : RFrame e { e with rreqs := insert rsn (last, sids) e.rreqs } := ⟨⟨rfl, rfl, rfl, rfl, rfl, rfl⟩, ObjsStep.refl _, rfl⟩
      refine ⟨f0.trans f, ?_⟩
      intro p hp
      simp only [List.mem_singleton] at hp
      exact ⟨_, _, hp.trans hv⟩

theorem rewindOne_frame (e : Ep) (sid : Nat) : RFrame e (rewindOne e sid) := by
  unfold rewindOne
  split
  · exact RFrame.refl e
  · split
    · exact RFrame.refl e
    · rename_i h _ o ho
      split
      · rename_i hst
        exact ⟨⟨rfl, rfl, rfl, rfl, rfl, rfl⟩, ObjsStep.set _ _ _ _ ho (zeroCounters_writerSame o (by simpa [isOpen] using hst)), rfl⟩
      · exact RFrame.refl e

theorem foldl_rewindOne_frame (sids : List Nat) (e : Ep) : RFrame e (sids.foldl rewindOne e) := by
  induction sids generalizing e with
  | nil => exact RFrame.refl e
  | cons s rest ih => simp only [List.foldl_cons]; exact (rewindOne_frame e s).trans (ih _)

theorem handleResp_frame (e : Ep) (rsn result : Nat) : RFrame e (handleResp e rsn result) := by
  unfold handleResp
  split
  · exact RFrame.refl e
  · simp only
    split
    · split
      · rename_i r _
        have := foldl_rewindOne_frame r.2 e
        exact ⟨⟨this.same.il, this.same.nextTSN, this.same.nextRSN, this.same.pend, this.same.sent, this.same.reqLog⟩, this.objs, this.ctl⟩
      · exact ⟨⟨rfl, rfl, rfl, rfl, rfl, rfl⟩, ObjsStep.refl _, rfl⟩
    · exact ⟨⟨rfl, rfl, rfl, rfl, rfl, rfl⟩, ObjsStep.refl _, rfl⟩

theorem insSorted_mem (m : Msg) (l : List Msg) (p : Msg) : p ∈ insSorted m l ↔ p = m ∨ p ∈ l := by
  induction l with
  | nil => simp [insSorted]
  | cons x rest ih =>
    simp only [insSorted]
    split
    · simp only [List.mem_cons, ih]
      constructor
      · rintro (h | h | h)
        · exact Or.inr (Or.inl h)
        · exact Or.inl h
        · exact Or.inr (Or.inr h)
      · rintro (h | h | h)
        · exact Or.inr (Or.inl h)
        · exact Or.inl h
        · exact Or.inr (Or.inr h)
    · simp [List.mem_cons]

theorem sortReplies_mem (l : List Msg) (p : Msg) : p ∈ sortReplies l ↔ p ∈ l := by
  unfold sortReplies
  have : ∀ acc, p ∈ l.foldl (fun acc m => insSorted m acc) acc ↔ p ∈ acc ∨ p ∈ l := by
    induction l with
    | nil => intro acc; simp
    | cons x rest ih =>
      intro acc
      simp only [List.foldl_cons, ih, insSorted_mem, List.mem_cons]
      constructor
      · rintro ((h | h) | h)
        · exact Or.inr (Or.inl h)
        · exact Or.inl h
        · exact Or.inr (Or.inr h)
      · rintro (h | h | h)
        · exact Or.inl (Or.inr h)
        · exact Or.inl (Or.inl h)
        · exact Or.inr h
  simpa using this []

/-- one inbound packet: send half untouched, writer parts kept, only responses are queued -/
theorem handle_frame (e : Ep) (p : Msg) :
    SendSame e (handle e p) ∧ ObjsStep e.objs (handle e p).objs ∧ (∀ q ∈ (handle e p).ctl, q ∈ e.ctl ∨ ∃ r v, q = Msg.resp r v) := by
  cases p with
  | data cs =>
    obtain ⟨f, a⟩ := handleDatas_frame cs e
    refine ⟨⟨f.same.il, f.same.nextTSN, f.same.nextRSN, f.same.pend, f.same.sent, f.same.reqLog⟩, f.objs, ?_⟩
    intro q hq
    simp only [handle] at hq
    rcases List.mem_append.mp hq with h | h
    · left; rw [f.ctl] at h; exact h
    · right; exact a q ((sortReplies_mem _ q).mp h)
  | sack c => exact ⟨⟨rfl, rfl, rfl, rfl, rfl, rfl⟩, ObjsStep.refl _, fun q h => Or.inl h⟩
  | req rsn last sids =>
    obtain ⟨f, a⟩ := handleReq_frame e rsn last sids
    refine ⟨⟨f.same.il, f.same.nextTSN, f.same.nextRSN, f.same.pend, f.same.sent, f.same.reqLog⟩, f.objs, ?_⟩
    intro q hq
    simp only [handle] at hq
    rcases List.mem_append.mp hq with h | h
    · left; rw [f.ctl] at h; exact h
    · right; exact a q h
  | resp rsn result =>
    have f := handleResp_frame e rsn result
    have hh : handle e (Msg.resp rsn result) = handleResp e rsn result := rfl
    rw [hh]
    exact ⟨f.same, f.objs, fun q h => Or.inl (by rw [f.ctl] at h; exact h)⟩

end Rs
