import SctpVerif.Proofs.Reset.ReadInv
/-!
`RInv`: the receive half of one endpoint — the stream table points at objects that have not been reset, an object on
which the reader has seen EOF has nothing left to read, the TSNs held above the cumulative point are above it, and
every object's receive queues are consistent with what it was handed (`ReaderInv`). Kept by every operation.
-/
namespace Rs

structure RInv (e : Ep) : Prop where
  regOK : ∀ sid h, lookup sid e.reg = some h → ∃ o, e.objs[h]? = some o ∧ o.sid = sid ∧ o.readErr = false
  eofErr : ∀ (h : Nat) (o : Obj), e.objs[h]? = some o → o.eofSeen = true → o.readErr = true ∧ readOne o = none
  rcvGt : ∀ t ∈ e.rcv, e.cum < t
  reader : ∀ (h : Nat) (o : Obj), e.objs[h]? = some o → ReaderInv e.il o
  unregErr : ∀ (h : Nat) (o : Obj), e.objs[h]? = some o → lookup o.sid e.reg = some h ∨ o.readErr = true

theorem readOne_none_iff (o : Obj) : readOne o = none ↔ o.unord = [] ∧ (o.ord = [] ∨ ∃ q rest, o.ord = q :: rest ∧ o.nextSeq < q.seq) := by
  unfold readOne
  cases hu : o.unord with
  | cons q r => simp
  | nil =>
    cases ho : o.ord with
    | nil => simp
    | cons q r =>
      simp only [true_and, List.cons.injEq, reduceCtorEq, false_or]
      constructor
      · intro h
        split at h
        · cases h
        · rename_i hgt; exact ⟨q, r, ⟨rfl, rfl⟩, by omega⟩
      · rintro ⟨q', r', ⟨rfl, rfl⟩, hlt⟩
        rw [if_neg (by omega)]

theorem readOne_none_same {o o' : Obj} (s : ReaderSame o o') (h : readOne o = none) : readOne o' = none := by
  rw [readOne_none_iff] at h ⊢
  rw [s.unord, s.ord, s.nextSeq]; exact h

theorem ReaderInv.transportQ {il : Bool} {o o' : Obj} (h : ReaderInv il o) (s : QueueSame o o') : ReaderInv il o' := by
  obtain ⟨h1, h2, h3, h4, h5, h6⟩ := h
  have hg : ordGot o' = ordGot o := by unfold ordGot; rw [s.got]
  refine ⟨?_, ?_, ?_, ?_, ?_, ?_⟩
  · rw [s.ord]; exact h1
  · rw [s.ord, s.rx]; exact h2
  · rw [s.ord, s.rx, s.nextSeq]; exact h3
  · rw [s.unord, s.rx]; exact h4
  · rw [s.unord, s.rx, s.got]; exact h5
  · rw [s.rx, s.nextSeq, hg]; exact h6

/-- nothing the receive half looks at has changed -/
theorem RInv.same {e e' : Ep} (inv : RInv e) (hil : e'.il = e.il) (hcum : e'.cum = e.cum) (hrcv : e'.rcv = e.rcv)
    (hreg : e'.reg = e.reg) (hobjs : ObjsRel ReaderSame e.objs e'.objs) : RInv e' := by
  obtain ⟨h1, h2, h3, h4, h5⟩ := inv
  have back : ∀ (h : Nat) (o' : Obj), e'.objs[h]? = some o' → ∃ o, e.objs[h]? = some o ∧ ReaderSame o o' := by
    intro h o' ho'
    have hlt : h < e.objs.length := by rw [← hobjs.1]; exact getElem?_lt ho'
    obtain ⟨o'', ho'', r⟩ := hobjs.2 h _ (List.getElem?_eq_getElem hlt)
    rw [ho'] at ho''; cases ho''
    exact ⟨_, List.getElem?_eq_getElem hlt, r⟩
  refine ⟨?_, ?_, ?_, ?_, ?_⟩
  rotate_right
  · rw [hreg]
    intro h o' ho'
    obtain ⟨o, ho, r⟩ := back h o' ho'
    rw [r.sid, r.readErr]; exact h5 h o ho
  · rw [hreg]
    intro sid h hl
    obtain ⟨o, ho, a, b⟩ := h1 sid h hl
    obtain ⟨o', ho', r⟩ := hobjs.2 h o ho
    exact ⟨o', ho', r.sid.trans a, r.readErr.trans b⟩
  · intro h o' ho' hE
    obtain ⟨o, ho, r⟩ := back h o' ho'
    obtain ⟨a, b⟩ := h2 h o ho (by rw [← r.eofSeen]; exact hE)
    exact ⟨r.readErr.trans a, readOne_none_same r b⟩
  · rw [hrcv, hcum]; exact h3
  · rw [hil]
    intro h o' ho'
    obtain ⟨o, ho, r⟩ := back h o' ho'
    exact (h4 h o ho).transport r

theorem ObjsRel.setSame {R : Obj → Obj → Prop} (hr : ∀ o, R o o) (l : List Obj) (h : Nat) (o o' : Obj)
    (ho : l[h]? = some o) (r : R o o') : ObjsRel R l (l.set h o') := ObjsRel.set hr l h o o' ho r

/-- a new stream object enters the table (OpenStream, or the first DATA on an unknown identifier) -/
theorem RInv.addObj {e e' : Ep} (inv : RInv e) (sid gen : Nat) (hnone : lookup sid e.reg = none)
    (hil : e'.il = e.il) (hcum : e'.cum = e.cum) (hrcv : e'.rcv = e.rcv)
    (hreg : e'.reg = insert sid e.objs.length e.reg) (hobjs : e'.objs = e.objs ++ [{ sid := sid, gen := gen }]) : RInv e' := by
  obtain ⟨h1, h2, h3, h4, h5⟩ := inv
  have old : ∀ (h : Nat) (o : Obj), e.objs[h]? = some o → e'.objs[h]? = some o := by
    intro h o ho
    rw [hobjs, List.getElem?_append_left (getElem?_lt ho)]; exact ho
  have back : ∀ (h : Nat) (o' : Obj), e'.objs[h]? = some o' → e.objs[h]? = some o' ∨ (h = e.objs.length ∧ o' = { sid := sid, gen := gen }) := by
    intro h o' ho'
    rw [hobjs] at ho'
    rcases Nat.lt_or_ge h e.objs.length with hl | hl
    · rw [List.getElem?_append_left hl] at ho'; exact Or.inl ho'
    · rw [List.getElem?_append_right hl] at ho'
      rcases Nat.eq_zero_or_pos (h - e.objs.length) with h0 | h0
      · rw [h0] at ho'; simp at ho'; exact Or.inr ⟨by omega, ho'.symm⟩
      · rw [List.getElem?_eq_none (by simp; omega)] at ho'; cases ho'
  refine ⟨?_, ?_, ?_, ?_, ?_⟩
  rotate_right
  · rw [hreg]
    intro h o' ho'
    rcases back h o' ho' with ho | ⟨hh, rfl⟩
    · by_cases hs : o'.sid = sid
      · right
        rcases h5 h o' ho with hl | hre
        · rw [hs, hnone] at hl; cases hl
        · exact hre
      · rw [lookup_insert_ne _ _ _ _ hs]; exact h5 h o' ho
    · left; rw [hh]; exact lookup_insert_self _ _ _
  · rw [hreg]
    intro sid' h hl
    by_cases hs : sid' = sid
    · subst hs
      rw [lookup_insert_self] at hl; cases hl
      exact ⟨{ sid := sid', gen := gen }, by rw [hobjs]; simp, rfl, rfl⟩
    · rw [lookup_insert_ne _ _ _ _ hs] at hl
      obtain ⟨o, ho, a, b⟩ := h1 sid' h hl
      exact ⟨o, old h o ho, a, b⟩
  · intro h o' ho' hE
    rcases back h o' ho' with ho | ⟨_, rfl⟩
    · exact h2 h o' ho hE
    · cases hE
  · rw [hrcv, hcum]; exact h3
  · rw [hil]
    intro h o' ho'
    rcases back h o' ho' with ho | ⟨_, rfl⟩
    · exact h4 h o' ho
    · exact readerInv_new _ _ _

theorem pushObj_same (il : Bool) (o : Obj) (c : Chunk) :
    (pushObj il o c).sid = o.sid ∧ (pushObj il o c).gen = o.gen ∧ (pushObj il o c).readErr = o.readErr ∧
    (pushObj il o c).eofSeen = o.eofSeen ∧ (pushObj il o c).rx = o.rx ++ [c] ∧ (pushObj il o c).got = o.got := by
  unfold pushObj
  simp only
  split
  · split <;> exact ⟨rfl, rfl, rfl, rfl, rfl, rfl⟩
  · split
    · exact ⟨rfl, rfl, rfl, rfl, rfl, rfl⟩
    · split <;> exact ⟨rfl, rfl, rfl, rfl, rfl, rfl⟩

/-- a chunk above the cumulative point is handed to a stream that has not been reset -/
theorem RInv.push {e e' : Ep} (inv : RInv e) (h : Nat) (o : Obj) (c : Chunk) (ho : e.objs[h]? = some o)
    (hne : o.readErr = false) (hgt : e.cum < c.tsn)
    (hil : e'.il = e.il) (hcum : e'.cum = e.cum) (hrcv : e'.rcv = c.tsn :: e.rcv)
    (hreg : e'.reg = e.reg) (hobjs : e'.objs = e.objs.set h (pushObj e.il o c)) : RInv e' := by
  obtain ⟨h1, h2, h3, h4, h5⟩ := inv
  have hlt := getElem?_lt ho
  have hget : e'.objs[h]? = some (pushObj e.il o c) := by rw [hobjs]; simp [hlt]
  have hother : ∀ j, j ≠ h → e'.objs[j]? = e.objs[j]? := fun j hj => by rw [hobjs]; exact List.getElem?_set_ne (Ne.symm hj)
  obtain ⟨p1, p2, p3, p4, p5, p6⟩ := pushObj_same e.il o c
  refine ⟨?_, ?_, ?_, ?_, ?_⟩
  rotate_right
  · rw [hreg]
    intro j oj hoj
    by_cases hj : j = h
    · subst hj; rw [hget] at hoj; cases hoj
      rw [p1, p3]; exact h5 j o ho
    · rw [hother j hj] at hoj; exact h5 j oj hoj
  · rw [hreg]
    intro sid j hl
    obtain ⟨oj, hoj, a, b⟩ := h1 sid j hl
    by_cases hj : j = h
    · subst hj; rw [ho] at hoj; cases hoj
      exact ⟨_, hget, p1.trans a, p3.trans b⟩
    · exact ⟨oj, by rw [hother j hj]; exact hoj, a, b⟩
  · intro j oj hoj hE
    by_cases hj : j = h
    · subst hj; rw [hget] at hoj; cases hoj
      rw [p4] at hE
      have := (h2 j o ho hE).1
      rw [hne] at this; cases this
    · rw [hother j hj] at hoj; exact h2 j oj hoj hE
  · rw [hrcv, hcum]
    intro t ht
    rcases List.mem_cons.mp ht with rfl | ht
    · exact hgt
    · exact h3 t ht
  · rw [hil]
    intro j oj hoj
    by_cases hj : j = h
    · subst hj; rw [hget] at hoj; cases hoj
      exact pushObj_readerInv e.il o c (h4 j o ho)
    · rw [hother j hj] at hoj; exact h4 j oj hoj

theorem inboundReset_readOne (o : Obj) : readOne (inboundReset o) = none ↔ readOne o = none := by
  rw [readOne_none_iff, readOne_none_iff]; rfl

/-- Go: resetStreamsIfAny for one identifier -/
theorem resetOne_rinv (e : Ep) (sid : Nat) (inv : RInv e) : RInv (resetOne e sid) := by
  obtain ⟨h1, h2, h3, h4, h5⟩ := inv
  unfold resetOne
  split
  · exact ⟨h1, h2, h3, h4, h5⟩
  · rename_i h hl
    obtain ⟨o, ho, hos, hoe⟩ := h1 sid h hl
    rw [ho]
    simp only
    have hlt := getElem?_lt ho
    have hget : (e.objs.set h (inboundReset o))[h]? = some (inboundReset o) := by simp [hlt]
    have hother : ∀ j, j ≠ h → (e.objs.set h (inboundReset o))[j]? = e.objs[j]? := fun j hj => List.getElem?_set_ne (Ne.symm hj)
    refine ⟨?_, ?_, h3, ?_, ?_⟩
    rotate_right
    · intro j oj hoj
      by_cases hj : j = h
      · subst hj; rw [hget] at hoj; cases hoj; exact Or.inr rfl
      · rw [hother j hj] at hoj
        rcases h5 j oj hoj with hl2 | hre
        · by_cases hs : oj.sid = sid
          · rw [hs, hl] at hl2; cases hl2; exact absurd rfl hj
          · left; rw [lookup_erase_ne _ _ _ hs]; exact hl2
        · exact Or.inr hre
    · intro sid' j hl'
      by_cases hs : sid' = sid
      · subst hs; rw [lookup_erase_self] at hl'; cases hl'
      · rw [lookup_erase_ne _ _ _ hs] at hl'
        obtain ⟨oj, hoj, a, b⟩ := h1 sid' j hl'
        have hj : j ≠ h := by
          intro hjh; subst hjh; rw [ho] at hoj; cases hoj; exact hs (a.symm.trans hos)
        exact ⟨oj, by rw [hother j hj]; exact hoj, a, b⟩
    · intro j oj hoj hE
      by_cases hj : j = h
      · subst hj; rw [hget] at hoj; cases hoj
        have hE' : o.eofSeen = true := hE
        exact ⟨rfl, (inboundReset_readOne o).mpr (h2 j o ho hE').2⟩
      · rw [hother j hj] at hoj; exact h2 j oj hoj hE
    · intro j oj hoj
      by_cases hj : j = h
      · subst hj; rw [hget] at hoj; cases hoj
        exact (h4 j o ho).transportQ (inboundReset_queueSame o)
      · rw [hother j hj] at hoj; exact h4 j oj hoj

/-- fields the receive-half invariant does not read -/
theorem RInv.irrelevant {e e' : Ep} (inv : RInv e) (hil : e'.il = e.il) (hcum : e'.cum = e.cum) (hrcv : e'.rcv = e.rcv)
    (hreg : e'.reg = e.reg) (hobjs : e'.objs = e.objs) : RInv e' :=
  inv.same hil hcum hrcv hreg (hobjs ▸ ObjsRel.refl ReaderSame.refl _)

theorem foldl_resetOne_rinv (sids : List Nat) : ∀ e, RInv e → RInv (sids.foldl resetOne e) := by
  induction sids with
  | nil => intro e h; exact h
  | cons s rest ih => intro e h; simp only [List.foldl_cons]; exact ih _ (resetOne_rinv e s h)

theorem resetOne_fields (e : Ep) (sid : Nat) :
    (resetOne e sid).il = e.il ∧ (resetOne e sid).cum = e.cum ∧ (resetOne e sid).rcv = e.rcv ∧ (resetOne e sid).rreqs = e.rreqs ∧
    (resetOne e sid).perf = e.perf ∧ (resetOne e sid).maxOff = e.maxOff ∧ (resetOne e sid).acq = e.acq ∧
    (resetOne e sid).accCap = e.accCap ∧ (resetOne e sid).buf = e.buf ∧ (resetOne e sid).maxReq = e.maxReq := by
  unfold resetOne
  split
  · exact ⟨rfl, rfl, rfl, rfl, rfl, rfl, rfl, rfl, rfl, rfl⟩
  · split <;> exact ⟨rfl, rfl, rfl, rfl, rfl, rfl, rfl, rfl, rfl, rfl⟩

theorem foldl_resetOne_fields (sids : List Nat) : ∀ e : Ep,
    (sids.foldl resetOne e).il = e.il ∧ (sids.foldl resetOne e).cum = e.cum ∧ (sids.foldl resetOne e).rcv = e.rcv ∧
    (sids.foldl resetOne e).rreqs = e.rreqs ∧ (sids.foldl resetOne e).perf = e.perf ∧ (sids.foldl resetOne e).maxOff = e.maxOff ∧
    (sids.foldl resetOne e).acq = e.acq ∧ (sids.foldl resetOne e).accCap = e.accCap ∧ (sids.foldl resetOne e).buf = e.buf ∧
    (sids.foldl resetOne e).maxReq = e.maxReq := by
  induction sids with
  | nil => intro e; exact ⟨rfl, rfl, rfl, rfl, rfl, rfl, rfl, rfl, rfl, rfl⟩
  | cons s rest ih =>
    intro e
    simp only [List.foldl_cons]
    obtain ⟨a1, a2, a3, a4, a5, a6, a7, a8, a9, a10⟩ := ih (resetOne e s)
    obtain ⟨b1, b2, b3, b4, b5, b6, b7, b8, b9, b10⟩ := resetOne_fields e s
    exact ⟨a1.trans b1, a2.trans b2, a3.trans b3, a4.trans b4, a5.trans b5, a6.trans b6, a7.trans b7, a8.trans b8, a9.trans b9, a10.trans b10⟩

theorem resetStreamsIfAny_rinv (e : Ep) (rsn last : Nat) (sids : List Nat) (inv : RInv e) :
    RInv (resetStreamsIfAny e rsn last sids).1 := by
  unfold resetStreamsIfAny
  split
  · exact (foldl_resetOne_rinv sids e inv).irrelevant rfl rfl rfl rfl rfl
  · exact inv

theorem recheck_rinv (l : List (Nat × Nat × List Nat)) : ∀ e, RInv e → RInv (recheck e l).1 := by
  induction l with
  | nil => intro e h; exact h
  | cons r rest ih => intro e h; simp only [recheck]; exact ih _ (resetStreamsIfAny_rinv e _ _ _ h)

theorem advance_rinv (fuel : Nat) : ∀ e, RInv e → RInv (advance fuel e).1 := by
  induction fuel with
  | zero => intro e h; exact h
  | succ n ih =>
    intro e h
    simp only [advance]
    split
    · apply ih
      apply recheck_rinv
      obtain ⟨h1, h2, h3, h4, h5⟩ := h
      refine ⟨h1, h2, ?_, h4, h5⟩
      intro t ht
      simp only [List.mem_filter, bne_iff_ne, ne_eq] at ht
      have := h3 t ht.1
      simp only; omega
    · exact h

theorem handleData_rinv (e : Ep) (c : Chunk) (inv : RInv e) : RInv (handleData e c).1 := by
  unfold handleData
  simp only
  split
  · rename_i hcan
    simp only [Bool.and_eq_true, Bool.not_eq_true', decide_eq_true_eq] at hcan
    split
    · exact inv
    · rename_i r e1 h hr
      -- the stream table after getOrCreateStream
      have hinv1 : RInv e1 ∧ lookup c.d.sid e1.reg = some h ∧ e1.cum = e.cum ∧ e1.il = e.il := by
        split at hr
        · rename_i h' hl
          cases hr; exact ⟨inv, hl, rfl, rfl⟩
        · rename_i hl
          split at hr
          · cases hr
            exact ⟨inv.addObj c.d.sid c.d.gen hl rfl rfl rfl rfl rfl, lookup_insert_self _ _ _, rfl, rfl⟩
          · cases hr
      obtain ⟨inv1, hl1, hcum1, hil1⟩ := hinv1
      split
      · exact inv1.irrelevant rfl rfl rfl rfl rfl
      · split
        · exact inv1.irrelevant rfl rfl rfl rfl rfl
        · rename_i o ho
          obtain ⟨o2, ho2, _, hne⟩ := inv1.regOK _ _ hl1
          rw [ho] at ho2; cases ho2
          apply advance_rinv
          exact inv1.push h o c ho hne (by rw [hcum1]; exact hcan.1.2) rfl rfl rfl rfl rfl
  · exact advance_rinv _ e inv

theorem handleDatas_rinv (cs : List Chunk) : ∀ e, RInv e → RInv (handleDatas e cs).1 := by
  induction cs with
  | nil => intro e h; exact h
  | cons c rest ih => intro e h; simp only [handleDatas]; exact ih _ (handleData_rinv e c h)

theorem handleReq_rinv (e : Ep) (rsn last : Nat) (sids : List Nat) (inv : RInv e) : RInv (handleReq e rsn last sids).1 := by
  unfold handleReq
  split
  · exact inv
  · split
    · exact inv
    · exact resetStreamsIfAny_rinv _ rsn last sids (inv.irrelevant rfl rfl rfl rfl rfl)

theorem zeroCounters_readerSame (o : Obj) : ReaderSame o (zeroCounters o) := ⟨rfl, rfl, rfl, rfl, rfl, rfl, rfl, rfl, rfl⟩

theorem rewindOne_rinv (e : Ep) (sid : Nat) (inv : RInv e) : RInv (rewindOne e sid) := by
  unfold rewindOne
  split
  · exact inv
  · split
    · exact inv
    · rename_i h _ o ho
      split
      · exact inv.same rfl rfl rfl rfl (ObjsRel.set ReaderSame.refl _ _ _ _ ho (zeroCounters_readerSame o))
      · exact inv

theorem foldl_rewindOne_rinv (sids : List Nat) : ∀ e, RInv e → RInv (sids.foldl rewindOne e) := by
  induction sids with
  | nil => intro e h; exact h
  | cons s rest ih => intro e h; simp only [List.foldl_cons]; exact ih _ (rewindOne_rinv e s h)

theorem handleResp_rinv (e : Ep) (rsn result : Nat) (inv : RInv e) : RInv (handleResp e rsn result) := by
  unfold handleResp
  split
  · exact inv
  · simp only
    split
    · split
      · exact (foldl_rewindOne_rinv _ e inv).irrelevant rfl rfl rfl rfl rfl
      · exact inv.irrelevant rfl rfl rfl rfl rfl
    · exact inv.irrelevant rfl rfl rfl rfl rfl

theorem handle_rinv (e : Ep) (p : Msg) (inv : RInv e) : RInv (handle e p) := by
  cases p with
  | data cs => exact (handleDatas_rinv cs e inv).irrelevant rfl rfl rfl rfl rfl
  | sack c => exact inv
  | req rsn last sids => exact (handleReq_rinv e rsn last sids inv).irrelevant rfl rfl rfl rfl rfl
  | resp rsn result => exact handleResp_rinv e rsn result inv

/-! ### the application calls and the write loop -/

theorem openStream_rinv (e : Ep) (sid gen : Nat) (inv : RInv e) : RInv (openStream e sid gen).1 := by
  unfold openStream
  split
  · exact inv
  · rename_i hl
    exact inv.addObj sid gen hl rfl rfl rfl rfl rfl

theorem bump_readerSame (il : Bool) (o : Obj) (u : Bool) : ReaderSame o (bump il o u) := by
  unfold bump; split
  · split <;> exact ⟨rfl, rfl, rfl, rfl, rfl, rfl, rfl, rfl, rfl⟩
  · split <;> exact ⟨rfl, rfl, rfl, rfl, rfl, rfl, rfl, rfl, rfl⟩

theorem write_rinv (e : Ep) (h len : Nat) (unord : Bool) (msg : Nat) (inv : RInv e) : RInv (write e h len unord msg).1 := by
  unfold write
  split
  · exact inv
  · rename_i o ho
    split
    · exact inv
    · split
      · exact inv.irrelevant rfl rfl rfl rfl rfl
      · simp only
        have rs : ReaderSame o { bump e.il o unord with wrote := o.wrote ++ [(msg, unord)] } := by
          obtain ⟨a1, a2, a3, a4, a5, a6, a7, a8, a9⟩ := bump_readerSame e.il o unord
          exact ⟨a1, a2, a3, a4, a5, a6, a7, a8, a9⟩
        exact inv.same rfl rfl rfl rfl (ObjsRel.set ReaderSame.refl _ _ _ _ ho rs)

theorem close_rinv (e : Ep) (h : Nat) (inv : RInv e) : RInv (close e h).1 := by
  unfold close
  split
  · exact inv
  · rename_i o ho
    split
    · simp only
      exact inv.same rfl rfl rfl rfl (ObjsRel.set ReaderSame.refl _ _ _ _ ho ⟨rfl, rfl, rfl, rfl, rfl, rfl, rfl, rfl, rfl⟩)
    · exact inv

theorem accept_rinv (e : Ep) (inv : RInv e) : RInv (accept e).1 := by
  unfold accept
  split
  · exact inv
  · exact inv.irrelevant rfl rfl rfl rfl rfl

theorem gatherEp_fields (e : Ep) (popped left : List Item) :
    (gatherEp e popped left).il = e.il ∧ (gatherEp e popped left).cum = e.cum ∧ (gatherEp e popped left).rcv = e.rcv ∧
    (gatherEp e popped left).reg = e.reg ∧ (gatherEp e popped left).objs = e.objs ∧ (gatherEp e popped left).rreqs = e.rreqs ∧
    (gatherEp e popped left).perf = e.perf ∧ (gatherEp e popped left).acq = e.acq := by
  unfold gatherEp
  simp only
  split <;> exact ⟨rfl, rfl, rfl, rfl, rfl, rfl, rfl, rfl⟩

theorem gather_rinv (e : Ep) (sel : List Nat) (pre post : List (List Nat)) (sack : Bool) (e2 : Ep) (out : List Msg)
    (hg : gather e sel pre post sack = some (e2, out)) (inv : RInv e) : RInv e2 := by
  unfold gather at hg
  split at hg
  · cases hg
  · rename_i popped left hp
    simp only at hg
    split at hg
    · simp only [Option.some.injEq, Prod.mk.injEq] at hg
      rw [← hg.1]
      obtain ⟨a1, a2, a3, a4, a5, _⟩ := gatherEp_fields e popped left
      exact inv.irrelevant a1 a2 a3 a4 a5
    · cases hg

/-- reading: the queues stay consistent, and an EOF is only reported when nothing is left to read -/
theorem read_rinv (e : Ep) (h : Nat) (inv : RInv e) : RInv (read e h).1 := by
  unfold read
  split
  · exact inv
  · rename_i o ho
    simp only
    obtain ⟨h1, h2, h3, h4, h5⟩ := inv
    have hlt := getElem?_lt ho
    generalize hD : drain (o.ord.length + o.unord.length) o [] = D
    have hsame := drain_same (o.ord.length + o.unord.length) o []
    have hdone := drain_done (o.ord.length + o.unord.length) o [] (Nat.le_refl _)
    have hrd := drain_readerInv e.il (o.ord.length + o.unord.length) o [] (h4 h o ho)
    rw [hD] at hsame hdone hrd
    obtain ⟨s1, s2, s3, s4, s5⟩ := hsame
    generalize ho'' : (if D.1.readErr then { D.1 with eofSeen := true } else D.1) = o''
    have hq : o''.sid = o.sid ∧ o''.readErr = o.readErr ∧ readOne o'' = none ∧ ReaderInv e.il o'' ∧ (o''.eofSeen = true → o''.readErr = true) := by
      rw [← ho'']
      split
      · rename_i hre
        refine ⟨s1, s3, ?_, ⟨hrd.sorted, hrd.ordFrom, hrd.ordCover, hrd.unordFrom, hrd.unordCover, hrd.pref⟩, fun _ => hre⟩
        rw [readOne_none_iff] at hdone ⊢; exact hdone
      · rename_i hre
        refine ⟨s1, s3, hdone, hrd, ?_⟩
        intro hE
        rw [s5] at hE
        have := (h2 h o ho hE).1
        rw [← s3] at this; exact absurd this hre
    obtain ⟨q1, q2, q3, q4, q5⟩ := hq
    have hget : (e.objs.set h o'')[h]? = some o'' := by simp [hlt]
    have hother : ∀ j, j ≠ h → (e.objs.set h o'')[j]? = e.objs[j]? := fun j hj => List.getElem?_set_ne (Ne.symm hj)
    refine ⟨?_, ?_, h3, ?_, ?_⟩
    rotate_right
    · intro j oj hoj
      by_cases hj : j = h
      · subst hj; rw [hget] at hoj; cases hoj
        rw [q1, q2]; exact h5 j o ho
      · rw [hother j hj] at hoj; exact h5 j oj hoj
    · intro sid j hl
      obtain ⟨oj, hoj, a, b⟩ := h1 sid j hl
      by_cases hj : j = h
      · subst hj; rw [ho] at hoj; cases hoj
        exact ⟨o'', hget, q1.trans a, q2.trans b⟩
      · exact ⟨oj, by rw [hother j hj]; exact hoj, a, b⟩
    · intro j oj hoj hE
      by_cases hj : j = h
      · subst hj; rw [hget] at hoj; cases hoj; exact ⟨q5 hE, q3⟩
      · rw [hother j hj] at hoj; exact h2 j oj hoj hE
    · intro j oj hoj
      by_cases hj : j = h
      · subst hj; rw [hget] at hoj; cases hoj; exact q4
      · rw [hother j hj] at hoj; exact h4 j oj hoj

end Rs
