import SctpVerif.Proofs.Reset.RecvInv
/-!
`XInv S R H`: one direction of the two-endpoint system — `S` sends, `R` receives, `H` is every packet `S` ever put on
the wire. Packets only carry chunks that were sent and requests that were created; what `R` holds (TSNs, deferred and
performed requests, chunks handed to stream objects) comes from `S`; a request is only performed once the cumulative
point has reached its last TSN; and every chunk `R` counts as received was handed to one of its stream objects.
-/
namespace Rs

def Recvd (R : Ep) (t : Nat) : Prop := t ≤ R.cum ∨ t ∈ R.rcv

def ReqMatch (S : Ep) (rsn last : Nat) (sids : List Nat) : Prop :=
  ∃ rec ∈ S.reqLog, rec.rsn = rsn ∧ rec.last = last ∧ rec.sids = sids

def PktOK (S : Ep) : Msg → Prop
  | .data cs => ∀ c ∈ cs, c ∈ S.sent
  | .req rsn last sids => ReqMatch S rsn last sids
  | _ => True

structure XInv (S R : Ep) (H : List Msg) : Prop where
  hist : ∀ p ∈ H, PktOK S p
  reconf : ∀ r ∈ S.reconfigs, ReqMatch S r.1 r.2.1 r.2.2
  rreqs : ∀ r ∈ R.rreqs, ReqMatch S r.1 r.2.1 r.2.2 ∧ r.1 ∉ R.perf
  rreqUniq : R.rreqs.Pairwise (fun a b => a.1 ≠ b.1)
  perf : ∀ rsn ∈ R.perf, ∃ rec ∈ S.reqLog, rec.rsn = rsn ∧ rec.last ≤ R.cum
  rcvSent : ∀ t ∈ R.rcv, ∃ c ∈ S.sent, c.tsn = t
  cumLt : R.cum < S.nextTSN
  rx : ∀ (h : Nat) (o : Obj), R.objs[h]? = some o → ∀ c ∈ o.rx, c ∈ S.sent ∧ c.d.sid = o.sid ∧ Recvd R c.tsn
  complete : ∀ c ∈ S.sent, Recvd R c.tsn → ∃ (h : Nat) (o : Obj), R.objs[h]? = some o ∧ c ∈ o.rx

theorem ReqMatch.mono {S S' : Ep} (h : ∀ r ∈ S.reqLog, r ∈ S'.reqLog) {rsn last : Nat} {sids : List Nat}
    (m : ReqMatch S rsn last sids) : ReqMatch S' rsn last sids := by
  obtain ⟨rec, hr, x⟩ := m; exact ⟨rec, h rec hr, x⟩

theorem PktOK.mono {S S' : Ep} (hs : ∀ c ∈ S.sent, c ∈ S'.sent) (hr : ∀ r ∈ S.reqLog, r ∈ S'.reqLog) (p : Msg)
    (h : PktOK S p) : PktOK S' p := by
  cases p with
  | data cs => exact fun c hc => hs c (h c hc)
  | req rsn last sids => exact ReqMatch.mono hr h
  | sack c => trivial
  | resp r v => trivial

/-- the sender changed nothing the direction depends on (its outstanding requests may have shrunk) -/
theorem XInv.senderSame {S S' R : Ep} {H : List Msg} (inv : XInv S R H) (hsent : S'.sent = S.sent)
    (hlog : S'.reqLog = S.reqLog) (hnext : S'.nextTSN = S.nextTSN) (hrc : ∀ r ∈ S'.reconfigs, r ∈ S.reconfigs) : XInv S' R H := by
  obtain ⟨h1, h2, h3, h3', h4, h5, h6, h7, h8⟩ := inv
  have hm : ∀ rsn last sids, ReqMatch S rsn last sids → ReqMatch S' rsn last sids :=
    fun _ _ _ m => ReqMatch.mono (fun r hr => by rw [hlog]; exact hr) m
  refine ⟨?_, ?_, ?_, h3', ?_, ?_, ?_, ?_, ?_⟩
  · exact fun p hp => PktOK.mono (fun c hc => by rw [hsent]; exact hc) (fun r hr => by rw [hlog]; exact hr) p (h1 p hp)
  · exact fun r hr => hm _ _ _ (h2 r (hrc r hr))
  · exact fun r hr => ⟨hm _ _ _ (h3 r hr).1, (h3 r hr).2⟩
  · rw [hlog]; exact h4
  · rw [hsent]; exact h5
  · rw [hnext]; exact h6
  · rw [hsent]; exact h7
  · rw [hsent]; exact h8

def RxSame (o o' : Obj) : Prop := o'.sid = o.sid ∧ o'.rx = o.rx

theorem RxSame.refl (o : Obj) : RxSame o o := ⟨rfl, rfl⟩

theorem ObjsRel.imp {R R' : Obj → Obj → Prop} (h : ∀ o o', R o o' → R' o o') {l l' : List Obj} (r : ObjsRel R l l') : ObjsRel R' l l' :=
  ⟨r.1, fun j o ho => by obtain ⟨o', ho', x⟩ := r.2 j o ho; exact ⟨o', ho', h _ _ x⟩⟩

/-- the receiver changed nothing the direction depends on -/
theorem XInv.recvRx {S R R' : Ep} {H : List Msg} (inv : XInv S R H) (hrreqs : R'.rreqs = R.rreqs) (hperf : R'.perf = R.perf)
    (hrcv : R'.rcv = R.rcv) (hcum : R'.cum = R.cum) (hobjs : ObjsRel RxSame R.objs R'.objs) : XInv S R' H := by
  obtain ⟨h1, h2, h3, h3', h4, h5, h6, h7, h8⟩ := inv
  have hrec : ∀ t, Recvd R' t ↔ Recvd R t := by intro t; unfold Recvd; rw [hcum, hrcv]
  refine ⟨h1, h2, ?_, ?_, ?_, ?_, ?_, ?_, ?_⟩
  · rw [hrreqs, hperf]; exact h3
  · rw [hrreqs]; exact h3'
  · rw [hperf, hcum]; exact h4
  · rw [hrcv]; exact h5
  · rw [hcum]; exact h6
  · intro h o' ho' c hc
    have hlt : h < R.objs.length := by rw [← hobjs.1]; exact getElem?_lt ho'
    obtain ⟨o'', ho'', r⟩ := hobjs.2 h _ (List.getElem?_eq_getElem hlt)
    rw [ho'] at ho''; cases ho''
    obtain ⟨a, b, c'⟩ := h7 h _ (List.getElem?_eq_getElem hlt) c (by rw [← r.2]; exact hc)
    exact ⟨a, by rw [r.1]; exact b, (hrec _).mpr c'⟩
  · intro c hc hr
    obtain ⟨h, o, ho, hco⟩ := h8 c hc ((hrec _).mp hr)
    obtain ⟨o', ho', r⟩ := hobjs.2 h o ho
    exact ⟨h, o', ho', by rw [r.2]; exact hco⟩

theorem XInv.recvSame {S R R' : Ep} {H : List Msg} (inv : XInv S R H) (hrreqs : R'.rreqs = R.rreqs) (hperf : R'.perf = R.perf)
    (hrcv : R'.rcv = R.rcv) (hcum : R'.cum = R.cum) (hobjs : ObjsRel ReaderSame R.objs R'.objs) : XInv S R' H :=
  inv.recvRx hrreqs hperf hrcv hcum (hobjs.imp (fun _ _ r => ⟨r.sid, r.rx⟩))

theorem XInv.recvQ {S R R' : Ep} {H : List Msg} (inv : XInv S R H) (hrreqs : R'.rreqs = R.rreqs) (hperf : R'.perf = R.perf)
    (hrcv : R'.rcv = R.rcv) (hcum : R'.cum = R.cum) (hobjs : ObjsRel QueueSame R.objs R'.objs) : XInv S R' H :=
  inv.recvRx hrreqs hperf hrcv hcum (hobjs.imp (fun _ _ r => ⟨r.sid, r.rx⟩))

/-! ### the sender's write loop -/

theorem findAll_ok (sent : List Chunk) : ∀ (tsns : List Nat) (cs : List Chunk), findAll sent tsns = some cs → ∀ c ∈ cs, c ∈ sent := by
  intro tsns
  induction tsns with
  | nil => intro cs h c hc; simp only [findAll, Option.some.injEq] at h; subst h; cases hc
  | cons t rest ih =>
    intro cs h c hc
    simp only [findAll] at h
    split at h
    · rename_i c0 cs0 hf hr
      simp only [Option.some.injEq] at h; subst h
      rcases List.mem_cons.mp hc with rfl | hc
      · unfold findChunk at hf; exact List.mem_of_find?_eq_some hf
      · exact ih cs0 hr c hc
    · cases h

theorem mkData_ok (sent : List Chunk) (tsns : List Nat) (p : Msg) (h : mkData sent tsns = some p) :
    ∃ cs, p = Msg.data cs ∧ ∀ c ∈ cs, c ∈ sent := by
  unfold mkData at h
  cases hm : findAll sent tsns with
  | none => rw [hm] at h; cases h
  | some cs =>
    rw [hm] at h
    simp only [Option.map_some, Option.some.injEq] at h
    exact ⟨cs, h.symm, findAll_ok sent tsns cs hm⟩

theorem mkDatas_ok (sent : List Chunk) : ∀ (pkts : List (List Nat)) (ps : List Msg), mkDatas sent pkts = some ps →
    ∀ p ∈ ps, ∃ cs, p = Msg.data cs ∧ ∀ c ∈ cs, c ∈ sent := by
  intro pkts
  induction pkts with
  | nil => intro ps h p hp; simp only [mkDatas, Option.some.injEq] at h; subst h; cases hp
  | cons t rest ih =>
    intro ps h p hp
    simp only [mkDatas] at h
    split at h
    · rename_i m ms hm hr
      simp only [Option.some.injEq] at h; subst h
      rcases List.mem_cons.mp hp with rfl | hp
      · exact mkData_ok sent t _ hm
      · exact ih ms hr p hp
    · cases h

theorem XInv.gather {S R : Ep} {H : List Msg} (inv : XInv S R H) (hs : SInv S) (sel : List Nat) (pre post : List (List Nat))
    (sack : Bool) (S' : Ep) (out : List Msg) (hg : Rs.gather S sel pre post sack = some (S', out)) : XInv S' R (H ++ out) := by
  unfold Rs.gather at hg
  split at hg
  · cases hg
  · rename_i popped left hp
    simp only at hg
    split at hg
    · rename_i preP postP hpre hpost
      simp only [Option.some.injEq, Prod.mk.injEq] at hg
      obtain ⟨rfl, rfl⟩ := hg
      obtain ⟨h1, h2, h3, h3', h4, h5, h6, h7, h8⟩ := inv
      obtain ⟨a1, a2, a3, a4, a5⟩ := assign_spec popped S.nextTSN
      generalize hA : assign S.nextTSN popped = A at a1 a2 a3 a4 a5 hpre hpost
      -- what the new state looks like
      have hsent : (gatherEp S popped left).sent = S.sent ++ A.1 := by unfold gatherEp; rw [hA]; simp only; split <;> rfl
      have hnext : (gatherEp S popped left).nextTSN = A.2.2 := by unfold gatherEp; rw [hA]; simp only; split <;> rfl
      have hlog : (gatherEp S popped left).reqLog = if A.2.1.isEmpty then S.reqLog else S.reqLog ++ [newReqRec S A.2.1 A.2.2] := by
        unfold gatherEp; rw [hA]; simp only; split <;> rfl
      have hrc : (gatherEp S popped left).reconfigs = if A.2.1.isEmpty then S.reconfigs else S.reconfigs ++ [(S.nextRSN, A.2.2 - 1, A.2.1.map (·.1))] := by
        unfold gatherEp; rw [hA]; simp only; split <;> rfl
      have hsentMono : ∀ c ∈ S.sent, c ∈ (gatherEp S popped left).sent := fun c hc => by rw [hsent]; exact List.mem_append_left _ hc
      have hlogMono : ∀ r ∈ S.reqLog, r ∈ (gatherEp S popped left).reqLog := by
        intro r hr; rw [hlog]; split
        · exact hr
        · exact List.mem_append_left _ hr
      have hm : ∀ rsn last sids, ReqMatch S rsn last sids → ReqMatch (gatherEp S popped left) rsn last sids :=
        fun _ _ _ m => ReqMatch.mono hlogMono m
      have hnewMatch : A.2.1.isEmpty = false → ReqMatch (gatherEp S popped left) S.nextRSN (A.2.2 - 1) (A.2.1.map (·.1)) := by
        intro hne
        refine ⟨newReqRec S A.2.1 A.2.2, ?_, rfl, rfl, rfl⟩
        rw [hlog, hne]; simp
      refine ⟨?_, ?_, ?_, h3', ?_, ?_, ?_, ?_, ?_⟩
      · intro p hp'
        rcases List.mem_append.mp hp' with hp' | hp'
        · exact PktOK.mono hsentMono hlogMono p (h1 p hp')
        · unfold gatherOut at hp'
          rw [hA] at hp'
          simp only [List.mem_append] at hp'
          rcases hp' with ((((hc | hc) | hc) | hc) | hc) | hc
          · obtain ⟨r, v, rfl⟩ := hs.ctlResp p hc; trivial
          · obtain ⟨cs, rfl, hcs⟩ := mkDatas_ok _ _ _ hpre p hc
            intro c hcc; rw [hsent]; exact hcs c hcc
          · split at hc
            · obtain ⟨r, hr, rfl⟩ := List.mem_map.mp hc
              exact hm _ _ _ (h2 r hr)
            · cases hc
          · split at hc
            · cases hc
            · rename_i hne
              simp only [List.mem_singleton] at hc; subst hc
              exact hnewMatch (by simpa using hne)
          · obtain ⟨cs, rfl, hcs⟩ := mkDatas_ok _ _ _ hpost p hc
            intro c hcc; rw [hsent]; exact hcs c hcc
          · split at hc
            · simp only [List.mem_singleton] at hc; subst hc; trivial
            · cases hc
      · intro r hr
        rw [hrc] at hr
        split at hr
        · exact hm _ _ _ (h2 r hr)
        · rename_i hne
          rcases List.mem_append.mp hr with hr | hr
          · exact hm _ _ _ (h2 r hr)
          · simp only [List.mem_singleton] at hr; subst hr
            exact hnewMatch (by simpa using hne)
      · exact fun r hr => ⟨hm _ _ _ (h3 r hr).1, (h3 r hr).2⟩
      · intro rsn hr
        obtain ⟨rec, hrec, x⟩ := h4 rsn hr
        exact ⟨rec, hlogMono rec hrec, x⟩
      · intro t ht
        obtain ⟨c, hc, x⟩ := h5 t ht
        exact ⟨c, hsentMono c hc, x⟩
      · rw [hnext, a3]; omega
      · intro h o ho c hc
        obtain ⟨x1, x2, x3⟩ := h7 h o ho c hc
        exact ⟨hsentMono c x1, x2, x3⟩
      · intro c hc hr
        rw [hsent] at hc
        rcases List.mem_append.mp hc with hc | hc
        · exact h8 c hc hr
        · exfalso
          have hge := (a4 c hc).1
          rcases hr with hr | hr
          · omega
          · obtain ⟨c', hc', heq⟩ := h5 _ hr
            have := hs.tsnLt c' hc'; omega
    · cases hg

/-! ### the receiver's micro-steps -/

/-- a reset request that has reached its last TSN is performed -/
theorem XInv.perform {S R : Ep} {H : List Msg} (inv : XInv S R H) (rsn last : Nat) (sids : List Nat)
    (hm : ReqMatch S rsn last sids) (hle : last ≤ R.cum) :
    XInv S { sids.foldl resetOne R with rreqs := erase rsn (sids.foldl resetOne R).rreqs, perf := rsn :: (sids.foldl resetOne R).perf } H := by
  obtain ⟨f1, f2, f3, f4, f5, _⟩ := foldl_resetOne_fields sids R
  have hq := foldl_resetOne_objs sids R
  have base : XInv S (sids.foldl resetOne R) H := inv.recvQ f4 f5 f3 f2 hq
  obtain ⟨h1, h2, h3, h3', h4, h5, h6, h7, h8⟩ := base
  refine ⟨h1, h2, ?_, ?_, ?_, h5, h6, ?_, ?_⟩
  · intro r hr
    obtain ⟨hr1, hr2⟩ := (mem_erase _ _ _).mp hr
    refine ⟨(h3 r hr1).1, ?_⟩
    intro hmem
    rcases List.mem_cons.mp hmem with h | h
    · exact hr2 h
    · exact (h3 r hr1).2 h
  · exact h3'.sublist (by unfold erase; exact List.filter_sublist)
  · intro x hx
    rcases List.mem_cons.mp hx with rfl | hx
    · obtain ⟨rec, hrec, a, b, _⟩ := hm
      exact ⟨rec, hrec, a, by rw [b, f2]; exact hle⟩
    · exact h4 x hx
  · intro h o ho c hc
    obtain ⟨a, b, c'⟩ := h7 h o ho c hc
    exact ⟨a, b, c'⟩
  · intro c hc hr
    exact h8 c hc hr

theorem resetStreamsIfAny_xinv {S R : Ep} {H : List Msg} (inv : XInv S R H) (rsn last : Nat) (sids : List Nat)
    (hm : ReqMatch S rsn last sids) : XInv S (resetStreamsIfAny R rsn last sids).1 H := by
  unfold resetStreamsIfAny
  split
  · rename_i hle; exact inv.perform rsn last sids hm hle
  · exact inv

theorem resetStreamsIfAny_same (R : Ep) (rsn last : Nat) (sids : List Nat) :
    (resetStreamsIfAny R rsn last sids).1.cum = R.cum ∧ (resetStreamsIfAny R rsn last sids).1.rcv = R.rcv ∧
    (resetStreamsIfAny R rsn last sids).1.il = R.il ∧
    (∀ r ∈ (resetStreamsIfAny R rsn last sids).1.rreqs, r ∈ R.rreqs) := by
  unfold resetStreamsIfAny
  obtain ⟨f1, f2, f3, f4, f5, _⟩ := foldl_resetOne_fields sids R
  split
  · refine ⟨f2, f3, f1, ?_⟩
    intro r hr
    simp only at hr
    have := ((mem_erase _ _ _).mp hr).1
    rw [f4] at this; exact this
  · exact ⟨rfl, rfl, rfl, fun r hr => hr⟩

theorem recheck_xinv {S : Ep} {H : List Msg} (l : List (Nat × Nat × List Nat)) (hl : ∀ r ∈ l, ReqMatch S r.1 r.2.1 r.2.2) :
    ∀ R, XInv S R H → XInv S (recheck R l).1 H := by
  induction l with
  | nil => intro R h; exact h
  | cons r rest ih =>
    intro R h
    simp only [recheck]
    exact ih (fun x hx => hl x (List.mem_cons_of_mem _ hx)) _ (resetStreamsIfAny_xinv h _ _ _ (hl r List.mem_cons_self))

theorem recheck_same (l : List (Nat × Nat × List Nat)) : ∀ R : Ep,
    (recheck R l).1.cum = R.cum ∧ (recheck R l).1.rcv = R.rcv ∧ (recheck R l).1.il = R.il := by
  induction l with
  | nil => intro R; exact ⟨rfl, rfl, rfl⟩
  | cons r rest ih =>
    intro R
    simp only [recheck]
    obtain ⟨a, b, c⟩ := ih (resetStreamsIfAny R r.1 r.2.1 r.2.2).1
    obtain ⟨a', b', c', _⟩ := resetStreamsIfAny_same R r.1 r.2.1 r.2.2
    exact ⟨a.trans a', b.trans b', c.trans c'⟩

/-- the cumulative point moves over a TSN that is held -/
theorem XInv.bumpCum {S R : Ep} {H : List Msg} (inv : XInv S R H) (hs : SInv S) (hc : R.rcv.contains (R.cum + 1) = true) :
    XInv S { R with rcv := R.rcv.filter (· != R.cum + 1), cum := R.cum + 1 } H := by
  obtain ⟨h1, h2, h3, h3', h4, h5, h6, h7, h8⟩ := inv
  have hmem : R.cum + 1 ∈ R.rcv := by simpa using hc
  have hrec : ∀ t, Recvd { R with rcv := R.rcv.filter (· != R.cum + 1), cum := R.cum + 1 } t ↔ Recvd R t := by
    intro t
    unfold Recvd
    simp only [List.mem_filter, bne_iff_ne, ne_eq]
    constructor
    · rintro (h | ⟨h, _⟩)
      · rcases Nat.lt_or_ge t (R.cum + 1) with x | x
        · exact Or.inl (by omega)
        · have : t = R.cum + 1 := by omega
          rw [this]; exact Or.inr hmem
      · exact Or.inr h
    · rintro (h | h)
      · exact Or.inl (by omega)
      · by_cases ht : t = R.cum + 1
        · exact Or.inl (by omega)
        · exact Or.inr ⟨h, ht⟩
  refine ⟨h1, h2, h3, h3', ?_, ?_, ?_, ?_, ?_⟩
  · intro rsn hr
    obtain ⟨rec, hrec, a, b⟩ := h4 rsn hr
    exact ⟨rec, hrec, a, by simp only; omega⟩
  · intro t ht
    simp only [List.mem_filter] at ht
    exact h5 t ht.1
  · obtain ⟨c, hc', heq⟩ := h5 _ hmem
    have := hs.tsnLt c hc'
    simp only; omega
  · intro h o ho c hc'
    obtain ⟨a, b, c''⟩ := h7 h o ho c hc'
    exact ⟨a, b, (hrec _).mpr c''⟩
  · intro c hc' hr
    exact h8 c hc' ((hrec _).mp hr)

theorem advance_xinv {S : Ep} {H : List Msg} (hs : SInv S) (fuel : Nat) : ∀ R, XInv S R H → XInv S (advance fuel R).1 H := by
  induction fuel with
  | zero => intro R h; exact h
  | succ n ih =>
    intro R h
    simp only [advance]
    split
    · rename_i hc
      apply ih
      have h1 := h.bumpCum hs hc
      exact recheck_xinv _ (fun r hr => (h1.rreqs r hr).1) _ h1
    · exact h

/-- a new, empty stream object -/
theorem XInv.addObj {S R R' : Ep} {H : List Msg} (inv : XInv S R H) (o : Obj) (ho : o.rx = [])
    (hrreqs : R'.rreqs = R.rreqs) (hperf : R'.perf = R.perf) (hrcv : R'.rcv = R.rcv) (hcum : R'.cum = R.cum)
    (hobjs : R'.objs = R.objs ++ [o]) : XInv S R' H := by
  obtain ⟨h1, h2, h3, h3', h4, h5, h6, h7, h8⟩ := inv
  have hrec : ∀ t, Recvd R' t ↔ Recvd R t := by intro t; unfold Recvd; rw [hcum, hrcv]
  refine ⟨h1, h2, ?_, ?_, ?_, ?_, ?_, ?_, ?_⟩
  · rw [hrreqs, hperf]; exact h3
  · rw [hrreqs]; exact h3'
  · rw [hperf, hcum]; exact h4
  · rw [hrcv]; exact h5
  · rw [hcum]; exact h6
  · intro h o' ho' c hc
    rw [hobjs] at ho'
    rcases Nat.lt_or_ge h R.objs.length with hl | hl
    · rw [List.getElem?_append_left hl] at ho'
      obtain ⟨a, b, c'⟩ := h7 h o' ho' c hc
      exact ⟨a, b, (hrec _).mpr c'⟩
    · rw [List.getElem?_append_right hl] at ho'
      rcases Nat.eq_zero_or_pos (h - R.objs.length) with h0 | h0
      · rw [h0] at ho'; simp at ho'; subst ho'; rw [ho] at hc; cases hc
      · rw [List.getElem?_eq_none (by simp; omega)] at ho'; cases ho'
  · intro c hc hr
    obtain ⟨h, o', ho', hco⟩ := h8 c hc ((hrec _).mp hr)
    exact ⟨h, o', by rw [hobjs, List.getElem?_append_left (getElem?_lt ho')]; exact ho', hco⟩

/-- a chunk of the sender is handed to the stream object registered for its identifier -/
theorem XInv.push {S R R' : Ep} {H : List Msg} (inv : XInv S R H) (hs : SInv S) (h : Nat) (o : Obj) (c : Chunk) (ho : R.objs[h]? = some o)
    (hc : c ∈ S.sent) (hsid : o.sid = c.d.sid)
    (hrreqs : R'.rreqs = R.rreqs) (hperf : R'.perf = R.perf) (hrcv : R'.rcv = c.tsn :: R.rcv) (hcum : R'.cum = R.cum)
    (hobjs : R'.objs = R.objs.set h (pushObj R.il o c)) : XInv S R' H := by
  obtain ⟨h1, h2, h3, h3', h4, h5, h6, h7, h8⟩ := inv
  have hlt := getElem?_lt ho
  have hget : R'.objs[h]? = some (pushObj R.il o c) := by rw [hobjs]; simp [hlt]
  have hother : ∀ j, j ≠ h → R'.objs[j]? = R.objs[j]? := fun j hj => by rw [hobjs]; exact List.getElem?_set_ne (Ne.symm hj)
  obtain ⟨p1, _, _, _, p5, _⟩ := pushObj_same R.il o c
  have hrec : ∀ t, Recvd R' t ↔ (t = c.tsn ∨ Recvd R t) := by
    intro t; unfold Recvd; rw [hcum, hrcv]; simp only [List.mem_cons]
    constructor
    · rintro (x | x | x)
      · exact Or.inr (Or.inl x)
      · exact Or.inl x
      · exact Or.inr (Or.inr x)
    · rintro (x | x | x)
      · exact Or.inr (Or.inl x)
      · exact Or.inl x
      · exact Or.inr (Or.inr x)
  refine ⟨h1, h2, ?_, ?_, ?_, ?_, ?_, ?_, ?_⟩
  · rw [hrreqs, hperf]; exact h3
  · rw [hrreqs]; exact h3'
  · rw [hperf, hcum]; exact h4
  · rw [hrcv]
    intro t ht
    rcases List.mem_cons.mp ht with rfl | ht
    · exact ⟨c, hc, rfl⟩
    · exact h5 t ht
  · rw [hcum]; exact h6
  · intro j oj hoj c' hc'
    by_cases hj : j = h
    · subst hj; rw [hget] at hoj; cases hoj
      rw [p5] at hc'
      rcases List.mem_append.mp hc' with hc' | hc'
      · obtain ⟨a, b, x⟩ := h7 j o ho c' hc'
        exact ⟨a, by rw [p1]; exact b, (hrec _).mpr (Or.inr x)⟩
      · simp only [List.mem_singleton] at hc'; subst hc'
        exact ⟨hc, by rw [p1]; exact hsid.symm, (hrec _).mpr (Or.inl rfl)⟩
    · rw [hother j hj] at hoj
      obtain ⟨a, b, x⟩ := h7 j oj hoj c' hc'
      exact ⟨a, b, (hrec _).mpr (Or.inr x)⟩
  · intro c' hc' hr
    rcases (hrec _).mp hr with heq | hr
    · -- the chunk with this TSN is c itself (one chunk per TSN at the sender): it is now in h
      have hcc : c' = c := hs.tsnInj c' hc' c hc heq
      subst hcc
      exact ⟨h, _, hget, by rw [p5]; exact List.mem_append_right _ (List.mem_singleton.mpr rfl)⟩
    · obtain ⟨j, oj, hoj, hco⟩ := h8 c' hc' hr
      by_cases hj : j = h
      · subst hj; rw [ho] at hoj; cases hoj
        exact ⟨j, _, hget, by rw [p5]; exact List.mem_append_left _ hco⟩
      · exact ⟨j, oj, by rw [hother j hj]; exact hoj, hco⟩

/-! ### inbound packets -/

theorem handleData_xinv {S R : Ep} {H : List Msg} (inv : XInv S R H) (hs : SInv S) (hr : RInv R) (c : Chunk) (hc : c ∈ S.sent) :
    XInv S (handleData R c).1 H := by
  unfold handleData
  simp only
  split
  · split
    · exact inv
    · rename_i r e1 h hr1
      have h1 : XInv S e1 H ∧ RInv e1 ∧ lookup c.d.sid e1.reg = some h ∧ e1.il = R.il := by
        split at hr1
        · rename_i h' hl
          cases hr1; exact ⟨inv, hr, hl, rfl⟩
        · rename_i hl
          split at hr1
          · cases hr1
            exact ⟨inv.addObj { sid := c.d.sid, gen := c.d.gen } rfl rfl rfl rfl rfl rfl,
              hr.addObj c.d.sid c.d.gen hl rfl rfl rfl rfl rfl, lookup_insert_self _ _ _, rfl⟩
          · cases hr1
      obtain ⟨inv1, hr1', hl1, hil1⟩ := h1
      split
      · exact inv1.recvSame rfl rfl rfl rfl (ObjsRel.refl ReaderSame.refl _)
      · split
        · exact inv1.recvSame rfl rfl rfl rfl (ObjsRel.refl ReaderSame.refl _)
        · rename_i o ho
          obtain ⟨o2, ho2, hsid, _⟩ := hr1'.regOK _ _ hl1
          rw [ho] at ho2; cases ho2
          apply advance_xinv hs
          exact inv1.push hs h o c ho hc hsid rfl rfl rfl rfl rfl
  · exact advance_xinv hs _ R inv

theorem handleDatas_xinv {S : Ep} {H : List Msg} (hs : SInv S) (cs : List Chunk) (hcs : ∀ c ∈ cs, c ∈ S.sent) :
    ∀ R, XInv S R H → RInv R → XInv S (handleDatas R cs).1 H := by
  induction cs with
  | nil => intro R h _; exact h
  | cons c rest ih =>
    intro R h hr
    simp only [handleDatas]
    exact ih (fun x hx => hcs x (List.mem_cons_of_mem _ hx)) _ (handleData_xinv h hs hr c (hcs c List.mem_cons_self)) (handleData_rinv R c hr)

theorem XInv.addRreq {S R : Ep} {H : List Msg} (inv : XInv S R H) (rsn last : Nat) (sids : List Nat)
    (hm : ReqMatch S rsn last sids) (hn : rsn ∉ R.perf) : XInv S { R with rreqs := insert rsn (last, sids) R.rreqs } H := by
  obtain ⟨h1, h2, h3, h3', h4, h5, h6, h7, h8⟩ := inv
  refine ⟨h1, h2, ?_, ?_, h4, h5, h6, h7, h8⟩
  · intro r hr
    simp only [insert, List.mem_cons] at hr
    rcases hr with rfl | hr
    · exact ⟨hm, hn⟩
    · exact h3 r ((mem_erase _ _ _).mp hr).1
  · unfold insert
    refine List.pairwise_cons.mpr ⟨?_, h3'.sublist (by unfold erase; exact List.filter_sublist)⟩
    intro r hr
    exact fun heq => ((mem_erase _ _ _).mp hr).2 heq.symm

theorem handleReq_xinv {S R : Ep} {H : List Msg} (inv : XInv S R H) (rsn last : Nat) (sids : List Nat)
    (hm : ReqMatch S rsn last sids) : XInv S (handleReq R rsn last sids).1 H := by
  unfold handleReq
  split
  · exact inv
  · rename_i hnp
    split
    · exact inv
    · exact resetStreamsIfAny_xinv (inv.addRreq rsn last sids hm (by simpa using hnp)) rsn last sids hm

theorem foldl_rewindOne_objsR (sids : List Nat) : ∀ e : Ep, ObjsRel ReaderSame e.objs (sids.foldl rewindOne e).objs := by
  induction sids with
  | nil => intro e; exact ObjsRel.refl ReaderSame.refl _
  | cons s rest ih =>
    intro e
    simp only [List.foldl_cons]
    have h1 : ObjsRel ReaderSame e.objs (rewindOne e s).objs := by
      unfold rewindOne
      split
      · exact ObjsRel.refl ReaderSame.refl _
      · split
        · exact ObjsRel.refl ReaderSame.refl _
        · rename_i h _ o ho
          split
          · exact ObjsRel.set ReaderSame.refl _ _ _ _ ho (zeroCounters_readerSame o)
          · exact ObjsRel.refl ReaderSame.refl _
    refine ObjsRel.trans (R := ReaderSame) ?_ h1 (ih _)
    intro a b c x y
    exact ⟨y.sid.trans x.sid, y.gen.trans x.gen, y.readErr.trans x.readErr, y.nextSeq.trans x.nextSeq, y.ord.trans x.ord,
      y.unord.trans x.unord, y.got.trans x.got, y.eofSeen.trans x.eofSeen, y.rx.trans x.rx⟩

theorem rewindOne_fields (e : Ep) (sid : Nat) :
    (rewindOne e sid).rreqs = e.rreqs ∧ (rewindOne e sid).perf = e.perf ∧ (rewindOne e sid).rcv = e.rcv ∧ (rewindOne e sid).cum = e.cum ∧
    (rewindOne e sid).reconfigs = e.reconfigs ∧ (rewindOne e sid).reg = e.reg := by
  unfold rewindOne
  split
  · exact ⟨rfl, rfl, rfl, rfl, rfl, rfl⟩
  · split
    · exact ⟨rfl, rfl, rfl, rfl, rfl, rfl⟩
    · split <;> exact ⟨rfl, rfl, rfl, rfl, rfl, rfl⟩

theorem foldl_rewindOne_fields (sids : List Nat) : ∀ e : Ep,
    (sids.foldl rewindOne e).rreqs = e.rreqs ∧ (sids.foldl rewindOne e).perf = e.perf ∧ (sids.foldl rewindOne e).rcv = e.rcv ∧
    (sids.foldl rewindOne e).cum = e.cum ∧ (sids.foldl rewindOne e).reconfigs = e.reconfigs ∧ (sids.foldl rewindOne e).reg = e.reg := by
  induction sids with
  | nil => intro e; exact ⟨rfl, rfl, rfl, rfl, rfl, rfl⟩
  | cons s rest ih =>
    intro e
    simp only [List.foldl_cons]
    obtain ⟨a1, a2, a3, a4, a5, a6⟩ := ih (rewindOne e s)
    obtain ⟨b1, b2, b3, b4, b5, b6⟩ := rewindOne_fields e s
    exact ⟨a1.trans b1, a2.trans b2, a3.trans b3, a4.trans b4, a5.trans b5, a6.trans b6⟩

/-- what a response does to the endpoint that receives it -/
theorem handleResp_spec (e : Ep) (rsn result : Nat) :
    (handleResp e rsn result).rreqs = e.rreqs ∧ (handleResp e rsn result).perf = e.perf ∧ (handleResp e rsn result).rcv = e.rcv ∧
    (handleResp e rsn result).cum = e.cum ∧ (handleResp e rsn result).reg = e.reg ∧
    (∀ r ∈ (handleResp e rsn result).reconfigs, r ∈ e.reconfigs) ∧ ObjsRel ReaderSame e.objs (handleResp e rsn result).objs := by
  unfold handleResp
  split
  · exact ⟨rfl, rfl, rfl, rfl, rfl, fun r hr => hr, ObjsRel.refl ReaderSame.refl _⟩
  · simp only
    split
    · split
      · rename_i r _
        obtain ⟨a1, a2, a3, a4, a5, a6⟩ := foldl_rewindOne_fields r.2 e
        refine ⟨a1, a2, a3, a4, a6, ?_, foldl_rewindOne_objsR r.2 e⟩
        intro x hx
        have := ((mem_erase _ _ _).mp hx).1
        rw [a5] at this; exact this
      · exact ⟨rfl, rfl, rfl, rfl, rfl, fun x hx => ((mem_erase _ _ _).mp hx).1, ObjsRel.refl ReaderSame.refl _⟩
    · exact ⟨rfl, rfl, rfl, rfl, rfl, fun x hx => ((mem_erase _ _ _).mp hx).1, ObjsRel.refl ReaderSame.refl _⟩

/-- the endpoint that handles a packet, seen as the RECEIVER of the direction the packet travelled in -/
theorem handle_xinv_recv {S R : Ep} {H : List Msg} (inv : XInv S R H) (hs : SInv S) (hr : RInv R) (p : Msg) (hp : PktOK S p) :
    XInv S (handle R p) H := by
  cases p with
  | data cs =>
    exact (handleDatas_xinv hs cs hp R inv hr).recvSame rfl rfl rfl rfl (ObjsRel.refl ReaderSame.refl _)
  | sack c => exact inv
  | req rsn last sids =>
    exact (handleReq_xinv inv rsn last sids hp).recvSame rfl rfl rfl rfl (ObjsRel.refl ReaderSame.refl _)
  | resp rsn result =>
    obtain ⟨a1, a2, a3, a4, _, _, a7⟩ := handleResp_spec R rsn result
    exact inv.recvSame a1 a2 a3 a4 a7

theorem resetOne_rc (e : Ep) (sid : Nat) : (resetOne e sid).reconfigs = e.reconfigs := by
  unfold resetOne
  split
  · rfl
  · split <;> rfl

theorem foldl_resetOne_rc (sids : List Nat) : ∀ e : Ep, (sids.foldl resetOne e).reconfigs = e.reconfigs := by
  induction sids with
  | nil => intro e; rfl
  | cons s rest ih => intro e; simp only [List.foldl_cons]; rw [ih, resetOne_rc]

theorem resetStreamsIfAny_rc (e : Ep) (rsn last : Nat) (sids : List Nat) : (resetStreamsIfAny e rsn last sids).1.reconfigs = e.reconfigs := by
  unfold resetStreamsIfAny
  split
  · exact foldl_resetOne_rc sids e
  · rfl

theorem recheck_rc (l : List (Nat × Nat × List Nat)) : ∀ e : Ep, (recheck e l).1.reconfigs = e.reconfigs := by
  induction l with
  | nil => intro e; rfl
  | cons r rest ih => intro e; simp only [recheck]; rw [ih, resetStreamsIfAny_rc]

theorem advance_rc (fuel : Nat) : ∀ e : Ep, (advance fuel e).1.reconfigs = e.reconfigs := by
  induction fuel with
  | zero => intro e; rfl
  | succ n ih =>
    intro e
    simp only [advance]
    split
    · rw [ih, recheck_rc]
    · rfl

theorem handleData_rc (e : Ep) (c : Chunk) : (handleData e c).1.reconfigs = e.reconfigs := by
  unfold handleData
  simp only
  split
  · split
    · rfl
    · rename_i r e1 h hr1
      have h1 : e1.reconfigs = e.reconfigs := by
        split at hr1
        · cases hr1; rfl
        · split at hr1
          · cases hr1; rfl
          · cases hr1
      split
      · exact h1
      · split
        · exact h1
        · rw [advance_rc]; exact h1
  · exact advance_rc _ e

theorem handleDatas_rc (cs : List Chunk) : ∀ e : Ep, (handleDatas e cs).1.reconfigs = e.reconfigs := by
  induction cs with
  | nil => intro e; rfl
  | cons c rest ih => intro e; simp only [handleDatas]; rw [ih, handleData_rc]

theorem handleReq_rc (e : Ep) (rsn last : Nat) (sids : List Nat) : (handleReq e rsn last sids).1.reconfigs = e.reconfigs := by
  unfold handleReq
  split
  · rfl
  · split
    · rfl
    · exact resetStreamsIfAny_rc _ rsn last sids

/-- its outstanding requests can only shrink -/
theorem handle_reconfigs (e : Ep) (p : Msg) : ∀ r ∈ (handle e p).reconfigs, r ∈ e.reconfigs := by
  cases p with
  | data cs =>
    intro r hr
    simp only [handle] at hr
    rw [handleDatas_rc] at hr; exact hr
  | sack c => exact fun r hr => hr
  | req rsn last sids =>
    intro r hr
    simp only [handle] at hr
    rw [handleReq_rc] at hr; exact hr
  | resp rsn result => exact (handleResp_spec e rsn result).2.2.2.2.2.1

/-- the endpoint that handles a packet, seen as the SENDER of the opposite direction -/
theorem handle_xinv_send {S R : Ep} {H : List Msg} (inv : XInv S R H) (p : Msg) : XInv (handle S p) R H := by
  obtain ⟨same, _, _⟩ := handle_frame S p
  exact inv.senderSame same.sent same.reqLog same.nextTSN (handle_reconfigs S p)

end Rs
