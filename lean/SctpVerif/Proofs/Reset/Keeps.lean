import SctpVerif.Proofs.Reset.Final
/-!
No inbound packet ever takes a message out of a receive queue or changes what the reader has been given:
only `read` consumes (`handle_keeps`), and `read` reports the read error only when nothing readable is left.
-/
namespace Rs

/-- what is queued stays queued, what was handed out stays handed out -/
structure QueueKeeps (o o' : Obj) : Prop where
  got : o'.got = o.got
  nextSeq : o'.nextSeq = o.nextSeq
  ord : ∀ q ∈ o.ord, q ∈ o'.ord
  unord : ∀ q ∈ o.unord, q ∈ o'.unord
  rx : ∀ c ∈ o.rx, c ∈ o'.rx

theorem QueueKeeps.refl (o : Obj) : QueueKeeps o o := ⟨rfl, rfl, fun _ h => h, fun _ h => h, fun _ h => h⟩

theorem QueueKeeps.trans {a b c : Obj} (h1 : QueueKeeps a b) (h2 : QueueKeeps b c) : QueueKeeps a c :=
  ⟨h2.got.trans h1.got, h2.nextSeq.trans h1.nextSeq, fun q h => h2.ord q (h1.ord q h), fun q h => h2.unord q (h1.unord q h),
   fun q h => h2.rx q (h1.rx q h)⟩

theorem QueueSame.keeps {o o' : Obj} (h : QueueSame o o') : QueueKeeps o o' :=
  ⟨h.got, h.nextSeq, fun q hq => by rw [h.ord]; exact hq, fun q hq => by rw [h.unord]; exact hq, fun q hq => by rw [h.rx]; exact hq⟩

theorem pushObj_keeps (il : Bool) (o : Obj) (c : Chunk) : QueueKeeps o (pushObj il o c) := by
  unfold pushObj
  simp only
  split
  · split
    · exact ⟨rfl, rfl, fun _ h => h, fun _ h => h, fun _ h => List.mem_append_left _ h⟩
    · exact ⟨rfl, rfl, fun _ h => h, fun _ h => List.mem_append_left _ h, fun _ h => List.mem_append_left _ h⟩
  · split
    · exact ⟨rfl, rfl, fun _ h => h, fun _ h => h, fun _ h => List.mem_append_left _ h⟩
    · split
      · exact ⟨rfl, rfl, fun _ h => h, fun _ h => h, fun _ h => List.mem_append_left _ h⟩
      · exact ⟨rfl, rfl, fun q h => (mem_insOrd _ q _).mpr (Or.inr h), fun _ h => h, fun _ h => List.mem_append_left _ h⟩

/-- old handles keep their object up to `QueueKeeps` (new handles may appear) -/
def KeepsRel (l l' : List Obj) : Prop := ∀ (h : Nat) (o : Obj), l[h]? = some o → ∃ o', l'[h]? = some o' ∧ QueueKeeps o o'

theorem KeepsRel.refl (l : List Obj) : KeepsRel l l := fun _ o h => ⟨o, h, QueueKeeps.refl o⟩

theorem KeepsRel.trans {a b c : List Obj} (h1 : KeepsRel a b) (h2 : KeepsRel b c) : KeepsRel a c := by
  intro h o ho
  obtain ⟨o', ho', k1⟩ := h1 h o ho
  obtain ⟨o'', ho'', k2⟩ := h2 h o' ho'
  exact ⟨o'', ho'', k1.trans k2⟩

theorem KeepsRel.ofQ {l l' : List Obj} (r : ObjsRel QueueSame l l') : KeepsRel l l' := by
  intro h o ho
  obtain ⟨o', ho', q⟩ := r.2 h o ho
  exact ⟨o', ho', q.keeps⟩

theorem recheck_keeps (l : List (Nat × Nat × List Nat)) : ∀ e : Ep, KeepsRel e.objs (recheck e l).1.objs := by
  induction l with
  | nil => intro e; exact KeepsRel.refl _
  | cons r rest ih =>
    intro e
    simp only [recheck]
    exact (KeepsRel.ofQ (resetStreamsIfAny_objs e r.1 r.2.1 r.2.2)).trans (ih _)

theorem advance_keeps (fuel : Nat) : ∀ e : Ep, KeepsRel e.objs (advance fuel e).1.objs := by
  induction fuel with
  | zero => intro e; exact KeepsRel.refl _
  | succ n ih =>
    intro e
    simp only [advance]
    split
    · exact (recheck_keeps _ { e with rcv := e.rcv.filter (· != e.cum + 1), cum := e.cum + 1 }).trans (ih _)
    · exact KeepsRel.refl _

theorem handleData_keeps (e : Ep) (c : Chunk) : KeepsRel e.objs (handleData e c).1.objs := by
  unfold handleData
  simp only
  split
  · split
    · exact KeepsRel.refl _
    · rename_i r e1 h hr1
      have k1 : KeepsRel e.objs e1.objs := by
        split at hr1
        · cases hr1; exact KeepsRel.refl _
        · split at hr1
          · cases hr1
            intro j o ho
            exact ⟨o, by simp only; rw [List.getElem?_append_left (getElem?_lt ho)]; exact ho, QueueKeeps.refl o⟩
          · cases hr1
      split
      · exact k1
      · split
        · exact k1
        · rename_i o ho
          refine k1.trans (KeepsRel.trans ?_ (advance_keeps _ _))
          intro j oj hoj
          by_cases hj : j = h
          · subst hj; rw [ho] at hoj; cases hoj
            exact ⟨pushObj e1.il o c, by simp [getElem?_lt ho], pushObj_keeps _ _ _⟩
          · exact ⟨oj, by simp only; rw [List.getElem?_set_ne (Ne.symm hj)]; exact hoj, QueueKeeps.refl oj⟩
  · exact advance_keeps _ e

theorem handleDatas_keeps (cs : List Chunk) : ∀ e : Ep, KeepsRel e.objs (handleDatas e cs).1.objs := by
  induction cs with
  | nil => intro e; exact KeepsRel.refl _
  | cons c rest ih => intro e; simp only [handleDatas]; exact (handleData_keeps e c).trans (ih _)

/-- no inbound packet removes a queued message or alters what was handed to the reader -/
theorem handle_keeps (e : Ep) (p : Msg) : KeepsRel e.objs (handle e p).objs := by
  cases p with
  | data cs => exact handleDatas_keeps cs e
  | sack c => exact KeepsRel.refl _
  | req rsn last sids => exact KeepsRel.ofQ (handleReq_objs e rsn last sids)
  | resp rsn result =>
    intro h o ho
    obtain ⟨o', ho', r⟩ := (handleResp_objs e rsn result).2 h o ho
    refine ⟨o', ho', ?_⟩
    rcases r with rfl | ⟨_, rfl⟩
    · exact QueueKeeps.refl _
    · exact ⟨rfl, rfl, fun _ h => h, fun _ h => h, fun _ h => h⟩

end Rs
