import SctpVerif.Proofs.ReasmOrd
import SctpVerif.Proofs.ReasmFwdPurge
/-!
Helper lemmas for C07 (receiver reassembly under skips), part 2: the table of messages that the
container `ordered` refines, WITHOUT any reference to the delivery cursor (after a skip the cursor
may stand above complete sets that are still held, so the window is anchored at a *floor* `f` =
oldest message held or waited for, not at the cursor as in `OrdInv`).
-/
set_option linter.unusedVariables false
set_option linter.unusedSimpArgs false
namespace Reasm
open Gen

theorem sna16LTE_ofNat (a b : Nat) (h1 : a < b + 2^15) (h2 : b < a + 2^15) :
    sna16LTE (BitVec.ofNat 16 a) (BitVec.ofNat 16 b) = decide (a ≤ b) := by
  simp only [sna16LTE]
  rw [sna16LT_ofNat a b h1 h2]
  by_cases h : a = b
  · subst h; simp
  · have : (BitVec.ofNat 16 a == BitVec.ofNat 16 b) = false := by
      rw [beq_eq_false_iff_ne, ne_eq, ofNat16_eq_iff a b h1 h2]; exact h
    rw [this]
    simp only [Bool.false_or, decide_eq_decide]
    omega

/-- two strictly ascending lists with the same elements are equal. -/
theorem sorted_ext : ∀ (l1 l2 : List Nat), l1.Pairwise (· < ·) → l2.Pairwise (· < ·) →
    (∀ x, x ∈ l1 ↔ x ∈ l2) → l1 = l2
  | [], [], _, _, _ => rfl
  | [], b :: l2, _, _, h => by have := (h b).2 (List.mem_cons_self ..); simp at this
  | a :: l1, [], _, _, h => by have := (h a).1 (List.mem_cons_self ..); simp at this
  | a :: l1, b :: l2, h1, h2, h => by
    rw [List.pairwise_cons] at h1 h2
    have hab : a = b := by
      have ha := (h a).1 (List.mem_cons_self ..)
      have hb := (h b).2 (List.mem_cons_self ..)
      rcases List.mem_cons.1 ha with e | ha'
      · exact e
      · rcases List.mem_cons.1 hb with e | hb'
        · exact e.symm
        · have := h2.1 a ha'; have := h1.1 b hb'; omega
    subst hab
    congr 1
    apply sorted_ext l1 l2 h1.2 h2.2
    intro x
    constructor
    · intro hx
      rcases List.mem_cons.1 ((h x).1 (List.mem_cons_of_mem _ hx)) with e | hx'
      · have := h1.1 x hx; omega
      · exact hx'
    · intro hx
      rcases List.mem_cons.1 ((h x).2 (List.mem_cons_of_mem _ hx)) with e | hx'
      · have := h2.1 x hx; omega
      · exact hx'

/-- a strictly ascending list of indices below `n` that contains every index below `n` is `range n`. -/
theorem sorted_all_eq_range (js : List Nat) (n : Nat) (hs : js.Pairwise (· < ·)) (hlt : ∀ j ∈ js, j < n)
    (hall : ∀ i, i < n → i ∈ js) : js = List.range n := by
  apply sorted_ext js (List.range n) hs
  · exact List.pairwise_lt_range
  · intro x; rw [List.mem_range]; exact ⟨hlt x, hall x⟩

/-- the table refined by the container `ordered`, window anchored at the floor `f`. -/
structure TabInv (S : Sender) (ordered : List ChunkSet) (f : Nat) (A : Tab) : Prop where
  ord : ordered = A.map S.concSet
  sorted : A.Pairwise (fun a b => a.1 < b.1)
  win : ∀ e ∈ A, f ≤ e.1 ∧ e.1 < f + 2^15 ∧ e.1 < S.msgs.length
  wf : ∀ e ∈ A, e.2 ≠ [] ∧ e.2.Pairwise (· < ·) ∧ ∀ j ∈ e.2, j < S.nf e.1

theorem TabInv.raise {S ordered f A} (h : TabInv S ordered f A) (f' : Nat) (hff : f ≤ f')
    (hle : ∀ e ∈ A, f' ≤ e.1) : TabInv S ordered f' A :=
  { h with win := fun e he => by have := h.win e he; have := hle e he; omega }

/-- entries with the same message index are the same entry. -/
theorem TabInv.unique {S ordered f A} (h : TabInv S ordered f A) {k : Nat} {js1 js2 : List Nat}
    (h1 : (k, js1) ∈ A) (h2 : (k, js2) ∈ A) : js1 = js2 := by
  have hs := h.sorted
  clear h
  induction A with
  | nil => cases h1
  | cons e rest ih =>
    rw [List.pairwise_cons] at hs
    rcases List.mem_cons.1 h1 with e1 | h1' <;> rcases List.mem_cons.1 h2 with e2 | h2'
    · rw [← e1] at e2; exact (Prod.mk.inj e2).2.symm
    · have := hs.1 _ h2'; rw [← e1] at this; simp at this
    · have := hs.1 _ h1'; rw [← e2] at this; simp at this
    · exact ih h1' h2' hs.2

/-- a set of the table is complete iff it holds all fragments of its message. -/
theorem TabInv.complete_iff {S ordered f A} (h : TabInv S ordered f A) (hS : S.WF) {e : Nat × List Nat}
    (he : e ∈ A) : (S.concSet e).isComplete = true ↔ e.2 = List.range (S.nf e.1) := by
  have hnf := S.nf_pos hS (h.win e he).2.2
  have hwf := h.wf e he
  simp only [ChunkSet.isComplete, Sender.concSet]
  constructor
  · exact complete_imp_all S e.1 e.2 hnf.2 hwf.2.2
  · intro hr; rw [hr]; exact all_imp_complete S e.1 hnf.1

/-- state after creating a new set for fragment `i` of message `k` (the `cset == nil` path). -/
theorem TabInv.newSet {S ordered f A} (h : TabInv S ordered f A) {k i : Nat}
    (hk : k < S.msgs.length) (hi : i < S.nf k) (hfk : f ≤ k) (hw : k < f + 2^15)
    (hfresh : ∀ e ∈ A, e.1 ≠ k) :
    ∃ A', TabInv S (sortChunksBySSN (ordered ++
        [((newChunkSet (S.dataFrag k i).ssn (S.dataFrag k i).ppi).pushNoDuplicate (S.dataFrag k i)).1])) f A' ∧
      ∀ e, e ∈ A' ↔ e ∈ A ∨ e = (k, [i]) := by
  have hset : ((newChunkSet (S.dataFrag k i).ssn (S.dataFrag k i).ppi).pushNoDuplicate (S.dataFrag k i)).1
      = S.concSet (k, [i]) := by
    simp only [ChunkSet.pushNoDuplicate, newChunkSet, List.nil_append, sortChunksByTSN, goSort_singleton,
      Sender.concSet, List.map_cons, List.map_nil]
    simp [Sender.dataFrag]
  have hwin' : ∀ e ∈ A ++ [(k, [i])], f ≤ e.1 ∧ e.1 < f + 2^15 := by
    intro e he
    rcases List.mem_append.1 he with he | he
    · have := h.win e he; omega
    · simp only [List.mem_singleton] at he; subst he; exact ⟨hfk, hw⟩
  have hmem : ∀ e, e ∈ goSort (fun a b : Nat × List Nat => decide (a.1 < b.1)) (A ++ [(k, [i])]) ↔ e ∈ A ∨ e = (k, [i]) := by
    intro e; rw [goSort_mem]; simp
  refine ⟨goSort (fun a b => decide (a.1 < b.1)) (A ++ [(k, [i])]), ?_, hmem⟩
  refine { ord := ?_, sorted := ?_, win := ?_, wf := ?_ }
  · rw [hset, h.ord]
    have : A.map S.concSet ++ [S.concSet (k, [i])] = (A ++ [(k, [i])]).map S.concSet := by simp
    rw [this, sortSSN_conc S _ f hwin']
  · apply goSort_sorted (fun e : Nat × List Nat => e.1)
    rw [List.pairwise_append]
    refine ⟨h.sorted.imp (fun hab => by omega), by simp, ?_⟩
    intro a ha b hb
    simp only [List.mem_singleton] at hb; subst hb
    exact hfresh a ha
  · intro e he
    rcases (hmem e).1 he with he | rfl
    · exact h.win e he
    · exact ⟨hfk, hw, hk⟩
  · intro e he
    rcases (hmem e).1 he with he | rfl
    · exact h.wf e he
    · refine ⟨by simp, by simp, ?_⟩
      intro j hj; simp only [List.mem_singleton] at hj; subst hj; exact hi

/-- state after pushing fragment `i` into the existing set of its message. -/
theorem TabInv.intoSet {S ordered f} {pre post : Tab} {js : List Nat} {k i : Nat}
    (h : TabInv S ordered f (pre ++ (k, js) :: post)) (hS : S.WF)
    (hk : k < S.msgs.length) (hi : i < S.nf k) (hnotin : i ∉ js) :
    ∃ js', TabInv S (pre.map S.concSet ++ ((S.concSet (k, js)).pushNoDuplicate (S.dataFrag k i)).1 :: post.map S.concSet)
        f (pre ++ (k, js') :: post) ∧ (∀ j, j ∈ js' ↔ j ∈ js ∨ j = i) := by
  have hnf := S.nf_pos hS hk
  have hin : (k, js) ∈ pre ++ (k, js) :: post := by simp
  have hwf := h.wf _ hin
  have hjs31 : ∀ j ∈ js ++ [i], j < 2^31 := by
    intro j hj
    rcases List.mem_append.1 hj with hj | hj
    · have := hwf.2.2 j hj; simp only at this; omega
    · simp only [List.mem_singleton] at hj; omega
  let js' := goSort (fun a b => decide (a < b)) (js ++ [i])
  have hset : ((S.concSet (k, js)).pushNoDuplicate (S.dataFrag k i)).1 = S.concSet (k, js') := by
    simp only [ChunkSet.pushNoDuplicate, Sender.concSet]
    have : js.map (S.dataFrag k) ++ [S.dataFrag k i] = (js ++ [i]).map (S.dataFrag k) := by simp
    rw [this, sortTSN_conc S k _ hjs31]
  have hmem : ∀ j, j ∈ js' ↔ j ∈ js ∨ j = i := by
    intro j; simp only [js']; rw [goSort_mem]; simp
  refine ⟨js', ?_, hmem⟩
  have hmemA : ∀ e, e ∈ pre ++ (k, js') :: post → e = (k, js') ∨ e ∈ pre ++ (k, js) :: post := by
    intro e he
    simp only [List.mem_append, List.mem_cons] at he ⊢
    rcases he with he | rfl | he
    · right; exact .inl he
    · left; rfl
    · right; exact .inr (.inr he)
  refine { ord := ?_, sorted := ?_, win := ?_, wf := ?_ }
  · rw [hset]; simp
  · have hs := h.sorted
    rw [List.pairwise_append, List.pairwise_cons] at hs ⊢
    refine ⟨hs.1, ⟨fun b hb => hs.2.1.1 b hb, hs.2.1.2⟩, ?_⟩
    intro a ha b hb
    rcases List.mem_cons.1 hb with rfl | hb
    · exact hs.2.2 a ha (k, js) (List.mem_cons_self ..)
    · exact hs.2.2 a ha b (List.mem_cons_of_mem _ hb)
  · intro e he
    rcases hmemA e he with rfl | he
    · exact h.win (k, js) hin
    · exact h.win e he
  · intro e he
    rcases hmemA e he with rfl | he
    · refine ⟨?_, ?_, ?_⟩
      · intro hnil
        have := (hmem i).2 (.inr rfl)
        simp only at hnil; rw [hnil] at this; simp at this
      · apply goSort_sorted (fun a : Nat => a)
        rw [List.pairwise_append]
        refine ⟨hwf.2.1.imp (fun hab => by omega), by simp, ?_⟩
        intro a ha b hb
        simp only [List.mem_singleton] at hb; subst hb
        intro hab; exact hnotin (hab ▸ ha)
      · intro j hj
        rcases (hmem j).1 hj with hj | rfl
        · exact hwf.2.2 j hj
        · exact hi
    · exact h.wf e he

/-- the table test that corresponds to `purgedO`: message at or below the skip point and not all fragments held. -/
def Sender.purgedE (S : Sender) (L : Nat) (e : Nat × List Nat) : Bool :=
  decide (e.1 ≤ L) && !(S.concSet e).isComplete

/-- `forwardTSNForOrdered` on the refined container = filtering the table. -/
theorem TabInv.purge {S ordered f A} (h : TabInv S ordered f A) (L : Nat) (hfL : f ≤ L) (hL : L < f + 2^15) :
    TabInv S (ordered.filter (fun s => !purgedO (BitVec.ofNat 16 L) s)) f (A.filter (fun e => !S.purgedE L e)) := by
  refine { ord := ?_, sorted := h.sorted.sublist List.filter_sublist,
           win := fun e he => h.win e (List.mem_filter.1 he).1,
           wf := fun e he => h.wf e (List.mem_filter.1 he).1 }
  rw [h.ord, List.filter_map]
  congr 1
  apply List.filter_congr
  intro e he
  have hw := h.win e he
  simp only [Function.comp, purgedO, Sender.purgedE]
  have : (S.concSet e).ssn = BitVec.ofNat 16 e.1 := rfl
  rw [this, sna16LTE_ofNat _ _ (by omega) (by omega)]

/-! ### unordered DATA: inside a half-space window "later than the new cumulative TSN" is monotone along a TSN-sorted slice -/

theorem sna32GT_add_left (t a b : BitVec 32) : sna32GT (t + a) (t + b) = sna32GT a b := by
  rw [Bool.eq_iff_iff, Sna.gt32_iff, Sna.gt32_iff]
  have : t + a - (t + b) = a - b := by bv_omega
  rw [this]

/-- TSNs `t0 + o` with strictly increasing offsets `o < 2^31` and a cumulative point `t0 + τ`, `τ < 2^31`. -/
theorem unordered_window_mono (t0 : BitVec 32) (τ : Nat) (hτ : τ < 2^31) (cs : List Chunk) (offs : List Nat)
    (hmap : cs.map (·.tsn) = offs.map (fun o => t0 + BitVec.ofNat 32 o))
    (hs : offs.Pairwise (· < ·)) (hlt : ∀ o ∈ offs, o < 2^31) :
    cs.Pairwise (fun a b => sna32GT a.tsn (t0 + BitVec.ofNat 32 τ) = true → sna32GT b.tsn (t0 + BitVec.ofNat 32 τ) = true) := by
  have hp : (cs.map (·.tsn)).Pairwise (fun a b => sna32GT a (t0 + BitVec.ofNat 32 τ) = true →
      sna32GT b (t0 + BitVec.ofNat 32 τ) = true) := by
    rw [hmap, List.pairwise_map]
    refine List.Pairwise.imp_of_mem ?_ hs
    intro a b ha hb hab
    have h1 := hlt a ha
    have h2 := hlt b hb
    rw [sna32GT_add_left, sna32GT_add_left, sna32GT_ofNat _ _ (by omega) (by omega),
      sna32GT_ofNat _ _ (by omega) (by omega)]
    simp only [decide_eq_true_eq]
    omega
  exact List.pairwise_map.1 hp

end Reasm
