import SctpVerif.Model.PendQ
/-!
Helper lemmas for C17 (scheduler half), part 1: association-list maps, the message policy, the
run/trace machinery shared by all policies.
-/
namespace PendQ

/-! ### AMap -/
namespace AMap
variable {β : Type}

@[simp] theorem get_nil (k : Nat) : get ([] : AMap β) k = none := rfl

theorem get_cons (k' : Nat) (v : β) (m : AMap β) (k : Nat) :
    get ((k', v) :: m) k = if k = k' then some v else get m k := rfl

theorem get_replace (m : AMap β) (k : Nat) (v : β) (k' : Nat) :
    get (replace m k v) k' = if k' = k then (get m k).map (fun _ => v) else get m k' := by
  induction m with
  | nil => simp [replace]
  | cons hd tl ih =>
    obtain ⟨a, b⟩ := hd
    simp only [replace]
    by_cases h : k = a
    · subst h
      by_cases h' : k' = k
      · subst h'; simp [get_cons]
      · simp [get_cons, h']
    · simp only [h, if_false, get_cons, ih]
      by_cases h' : k' = k
      · subst h'; simp [h]
      · simp [h']

theorem get_insertSorted (m : AMap β) (k : Nat) (v : β) (k' : Nat) (hk : get m k = none) :
    get (insertSorted m k v) k' = if k' = k then some v else get m k' := by
  induction m with
  | nil => simp [insertSorted, get_cons]
  | cons hd tl ih =>
    obtain ⟨a, b⟩ := hd
    simp only [get_cons] at hk
    have hka : k ≠ a := by intro h; simp [h] at hk
    simp only [hka, if_false] at hk
    simp only [insertSorted]
    by_cases hlt : k < a
    · simp only [hlt, if_true, get_cons]
    · simp only [hlt, if_false, get_cons, ih hk]
      by_cases h' : k' = k
      · subst h'; simp [hka]
      · simp [h']

theorem get_set (m : AMap β) (k : Nat) (v : β) (k' : Nat) :
    get (set m k v) k' = if k' = k then some v else get m k' := by
  unfold set
  cases h : get m k with
  | none => simp [get_insertSorted m k v k' h]
  | some old => simp [get_replace, h]

@[simp] theorem get_set_self (m : AMap β) (k : Nat) (v : β) : get (set m k v) k = some v := by
  simp [get_set]

theorem get_set_ne (m : AMap β) (k : Nat) (v : β) (k' : Nat) (h : k' ≠ k) :
    get (set m k v) k' = get m k' := by simp [get_set, h]

theorem get_erase (m : AMap β) (k k' : Nat) :
    get (erase m k) k' = if k' = k then none else get m k' := by
  induction m with
  | nil => simp [erase]
  | cons hd tl ih =>
    obtain ⟨a, b⟩ := hd
    simp only [erase]
    by_cases h : k = a
    · subst h
      simp only [if_true, ih, get_cons]
      by_cases h' : k' = k <;> simp [h']
    · simp only [h, if_false, get_cons, ih]
      by_cases h' : k' = k
      · subst h'; simp [h]
      · simp [h']

@[simp] theorem get_erase_self (m : AMap β) (k : Nat) : get (erase m k) k = none := by
  simp [get_erase]

theorem get_erase_ne (m : AMap β) (k k' : Nat) (h : k' ≠ k) : get (erase m k) k' = get m k' := by
  simp [get_erase, h]

theorem mem_keys_iff (m : AMap β) (k : Nat) : k ∈ keys m ↔ (get m k).isSome := by
  induction m with
  | nil => simp [keys]
  | cons hd tl ih =>
    obtain ⟨a, b⟩ := hd
    simp only [keys, List.map_cons, List.mem_cons, get_cons] at ih ⊢
    by_cases h : k = a
    · simp [h]
    · simp [h, ih]

theorem get_eq_none_iff (m : AMap β) (k : Nat) : get m k = none ↔ k ∉ keys m := by
  rw [mem_keys_iff]; cases get m k <;> simp

/-! sums over the values (for the counters) -/

def msum (f : β → Nat) (m : AMap β) : Nat := (m.map fun kv => f kv.2).sum

@[simp] theorem msum_nil (f : β → Nat) : msum f ([] : AMap β) = 0 := rfl
@[simp] theorem msum_cons (f : β → Nat) (kv : Nat × β) (m : AMap β) :
    msum f (kv :: m) = f kv.2 + msum f m := by simp [msum]

theorem keys_replace (m : AMap β) (k : Nat) (v : β) : keys (replace m k v) = keys m := by
  induction m with
  | nil => rfl
  | cons hd tl ih =>
    obtain ⟨a, b⟩ := hd
    simp only [replace]
    by_cases h : k = a
    · simp [h, keys]
    · simp only [h, if_false, keys, List.map_cons] at ih ⊢
      rw [ih]

theorem keys_insertSorted_perm (m : AMap β) (k : Nat) (v : β) :
    (keys (insertSorted m k v)).Perm (k :: keys m) := by
  induction m with
  | nil => simp [insertSorted, keys]
  | cons hd tl ih =>
    obtain ⟨a, b⟩ := hd
    simp only [insertSorted]
    by_cases h : k < a
    · simp [h, keys]
    · simp only [h, if_false, keys, List.map_cons] at ih ⊢
      exact (List.Perm.cons a ih).trans (List.Perm.swap k a _)

theorem nodup_keys_set (m : AMap β) (k : Nat) (v : β) (h : (keys m).Nodup) : (keys (set m k v)).Nodup := by
  unfold set
  cases hg : get m k with
  | some old => simpa [keys_replace] using h
  | none =>
    simp only [Option.isSome_none, Bool.false_eq_true, if_false]
    rw [(keys_insertSorted_perm m k v).nodup_iff]
    exact List.nodup_cons.mpr ⟨(get_eq_none_iff m k).mp hg, h⟩

theorem keys_erase_sublist (m : AMap β) (k : Nat) : (keys (erase m k)).Sublist (keys m) := by
  induction m with
  | nil => simp [erase, keys]
  | cons hd tl ih =>
    obtain ⟨a, b⟩ := hd
    simp only [erase]
    by_cases h : k = a
    · simp only [h, if_true, keys, List.map_cons] at ih ⊢
      exact List.Sublist.cons _ (by simpa [h] using ih)
    · simp only [h, if_false, keys, List.map_cons] at ih ⊢
      exact List.Sublist.cons_cons _ ih

theorem nodup_keys_erase (m : AMap β) (k : Nat) (h : (keys m).Nodup) : (keys (erase m k)).Nodup :=
  (keys_erase_sublist m k).nodup h

theorem erase_of_not_mem (m : AMap β) (k : Nat) (h : k ∉ keys m) : erase m k = m := by
  induction m with
  | nil => rfl
  | cons hd tl ih =>
    obtain ⟨a, b⟩ := hd
    simp only [keys, List.map_cons, List.mem_cons, not_or] at h
    simp only [erase, h.1, if_false]
    rw [ih (by simpa [keys] using h.2)]

theorem msum_replace (f : β → Nat) (m : AMap β) (k : Nat) (v old : β) (hg : get m k = some old) :
    msum f (replace m k v) + f old = msum f m + f v := by
  induction m with
  | nil => simp at hg
  | cons hd tl ih =>
    obtain ⟨a, b⟩ := hd
    simp only [get_cons] at hg
    simp only [replace]
    by_cases h : k = a
    · simp only [h, if_true, Option.some.injEq] at hg ⊢
      subst hg; simp; omega
    · simp only [h, if_false] at hg ⊢
      have := ih hg
      simp only [msum_cons]; omega

theorem msum_insertSorted (f : β → Nat) (m : AMap β) (k : Nat) (v : β) :
    msum f (insertSorted m k v) = msum f m + f v := by
  induction m with
  | nil => simp [insertSorted]
  | cons hd tl ih =>
    obtain ⟨a, b⟩ := hd
    simp only [insertSorted]
    by_cases h : k < a
    · simp [h]; omega
    · simp only [h, if_false, msum_cons, ih]; omega

/-- counter change of `m[k] = v` -/
theorem msum_set (f : β → Nat) (m : AMap β) (k : Nat) (v : β) :
    msum f (set m k v) + ((get m k).map f).getD 0 = msum f m + f v := by
  unfold set
  cases hg : get m k with
  | none => simp [msum_insertSorted]
  | some old => simpa using msum_replace f m k v old hg

theorem msum_erase (f : β → Nat) (m : AMap β) (k : Nat) (h : (keys m).Nodup) :
    msum f (erase m k) + ((get m k).map f).getD 0 = msum f m := by
  induction m with
  | nil => simp [erase]
  | cons hd tl ih =>
    obtain ⟨a, b⟩ := hd
    simp only [keys, List.map_cons, List.nodup_cons] at h
    simp only [erase, get_cons]
    by_cases hk : k = a
    · subst hk
      simp only [if_true, Option.map_some, Option.getD_some, msum_cons]
      rw [erase_of_not_mem tl k (by simpa [keys] using h.1)]; omega
    · simp only [hk, if_false, msum_cons]
      have := ih (by simpa [keys] using h.2)
      omega

end AMap

/-! ### keys and sums -/

/-- `(stream, ordering class)` of a chunk: the granularity at which every policy is FIFO -/
def key (s : Nat) (u : Bool) (c : Chunk) : Bool := c.sid == s && c.unordered == u

def lenSum (l : List Chunk) : Nat := (l.map (·.len)).sum

@[simp] theorem lenSum_nil : lenSum [] = 0 := rfl
@[simp] theorem lenSum_cons (c : Chunk) (l : List Chunk) : lenSum (c :: l) = c.len + lenSum l := by
  simp [lenSum]
@[simp] theorem lenSum_append (a b : List Chunk) : lenSum (a ++ b) = lenSum a + lenSum b := by
  simp [lenSum]

/-- what popping `c` does to a queue view `qd` (old) / `qd'` (new), per key -/
def Removes (qd qd' : Nat → Bool → List Chunk) (c : Chunk) : Prop :=
  ∀ s u, qd s u = (if key s u c then [c] else []) ++ qd' s u

/-- what pushing `c` does -/
def Appends (qd qd' : Nat → Bool → List Chunk) (c : Chunk) : Prop :=
  ∀ s u, qd' s u = qd s u ++ (if key s u c then [c] else [])

/-! ### message policy -/
namespace MsgPol

structure WF (m : MsgPol) : Prop where
  unord : ∀ c ∈ m.unord, c.unordered = true
  ord : ∀ c ∈ m.ord, c.unordered = false

def count (m : MsgPol) : Nat := m.unord.length + m.ord.length
def bytes (m : MsgPol) : Nat := lenSum m.unord + lenSum m.ord
def queued (m : MsgPol) (s : Nat) (u : Bool) : List Chunk :=
  (if u then m.unord else m.ord).filter (·.sid == s)
/-- the queue of ordering class `u` -/
def classQ (m : MsgPol) (u : Bool) : List Chunk := if u then m.unord else m.ord

theorem wf_empty : WF {} := ⟨by simp, by simp⟩

theorem push_wf {m : MsgPol} (h : m.WF) (c : Chunk) : (m.push c).WF := by
  unfold push
  by_cases hu : c.unordered = true
  · simp only [hu, if_true]
    exact ⟨by intro x hx; simp only [List.mem_append, List.mem_singleton] at hx
              rcases hx with hx | hx
              · exact h.unord x hx
              · subst hx; exact hu, h.ord⟩
  · simp only [hu]
    refine ⟨h.unord, ?_⟩
    intro x hx; simp at hx
    rcases hx with hx | hx
    · exact h.ord x hx
    · subst hx; simpa using hu

theorem push_count (m : MsgPol) (c : Chunk) : (m.push c).count = m.count + 1 := by
  unfold push count; split <;> simp <;> omega

theorem push_bytes (m : MsgPol) (c : Chunk) : (m.push c).bytes = m.bytes + c.len := by
  unfold push bytes; split <;> simp <;> omega

theorem push_queued (m : MsgPol) (c : Chunk) : Appends m.queued (m.push c).queued c := by
  intro s u
  unfold push queued key
  cases hu : c.unordered <;> cases u <;> simp [List.filter_append, List.filter_cons] <;>
    (by_cases hs : c.sid = s <;> simp [hs])

theorem queued_removes_unord {m m' : MsgPol} {c : Chunk} {tl : List Chunk} (h1 : m.unord = c :: tl)
    (h2 : m'.unord = tl) (h3 : m'.ord = m.ord) (hcu : c.unordered = true) :
    Removes m.queued m'.queued c := by
  intro s u
  cases u <;> simp [queued, h1, h2, h3, key, hcu, List.filter_cons]
  by_cases hs : c.sid = s <;> simp [hs]

theorem queued_removes_ord {m m' : MsgPol} {c : Chunk} {tl : List Chunk} (h1 : m.ord = c :: tl)
    (h2 : m'.ord = tl) (h3 : m'.unord = m.unord) (hcu : c.unordered = false) :
    Removes m.queued m'.queued c := by
  intro s u
  cases u <;> simp [queued, h1, h2, h3, key, hcu, List.filter_cons]
  by_cases hs : c.sid = s <;> simp [hs]

/-- what a pop of the peeked chunk does -/
theorem pop_peeked {m : MsgPol} (h : m.WF) {c : Chunk} (hp : m.peek = some c) :
    (m.pop c = (m, .err .qState) ∧ m.selected = false ∧ c.b = false) ∨
    ((m.pop c).2 = .ok ∧ (m.pop c).1.WF ∧ m.count = (m.pop c).1.count + 1 ∧
      m.bytes = (m.pop c).1.bytes + c.len ∧ Removes m.queued (m.pop c).1.queued c ∧
      (m.selected = true → m.unordSel = c.unordered) ∧ (m.selected = false → c.b = true) ∧
      (m.pop c).1.selected = !c.e ∧ (c.e = false → (m.pop c).1.unordSel = c.unordered) ∧
      m.classQ c.unordered = c :: (m.pop c).1.classQ c.unordered ∧
      (m.pop c).1.classQ (!c.unordered) = m.classQ (!c.unordered)) := by
  obtain ⟨unord, ord, selected, unordSel⟩ := m
  have hU := h.unord; have hO := h.ord
  simp only at hU hO
  unfold peek at hp
  simp only at hp
  cases selected with
  | true =>
    right
    cases unordSel with
    | true =>
      simp only [if_true] at hp
      obtain ⟨tl, rfl⟩ : ∃ tl, unord = c :: tl := by
        cases unord with
        | nil => simp at hp
        | cons a tl => simp at hp; exact ⟨tl, by rw [hp]⟩
      have hcu : c.unordered = true := hU c (by simp)
      have hwf' : ∀ x ∈ tl, x.unordered = true := fun x hx => hU x (by simp [hx])
      cases he : c.e with
      | true =>
        have hpop : pop ⟨c :: tl, ord, true, true⟩ c = (⟨tl, ord, false, true⟩, .ok) := by
          simp [pop, popSelected, he]
        rw [hpop]
        exact ⟨rfl, ⟨hwf', hO⟩, by simp [count]; omega, by simp [bytes]; omega,
          queued_removes_unord rfl rfl rfl hcu, by simp [hcu], by simp, by simp, by simp, by simp [classQ, hcu], by simp [classQ, hcu]⟩
      | false =>
        have hpop : pop ⟨c :: tl, ord, true, true⟩ c = (⟨tl, ord, true, true⟩, .ok) := by
          simp [pop, popSelected, he]
        rw [hpop]
        exact ⟨rfl, ⟨hwf', hO⟩, by simp [count]; omega, by simp [bytes]; omega,
          queued_removes_unord rfl rfl rfl hcu, by simp [hcu], by simp, by simp, by simp [hcu], by simp [classQ, hcu], by simp [classQ, hcu]⟩
    | false =>
      simp only [Bool.false_eq_true, if_false] at hp
      obtain ⟨tl, rfl⟩ : ∃ tl, ord = c :: tl := by
        cases ord with
        | nil => simp at hp
        | cons a tl => simp at hp; exact ⟨tl, by rw [hp]⟩
      have hcu : c.unordered = false := hO c (by simp)
      have hwf' : ∀ x ∈ tl, x.unordered = false := fun x hx => hO x (by simp [hx])
      cases he : c.e with
      | true =>
        have hpop : pop ⟨unord, c :: tl, true, false⟩ c = (⟨unord, tl, false, false⟩, .ok) := by
          simp [pop, popSelected, he]
        rw [hpop]
        exact ⟨rfl, ⟨hU, hwf'⟩, by simp [count]; omega, by simp [bytes]; omega,
          queued_removes_ord rfl rfl rfl hcu, by simp [hcu], by simp, by simp, by simp, by simp [classQ, hcu], by simp [classQ, hcu]⟩
      | false =>
        have hpop : pop ⟨unord, c :: tl, true, false⟩ c = (⟨unord, tl, true, false⟩, .ok) := by
          simp [pop, popSelected, he]
        rw [hpop]
        exact ⟨rfl, ⟨hU, hwf'⟩, by simp [count]; omega, by simp [bytes]; omega,
          queued_removes_ord rfl rfl rfl hcu, by simp [hcu], by simp, by simp, by simp [hcu], by simp [classQ, hcu], by simp [classQ, hcu]⟩
  | false =>
    simp only [Bool.false_eq_true, if_false] at hp
    cases hb : c.b with
    | false => left; simp [pop, hb]
    | true =>
      right
      cases unord with
      | cons a tl =>
        simp only [List.head?_cons, Option.some.injEq] at hp
        subst hp
        have hcu : a.unordered = true := hU a (by simp)
        have hwf' : ∀ x ∈ tl, x.unordered = true := fun x hx => hU x (by simp [hx])
        cases he : a.e with
        | true =>
          have hpop : pop ⟨a :: tl, ord, false, unordSel⟩ a = (⟨tl, ord, false, unordSel⟩, .ok) := by
            simp [pop, popNewSelection, he, hb, hcu]
          rw [hpop]
          exact ⟨rfl, ⟨hwf', hO⟩, by simp [count]; omega, by simp [bytes]; omega,
            queued_removes_unord rfl rfl rfl hcu, by simp, by simp, by simp, by simp, by simp [classQ, hcu], by simp [classQ, hcu]⟩
        | false =>
          have hpop : pop ⟨a :: tl, ord, false, unordSel⟩ a = (⟨tl, ord, true, true⟩, .ok) := by
            simp [pop, popNewSelection, he, hb, hcu]
          rw [hpop]
          exact ⟨rfl, ⟨hwf', hO⟩, by simp [count]; omega, by simp [bytes]; omega,
            queued_removes_unord rfl rfl rfl hcu, by simp, by simp, by simp, by simp [hcu], by simp [classQ, hcu], by simp [classQ, hcu]⟩
      | nil =>
        simp only [List.head?_nil] at hp
        obtain ⟨tl, rfl⟩ : ∃ tl, ord = c :: tl := by
          cases ord with
          | nil => simp at hp
          | cons a tl => simp at hp; exact ⟨tl, by rw [hp]⟩
        have hcu : c.unordered = false := hO c (by simp)
        have hwf' : ∀ x ∈ tl, x.unordered = false := fun x hx => hO x (by simp [hx])
        cases he : c.e with
        | true =>
          have hpop : pop ⟨[], c :: tl, false, unordSel⟩ c = (⟨[], tl, false, unordSel⟩, .ok) := by
            simp [pop, popNewSelection, he, hb, hcu]
          rw [hpop]
          exact ⟨rfl, ⟨hU, hwf'⟩, by simp [count], by simp [bytes]; omega,
            queued_removes_ord rfl rfl rfl hcu, by simp, by simp, by simp, by simp, by simp [classQ, hcu], by simp [classQ, hcu]⟩
        | false =>
          have hpop : pop ⟨[], c :: tl, false, unordSel⟩ c = (⟨[], tl, true, false⟩, .ok) := by
            simp [pop, popNewSelection, he, hb, hcu]
          rw [hpop]
          exact ⟨rfl, ⟨hU, hwf'⟩, by simp [count], by simp [bytes]; omega,
            queued_removes_ord rfl rfl rfl hcu, by simp, by simp, by simp, by simp [hcu], by simp [classQ, hcu], by simp [classQ, hcu]⟩

end MsgPol

/-! ### round-robin policy: well-formedness and what each operation does to the observations
`order` and `sq s` (the queue of stream `s`, `[]` when the map has no entry) -/
namespace RR
open AMap

def sq (r : RR) (s : Nat) : List Chunk := (get r.queues s).getD []
def count (r : RR) : Nat := msum List.length r.queues
def bytes (r : RR) : Nat := msum lenSum r.queues
def queued (r : RR) (s : Nat) (u : Bool) : List Chunk := (r.sq s).filter (·.unordered == u)

structure WF (r : RR) : Prop where
  nodupKeys : (keys r.queues).Nodup
  q1 : ∀ s l, get r.queues s = some l → l ≠ [] ∧ ∀ c ∈ l, c.sid = s
  nodupOrder : r.order.Nodup
  mem : ∀ s, s ∈ r.order ↔ (get r.queues s).isSome
  sel : r.sel = true → r.order.head? = some r.selStream

theorem wf_empty : WF {} :=
  ⟨by simp [keys], by simp, by simp, by simp, by simp⟩

theorem sq_ne_nil_iff {r : RR} (h : r.WF) (s : Nat) : r.sq s ≠ [] ↔ s ∈ r.order := by
  rw [h.mem s]; unfold sq
  cases hg : get r.queues s with
  | none => simp
  | some l => simpa using (h.q1 s l hg).1

theorem sid_of_mem_sq {r : RR} (h : r.WF) {s : Nat} {c : Chunk} (hc : c ∈ r.sq s) : c.sid = s := by
  unfold sq at hc
  cases hg : get r.queues s with
  | none => simp [hg] at hc
  | some l => simp [hg] at hc; exact (h.q1 s l hg).2 c hc

theorem push_sq (r : RR) (c : Chunk) (s : Nat) :
    (r.push c).sq s = if s = c.sid then r.sq s ++ [c] else r.sq s := by
  unfold push sq
  simp only [get_set]
  by_cases hs : s = c.sid
  · subst hs; simp
  · simp [hs]

theorem push_order {r : RR} (h : r.WF) (c : Chunk) :
    (r.push c).order = if r.sq c.sid = [] then r.order ++ [c.sid] else r.order := by
  unfold push sq
  cases hg : get r.queues c.sid with
  | none => simp
  | some l =>
    have := (h.q1 _ l hg).1
    simp [this]

@[simp] theorem push_sel (r : RR) (c : Chunk) : (r.push c).sel = r.sel := rfl
@[simp] theorem push_selStream (r : RR) (c : Chunk) : (r.push c).selStream = r.selStream := rfl

theorem push_wf {r : RR} (h : r.WF) (c : Chunk) : (r.push c).WF := by
  have hord := push_order h c
  refine ⟨?_, ?_, ?_, ?_, ?_⟩
  · exact nodup_keys_set _ _ _ h.nodupKeys
  · intro s l hl
    simp only [push, get_set] at hl
    by_cases hs : s = c.sid
    · subst hs
      simp only [if_true, Option.some.injEq] at hl
      subst hl
      refine ⟨by simp, ?_⟩
      intro x hx
      simp only [List.mem_append, List.mem_singleton] at hx
      rcases hx with hx | hx
      · cases hg : get r.queues c.sid with
        | none => simp [hg] at hx
        | some l' => simp [hg] at hx; exact (h.q1 _ l' hg).2 x hx
      · subst hx; rfl
    · simp only [hs, if_false] at hl
      exact h.q1 s l hl
  · rw [hord]
    by_cases he : r.sq c.sid = []
    · simp only [he, if_true]
      have : c.sid ∉ r.order := by
        intro hm; exact (sq_ne_nil_iff h _).mpr hm he
      exact List.nodup_append.mpr ⟨h.nodupOrder, by simp, by
        intro a ha b hb; simp at hb; subst hb; intro hab; subst hab; exact this ha⟩
    · simpa [he] using h.nodupOrder
  · intro s
    rw [hord]
    have hq : get (r.push c).queues s = if s = c.sid then some ((get r.queues c.sid).getD [] ++ [c]) else get r.queues s := by
      simp [push, get_set]
    rw [hq]
    by_cases hs : s = c.sid
    · subst hs
      simp only [if_true, Option.isSome_some, iff_true]
      by_cases he : r.sq c.sid = [] <;> simp [he]
      exact (sq_ne_nil_iff h _).mp he
    · simp only [hs, if_false]
      by_cases he : r.sq c.sid = []
      · simp only [he, if_true, List.mem_append, List.mem_singleton, hs, or_false]; exact h.mem s
      · simp only [he, if_false]; exact h.mem s
  · intro hsel
    have := h.sel hsel
    rw [hord]
    by_cases he : r.sq c.sid = []
    · simp only [he, if_true]
      cases ho : r.order with
      | nil => simp [ho] at this
      | cons a tl => simpa [ho] using this
    · simpa [he] using this

theorem push_count {r : RR} (c : Chunk) : (r.push c).count = r.count + 1 := by
  unfold push count
  have := msum_set List.length r.queues c.sid ((get r.queues c.sid).getD [] ++ [c])
  cases hg : get r.queues c.sid with
  | none => simp [hg] at this ⊢; omega
  | some l => simp [hg] at this ⊢; omega

theorem push_bytes {r : RR} (c : Chunk) : (r.push c).bytes = r.bytes + c.len := by
  unfold push bytes
  have := msum_set lenSum r.queues c.sid ((get r.queues c.sid).getD [] ++ [c])
  cases hg : get r.queues c.sid with
  | none => simp [hg] at this ⊢; omega
  | some l => simp [hg] at this ⊢; omega

theorem push_queued (r : RR) (c : Chunk) : Appends r.queued (r.push c).queued c := by
  intro s u
  unfold queued key
  rw [push_sq]
  by_cases hs : s = c.sid
  · subst hs
    by_cases hu : c.unordered = u <;> simp [List.filter_append, hu]
  · have : ¬ c.sid = s := fun h => hs h.symm
    simp [hs, this]

/-- `peek` on a well-formed state never panics, only caches the selection -/
theorem peek_spec {r : RR} (h : r.WF) :
    (r.peek).1.WF ∧ (r.peek).1.queues = r.queues ∧ (r.peek).1.order = r.order ∧
    (r.peek).2 = .chunk ((r.order.head?).bind fun s => (r.sq s).head?) ∧
    (r.order ≠ [] → (r.peek).1.sel = true) ∧ (r.order = [] → (r.peek).1 = r) := by
  by_cases hsel : r.sel = true
  · have ho := h.sel hsel
    have hp : r.peek = (r, headOfSel r r.selStream) := by simp [peek, hsel]
    rw [hp]
    refine ⟨h, rfl, rfl, ?_, fun _ => hsel, fun he => rfl⟩
    have hm : r.selStream ∈ r.order := by
      cases hq : r.order with
      | nil => simp [hq] at ho
      | cons a tl => simp [hq] at ho; simp [ho]
    have := (h.mem _).mp hm
    show headOfSel r r.selStream = _
    unfold headOfSel sq
    cases hg : get r.queues r.selStream with
    | none => simp [hg] at this
    | some l => simp [ho, hg]
  · have hsel' : r.sel = false := by simpa using hsel
    cases ho : r.order with
    | nil =>
      have hp : r.peek = (r, .chunk none) := by simp [peek, hsel', ho]
      rw [hp]
      exact ⟨h, rfl, ho, by simp, by simp, fun _ => rfl⟩
    | cons s rest =>
      have hp : r.peek = ({ r with sel := true, selStream := s },
          headOfSel { r with sel := true, selStream := s } s) := by simp [peek, hsel', ho]
      rw [hp]
      have hm : s ∈ r.order := by simp [ho]
      have := (h.mem _).mp hm
      refine ⟨⟨h.nodupKeys, h.q1, h.nodupOrder, h.mem, by simp [ho]⟩,
        rfl, ho, ?_, by simp, by simp⟩
      show headOfSel _ s = _
      unfold headOfSel sq
      cases hg : get r.queues s with
      | none => simp [hg] at this
      | some l => simp [hg]

/-- peek-then-pop on a well-formed state with a backlog: the head of the first stream in `order`
is popped, the stream goes to the back of `order` if it still has chunks -/
theorem serve_spec {r : RR} (h : r.WF) {s : Nat} {rest : List Nat} (ho : r.order = s :: rest) :
    ∃ c tl, r.sq s = c :: tl ∧ (r.peek).2 = .chunk (some c) ∧
      let r'' := ((r.peek).1.pop c).1
      ((r.peek).1.pop c).2 = .ok ∧ r''.WF ∧
      r''.order = (if tl = [] then rest else rest ++ [s]) ∧
      (∀ s', r''.sq s' = if s' = s then tl else r.sq s') ∧
      r''.sel = false ∧ r.count = r''.count + 1 ∧ r.bytes = r''.bytes + c.len := by
  obtain ⟨hwf', hq', ho', hres, hsel', _⟩ := peek_spec h
  have hm : s ∈ r.order := by simp [ho]
  have hsome := (h.mem _).mp hm
  obtain ⟨l, hg⟩ := Option.isSome_iff_exists.mp hsome
  obtain ⟨hne, hsid⟩ := h.q1 s l hg
  obtain ⟨c, tl, rfl⟩ : ∃ c tl, l = c :: tl := by
    cases l with
    | nil => exact absurd rfl hne
    | cons c tl => exact ⟨c, tl, rfl⟩
  have hsq : r.sq s = c :: tl := by simp [sq, hg]
  refine ⟨c, tl, hsq, by simp [hres, ho, hsq], ?_⟩
  have hselT : (r.peek).1.sel = true := hsel' (by simp [ho])
  have hss : (r.peek).1.selStream = s := by
    have := hwf'.sel hselT
    rw [ho', ho] at this
    simpa using this.symm
  -- compute the pop
  generalize hp : r.peek = pk at *
  obtain ⟨r', x⟩ := pk
  simp only at hwf' hq' ho' hselT hss ⊢
  have hg' : get r'.queues s = some (c :: tl) := by rw [hq']; exact hg
  by_cases htl : tl = []
  · subst htl
    have hpop : r'.pop c = ({ r' with queues := erase r'.queues s, order := rest, sel := false, selStream := 0 }, .ok) := by
      unfold pop
      simp [hselT, hss, hg', ho', ho]
    rw [hpop]
    refine ⟨rfl, ?_, by simp, ?_, rfl, ?_, ?_⟩
    · have hnd : rest.Nodup ∧ s ∉ rest := by
        have := h.nodupOrder; rw [ho] at this
        exact ⟨(List.nodup_cons.mp this).2, (List.nodup_cons.mp this).1⟩
      refine ⟨by rw [hq']; exact nodup_keys_erase _ _ h.nodupKeys, ?_, hnd.1, ?_, by simp⟩
      · intro s' l' hl'
        simp only [get_erase, hq'] at hl'
        by_cases hs' : s' = s
        · simp [hs'] at hl'
        · simp only [hs', if_false] at hl'; exact h.q1 s' l' hl'
      · intro s'
        simp only [get_erase, hq']
        by_cases hs' : s' = s
        · subst hs'; simp [hnd.2]
        · simp only [hs', if_false]
          rw [← h.mem s', ho]; simp [hs']
    · intro s'
      simp only [sq, get_erase, hq']
      by_cases hs' : s' = s <;> simp [hs']
    · have := msum_erase List.length r.queues s h.nodupKeys
      simp only [count, hq']; rw [hg] at this; simp at this; omega
    · have := msum_erase lenSum r.queues s h.nodupKeys
      simp only [bytes, hq']; rw [hg] at this; simp at this; omega
  · have hpop : r'.pop c = ({ r' with queues := set r'.queues s tl, order := rest ++ [s], sel := false, selStream := 0 }, .ok) := by
      unfold pop
      have : 0 < tl.length := List.length_pos_iff.mpr htl
      simp [hselT, hss, hg', ho', ho, this]
    rw [hpop]
    refine ⟨rfl, ?_, by simp [htl], ?_, rfl, ?_, ?_⟩
    · have hnd : rest.Nodup ∧ s ∉ rest := by
        have := h.nodupOrder; rw [ho] at this
        exact ⟨(List.nodup_cons.mp this).2, (List.nodup_cons.mp this).1⟩
      refine ⟨by rw [hq']; exact nodup_keys_set _ _ _ h.nodupKeys, ?_, ?_, ?_, by simp⟩
      · intro s' l' hl'
        simp only [get_set, hq'] at hl'
        by_cases hs' : s' = s
        · subst hs'
          simp only [if_true, Option.some.injEq] at hl'
          subst hl'
          exact ⟨htl, fun x hx => hsid x (by simp [hx])⟩
        · simp only [hs', if_false] at hl'; exact h.q1 s' l' hl'
      · exact List.nodup_append.mpr ⟨hnd.1, by simp, by
          intro a ha b hb; simp at hb; subst hb; intro hab; subst hab; exact hnd.2 ha⟩
      · intro s'
        simp only [get_set, hq']
        by_cases hs' : s' = s
        · subst hs'; simp
        · simp only [hs', if_false]
          rw [← h.mem s', ho]; simp [hs']
    · intro s'
      simp only [sq, get_set, hq']
      by_cases hs' : s' = s <;> simp [hs']
    · have := msum_set List.length r.queues s tl
      simp only [count, hq']; rw [hg] at this; simp at this; omega
    · have := msum_set lenSum r.queues s tl
      simp only [bytes, hq']; rw [hg] at this; simp at this; omega

end RR

/-! ### WFQ policy: structural well-formedness (any number type) -/
namespace WFQ
open AMap
variable {α : Type} [Num α]

def sq (w : WFQ α) (s : Nat) : List (Chunk × α) := (get w.queues s).getD []
def fin (w : WFQ α) (s : Nat) : α := (get w.finish s).getD (Num.ofNat 0)
def count (w : WFQ α) : Nat := msum List.length w.queues
def bytes (w : WFQ α) : Nat := msum (fun l => lenSum (l.map Prod.fst)) w.queues
def queued (w : WFQ α) (s : Nat) (u : Bool) : List Chunk :=
  ((w.sq s).map Prod.fst).filter (·.unordered == u)

/-- the finish tag `Push` gives to `c` -/
def pushTag (w : WFQ α) (c : Chunk) : α :=
  Num.add (gmax w.vtime (w.fin c.sid)) (Num.div (Num.ofNat c.len) (weightOf w c.sid))

structure WF (w : WFQ α) : Prop where
  nodupKeys : (keys w.queues).Nodup
  q1 : ∀ s l, get w.queues s = some l → l ≠ [] ∧ ∀ x ∈ l, x.1.sid = s
  sel : w.sel = true → (get w.queues w.selStream).isSome

theorem wf_new (ws : AMap Nat) : (WFQ.new ws : WFQ α).WF :=
  ⟨by simp [WFQ.new, keys], by simp [WFQ.new], by simp [WFQ.new]⟩

omit [Num α] in
theorem sid_of_mem_sq {w : WFQ α} (h : w.WF) {s : Nat} {x : Chunk × α} (hx : x ∈ w.sq s) : x.1.sid = s := by
  unfold sq at hx
  cases hg : get w.queues s with
  | none => simp [hg] at hx
  | some l => simp [hg] at hx; exact (h.q1 s l hg).2 x hx

theorem push_sq (w : WFQ α) (c : Chunk) (s : Nat) :
    (w.push c).sq s = if s = c.sid then w.sq s ++ [(c, pushTag w c)] else w.sq s := by
  unfold push sq pushTag fin
  simp only [get_set]
  by_cases hs : s = c.sid
  · subst hs; simp
  · simp [hs]

theorem push_fin (w : WFQ α) (c : Chunk) (s : Nat) :
    (w.push c).fin s = if s = c.sid then pushTag w c else w.fin s := by
  unfold push fin pushTag
  simp only [get_set]
  by_cases hs : s = c.sid
  · subst hs; simp [fin]
  · simp [hs]

@[simp] theorem push_vtime (w : WFQ α) (c : Chunk) : (w.push c).vtime = w.vtime := rfl
@[simp] theorem push_sel (w : WFQ α) (c : Chunk) : (w.push c).sel = w.sel := rfl
@[simp] theorem push_selStream (w : WFQ α) (c : Chunk) : (w.push c).selStream = w.selStream := rfl
@[simp] theorem push_weights (w : WFQ α) (c : Chunk) : (w.push c).weights = w.weights := rfl

theorem push_wf {w : WFQ α} (h : w.WF) (c : Chunk) : (w.push c).WF := by
  refine ⟨nodup_keys_set _ _ _ h.nodupKeys, ?_, ?_⟩
  · intro s l hl
    simp only [push, get_set] at hl
    by_cases hs : s = c.sid
    · subst hs
      simp only [if_true, Option.some.injEq] at hl
      subst hl
      refine ⟨by simp, ?_⟩
      intro x hx
      simp only [List.mem_append, List.mem_singleton] at hx
      rcases hx with hx | hx
      · cases hg : get w.queues c.sid with
        | none => simp [hg] at hx
        | some l' => simp [hg] at hx; exact (h.q1 _ l' hg).2 x hx
      · subst hx; rfl
    · simp only [hs, if_false] at hl
      exact h.q1 s l hl
  · intro hsel
    have := h.sel hsel
    simp only [push, get_set]
    by_cases hs : w.selStream = c.sid <;> simp [hs, this]

theorem push_count (w : WFQ α) (c : Chunk) : (w.push c).count = w.count + 1 := by
  unfold push count
  have := msum_set List.length w.queues c.sid ((get w.queues c.sid).getD [] ++ [(c, pushTag w c)])
  unfold pushTag fin at this
  cases hg : get w.queues c.sid with
  | none => simp [hg] at this ⊢; omega
  | some l => simp [hg] at this ⊢; omega

theorem push_bytes (w : WFQ α) (c : Chunk) : (w.push c).bytes = w.bytes + c.len := by
  unfold push bytes
  have := msum_set (fun l : List (Chunk × α) => lenSum (l.map Prod.fst)) w.queues c.sid
    ((get w.queues c.sid).getD [] ++ [(c, pushTag w c)])
  unfold pushTag fin at this
  cases hg : get w.queues c.sid with
  | none => simp [hg] at this ⊢; omega
  | some l => simp [hg] at this ⊢; omega

theorem push_queued (w : WFQ α) (c : Chunk) : Appends w.queued (w.push c).queued c := by
  intro s u
  unfold queued key
  rw [push_sq]
  by_cases hs : s = c.sid
  · subst hs
    by_cases hu : c.unordered = u <;> simp [List.filter_append, hu]
  · have : ¬ c.sid = s := fun h => hs h.symm
    simp [hs, this]

/-- the loop of `Peek` only ever holds the head of some stream queue -/
theorem selStep_head (w : WFQ α) (acc : Option (Chunk × Nat × α)) (s : Nat)
    (hacc : ∀ c s' f, acc = some (c, s', f) → ∃ tl, get w.queues s' = some ((c, f) :: tl)) :
    ∀ c s' f, selStep w acc s = some (c, s', f) → ∃ tl, get w.queues s' = some ((c, f) :: tl) := by
  intro c s' f hsome
  unfold selStep at hsome
  cases hg : get w.queues s with
  | none => simp [hg] at hsome; exact hacc c s' f hsome
  | some l =>
    cases l with
    | nil => simp [hg] at hsome; exact hacc c s' f hsome
    | cons hd tl =>
      obtain ⟨c0, f0⟩ := hd
      simp only [hg, Option.bind_some, List.head?_cons] at hsome
      cases acc with
      | none =>
        simp only at hsome
        split at hsome
        · simp only [Option.some.injEq, Prod.mk.injEq] at hsome
          obtain ⟨rfl, rfl, rfl⟩ := hsome
          exact ⟨tl, hg⟩
        · simp at hsome
      | some a =>
        obtain ⟨c1, s1, f1⟩ := a
        simp only at hsome
        split at hsome
        · simp only [Option.some.injEq, Prod.mk.injEq] at hsome
          obtain ⟨rfl, rfl, rfl⟩ := hsome
          exact ⟨tl, hg⟩
        · exact hacc c s' f hsome

theorem foldl_selStep_head (w : WFQ α) (ks : List Nat) (acc : Option (Chunk × Nat × α))
    (hacc : ∀ c s' f, acc = some (c, s', f) → ∃ tl, get w.queues s' = some ((c, f) :: tl)) :
    ∀ c s' f, ks.foldl (selStep w) acc = some (c, s', f) → ∃ tl, get w.queues s' = some ((c, f) :: tl) := by
  induction ks generalizing acc with
  | nil => simpa using hacc
  | cons k ks ih => simp only [List.foldl_cons]; exact ih _ (selStep_head w acc k hacc)

theorem select_head (w : WFQ α) {c : Chunk} {s : Nat} {f : α} (h : select w = some (c, s, f)) :
    ∃ tl, get w.queues s = some ((c, f) :: tl) :=
  foldl_selStep_head w _ none (by simp) c s f h

/-- `Peek` on a well-formed state: no panic; a returned chunk is the head of the (now) selected stream -/
theorem peek_spec {w : WFQ α} (h : w.WF) :
    (w.peek).1.WF ∧ (w.peek).1.queues = w.queues ∧ (w.peek).1.finish = w.finish ∧
    (w.peek).1.vtime = w.vtime ∧ (w.peek).1.weights = w.weights ∧
    ((w.peek).2 = .chunk none ∧ ((w.peek).1 = w) ∨
      ∃ c f tl, (w.peek).2 = .chunk (some c) ∧ (w.peek).1.sel = true ∧
        get w.queues (w.peek).1.selStream = some ((c, f) :: tl)) := by
  by_cases hsel : w.sel = true
  · have hp : w.peek = (w, headOfSel w w.selStream) := by simp [peek, hsel]
    rw [hp]
    refine ⟨h, rfl, rfl, rfl, rfl, ?_⟩
    obtain ⟨l, hg⟩ := Option.isSome_iff_exists.mp (h.sel hsel)
    obtain ⟨hne, _⟩ := h.q1 _ l hg
    cases l with
    | nil => exact absurd rfl hne
    | cons hd tl =>
      right
      exact ⟨hd.1, hd.2, tl, by simp [headOfSel, hg], hsel, hg⟩
  · have hsel' : w.sel = false := by simpa using hsel
    cases hs : select w with
    | none =>
      have hp : w.peek = (w, .chunk none) := by simp [peek, hsel', hs]
      rw [hp]
      exact ⟨h, rfl, rfl, rfl, rfl, Or.inl ⟨rfl, rfl⟩⟩
    | some a =>
      obtain ⟨c, s, f⟩ := a
      have hp : w.peek = ({ w with sel := true, selStream := s }, .chunk (some c)) := by
        simp [peek, hsel', hs]
      rw [hp]
      obtain ⟨tl, hg⟩ := select_head w hs
      exact ⟨⟨h.nodupKeys, h.q1, fun _ => by simp [hg]⟩, rfl, rfl, rfl, rfl,
        Or.inr ⟨c, f, tl, rfl, rfl, hg⟩⟩

/-- `Pop` of the head of the selected stream -/
theorem pop_spec {w : WFQ α} (h : w.WF) (hsel : w.sel = true) {c : Chunk} {f : α} {tl : List (Chunk × α)}
    (hg : get w.queues w.selStream = some ((c, f) :: tl)) :
    (w.pop c).2 = .ok ∧ (w.pop c).1.WF ∧
    (∀ s', (w.pop c).1.sq s' = if s' = w.selStream then tl else w.sq s') ∧
    (w.pop c).1.vtime = gmax w.vtime f ∧ (w.pop c).1.finish = w.finish ∧
    (w.pop c).1.weights = w.weights ∧ (w.pop c).1.sel = false ∧
    w.count = (w.pop c).1.count + 1 ∧ w.bytes = (w.pop c).1.bytes + c.len := by
  obtain ⟨_, hsid⟩ := h.q1 _ _ hg
  by_cases htl : tl = []
  · subst htl
    have hpop : w.pop c =
        ({ w with queues := erase w.queues w.selStream, vtime := (gmax w.vtime f), sel := false, selStream := 0 }, .ok) := by
      unfold pop; simp [hsel, hg]
    rw [hpop]
    refine ⟨rfl, ⟨nodup_keys_erase _ _ h.nodupKeys, ?_, by simp⟩, ?_, rfl, rfl, rfl, rfl, ?_, ?_⟩
    · intro s' l' hl'
      simp only [get_erase] at hl'
      by_cases hs' : s' = w.selStream
      · simp [hs'] at hl'
      · simp only [hs', if_false] at hl'; exact h.q1 s' l' hl'
    · intro s'
      simp only [sq, get_erase]
      by_cases hs' : s' = w.selStream <;> simp [hs']
    · have := msum_erase List.length w.queues w.selStream h.nodupKeys
      simp only [count]; rw [hg] at this; simp at this; omega
    · have := msum_erase (fun l : List (Chunk × α) => lenSum (l.map Prod.fst)) w.queues w.selStream h.nodupKeys
      simp only [bytes]; rw [hg] at this; simp at this; omega
  · have hpop : w.pop c =
        ({ w with queues := set w.queues w.selStream tl, vtime := (gmax w.vtime f), sel := false, selStream := 0 }, .ok) := by
      unfold pop
      cases tl with
      | nil => exact absurd rfl htl
      | cons a b => simp [hsel, hg]
    rw [hpop]
    refine ⟨rfl, ⟨nodup_keys_set _ _ _ h.nodupKeys, ?_, by simp⟩, ?_, rfl, rfl, rfl, rfl, ?_, ?_⟩
    · intro s' l' hl'
      simp only [get_set] at hl'
      by_cases hs' : s' = w.selStream
      · simp only [hs', if_true, Option.some.injEq] at hl'
        subst hl'
        exact ⟨htl, fun x hx => by rw [hs']; exact hsid x (by simp [hx])⟩
      · simp only [hs', if_false] at hl'; exact h.q1 s' l' hl'
    · intro s'
      simp only [sq, get_set]
      by_cases hs' : s' = w.selStream <;> simp [hs']
    · have := msum_set List.length w.queues w.selStream tl
      simp only [count]; rw [hg] at this; simp at this; omega
    · have := msum_set (fun l : List (Chunk × α) => lenSum (l.map Prod.fst)) w.queues w.selStream tl
      simp only [bytes]; rw [hg] at this; simp at this; omega

end WFQ
end PendQ
