import SctpVerif.Proofs.PendQRR
import Mathlib.Tactic.Linarith
import Mathlib.Tactic.FieldSimp
import Mathlib.Algebra.Order.Field.Rat
/-!
Helper lemmas for C17, part 5: weighted fair queueing over exact rationals.
-/
namespace PendQ
open AMap

theorem gmax_rat (a b : Rat) : gmax a b = max a b := by
  unfold gmax; simp only [Num.lt]
  by_cases h : a < b
  · simp [h, le_of_lt h]
  · simp only [h, decide_false, Bool.false_eq_true, if_false, max_def]
    split
    · rename_i h'; exact le_antisymm h' (not_lt.mp h)
    · rfl

namespace WFQ

/-- weight of stream `s` as a rational (`> 0`: a missing or zero weight counts as 1) -/
def wt (w : WFQ Rat) (s : Nat) : Rat := (weightNat w s : Rat)

theorem wt_pos (w : WFQ Rat) (s : Nat) : 0 < wt w s := by
  unfold wt weightNat
  simp only
  split
  · norm_num
  · rename_i h; exact_mod_cast Nat.pos_of_ne_zero h

theorem weightOf_eq (w : WFQ Rat) (s : Nat) : weightOf w s = wt w s := rfl

theorem wt_congr {w w' : WFQ Rat} (h : w'.weights = w.weights) (s : Nat) : wt w' s = wt w s := by
  simp [wt, weightNat, h]

theorem pushTag_eq (w : WFQ Rat) (c : Chunk) :
    pushTag w c = max w.vtime (w.fin c.sid) + (c.len : Rat) / wt w c.sid := by
  unfold pushTag; rw [gmax_rat]; rfl

/-- `(f, s)` is lexicographically least among the heads of all stream queues -/
def IsMin (w : WFQ Rat) (s : Nat) (f : Rat) : Prop :=
  ∀ s' c' f' tl', w.sq s' = (c', f') :: tl' → f ≤ f' ∧ (f = f' → s ≤ s')

theorem selStep_min (w : WFQ Rat) (acc : Option (Chunk × Nat × Rat)) (k : Nat) :
    (∀ c s f, acc = some (c, s, f) → ∃ c0 s0 f0, selStep w acc k = some (c0, s0, f0) ∧ (f0 < f ∨ (f0 = f ∧ s0 ≤ s))) ∧
    (∀ c' f' tl', w.sq k = (c', f') :: tl' → ∃ c0 s0 f0, selStep w acc k = some (c0, s0, f0) ∧ (f0 < f' ∨ (f0 = f' ∧ s0 ≤ k))) := by
  unfold selStep sq
  cases hg : get w.queues k with
  | none =>
    simp only [Option.bind_none, Option.getD_none]
    exact ⟨fun c s f h => ⟨c, s, f, h, Or.inr ⟨rfl, le_refl _⟩⟩, by simp⟩
  | some l =>
    cases l with
    | nil =>
      simp only [Option.bind_some, List.head?_nil, Option.getD_some]
      exact ⟨fun c s f h => ⟨c, s, f, h, Or.inr ⟨rfl, le_refl _⟩⟩, by simp⟩
    | cons hd tl =>
      obtain ⟨c1, f1⟩ := hd
      simp only [Option.bind_some, List.head?_cons, Option.getD_some]
      cases acc with
      | none =>
        simp only [Num.finite, if_true]
        refine ⟨by simp, ?_⟩
        intro c' f' tl' h
        simp only [List.cons.injEq, Prod.mk.injEq] at h
        obtain ⟨⟨rfl, rfl⟩, _⟩ := h
        exact ⟨c1, k, f1, rfl, Or.inr ⟨rfl, le_refl _⟩⟩
      | some a =>
        obtain ⟨c2, s2, f2⟩ := a
        simp only [Num.lt, Num.beq]
        by_cases hc : (decide (f1 < f2) || (decide (f1 = f2) && decide (k < s2))) = true
        · simp only [hc, if_true]
          have hc' : f1 < f2 ∨ (f1 = f2 ∧ k < s2) := by simpa using hc
          refine ⟨?_, ?_⟩
          · intro c s f h
            simp only [Option.some.injEq, Prod.mk.injEq] at h
            obtain ⟨rfl, rfl, rfl⟩ := h
            refine ⟨c1, k, f1, rfl, ?_⟩
            rcases hc' with h | ⟨h1, h2⟩
            · exact Or.inl h
            · exact Or.inr ⟨h1, le_of_lt h2⟩
          · intro c' f' tl' h
            simp only [List.cons.injEq, Prod.mk.injEq] at h
            obtain ⟨⟨rfl, rfl⟩, _⟩ := h
            exact ⟨c1, k, f1, rfl, Or.inr ⟨rfl, le_refl _⟩⟩
        · simp only [hc, Bool.false_eq_true, if_false]
          have hc' : ¬ (f1 < f2 ∨ (f1 = f2 ∧ k < s2)) := by simpa using hc
          refine ⟨fun c s f h => ⟨c, s, f, h, Or.inr ⟨rfl, le_refl _⟩⟩, ?_⟩
          intro c' f' tl' h
          simp only [List.cons.injEq, Prod.mk.injEq] at h
          obtain ⟨⟨rfl, rfl⟩, _⟩ := h
          refine ⟨c2, s2, f2, rfl, ?_⟩
          have h1 : f2 ≤ f1 := not_lt.mp (fun h => hc' (Or.inl h))
          rcases lt_or_eq_of_le h1 with h | h
          · exact Or.inl h
          · exact Or.inr ⟨h, not_lt.mp (fun hk => hc' (Or.inr ⟨h.symm, hk⟩))⟩

theorem lex_trans {f0 f1 f2 : Rat} {s0 s1 s2 : Nat} (h01 : f0 < f1 ∨ (f0 = f1 ∧ s0 ≤ s1))
    (h12 : f1 < f2 ∨ (f1 = f2 ∧ s1 ≤ s2)) : f0 < f2 ∨ (f0 = f2 ∧ s0 ≤ s2) := by
  rcases h01 with h | ⟨h, hs⟩ <;> rcases h12 with h' | ⟨h', hs'⟩
  · exact Or.inl (lt_trans h h')
  · exact Or.inl (h' ▸ h)
  · exact Or.inl (h ▸ h')
  · exact Or.inr ⟨h.trans h', le_trans hs hs'⟩

theorem foldl_selStep_min (w : WFQ Rat) (ks : List Nat) :
    ∀ acc : Option (Chunk × Nat × Rat),
    (∀ c s f, acc = some (c, s, f) → ∃ c0 s0 f0, ks.foldl (selStep w) acc = some (c0, s0, f0) ∧ (f0 < f ∨ (f0 = f ∧ s0 ≤ s))) ∧
    (∀ k ∈ ks, ∀ c' f' tl', w.sq k = (c', f') :: tl' →
      ∃ c0 s0 f0, ks.foldl (selStep w) acc = some (c0, s0, f0) ∧ (f0 < f' ∨ (f0 = f' ∧ s0 ≤ k))) := by
  induction ks with
  | nil => intro acc; exact ⟨fun c s f h => ⟨c, s, f, h, Or.inr ⟨rfl, le_refl _⟩⟩, by simp⟩
  | cons k ks ih =>
    intro acc
    obtain ⟨h1, h2⟩ := selStep_min w acc k
    obtain ⟨i1, i2⟩ := ih (selStep w acc k)
    simp only [List.foldl_cons]
    refine ⟨?_, ?_⟩
    · intro c s f h
      obtain ⟨c0, s0, f0, hs, hl⟩ := h1 c s f h
      obtain ⟨c1, s1, f1, hs1, hl1⟩ := i1 c0 s0 f0 hs
      exact ⟨c1, s1, f1, hs1, lex_trans hl1 hl⟩
    · intro k' hk' c' f' tl' hq
      simp only [List.mem_cons] at hk'
      rcases hk' with rfl | hk'
      · obtain ⟨c0, s0, f0, hs, hl⟩ := h2 c' f' tl' hq
        obtain ⟨c1, s1, f1, hs1, hl1⟩ := i1 c0 s0 f0 hs
        exact ⟨c1, s1, f1, hs1, lex_trans hl1 hl⟩
      · exact i2 k' hk' c' f' tl' hq

/-- `Peek` without a cached selection returns THE least `(finish tag, stream id)` among the heads -/
theorem select_min {w : WFQ Rat} {c : Chunk} {s : Nat} {f : Rat} (h : select w = some (c, s, f)) : IsMin w s f := by
  intro s' c' f' tl' hq
  have hk : s' ∈ keys w.queues := by
    rw [mem_keys_iff]
    unfold sq at hq
    cases hg : get w.queues s' with
    | none => simp [hg] at hq
    | some l => simp
  obtain ⟨c0, s0, f0, hs, hl⟩ := (foldl_selStep_min w (keys w.queues) none).2 s' hk c' f' tl' hq
  unfold select at h
  rw [h] at hs
  simp only [Option.some.injEq, Prod.mk.injEq] at hs
  obtain ⟨_, rfl, rfl⟩ := hs
  rcases hl with hl | ⟨hl, hs⟩
  · exact ⟨le_of_lt hl, fun he => absurd he (ne_of_lt hl)⟩
  · exact ⟨le_of_eq hl, fun _ => hs⟩

theorem select_none {w : WFQ Rat} (h : select w = none) (s : Nat) : (w.sq s).head? = none := by
  cases hq : w.sq s with
  | nil => rfl
  | cons hd tl =>
    obtain ⟨c', f'⟩ := hd
    have hk : s ∈ keys w.queues := by
      rw [mem_keys_iff]
      unfold sq at hq
      cases hg : get w.queues s with
      | none => simp [hg] at hq
      | some l => simp
    obtain ⟨c0, s0, f0, hs, _⟩ := (foldl_selStep_min w (keys w.queues) none).2 s hk c' f' tl hq
    unfold select at h
    rw [h] at hs; simp at hs

end WFQ

/-! ### what one basic operation does to the observations of a well-formed WFQ state -/

open WFQ in
/-- observations: `sq`, `fin`, `vtime`, `sel`, `selStream`, `weights` -/
def WStep (w : WFQ Rat) (o : Op) (w' : WFQ Rat) (po : List Chunk) : Prop :=
  w'.weights = w.weights ∧
  match o with
  | .push c => po = [] ∧ (∀ s, w'.sq s = if s = c.sid then w.sq s ++ [(c, pushTag w c)] else w.sq s) ∧
      (∀ s, w'.fin s = if s = c.sid then pushTag w c else w.fin s) ∧ w'.vtime = w.vtime ∧
      w'.sel = w.sel ∧ w'.selStream = w.selStream
  | .pop =>
      (po = [] ∧ (∀ s, w'.sq s = w.sq s) ∧ (∀ s, w'.fin s = w.fin s) ∧ w'.vtime = w.vtime ∧
        w.sel = false ∧ w'.sel = false ∧ ∀ s, (w.sq s).head? = none) ∨
      (∃ s c f tl, w.sq s = (c, f) :: tl ∧ po = [c] ∧ c.sid = s ∧ (w.sel = true → s = w.selStream) ∧
        (w.sel = false → IsMin w s f) ∧ (∀ s', w'.sq s' = if s' = s then tl else w.sq s') ∧
        (∀ s', w'.fin s' = w.fin s') ∧ w'.vtime = max w.vtime f ∧ w'.sel = false)
  | _ => po = [] ∧ (∀ s, w'.sq s = w.sq s) ∧ (∀ s, w'.fin s = w.fin s) ∧ w'.vtime = w.vtime ∧
      ((w.sel = true ∧ w'.sel = true ∧ w'.selStream = w.selStream) ∨
       (w.sel = false ∧ w'.sel = false ∧ ∀ s, (w.sq s).head? = none) ∨
       (w.sel = false ∧ w'.sel = true ∧ ∃ c f tl, w.sq w'.selStream = (c, f) :: tl ∧ IsMin w w'.selStream f))

theorem wfq_peek_obs {w : WFQ Rat} (h : w.WF) :
    (w.peek).1.WF ∧ (w.peek).1.weights = w.weights ∧ (∀ s, (w.peek).1.sq s = w.sq s) ∧
    (∀ s, (w.peek).1.fin s = w.fin s) ∧ (w.peek).1.vtime = w.vtime ∧
    ((w.sel = true ∧ (w.peek).1.sel = true ∧ (w.peek).1.selStream = w.selStream ∧
        ∃ c f tl, (w.peek).2 = .chunk (some c) ∧ w.sq w.selStream = (c, f) :: tl) ∨
     (w.sel = false ∧ (w.peek).1.sel = false ∧ (w.peek).2 = .chunk none ∧ ∀ s, (w.sq s).head? = none) ∨
     (w.sel = false ∧ (w.peek).1.sel = true ∧
        ∃ c f tl, (w.peek).2 = .chunk (some c) ∧ w.sq (w.peek).1.selStream = (c, f) :: tl ∧
          WFQ.IsMin w (w.peek).1.selStream f)) := by
  by_cases hsel : w.sel = true
  · have hp : w.peek = (w, WFQ.headOfSel w w.selStream) := by simp [WFQ.peek, hsel]
    rw [hp]
    refine ⟨h, rfl, fun _ => rfl, fun _ => rfl, rfl, Or.inl ⟨hsel, hsel, rfl, ?_⟩⟩
    obtain ⟨l, hg⟩ := Option.isSome_iff_exists.mp (h.sel hsel)
    obtain ⟨hne, _⟩ := h.q1 _ l hg
    cases l with
    | nil => exact absurd rfl hne
    | cons hd tl => exact ⟨hd.1, hd.2, tl, by simp [WFQ.headOfSel, hg], by simp [WFQ.sq, hg]⟩
  · have hsel' : w.sel = false := by simpa using hsel
    cases hs : WFQ.select w with
    | none =>
      have hp : w.peek = (w, .chunk none) := by simp [WFQ.peek, hsel', hs]
      rw [hp]
      exact ⟨h, rfl, fun _ => rfl, fun _ => rfl, rfl, Or.inr (Or.inl ⟨hsel', hsel', rfl, WFQ.select_none hs⟩)⟩
    | some a =>
      obtain ⟨c, s, f⟩ := a
      have hp : w.peek = ({ w with sel := true, selStream := s }, .chunk (some c)) := by
        simp [WFQ.peek, hsel', hs]
      rw [hp]
      obtain ⟨tl, hg⟩ := WFQ.select_head w hs
      refine ⟨⟨h.nodupKeys, h.q1, fun _ => by simp [hg]⟩, rfl, fun _ => rfl, fun _ => rfl, rfl,
        Or.inr (Or.inr ⟨hsel', rfl, c, f, tl, rfl, by simp [WFQ.sq, hg], WFQ.select_min hs⟩)⟩

theorem wfq_step_obs {q : PQ Rat} {w : WFQ Rat} (hq : q.policy = .wfq w) (h : w.WF) (o : Op) (ho : o.basic = true) :
    ∃ w', (q.step o).1.policy = .wfq w' ∧ w'.WF ∧ WStep w o w' (evPop (o, (q.step o).2)) ∧
      evPush (o, (q.step o).2) = (match o with | .push c => [c] | _ => []) := by
  cases o with
  | rawPop c => simp [Op.basic] at ho
  | popNil => simp [Op.basic] at ho
  | setil b => simp [Op.basic] at ho
  | push c =>
    refine ⟨w.push c, by simp [PQ.step, PQ.push, PQ.policyPush, hq], WFQ.push_wf h c, ?_, by simp [evPush]⟩
    exact ⟨rfl, by simp [evPop, PQ.step], WFQ.push_sq w c, WFQ.push_fin w c, rfl, rfl, rfl⟩
  | peek =>
    obtain ⟨hwf', hwt, hsq, hfin, hv, hcases⟩ := wfq_peek_obs h
    refine ⟨(w.peek).1, by simp [PQ.step, PQ.peek, PQ.policyPeek, hq], hwf', ?_, by simp [evPush]⟩
    refine ⟨hwt, by simp [evPop, PQ.step], hsq, hfin, hv, ?_⟩
    rcases hcases with ⟨h1, h2, h3, _⟩ | ⟨h1, h2, _, h4⟩ | ⟨h1, h2, c, f, tl, _, h5, h6⟩
    · exact Or.inl ⟨h1, h2, h3⟩
    · exact Or.inr (Or.inl ⟨h1, h2, h4⟩)
    · exact Or.inr (Or.inr ⟨h1, h2, c, f, tl, h5, h6⟩)
  | pop =>
    obtain ⟨hwf', hwt, hsq, hfin, hv, hcases⟩ := wfq_peek_obs h
    have hnone : (w.peek).2 = .chunk none → q.step .pop = ({ q with policy := .wfq (w.peek).1 }, .popped none .ok) := by
      intro hn; simp [PQ.step, PQ.peek, PQ.policyPeek, hq, hn]
    have hserve : ∀ c f tl, (w.peek).2 = .chunk (some c) → (w.peek).1.sel = true →
        w.sq (w.peek).1.selStream = (c, f) :: tl →
        ∃ w', (q.step .pop).1.policy = .wfq w' ∧ w'.WF ∧ evPop (.pop, (q.step .pop).2) = [c] ∧
          c.sid = (w.peek).1.selStream ∧ w'.weights = w.weights ∧
          (∀ s', w'.sq s' = if s' = (w.peek).1.selStream then tl else w.sq s') ∧
          (∀ s', w'.fin s' = w.fin s') ∧ w'.vtime = max w.vtime f ∧ w'.sel = false := by
      intro c f tl hpk hselT hsqs
      have hg : get (w.peek).1.queues (w.peek).1.selStream = some ((c, f) :: tl) := by
        have := hsq (w.peek).1.selStream
        rw [hsqs] at this
        unfold WFQ.sq at this
        cases hg : get (w.peek).1.queues (w.peek).1.selStream with
        | none => exact absurd (hwf'.sel hselT) (by simp [hg])
        | some l => simp [hg] at this; rw [this]
      obtain ⟨hok, hwf'', hsq'', hv'', hfin'', hwt'', hsel'', _, _⟩ := WFQ.pop_spec hwf' hselT hg
      have hstep : q.step .pop = ({ q with policy := .wfq ((w.peek).1.pop c).1, nBytes := (if q.nBytes - (c.len : Int) < 0 then 0 else q.nBytes - c.len), nChunks := (q.nChunks - 1) }, .popped (some c) .ok) := by
        simp only [PQ.step, PQ.peek, PQ.policyPeek, hq, hpk, PQ.pop, PQ.policyPop]
        generalize hpp : (w.peek).1.pop c = pp at hok
        obtain ⟨p2, r2⟩ := pp
        simp only at hok; subst hok; rfl
      refine ⟨((w.peek).1.pop c).1, by rw [hstep], hwf'', by rw [hstep]; simp [evPop],
        (hwf'.q1 _ _ hg).2 (c, f) (by simp), by rw [hwt'', hwt], ?_, ?_, by rw [hv'', gmax_rat, hv], hsel''⟩
      · intro s'; rw [hsq'' s']; split
        · rfl
        · exact hsq s'
      · intro s'
        have := hfin s'
        unfold WFQ.fin at this ⊢
        rw [hfin'']; exact this
    rcases hcases with ⟨h1, h2, h3, c, f, tl, hpk, hsqs⟩ | ⟨h1, h2, hpk, h4⟩ | ⟨h1, h2, c, f, tl, hpk, hsqs, hmin⟩
    · obtain ⟨w', hp', hw', hev, hcs, hwt', hsq', hfin', hv', hsel'⟩ := hserve c f tl hpk h2 (by rw [h3]; exact hsqs)
      refine ⟨w', hp', hw', ⟨hwt', Or.inr ⟨w.selStream, c, f, tl, hsqs, hev, by rw [hcs, h3], fun _ => rfl,
        (fun hf => by rw [h1] at hf; cases hf), by simpa [h3] using hsq', hfin', hv', hsel'⟩⟩, by simp [evPush]⟩
    · rw [hnone hpk]
      refine ⟨(w.peek).1, rfl, hwf', ⟨hwt, Or.inl ⟨by simp [evPop], hsq, hfin, hv, h1, h2, h4⟩⟩, by simp [evPush]⟩
    · obtain ⟨w', hp', hw', hev, hcs, hwt', hsq', hfin', hv', hsel'⟩ := hserve c f tl hpk h2 hsqs
      refine ⟨w', hp', hw', ⟨hwt', Or.inr ⟨(w.peek).1.selStream, c, f, tl, hsqs, hev, hcs,
        (fun ht => by rw [h1] at ht; cases ht), fun _ => hmin, hsq', hfin', hv', hsel'⟩⟩, by simp [evPush]⟩


/-! ### tag invariants that hold along every operation list -/
namespace WFQ

structure GInv (w : WFQ Rat) : Prop where
  v0 : 0 ≤ w.vtime
  /-- tags are non-decreasing along each stream queue -/
  t1 : ∀ s, (w.sq s).Pairwise (fun x y => x.2 ≤ y.2)
  t2 : ∀ s, ∀ x ∈ w.sq s, x.2 ≤ w.fin s
  /-- `streamFinish[s]` is the tag of the newest chunk of `s` -/
  t2l : ∀ s l x, w.sq s = l ++ [x] → w.fin s = x.2
  t3 : ∀ s, w.sq s = [] → w.fin s ≤ w.vtime
  /-- the start tag of every head is at most the virtual time -/
  a : ∀ s c f tl, w.sq s = (c, f) :: tl → f - (c.len : Rat) / wt w s ≤ w.vtime
  /-- the start tag of a chunk is at most max(tag of its predecessor, virtual time) -/
  cu : ∀ s l1 c1 f1 c2 f2 l2, w.sq s = l1 ++ (c1, f1) :: (c2, f2) :: l2 →
    f2 - (c2.len : Rat) / wt w s ≤ max f1 w.vtime
  /-- … and at least the tag of its predecessor -/
  cl : ∀ s l1 c1 f1 c2 f2 l2, w.sq s = l1 ++ (c1, f1) :: (c2, f2) :: l2 →
    f1 ≤ f2 - (c2.len : Rat) / wt w s

theorem ginv_new (ws : AMap Nat) : GInv (WFQ.new ws : WFQ Rat) := by
  have hsq : ∀ s, (WFQ.new ws : WFQ Rat).sq s = [] := fun s => by simp [sq, WFQ.new]
  have hfin : ∀ s, (WFQ.new ws : WFQ Rat).fin s = 0 := fun s => by simp [fin, WFQ.new, Num.ofNat]
  have hv : (WFQ.new ws : WFQ Rat).vtime = 0 := by simp [WFQ.new, Num.ofNat]
  refine ⟨by rw [hv], fun s => by rw [hsq]; simp, fun s x hx => by rw [hsq] at hx; simp at hx,
    fun s l x h => by rw [hsq] at h; simp at h, fun s _ => by rw [hfin, hv],
    fun s c f tl h => by rw [hsq] at h; simp at h, fun s l1 c1 f1 c2 f2 l2 h => by rw [hsq] at h; simp at h,
    fun s l1 c1 f1 c2 f2 l2 h => by rw [hsq] at h; simp at h⟩

theorem div_wt_nonneg (w : WFQ Rat) (n : Nat) (s : Nat) : 0 ≤ (n : Rat) / wt w s :=
  div_nonneg (by exact_mod_cast Nat.zero_le n) (le_of_lt (wt_pos w s))

theorem last_of_append_cons {β : Type} {l l1 l2 : List β} {x a b : β} (h : l ++ [x] = l1 ++ a :: b :: l2) :
    (l2 = [] ∧ x = b ∧ l = l1 ++ [a]) ∨ (∃ l2', l2 = l2' ++ [x] ∧ l = l1 ++ a :: b :: l2') := by
  rcases List.eq_nil_or_concat l2 with rfl | ⟨l2', y, rfl⟩
  · left
    have : l ++ [x] = (l1 ++ [a]) ++ [b] := by simpa using h
    obtain ⟨h1, h2⟩ := List.append_inj' this rfl
    exact ⟨rfl, by simpa using h2, h1⟩
  · right
    have : l ++ [x] = (l1 ++ a :: b :: l2') ++ [y] := by simpa using h
    obtain ⟨h1, h2⟩ := List.append_inj' this rfl
    simp only [List.cons.injEq, and_true] at h2
    subst h2
    exact ⟨l2', by simp, h1⟩

theorem ginv_step {w w' : WFQ Rat} {o : Op} {po : List Chunk} (h : GInv w) (hs : WStep w o w' po) : GInv w' := by
  obtain ⟨hwt, hs⟩ := hs
  have hwt' : ∀ s, wt w' s = wt w s := wt_congr hwt
  have same : (∀ s, w'.sq s = w.sq s) → (∀ s, w'.fin s = w.fin s) → w'.vtime = w.vtime → GInv w' := by
    intro hsq hfin hv
    refine ⟨by rw [hv]; exact h.v0, fun s => by rw [hsq]; exact h.t1 s, fun s x hx => ?_, fun s l x hl => ?_,
      fun s hs' => ?_, fun s c f tl hq => ?_, fun s l1 c1 f1 c2 f2 l2 hq => ?_, fun s l1 c1 f1 c2 f2 l2 hq => ?_⟩
    · rw [hsq] at hx; rw [hfin]; exact h.t2 s x hx
    · rw [hsq] at hl; rw [hfin]; exact h.t2l s l x hl
    · rw [hsq] at hs'; rw [hfin, hv]; exact h.t3 s hs'
    · rw [hsq] at hq; rw [hwt', hv]; exact h.a s c f tl hq
    · rw [hsq] at hq; rw [hwt', hv]; exact h.cu s l1 c1 f1 c2 f2 l2 hq
    · rw [hsq] at hq; rw [hwt']; exact h.cl s l1 c1 f1 c2 f2 l2 hq
  cases o with
  | rawPop c => obtain ⟨_, hsq, hfin, hv, _⟩ := hs; exact same hsq hfin hv
  | popNil => obtain ⟨_, hsq, hfin, hv, _⟩ := hs; exact same hsq hfin hv
  | setil b => obtain ⟨_, hsq, hfin, hv, _⟩ := hs; exact same hsq hfin hv
  | peek => obtain ⟨_, hsq, hfin, hv, _⟩ := hs; exact same hsq hfin hv
  | push c =>
    obtain ⟨_, hsq, hfin, hv, _, _⟩ := hs
    have hT : pushTag w c = max w.vtime (w.fin c.sid) + (c.len : Rat) / wt w c.sid := pushTag_eq w c
    have hTge : w.fin c.sid ≤ pushTag w c := by
      rw [hT]; have := div_wt_nonneg w c.len c.sid; have := le_max_right w.vtime (w.fin c.sid); linarith
    refine ⟨by rw [hv]; exact h.v0, fun s => ?_, fun s x hx => ?_, fun s l x hl => ?_, fun s hs' => ?_,
      fun s c' f tl hq => ?_, fun s l1 c1 f1 c2 f2 l2 hq => ?_, fun s l1 c1 f1 c2 f2 l2 hq => ?_⟩
    · rw [hsq]; split
      · rename_i hsc; subst hsc
        refine List.pairwise_append.mpr ⟨h.t1 _, by simp, ?_⟩
        intro x hx y hy; simp at hy; subst hy
        exact le_trans (h.t2 _ x hx) hTge
      · exact h.t1 s
    · rw [hsq] at hx; rw [hfin]; split at hx
      · rename_i hsc; simp only [hsc, if_true]
        simp only [List.mem_append, List.mem_singleton] at hx
        rcases hx with hx | hx
        · exact le_trans (h.t2 _ x (hsc ▸ hx)) hTge
        · subst hx; exact le_refl _
      · rename_i hsc; simp only [hsc, if_false]; exact h.t2 s x hx
    · rw [hsq] at hl; rw [hfin]; split at hl
      · rename_i hsc; simp only [hsc, if_true]
        obtain ⟨_, h2⟩ := List.append_inj' hl rfl
        simp at h2; rw [← h2]
      · rename_i hsc; simp only [hsc, if_false]; exact h.t2l s l x hl
    · rw [hsq] at hs'; split at hs'
      · simp at hs'
      · rename_i hsc; rw [hfin, hv]; simp only [hsc, if_false]; exact h.t3 s hs'
    · rw [hwt', hv]; rw [hsq] at hq; split at hq
      · rename_i hsc; subst hsc
        cases hq0 : w.sq c.sid with
        | nil =>
          rw [hq0] at hq; simp at hq
          obtain ⟨⟨rfl, rfl⟩, _⟩ := hq
          have := h.t3 _ hq0
          rw [hT, max_eq_left this]; linarith
        | cons hd tl0 =>
          rw [hq0] at hq; simp at hq
          exact h.a _ c' f tl0 (by rw [hq0, hq.1])
      · exact h.a s c' f tl hq
    · rw [hwt', hv]; rw [hsq] at hq; split at hq
      · rename_i hsc; subst hsc
        rcases last_of_append_cons hq with ⟨_, hx, hl⟩ | ⟨l2', _, hl⟩
        · simp only [Prod.mk.injEq] at hx
          obtain ⟨rfl, rfl⟩ := hx
          have hf1 := h.t2l _ _ _ hl
          simp only at hf1
          rw [hT, hf1, max_comm]; linarith
        · exact h.cu _ l1 c1 f1 c2 f2 l2' hl
      · exact h.cu s l1 c1 f1 c2 f2 l2 hq
    · rw [hwt']; rw [hsq] at hq; split at hq
      · rename_i hsc; subst hsc
        rcases last_of_append_cons hq with ⟨_, hx, hl⟩ | ⟨l2', _, hl⟩
        · simp only [Prod.mk.injEq] at hx
          obtain ⟨rfl, rfl⟩ := hx
          have hf1 := h.t2l _ _ _ hl
          simp only at hf1
          have := le_max_right w.vtime (w.fin c.sid)
          rw [hT, ← hf1]; linarith
        · exact h.cl _ l1 c1 f1 c2 f2 l2' hl
      · exact h.cl s l1 c1 f1 c2 f2 l2 hq
  | pop =>
    rcases hs with ⟨_, hsq, hfin, hv, _⟩ | ⟨s0, c, f, tl, hq0, _, _, _, _, hsq, hfin, hv, _⟩
    · exact same hsq hfin hv
    · have hVle : w.vtime ≤ w'.vtime := by rw [hv]; exact le_max_left _ _
      refine ⟨le_trans h.v0 hVle, fun s => ?_, fun s x hx => ?_, fun s l x hl => ?_, fun s hs' => ?_,
        fun s c' f' tl' hq => ?_, fun s l1 c1 f1 c2 f2 l2 hq => ?_, fun s l1 c1 f1 c2 f2 l2 hq => ?_⟩
      · rw [hsq]; split
        · rename_i hsc; subst hsc
          have := h.t1 s; rw [hq0] at this; exact (List.pairwise_cons.mp this).2
        · exact h.t1 s
      · rw [hfin]; rw [hsq] at hx; split at hx
        · rename_i hsc; subst hsc; exact h.t2 s x (by rw [hq0]; simp [hx])
        · exact h.t2 s x hx
      · rw [hfin]; rw [hsq] at hl; split at hl
        · rename_i hsc; subst hsc; exact h.t2l s ((c, f) :: l) x (by rw [hq0, hl]; simp)
        · exact h.t2l s l x hl
      · rw [hfin]; rw [hsq] at hs'; split at hs'
        · rename_i hsc; subst hsc
          have := h.t2l s [] (c, f) (by rw [hq0, hs']; simp)
          rw [this, hv]; exact le_max_right _ _
        · exact le_trans (h.t3 s hs') hVle
      · rw [hwt']; rw [hsq] at hq; split at hq
        · rename_i hsc; subst hsc
          have := h.cu s [] c f c' f' tl' (by rw [hq0, hq]; simp)
          rw [hv, max_comm]; exact this
        · exact le_trans (h.a s c' f' tl' hq) hVle
      · rw [hwt']; rw [hsq] at hq; split at hq
        · rename_i hsc; subst hsc
          have := h.cu s ((c, f) :: l1) c1 f1 c2 f2 l2 (by rw [hq0, hq]; simp)
          exact le_trans this (max_le_max (le_refl _) hVle)
        · exact le_trans (h.cu s l1 c1 f1 c2 f2 l2 hq) (max_le_max (le_refl _) hVle)
      · rw [hwt']; rw [hsq] at hq; split at hq
        · rename_i hsc; subst hsc
          exact h.cl s ((c, f) :: l1) c1 f1 c2 f2 l2 (by rw [hq0, hq]; simp)
        · exact h.cl s l1 c1 f1 c2 f2 l2 hq

end WFQ
end PendQ
