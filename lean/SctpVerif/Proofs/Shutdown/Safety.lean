import SctpVerif.Proofs.Shutdown.State
/-!
What the system invariant of the shutdown model `Sd` gives in any state that satisfies it (the property
theorems in Props/C08 instantiate these at the states reachable by arbitrary operation lists).
-/
namespace Sd

/-- **Shutdown returned nil ⇒ everything was delivered first, in order, before closure.**
In every reachable state (every interleaving, every fault pattern, every choice of what the write loop sends):
if the Shutdown call of side `x` has returned nil and the transport under `x` did not fail, then
(1) no message was accepted after the call, (2) every message `x` ever accepted has been handed to the peer's
streams (it sits complete in a reassembly queue or has been read), (3) what the peer has read from each stream is
a prefix, in order, of what `x` wrote to that stream, and (4) every stream of the peer on which closure has been
reported had delivered ALL messages written to it before. -/
theorem delivered_of_inv (s : Sys) (inv : SysInv s) (x : Bool) :
    (s.ep x).sd = 2 →
      (s.ep x).snd.wlog.length = (s.ep x).callAt ∧
      (∀ w ∈ (s.ep x).snd.wlog, Got (s.ep (!x)).rcv w) ∧
      (∀ sid, (s.ep (!x)).rcv.readOn sid =
        ((onStream (s.ep x).snd.wlog sid).take ((s.ep (!x)).rcv.readOn sid).length).map (·.1)) ∧
      (∀ sid k, (sid, k) ∈ (s.ep (!x)).rcv.eofs →
        (s.ep (!x)).rcv.readOn sid = (onStream (s.ep x).snd.wlog sid).map (·.1)) := by
  intro hsd
  obtain ⟨hme, hl⟩ := inv x
  have hpeer := (inv (!x)).1
  have hD : Drained (s.ep x).snd := hme.ctl.sdRet hsd
  have hpl : (s.ep (!x)).rcv.pl = (s.ep x).snd.sentq.length := by
    have h1 := hl.cumLe
    have h2 := hl.rel.plLe
    have h3 := hD.2
    omega
  have hall : ∀ w ∈ (s.ep x).snd.wlog, Got (s.ep (!x)).rcv w := by
    intro w hw
    have hin : w ∈ (s.ep x).snd.sentq := by
      rcases hme.snd.wlogIn w hw with h | h
      · exact h
      · rw [hD.1] at h; cases h
    obtain ⟨t, ht, hget⟩ := List.getElem_of_mem hin
    obtain ⟨c, hc, hg⟩ := hl.rel.got t (Or.inl (by rw [hpl]; exact ht))
    rw [List.getElem?_eq_getElem ht, hget] at hc
    cases hc
    exact hg
  have hpre : ∀ sid, (s.ep (!x)).rcv.readOn sid =
      ((onStream (s.ep x).snd.wlog sid).take ((s.ep (!x)).rcv.readOn sid).length).map (·.1) := by
    intro sid
    rw [readOn_length, readOn_eq]
    exact congrArg (List.map (·.1)) (hl.pre sid)
  refine ⟨(hme.ctl.sdGate (by rw [hsd]; decide)).2, hall, hpre, ?_⟩
  intro sid k hk
  obtain ⟨-, hk2, hk3⟩ := hpeer.eof sid k hk
  have hR := hl.pre sid
  -- all of the stream was read: otherwise the next message is neither in the queue nor among the reads
  have hlen : (onStream (s.ep (!x)).rcv.rlog sid).length = (onStream (s.ep x).snd.wlog sid).length := by
    have hle : (onStream (s.ep (!x)).rcv.rlog sid).length ≤ (onStream (s.ep x).snd.wlog sid).length := by
      have := congrArg List.length hR
      simp only [List.length_take] at this
      omega
    rcases Nat.lt_or_ge (onStream (s.ep (!x)).rcv.rlog sid).length (onStream (s.ep x).snd.wlog sid).length with hlt | hge
    · exfalso
      let c := (onStream (s.ep x).snd.wlog sid)[(onStream (s.ep (!x)).rcv.rlog sid).length]'hlt
      have hcW : c ∈ onStream (s.ep x).snd.wlog sid := List.getElem_mem hlt
      have hcw : c ∈ (s.ep x).snd.wlog := (List.mem_filter.1 hcW).1
      have hcs : c.2.1 = sid := by simpa using (List.mem_filter.1 hcW).2
      have hck : c.2.2 = (onStream (s.ep (!x)).rcv.rlog sid).length := by
        have h1 := hme.snd.wlogOk sid
        have h2 : ((onStream (s.ep x).snd.wlog sid).map (·.2.2))[(onStream (s.ep (!x)).rcv.rlog sid).length]'(by simpa using hlt)
            = (onStream (s.ep (!x)).rcv.rlog sid).length := by
          simp only [h1, List.getElem_range]
        simpa using h2
      rcases hall c hcw with hst | hrl
      · exact hk3 c hst ⟨hcs, by rw [hck, hk2, readOn_length]⟩
      · have hcR : c ∈ onStream (s.ep (!x)).rcv.rlog sid := List.mem_filter.2 ⟨hrl, by simp [hcs]⟩
        rw [hR] at hcR
        obtain ⟨j, hj, hget⟩ := List.getElem_of_mem hcR
        simp only [List.length_take] at hj
        have hjW : j < (onStream (s.ep x).snd.wlog sid).length := by omega
        rw [List.getElem_take] at hget
        have h1 := hme.snd.wlogOk sid
        have h2 : ((onStream (s.ep x).snd.wlog sid).map (·.2.2))[j]'(by simpa using hjW) = j := by
          simp only [h1, List.getElem_range]
        simp only [List.getElem_map, hget] at h2
        omega
    · omega
  rw [readOn_eq, hR, hlen, List.take_length]

/-- **Writes (and OpenStream) after Shutdown began are rejected.** In every reachable state in which a Shutdown
call of side `x` has passed its state gate: no message has been accepted since, a write on any stream is
rejected and queues nothing, and OpenStream is refused. -/
theorem no_write_of_inv (s : Sys) (inv : SysInv s) (x : Bool) (sid : Nat)
    (hr : (s.ep x).st = 0 ∨ (s.ep x).st = 3 ∨ (s.ep x).st = 4 ∨ (s.ep x).st = 5 ∨ (s.ep x).st = 6 ∨ (s.ep x).st = 7) :
    (s.ep x).sd ≠ 0 →
      (s.ep x).snd.wlog.length = (s.ep x).callAt ∧
      (write (s.ep x) sid).2 = false ∧
      (write (s.ep x) sid).1.snd.wlog = (s.ep x).snd.wlog ∧ (write (s.ep x) sid).1.snd.pend = (s.ep x).snd.pend ∧
      openOk (s.ep x) = false := by
  intro hsd
  obtain ⟨hne, hlen⟩ := (inv x).1.ctl.sdGate hsd
  have hne' : ((s.ep x).st == stEstablished) = false := by simpa using hne
  refine ⟨hlen, by simp [write, hne'], by simp [write, hne'], by simp [write, hne'], ?_⟩
  simp only [stEstablished] at hne
  have : (s.ep x).st = 0 ∨ (s.ep x).st = 4 ∨ (s.ep x).st = 5 ∨ (s.ep x).st = 6 ∨ (s.ep x).st = 7 := by
    omega
  simp only [openOk, stShutdownAckSent, stShutdownPending, stShutdownReceived, stShutdownSent, stClosed]
  rcases this with h | h | h | h | h <;> simp [h]

/-! ### a dead endpoint -/
/-- what cannot change any more once the loops of an endpoint are gone -/
def deadCore (e : Ep) : Bool × Nat × Nat × Bool × List Msg × List Msg × List Msg × Nat × Nat × List Nat :=
  (e.dead, e.st, e.sd, e.scr, e.snd.wlog, e.snd.pend, e.snd.sentq, e.snd.cum, e.rcv.pl, e.rcv.rq)

theorem drain_got (n : Nat) (r : Rcv) (s : Nat) : ∀ c, Got r c → Got (drain n r s) c := by
  induction n generalizing r with
  | zero => intro c hc; exact hc
  | succ n ih =>
    simp only [drain]
    split
    · intro c hc; exact hc
    · rename_i c0 hf
      intro c hc
      apply ih
      rcases hc with hc | hc
      · by_cases hcc : c = c0
        · right; simp [hcc]
        · left; exact (List.mem_erase_of_ne hcc).2 hc
      · right; exact List.mem_append_left _ hc

theorem read_got (e : Ep) (sid : Nat) : ∀ c, Got e.rcv c → Got (read e sid).rcv c := by
  intro c hc
  have := drain_got e.rcv.store.length e.rcv sid c hc
  simp only [read]
  split <;> exact this

theorem read_deadCore (e : Ep) (sid : Nat) : deadCore (read e sid) = deadCore e := by
  have := drain_pl e.rcv.store.length e.rcv sid
  simp only [deadCore, read]
  split <;> simp [this.1, this.2]

/-- a dead endpoint stays exactly as it is (apart from its readers draining what was delivered and the count of
refused writes), whatever operation comes next, and puts nothing on the wire -/
theorem dead_step (s : Sys) (inv : SysInv s) (x : Bool) (op : Op) (hd : (s.ep x).dead = true) :
    deadCore ((s.step op).ep x) = deadCore (s.ep x) ∧ (s.step op).hist x = s.hist x ∧
      (∀ c, Got (s.ep x).rcv c → Got ((s.step op).ep x).rcv c) := by
  have hst : (s.ep x).st = 0 := (inv x).1.ctl.deadSt.1 hd
  have hput : ∀ (y : Bool) (e' : Ep) (o : List Pkt),
      (y = x → deadCore e' = deadCore (s.ep x) ∧ o = [] ∧ ∀ c, Got (s.ep x).rcv c → Got e'.rcv c) →
      deadCore ((s.put y e' o).ep x) = deadCore (s.ep x) ∧ (s.put y e' o).hist x = s.hist x ∧
        (∀ c, Got (s.ep x).rcv c → Got ((s.put y e' o).ep x).rcv c) := by
    intro y e' o h
    by_cases hy : y = x
    · subst hy
      obtain ⟨h1, h2, h3⟩ := h rfl
      subst h2
      simp only [put_ep_same, put_hist_same]
      exact ⟨h1, by simp, h3⟩
    · have : x = !y := by cases x <;> cases y <;> simp_all
      subst this
      rw [put_ep_other, put_hist_other]
      exact ⟨rfl, rfl, fun c hc => hc⟩
  cases op with
  | write y sid =>
    refine hput y _ _ (fun hy => ?_)
    subst hy
    refine ⟨?_, rfl, fun c hc => ?_⟩
    · simp [deadCore, write, hst, stEstablished]
    · have : (write (s.ep y) sid).1.rcv = (s.ep y).rcv := by simp [write, hst, stEstablished]
      rw [this]; exact hc
  | shutdown y =>
    refine hput y _ _ (fun hy => ?_)
    subst hy
    have : (shutdownCall (s.ep y)).1 = s.ep y := by simp [shutdownCall, hst, stEstablished]
    rw [this]; exact ⟨rfl, rfl, fun c hc => hc⟩
  | gather y d =>
    refine hput y _ _ (fun hy => ?_)
    subst hy
    have : writeLoopPass (s.ep y) d = (s.ep y, []) := by simp [writeLoopPass, hd]
    rw [this]; exact ⟨rfl, rfl, fun c hc => hc⟩
  | deliver y i =>
    simp only [Sys.step]
    split
    · exact ⟨rfl, rfl, fun c hc => hc⟩
    · split
      · exact ⟨rfl, rfl, fun c hc => hc⟩
      · rename_i hnd
        refine hput (!y) _ _ (fun hy => ?_)
        rw [hy, hd] at hnd
        exact absurd rfl hnd
  | t2 y =>
    refine hput y _ _ (fun hy => ?_)
    subst hy
    have hr : (t2Fire (s.ep y)).rcv = (s.ep y).rcv := by simp only [t2Fire]; (repeat' split) <;> rfl
    have hc := t2Fire_core (s.ep y)
    simp only [ctlCore, Prod.mk.injEq] at hc
    obtain ⟨c1, c2, -, -, c5, c6, c7, -⟩ := hc
    exact ⟨by simp only [deadCore, c1, c2, c5, c6, c7, hr], rfl, fun c h => by rw [hr]; exact h⟩
  | t3 y => exact ⟨rfl, rfl, fun c hc => hc⟩
  | ackt y =>
    refine hput y _ _ (fun hy => ?_)
    subst hy
    have : ackFire (s.ep y) = s.ep y := by simp [ackFire, hd]
    rw [this]; exact ⟨rfl, rfl, fun c hc => hc⟩
  | read y sid =>
    refine hput y _ _ (fun hy => ?_)
    subst hy
    exact ⟨read_deadCore _ _, rfl, read_got _ _⟩
  | closeConn y =>
    refine hput y _ _ (fun hy => ?_)
    subst hy
    have : closeConn (s.ep y) = s.ep y := by simp [closeConn, hd]
    rw [this]; exact ⟨rfl, rfl, fun c hc => hc⟩
  | closeApi y =>
    refine hput y _ _ (fun hy => ?_)
    subst hy
    have : closeApi (s.ep y) = s.ep y := by simp [closeApi, hd]
    rw [this]; exact ⟨rfl, rfl, fun c hc => hc⟩
  | abort y =>
    refine hput y _ _ (fun hy => ?_)
    subst hy
    exact ⟨rfl, rfl, fun c hc => hc⟩

/-! ### delivering any packet ever sent -/
theorem rcvData_rlog (r : Rcv) (can : Bool) (t m s k : Nat) : (rcvData r can t m s k).rlog = r.rlog := by
  cases can <;> rfl

theorem handleChunk_rlog (e : Ep) (ch : Chunk) : (handleChunk e ch).rcv.rlog = e.rcv.rlog ∧ (handleChunk e ch).rcv.eofs = e.rcv.eofs := by
  cases ch with
  | data t m s k =>
    show (handleData e t m s k).rcv.rlog = _ ∧ (handleData e t m s k).rcv.eofs = _
    rcases handleData_rcv e t m s k with h | ⟨can, h⟩ <;> rw [h]
    · exact ⟨rfl, rfl⟩
    · exact ⟨rcvData_rlog _ _ _ _ _ _, rcvData_eofs _ _ _ _ _ _⟩
  | sack c g => show (handleSack e c g).rcv.rlog = _ ∧ (handleSack e c g).rcv.eofs = _; rw [handleSack_rcv]; exact ⟨rfl, rfl⟩
  | shutdown c => show (handleShutdown e c).rcv.rlog = _ ∧ (handleShutdown e c).rcv.eofs = _; rw [handleShutdown_rcv]; exact ⟨rfl, rfl⟩
  | shutdownAck => show (handleShutdownAck e).rcv.rlog = _ ∧ (handleShutdownAck e).rcv.eofs = _; rw [handleShutdownAck_rcv]; exact ⟨rfl, rfl⟩
  | shutdownComplete =>
    show (handleShutdownComplete e).rcv.rlog = _ ∧ (handleShutdownComplete e).rcv.eofs = _
    rw [handleShutdownComplete_rcv]; exact ⟨rfl, rfl⟩
  | abort => exact ⟨rfl, rfl⟩

theorem handlePkt_rlog (e : Ep) (p : Pkt) : (handlePkt e p).rcv.rlog = e.rcv.rlog ∧ (handlePkt e p).rcv.eofs = e.rcv.eofs := by
  have hf : ∀ (p : Pkt) (e : Ep), (p.foldl handleChunk e).rcv.rlog = e.rcv.rlog ∧ (p.foldl handleChunk e).rcv.eofs = e.rcv.eofs := by
    intro p
    induction p with
    | nil => intro e; exact ⟨rfl, rfl⟩
    | cons ch rest ih =>
      intro e
      have h1 := handleChunk_rlog e ch
      have h2 := ih (handleChunk e ch)
      exact ⟨h2.1.trans h1.1, h2.2.trans h1.2⟩
  simp only [handlePkt, chunksEnd_rcv]
  exact hf p _

/-- delivering ANY packet ever sent (duplicate, reordered, stale) to the other side never takes away what was
delivered to its streams, changes nothing its readers have seen, and moves no endpoint back to ESTABLISHED -/
theorem deliver_harmless (s : Sys) (inv : SysInv s) (x : Bool) (i : Nat) :
    (∀ c, Got (s.ep (!x)).rcv c → Got ((s.step (.deliver x i)).ep (!x)).rcv c) ∧
    ((s.step (.deliver x i)).ep (!x)).rcv.rlog = (s.ep (!x)).rcv.rlog ∧
    ((s.step (.deliver x i)).ep (!x)).rcv.eofs = (s.ep (!x)).rcv.eofs ∧
    (s.step (.deliver x i)).ep x = s.ep x ∧ (s.step (.deliver x i)).hist x = s.hist x ∧
    (s.step (.deliver x i)).hist (!x) = s.hist (!x) := by
  simp only [Sys.step]
  split
  · exact ⟨fun c hc => hc, rfl, rfl, rfl, rfl, rfl⟩
  · rename_i p hp
    split
    · exact ⟨fun c hc => hc, rfl, rfl, rfl, rfl, rfl⟩
    · have hmem : p ∈ (s.hist x).toList := by
        have := Array.mem_of_getElem? hp
        simpa using this
      have hx := (inv x).2
      have hr := handlePkt_rcvStep (s.ep (!x)) p (s.ep x).snd.sentq (s.ep x).snd.wlog hx.rel hx.pre (hx.data p hmem)
      have hl := handlePkt_rlog (s.ep (!x)) p
      refine ⟨by simpa using hr.got, by simpa using hl.1, by simpa using hl.2, ?_, ?_, ?_⟩
      · have := put_ep_other s (!x) (handlePkt (s.ep (!x)) p) []
        simpa using this
      · have := put_hist_other s (!x) (handlePkt (s.ep (!x)) p) []
        simpa using this
      · simp

theorem closed_of_inv (s : Sys) (inv : SysInv s) (x : Bool) (op : Op) (hd : (s.ep x).dead = true) :
    ((s.step op).ep x).dead = true ∧ ((s.step op).ep x).st = stClosed ∧ ((s.step op).ep x).sd = (s.ep x).sd ∧
    ((s.step op).ep x).snd.wlog = (s.ep x).snd.wlog ∧ ((s.step op).ep x).snd.sentq = (s.ep x).snd.sentq ∧
    ((s.step op).ep x).snd.cum = (s.ep x).snd.cum ∧ ((s.step op).ep x).rcv.pl = (s.ep x).rcv.pl ∧
    (s.step op).hist x = s.hist x ∧ (∀ c, Got (s.ep x).rcv c → Got ((s.step op).ep x).rcv c) := by
  obtain ⟨h1, h2, h3⟩ := dead_step _ inv x op hd
  have hst := (inv x).1.ctl.deadSt.1 hd
  simp only [deadCore, Prod.mk.injEq] at h1
  obtain ⟨c1, c2, c3, -, c5, -, c7, c8, c9, -⟩ := h1
  exact ⟨c1.trans hd, c2.trans hst, c3, c5, c7, c8, c9, h2, h3⟩

theorem stale_of_inv (s : Sys) (inv : SysInv s) (x : Bool) (i : Nat) :
    (∀ c, Got (s.ep (!x)).rcv c → Got ((s.step (.deliver x i)).ep (!x)).rcv c) ∧
    ((s.step (.deliver x i)).ep (!x)).rcv.rlog = (s.ep (!x)).rcv.rlog ∧
    ((s.step (.deliver x i)).ep (!x)).rcv.eofs = (s.ep (!x)).rcv.eofs ∧
    (s.step (.deliver x i)).ep x = s.ep x ∧ (s.step (.deliver x i)).hist x = s.hist x ∧
    (s.step (.deliver x i)).hist (!x) = s.hist (!x) ∧
    (∀ z, (s.ep z).st ≠ stEstablished → ((s.step (.deliver x i)).ep z).st ≠ stEstablished) ∧
    (∀ z, (s.ep z).st = stClosed → ((s.step (.deliver x i)).ep z).st = stClosed) ∧
    (∀ z, ((s.step (.deliver x i)).ep z).sd = 2 →
      ∀ w ∈ ((s.step (.deliver x i)).ep z).snd.wlog, Got ((s.step (.deliver x i)).ep (!z)).rcv w) := by
  obtain ⟨h1, h2, h3, h4, h5, h6⟩ := deliver_harmless _ inv x i
  refine ⟨h1, h2, h3, h4, h5, h6, ?_, ?_, ?_⟩
  · intro z hz
    have := step_stStep s (.deliver x i) z
    simp only [StStep, stEstablished] at this hz ⊢
    omega
  · intro z hz
    have hd := (inv z).1.ctl.deadSt.2 hz
    have := (dead_step _ inv z (.deliver x i) hd).1
    simp only [deadCore, Prod.mk.injEq] at this
    exact this.2.1.trans hz
  · intro z hz
    exact (delivered_of_inv _ (step_inv _ (.deliver x i) inv) z hz).2.1

/-! ### a Shutdown call that is interrupted -/
theorem interrupted_of_inv (s : Sys) (inv : SysInv s) (x : Bool) (d : List (List (Nat × Nat)))
    (hsd : (s.ep x).sd = 1) (hscp : (s.ep x).scp = false) :
    ((s.step (.closeConn x)).ep x).sd = 3 ∧ ((s.step (.closeApi x)).ep x).sd = 3 ∧
    (((s.step (.abort x)).step (.gather x d)).ep x).sd = 3 ∧
    ((s.step (.abort x)).step (.gather x d)).hist x = s.hist x ++ #[[Chunk.abort]] := by
  have hctl := (inv x).1.ctl
  have hnd : (s.ep x).dead = false := by
    cases hd : (s.ep x).dead
    · rfl
    · exact absurd hsd (hctl.deadSd hd)
  have hscr : (s.ep x).scr = false := by
    cases hr : (s.ep x).scr
    · rfl
    · have := hctl.scrDead hr; rw [hnd] at this; cases this
  refine ⟨?_, ?_, ?_, ?_⟩
  · simp [Sys.step, closeConn, close, hnd, hsd, hscp, hscr]
  · simp [Sys.step, closeApi, close, hnd, hsd, hscp, hscr]
  · simp [Sys.step, abortCall, writeLoopPass, gather, close, hnd, hsd, hscp, hscr]
  · simp [Sys.step, abortCall, writeLoopPass, gather, close, hnd]

end Sd
