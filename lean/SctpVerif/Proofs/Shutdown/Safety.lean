import SctpVerif.Proofs.Shutdown.State
/-!
What the system invariant of the shutdown model `Sd` gives in any state that satisfies it (the property
theorems in Props/C08 instantiate these at the states reachable by arbitrary operation lists).
-/
namespace Sd

/-- **Shutdown returned nil ⇒ everything was delivered first, in order, before closure.**
In every reachable state (every interleaving, every fault pattern, every choice of what the write loop sends):
if the Shutdown call of side `x` has returned nil and the transport under `x` did not fail, then
(1) no message was accepted after the call, (2) every message `x` ever accepted has been handed to the peer's
streams (it sits complete in a reassembly queue or has been read), (3) what the peer has read from each stream is
a prefix, in order, of what `x` wrote to that stream, and (4) every stream of the peer on which closure has been
reported had delivered ALL messages written to it before. -/
theorem delivered_of_inv (s : Sys) (inv : SysInv s) (x : Bool) :
    (s.ep x).sd = 2 → (s.ep x).connFailed = false →
      (s.ep x).snd.wlog.length = (s.ep x).callAt ∧
      (∀ w ∈ (s.ep x).snd.wlog, Got (s.ep (!x)).rcv w) ∧
      (∀ sid, (s.ep (!x)).rcv.readOn sid =
        ((onStream (s.ep x).snd.wlog sid).take ((s.ep (!x)).rcv.readOn sid).length).map (·.1)) ∧
      (∀ sid k, (sid, k) ∈ (s.ep (!x)).rcv.eofs →
        (s.ep (!x)).rcv.readOn sid = (onStream (s.ep x).snd.wlog sid).map (·.1)) := by
  intro hsd hcf
  obtain ⟨hme, hl⟩ := inv x
  have hpeer := (inv (!x)).1
  have hD : Drained (s.ep x).snd := by
    rcases (hme.ctl.sdRet hsd).2 with h | h
    · rw [hcf] at h; cases h
    · exact h
  have hpl : (s.ep (!x)).rcv.pl = (s.ep x).snd.sentq.length := by
    have h1 := hl.cumLe
    have h2 := hl.rel.plLe
    have h3 := hD.2
    omega
  have hall : ∀ w ∈ (s.ep x).snd.wlog, Got (s.ep (!x)).rcv w := by
    intro w hw
    have hin : w ∈ (s.ep x).snd.sentq := by
      rcases hme.snd.wlogIn w hw with h | h
      · exact h
      · rw [hD.1] at h; cases h
    obtain ⟨t, ht, hget⟩ := List.getElem_of_mem hin
    obtain ⟨c, hc, hg⟩ := hl.rel.got t (Or.inl (by rw [hpl]; exact ht))
    rw [List.getElem?_eq_getElem ht, hget] at hc
    cases hc
    exact hg
  have hpre : ∀ sid, (s.ep (!x)).rcv.readOn sid =
      ((onStream (s.ep x).snd.wlog sid).take ((s.ep (!x)).rcv.readOn sid).length).map (·.1) := by
    intro sid
    rw [readOn_length, readOn_eq]
    exact congrArg (List.map (·.1)) (hl.pre sid)
  refine ⟨(hme.ctl.sdGate (by rw [hsd]; decide)).2, hall, hpre, ?_⟩
  intro sid k hk
  obtain ⟨-, hk2, hk3⟩ := hpeer.eof sid k hk
  have hR := hl.pre sid
  -- all of the stream was read: otherwise the next message is neither in the queue nor among the reads
  have hlen : (onStream (s.ep (!x)).rcv.rlog sid).length = (onStream (s.ep x).snd.wlog sid).length := by
    have hle : (onStream (s.ep (!x)).rcv.rlog sid).length ≤ (onStream (s.ep x).snd.wlog sid).length := by
      have := congrArg List.length hR
      simp only [List.length_take] at this
      omega
    rcases Nat.lt_or_ge (onStream (s.ep (!x)).rcv.rlog sid).length (onStream (s.ep x).snd.wlog sid).length with hlt | hge
    · exfalso
      let c := (onStream (s.ep x).snd.wlog sid)[(onStream (s.ep (!x)).rcv.rlog sid).length]'hlt
      have hcW : c ∈ onStream (s.ep x).snd.wlog sid := List.getElem_mem hlt
      have hcw : c ∈ (s.ep x).snd.wlog := (List.mem_filter.1 hcW).1
      have hcs : c.2.1 = sid := by simpa using (List.mem_filter.1 hcW).2
      have hck : c.2.2 = (onStream (s.ep (!x)).rcv.rlog sid).length := by
        have h1 := hme.snd.wlogOk sid
        have h2 : ((onStream (s.ep x).snd.wlog sid).map (·.2.2))[(onStream (s.ep (!x)).rcv.rlog sid).length]'(by simpa using hlt)
            = (onStream (s.ep (!x)).rcv.rlog sid).length := by
          simp only [h1, List.getElem_range]
        simpa using h2
      rcases hall c hcw with hst | hrl
      · exact hk3 c hst ⟨hcs, by rw [hck, hk2, readOn_length]⟩
      · have hcR : c ∈ onStream (s.ep (!x)).rcv.rlog sid := List.mem_filter.2 ⟨hrl, by simp [hcs]⟩
        rw [hR] at hcR
        obtain ⟨j, hj, hget⟩ := List.getElem_of_mem hcR
        simp only [List.length_take] at hj
        have hjW : j < (onStream (s.ep x).snd.wlog sid).length := by omega
        rw [List.getElem_take] at hget
        have h1 := hme.snd.wlogOk sid
        have h2 : ((onStream (s.ep x).snd.wlog sid).map (·.2.2))[j]'(by simpa using hjW) = j := by
          simp only [h1, List.getElem_range]
        simp only [List.getElem_map, hget] at h2
        omega
    · omega
  rw [readOn_eq, hR, hlen, List.take_length]

/-- **Writes (and OpenStream) after Shutdown began are rejected.** In every reachable state in which a Shutdown
call of side `x` has passed its state gate: no message has been accepted since, a write on any stream is
rejected and queues nothing, and OpenStream is refused. -/
theorem no_write_of_inv (s : Sys) (inv : SysInv s) (x : Bool) (sid : Nat)
    (hr : (s.ep x).st = 0 ∨ (s.ep x).st = 3 ∨ (s.ep x).st = 4 ∨ (s.ep x).st = 5 ∨ (s.ep x).st = 6 ∨ (s.ep x).st = 7) :
    (s.ep x).sd ≠ 0 →
      (s.ep x).snd.wlog.length = (s.ep x).callAt ∧
      (write (s.ep x) sid).2 = false ∧
      (write (s.ep x) sid).1.snd.wlog = (s.ep x).snd.wlog ∧ (write (s.ep x) sid).1.snd.pend = (s.ep x).snd.pend ∧
      openOk (s.ep x) = false := by
  intro hsd
  obtain ⟨hne, hlen⟩ := (inv x).1.ctl.sdGate hsd
  have hne' : ((s.ep x).st == stEstablished) = false := by simpa using hne
  refine ⟨hlen, by simp [write, hne'], by simp [write, hne'], by simp [write, hne'], ?_⟩
  simp only [stEstablished] at hne
  have : (s.ep x).st = 0 ∨ (s.ep x).st = 4 ∨ (s.ep x).st = 5 ∨ (s.ep x).st = 6 ∨ (s.ep x).st = 7 := by
    omega
  simp only [openOk, stShutdownAckSent, stShutdownPending, stShutdownReceived, stShutdownSent, stClosed]
  rcases this with h | h | h | h | h <;> simp [h]

end Sd
