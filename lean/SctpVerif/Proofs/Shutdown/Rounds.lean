import SctpVerif.Proofs.Shutdown.Live
/-!
An explicit schedule of the shutdown model `Sd` for EVERY message count `n`: side A writes `n` messages, calls
Shutdown with all of them still queued (SHUTDOWN-PENDING), and the data drains one message per round trip under
the shutdown; by induction on the rounds the system reaches the `Ready` state from which the explicit shutdown
sequences of Live.lean run.
-/
namespace Sd

/-- the `n` messages written on stream 0: (id, stream, sequence number) -/
def M (n : Nat) : List Msg := (List.range n).map (fun i => (i, 0, i))

theorem M_length (n : Nat) : (M n).length = n := by simp [M]
theorem M_succ (n : Nat) : M (n + 1) = M n ++ [(n, 0, n)] := by simp [M, List.range_succ]
theorem M_getElem (n j : Nat) (h : j < (M n).length) : (M n)[j] = (j, 0, j) := by simp [M]
theorem M_drop (n j : Nat) (h : j < n) : (M n).drop j = (j, 0, j) :: (M n).drop (j + 1) := by
  rw [List.drop_eq_getElem_cons (by rw [M_length]; exact h), M_getElem]
theorem M_take (n j : Nat) (h : j < n) : (M n).take (j + 1) = (M n).take j ++ [(j, 0, j)] := by
  rw [List.take_succ_eq_append_getElem (by rw [M_length]; exact h), M_getElem]
theorem M_take_length (n j : Nat) (h : j ≤ n) : ((M n).take j).length = j := by
  simp [M_length, Nat.min_eq_left h]
theorem M_onStream (n : Nat) : (M n).filter (fun w => w.2.1 == 0) = M n := by
  simp only [M, List.filter_map, Function.comp_def]
  congr 1
  exact List.filter_eq_self.2 (fun _ _ => rfl)

theorem maxOff_pos : 0 < maxOff := by decide

/-- after `k` writes on stream 0 -/
def formW (k : Nat) : Sys := { a := { snd := { attempts := k, wlog := M k, pend := M k } } }

def writes (n : Nat) : List Op := List.replicate n (.write false 0)

theorem run_append (s : Sys) (l1 l2 : List Op) : s.run (l1 ++ l2) = (s.run l1).run l2 := by
  simp [Sys.run, List.foldl_append]

theorem run_writes (n : Nat) : Sys.init.run (writes n) = formW n := by
  induction n with
  | zero => rfl
  | succ n ih =>
    have : writes (n + 1) = writes n ++ [.write false 0] := by simp [writes, List.replicate_succ']
    rw [this, run_append, ih]
    simp [Sys.run, Sys.step, Sys.ep, Sys.put, formW, write, Ep.nextSsn, M_onStream, M_length, M_succ, stEstablished]

/-- after the `n` writes, the Shutdown call and `j` rounds -/
def formR (n j : Nat) : Sys :=
  { a := { st := if j < n then stShutdownPending else stShutdownSent, wS := decide (n ≤ j), sd := 1, callAt := n,
           snd := { attempts := n, wlog := M n, pend := (M n).drop j, sentq := (M n).take j, cum := j } },
    b := { del := decide (0 < j), rcv := { pl := j, store := (M n).take j } },
    ha := ((List.range j).map (fun i => [Chunk.data i i 0 i])).toArray,
    hb := ((List.range j).map (fun i => [Chunk.sack (i + 1) []])).toArray }

theorem shutdown_formW (n : Nat) : (formW n).step (.shutdown false) = formR n 0 := by
  cases n with
  | zero => simp [Sys.step, Sys.ep, Sys.put, formW, formR, shutdownCall, Ep.hasData, M, stEstablished]
  | succ n =>
    simp [Sys.step, Sys.ep, Sys.put, formW, formR, shutdownCall, Ep.hasData, M_length, stEstablished, M_succ]

/-- one round: the next message goes out, arrives, is acknowledged after the delayed-ack timer, the SACK arrives -/
def round (j : Nat) : List Op :=
  [.gather false [[(j, j)]], .deliver false j, .ackt true, .gather true [], .deliver true j]

theorem step_ackt_b (a b : Ep) (ha hb : Array Pkt) : Sys.step ⟨a, b, ha, hb⟩ (.ackt true) = ⟨a, ackFire b, ha, hb⟩ := by
  simp [Sys.step, Sys.ep, Sys.put]

theorem range_hist_size (j : Nat) (f : Nat → Pkt) : ((List.range j).map f).toArray.size = j := by simp

theorem round_step (n j : Nat) (hj : j < n) : (formR n j).run (round j) = formR n (j + 1) := by
  have hnj : ¬ n ≤ j := by omega
  simp only [round, formR, hj, if_true, hnj, decide_false]
  -- 1: A's write loop sends message j (state SHUTDOWN-PENDING)
  rw [run_cons, step_gather_a _ _ _ _ _
    { st := stShutdownPending, sd := 1, callAt := n,
      snd := { attempts := n, wlog := M n, pend := (M n).drop (j + 1), sentq := (M n).take (j + 1), cum := j } }
    [[Chunk.data j j 0 j]] ?_]
  rotate_left
  · simp [writeLoopPass, gather, gatherPrio, gatherState, gatherShut, gatherSack, sendData, sendPkt, sendOne, advance, Ep.hasData,
      M_take_length n j (Nat.le_of_lt hj), M_drop n j hj, M_take n j hj, ackImmediate, ackIdle,
      stShutdownSent, stShutdownAckSent, stEstablished, stShutdownPending, stShutdownReceived]
  -- 2: it reaches B
  rw [run_cons, step_deliver_a _ _ _ _ j [Chunk.data j j 0 j] ?_ rfl]
  rotate_left
  · have := hist_get0 ((List.range j).map (fun i => [Chunk.data i i 0 i])).toArray [Chunk.data j j 0 j]
    rw [range_hist_size] at this
    exact this
  have hB : handlePkt { del := decide (0 < j), rcv := { pl := j, store := (M n).take j } } [Chunk.data j j 0 j] =
      { del := true, ack := ackDelay, rcv := { pl := j + 1, store := (M n).take (j + 1) } } := by
    have hmo := maxOff_pos
    have h1 : ¬ j + maxOff ≤ j := by omega
    simp [handlePkt, handleChunk, handleData, chunksEnd, rcvData, Ep.canPush, popLoop, h1, M_take n j hj, ackIdle, ackDelay,
      stEstablished, stShutdownPending, stShutdownSent]
  rw [hB]
  -- 3: the delayed-ack timer of B expires
  rw [run_cons, step_ackt_b]
  have hA : ackFire { del := true, ack := ackDelay, rcv := { pl := j + 1, store := (M n).take (j + 1) } } =
      { del := true, ack := ackImmediate, rcv := { pl := j + 1, store := (M n).take (j + 1) } } := by
    simp [ackFire, ackDelay, ackImmediate]
  rw [hA]
  -- 4: B's write loop sends the SACK
  rw [run_cons, step_gather_b _ _ _ _ _
    { del := true, ack := ackIdle, rcv := { pl := j + 1, store := (M n).take (j + 1) } } [[Chunk.sack (j + 1) []]] ?_]
  rotate_left
  · simp [writeLoopPass, gather, gatherPrio, gatherState, gatherSack, sendData, Ep.sackChunk, sortNat, runs,
      ackImmediate, ackIdle, stShutdownSent, stShutdownAckSent, stEstablished]
  -- 5: it reaches A
  rw [run_cons, step_deliver_b _ _ _ _ j [Chunk.sack (j + 1) []] ?_ rfl]
  rotate_left
  · have := hist_get0 ((List.range j).map (fun i => [Chunk.sack (i + 1) []])).toArray [Chunk.sack (j + 1) []]
    rw [range_hist_size] at this
    exact this
  rw [run_nil]
  have hlen := M_take_length n (j + 1) hj
  have hS : handlePkt
      { st := stShutdownPending, sd := 1, callAt := n,
        snd := { attempts := n, wlog := M n, pend := (M n).drop (j + 1), sentq := (M n).take (j + 1), cum := j } }
      [Chunk.sack (j + 1) []] =
      { st := if j + 1 < n then stShutdownPending else stShutdownSent, wS := decide (n ≤ j + 1), sd := 1, callAt := n,
        snd := { attempts := n, wlog := M n, pend := (M n).drop (j + 1), sentq := (M n).take (j + 1), cum := j + 1 } } := by
    have h0 : ¬ j + 1 < j := by omega
    by_cases hlast : j + 1 < n
    · have hne : (M n).drop (j + 1) ≠ [] := by rw [M_drop n (j + 1) hlast]; simp
      have hnl : ¬ n ≤ j + 1 := by omega
      simp [handlePkt, handleChunk, handleSack, chunksEnd, Ep.inflightHas, hlen, hlast, hne, hnl, h0,
        stEstablished, stShutdownPending, stShutdownReceived]
    · have he : (M n).drop (j + 1) = [] := by
        apply List.drop_eq_nil_of_le; rw [M_length]; omega
      have hnl : n ≤ j + 1 := by omega
      simp [handlePkt, handleChunk, handleSack, chunksEnd, advance, Ep.hasData, Ep.inflightHas, hlen, hlast, he, hnl, h0,
        stEstablished, stShutdownPending, stShutdownReceived, stShutdownSent]
  rw [hS]
  simp [List.range_succ, ackIdle]

/-- rounds 0 … j-1 -/
def rounds (j : Nat) : List Op := (List.range j).flatMap round

theorem run_rounds (n j : Nat) (hj : j ≤ n) : (formR n 0).run (rounds j) = formR n j := by
  induction j with
  | zero => rfl
  | succ j ih =>
    have : rounds (j + 1) = rounds j ++ round j := by simp [rounds, List.range_succ, List.flatMap_append]
    rw [this, run_append, ih (by omega), round_step n j (by omega)]

/-- `n` writes, the Shutdown call with all of them still queued, then the data drains round by round -/
def schedule (n : Nat) : List Op := writes n ++ [.shutdown false] ++ rounds n

theorem run_schedule (n : Nat) : Sys.init.run (schedule n) = formR n n := by
  simp only [schedule]
  rw [run_append, run_append, run_writes]
  show ((formW n).step (.shutdown false)).run (rounds n) = formR n n
  rw [shutdown_formW, run_rounds n n (Nat.le_refl _)]

theorem schedule_then (n : Nat) (tail : List Op) : Sys.init.run (schedule n ++ tail) = (formR n n).run tail := by
  rw [run_append, run_schedule]

theorem formR_ready (n : Nat) : Ready (formR n n) := by
  refine ⟨?_, ?_, rfl, rfl, rfl, rfl, ?_, rfl, rfl, rfl, rfl, rfl, rfl, rfl, rfl, rfl, rfl, rfl, rfl⟩
  · simp [formR]
  · simp [formR]
  · simp [formR, ackIdle, ackImmediate]

theorem formR_sizes (n : Nat) : (formR n n).ha.size = n ∧ (formR n n).hb.size = n := by simp [formR]

/-- the same with the peer calling Shutdown too, once the data has drained -/
theorem formR_readyBoth (n : Nat) : ReadyBoth ((formR n n).step (.shutdown true)) ∧
    ((formR n n).step (.shutdown true)).ha.size = n ∧ ((formR n n).step (.shutdown true)).hb.size = n ∧
    ((formR n n).step (.shutdown true)).a = (formR n n).a ∧ ((formR n n).step (.shutdown true)).b.rcv = (formR n n).b.rcv := by
  have hs : (formR n n).step (.shutdown true) =
      { formR n n with b := { (formR n n).b with st := stShutdownSent, wS := true, sd := 1, callAt := 0 } } := by
    simp [Sys.step, Sys.ep, Sys.put, formR, shutdownCall, Ep.hasData, stEstablished]
  rw [hs]
  refine ⟨⟨?_, ?_, rfl, rfl, rfl, rfl, ?_, rfl, rfl, rfl, rfl, rfl, rfl, rfl, ?_, rfl, rfl, rfl⟩, ?_, ?_, rfl, rfl⟩
  · simp [formR]
  · simp [formR]
  · simp [formR, ackIdle, ackImmediate]
  · simp [formR, ackIdle, ackImmediate]
  · simp [formR]
  · simp [formR]

end Sd
