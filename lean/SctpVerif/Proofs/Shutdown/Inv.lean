import SctpVerif.Proofs.Shutdown.Frame
/-!
Endpoint invariants of the shutdown model `Sd` and their preservation by every endpoint transition.
-/
namespace Sd

attribute [local simp] stClosed stCookieWait stCookieEchoed stEstablished stShutdownAckSent stShutdownPending
  stShutdownReceived stShutdownSent

/-- messages of stream `s`, in order -/
def onStream (l : List Msg) (s : Nat) : List Msg := l.filter (fun w => w.2.1 == s)

/-- the sequence numbers handed out on every stream are 0, 1, 2, … in write order -/
def WlogOk (l : List Msg) : Prop := ∀ s, (onStream l s).map (·.2.2) = List.range (onStream l s).length

/-- nothing queued, nothing in flight -/
def Drained (x : Snd) : Prop := x.pend = [] ∧ x.cum = x.sentq.length

structure SndInv (x : Snd) : Prop where
  cumLe : x.cum ≤ x.sentq.length
  wlogIn : ∀ w ∈ x.wlog, w ∈ x.sentq ∨ w ∈ x.pend
  sentIn : ∀ c ∈ x.sentq, c ∈ x.wlog
  pendIn : ∀ c ∈ x.pend, c ∈ x.wlog
  wlogOk : WlogOk x.wlog

structure CtlInv (e : Ep) : Prop where
  drained : e.st = stShutdownSent ∨ e.st = stShutdownAckSent → Drained e.snd
  scpSt : e.scp = true → e.dead = false → e.st = stShutdownSent ∨ e.st = stShutdownAckSent
  wscScp : e.wSC = true → e.scp = true
  deadSt : e.dead = true ↔ e.st = stClosed
  sdRet : e.sd = 2 → Drained e.snd
  sdGate : e.sd ≠ 0 → e.st ≠ stEstablished ∧ e.snd.wlog.length = e.callAt
  scrDead : e.scr = true → e.dead = true
  sdDead : e.sd = 2 ∨ e.sd = 3 → e.dead = true
  deadSd : e.dead = true → e.sd ≠ 1

/-- SHUTDOWN-ACK or SHUTDOWN-COMPLETE received by a live endpoint: it is drained -/
theorem CtlInv.completed {e : Ep} (h : CtlInv e) (hnd : e.dead = false) (hc : e.scp = true ∨ e.scr = true) : Drained e.snd := by
  rcases hc with hc | hc
  · exact h.drained (h.scpSt hc hnd)
  · have := h.scrDead hc; rw [hnd] at this; cases this

/-- a closure report is only made by a dead endpoint, after everything readable on that stream was read -/
def EofInv (dead : Bool) (r : Rcv) : Prop :=
  ∀ s k, (s, k) ∈ r.eofs → dead = true ∧ k = (r.readOn s).length ∧ ∀ c ∈ r.store, ¬ (c.2.1 = s ∧ c.2.2 = k)

structure EpInv (e : Ep) : Prop where
  snd : SndInv e.snd
  ctl : CtlInv e
  eof : EofInv e.dead e.rcv

theorem hasData_false (e : Ep) (h : SndInv e.snd) (hd : e.hasData = false) : Drained e.snd := by
  simp only [Ep.hasData, Bool.or_eq_false_iff, Bool.not_eq_eq_eq_not, Bool.not_false, List.isEmpty_iff,
    decide_eq_false_iff_not] at hd
  exact ⟨hd.1, by have := h.cumLe; omega⟩

theorem init_inv : EpInv ({} : Ep) := by
  refine ⟨⟨by simp, by simp, by simp, by simp, ?_⟩, ⟨by simp, by simp, by simp, by simp, by simp, by simp, by simp, by simp, by simp⟩, ?_⟩
  · intro s; simp [onStream]
  · intro s k h; simp at h

/-! ### close -/
theorem close_ctl (e : Ep) (h : CtlInv e) (hd : e.sd = 1 → e.scp = true ∨ e.scr = true → Drained e.snd) : CtlInv (close e) := by
  obtain ⟨h1, h2, h3, h4, h5, h6, h7, h8, h9⟩ := h
  refine ⟨by simp [close], by simp [close], h3, by simp [close], ?_, ?_, fun _ => rfl, fun _ => rfl, ?_⟩
  · intro hs
    simp only [close] at hs
    show Drained e.snd
    by_cases h1' : e.sd = 1
    · simp only [h1', beq_self_eq_true, if_true] at hs
      by_cases hc : (e.scp || e.scr) = true
      · exact hd h1' (by simpa using hc)
      · simp [hc] at hs
    · have : e.sd = 2 := by simpa [h1'] using hs
      exact h5 this
  · intro hs
    have : e.sd ≠ 0 := by
      intro h0; apply hs; simp [close, h0]
    exact ⟨by simp [close], (h6 this).2⟩
  · intro _ hs
    simp only [close] at hs
    by_cases h1' : e.sd = 1
    · simp only [h1', beq_self_eq_true, if_true] at hs
      split at hs <;> cases hs
    · simp [h1'] at hs

/-- closing a live endpoint that satisfies the invariant -/
theorem close_ctl_live (e : Ep) (h : CtlInv e) (hnd : e.dead = false) : CtlInv (close e) :=
  close_ctl e h (fun _ hc => h.completed hnd hc)

/-- closing any endpoint that satisfies the invariant (a dead one has no Shutdown call waiting) -/
theorem close_ctl_any (e : Ep) (h : CtlInv e) : CtlInv (close e) := by
  cases hd : e.dead
  · exact close_ctl_live e h hd
  · exact close_ctl e h (fun h1 _ => absurd h1 (h.deadSd hd))

theorem close_eof (e : Ep) (h : EofInv e.dead e.rcv) : EofInv (close e).dead (close e).rcv := by
  intro s k hk
  obtain ⟨-, h2, h3⟩ := h s k hk
  exact ⟨rfl, h2, h3⟩

/-! ### flag-only transitions -/
theorem advance_ctl (e : Ep) (state : Nat) (hs : SndInv e.snd) (h : CtlInv e) (hst : state = e.st) :
    CtlInv (advance e state) := by
  obtain ⟨h1, h2, h3, h4, h5, h6, h7, h8, h9⟩ := h
  subst hst
  simp only [advance]
  split
  · exact ⟨h1, h2, h3, h4, h5, h6, h7, h8, h9⟩
  · rename_i hd
    have hD := hasData_false e hs (by simpa using hd)
    split
    · rename_i hp
      have hp : e.st = 5 := by simpa using hp
      refine ⟨fun _ => hD, fun _ _ => Or.inl rfl, h3, ?_, h5, ?_, h7, h8, h9⟩
      · simp only [stClosed]; constructor
        · intro hdd; have := h4.1 hdd; simp [hp] at this
        · intro hc; simp at hc
      · intro hsd; exact ⟨by simp, (h6 hsd).2⟩
    · split
      · rename_i hp
        have hp : e.st = 6 := by simpa using hp
        refine ⟨fun _ => hD, fun _ _ => Or.inr rfl, h3, ?_, h5, ?_, h7, h8, h9⟩
        · simp only [stClosed]; constructor
          · intro hdd; have := h4.1 hdd; simp [hp] at this
          · intro hc; simp at hc
        · intro hsd; exact ⟨by simp, (h6 hsd).2⟩
      · exact ⟨h1, h2, h3, h4, h5, h6, h7, h8, h9⟩

/-- what `CtlInv` looks at -/
def ctlCore (e : Ep) : Snd × Nat × Bool × Bool × Bool × Nat × Bool × Nat :=
  (e.snd, e.st, e.wSC, e.scp, e.dead, e.sd, e.scr, e.callAt)

theorem CtlInv.congr {e e' : Ep} (h : CtlInv e) (hc : ctlCore e' = ctlCore e) : CtlInv e' := by
  simp only [ctlCore, Prod.mk.injEq] at hc
  obtain ⟨c1, c2, c3, c4, c5, c6, c7, c8⟩ := hc
  obtain ⟨h1, h2, h3, h4, h5, h6, h7, h8, h9⟩ := h
  exact ⟨by rw [c1, c2]; exact h1, by rw [c2, c4, c5]; exact h2, by rw [c3, c4]; exact h3, by rw [c2, c5]; exact h4,
    by rw [c1, c6]; exact h5, by rw [c1, c2, c6, c8]; exact h6, by rw [c7, c5]; exact h7, by rw [c6, c5]; exact h8,
    by rw [c6, c5]; exact h9⟩

theorem handleData_core (e : Ep) (t m s k : Nat) : ctlCore (handleData e t m s k) = ctlCore e := by
  simp only [handleData, ctlCore]; (repeat' split) <;> rfl
theorem chunksEnd_core (e : Ep) : ctlCore (chunksEnd e) = ctlCore e := by
  simp only [chunksEnd, ctlCore]; (repeat' split) <;> rfl
theorem gatherSack_core (e : Ep) : ctlCore (gatherSack e).1 = ctlCore e := by
  simp only [gatherSack, ctlCore]; (repeat' split) <;> rfl
theorem t2Fire_core (e : Ep) : ctlCore (t2Fire e) = ctlCore e := by
  simp only [t2Fire, ctlCore]; (repeat' split) <;> rfl
theorem ackFire_core (e : Ep) : ctlCore (ackFire e) = ctlCore e := by
  simp only [ackFire, ctlCore]; (repeat' split) <;> rfl
theorem read_core (e : Ep) (s : Nat) : ctlCore (read e s) = ctlCore e := rfl
theorem retransmitShutdownAck_core (e : Ep) : ctlCore (retransmitShutdownAck e) = ctlCore e := by
  simp only [retransmitShutdownAck, ctlCore]; (repeat' split) <;> rfl
theorem startPkt_core (e : Ep) : ctlCore { e with imm := false, del := false } = ctlCore e := rfl

theorem gatherShut_ctl (e : Ep) (h : CtlInv e) : CtlInv (gatherShut e).1 := by
  obtain ⟨h1, h2, h3, h4, h5, h6, h7, h8, h9⟩ := h
  simp only [gatherShut]
  (repeat' split) <;> exact ⟨h1, h2, by simp_all, h4, h5, h6, h7, h8, h9⟩

theorem handleShutdownAck_ctl (e : Ep) (h : CtlInv e) : CtlInv (handleShutdownAck e) := by
  obtain ⟨h1, h2, h3, h4, h5, h6, h7, h8, h9⟩ := h
  simp only [handleShutdownAck]
  split
  · rename_i hs
    exact ⟨h1, fun _ _ => by simpa using hs, fun _ => rfl, h4, h5, h6, h7, h8, h9⟩
  · exact ⟨h1, h2, h3, h4, h5, h6, h7, h8, h9⟩

theorem handleShutdownComplete_ctl (e : Ep) (h : CtlInv e) : CtlInv (handleShutdownComplete e) := by
  simp only [handleShutdownComplete]
  split
  · rename_i hs
    have hs : e.st = 4 := by simpa using hs
    obtain ⟨h1, h2, h3, h4, h5, h6, h7, h8, h9⟩ := h
    have hnd : e.dead = false := by
      cases hd : e.dead
      · rfl
      · have := h4.1 hd; simp [hs] at this
    have hD := h1 (Or.inr hs)
    -- close sets everything the invariant says about scr / sd / dead
    refine ⟨by simp [close], by simp [close], h3, by simp [close], ?_, ?_, fun _ => rfl, fun _ => rfl, ?_⟩
    · intro _; exact hD
    · intro hsd
      have : e.sd ≠ 0 := by
        intro h0; apply hsd; simp [close, h0]
      exact ⟨by simp [close], (h6 this).2⟩
    · intro _ hsd
      simp only [close] at hsd
      by_cases h1' : e.sd = 1
      · simp [h1'] at hsd
      · simp [h1'] at hsd
  · exact h

theorem handleShutdownComplete_eof (e : Ep) (h : EofInv e.dead e.rcv) :
    EofInv (handleShutdownComplete e).dead (handleShutdownComplete e).rcv := by
  simp only [handleShutdownComplete]
  split
  · exact close_eof { e with t2 := t2stop e.t2, scr := true } h
  · exact h

theorem shutdownCall_ctl (e : Ep) (hs : SndInv e.snd) (h : CtlInv e) : CtlInv (shutdownCall e).1 := by
  obtain ⟨h1, h2, h3, h4, h5, h6, h7, h8, h9⟩ := h
  simp only [shutdownCall]
  split
  · rename_i he
    have he : e.st = 3 := by simpa using he
    have hnd : e.dead = false := by
      cases hd : e.dead
      · rfl
      · have := h4.1 hd; simp [he] at this
    have hscp : e.scp = false := by
      cases hw : e.scp
      · rfl
      · have := h2 hw hnd; simp [he] at this
    split
    · refine ⟨by simp, by simp [hscp], h3, by simp [hnd], by simp, by simp, h7, by simp, by simp [hnd]⟩
    · rename_i hd
      have hD := hasData_false { e with st := stShutdownPending, sd := 1, callAt := e.snd.wlog.length } hs (by simpa using hd)
      refine ⟨fun _ => hD, by simp, h3, by simp [hnd], by simp, by simp, h7, by simp, by simp [hnd]⟩
  · exact ⟨h1, h2, h3, h4, h5, h6, h7, h8, h9⟩

/-- moving the cumulative ack point forward inside the in-flight range, in a state that still sends data -/
theorem setCum_inv (e : Ep) (c : Nat) (hs : SndInv e.snd) (h : CtlInv e) (hc : c ≤ e.snd.sentq.length)
    (hst : e.st = 3 ∨ e.st = 5 ∨ e.st = 6) :
    SndInv { e.snd with cum := c } ∧ CtlInv { e with snd := { e.snd with cum := c } } := by
  obtain ⟨h1, h2, h3, h4, h5, h6, h7, h8, h9⟩ := h
  refine ⟨⟨hc, hs.wlogIn, hs.sentIn, hs.pendIn, hs.wlogOk⟩, ?_, h2, h3, h4, ?_, h6, h7, h8, h9⟩
  · intro hx; simp only [stShutdownSent, stShutdownAckSent] at hx; omega
  · intro hsd
    have := h4.1 (h8 (Or.inl hsd))
    simp only [stClosed] at this; omega

theorem ackRange (e : Ep) (c : Nat) (hs : SndInv e.snd) (h1 : ¬ c < e.snd.cum)
    (h2 : ¬ ((decide (e.snd.cum < c) && !(e.inflightHas e.snd.cum && e.inflightHas (c - 1))) = true)) :
    c ≤ e.snd.sentq.length := by
  have := hs.cumLe
  by_cases hlt : e.snd.cum < c
  · simp only [hlt, decide_true, Ep.inflightHas, Bool.true_and, Bool.not_eq_true', Bool.not_eq_false] at h2
    simp only [Bool.and_eq_true, decide_eq_true_eq] at h2
    omega
  · omega

theorem handleSack_inv (e : Ep) (c : Nat) (g : List (Nat × Nat)) (hs : SndInv e.snd) (h : CtlInv e) :
    SndInv (handleSack e c g).snd ∧ CtlInv (handleSack e c g) := by
  simp only [handleSack]
  split
  · exact ⟨hs, h⟩
  · rename_i hg
    have hst : e.st = 3 ∨ e.st = 5 ∨ e.st = 6 := by
      simp only [stEstablished, stShutdownPending, stShutdownReceived, Bool.not_eq_true', Bool.not_eq_false,
        Bool.or_eq_true, beq_iff_eq] at hg
      omega
    split
    · exact ⟨hs, h⟩
    · rename_i h1
      split
      · exact ⟨hs, h⟩
      · rename_i h2
        have hc := ackRange e c hs h1 h2
        have hI := setCum_inv e c hs h hc hst
        split
        · exact ⟨hs, h⟩
        · split
          · exact hI
          · split
            · exact hI
            · rw [advance_snd]
              exact ⟨hI.1, advance_ctl _ _ hI.1 hI.2 rfl⟩

theorem ackCum_inv (e e' : Ep) (c : Nat) (hs : SndInv e.snd) (h : CtlInv e) (hst : e.st = 3 ∨ e.st = 5 ∨ e.st = 6)
    (ha : ackCum e c = some e') : SndInv e'.snd ∧ CtlInv e' ∧ e'.st = e.st ∧ e'.scp = e.scp := by
  simp only [ackCum] at ha
  split at ha
  · cases ha; exact ⟨hs, h, rfl, rfl⟩
  · rename_i h1
    split at ha
    · cases ha
    · rename_i h2
      cases ha
      have := setCum_inv e c hs h (ackRange e c hs h1 h2) hst
      exact ⟨this.1, this.2, rfl, rfl⟩

theorem finishShutdown_inv (e : Ep) (state : Nat) (hs : SndInv e.snd) (h : CtlInv e) (hnc : e.st ≠ 0)
    (hscp : e.scp = false) : CtlInv (finishShutdown e state) := by
  obtain ⟨h1, h2, h3, h4, h5, h6, h7, h8, h9⟩ := h
  have hnd : e.dead = false := by
    cases hd : e.dead
    · rfl
    · exact absurd (h4.1 hd) hnc
  simp only [finishShutdown]
  split
  · split
    · refine ⟨by simp, fun hw _ => ?_, h3, by simp [hnd], h5, fun hsd => ⟨by simp, (h6 hsd).2⟩, h7, h8, h9⟩
      rw [hscp] at hw; cases hw
    · rename_i hd
      have hD := hasData_false e hs (by simpa using hd)
      exact ⟨fun _ => hD, fun _ _ => Or.inr rfl, h3, by simp [hnd], h5,
        fun hsd => ⟨by simp, (h6 hsd).2⟩, h7, h8, h9⟩
  · exact ⟨h1, h2, h3, h4, h5, h6, h7, h8, h9⟩

theorem enterReceived_inv (e : Ep) (h : CtlInv e) (hst : e.st = 3 ∨ e.st = 5 ∨ e.st = 6) (hscp : e.scp = false) :
    CtlInv (enterReceived e) ∧ ((enterReceived e).st = 3 ∨ (enterReceived e).st = 5 ∨ (enterReceived e).st = 6) := by
  obtain ⟨h1, h2, h3, h4, h5, h6, h7, h8, h9⟩ := h
  have hnd : e.dead = false := by
    cases hd : e.dead
    · rfl
    · have := h4.1 hd; simp only [stClosed] at this; omega
  simp only [enterReceived]
  split
  · refine ⟨⟨by simp, fun hw _ => ?_, h3, by simp [hnd], h5, fun hsd => ⟨by simp, (h6 hsd).2⟩, h7, h8, h9⟩, by simp⟩
    rw [hscp] at hw; cases hw
  · exact ⟨⟨h1, h2, h3, h4, h5, h6, h7, h8, h9⟩, hst⟩

theorem handleShutdown_inv (e : Ep) (c : Nat) (hs : SndInv e.snd) (h : CtlInv e) :
    SndInv (handleShutdown e c).snd ∧ CtlInv (handleShutdown e c) := by
  simp only [handleShutdown]
  split
  · exact ⟨hs, h⟩
  · rename_i hscp
    have hscp : e.scp = false := by simpa using hscp
    split
    · exact ⟨by rw [show (retransmitShutdownAck e).snd = e.snd from congrArg (·.1) (retransmitShutdownAck_core e)]; exact hs,
        h.congr (retransmitShutdownAck_core e)⟩
    · split
      · rename_i hst
        have hst : e.st = 7 := by simpa using hst
        obtain ⟨h1, h2, h3, h4, h5, h6, h7, h8, h9⟩ := h
        have hnd : e.dead = false := by
          cases hd : e.dead
          · rfl
          · have := h4.1 hd; simp [hst] at this
        exact ⟨hs, fun _ => h1 (Or.inl hst), fun _ _ => Or.inr rfl, h3, by simp [hnd], h5, fun hsd => ⟨by simp, (h6 hsd).2⟩,
          h7, h8, h9⟩
      · split
        · exact ⟨hs, h⟩
        · rename_i hg
          have hst : e.st = 3 ∨ e.st = 5 ∨ e.st = 6 := by
            simp only [stEstablished, stShutdownPending, stShutdownReceived, Bool.not_eq_true', Bool.not_eq_false,
              Bool.or_eq_true, beq_iff_eq] at hg
            omega
          have hE := enterReceived_inv e h hst hscp
          have hEs : SndInv (enterReceived e).snd := by rw [enterReceived_snd]; exact hs
          split
          · -- error return: the state is put back
            refine ⟨hEs, ?_⟩
            obtain ⟨h1, h2, h3, h4, h5, h6, h7, h8, h9⟩ := h
            have hnd : e.dead = false := by
              cases hd : e.dead
              · rfl
              · have := h4.1 hd; simp only [stClosed] at this; omega
            refine ⟨?_, ?_, ?_, ?_, ?_, ?_, ?_, ?_, ?_⟩
            · simp only [enterReceived_snd]; exact h1
            · simp only [enterReceived]; split <;> exact h2
            · simp only [enterReceived]; split <;> exact h3
            · simp only [enterReceived_dead]; exact h4
            · simp only [enterReceived]; split <;> exact h5
            · simp only [enterReceived]; split <;> exact h6
            · simp only [enterReceived]; split <;> exact h7
            · simp only [enterReceived]; split <;> exact h8
            · simp only [enterReceived]; split <;> exact h9
          · rename_i e2 ha
            have hA := ackCum_inv _ _ c hEs hE.1 hE.2 ha
            rw [finishShutdown_snd]
            refine ⟨hA.1, finishShutdown_inv e2 e.st hA.1 hA.2.1 ?_ ?_⟩
            · rw [hA.2.2.1]; have := hE.2; omega
            · rw [hA.2.2.2]; simp only [enterReceived]; split <;> exact hscp

/-! ### sending DATA -/
theorem sendOne_frame (e : Ep) (tm : Nat × Nat) : (sendOne e tm).1 = { e with snd := (sendOne e tm).1.snd } := by
  simp only [sendOne]; (repeat' split) <;> rfl

theorem sendPkt_frame (e : Ep) (l : List (Nat × Nat)) : (sendPkt e l).1 = { e with snd := (sendPkt e l).1.snd } := by
  induction l generalizing e with
  | nil => rfl
  | cons tm rest ih =>
    simp only [sendPkt]
    rw [ih, sendOne_frame]

theorem sendData_frame (e : Ep) (d : List (List (Nat × Nat))) : (sendData e d).1 = { e with snd := (sendData e d).1.snd } := by
  induction d generalizing e with
  | nil => rfl
  | cons p rest ih =>
    simp only [sendData]
    rw [ih, sendPkt_frame]

theorem sendOne_inv (e : Ep) (tm : Nat × Nat) (hs : SndInv e.snd) (h : CtlInv e) :
    SndInv (sendOne e tm).1.snd ∧ CtlInv (sendOne e tm).1 := by
  simp only [sendOne]
  split
  · split
    · split <;> exact ⟨hs, h⟩
    · exact ⟨hs, h⟩
  · split
    · split
      · rename_i c hf
        have hc : c ∈ e.snd.pend := List.mem_of_find?_eq_some hf
        obtain ⟨s1, s2, s3, s4, s5⟩ := hs
        obtain ⟨h1, h2, h3, h4, h5, h6, h7, h8, h9⟩ := h
        have hnD : ¬ Drained e.snd := by
          intro hD; rw [hD.1] at hc; simp at hc
        refine ⟨⟨?_, ?_, ?_, ?_, s5⟩, ?_, h2, h3, h4, ?_, h6, h7, h8, h9⟩
        · simp only [List.length_append, List.length_singleton]; omega
        · intro w hw
          rcases s2 w hw with hw | hw
          · left; simp [hw]
          · by_cases hwc : w = c
            · left; simp [hwc]
            · right; exact (List.mem_erase_of_ne hwc).2 hw
        · intro w hw
          simp only [List.mem_append, List.mem_singleton] at hw
          rcases hw with hw | hw
          · exact s3 w hw
          · rw [hw]; exact s4 c hc
        · intro w hw; exact s4 w (List.mem_of_mem_erase hw)
        · intro hst; exact absurd (h1 hst) hnD
        · intro hsd; exact absurd (h5 hsd) hnD
      · exact ⟨hs, h⟩
    · exact ⟨hs, h⟩

theorem sendPkt_inv (e : Ep) (l : List (Nat × Nat)) (hs : SndInv e.snd) (h : CtlInv e) :
    SndInv (sendPkt e l).1.snd ∧ CtlInv (sendPkt e l).1 := by
  induction l generalizing e with
  | nil => exact ⟨hs, h⟩
  | cons tm rest ih =>
    simp only [sendPkt]
    have := sendOne_inv e tm hs h
    exact ih _ this.1 this.2

theorem sendData_inv (e : Ep) (d : List (List (Nat × Nat))) (hs : SndInv e.snd) (h : CtlInv e) :
    SndInv (sendData e d).1.snd ∧ CtlInv (sendData e d).1 := by
  induction d generalizing e with
  | nil => exact ⟨hs, h⟩
  | cons p rest ih =>
    simp only [sendData]
    have := sendPkt_inv e p hs h
    exact ih _ this.1 this.2

/-! ### one pass of the write loop -/
def P (e : Ep) : Prop := SndInv e.snd ∧ CtlInv e

theorem P_gatherShut (e : Ep) (h : P e) : P (gatherShut e).1 :=
  ⟨by rw [gatherShut_snd]; exact h.1, gatherShut_ctl e h.2⟩
theorem P_gatherSack (e : Ep) (h : P e) : P (gatherSack e).1 :=
  ⟨by rw [gatherSack_snd]; exact h.1, h.2.congr (gatherSack_core e)⟩
theorem P_sendData (e : Ep) (d : List (List (Nat × Nat))) (h : P e) : P (sendData e d).1 := sendData_inv e d h.1 h.2
theorem P_advance (e : Ep) (h : P e) : P (advance e e.st) :=
  ⟨by rw [advance_snd]; exact h.1, advance_ctl e _ h.1 h.2 rfl⟩

theorem sendData_st (e : Ep) (d : List (List (Nat × Nat))) : (sendData e d).1.st = e.st := by
  rw [sendData_frame]

theorem P_gatherPrio (e : Ep) (h : P e) : P (gatherPrio e).1 := by
  simp only [gatherPrio]
  split
  · exact P_gatherShut e h
  · split
    · exact P_gatherShut _ (P_gatherSack e h)
    · exact h

theorem P_gatherState (e : Ep) (d : List (List (Nat × Nat))) (h : P e) : P (gatherState e d).1 := by
  simp only [gatherState]
  split
  · exact P_gatherSack _ (P_sendData e d h)
  · split
    · have := P_advance _ (P_sendData e d h)
      rw [sendData_st] at this
      exact P_gatherShut _ (P_gatherSack _ this)
    · split
      · exact P_gatherShut _ (P_gatherSack e h)
      · split
        · exact P_gatherShut e h
        · exact h

theorem P_gather (e : Ep) (d : List (List (Nat × Nat))) (h : P e) : P (gather e d).1 := by
  simp only [gather]
  split
  · exact ⟨h.1, h.2.congr rfl⟩
  · split
    · exact P_gatherShut e h
    · exact P_gatherState _ d (P_gatherPrio e h)

theorem gatherShut_wSC (e : Ep) : (gatherShut e).1.wSC = false := by
  simp only [gatherShut]
  split
  · rfl
  · rename_i h; (repeat' split) <;> simpa using h
theorem gatherShut_ok (e : Ep) : (gatherShut e).2.2 = !e.wSC := by
  simp only [gatherShut]
  split
  · rename_i h; simp [h]
  · rename_i h; (repeat' split) <;> simp [h]
theorem gatherShut_dead (e : Ep) : (gatherShut e).1.dead = e.dead := by
  simp only [gatherShut]; (repeat' split) <;> rfl
theorem gatherSack_wSC (e : Ep) : (gatherSack e).1.wSC = e.wSC := by
  simp only [gatherSack]; split <;> rfl
theorem gatherSack_dead (e : Ep) : (gatherSack e).1.dead = e.dead := by
  simp only [gatherSack]; split <;> rfl
theorem advance_wSC (e : Ep) (s : Nat) : (advance e s).wSC = e.wSC := by
  simp only [advance]; (repeat' split) <;> rfl
theorem sendData_wSC (e : Ep) (d : List (List (Nat × Nat))) : (sendData e d).1.wSC = e.wSC := by rw [sendData_frame]
theorem sendData_dead (e : Ep) (d : List (List (Nat × Nat))) : (sendData e d).1.dead = e.dead := by rw [sendData_frame]

theorem gatherPrio_wSC (e : Ep) (h : e.wSC = false) : (gatherPrio e).1.wSC = false := by
  simp only [gatherPrio]
  (repeat' split) <;> simp [gatherShut_wSC, h]
theorem gatherPrio_dead (e : Ep) : (gatherPrio e).1.dead = e.dead := by
  simp only [gatherPrio]
  (repeat' split) <;> simp [gatherShut_dead, gatherSack_dead]

theorem gatherState_ok (e : Ep) (d : List (List (Nat × Nat))) (h : e.wSC = false) : (gatherState e d).2.2 = true := by
  simp only [gatherState]
  (repeat' split) <;> simp [gatherShut_ok, gatherSack_wSC, advance_wSC, sendData_wSC, h]
theorem gatherState_dead (e : Ep) (d : List (List (Nat × Nat))) : (gatherState e d).1.dead = e.dead := by
  simp only [gatherState]
  (repeat' split) <;> simp [gatherShut_dead, gatherSack_dead, advance_dead, sendData_dead]

theorem gather_dead (e : Ep) (d : List (List (Nat × Nat))) : (gather e d).1.dead = e.dead := by
  simp only [gather]
  split
  · rfl
  · split
    · exact gatherShut_dead e
    · simp [gatherState_dead, gatherPrio_dead]

theorem writeLoopPass_inv (e : Ep) (d : List (List (Nat × Nat))) (h : EpInv e) : EpInv (writeLoopPass e d).1 := by
  simp only [writeLoopPass]
  split
  · exact h
  · rename_i hnd
    have hnd : e.dead = false := by simpa using hnd
    have hP := P_gather e d ⟨h.snd, h.ctl⟩
    have hE : ∀ dd, EofInv dd (gather e d).1.rcv := by
      intro dd s k hk
      rw [gather_rcv] at hk
      have := (h.eof s k hk).1
      simp [hnd] at this
    split
    · exact ⟨hP.1, hP.2, by rw [gather_dead]; exact hE _⟩
    · exact ⟨hP.1, close_ctl_live _ hP.2 (by rw [gather_dead]; exact hnd), hE _⟩

/-! ### inbound packets -/
theorem handleData_closed (e : Ep) (t m s k : Nat) (h : e.st = 0) : handleData e t m s k = e := by
  simp [handleData, h]

theorem rcvData_eofs (r : Rcv) (can : Bool) (t m s k : Nat) : (rcvData r can t m s k).eofs = r.eofs := by
  cases can <;> rfl

theorem handleData_eofs (e : Ep) (t m s k : Nat) : (handleData e t m s k).rcv.eofs = e.rcv.eofs := by
  simp only [handleData]; split
  · rfl
  · exact rcvData_eofs _ _ _ _ _ _

theorem handleData_inv (e : Ep) (t m s k : Nat) (h : EpInv e) : EpInv (handleData e t m s k) := by
  refine ⟨by rw [handleData_snd]; exact h.snd, h.ctl.congr (handleData_core e t m s k), ?_⟩
  intro s0 k0 hk
  rw [handleData_eofs] at hk
  have hd := (h.eof s0 k0 hk).1
  have hst := h.ctl.deadSt.1 hd
  rw [handleData_closed e t m s k hst]
  exact h.eof s0 k0 hk

theorem handleChunk_inv (e : Ep) (c : Chunk) (h : EpInv e) : EpInv (handleChunk e c) := by
  cases c with
  | data t m s k => exact handleData_inv e t m s k h
  | sack c g =>
    have := handleSack_inv e c g h.snd h.ctl
    exact ⟨this.1, this.2, by simp only [handleChunk, handleSack_rcv, handleSack_dead]; exact h.eof⟩
  | shutdown c =>
    have := handleShutdown_inv e c h.snd h.ctl
    exact ⟨this.1, this.2, by simp only [handleChunk, handleShutdown_rcv, handleShutdown_dead]; exact h.eof⟩
  | shutdownAck =>
    exact ⟨by simp only [handleChunk, handleShutdownAck_snd]; exact h.snd, handleShutdownAck_ctl e h.ctl,
      by simp only [handleChunk, handleShutdownAck_rcv, handleShutdownAck_dead]; exact h.eof⟩
  | shutdownComplete =>
    exact ⟨by simp only [handleChunk, handleShutdownComplete_snd]; exact h.snd, handleShutdownComplete_ctl e h.ctl,
      handleShutdownComplete_eof e h.eof⟩
  | abort => exact ⟨h.snd, close_ctl_any e h.ctl, close_eof e h.eof⟩

theorem foldl_handleChunk_inv (p : Pkt) (e : Ep) (h : EpInv e) : EpInv (p.foldl handleChunk e) := by
  induction p generalizing e with
  | nil => exact h
  | cons c rest ih => exact ih _ (handleChunk_inv e c h)

theorem handlePkt_inv (e : Ep) (p : Pkt) (h : EpInv e) : EpInv (handlePkt e p) := by
  simp only [handlePkt]
  have h0 : EpInv { e with imm := false, del := false } := ⟨h.snd, h.ctl.congr rfl, h.eof⟩
  have h1 := foldl_handleChunk_inv p _ h0
  refine ⟨by rw [chunksEnd_snd]; exact h1.snd, h1.ctl.congr (chunksEnd_core _), ?_⟩
  rw [chunksEnd_rcv, show (chunksEnd _).dead = _ from congrArg (fun c => c.2.2.2.2.1) (chunksEnd_core _)]
  exact h1.eof

/-! ### API -/
theorem onStream_append (l : List Msg) (w : Msg) (s : Nat) :
    onStream (l ++ [w]) s = if w.2.1 = s then onStream l s ++ [w] else onStream l s := by
  simp only [onStream, List.filter_append, List.filter_cons, List.filter_nil]
  by_cases h : w.2.1 = s <;> simp [h]

theorem write_inv (e : Ep) (s : Nat) (h : EpInv e) : EpInv (write e s).1 := by
  obtain ⟨⟨s1, s2, s3, s4, s5⟩, ⟨h1, h2, h3, h4, h5, h6, h7, h8, h9⟩, he⟩ := h
  simp only [write]
  split
  · rename_i hst
    have hst : e.st = 3 := by simpa using hst
    refine ⟨⟨s1, ?_, ?_, ?_, ?_⟩, ⟨?_, h2, h3, h4, ?_, ?_, h7, h8, h9⟩, he⟩
    · intro w hw
      simp only [List.mem_append, List.mem_singleton] at hw ⊢
      rcases hw with hw | hw
      · rcases s2 w hw with h | h
        · exact Or.inl h
        · exact Or.inr (Or.inl h)
      · exact Or.inr (Or.inr hw)
    · intro c hc; simp only [List.mem_append]; exact Or.inl (s3 c hc)
    · intro c hc
      simp only [List.mem_append, List.mem_singleton] at hc ⊢
      rcases hc with hc | hc
      · exact Or.inl (s4 c hc)
      · exact Or.inr hc
    · intro s'
      rw [onStream_append]
      split
      · rename_i hs'
        simp only at hs'
        subst hs'
        have := s5 s
        simp only [onStream] at this
        simp only [List.map_append, List.map_cons, List.map_nil, List.length_append, List.length_singleton,
          List.range_succ, Ep.nextSsn, onStream, this]
      · exact s5 s'
    · intro hx; simp [hst] at hx
    · intro hsd; have := h4.1 (h8 (Or.inl hsd)); simp [hst] at this
    · intro hsd; have := (h6 hsd).1; simp [hst] at this
  · exact ⟨⟨s1, s2, s3, s4, s5⟩, ⟨h1, h2, h3, h4, h5, h6, h7, h8, h9⟩, he⟩

theorem shutdownCall_snd (e : Ep) : (shutdownCall e).1.snd = e.snd := by
  simp only [shutdownCall]; (repeat' split) <;> rfl
theorem shutdownCall_rcv (e : Ep) : (shutdownCall e).1.rcv = e.rcv := by
  simp only [shutdownCall]; (repeat' split) <;> rfl
theorem shutdownCall_dead (e : Ep) : (shutdownCall e).1.dead = e.dead := by
  simp only [shutdownCall]; (repeat' split) <;> rfl

theorem shutdownCall_inv (e : Ep) (h : EpInv e) : EpInv (shutdownCall e).1 :=
  ⟨by rw [shutdownCall_snd]; exact h.snd, shutdownCall_ctl e h.snd h.ctl, by rw [shutdownCall_rcv, shutdownCall_dead]; exact h.eof⟩

theorem t2Fire_inv (e : Ep) (h : EpInv e) : EpInv (t2Fire e) := by
  have hc := t2Fire_core e
  refine ⟨by rw [show (t2Fire e).snd = e.snd from congrArg (·.1) hc]; exact h.snd, h.ctl.congr hc, ?_⟩
  have : (t2Fire e).rcv = e.rcv := by simp only [t2Fire]; (repeat' split) <;> rfl
  rw [this, show (t2Fire e).dead = e.dead from congrArg (fun c => c.2.2.2.2.1) hc]
  exact h.eof

theorem ackFire_inv (e : Ep) (h : EpInv e) : EpInv (ackFire e) := by
  have hc := ackFire_core e
  refine ⟨by rw [show (ackFire e).snd = e.snd from congrArg (·.1) hc]; exact h.snd, h.ctl.congr hc, ?_⟩
  have : (ackFire e).rcv = e.rcv := by simp only [ackFire]; (repeat' split) <;> rfl
  rw [this, show (ackFire e).dead = e.dead from congrArg (fun c => c.2.2.2.2.1) hc]
  exact h.eof

theorem closeConn_inv (e : Ep) (h : EpInv e) : EpInv (closeConn e) := by
  simp only [closeConn]
  split
  · exact h
  · rename_i hnd
    have hnd : e.dead = false := by simpa using hnd
    exact ⟨h.snd, (close_ctl_live e h.ctl hnd).congr rfl, close_eof e h.eof⟩

theorem closeApi_inv (e : Ep) (h : EpInv e) : EpInv (closeApi e) := by
  simp only [closeApi]
  split
  · exact h
  · rename_i hnd
    have hnd : e.dead = false := by simpa using hnd
    exact ⟨h.snd, close_ctl_live e h.ctl hnd, close_eof e h.eof⟩

theorem abortCall_inv (e : Ep) (h : EpInv e) : EpInv (abortCall e) := ⟨h.snd, h.ctl.congr rfl, h.eof⟩

/-! ### reading -/
theorem drain_eofs (n : Nat) (r : Rcv) (s : Nat) : (drain n r s).eofs = r.eofs := by
  induction n generalizing r with
  | zero => rfl
  | succ n ih =>
    simp only [drain]
    split
    · rfl
    · rw [ih]

theorem drain_pl (n : Nat) (r : Rcv) (s : Nat) : (drain n r s).pl = r.pl ∧ (drain n r s).rq = r.rq := by
  induction n generalizing r with
  | zero => exact ⟨rfl, rfl⟩
  | succ n ih =>
    simp only [drain]
    split
    · exact ⟨rfl, rfl⟩
    · exact ih _

theorem readOn_append (r : Rcv) (s' : Nat) (c : Msg) (st : List Msg) :
    ({ r with store := st, rlog := r.rlog ++ [c] } : Rcv).readOn s' =
      if c.2.1 = s' then r.readOn s' ++ [c.1] else r.readOn s' := by
  simp only [Rcv.readOn, List.filter_append, List.filter_cons, List.filter_nil]
  by_cases h : c.2.1 = s' <;> simp [h]

theorem drain_readOn_other (n : Nat) (r : Rcv) (s s' : Nat) (h : s ≠ s') : (drain n r s).readOn s' = r.readOn s' := by
  induction n generalizing r with
  | zero => rfl
  | succ n ih =>
    simp only [drain]
    split
    · rfl
    · rename_i c hf
      have hcp := List.find?_some hf
      simp only [Bool.and_eq_true, beq_iff_eq] at hcp
      rw [ih, readOn_append, if_neg (by rw [hcp.1]; exact h)]

theorem drain_store_sub (n : Nat) (r : Rcv) (s : Nat) : ∀ c ∈ (drain n r s).store, c ∈ r.store := by
  induction n generalizing r with
  | zero => intro c hc; exact hc
  | succ n ih =>
    simp only [drain]
    split
    · intro c hc; exact hc
    · intro c hc; exact List.mem_of_mem_erase (ih _ c hc)

/-- nothing with the next sequence number is left: draining changes nothing -/
theorem drain_stuck (n : Nat) (r : Rcv) (s : Nat)
    (h : ∀ c ∈ r.store, ¬ (c.2.1 = s ∧ c.2.2 = (r.readOn s).length)) : drain n r s = r := by
  cases n with
  | zero => rfl
  | succ n =>
    simp only [drain]
    split
    · rfl
    · rename_i c hf
      have hc := List.mem_of_find?_eq_some hf
      have hp := List.find?_some hf
      simp only [Bool.and_eq_true, beq_iff_eq] at hp
      exact absurd hp (h c hc)

/-- with enough fuel the drain stops only when nothing readable is left -/
theorem drain_done (n : Nat) (r : Rcv) (s : Nat) (hn : r.store.length ≤ n) :
    ∀ c ∈ (drain n r s).store, ¬ (c.2.1 = s ∧ c.2.2 = ((drain n r s).readOn s).length) := by
  induction n generalizing r with
  | zero =>
    intro c hc
    have : r.store = [] := List.eq_nil_of_length_eq_zero (by omega)
    simp [drain, this] at hc
  | succ n ih =>
    simp only [drain]
    split
    · rename_i hf
      intro c hc hp
      have := List.find?_eq_none.1 hf c hc
      simp only [Bool.and_eq_true, beq_iff_eq] at this
      exact this hp
    · rename_i c hf
      have hc := List.mem_of_find?_eq_some hf
      apply ih
      simp only [List.length_erase_of_mem hc]
      omega

theorem read_inv (e : Ep) (s : Nat) (h : EpInv e) : EpInv (read e s) := by
  refine ⟨h.snd, h.ctl.congr (read_core e s), ?_⟩
  simp only [read]
  intro s0 k0 hk
  by_cases hd : e.dead = true
  · simp only [hd, if_true, List.mem_append, List.mem_singleton, Prod.mk.injEq] at hk ⊢
    rcases hk with hk | hk
    · rw [drain_eofs] at hk
      obtain ⟨-, h2, h3⟩ := h.eof s0 k0 hk
      by_cases hs : s = s0
      · subst hs
        rw [drain_stuck _ _ _ (by rw [← h2]; exact h3)]
        exact ⟨trivial, h2, h3⟩
      · refine ⟨trivial, ?_, ?_⟩
        · show k0 = (Rcv.readOn _ s0).length
          simp only [Rcv.readOn]
          have := drain_readOn_other e.rcv.store.length e.rcv s s0 hs
          simp only [Rcv.readOn] at this
          rw [this]; exact h2
        · intro c hc; exact h3 c (drain_store_sub _ _ _ c hc)
    · obtain ⟨rfl, rfl⟩ := hk
      refine ⟨trivial, ?_, ?_⟩
      · simp [Rcv.readOn]
      · exact drain_done _ _ _ (Nat.le_refl _)
  · have hd' : e.dead = false := by simpa using hd
    simp only [hd', Bool.false_eq_true, if_false, drain_eofs] at hk
    exact absurd (h.eof s0 k0 hk).1 hd

end Sd
