import SctpVerif.Proofs.Shutdown.Inv
/-!
The relation between a sending endpoint, the receiving endpoint and the two packet histories of the
shutdown model `Sd`, and its preservation.
-/
namespace Sd

/-- handed to the stream: still in its reassembly queue, or already read -/
def Got (r : Rcv) (c : Msg) : Prop := c ∈ r.store ∨ c ∈ r.rlog

/-- every DATA chunk of the packet carries the message the sender gave that TSN -/
def DataOk (sq : List Msg) (p : Pkt) : Prop := ∀ t m s k, Chunk.data t m s k ∈ p → sq[t]? = some (m, s, k)

/-- every cumulative acknowledgement in the packet is at most `b` -/
def AcksLe (b : Nat) (p : Pkt) : Prop := (∀ c g, Chunk.sack c g ∈ p → c ≤ b) ∧ (∀ c, Chunk.shutdown c ∈ p → c ≤ b)

/-- the receive half relative to the sender's TSN assignment `sq` -/
structure RcvRel (sq : List Msg) (r : Rcv) : Prop where
  plLe : r.pl ≤ sq.length
  rqLt : ∀ t ∈ r.rq, t < sq.length
  got : ∀ t, (t < r.pl ∨ t ∈ r.rq) → ∃ c, sq[t]? = some c ∧ Got r c
  storeIn : ∀ c ∈ r.store, c ∈ sq

/-- what was read from each stream is a prefix of what was written to it, in order -/
def PrefixOk (wlog : List Msg) (r : Rcv) : Prop :=
  ∀ s, onStream r.rlog s = (onStream wlog s).take (onStream r.rlog s).length

theorem readOn_eq (r : Rcv) (s : Nat) : r.readOn s = (onStream r.rlog s).map (·.1) := rfl
theorem readOn_length (r : Rcv) (s : Nat) : (r.readOn s).length = (onStream r.rlog s).length := by
  simp [Rcv.readOn, onStream]

/-! ### monotonicity -/
theorem DataOk.ext {sq : List Msg} {p : Pkt} (h : DataOk sq p) (ext : List Msg) : DataOk (sq ++ ext) p := by
  intro t m s k hm
  have := h t m s k hm
  obtain ⟨hlt, -⟩ := List.getElem?_eq_some_iff.1 this
  rw [List.getElem?_append_left hlt]; exact this

theorem AcksLe.mono {b b' : Nat} {p : Pkt} (h : AcksLe b p) (hb : b ≤ b') : AcksLe b' p :=
  ⟨fun c g hm => Nat.le_trans (h.1 c g hm) hb, fun c hm => Nat.le_trans (h.2 c hm) hb⟩

theorem RcvRel.ext {sq : List Msg} {r : Rcv} (h : RcvRel sq r) (ext : List Msg) : RcvRel (sq ++ ext) r := by
  refine ⟨?_, ?_, ?_, ?_⟩
  · simp only [List.length_append]; have := h.plLe; omega
  · intro t ht; simp only [List.length_append]; have := h.rqLt t ht; omega
  · intro t ht
    obtain ⟨c, hc, hg⟩ := h.got t ht
    obtain ⟨hlt, -⟩ := List.getElem?_eq_some_iff.1 hc
    exact ⟨c, by rw [List.getElem?_append_left hlt]; exact hc, hg⟩
  · intro c hc; exact List.mem_append_left _ (h.storeIn c hc)

theorem PrefixOk.ext {wlog : List Msg} {r : Rcv} (h : PrefixOk wlog r) (ext : List Msg) : PrefixOk (wlog ++ ext) r := by
  intro s
  have hs := h s
  have hlen : (onStream r.rlog s).length ≤ (onStream wlog s).length := by
    have := congrArg List.length hs
    simp only [List.length_take] at this
    omega
  simp only [onStream, List.filter_append] at hs hlen ⊢
  rw [List.take_append_of_le_length hlen]
  exact hs

theorem Got.mono {r r' : Rcv} {c : Msg} (h : Got r c) (hs : ∀ x ∈ r.store, x ∈ r'.store ∨ x ∈ r'.rlog)
    (hl : ∀ x ∈ r.rlog, x ∈ r'.rlog) : Got r' c := by
  rcases h with h | h
  · exact hs c h
  · exact Or.inr (hl _ h)

/-! ### DATA arriving -/
theorem popLoop_spec (n pl : Nat) (rq : List Nat) (B : Nat) (hb : ∀ t ∈ rq, t < B) (hpl : pl ≤ B) :
    pl ≤ (popLoop n pl rq).1 ∧ (popLoop n pl rq).1 ≤ B ∧ (∀ t ∈ (popLoop n pl rq).2, t ∈ rq) ∧
    (∀ t, (t < (popLoop n pl rq).1 ∨ t ∈ (popLoop n pl rq).2) → (t < pl ∨ t ∈ rq)) := by
  induction n generalizing pl rq with
  | zero => exact ⟨Nat.le_refl _, hpl, fun t h => h, fun t h => h⟩
  | succ n ih =>
    simp only [popLoop]
    split
    · rename_i hc
      have hc : pl ∈ rq := by simpa using hc
      have hsub : ∀ t ∈ rq.erase pl, t ∈ rq := fun t ht => List.mem_of_mem_erase ht
      obtain ⟨i1, i2, i3, i4⟩ := ih (pl + 1) (rq.erase pl) (fun t ht => hb t (hsub t ht)) (hb pl hc)
      refine ⟨by omega, i2, fun t ht => hsub t (i3 t ht), ?_⟩
      intro t ht
      rcases i4 t ht with h | h
      · by_cases htp : t = pl
        · right; rw [htp]; exact hc
        · left; omega
      · right; exact hsub t h
    · exact ⟨Nat.le_refl _, hpl, fun t h => h, fun t h => h⟩

theorem handleData_rcv (e : Ep) (t m s k : Nat) :
    (handleData e t m s k).rcv = e.rcv ∨ ∃ can, (handleData e t m s k).rcv = rcvData e.rcv can t m s k := by
  simp only [handleData]
  split
  · exact Or.inl rfl
  · exact Or.inr ⟨_, rfl⟩

theorem rcvData_rel (sq : List Msg) (r : Rcv) (can : Bool) (t m s k : Nat) (h : RcvRel sq r)
    (hd : sq[t]? = some (m, s, k)) :
    RcvRel sq (rcvData r can t m s k) ∧ r.pl ≤ (rcvData r can t m s k).pl ∧
      (rcvData r can t m s k).rlog = r.rlog ∧ (rcvData r can t m s k).eofs = r.eofs ∧
      (∀ c, Got r c → Got (rcvData r can t m s k) c) := by
  obtain ⟨hlt, hget⟩ := List.getElem?_eq_some_iff.1 hd
  have hmem : (m, s, k) ∈ sq := by rw [← hget]; exact List.getElem_mem hlt
  -- after the push
  let r1 : Rcv := if can then { r with rq := t :: r.rq, store := r.store ++ [(m, s, k)] } else r
  have h1 : RcvRel sq r1 ∧ r1.pl = r.pl ∧ r1.rlog = r.rlog ∧ r1.eofs = r.eofs ∧ (∀ c, Got r c → Got r1 c) := by
    cases can
    · exact ⟨h, rfl, rfl, rfl, fun c hc => hc⟩
    · have hG : ∀ c, Got r c → Got { r with rq := t :: r.rq, store := r.store ++ [(m, s, k)] } c := by
        intro c hc
        rcases hc with hc | hc
        · exact Or.inl (List.mem_append_left _ hc)
        · exact Or.inr hc
      refine ⟨⟨h.plLe, ?_, ?_, ?_⟩, rfl, rfl, rfl, hG⟩
      · intro t' ht'
        simp only [r1, if_true, List.mem_cons] at ht'
        rcases ht' with ht' | ht'
        · rw [ht']; exact hlt
        · exact h.rqLt t' ht'
      · intro t' ht'
        simp only [r1, if_true, List.mem_cons] at ht'
        by_cases hEq : t' = t
        · exact ⟨(m, s, k), by rw [hEq]; exact hd, Or.inl (by simp [r1])⟩
        · have : t' < r.pl ∨ t' ∈ r.rq := by
            rcases ht' with h' | h' | h'
            · exact Or.inl h'
            · exact absurd h' hEq
            · exact Or.inr h'
          obtain ⟨c, hc, hg⟩ := h.got t' this
          exact ⟨c, hc, hG c hg⟩
      · intro c hc
        simp only [r1, if_true, List.mem_append, List.mem_singleton] at hc
        rcases hc with hc | hc
        · exact h.storeIn c hc
        · rw [hc]; exact hmem
  obtain ⟨hr1, hpl1, hrl1, heo1, hg1⟩ := h1
  obtain ⟨p1, p2, p3, p4⟩ := popLoop_spec r1.rq.length r1.pl r1.rq sq.length hr1.rqLt hr1.plLe
  have hGot : ∀ c, Got r1 c → Got (rcvData r can t m s k) c := fun c hc => hc
  refine ⟨⟨p2, fun t' ht' => hr1.rqLt t' (p3 t' ht'), ?_, hr1.storeIn⟩, ?_, hrl1, heo1, fun c hc => hGot c (hg1 c hc)⟩
  · intro t' ht'
    obtain ⟨c, hc, hg⟩ := hr1.got t' (p4 t' ht')
    exact ⟨c, hc, hGot c hg⟩
  · show r.pl ≤ (popLoop r1.rq.length r1.pl r1.rq).1
    omega

/-! ### reading -/
theorem onStream_nth (l : List Msg) (hw : WlogOk l) (c : Msg) (hc : c ∈ l) :
    ∃ h : c.2.2 < (onStream l c.2.1).length, (onStream l c.2.1)[c.2.2] = c := by
  have hm : c ∈ onStream l c.2.1 := by simp [onStream, hc]
  obtain ⟨i, hi, hget⟩ := List.getElem_of_mem hm
  have h1 := hw c.2.1
  have h2 : ((onStream l c.2.1).map (·.2.2))[i]'(by simpa using hi) = i := by
    simp only [h1, List.getElem_range]
  simp only [List.getElem_map, hget] at h2
  subst h2
  exact ⟨hi, hget⟩

theorem drain_rel (n : Nat) (r : Rcv) (s : Nat) (sq wlog : List Msg) (h : RcvRel sq r) (hp : PrefixOk wlog r)
    (hw : WlogOk wlog) (hsq : ∀ c ∈ sq, c ∈ wlog) :
    RcvRel sq (drain n r s) ∧ PrefixOk wlog (drain n r s) ∧ (∀ c, Got r c → Got (drain n r s) c) := by
  induction n generalizing r with
  | zero => exact ⟨h, hp, fun c hc => hc⟩
  | succ n ih =>
    simp only [drain]
    split
    · exact ⟨h, hp, fun c hc => hc⟩
    · rename_i c hf
      have hc := List.mem_of_find?_eq_some hf
      have hcp := List.find?_some hf
      simp only [Bool.and_eq_true, beq_iff_eq] at hcp
      obtain ⟨hcs, hck⟩ := hcp
      let r' : Rcv := { r with store := r.store.erase c, rlog := r.rlog ++ [c] }
      have hG : ∀ x, Got r x → Got r' x := by
        intro x hx
        rcases hx with hx | hx
        · by_cases hxc : x = c
          · right; simp [r', hxc]
          · left; exact (List.mem_erase_of_ne hxc).2 hx
        · right; exact List.mem_append_left _ hx
      have hr' : RcvRel sq r' := by
        refine ⟨h.plLe, h.rqLt, ?_, fun x hx => h.storeIn x (List.mem_of_mem_erase hx)⟩
        intro t ht
        obtain ⟨x, hx, hg⟩ := h.got t ht
        exact ⟨x, hx, hG x hg⟩
      have hp' : PrefixOk wlog r' := by
        intro s'
        show onStream (r.rlog ++ [c]) s' = (onStream wlog s').take (onStream (r.rlog ++ [c]) s').length
        rw [onStream_append]
        by_cases hs : c.2.1 = s'
        · rw [hcs] at hs
          subst hs
          simp only [hcs, if_true, List.length_append, List.length_singleton]
          obtain ⟨hlt, hget⟩ := onStream_nth wlog hw c (hsq c (h.storeIn c hc))
          rw [readOn_length] at hck
          rw [hcs, hck] at hlt
          have hget' : (onStream wlog s)[(onStream r.rlog s).length]'hlt = c := by
            have : (onStream wlog c.2.1)[c.2.2]'(by rw [hcs, hck]; exact hlt) = c := hget
            simp only [hcs, hck] at this
            exact this
          rw [List.take_succ_eq_append_getElem hlt, ← hp s, hget']
        · simp only [hs, if_false]; exact hp s'
      obtain ⟨i1, i2, i3⟩ := ih r' hr' hp'
      exact ⟨i1, i2, fun x hx => i3 x (hG x hx)⟩

/-! ### the send half under inbound chunks -/
theorem advance_sndEq (e : Ep) (st : Nat) : (advance e st).snd = e.snd := advance_snd e st

theorem handleSack_sndShape (e : Ep) (c : Nat) (g : List (Nat × Nat)) :
    (handleSack e c g).snd = e.snd ∨ (handleSack e c g).snd = { e.snd with cum := c } := by
  simp only [handleSack]
  (repeat' split) <;> simp [advance_snd]

theorem ackCum_sndShape (e e' : Ep) (c : Nat) (h : ackCum e c = some e') : e'.snd = e.snd ∨ e'.snd = { e.snd with cum := c } := by
  simp only [ackCum] at h
  split at h
  · cases h; exact Or.inl rfl
  · split at h
    · cases h
    · cases h; exact Or.inr rfl

theorem handleShutdown_sndShape (e : Ep) (c : Nat) :
    (handleShutdown e c).snd = e.snd ∨ (handleShutdown e c).snd = { e.snd with cum := c } := by
  simp only [handleShutdown]
  split
  · exact Or.inl rfl
  · split
    · left; exact congrArg (·.1) (retransmitShutdownAck_core e)
    · split
      · exact Or.inl rfl
      · split
        · exact Or.inl rfl
        · split
          · left; simp [enterReceived_snd]
          · rename_i e2 ha
            rw [finishShutdown_snd]
            have := ackCum_sndShape _ _ _ ha
            rw [enterReceived_snd] at this
            exact this

theorem handleChunk_sndShape (e : Ep) (ch : Chunk) (B : Nat) (hB : e.snd.cum ≤ B) (ha : AcksLe B [ch]) :
    (handleChunk e ch).snd.sentq = e.snd.sentq ∧ (handleChunk e ch).snd.wlog = e.snd.wlog ∧ (handleChunk e ch).snd.cum ≤ B := by
  cases ch with
  | data t m s k =>
    show (handleData e t m s k).snd.sentq = _ ∧ (handleData e t m s k).snd.wlog = _ ∧ (handleData e t m s k).snd.cum ≤ B
    rw [handleData_snd]; exact ⟨rfl, rfl, hB⟩
  | sack c g =>
    have hc : c ≤ B := ha.1 c g (by simp)
    show (handleSack e c g).snd.sentq = _ ∧ (handleSack e c g).snd.wlog = _ ∧ (handleSack e c g).snd.cum ≤ B
    rcases handleSack_sndShape e c g with h | h <;> rw [h]
    · exact ⟨rfl, rfl, hB⟩
    · exact ⟨rfl, rfl, hc⟩
  | shutdown c =>
    have hc : c ≤ B := ha.2 c (by simp)
    show (handleShutdown e c).snd.sentq = _ ∧ (handleShutdown e c).snd.wlog = _ ∧ (handleShutdown e c).snd.cum ≤ B
    rcases handleShutdown_sndShape e c with h | h <;> rw [h]
    · exact ⟨rfl, rfl, hB⟩
    · exact ⟨rfl, rfl, hc⟩
  | shutdownAck =>
    show (handleShutdownAck e).snd.sentq = _ ∧ (handleShutdownAck e).snd.wlog = _ ∧ (handleShutdownAck e).snd.cum ≤ B
    rw [handleShutdownAck_snd]; exact ⟨rfl, rfl, hB⟩
  | shutdownComplete =>
    show (handleShutdownComplete e).snd.sentq = _ ∧ (handleShutdownComplete e).snd.wlog = _ ∧ (handleShutdownComplete e).snd.cum ≤ B
    rw [handleShutdownComplete_snd]; exact ⟨rfl, rfl, hB⟩
  | abort => exact ⟨rfl, rfl, hB⟩

theorem AcksLe.cons {B : Nat} {ch : Chunk} {p : Pkt} (h : AcksLe B (ch :: p)) : AcksLe B [ch] ∧ AcksLe B p :=
  ⟨⟨fun c g hm => h.1 c g (by simp only [List.mem_singleton] at hm; simp [hm]),
    fun c hm => h.2 c (by simp only [List.mem_singleton] at hm; simp [hm])⟩,
   ⟨fun c g hm => h.1 c g (List.mem_cons_of_mem _ hm), fun c hm => h.2 c (List.mem_cons_of_mem _ hm)⟩⟩

theorem foldl_sndShape (p : Pkt) (e : Ep) (B : Nat) (hB : e.snd.cum ≤ B) (ha : AcksLe B p) :
    (p.foldl handleChunk e).snd.sentq = e.snd.sentq ∧ (p.foldl handleChunk e).snd.wlog = e.snd.wlog ∧
      (p.foldl handleChunk e).snd.cum ≤ B := by
  induction p generalizing e with
  | nil => exact ⟨rfl, rfl, hB⟩
  | cons ch rest ih =>
    obtain ⟨h1, h2, h3⟩ := handleChunk_sndShape e ch B hB ha.cons.1
    obtain ⟨i1, i2, i3⟩ := ih (handleChunk e ch) h3 ha.cons.2
    exact ⟨i1.trans h1, i2.trans h2, i3⟩

theorem handlePkt_sndShape (e : Ep) (p : Pkt) (B : Nat) (hB : e.snd.cum ≤ B) (ha : AcksLe B p) :
    (handlePkt e p).snd.sentq = e.snd.sentq ∧ (handlePkt e p).snd.wlog = e.snd.wlog ∧ (handlePkt e p).snd.cum ≤ B := by
  simp only [handlePkt, chunksEnd_snd]
  exact foldl_sndShape p _ B hB ha

/-! ### the receive half under inbound chunks -/
theorem PrefixOk.of_rlog {wlog : List Msg} {r r' : Rcv} (h : PrefixOk wlog r) (hr : r'.rlog = r.rlog) : PrefixOk wlog r' := by
  intro s
  rw [hr]; exact h s

/-- what one inbound step does to the receive half, relative to the peer's send half -/
structure RcvStep (sq wlog : List Msg) (r r' : Rcv) : Prop where
  rel : RcvRel sq r'
  pre : PrefixOk wlog r'
  pl : r.pl ≤ r'.pl
  got : ∀ c, Got r c → Got r' c

theorem RcvStep.refl {sq wlog : List Msg} {r : Rcv} (h : RcvRel sq r) (hp : PrefixOk wlog r) : RcvStep sq wlog r r :=
  ⟨h, hp, Nat.le_refl _, fun _ hc => hc⟩

theorem RcvStep.trans {sq wlog : List Msg} {r r' r'' : Rcv} (h1 : RcvStep sq wlog r r') (h2 : RcvStep sq wlog r' r'') :
    RcvStep sq wlog r r'' :=
  ⟨h2.rel, h2.pre, Nat.le_trans h1.pl h2.pl, fun c hc => h2.got c (h1.got c hc)⟩

theorem DataOk.cons {sq : List Msg} {ch : Chunk} {p : Pkt} (h : DataOk sq (ch :: p)) : DataOk sq [ch] ∧ DataOk sq p :=
  ⟨fun t m s k hm => h t m s k (by simp only [List.mem_singleton] at hm; simp [hm]),
   fun t m s k hm => h t m s k (List.mem_cons_of_mem _ hm)⟩

theorem handleChunk_rcvStep (e : Ep) (ch : Chunk) (sq wlog : List Msg) (h : RcvRel sq e.rcv) (hp : PrefixOk wlog e.rcv)
    (hd : DataOk sq [ch]) : RcvStep sq wlog e.rcv (handleChunk e ch).rcv := by
  cases ch with
  | data t m s k =>
    show RcvStep sq wlog e.rcv (handleData e t m s k).rcv
    rcases handleData_rcv e t m s k with h' | ⟨can, h'⟩ <;> rw [h']
    · exact RcvStep.refl h hp
    · obtain ⟨r1, r2, r3, -, r5⟩ := rcvData_rel sq e.rcv can t m s k h (hd t m s k (by simp))
      exact ⟨r1, hp.of_rlog r3, r2, r5⟩
  | sack c g =>
    show RcvStep sq wlog e.rcv (handleSack e c g).rcv
    rw [handleSack_rcv]; exact RcvStep.refl h hp
  | shutdown c =>
    show RcvStep sq wlog e.rcv (handleShutdown e c).rcv
    rw [handleShutdown_rcv]; exact RcvStep.refl h hp
  | shutdownAck =>
    show RcvStep sq wlog e.rcv (handleShutdownAck e).rcv
    rw [handleShutdownAck_rcv]; exact RcvStep.refl h hp
  | shutdownComplete =>
    show RcvStep sq wlog e.rcv (handleShutdownComplete e).rcv
    rw [handleShutdownComplete_rcv]; exact RcvStep.refl h hp
  | abort => exact RcvStep.refl h hp

theorem foldl_rcvStep (p : Pkt) (e : Ep) (sq wlog : List Msg) (h : RcvRel sq e.rcv) (hp : PrefixOk wlog e.rcv)
    (hd : DataOk sq p) : RcvStep sq wlog e.rcv (p.foldl handleChunk e).rcv := by
  induction p generalizing e with
  | nil => exact RcvStep.refl h hp
  | cons ch rest ih =>
    have h1 := handleChunk_rcvStep e ch sq wlog h hp hd.cons.1
    exact h1.trans (ih (handleChunk e ch) h1.rel h1.pre hd.cons.2)

theorem handlePkt_rcvStep (e : Ep) (p : Pkt) (sq wlog : List Msg) (h : RcvRel sq e.rcv) (hp : PrefixOk wlog e.rcv)
    (hd : DataOk sq p) : RcvStep sq wlog e.rcv (handlePkt e p).rcv := by
  simp only [handlePkt, chunksEnd_rcv]
  exact foldl_rcvStep p { e with imm := false, del := false } sq wlog h hp hd

/-! ### what a write-loop pass puts on the wire -/
/-- every packet: DATA chunks carry what the sender assigned, acknowledgements are at most `b` -/
def OutOk (sq : List Msg) (b : Nat) (ps : List Pkt) : Prop := ∀ p ∈ ps, DataOk sq p ∧ AcksLe b p

theorem OutOk.nil (sq : List Msg) (b : Nat) : OutOk sq b [] := by intro p hp; cases hp
theorem OutOk.append {sq : List Msg} {b : Nat} {p q : List Pkt} (h1 : OutOk sq b p) (h2 : OutOk sq b q) : OutOk sq b (p ++ q) := by
  intro x hx
  rcases List.mem_append.1 hx with h | h
  · exact h1 x h
  · exact h2 x h
theorem OutOk.ext {sq : List Msg} {b : Nat} {ps : List Pkt} (h : OutOk sq b ps) (ext : List Msg) : OutOk (sq ++ ext) b ps :=
  fun p hp => ⟨(h p hp).1.ext ext, (h p hp).2⟩

theorem gatherSack_out (e : Ep) (sq : List Msg) : OutOk sq e.rcv.pl (gatherSack e).2 := by
  simp only [gatherSack]
  split
  · intro p hp
    simp only [List.mem_singleton] at hp
    subst hp
    refine ⟨fun t m s k hm => ?_, fun c g hm => ?_, fun c hm => ?_⟩
    · simp [Ep.sackChunk] at hm
    · simp only [Ep.sackChunk, List.mem_singleton, Chunk.sack.injEq] at hm; omega
    · simp [Ep.sackChunk] at hm
  · exact OutOk.nil _ _

theorem gatherShut_out (e : Ep) (sq : List Msg) : OutOk sq e.rcv.pl (gatherShut e).2.1 := by
  simp only [gatherShut]
  repeat' split
  all_goals
    intro p hp
    simp only [List.mem_singleton, List.not_mem_nil] at hp
  all_goals
    subst hp
    refine ⟨fun t m s k hm => ?_, fun c g hm => ?_, fun c hm => ?_⟩ <;> simp at hm
  omega

/-- the send half after a sending step: TSN assignment extended, everything else as before -/
structure SndExt (x x' : Snd) : Prop where
  ext : ∃ l, x'.sentq = x.sentq ++ l
  wlog : x'.wlog = x.wlog
  cum : x'.cum = x.cum

theorem SndExt.refl (x : Snd) : SndExt x x := ⟨⟨[], by simp⟩, rfl, rfl⟩
theorem SndExt.trans {x x' x'' : Snd} (h1 : SndExt x x') (h2 : SndExt x' x'') : SndExt x x'' := by
  obtain ⟨l1, e1⟩ := h1.ext
  obtain ⟨l2, e2⟩ := h2.ext
  exact ⟨⟨l1 ++ l2, by rw [e2, e1, List.append_assoc]⟩, h2.wlog.trans h1.wlog, h2.cum.trans h1.cum⟩

theorem DataOk.of_ext {x x' : Snd} {p : Pkt} (h : DataOk x.sentq p) (he : SndExt x x') : DataOk x'.sentq p := by
  obtain ⟨l, hl⟩ := he.ext; rw [hl]; exact h.ext l

theorem dataOnly_acks (b : Nat) (p : Pkt) (h : ∀ ch ∈ p, ∃ t m s k, ch = Chunk.data t m s k) : AcksLe b p := by
  constructor
  · intro c g hm; obtain ⟨t, m, s, k, he⟩ := h _ hm; cases he
  · intro c hm; obtain ⟨t, m, s, k, he⟩ := h _ hm; cases he

theorem sendOne_out (e : Ep) (tm : Nat × Nat) :
    SndExt e.snd (sendOne e tm).1.snd ∧ DataOk (sendOne e tm).1.snd.sentq (sendOne e tm).2 ∧
      (∀ ch ∈ (sendOne e tm).2, ∃ t m s k, ch = Chunk.data t m s k) := by
  simp only [sendOne]
  split
  · split
    · split
      · rename_i c hc
        refine ⟨SndExt.refl _, ?_, ?_⟩
        · intro t m s k hm
          simp only [List.mem_singleton, Chunk.data.injEq] at hm
          obtain ⟨rfl, rfl, rfl, rfl⟩ := hm
          exact hc
        · intro ch hm; simp only [List.mem_singleton] at hm; exact ⟨_, _, _, _, hm⟩
      · exact ⟨SndExt.refl _, fun t m s k hm => by simp at hm, fun ch hm => by simp at hm⟩
    · exact ⟨SndExt.refl _, fun t m s k hm => by simp at hm, fun ch hm => by simp at hm⟩
  · split
    · rename_i hlen
      have hlen : tm.1 = e.snd.sentq.length := by simpa using hlen
      split
      · rename_i c hc
        refine ⟨⟨⟨[c], rfl⟩, rfl, rfl⟩, ?_, ?_⟩
        · intro t m s k hm
          simp only [List.mem_singleton, Chunk.data.injEq] at hm
          obtain ⟨rfl, rfl, rfl, rfl⟩ := hm
          simp [hlen]
        · intro ch hm; simp only [List.mem_singleton] at hm; exact ⟨_, _, _, _, hm⟩
      · exact ⟨SndExt.refl _, fun t m s k hm => by simp at hm, fun ch hm => by simp at hm⟩
    · exact ⟨SndExt.refl _, fun t m s k hm => by simp at hm, fun ch hm => by simp at hm⟩

theorem sendPkt_out (e : Ep) (l : List (Nat × Nat)) :
    SndExt e.snd (sendPkt e l).1.snd ∧ DataOk (sendPkt e l).1.snd.sentq (sendPkt e l).2 ∧
      (∀ ch ∈ (sendPkt e l).2, ∃ t m s k, ch = Chunk.data t m s k) := by
  induction l generalizing e with
  | nil => exact ⟨SndExt.refl _, fun t m s k hm => by simp [sendPkt] at hm, fun ch hm => by simp [sendPkt] at hm⟩
  | cons tm rest ih =>
    simp only [sendPkt]
    obtain ⟨a1, a2, a3⟩ := sendOne_out e tm
    obtain ⟨b1, b2, b3⟩ := ih (sendOne e tm).1
    refine ⟨a1.trans b1, ?_, ?_⟩
    · intro t m s k hm
      rcases List.mem_append.1 hm with h | h
      · exact (a2.of_ext b1) t m s k h
      · exact b2 t m s k h
    · intro ch hm
      rcases List.mem_append.1 hm with h | h
      · exact a3 ch h
      · exact b3 ch h

theorem sendData_out (e : Ep) (d : List (List (Nat × Nat))) (b : Nat) :
    SndExt e.snd (sendData e d).1.snd ∧ OutOk (sendData e d).1.snd.sentq b (sendData e d).2 := by
  induction d generalizing e with
  | nil => exact ⟨SndExt.refl _, OutOk.nil _ _⟩
  | cons p rest ih =>
    simp only [sendData]
    obtain ⟨a1, a2, a3⟩ := sendPkt_out e p
    obtain ⟨b1, b2⟩ := ih (sendPkt e p).1
    refine ⟨a1.trans b1, OutOk.append ?_ b2⟩
    split
    · exact OutOk.nil _ _
    · intro q hq
      simp only [List.mem_singleton] at hq
      subst hq
      exact ⟨a2.of_ext b1, dataOnly_acks b _ a3⟩

theorem gatherPrio_snd (e : Ep) : (gatherPrio e).1.snd = e.snd := by
  simp only [gatherPrio]
  (repeat' split) <;> simp [gatherShut_snd, gatherSack_snd]

theorem gatherPrio_out (e : Ep) (sq : List Msg) : OutOk sq e.rcv.pl (gatherPrio e).2 := by
  simp only [gatherPrio]
  split
  · exact gatherShut_out e sq
  · split
    · refine OutOk.append (gatherSack_out e sq) ?_
      have := gatherShut_out (gatherSack e).1 sq
      rw [gatherSack_rcv] at this
      exact this
    · exact OutOk.nil _ _

theorem gatherState_out (e : Ep) (d : List (List (Nat × Nat))) :
    SndExt e.snd (gatherState e d).1.snd ∧ OutOk (gatherState e d).1.snd.sentq e.rcv.pl (gatherState e d).2.1 := by
  simp only [gatherState]
  split
  · obtain ⟨a1, a2⟩ := sendData_out e d e.rcv.pl
    rw [gatherSack_snd]
    refine ⟨a1, OutOk.append a2 ?_⟩
    have := gatherSack_out (sendData e d).1 (sendData e d).1.snd.sentq
    rw [sendData_rcv] at this
    exact this
  · split
    · obtain ⟨a1, a2⟩ := sendData_out e d e.rcv.pl
      rw [gatherShut_snd, gatherSack_snd, advance_snd]
      refine ⟨a1, OutOk.append (OutOk.append a2 ?_) ?_⟩
      · have := gatherSack_out (advance (sendData e d).1 e.st) (sendData e d).1.snd.sentq
        rw [advance_rcv, sendData_rcv] at this
        exact this
      · have := gatherShut_out (gatherSack (advance (sendData e d).1 e.st)).1 (sendData e d).1.snd.sentq
        rw [gatherSack_rcv, advance_rcv, sendData_rcv] at this
        exact this
    · split
      · rw [gatherShut_snd, gatherSack_snd]
        refine ⟨SndExt.refl _, OutOk.append (gatherSack_out e _) ?_⟩
        have := gatherShut_out (gatherSack e).1 e.snd.sentq
        rw [gatherSack_rcv] at this
        exact this
      · split
        · rw [gatherShut_snd]
          exact ⟨SndExt.refl _, gatherShut_out e _⟩
        · exact ⟨SndExt.refl _, OutOk.nil _ _⟩

theorem gather_out (e : Ep) (d : List (List (Nat × Nat))) :
    SndExt e.snd (gather e d).1.snd ∧ OutOk (gather e d).1.snd.sentq e.rcv.pl (gather e d).2.1 := by
  simp only [gather]
  split
  · refine ⟨SndExt.refl _, ?_⟩
    intro p hp
    simp only [List.mem_singleton] at hp
    subst hp
    refine ⟨fun t m s k hm => ?_, fun c g hm => ?_, fun c hm => ?_⟩ <;> simp at hm
  · split
    · rw [gatherShut_snd]
      exact ⟨SndExt.refl _, gatherShut_out e _⟩
    · obtain ⟨a1, a2⟩ := gatherState_out (gatherPrio e).1 d
      rw [gatherPrio_snd] at a1
      rw [gatherPrio_rcv] at a2
      refine ⟨a1, OutOk.append ?_ a2⟩
      obtain ⟨l, hl⟩ := a1.ext
      rw [hl]
      exact (gatherPrio_out e e.snd.sentq).ext l

theorem writeLoopPass_out (e : Ep) (d : List (List (Nat × Nat))) :
    SndExt e.snd (writeLoopPass e d).1.snd ∧ OutOk (writeLoopPass e d).1.snd.sentq e.rcv.pl (writeLoopPass e d).2 ∧
      (writeLoopPass e d).1.rcv = e.rcv := by
  simp only [writeLoopPass]
  split
  · exact ⟨SndExt.refl _, OutOk.nil _ _, rfl⟩
  · obtain ⟨a1, a2⟩ := gather_out e d
    split
    · exact ⟨a1, a2, gather_rcv e d⟩
    · exact ⟨a1, a2, gather_rcv e d⟩

end Sd
