import SctpVerif.Model.Shutdown
/-!
Frame lemmas for the shutdown model `Sd`: which transition touches the send half (`snd`), the receive
half (`rcv`), the association state and the caller-visible fields.
-/
namespace Sd

attribute [local simp] stClosed stCookieWait stCookieEchoed stEstablished stShutdownAckSent stShutdownPending
  stShutdownReceived stShutdownSent

@[simp] theorem close_snd (e : Ep) : (close e).snd = e.snd := rfl
@[simp] theorem close_rcv (e : Ep) : (close e).rcv = e.rcv := rfl
@[simp] theorem close_dead (e : Ep) : (close e).dead = true := rfl
@[simp] theorem close_st (e : Ep) : (close e).st = stClosed := rfl

/-! ### advance -/
theorem advance_snd (e : Ep) (s : Nat) : (advance e s).snd = e.snd := by
  simp only [advance]; (repeat' split) <;> rfl
theorem advance_rcv (e : Ep) (s : Nat) : (advance e s).rcv = e.rcv := by
  simp only [advance]; (repeat' split) <;> rfl
theorem advance_dead (e : Ep) (s : Nat) : (advance e s).dead = e.dead := by
  simp only [advance]; (repeat' split) <;> rfl

/-! ### inbound handlers -/
theorem handleData_snd (e : Ep) (t m s k : Nat) : (handleData e t m s k).snd = e.snd := by
  simp only [handleData]; (repeat' split) <;> rfl
theorem handleData_dead (e : Ep) (t m s k : Nat) : (handleData e t m s k).dead = e.dead := by
  simp only [handleData]; (repeat' split) <;> rfl
theorem handleData_st (e : Ep) (t m s k : Nat) : (handleData e t m s k).st = e.st := by
  simp only [handleData]; (repeat' split) <;> rfl

theorem handleSack_rcv (e : Ep) (c : Nat) (g : List (Nat × Nat)) : (handleSack e c g).rcv = e.rcv := by
  simp only [handleSack]; (repeat' split) <;> simp [advance_rcv]
theorem handleSack_dead (e : Ep) (c : Nat) (g : List (Nat × Nat)) : (handleSack e c g).dead = e.dead := by
  simp only [handleSack]; (repeat' split) <;> simp [advance_dead]

theorem ackCum_rcv (e e' : Ep) (c : Nat) (h : ackCum e c = some e') : e'.rcv = e.rcv ∧ e'.dead = e.dead ∧ e'.st = e.st := by
  simp only [ackCum] at h
  split at h
  · cases h; exact ⟨rfl, rfl, rfl⟩
  · split at h
    · cases h
    · cases h; exact ⟨rfl, rfl, rfl⟩

theorem finishShutdown_rcv (e : Ep) (s : Nat) : (finishShutdown e s).rcv = e.rcv := by
  simp only [finishShutdown]; (repeat' split) <;> rfl
theorem finishShutdown_snd (e : Ep) (s : Nat) : (finishShutdown e s).snd = e.snd := by
  simp only [finishShutdown]; (repeat' split) <;> rfl
theorem finishShutdown_dead (e : Ep) (s : Nat) : (finishShutdown e s).dead = e.dead := by
  simp only [finishShutdown]; (repeat' split) <;> rfl

theorem enterReceived_rcv (e : Ep) : (enterReceived e).rcv = e.rcv := by
  simp only [enterReceived]; split <;> rfl
theorem enterReceived_snd (e : Ep) : (enterReceived e).snd = e.snd := by
  simp only [enterReceived]; split <;> rfl
theorem enterReceived_dead (e : Ep) : (enterReceived e).dead = e.dead := by
  simp only [enterReceived]; split <;> rfl

theorem handleShutdown_rcv (e : Ep) (c : Nat) : (handleShutdown e c).rcv = e.rcv := by
  simp only [handleShutdown, retransmitShutdownAck]
  repeat' split
  all_goals first | rfl | (rename_i h; simp [finishShutdown_rcv, (ackCum_rcv _ _ _ h).1, enterReceived_rcv]) | simp [enterReceived_rcv]
theorem handleShutdown_dead (e : Ep) (c : Nat) : (handleShutdown e c).dead = e.dead := by
  simp only [handleShutdown, retransmitShutdownAck]
  repeat' split
  all_goals first | rfl | (rename_i h; simp [finishShutdown_dead, (ackCum_rcv _ _ _ h).2.1, enterReceived_dead]) | simp [enterReceived_dead]

theorem handleShutdownAck_snd (e : Ep) : (handleShutdownAck e).snd = e.snd := by
  simp only [handleShutdownAck]; split <;> rfl
theorem handleShutdownAck_rcv (e : Ep) : (handleShutdownAck e).rcv = e.rcv := by
  simp only [handleShutdownAck]; split <;> rfl
theorem handleShutdownAck_dead (e : Ep) : (handleShutdownAck e).dead = e.dead := by
  simp only [handleShutdownAck]; split <;> rfl

theorem handleShutdownComplete_snd (e : Ep) : (handleShutdownComplete e).snd = e.snd := by
  simp only [handleShutdownComplete]; split <;> rfl
theorem handleShutdownComplete_rcv (e : Ep) : (handleShutdownComplete e).rcv = e.rcv := by
  simp only [handleShutdownComplete]; split <;> rfl

theorem chunksEnd_snd (e : Ep) : (chunksEnd e).snd = e.snd := by
  simp only [chunksEnd]; (repeat' split) <;> rfl
theorem chunksEnd_rcv (e : Ep) : (chunksEnd e).rcv = e.rcv := by
  simp only [chunksEnd]; (repeat' split) <;> rfl

/-! ### outbound -/
theorem gatherSack_snd (e : Ep) : (gatherSack e).1.snd = e.snd := by
  simp only [gatherSack]; split <;> rfl
theorem gatherSack_rcv (e : Ep) : (gatherSack e).1.rcv = e.rcv := by
  simp only [gatherSack]; split <;> rfl
theorem gatherSack_st (e : Ep) : (gatherSack e).1.st = e.st := by
  simp only [gatherSack]; split <;> rfl
theorem gatherShut_snd (e : Ep) : (gatherShut e).1.snd = e.snd := by
  simp only [gatherShut]; (repeat' split) <;> rfl
theorem gatherShut_rcv (e : Ep) : (gatherShut e).1.rcv = e.rcv := by
  simp only [gatherShut]; (repeat' split) <;> rfl
theorem gatherShut_st (e : Ep) : (gatherShut e).1.st = e.st := by
  simp only [gatherShut]; (repeat' split) <;> rfl

theorem sendOne_rcv (e : Ep) (tm : Nat × Nat) : (sendOne e tm).1.rcv = e.rcv := by
  simp only [sendOne]; (repeat' split) <;> rfl
theorem sendPkt_rcv (e : Ep) (l : List (Nat × Nat)) : (sendPkt e l).1.rcv = e.rcv := by
  induction l generalizing e with
  | nil => rfl
  | cons tm rest ih => simp only [sendPkt]; rw [ih, sendOne_rcv]
theorem sendData_rcv (e : Ep) (d : List (List (Nat × Nat))) : (sendData e d).1.rcv = e.rcv := by
  induction d generalizing e with
  | nil => rfl
  | cons p rest ih => simp only [sendData]; rw [ih, sendPkt_rcv]

theorem gatherPrio_rcv (e : Ep) : (gatherPrio e).1.rcv = e.rcv := by
  simp only [gatherPrio]
  (repeat' split) <;> simp [gatherShut_rcv, gatherSack_rcv]
theorem gatherState_rcv (e : Ep) (d : List (List (Nat × Nat))) : (gatherState e d).1.rcv = e.rcv := by
  simp only [gatherState]
  (repeat' split) <;> simp [gatherShut_rcv, gatherSack_rcv, sendData_rcv, advance_rcv]
theorem gather_rcv (e : Ep) (d : List (List (Nat × Nat))) : (gather e d).1.rcv = e.rcv := by
  simp only [gather]
  split
  · rfl
  · split
    · exact gatherShut_rcv e
    · simp [gatherState_rcv, gatherPrio_rcv]

end Sd
