import SctpVerif.Proofs.Shutdown.Safety
/-!
Exact effect of the steps of the shutdown sequence of the model `Sd` on an endpoint (used for the explicit
schedules: fault-free, crossed, single losses recovered by T2).
-/
namespace Sd

theorem hist_get (h : Array Pkt) (l : List Pkt) (i : Nat) : (h ++ l.toArray)[h.size + i]? = l[i]? := by
  simp [Array.getElem?_append_right]

/-! ### write-loop passes -/
/-- SHUTDOWN-SENT with SHUTDOWN due: one SHUTDOWN carrying the cumulative ack, T2 started -/
theorem wl_shutdown (e : Ep) (h0 : e.wAb = false) (h1 : e.dead = false) (h2 : e.wSC = false) (h3 : e.st = stShutdownSent) (h4 : e.wS = true)
    (h5 : e.wSA = false) (h6 : e.ack ≠ ackImmediate) :
    writeLoopPass e [] = ({ e with wS := false, t2 := t2start e.t2 }, [[.shutdown e.rcv.pl]]) := by
  have h6' : (e.ack == ackImmediate) = false := by simpa using h6
  simp [writeLoopPass, gather, gatherPrio, gatherState, gatherShut, gatherSack, h0, h1, h2, h3, h4, h5, h6',
    stShutdownSent, stShutdownAckSent, stEstablished, stShutdownPending, stShutdownReceived]

/-- SHUTDOWN-ACK-SENT with SHUTDOWN-ACK due: one SHUTDOWN-ACK, T2 started -/
theorem wl_shutdownAck (e : Ep) (h0 : e.wAb = false) (h1 : e.dead = false) (h2 : e.wSC = false) (h3 : e.st = stShutdownAckSent) (h4 : e.wSA = true) :
    writeLoopPass e [] = ({ e with wSA := false, wS := false, t2 := t2start e.t2 }, [[.shutdownAck]]) := by
  simp [writeLoopPass, gather, gatherPrio, gatherState, gatherShut, h0, h1, h2, h3, h4,
    stShutdownSent, stShutdownAckSent, stEstablished, stShutdownPending, stShutdownReceived]

/-- SHUTDOWN-COMPLETE due: it goes out alone and the write loop closes the association -/
theorem wl_shutdownComplete (e : Ep) (d : List (List (Nat × Nat))) (h0 : e.wAb = false) (h1 : e.dead = false) (h2 : e.wSC = true) :
    writeLoopPass e d = (close { e with wSC := false, wSA := false, wS := false }, [[.shutdownComplete]]) := by
  simp [writeLoopPass, gather, gatherShut, h0, h1, h2]

/-! ### inbound shutdown chunks -/
/-- SHUTDOWN whose cumulative ack is the current ack point, nothing queued or in flight: SHUTDOWN-ACK is due at once -/
theorem rx_shutdown_idle (e : Ep) (c : Nat) (h1 : e.st = stEstablished) (h2 : e.scp = false) (h3 : e.snd.pend = [])
    (h4 : e.snd.cum = e.snd.sentq.length) (h5 : c = e.snd.cum) :
    handlePkt e [.shutdown c] = { e with imm := false, del := false, st := stShutdownAckSent, wSA := true } := by
  subst h5
  simp [handlePkt, handleChunk, handleShutdown, enterReceived, ackCum, finishShutdown, Ep.hasData, chunksEnd, h1, h2, h3, h4,
    stShutdownSent, stShutdownAckSent, stEstablished, stShutdownPending, stShutdownReceived]
  cases hsnd : e.snd
  simp_all

/-- crossed SHUTDOWN in SHUTDOWN-SENT: SHUTDOWN-ACK at once -/
theorem rx_shutdown_sent (e : Ep) (c : Nat) (h1 : e.st = stShutdownSent) (h2 : e.scp = false) :
    handlePkt e [.shutdown c] =
      { e with imm := false, del := false, t2 := t2stop e.t2, wS := false, wSA := true, st := stShutdownAckSent } := by
  simp [handlePkt, handleChunk, handleShutdown, chunksEnd, h1, h2, stShutdownSent, stShutdownAckSent]

/-- retransmitted SHUTDOWN in SHUTDOWN-ACK-SENT: SHUTDOWN-ACK again -/
theorem rx_shutdown_ackSent (e : Ep) (c : Nat) (h1 : e.st = stShutdownAckSent) (h2 : e.scp = false) :
    handlePkt e [.shutdown c] = { e with imm := false, del := false, t2 := t2stop e.t2, wS := false, wSA := true } := by
  simp [handlePkt, handleChunk, handleShutdown, retransmitShutdownAck, chunksEnd, h1, h2, stShutdownAckSent]

theorem rx_shutdownAck (e : Ep) (h1 : e.st = stShutdownSent ∨ e.st = stShutdownAckSent) :
    handlePkt e [.shutdownAck] =
      { e with imm := false, del := false, t2 := t2stop e.t2, wS := false, wSA := false, scp := true, wSC := true } := by
  rcases h1 with h1 | h1 <;>
    simp [handlePkt, handleChunk, handleShutdownAck, chunksEnd, h1, stShutdownSent, stShutdownAckSent]

theorem rx_shutdownComplete (e : Ep) (h1 : e.st = stShutdownAckSent) :
    handlePkt e [.shutdownComplete] = close { e with imm := false, del := false, t2 := t2stop e.t2, scr := true } := by
  simp [handlePkt, handleChunk, handleShutdownComplete, chunksEnd, close, h1, stShutdownAckSent]

/-! ### T2 -/
theorem t2_sent (e : Ep) (h1 : e.t2 = 1) (h2 : e.scp = false) (h3 : e.st = stShutdownSent) : t2Fire e = { e with wS := true } := by
  simp [t2Fire, h1, h2, h3, stShutdownSent]
theorem t2_ackSent (e : Ep) (h1 : e.t2 = 1) (h2 : e.scp = false) (h3 : e.st = stShutdownAckSent) : t2Fire e = { e with wSA := true } := by
  simp [t2Fire, h1, h2, h3, stShutdownSent, stShutdownAckSent]

/-! ### system steps on an explicit state -/
theorem run_cons (s : Sys) (op : Op) (ops : List Op) : s.run (op :: ops) = (s.step op).run ops := rfl
theorem run_nil (s : Sys) : s.run [] = s := rfl

theorem step_gather_a (a b : Ep) (ha hb : Array Pkt) (d : List (List (Nat × Nat))) (e' : Ep) (out : List Pkt)
    (h : writeLoopPass a d = (e', out)) :
    Sys.step ⟨a, b, ha, hb⟩ (.gather false d) = ⟨e', b, ha ++ out.toArray, hb⟩ := by
  simp [Sys.step, Sys.ep, Sys.put, h]
theorem step_gather_b (a b : Ep) (ha hb : Array Pkt) (d : List (List (Nat × Nat))) (e' : Ep) (out : List Pkt)
    (h : writeLoopPass b d = (e', out)) :
    Sys.step ⟨a, b, ha, hb⟩ (.gather true d) = ⟨a, e', ha, hb ++ out.toArray⟩ := by
  simp [Sys.step, Sys.ep, Sys.put, h]
theorem step_deliver_a (a b : Ep) (ha hb : Array Pkt) (i : Nat) (p : Pkt) (hp : ha[i]? = some p) (hd : b.dead = false) :
    Sys.step ⟨a, b, ha, hb⟩ (.deliver false i) = ⟨a, handlePkt b p, ha, hb⟩ := by
  simp [Sys.step, Sys.ep, Sys.hist, Sys.put, hp, hd]
theorem step_deliver_b (a b : Ep) (ha hb : Array Pkt) (i : Nat) (p : Pkt) (hp : hb[i]? = some p) (hd : a.dead = false) :
    Sys.step ⟨a, b, ha, hb⟩ (.deliver true i) = ⟨handlePkt a p, b, ha, hb⟩ := by
  simp [Sys.step, Sys.ep, Sys.hist, Sys.put, hp, hd]
theorem step_deliver_b_dropped (a b : Ep) (ha hb : Array Pkt) (i : Nat) (hd : a.dead = true) :
    Sys.step ⟨a, b, ha, hb⟩ (.deliver true i) = ⟨a, b, ha, hb⟩ := by
  simp only [Sys.step, Sys.ep, Sys.hist]
  split
  · rfl
  · simp [hd]
theorem step_t2_a (a b : Ep) (ha hb : Array Pkt) : Sys.step ⟨a, b, ha, hb⟩ (.t2 false) = ⟨t2Fire a, b, ha, hb⟩ := by
  simp [Sys.step, Sys.ep, Sys.put]
theorem step_t2_b (a b : Ep) (ha hb : Array Pkt) : Sys.step ⟨a, b, ha, hb⟩ (.t2 true) = ⟨a, t2Fire b, ha, hb⟩ := by
  simp [Sys.step, Sys.ep, Sys.put]
theorem step_closeConn_b (a b : Ep) (ha hb : Array Pkt) : Sys.step ⟨a, b, ha, hb⟩ (.closeConn true) = ⟨a, closeConn b, ha, hb⟩ := by
  simp [Sys.step, Sys.ep, Sys.put]

theorem hist_get0 (h : Array Pkt) (p : Pkt) : (h ++ [p].toArray)[h.size]? = some p := by
  simp
theorem hist_get1 (h : Array Pkt) (p q : Pkt) : (h ++ [p].toArray ++ [q].toArray)[h.size + 1]? = some q := by
  have := hist_get (h ++ [p].toArray) [q] 0
  simpa using this
theorem hist_get2 (h : Array Pkt) (p q r : Pkt) : (h ++ [p].toArray ++ [q].toArray ++ [r].toArray)[h.size + 2]? = some r := by
  have := hist_get (h ++ [p].toArray ++ [q].toArray) [r] 0
  simpa using this

/-! ### the shutdown sequence from a drained caller -/
/-- side A has called Shutdown and everything it wrote is acknowledged: it is in SHUTDOWN-SENT with the SHUTDOWN
still to be sent and its Shutdown call waiting. Side B is established with nothing queued or in flight, and
what A has received from B is exactly what B considers acknowledged. -/
structure Ready (s : Sys) : Prop where
  a_st : s.a.st = stShutdownSent
  a_wS : s.a.wS = true
  a_wSA : s.a.wSA = false
  a_wSC : s.a.wSC = false
  a_scp : s.a.scp = false
  a_dead : s.a.dead = false
  a_ack : s.a.ack ≠ ackImmediate
  a_sd : s.a.sd = 1
  a_t2 : s.a.t2 = 0
  a_wAb : s.a.wAb = false
  b_wAb : s.b.wAb = false
  b_st : s.b.st = stEstablished
  b_wSC : s.b.wSC = false
  b_scp : s.b.scp = false
  b_dead : s.b.dead = false
  b_t2 : s.b.t2 = 0
  b_pend : s.b.snd.pend = []
  b_cum : s.b.snd.cum = s.b.snd.sentq.length
  pl : s.a.rcv.pl = s.b.snd.cum

/-- what the explicit schedules establish: both closed, the caller's Shutdown returned nil, no transport failure at the caller -/
def Done (s0 s : Sys) : Prop :=
  s.a.dead = true ∧ s.a.st = stClosed ∧ s.a.sd = 2 ∧ s.a.connFailed = s0.a.connFailed ∧ s.b.dead = true ∧ s.b.st = stClosed ∧
    s.a.snd = s0.a.snd ∧ s.b.rcv = s0.b.rcv ∧ s.a.callAt = s0.a.callAt

/-- no fault: SHUTDOWN, SHUTDOWN-ACK, SHUTDOWN-COMPLETE each delivered once -/
def closingFaultFree (n m : Nat) : List Op :=
  [.gather false [], .deliver false n, .gather true [], .deliver true m, .gather false [], .deliver false (n + 1)]

theorem closing_fault_free (s : Sys) (h : Ready s) : Done s (s.run (closingFaultFree s.ha.size s.hb.size)) := by
  obtain ⟨a1, a2, a3, a4, a5, a6, a7, a8, a9, a0, b0, b1, b2, b3, b4, b9, b5, b6, hpl⟩ := h
  obtain ⟨a, b, ha, hb⟩ := s
  simp only at a1 a2 a3 a4 a5 a6 a7 a8 a9 a0 b0 b1 b2 b3 b4 b9 b5 b6 hpl
  simp only [closingFaultFree]
  -- A's write loop sends SHUTDOWN; it reaches B
  rw [run_cons, step_gather_a _ _ _ _ [] _ _ (wl_shutdown a a0 a6 a4 a1 a2 a3 a7)]
  rw [run_cons, step_deliver_a _ _ _ _ ha.size _ (hist_get0 _ _) b4, rx_shutdown_idle b _ b1 b3 b5 b6 hpl]
  -- B's write loop sends SHUTDOWN-ACK; it reaches A
  rw [run_cons, step_gather_b _ _ _ _ [] _ _ (wl_shutdownAck _ ?_ ?_ ?_ ?_ ?_)]
  rotate_left; exact b0; exact b4; exact b2; rfl; rfl
  dsimp only
  rw [run_cons, step_deliver_b _ _ _ _ hb.size _ (hist_get0 _ _) ?_, rx_shutdownAck _ ?_]
  rotate_left; exact Or.inl a1; exact a6
  dsimp only
  -- A's write loop sends SHUTDOWN-COMPLETE and closes; it reaches B
  rw [run_cons, step_gather_a _ _ _ _ [] _ _ (wl_shutdownComplete _ [] ?_ ?_ ?_)]
  rotate_left; exact a0; exact a6; rfl
  dsimp only
  rw [run_cons, step_deliver_a _ _ _ _ (ha.size + 1) _ (hist_get1 _ _ _) ?_, rx_shutdownComplete _ ?_]
  rotate_left; rfl; exact b4
  simp [run_nil, Done, close, a8]

/-- the first SHUTDOWN is lost; T2 expires at the caller and the SHUTDOWN is sent again -/
def closingShutdownLost (n m : Nat) : List Op :=
  [.gather false [], .t2 false, .gather false [], .deliver false (n + 1), .gather true [], .deliver true m,
   .gather false [], .deliver false (n + 2)]

theorem closing_shutdown_lost (s : Sys) (h : Ready s) : Done s (s.run (closingShutdownLost s.ha.size s.hb.size)) := by
  obtain ⟨a1, a2, a3, a4, a5, a6, a7, a8, a9, a0, b0, b1, b2, b3, b4, b9, b5, b6, hpl⟩ := h
  obtain ⟨a, b, ha, hb⟩ := s
  simp only at a1 a2 a3 a4 a5 a6 a7 a8 a9 a0 b0 b1 b2 b3 b4 b9 b5 b6 hpl
  simp only [closingShutdownLost]
  rw [run_cons, step_gather_a _ _ _ _ [] _ _ (wl_shutdown a a0 a6 a4 a1 a2 a3 a7)]   -- SHUTDOWN #1 (lost)
  rw [run_cons, step_t2_a, t2_sent _ ?_ ?_ ?_]
  rotate_left; simp [t2start, a9]; exact a5; exact a1
  dsimp only
  rw [run_cons, step_gather_a _ _ _ _ [] _ _ (wl_shutdown _ ?_ ?_ ?_ ?_ ?_ ?_ ?_)]   -- SHUTDOWN #2
  rotate_left; exact a0; exact a6; exact a4; exact a1; rfl; exact a3; exact a7
  dsimp only
  rw [run_cons, step_deliver_a _ _ _ _ (ha.size + 1) _ (hist_get1 _ _ _) b4, rx_shutdown_idle b _ b1 b3 b5 b6 hpl]
  rw [run_cons, step_gather_b _ _ _ _ [] _ _ (wl_shutdownAck _ ?_ ?_ ?_ ?_ ?_)]
  rotate_left; exact b0; exact b4; exact b2; rfl; rfl
  dsimp only
  rw [run_cons, step_deliver_b _ _ _ _ hb.size _ (hist_get0 _ _) ?_, rx_shutdownAck _ ?_]
  rotate_left; exact Or.inl a1; exact a6
  dsimp only
  rw [run_cons, step_gather_a _ _ _ _ [] _ _ (wl_shutdownComplete _ [] ?_ ?_ ?_)]
  rotate_left; exact a0; exact a6; rfl
  dsimp only
  rw [run_cons, step_deliver_a _ _ _ _ (ha.size + 2) _ (hist_get2 _ _ _ _) ?_, rx_shutdownComplete _ ?_]
  rotate_left; rfl; exact b4
  simp [run_nil, Done, close, a8]

/-- the SHUTDOWN-ACK is lost; T2 expires at the caller, the retransmitted SHUTDOWN finds the peer in
SHUTDOWN-ACK-SENT, which answers again -/
def closingAckLost (n m : Nat) : List Op :=
  [.gather false [], .deliver false n, .gather true [], .t2 false, .gather false [], .deliver false (n + 1),
   .gather true [], .deliver true (m + 1), .gather false [], .deliver false (n + 2)]

theorem closing_ack_lost (s : Sys) (h : Ready s) : Done s (s.run (closingAckLost s.ha.size s.hb.size)) := by
  obtain ⟨a1, a2, a3, a4, a5, a6, a7, a8, a9, a0, b0, b1, b2, b3, b4, b9, b5, b6, hpl⟩ := h
  obtain ⟨a, b, ha, hb⟩ := s
  simp only at a1 a2 a3 a4 a5 a6 a7 a8 a9 a0 b0 b1 b2 b3 b4 b9 b5 b6 hpl
  simp only [closingAckLost]
  rw [run_cons, step_gather_a _ _ _ _ [] _ _ (wl_shutdown a a0 a6 a4 a1 a2 a3 a7)]
  rw [run_cons, step_deliver_a _ _ _ _ ha.size _ (hist_get0 _ _) b4, rx_shutdown_idle b _ b1 b3 b5 b6 hpl]
  rw [run_cons, step_gather_b _ _ _ _ [] _ _ (wl_shutdownAck _ ?_ ?_ ?_ ?_ ?_)]     -- SHUTDOWN-ACK #1 (lost)
  rotate_left; exact b0; exact b4; exact b2; rfl; rfl
  dsimp only
  rw [run_cons, step_t2_a, t2_sent _ ?_ ?_ ?_]
  rotate_left; simp [t2start, a9]; exact a5; exact a1
  dsimp only
  rw [run_cons, step_gather_a _ _ _ _ [] _ _ (wl_shutdown _ ?_ ?_ ?_ ?_ ?_ ?_ ?_)]
  rotate_left; exact a0; exact a6; exact a4; exact a1; rfl; exact a3; exact a7
  dsimp only
  rw [run_cons, step_deliver_a _ _ _ _ (ha.size + 1) _ (hist_get1 _ _ _) ?_, rx_shutdown_ackSent _ _ ?_ ?_]
  rotate_left; rfl; exact b3; exact b4
  dsimp only
  rw [run_cons, step_gather_b _ _ _ _ [] _ _ (wl_shutdownAck _ ?_ ?_ ?_ ?_ ?_)]     -- SHUTDOWN-ACK #2
  rotate_left; exact b0; exact b4; exact b2; rfl; rfl
  dsimp only
  rw [run_cons, step_deliver_b _ _ _ _ (hb.size + 1) _ (hist_get1 _ _ _) ?_, rx_shutdownAck _ ?_]
  rotate_left; exact Or.inl a1; exact a6
  dsimp only
  rw [run_cons, step_gather_a _ _ _ _ [] _ _ (wl_shutdownComplete _ [] ?_ ?_ ?_)]
  rotate_left; exact a0; exact a6; rfl
  dsimp only
  rw [run_cons, step_deliver_a _ _ _ _ (ha.size + 2) _ (hist_get2 _ _ _ _) ?_, rx_shutdownComplete _ ?_]
  rotate_left; rfl; exact b4
  simp [run_nil, Done, close, a8]

/-- the SHUTDOWN-COMPLETE is lost: the caller is closed and gone; T2 at the peer retransmits SHUTDOWN-ACK to
nobody; the peer closes when its transport closes -/
def closingCompleteLost (n m : Nat) : List Op :=
  [.gather false [], .deliver false n, .gather true [], .deliver true m, .gather false [],
   .t2 true, .gather true [], .deliver true (m + 1), .closeConn true]

theorem closing_complete_lost (s : Sys) (h : Ready s) : Done s (s.run (closingCompleteLost s.ha.size s.hb.size)) := by
  obtain ⟨a1, a2, a3, a4, a5, a6, a7, a8, a9, a0, b0, b1, b2, b3, b4, b9, b5, b6, hpl⟩ := h
  obtain ⟨a, b, ha, hb⟩ := s
  simp only at a1 a2 a3 a4 a5 a6 a7 a8 a9 a0 b0 b1 b2 b3 b4 b9 b5 b6 hpl
  simp only [closingCompleteLost]
  rw [run_cons, step_gather_a _ _ _ _ [] _ _ (wl_shutdown a a0 a6 a4 a1 a2 a3 a7)]
  rw [run_cons, step_deliver_a _ _ _ _ ha.size _ (hist_get0 _ _) b4, rx_shutdown_idle b _ b1 b3 b5 b6 hpl]
  rw [run_cons, step_gather_b _ _ _ _ [] _ _ (wl_shutdownAck _ ?_ ?_ ?_ ?_ ?_)]
  rotate_left; exact b0; exact b4; exact b2; rfl; rfl
  dsimp only
  rw [run_cons, step_deliver_b _ _ _ _ hb.size _ (hist_get0 _ _) ?_, rx_shutdownAck _ ?_]
  rotate_left; exact Or.inl a1; exact a6
  dsimp only
  rw [run_cons, step_gather_a _ _ _ _ [] _ _ (wl_shutdownComplete _ [] ?_ ?_ ?_)]   -- SHUTDOWN-COMPLETE (lost); A is closed
  rotate_left; exact a0; exact a6; rfl
  dsimp only
  rw [run_cons, step_t2_b, t2_ackSent _ ?_ ?_ ?_]
  rotate_left; simp [t2start, b9]; exact b3; rfl
  dsimp only
  rw [run_cons, step_gather_b _ _ _ _ [] _ _ (wl_shutdownAck _ ?_ ?_ ?_ ?_ ?_)]
  rotate_left; exact b0; exact b4; exact b2; rfl; rfl
  dsimp only
  rw [run_cons, step_deliver_b_dropped _ _ _ _ _ rfl]
  rw [run_cons, step_closeConn_b]
  simp [run_nil, Done, close, closeConn, a8, b4]

/-- both sides have called Shutdown and are drained: both in SHUTDOWN-SENT with their SHUTDOWN still to be sent -/
structure ReadyBoth (s : Sys) : Prop where
  a_st : s.a.st = stShutdownSent
  a_wS : s.a.wS = true
  a_wSA : s.a.wSA = false
  a_wSC : s.a.wSC = false
  a_scp : s.a.scp = false
  a_dead : s.a.dead = false
  a_ack : s.a.ack ≠ ackImmediate
  a_sd : s.a.sd = 1
  b_st : s.b.st = stShutdownSent
  b_wS : s.b.wS = true
  b_wSA : s.b.wSA = false
  b_wSC : s.b.wSC = false
  b_scp : s.b.scp = false
  b_dead : s.b.dead = false
  b_ack : s.b.ack ≠ ackImmediate
  b_sd : s.b.sd = 1
  a_wAb : s.a.wAb = false
  b_wAb : s.b.wAb = false

/-- crossed shutdown: both SHUTDOWNs on the wire at once, each answered by SHUTDOWN-ACK, each answered by SHUTDOWN-COMPLETE -/
def closingCrossed (n m : Nat) : List Op :=
  [.gather false [], .gather true [], .deliver false n, .deliver true m, .gather false [], .gather true [],
   .deliver false (n + 1), .deliver true (m + 1), .gather false [], .gather true []]

/-- both closed, both Shutdown calls returned nil, no transport failure added -/
def DoneBoth (s0 s : Sys) : Prop :=
  s.a.dead = true ∧ s.a.st = stClosed ∧ s.a.sd = 2 ∧ s.a.connFailed = s0.a.connFailed ∧
  s.b.dead = true ∧ s.b.st = stClosed ∧ s.b.sd = 2 ∧ s.b.connFailed = s0.b.connFailed

theorem closing_crossed (s : Sys) (h : ReadyBoth s) : DoneBoth s (s.run (closingCrossed s.ha.size s.hb.size)) := by
  obtain ⟨a1, a2, a3, a4, a5, a6, a7, a8, b1, b2, b3, b4, b5, b6, b7, b8, a0, b0⟩ := h
  obtain ⟨a, b, ha, hb⟩ := s
  simp only at a1 a2 a3 a4 a5 a6 a7 a8 b1 b2 b3 b4 b5 b6 b7 b8 a0 b0
  simp only [closingCrossed]
  rw [run_cons, step_gather_a _ _ _ _ [] _ _ (wl_shutdown a a0 a6 a4 a1 a2 a3 a7)]
  rw [run_cons, step_gather_b _ _ _ _ [] _ _ (wl_shutdown b b0 b6 b4 b1 b2 b3 b7)]
  rw [run_cons, step_deliver_a _ _ _ _ ha.size _ (hist_get0 _ _) ?_, rx_shutdown_sent _ _ ?_ ?_]
  rotate_left; exact b1; exact b5; exact b6
  dsimp only
  rw [run_cons, step_deliver_b _ _ _ _ hb.size _ (hist_get0 _ _) ?_, rx_shutdown_sent _ _ ?_ ?_]
  rotate_left; exact a1; exact a5; exact a6
  dsimp only
  rw [run_cons, step_gather_a _ _ _ _ [] _ _ (wl_shutdownAck _ ?_ ?_ ?_ ?_ ?_)]
  rotate_left; exact a0; exact a6; exact a4; rfl; rfl
  dsimp only
  rw [run_cons, step_gather_b _ _ _ _ [] _ _ (wl_shutdownAck _ ?_ ?_ ?_ ?_ ?_)]
  rotate_left; exact b0; exact b6; exact b4; rfl; rfl
  dsimp only
  rw [run_cons, step_deliver_a _ _ _ _ (ha.size + 1) _ (hist_get1 _ _ _) ?_, rx_shutdownAck _ ?_]
  rotate_left; exact Or.inr rfl; exact b6
  dsimp only
  rw [run_cons, step_deliver_b _ _ _ _ (hb.size + 1) _ (hist_get1 _ _ _) ?_, rx_shutdownAck _ ?_]
  rotate_left; exact Or.inr rfl; exact a6
  dsimp only
  rw [run_cons, step_gather_a _ _ _ _ [] _ _ (wl_shutdownComplete _ [] ?_ ?_ ?_)]
  rotate_left; exact a0; exact a6; rfl
  dsimp only
  rw [run_cons, step_gather_b _ _ _ _ [] _ _ (wl_shutdownComplete _ [] ?_ ?_ ?_)]
  rotate_left; exact b0; exact b6; rfl
  simp [run_nil, DoneBoth, close, a8, b8]

end Sd
