import SctpVerif.Proofs.Shutdown.Sys
/-!
How the association state moves in the shutdown model `Sd`: never back to ESTABLISHED, never to a handshake state.
-/
namespace Sd

attribute [local simp] stClosed stCookieWait stCookieEchoed stEstablished stShutdownAckSent stShutdownPending
  stShutdownReceived stShutdownSent

/-- the state stays, or becomes CLOSED or one of the four shutdown states -/
def StStep (a b : Nat) : Prop := b = a ∨ b = 0 ∨ b = 4 ∨ b = 5 ∨ b = 6 ∨ b = 7

theorem StStep.refl (a : Nat) : StStep a a := Or.inl rfl
theorem StStep.trans {a b c : Nat} (h1 : StStep a b) (h2 : StStep b c) : StStep a c := by
  unfold StStep at *; omega

theorem advance_stStep (e : Ep) (s : Nat) : StStep e.st (advance e s).st := by
  simp only [advance, StStep]; (repeat' split) <;> simp
theorem handleSack_stStep (e : Ep) (c : Nat) (g : List (Nat × Nat)) : StStep e.st (handleSack e c g).st := by
  simp only [handleSack]
  (repeat' split) <;> first | exact StStep.refl _ | exact advance_stStep _ _
theorem finishShutdown_stStep (e : Ep) (s : Nat) : StStep e.st (finishShutdown e s).st := by
  simp only [finishShutdown, StStep]; (repeat' split) <;> simp
theorem enterReceived_stStep (e : Ep) : StStep e.st (enterReceived e).st := by
  simp only [enterReceived, StStep]; (repeat' split) <;> simp
theorem handleShutdown_stStep (e : Ep) (c : Nat) : StStep e.st (handleShutdown e c).st := by
  simp only [handleShutdown, retransmitShutdownAck]
  repeat' split
  all_goals first | exact StStep.refl _ | (simp [StStep]; done) | skip
  rename_i e2 ha
  have h1 := enterReceived_stStep e
  have h2 := (ackCum_rcv _ _ _ ha).2.2
  have h3 := finishShutdown_stStep e2 e.st
  rw [h2] at h3
  exact h1.trans h3
theorem handleChunk_stStep (e : Ep) (ch : Chunk) : StStep e.st (handleChunk e ch).st := by
  cases ch with
  | data t m s k => show StStep e.st (handleData e t m s k).st; rw [handleData_st]; exact StStep.refl _
  | sack c g => exact handleSack_stStep e c g
  | shutdown c => exact handleShutdown_stStep e c
  | shutdownAck => simp only [handleChunk, handleShutdownAck, StStep]; split <;> simp
  | shutdownComplete => simp only [handleChunk, handleShutdownComplete, StStep]; split <;> simp
  | abort => simp [handleChunk, close, StStep]
theorem handlePkt_stStep (e : Ep) (p : Pkt) : StStep e.st (handlePkt e p).st := by
  have hf : ∀ (p : Pkt) (e : Ep), StStep e.st (p.foldl handleChunk e).st := by
    intro p
    induction p with
    | nil => intro e; exact StStep.refl _
    | cons ch rest ih => intro e; exact (handleChunk_stStep e ch).trans (ih _)
  simp only [handlePkt]
  have h1 := hf p { e with imm := false, del := false }
  have h2 : (chunksEnd (p.foldl handleChunk { e with imm := false, del := false })).st =
      (p.foldl handleChunk { e with imm := false, del := false }).st := congrArg (fun c => c.2.1) (chunksEnd_core _)
  rw [h2]; exact h1

theorem gather_stStep (e : Ep) (d : List (List (Nat × Nat))) : StStep e.st (gather e d).1.st := by
  have hP : (gatherPrio e).1.st = e.st := by
    simp only [gatherPrio]; (repeat' split) <;> simp [gatherShut_st, gatherSack_st]
  have hS : ∀ e : Ep, StStep e.st (gatherState e d).1.st := by
    intro e
    simp only [gatherState]
    (repeat' split) <;> simp only [gatherShut_st, gatherSack_st, sendData_st] <;>
      first | exact StStep.refl _ | (have := advance_stStep (sendData e d).1 e.st; rw [sendData_st] at this; exact this)
  simp only [gather]
  split
  · exact StStep.refl _
  · split
    · rw [gatherShut_st]; exact StStep.refl _
    · have := hS (gatherPrio e).1; rw [hP] at this; exact this

theorem writeLoopPass_stStep (e : Ep) (d : List (List (Nat × Nat))) : StStep e.st (writeLoopPass e d).1.st := by
  simp only [writeLoopPass]
  split
  · exact StStep.refl _
  · split
    · exact gather_stStep e d
    · simp [StStep]

/-- every operation moves the state of each endpoint by `StStep` -/
theorem step_stStep (s : Sys) (op : Op) (x : Bool) : StStep (s.ep x).st ((s.step op).ep x).st := by
  have hput : ∀ (y : Bool) (e : Ep) (o : List Pkt), StStep (s.ep y).st e.st → StStep (s.ep x).st ((s.put y e o).ep x).st := by
    intro y e o h
    by_cases hy : x = y
    · subst hy; simpa using h
    · have : x = !y := by cases x <;> cases y <;> simp_all
      subst this; simp only [put_ep_other]; exact StStep.refl _
  cases op with
  | write y sid => exact hput y _ _ (by simp only [write]; split <;> exact StStep.refl _)
  | shutdown y => exact hput y _ _ (by simp only [shutdownCall, StStep]; (repeat' split) <;> simp)
  | gather y d => exact hput y _ _ (writeLoopPass_stStep _ d)
  | deliver y i =>
    simp only [Sys.step]
    split
    · exact StStep.refl _
    · split
      · exact StStep.refl _
      · exact hput (!y) _ _ (handlePkt_stStep _ _)
  | t2 y => exact hput y _ _ (by rw [show (t2Fire (s.ep y)).st = (s.ep y).st from congrArg (fun c => c.2.1) (t2Fire_core _)]; exact StStep.refl _)
  | t3 y => exact StStep.refl _
  | ackt y => exact hput y _ _ (by rw [show (ackFire (s.ep y)).st = (s.ep y).st from congrArg (fun c => c.2.1) (ackFire_core _)]; exact StStep.refl _)
  | read y sid => exact hput y _ _ (StStep.refl _)
  | closeConn y => exact hput y _ _ (by simp only [closeConn, StStep]; split <;> simp)
  | closeApi y => exact hput y _ _ (by simp only [closeApi, StStep]; split <;> simp)
  | abort y => exact hput y _ _ (StStep.refl _)

/-- reachable states are CLOSED, ESTABLISHED or one of the four shutdown states -/
theorem run_stRange (ops : List Op) (x : Bool) :
    let st := ((Sys.init.run ops).ep x).st
    st = 0 ∨ st = 3 ∨ st = 4 ∨ st = 5 ∨ st = 6 ∨ st = 7 := by
  have : ∀ s : Sys, (let st := (s.ep x).st; st = 0 ∨ st = 3 ∨ st = 4 ∨ st = 5 ∨ st = 6 ∨ st = 7) →
      (let st := ((s.run ops).ep x).st; st = 0 ∨ st = 3 ∨ st = 4 ∨ st = 5 ∨ st = 6 ∨ st = 7) := by
    unfold Sys.run
    induction ops with
    | nil => intro s h; exact h
    | cons op ops ih =>
      intro s h
      simp only [List.foldl_cons]
      apply ih
      have := step_stStep s op x
      simp only [StStep] at this
      simp only at h ⊢
      omega
  apply this
  cases x <;> simp [Sys.init, Sys.ep]

end Sd
