import SctpVerif.Proofs.Shutdown.Link
/-!
The system invariant of the shutdown model `Sd` (both endpoints, both packet histories) and its
preservation by every operation, hence by every operation list: every interleaving of writes, Shutdown
calls, write-loop passes with any choice of DATA to send, deliveries of ANY packet ever sent (loss,
duplication, reordering, stale replay), T2 / T3 / ack-timer expiries, reads and transport failures.
-/
namespace Sd

structure Link (x y : Ep) (hx hy : Array Pkt) : Prop where
  data : ∀ p ∈ hx.toList, DataOk x.snd.sentq p
  acks : ∀ p ∈ hy.toList, AcksLe y.rcv.pl p
  rel : RcvRel x.snd.sentq y.rcv
  cumLe : x.snd.cum ≤ y.rcv.pl
  pre : PrefixOk x.snd.wlog y.rcv

/-- for each side `x`: its endpoint invariant, and the link from `x` as sender to the other side as receiver -/
def SysInv (s : Sys) : Prop := ∀ x : Bool, EpInv (s.ep x) ∧ Link (s.ep x) (s.ep (!x)) (s.hist x) (s.hist (!x))

theorem Link.snd_step {x y : Ep} {hx hy : Array Pkt} (h : Link x y hx hy) (x' : Ep) (out : List Pkt)
    (hext : ∃ l, x'.snd.sentq = x.snd.sentq ++ l) (hw : ∃ l, x'.snd.wlog = x.snd.wlog ++ l)
    (hc : x'.snd.cum ≤ y.rcv.pl) (ho : ∀ p ∈ out, DataOk x'.snd.sentq p) : Link x' y (hx ++ out.toArray) hy := by
  obtain ⟨l, hl⟩ := hext
  obtain ⟨lw, hlw⟩ := hw
  refine ⟨?_, h.acks, by rw [hl]; exact h.rel.ext l, hc, by rw [hlw]; exact h.pre.ext lw⟩
  intro p hp
  simp only [Array.toList_append, List.mem_append] at hp
  rcases hp with hp | hp
  · rw [hl]; exact (h.data p hp).ext l
  · exact ho p (by simpa using hp)

theorem Link.rcv_step {x y : Ep} {hx hy : Array Pkt} (h : Link x y hx hy) (y' : Ep) (out : List Pkt)
    (hs : RcvStep x.snd.sentq x.snd.wlog y.rcv y'.rcv) (ho : ∀ p ∈ out, AcksLe y'.rcv.pl p) :
    Link x y' hx (hy ++ out.toArray) := by
  refine ⟨h.data, ?_, hs.rel, Nat.le_trans h.cumLe hs.pl, hs.pre⟩
  intro p hp
  simp only [Array.toList_append, List.mem_append] at hp
  rcases hp with hp | hp
  · exact (h.acks p hp).mono hs.pl
  · exact ho p (by simpa using hp)

@[simp] theorem put_ep_same (s : Sys) (x : Bool) (e : Ep) (o : List Pkt) : (s.put x e o).ep x = e := by
  cases x <;> rfl
@[simp] theorem put_ep_other (s : Sys) (x : Bool) (e : Ep) (o : List Pkt) : (s.put x e o).ep (!x) = s.ep (!x) := by
  cases x <;> rfl
@[simp] theorem put_hist_same (s : Sys) (x : Bool) (e : Ep) (o : List Pkt) : (s.put x e o).hist x = s.hist x ++ o.toArray := by
  cases x <;> rfl
@[simp] theorem put_hist_other (s : Sys) (x : Bool) (e : Ep) (o : List Pkt) : (s.put x e o).hist (!x) = s.hist (!x) := by
  cases x <;> rfl

/-- replacing endpoint `x` by `e'` and appending `out` to its history keeps the system invariant, given the
endpoint invariant of `e'`, what its send half did relative to the peer and what its receive half did -/
theorem put_inv (s : Sys) (x : Bool) (e' : Ep) (out : List Pkt) (h : SysInv s) (he : EpInv e')
    (hext : ∃ l, e'.snd.sentq = (s.ep x).snd.sentq ++ l) (hw : ∃ l, e'.snd.wlog = (s.ep x).snd.wlog ++ l)
    (hc : e'.snd.cum ≤ (s.ep (!x)).rcv.pl) (ho : ∀ p ∈ out, DataOk e'.snd.sentq p)
    (hs : RcvStep (s.ep (!x)).snd.sentq (s.ep (!x)).snd.wlog (s.ep x).rcv e'.rcv)
    (ha : ∀ p ∈ out, AcksLe e'.rcv.pl p) : SysInv (s.put x e' out) := by
  intro z
  by_cases hz : z = x
  · subst hz
    simp only [put_ep_same, put_ep_other, put_hist_same, put_hist_other]
    exact ⟨he, (h z).2.snd_step e' out hext hw hc ho⟩
  · have hz' : z = !x := by cases z <;> cases x <;> simp_all
    subst hz'
    simp only [put_ep_other, put_hist_other, Bool.not_not, put_ep_same, put_hist_same]
    have := (h (!x)).2
    simp only [Bool.not_not] at this
    exact ⟨(h (!x)).1, this.rcv_step e' out hs ha⟩

/-- a step that leaves both halves of the endpoint alone and sends nothing -/
theorem put_inv_flags (s : Sys) (x : Bool) (e' : Ep) (h : SysInv s) (he : EpInv e')
    (hsnd : e'.snd = (s.ep x).snd) (hrcv : e'.rcv = (s.ep x).rcv) : SysInv (s.put x e' []) := by
  have hx := (h x).2
  have hy := (h (!x)).2
  simp only [Bool.not_not] at hy
  refine put_inv s x e' [] h he ⟨[], by simp [hsnd]⟩ ⟨[], by simp [hsnd]⟩ (by rw [hsnd]; exact hx.cumLe)
    (fun p hp => by cases hp) ?_ (fun p hp => by cases hp)
  rw [hrcv]
  exact RcvStep.refl hy.rel hy.pre

theorem init_sysInv : SysInv Sys.init := by
  intro x
  have hL : Link ({} : Ep) ({} : Ep) #[] #[] := by
    refine ⟨by simp, by simp, ⟨by simp, by simp, ?_, by simp⟩, by simp, ?_⟩
    · intro t ht; simp at ht
    · intro s; simp [onStream]
  cases x <;> exact ⟨init_inv, hL⟩

theorem read_rcvStep (e : Ep) (sid : Nat) (sq wlog : List Msg) (h : RcvRel sq e.rcv) (hp : PrefixOk wlog e.rcv)
    (hw : WlogOk wlog) (hsq : ∀ c ∈ sq, c ∈ wlog) : RcvStep sq wlog e.rcv (read e sid).rcv := by
  obtain ⟨d1, d2, d3⟩ := drain_rel e.rcv.store.length e.rcv sid sq wlog h hp hw hsq
  have hpl := (drain_pl e.rcv.store.length e.rcv sid).1
  simp only [read]
  split
  · exact ⟨⟨d1.plLe, d1.rqLt, d1.got, d1.storeIn⟩, d2.of_rlog rfl, by show e.rcv.pl ≤ (drain _ _ _).pl; omega, d3⟩
  · exact ⟨d1, d2, by omega, d3⟩

theorem step_inv (s : Sys) (op : Op) (h : SysInv s) : SysInv (s.step op) := by
  cases op with
  | write x sid =>
    simp only [Sys.step]
    have he := write_inv (s.ep x) sid (h x).1
    have hy := (h (!x)).2
    simp only [Bool.not_not] at hy
    have hshape : (write (s.ep x) sid).1.snd.sentq = (s.ep x).snd.sentq ∧ (write (s.ep x) sid).1.snd.cum = (s.ep x).snd.cum ∧
        (∃ l, (write (s.ep x) sid).1.snd.wlog = (s.ep x).snd.wlog ++ l) ∧ (write (s.ep x) sid).1.rcv = (s.ep x).rcv := by
      simp only [write]
      split
      · exact ⟨rfl, rfl, ⟨_, rfl⟩, rfl⟩
      · exact ⟨rfl, rfl, ⟨[], by simp⟩, rfl⟩
    obtain ⟨w1, w2, w3, w4⟩ := hshape
    refine put_inv s x _ [] h he ⟨[], by simp [w1]⟩ w3 (by rw [w2]; exact (h x).2.cumLe) (fun p hp => by cases hp) ?_
      (fun p hp => by cases hp)
    rw [w4]; exact RcvStep.refl hy.rel hy.pre
  | shutdown x =>
    simp only [Sys.step]
    exact put_inv_flags s x _ h (shutdownCall_inv _ (h x).1) (shutdownCall_snd _) (shutdownCall_rcv _)
  | gather x d =>
    simp only [Sys.step]
    have he := writeLoopPass_inv (s.ep x) d (h x).1
    obtain ⟨o1, o2, o3⟩ := writeLoopPass_out (s.ep x) d
    have hy := (h (!x)).2
    simp only [Bool.not_not] at hy
    refine put_inv s x _ _ h he o1.ext ⟨[], by simp [o1.wlog]⟩ (by rw [o1.cum]; exact (h x).2.cumLe)
      (fun p hp => (o2 p hp).1) ?_ (fun p hp => by rw [o3]; exact (o2 p hp).2)
    rw [o3]; exact RcvStep.refl hy.rel hy.pre
  | deliver x i =>
    simp only [Sys.step]
    split
    · exact h
    · rename_i p hp
      split
      · exact h
      · have hmem : p ∈ (s.hist x).toList := by
          have := Array.mem_of_getElem? hp
          simpa using this
        have hx := (h x).2
        have hy := (h (!x)).2
        simp only [Bool.not_not] at hy
        have he := handlePkt_inv (s.ep (!x)) p (h (!x)).1
        obtain ⟨s1, s2, s3⟩ := handlePkt_sndShape (s.ep (!x)) p (s.ep x).rcv.pl hy.cumLe (hy.acks p hmem)
        have hr := handlePkt_rcvStep (s.ep (!x)) p (s.ep x).snd.sentq (s.ep x).snd.wlog hx.rel hx.pre (hx.data p hmem)
        refine put_inv s (!x) _ [] h he ⟨[], by simp [s1]⟩ ⟨[], by simp [s2]⟩ (by simpa using s3) (fun p hp => by cases hp)
          (by simpa using hr) (fun p hp => by cases hp)
  | t2 x =>
    simp only [Sys.step]
    refine put_inv_flags s x _ h (t2Fire_inv _ (h x).1) (congrArg (·.1) (t2Fire_core _)) ?_
    simp only [t2Fire]; (repeat' split) <;> rfl
  | t3 x => exact h
  | ackt x =>
    simp only [Sys.step]
    refine put_inv_flags s x _ h (ackFire_inv _ (h x).1) (congrArg (·.1) (ackFire_core _)) ?_
    simp only [ackFire]; (repeat' split) <;> rfl
  | read x sid =>
    simp only [Sys.step]
    have he := read_inv (s.ep x) sid (h x).1
    have hy := (h (!x)).2
    simp only [Bool.not_not] at hy
    refine put_inv s x _ [] h he ⟨[], by simp [read]⟩ ⟨[], by simp [read]⟩ (by exact (h x).2.cumLe) (fun p hp => by cases hp) ?_
      (fun p hp => by cases hp)
    exact read_rcvStep (s.ep x) sid _ _ hy.rel hy.pre (h (!x)).1.snd.wlogOk (h (!x)).1.snd.sentIn
  | closeConn x =>
    simp only [Sys.step]
    refine put_inv_flags s x _ h (closeConn_inv _ (h x).1) ?_ ?_
    · simp only [closeConn]; split <;> rfl
    · simp only [closeConn]; split <;> rfl
  | closeApi x =>
    simp only [Sys.step]
    refine put_inv_flags s x _ h (closeApi_inv _ (h x).1) ?_ ?_
    · simp only [closeApi]; split <;> rfl
    · simp only [closeApi]; split <;> rfl
  | abort x =>
    simp only [Sys.step]
    exact put_inv_flags s x _ h (abortCall_inv _ (h x).1) rfl rfl

theorem run_inv (ops : List Op) : SysInv (Sys.init.run ops) := by
  unfold Sys.run
  have : ∀ s : Sys, SysInv s → SysInv (ops.foldl Sys.step s) := by
    induction ops with
    | nil => intro s h; exact h
    | cons op ops ih => intro s h; simp only [List.foldl_cons]; exact ih _ (step_inv s op h)
  exact this _ init_sysInv

theorem run_inv_from (s : Sys) (ops : List Op) (h : SysInv s) : SysInv (s.run ops) := by
  unfold Sys.run
  induction ops generalizing s with
  | nil => exact h
  | cons op ops ih => simp only [List.foldl_cons]; exact ih _ (step_inv s op h)

end Sd
