import SctpVerif.Proofs.TimerAuto
/-!
Invariant of the `ackTimer` automaton (`Model/Timer.lean`): the same `pending` bookkeeping as
`rtxTimer`, one shot, constant interval; plus the deadline law behind "an acknowledgement is
never delayed by more than 200 ms".
-/
namespace TimerProofs
open Timer

def AckSys.Tame (s : AckSys) : List Op → Prop
  | [] => True
  | o :: os => s.g.spawned.length < 255 ∧ AckSys.Tame (s.step o).1 os

instance AckSys.decTame : (s : AckSys) → (os : List Op) → Decidable (AckSys.Tame s os)
  | _, [] => isTrue trivial
  | s, o :: os =>
    have := AckSys.decTame (s.step o).1 os
    inferInstanceAs (Decidable (s.g.spawned.length < 255 ∧ AckSys.Tame (s.step o).1 os))

structure AInv (s : AckSys) : Prop where
  cnt : s.t.pending.toNat = live s.g
  armedStarted : s.g.armed.isSome → s.t.state = .started
  dl : ∀ d tag, s.g.armed = some (d, tag) → d = s.since + Gen.ackInterval
  alive : s.t.state = .started → 1 ≤ live s.g
  since_le : s.since ≤ s.now

theorem ainv_new : AInv ({} : AckSys) := by constructor <;> simp [live]

theorem ainv_start (s : AckSys) (h : AInv s) (hb : s.g.spawned.length < 255) : AInv s.start.1 := by
  unfold AckSys.start
  split
  · exact h
  · rename_i hst
    have hst : s.t.state = .stopped := by simpa using hst
    have hna : s.g.armed.isSome = false := by
      cases ha : s.g.armed.isSome
      · rfl
      · have := h.armedStarted ha; rw [hst] at this; cases this
    have hp : s.t.pending.toNat = s.g.spawned.length := by rw [h.cnt, live, hna]; simp
    constructor
    · simp only [GoTimer.reset, live, Option.isSome_some, if_true]
      rw [bv8_succ _ (by omega)]; omega
    · intro _; rfl
    · intro d tag hx
      simp only [GoTimer.reset, Option.some.injEq, Prod.mk.injEq] at hx
      rw [← hx.1]; simp
    · intro _; simp [live, GoTimer.reset]
    · exact Nat.le_refl _

theorem ainv_stop (s : AckSys) (h : AInv s) : AInv s.stop := by
  unfold AckSys.stop
  split
  · constructor
    · have hc := h.cnt
      simp only [live, stop_armed, stop_spawned] at hc ⊢
      by_cases ha : s.g.stop.2 = true
      · rw [if_pos ha]; rw [stop_ret] at ha; rw [if_pos ha] at hc
        rw [bv8_pred _ (by omega)]; simp; omega
      · rw [if_neg ha]; rw [stop_ret] at ha; rw [if_neg ha] at hc
        simpa using hc
    · intro hx; simp at hx
    · intro d tag hx; simp at hx
    · intro hx; simp at hx
    · exact h.since_le
  · exact h

theorem ainv_close (s : AckSys) (h : AInv s) : AInv s.close := by
  unfold AckSys.close
  split
  · constructor
    · have hc := h.cnt
      simp only [live, stop_armed, stop_spawned] at hc ⊢
      by_cases ha : s.g.stop.2 = true
      · rw [if_pos ha]; rw [stop_ret] at ha; rw [if_pos ha] at hc
        rw [bv8_pred _ (by omega)]; simp; omega
      · rw [if_neg ha]; rw [stop_ret] at ha; rw [if_neg ha] at hc
        simpa using hc
    · intro hx; simp at hx
    · intro d tag hx; simp at hx
    · intro hx; simp at hx
    · exact h.since_le
  · rename_i hst
    have hna : s.g.armed.isSome = false := by
      cases ha : s.g.armed.isSome
      · rfl
      · exact absurd (h.armedStarted ha) hst
    constructor
    · exact h.cnt
    · intro hx; rw [hna] at hx; cases hx
    · exact h.dl
    · intro hx; simp at hx
    · exact h.since_le

theorem ainv_fire (s : AckSys) (h : AInv s) : AInv s.fire := by
  unfold AckSys.fire
  split
  · rename_i ha
    obtain ⟨⟨d, tag⟩, hx⟩ := Option.isSome_iff_exists.mp ha
    have hst := h.armedStarted ha
    simp only [GoTimer.fire, hx]
    constructor
    · have hc := h.cnt
      simp only [live, ha, if_true] at hc
      simp [live]; omega
    · intro hx; simp at hx
    · intro d tag hx; simp at hx
    · intro _; simp [live]
    · exact h.since_le
  · exact h

theorem ack_run_frame (s : AckSys) (i : Nat) (hi : i < s.g.spawned.length) :
    (s.run i).1.g.spawned = s.g.spawned.eraseIdx i ∧ (s.run i).1.g.armed = s.g.armed ∧
    (s.run i).1.since = s.since ∧ (s.run i).1.now = s.now ∧
    (s.run i).1.t.pending = s.t.pending - 1 ∧
    ((s.run i).2 = none → (s.run i).1.t.state = s.t.state) ∧
    ((s.run i).2.isSome → (s.run i).1.t.state = .stopped ∧ (s.run i).2 = some .ack) ∧
    ((s.run i).2.isSome ↔ (s.t.pending - 1 = 0 ∧ s.t.state = .started)) := by
  simp only [AckSys.run, hi, if_true, AckSys.timeout]
  split
  · rename_i hc; simp; exact hc
  · rename_i hc; simp; intro h0 hst; exact hc ⟨h0, hst⟩

/-- the ack callback reaches the observer exactly when the timer is started and it is the last
outstanding callback of an unarmed runtime timer -/
theorem ack_run_delivers_iff (s : AckSys) (i : Nat) (h : AInv s) (hi : i < s.g.spawned.length) :
    (s.run i).2.isSome ↔ (s.t.state = .started ∧ s.g.armed = none ∧ s.g.spawned.length = 1) := by
  obtain ⟨_, _, _, _, _, _, _, hiff⟩ := ack_run_frame s i hi
  have hl : 1 ≤ live s.g := by unfold live; omega
  have hz : s.t.pending - 1 = 0 ↔ live s.g = 1 := by
    rw [bv8_pred_zero _ (by rw [h.cnt]; exact hl), h.cnt]
  rw [hiff, hz]
  unfold live
  constructor
  · rintro ⟨h1, hst⟩
    refine ⟨hst, ?_, ?_⟩
    · cases ha : s.g.armed with
      | none => rfl
      | some x => simp only [ha, Option.isSome_some, if_true] at h1; omega
    · by_cases ha : s.g.armed.isSome = true
      · rw [if_pos ha] at h1; omega
      · rw [if_neg ha] at h1; omega
  · rintro ⟨hst, ha, hl1⟩
    exact ⟨by simp [ha, hl1], hst⟩

theorem ainv_run (s : AckSys) (i : Nat) (h : AInv s) : AInv (s.run i).1 := by
  by_cases hi : i < s.g.spawned.length
  · obtain ⟨e1, e2, e3, e4, e5, hnone, hsome, _⟩ := ack_run_frame s i hi
    have hd := ack_run_delivers_iff s i h hi
    have hlen : (s.g.spawned.eraseIdx i).length = s.g.spawned.length - 1 := List.length_eraseIdx_of_lt hi
    have hl : 1 ≤ live s.g := by unfold live; omega
    have hlive : live (s.run i).1.g = live s.g - 1 := by unfold live; rw [e1, e2, hlen]; omega
    constructor
    · rw [e5, bv8_pred _ (by rw [h.cnt]; exact hl), h.cnt, hlive]
    · intro ha
      rw [e2] at ha
      have hst := h.armedStarted ha
      cases hr : (s.run i).2 with
      | none => rw [(hnone hr)]; exact hst
      | some e =>
        have := (hd.mp (by rw [hr]; rfl)).2.1
        rw [this] at ha; simp at ha
    · intro d tag hx; rw [e2] at hx; rw [e3]; exact h.dl d tag hx
    · intro hst
      cases hr : (s.run i).2 with
      | some e => rw [(hsome (by rw [hr]; rfl)).1] at hst; cases hst
      | none =>
        rw [hnone hr] at hst
        have hnd : ¬ (s.t.state = .started ∧ s.g.armed = none ∧ s.g.spawned.length = 1) := by
          intro hx; have := hd.mpr hx; rw [hr] at this; simp at this
        rw [hlive]
        unfold live
        by_cases ha : s.g.armed.isSome = true
        · rw [if_pos ha]; omega
        · rw [if_neg ha]
          have hna : s.g.armed = none := by
            cases hx : s.g.armed with
            | none => rfl
            | some x => rw [hx] at ha; simp at ha
          have : s.g.spawned.length ≠ 1 := fun hl => hnd ⟨hst, hna, hl⟩
          omega
    · rw [e3, e4]; exact h.since_le
  · unfold AckSys.run; simp only [hi, if_false]; exact h

theorem ainv_step (s : AckSys) (o : Op) (h : AInv s) (hb : s.g.spawned.length < 255) : AInv (s.step o).1 := by
  cases o with
  | start ivl => exact ainv_start s h hb
  | stop => exact ainv_stop s h
  | close => exact ainv_close s h
  | fire => exact ainv_fire s h
  | run i => exact ainv_run s i h
  | tick d => exact ⟨h.cnt, h.armedStarted, h.dl, h.alive, Nat.le_trans h.since_le (Nat.le_add_right _ _)⟩

theorem ack_exec_fst_cons (s : AckSys) (o : Op) (os : List Op) :
    (s.exec (o :: os)).1 = ((s.step o).1.exec os).1 := by simp [AckSys.exec]

theorem ainv_exec (s : AckSys) (os : List Op) (h : AInv s) (ht : AckSys.Tame s os) : AInv (s.exec os).1 := by
  induction os generalizing s with
  | nil => exact h
  | cons o os ih => rw [ack_exec_fst_cons]; exact ih _ (ainv_step s o h ht.1) ht.2

end TimerProofs
