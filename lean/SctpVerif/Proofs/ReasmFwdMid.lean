import SctpVerif.Proofs.ReasmFwdRun
/-!
Helper lemmas for C07 (receiver reassembly under skips), part 5: honest runs with skips, ordered I-DATA
(MID / FSN reassembly, `forwardTSNForOrderedMID`, window 2^31). Same structure as the DATA files:
`TabInvM` (table refined by `orderedMID`, anchored at the floor), `SkipInvM`, its push / read / skip steps.
-/
set_option linter.unusedVariables false
set_option linter.unusedSimpArgs false
namespace Reasm
open Gen

theorem sna32LTE_ofNat (a b : Nat) (h1 : a < b + 2^31) (h2 : b < a + 2^31) :
    sna32LTE (BitVec.ofNat 32 a) (BitVec.ofNat 32 b) = decide (a ≤ b) := by
  simp only [sna32LTE]
  rw [sna32LT_ofNat a b h1 h2]
  by_cases h : a = b
  · subst h; simp
  · have : (BitVec.ofNat 32 a == BitVec.ofNat 32 b) = false := by
      rw [beq_eq_false_iff_ne, ne_eq, ofNat32_eq_iff a b h1 h2]; exact h
    rw [this]
    simp only [Bool.false_or, decide_eq_decide]
    omega

theorem ofNat32_succ_ne (c : Nat) : BitVec.ofNat 32 (c + 1) ≠ BitVec.ofNat 32 c := by
  intro h
  have := congrArg BitVec.toNat h
  simp only [BitVec.toNat_ofNat] at this
  omega

theorem tab_unique {A : Tab} (hs : A.Pairwise (fun a b => a.1 < b.1)) {k : Nat} {js1 js2 : List Nat}
    (h1 : (k, js1) ∈ A) (h2 : (k, js2) ∈ A) : js1 = js2 := by
  induction A with
  | nil => cases h1
  | cons e rest ih =>
    rw [List.pairwise_cons] at hs
    rcases List.mem_cons.1 h1 with e1 | h1' <;> rcases List.mem_cons.1 h2 with e2 | h2'
    · rw [← e1] at e2; exact (Prod.mk.inj e2).2.symm
    · have := hs.1 _ h2'; rw [← e1] at this; simp at this
    · have := hs.1 _ h1'; rw [← e2] at this; simp at this
    · exact ih hs.2 h1' h2'

/-! ### fields of the state after `forwardTSNForOrderedMID` -/

theorem fwdOM_orderedMID (q : Q) (L : BitVec 32) :
    (q.forwardTSNForOrderedMID L).orderedMID = q.orderedMID.filter (fun s => !purgedOM L s) := by
  simp only [Q.forwardTSNForOrderedMID]; exact fwdOrderedMIDLoop_keep ..

theorem fwdOM_nextMID (q : Q) (L : BitVec 32) :
    (q.forwardTSNForOrderedMID L).nextMID = if sna32LTE q.nextMID L then L + 1 else q.nextMID := by
  simp only [Q.forwardTSNForOrderedMID]

theorem fwdOM_rest (q : Q) (L : BitVec 32) :
    (q.forwardTSNForOrderedMID L).si = q.si ∧ (q.forwardTSNForOrderedMID L).useInterleaving = q.useInterleaving ∧
    (q.forwardTSNForOrderedMID L).unordered = q.unordered ∧ (q.forwardTSNForOrderedMID L).ordered = q.ordered ∧
    (q.forwardTSNForOrderedMID L).unorderedMID = q.unorderedMID := by
  simp only [Q.forwardTSNForOrderedMID, and_self]

/-! ### the table -/

structure TabInvM (S : Sender) (τ : Nat → Nat → BitVec 32) (orderedMID : List ChunkSetMID) (f : Nat) (A : Tab) : Prop where
  ord : orderedMID = A.map (S.concSetMID τ)
  sorted : A.Pairwise (fun a b => a.1 < b.1)
  win : ∀ e ∈ A, f ≤ e.1 ∧ e.1 < f + 2^31 ∧ e.1 < S.msgs.length
  wf : ∀ e ∈ A, e.2 ≠ [] ∧ e.2.Pairwise (· < ·) ∧ ∀ j ∈ e.2, j < S.nf e.1

theorem TabInvM.raise {S τ o f A} (h : TabInvM S τ o f A) (f' : Nat) (hff : f ≤ f')
    (hle : ∀ e ∈ A, f' ≤ e.1) : TabInvM S τ o f' A :=
  { h with win := fun e he => by have := h.win e he; have := hle e he; omega }

theorem TabInvM.tail {S τ o f} {e : Nat × List Nat} {rest : Tab}
    (h : TabInvM S τ o f (e :: rest)) : TabInvM S τ (rest.map (S.concSetMID τ)) f rest :=
  { ord := rfl, sorted := (List.pairwise_cons.1 h.sorted).2,
    win := fun x hx => h.win x (List.mem_cons_of_mem _ hx),
    wf := fun x hx => h.wf x (List.mem_cons_of_mem _ hx) }

theorem TabInvM.complete_iff {S τ o f A} (h : TabInvM S τ o f A) (hS : S.WF) {e : Nat × List Nat}
    (he : e ∈ A) : (S.concSetMID τ e).isComplete = true ↔ e.2 = List.range (S.nf e.1) := by
  have hnf := S.nf_pos hS (h.win e he).2.2
  have hwf := h.wf e he
  simp only [ChunkSetMID.isComplete, Sender.concSetMID]
  constructor
  · exact completeMID_imp_all S τ e.1 e.2 hnf.2 hwf.2.2
  · intro hr; rw [hr]; exact all_imp_completeMID S τ e.1 hnf.1

def Sender.purgedEM (S : Sender) (τ : Nat → Nat → BitVec 32) (L : Nat) (e : Nat × List Nat) : Bool :=
  decide (e.1 ≤ L) && !(S.concSetMID τ e).isComplete

theorem TabInvM.purge {S τ o f A} (h : TabInvM S τ o f A) (L : Nat) (hfL : f ≤ L) (hL : L < f + 2^31) :
    TabInvM S τ (o.filter (fun s => !purgedOM (BitVec.ofNat 32 L) s)) f (A.filter (fun e => !S.purgedEM τ L e)) := by
  refine { ord := ?_, sorted := h.sorted.sublist List.filter_sublist,
           win := fun e he => h.win e (List.mem_filter.1 he).1,
           wf := fun e he => h.wf e (List.mem_filter.1 he).1 }
  rw [h.ord, List.filter_map]
  congr 1
  apply List.filter_congr
  intro e he
  have hw := h.win e he
  simp only [Function.comp, purgedOM, Sender.purgedEM]
  have : (S.concSetMID τ e).mid = BitVec.ofNat 32 e.1 := rfl
  rw [this, sna32LTE_ofNat _ _ (by omega) (by omega)]

/-! ### framing, floor, invariant -/

def Q.floorMID (q : Q) (f c : Nat) : Nat :=
  match q.orderedMID with
  | [] => c
  | s :: _ => min c (f + (s.mid - BitVec.ofNat 32 f).toNat)

def Sender.idataFr (S : Sender) (τ : Nat → Nat → BitVec 32) : Framing :=
  { frag := S.idataFrag τ, fwd := fun q L => q.forwardTSNForOrderedMID (BitVec.ofNat 32 L),
    cursor := fun q => q.nextMID.toNat, floor := Q.floorMID, W := 2^31 }

structure SkipInvM (S : Sender) (τ : Nat → Nat → BitVec 32) (K : Nat → Bool) (q : Q) (f c : Nat) (A : Tab)
    (P : List (Nat × Nat)) (D : List Nat) : Prop where
  si : q.si = S.si
  il : q.useInterleaving = false → A = []
  un : q.unordered = []
  od : q.ordered = []
  um : q.unorderedMID = []
  cur : q.nextMID = BitVec.ofNat 32 c
  tab : TabInvM S τ q.orderedMID f A
  fc : f ≤ c ∧ c < f + 2^31
  pushed : ∀ e ∈ A, ∀ j ∈ e.2, (e.1, j) ∈ P
  below : ∀ e ∈ A, e.1 < c → e.2 = List.range (S.nf e.1)
  done : ∀ k, k < c → K k = false → ∀ i, i < S.nf k → (k, i) ∈ P
  dsorted : D.Pairwise (· < ·)
  dlt : ∀ k ∈ D, k < c ∧ k < S.msgs.length ∧ ∀ e ∈ A, k < e.1
  held : ∀ k, K k = false → k ∉ D → ∀ i, (k, i) ∈ P → ∃ js, (k, js) ∈ A ∧ i ∈ js

theorem SkipInvM_new (S : Sender) (τ) (K : Nat → Bool) (me : BitVec 32) :
    SkipInvM S τ K (new S.si me) 0 0 [] [] [] := by
  refine { si := rfl, il := fun _ => rfl, un := rfl, od := rfl, um := rfl, cur := rfl, tab := ?_, fc := by omega,
           pushed := by simp, below := by simp, done := by simp, dsorted := List.Pairwise.nil, dlt := by simp,
           held := by simp }
  exact { ord := rfl, sorted := List.Pairwise.nil, win := by simp, wf := by simp }

theorem SkipInvM.raise {S τ K q f c A P D} (h : SkipInvM S τ K q f c A P D) (f' : Nat) (hff : f ≤ f') (hfc : f' ≤ c)
    (hle : ∀ e ∈ A, f' ≤ e.1) : SkipInvM S τ K q f' c A P D :=
  { h with tab := h.tab.raise f' hff hle, fc := ⟨hfc, by have := h.fc; omega⟩ }

theorem floorMID_spec {S : Sender} {τ} {q : Q} {f c : Nat} {A : Tab} (h : TabInvM S τ q.orderedMID f A) (hfc : f ≤ c) :
    f ≤ q.floorMID f c ∧ q.floorMID f c ≤ c ∧ (∀ e ∈ A, q.floorMID f c ≤ e.1) ∧
    (q.floorMID f c = c ∨ ∃ e ∈ A, q.floorMID f c = e.1) := by
  unfold Q.floorMID
  cases hA : A with
  | nil =>
    have : q.orderedMID = [] := by rw [h.ord, hA]; rfl
    rw [this]
    exact ⟨hfc, Nat.le_refl _, by simp, .inl rfl⟩
  | cons e rest =>
    have ho : q.orderedMID = S.concSetMID τ e :: rest.map (S.concSetMID τ) := by rw [h.ord, hA]; rfl
    rw [ho]
    have hw := h.win e (by rw [hA]; exact List.mem_cons_self ..)
    have hs := h.sorted
    rw [hA, List.pairwise_cons] at hs
    have hsub : ((S.concSetMID τ e).mid - BitVec.ofNat 32 f).toNat = e.1 - f := by
      show (BitVec.ofNat 32 e.1 - BitVec.ofNat 32 f).toNat = _
      rw [ofNat32_sub f e.1 hw.1]; omega
    simp only [hsub]
    have e1 : f + (e.1 - f) = e.1 := by omega
    rw [e1]
    refine ⟨by omega, by omega, ?_, ?_⟩
    · intro x hx
      rcases List.mem_cons.1 hx with rfl | hx
      · omega
      · have := hs.1 x hx; omega
    · rcases Nat.le_total c e.1 with hle | hle
      · left; omega
      · right; exact ⟨e, List.mem_cons_self .., by omega⟩

theorem SkipInvM.refloor {S τ K q f c A P D} (h : SkipInvM S τ K q f c A P D) :
    SkipInvM S τ K q (q.floorMID f c) c A P D := by
  obtain ⟨h1, h2, h3, _⟩ := floorMID_spec h.tab h.fc.1
  exact h.raise _ h1 h2 h3

/-- a late fragment of an abandoned message: dropped at the door (the queue only learns that the peer uses I-DATA). -/
theorem SkipInvM.late {S τ K q f c A P D} (h : SkipInvM S τ K q f c A P D) {k i : Nat} (hK : K k = true) (q' : Q)
    (hsi : q'.si = q.si) (hun : q'.unordered = q.unordered) (hod : q'.ordered = q.ordered)
    (hum : q'.unorderedMID = q.unorderedMID) (hcur : q'.nextMID = q.nextMID) (hom : q'.orderedMID = q.orderedMID)
    (hil : q'.useInterleaving = true) :
    SkipInvM S τ K q' f c A ((k, i) :: P) D :=
  { si := by rw [hsi, h.si], il := (by rw [hil]; intro hc; cases hc), un := by rw [hun, h.un], od := by rw [hod, h.od],
    um := by rw [hum, h.um], cur := by rw [hcur, h.cur], tab := by rw [hom]; exact h.tab, fc := h.fc,
    pushed := fun e he j hj => List.mem_cons_of_mem _ (h.pushed e he j hj), below := h.below,
    done := fun k' hk' hK' i' hi' => List.mem_cons_of_mem _ (h.done k' hk' hK' i' hi'),
    dsorted := h.dsorted, dlt := h.dlt,
    held := by
      intro k0 hK0 hD0 i0 hi0
      rcases List.mem_cons.1 hi0 with e | hi0
      · have : k0 = k := (Prod.mk.inj e).1
        rw [this, hK] at hK0; cases hK0
      · exact h.held k0 hK0 hD0 i0 hi0 }

theorem SkipInvM.afterPush {S τ K q f c A P D} (h : SkipInvM S τ K q f c A P D) {k i : Nat} (hck : c ≤ k) (q' : Q) (A' : Tab)
    (hsi : q'.si = q.si) (hil : q'.useInterleaving = true) (hun : q'.unordered = q.unordered)
    (hod : q'.ordered = q.ordered) (hum : q'.unorderedMID = q.unorderedMID)
    (hcur : q'.nextMID = q.nextMID) (htab : TabInvM S τ q'.orderedMID f A')
    (m1 : ∀ e ∈ A', e ∈ A ∨ (e.1 = k ∧ ∀ j ∈ e.2, j = i ∨ ∃ js, (k, js) ∈ A ∧ j ∈ js))
    (m2 : ∀ e ∈ A, e.1 ≠ k → e ∈ A')
    (m3 : ∃ js', (k, js') ∈ A' ∧ i ∈ js' ∧ ∀ js, (k, js) ∈ A → ∀ j ∈ js, j ∈ js') :
    SkipInvM S τ K q' f c A' ((k, i) :: P) D := by
  refine { si := by rw [hsi, h.si], il := (by rw [hil]; intro hc; cases hc), un := by rw [hun, h.un],
           od := by rw [hod, h.od], um := by rw [hum, h.um], cur := by rw [hcur, h.cur],
           tab := htab, fc := h.fc, pushed := ?_, below := ?_,
           done := fun k' hk' hK' i' hi' => List.mem_cons_of_mem _ (h.done k' hk' hK' i' hi'),
           dsorted := h.dsorted, dlt := ?_, held := ?_ }
  · intro e he j hj
    rcases m1 e he with he | ⟨hek, hjs⟩
    · exact List.mem_cons_of_mem _ (h.pushed e he j hj)
    · rcases hjs j hj with rfl | ⟨js, hjs, hjj⟩
      · rw [hek]; exact List.mem_cons_self ..
      · rw [hek]; exact List.mem_cons_of_mem _ (h.pushed _ hjs j hjj)
  · intro e he hec
    rcases m1 e he with he | ⟨hek, _⟩
    · exact h.below e he hec
    · omega
  · intro k0 hk0
    obtain ⟨a, b, d⟩ := h.dlt k0 hk0
    refine ⟨a, b, ?_⟩
    intro e he
    rcases m1 e he with he | ⟨hek, _⟩
    · exact d e he
    · omega
  · intro k0 hK0 hD0 i0 hi0
    obtain ⟨js', hjs', hi', hsup⟩ := m3
    rcases List.mem_cons.1 hi0 with e | hi0
    · obtain ⟨rfl, rfl⟩ := Prod.mk.inj e
      exact ⟨js', hjs', hi'⟩
    · obtain ⟨js0, hjs0, hij0⟩ := h.held k0 hK0 hD0 i0 hi0
      by_cases hkk : k0 = k
      · subst hkk
        exact ⟨js', hjs', hsup js0 hjs0 i0 hij0⟩
      · exact ⟨js0, m2 _ hjs0 hkk, hij0⟩

theorem SkipInvM.push {S τ K q f c A P D} (h : SkipInvM S τ K q f c A P D) (hS : S.WF) {k i : Nat}
    (hk : k < S.msgs.length) (hi : i < S.nf k) (hP : (k, i) ∉ P) (hw : k < f + 2^31) (hlate : c < k + 2^31)
    (hok : (q.pushWithError (S.idataFrag τ k i)).2.2 = Err.none) :
    ∃ A', SkipInvM S τ K (q.pushWithError (S.idataFrag τ k i)).1 f c A' ((k, i) :: P) D := by
  have hnf := S.nf_pos hS hk
  have hfc := h.fc
  have c1 : (S.idataFrag τ k i).iData = true := rfl
  have c2 : ((S.idataFrag τ k i).si != q.si) = false := by simp [Sender.idataFrag, h.si]
  have c3 : (S.idataFrag τ k i).unordered = false := rfl
  have c5 : (S.idataFrag τ k i).mid = BitVec.ofNat 32 k := rfl
  rcases Nat.lt_or_ge k c with hkc | hck
  · have hKk : K k = true := by
      cases hK : K k with
      | true => rfl
      | false => exact absurd (h.done k hkc hK i hi) hP
    have hq : (q.pushWithError (S.idataFrag τ k i)).1 = { q with useInterleaving := true } := by
      unfold Q.pushWithError
      simp only [c1, ↓reduceIte]
      unfold Q.pushIData
      simp only [c2, c3, Bool.false_eq_true, ↓reduceIte]
      unfold Q.pushOrderedIData
      have c4 : sna32LT (BitVec.ofNat 32 k) q.nextMID = true := by
        rw [h.cur, sna32LT_ofNat _ _ (by omega) (by omega)]; simp; omega
      simp only [c5, c4, ↓reduceIte]
    rw [hq]
    exact ⟨A, h.late hKk _ rfl rfl rfl rfl rfl rfl rfl⟩
  · have hfk : f ≤ k := by omega
    have hwinA : ∀ e ∈ A, e.1 < k + 2^31 ∧ k < e.1 + 2^31 := fun e he => by
      have := h.tab.win e he; omega
    unfold Q.pushWithError at hok ⊢
    simp only [c1, ↓reduceIte] at hok ⊢
    unfold Q.pushIData at hok ⊢
    simp only [c2, c3, Bool.false_eq_true, ↓reduceIte] at hok ⊢
    unfold Q.pushOrderedIData at hok ⊢
    have c4 : sna32LT (BitVec.ofNat 32 k) q.nextMID = false := by
      rw [h.cur, sna32LT_ofNat _ _ (by omega) (by omega)]; simp; omega
    simp only [c5, c4, Bool.false_eq_true, ↓reduceIte, h.tab.ord] at hok ⊢
    rcases findMID_conc S τ k A hwinA with ⟨hfresh, hnone⟩ | ⟨pre, js, post, hA, hsome, hupd⟩
    · rw [hnone] at hok ⊢
      simp only at hok ⊢
      split
      · rename_i hlim
        simp only [hlim, ↓reduceIte] at hok; cases hok
      · -- new set
        have hpc := pushAndCheck_conc S τ k i [] (newChunkSetMID (BitVec.ofNat 32 k) (S.idataFrag τ k i).ppi)
          rfl rfl (by simp) (by omega) (by simp)
        have hset : ((newChunkSetMID (BitVec.ofNat 32 k) (S.idataFrag τ k i).ppi).pushAndCheck (S.idataFrag τ k i)).1
            = S.concSetMID τ (k, [i]) := by
          rw [hpc.2]
          simp only [List.nil_append, goSort_singleton, newChunkSetMID, Sender.concSetMID, List.map_cons, List.map_nil,
            List.mem_singleton]
          congr 1
          by_cases h0 : i = 0
          · simp [h0]
          · simp [h0, Sender.idataFrag]; omega
        simp only [hpc.1, Bool.not_true, Bool.false_eq_true, ↓reduceIte, hset]
        obtain ⟨A', hins, hsorted', hmem⟩ := insertMID_conc S τ (k, [i]) A f h.tab.sorted
          (fun e he => by have := h.tab.win e he; omega) ⟨hfk, hw⟩ hfresh
        have htab : TabInvM S τ (insertChunkSetByMID (A.map (S.concSetMID τ)) (S.concSetMID τ (k, [i]))) f A' :=
          { ord := hins, sorted := hsorted',
            win := by
              intro e he
              rcases (hmem e).1 he with he | rfl
              · exact h.tab.win e he
              · exact ⟨hfk, hw, hk⟩
            wf := by
              intro e he
              rcases (hmem e).1 he with he | rfl
              · exact h.tab.wf e he
              · refine ⟨by simp, by simp, ?_⟩
                intro j hj; simp only [List.mem_singleton] at hj; subst hj; exact hi }
        refine ⟨A', h.afterPush hck _ A' (by simp [Q.addBytes]) (by simp [Q.addBytes]) (by simp [Q.addBytes])
          (by simp [Q.addBytes]) (by simp [Q.addBytes]) (by simp [Q.addBytes]) (by simpa [Q.addBytes] using htab) ?_ ?_ ?_⟩
        · intro x hx
          rcases (hmem x).1 hx with hx | rfl
          · exact .inl hx
          · exact .inr ⟨rfl, fun j hj => .inl (by simpa using hj)⟩
        · intro x hx _; exact (hmem x).2 (.inl hx)
        · exact ⟨[i], (hmem _).2 (.inr rfl), by simp, fun js hjs => absurd rfl (hfresh _ hjs)⟩
    · rw [hsome] at hok ⊢
      simp only at hok ⊢
      have hin : (k, js) ∈ A := by rw [hA]; simp
      have hnotin : i ∉ js := fun hij => hP (h.pushed _ hin i hij)
      have hwf := h.tab.wf _ hin
      simp only at hwf
      have hinc : (S.concSetMID τ (k, js)).isComplete = false := by
        cases hc : (S.concSetMID τ (k, js)).isComplete with
        | false => rfl
        | true =>
          have := completeMID_imp_all S τ k js hnf.2 hwf.2.2 (by simpa [ChunkSetMID.isComplete, Sender.concSetMID] using hc)
          exact absurd (by rw [this]; simp [hi]) hnotin
      have hpc := pushAndCheck_conc S τ k i js (S.concSetMID τ (k, js)) rfl hinc
        (fun j hj => by have := hwf.2.2 j hj; omega) (by omega) hnotin
      let js' := goSort (fun a b => decide (a < b)) (js ++ [i])
      have hmemj : ∀ j, j ∈ js' ↔ j ∈ js ∨ j = i := by
        intro j; simp only [js']; rw [goSort_mem]; simp
      have hset : ((S.concSetMID τ (k, js)).pushAndCheck (S.idataFrag τ k i)).1 = S.concSetMID τ (k, js') := by
        rw [hpc.2]
        simp only [Sender.concSetMID]
        congr 1
        by_cases h0 : i = 0
        · have : 0 ∈ js' := (hmemj 0).2 (.inr h0.symm)
          simp [h0, this]
        · have : 0 ∈ js' ↔ 0 ∈ js := by
            rw [hmemj 0]; constructor
            · rintro (h | h)
              · exact h
              · exact absurd h.symm h0
            · exact .inl
          simp only [h0, ↓reduceIte, this]
      simp only [hpc.1, Bool.not_true, Bool.false_eq_true, ↓reduceIte, hset, hupd]
      have hmemA : ∀ e, e ∈ pre ++ (k, js') :: post → e = (k, js') ∨ e ∈ A := by
        intro e he
        rw [hA]
        simp only [List.mem_append, List.mem_cons] at he ⊢
        rcases he with he | rfl | he
        · right; exact .inl he
        · left; rfl
        · right; exact .inr (.inr he)
      have htab : TabInvM S τ (pre.map (S.concSetMID τ) ++ S.concSetMID τ (k, js') :: post.map (S.concSetMID τ)) f
          (pre ++ (k, js') :: post) :=
        { ord := by simp,
          sorted := by
            have hs := h.tab.sorted
            rw [hA, List.pairwise_append, List.pairwise_cons] at hs
            rw [List.pairwise_append, List.pairwise_cons]
            refine ⟨hs.1, ⟨fun b hb => hs.2.1.1 b hb, hs.2.1.2⟩, ?_⟩
            intro a ha b hb
            rcases List.mem_cons.1 hb with rfl | hb
            · exact hs.2.2 a ha (k, js) (List.mem_cons_self ..)
            · exact hs.2.2 a ha b (List.mem_cons_of_mem _ hb)
          win := by
            intro e he
            rcases hmemA e he with rfl | he
            · exact h.tab.win (k, js) hin
            · exact h.tab.win e he
          wf := by
            intro e he
            rcases hmemA e he with rfl | he
            · refine ⟨?_, ?_, ?_⟩
              · intro hnil
                have := (hmemj i).2 (.inr rfl)
                simp only at hnil; rw [hnil] at this; simp at this
              · apply goSort_sorted (fun a : Nat => a)
                rw [List.pairwise_append]
                refine ⟨hwf.2.1.imp (fun hab => by omega), by simp, ?_⟩
                intro a ha b hb
                simp only [List.mem_singleton] at hb; subst hb
                intro hab; exact hnotin (hab ▸ ha)
              · intro j hj
                rcases (hmemj j).1 hj with hj | rfl
                · exact hwf.2.2 j hj
                · exact hi
            · exact h.tab.wf e he }
      have hun : ∀ js0, (k, js0) ∈ A → js0 = js := fun js0 h0 => tab_unique h.tab.sorted h0 hin
      refine ⟨pre ++ (k, js') :: post, h.afterPush hck _ _ (by simp [Q.addBytes]) (by simp [Q.addBytes])
        (by simp [Q.addBytes]) (by simp [Q.addBytes]) (by simp [Q.addBytes]) (by simp [Q.addBytes])
        (by simpa [Q.addBytes] using htab) ?_ ?_ ?_⟩
      · intro x hx
        simp only [List.mem_append, List.mem_cons] at hx
        rcases hx with hx | rfl | hx
        · left; rw [hA]; simp [hx]
        · right
          refine ⟨rfl, fun j hj => ?_⟩
          rcases (hmemj j).1 hj with hj | rfl
          · exact .inr ⟨js, hin, hj⟩
          · exact .inl rfl
        · left; rw [hA]; simp [hx]
      · intro x hx hxk
        rw [hA] at hx
        simp only [List.mem_append, List.mem_cons] at hx ⊢
        rcases hx with hx | rfl | hx
        · exact .inl hx
        · exact absurd rfl hxk
        · exact .inr (.inr hx)
      · refine ⟨js', by simp, (hmemj i).2 (.inr rfl), ?_⟩
        intro js0 h0 j hj
        rw [hun js0 h0] at hj
        exact (hmemj j).2 (.inl hj)

end Reasm
