import SctpVerif.Proofs.StreamApi.Read
import SctpVerif.Proofs.StreamApi.Write
import SctpVerif.Proofs.StreamApi.Ids
import SctpVerif.Proofs.StreamApi.Frames
import SctpVerif.Proofs.StreamApi.Run
import SctpVerif.Proofs.StreamApi.Step
import SctpVerif.Proofs.StreamApi.Gate
import SctpVerif.Proofs.StreamApi.Park
import SctpVerif.Proofs.StreamApi.Evol
import SctpVerif.Proofs.StreamApi.EvolAck
import SctpVerif.Proofs.StreamApi.Policy
import SctpVerif.Proofs.StreamApi.PolicyRun
import SctpVerif.Proofs.StreamApi.PolicyCtx
/-! Helper lemmas about the L0 model `Model/StreamApi.lean` (used by `Props/C18.lean`, `Props/C06.lean`):
`Read` the read half (`reassemblyQueue.read` by the message at its head, short buffer, deadline timer) · `Write` the three
outcomes of `write` · `Ids` counters and fragments of `packetize` · `Frames` what the sender operations leave alone in the
stream table · `Run`/`Step` the invariant of parked calls and the settled counters along runs · `Gate` the blocking-write
gate · `Park` a parked call that fails · `Evol`/`EvolAck` how one in-flight chunk changes under gather / SACK / T3 / ticks (`Closed` per-chunk predicates) ·
`Policy` the three predicates (retransmission limit, lifetime, abandoned()) · `PolicyRun`/`PolicyCtx` their lifting to runs. -/
