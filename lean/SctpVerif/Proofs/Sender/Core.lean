import SctpVerif.Proofs.Sender.Acct
/-! The association-level books (`infBytes`, `penBytes`, `penChunks` against the queued chunks) hold along EVERY run:
they do not depend on the stream table, hence not on deviation D9, nor on any overflow flag. -/
namespace SenderProofs
open Gen Sender

structure Core (s : St) : Prop where
  inf : s.infBytes = (sumLen s.inflight : Int)
  pen : s.penBytes = (sumLen s.pending : Int)
  penN : s.penChunks = (s.pending.length : Int)
  ackedEmpty : ∀ c ∈ s.inflight, c.acked = true → c.len = 0
  penSmall : ∀ c ∈ s.pending, c.len < 2^32 ∧ c.acked = false

theorem Books.core {s : St} (h : Books s) : Core s := ⟨h.inf, h.pen, h.penN, h.ackedEmpty, h.penSmall⟩

/-- the fields `Core` reads -/
def SameCore (s s' : St) : Prop :=
  s'.infBytes = s.infBytes ∧ s'.inflight.map Chunk.core = s.inflight.map Chunk.core ∧ s'.pending = s.pending ∧
  s'.penBytes = s.penBytes ∧ s'.penChunks = s.penChunks

theorem SameBooks.sameCore {s s' : St} (h : SameBooks s s') : SameCore s s' := ⟨h.1, h.2.1, h.2.2.1, h.2.2.2.1, h.2.2.2.2.1⟩

theorem SameCore.trans {a b c : St} (h1 : SameCore a b) (h2 : SameCore b c) : SameCore a c :=
  ⟨h2.1.trans h1.1, h2.2.1.trans h1.2.1, h2.2.2.1.trans h1.2.2.1, h2.2.2.2.1.trans h1.2.2.2.1, h2.2.2.2.2.trans h1.2.2.2.2⟩

theorem SameCore.transfer {s s' : St} (h : SameCore s s') (hb : Core s) : Core s' := by
  obtain ⟨h1, h2, h3, h4, h5⟩ := h
  obtain ⟨c1, _, c3⟩ := sums_of_core h2.symm
  exact ⟨by rw [h1, hb.inf, c1], by rw [h4, h3, hb.pen], by rw [h5, h3, hb.penN], c3 hb.ackedEmpty, by rw [h3]; exact hb.penSmall⟩

theorem popPend_core (s : St) (i : Nat) (c : Chunk) (hb : Core s) (hp : s.pending[i]? = some c) (hz : c.len = 0) : Core (popPend s i c) := by
  obtain ⟨e1, e2, e3⟩ := sumLen_eraseIdx hp
  have hpen := hb.pen
  refine ⟨hb.inf, ?_, ?_, hb.ackedEmpty, fun x hx => hb.penSmall x (mem_eraseIdx hx)⟩
  · simp only [popPend, hz]; rw [hpen]; simp; split <;> omega
  · simp only [popPend]; rw [hb.penN]; omega

theorem move_core (s : St) (i : Nat) (c : Chunk) (hb : Core s) (hp : s.pending[i]? = some c) : Core (move s i c).1 := by
  obtain ⟨e1, e2, e3⟩ := sumLen_eraseIdx hp
  obtain ⟨hsmall, hfresh⟩ := hb.penSmall c (List.mem_of_getElem? hp)
  refine ⟨?_, ?_, ?_, ?_, ?_⟩
  · simp only [move, popPend, sumLen_append, sumLen]; rw [hb.inf]; push_cast; omega
  · simp only [move, popPend]; rw [hb.pen]; split <;> omega
  · simp only [move, popPend]; rw [hb.penN]; omega
  · intro x hx
    simp only [move, popPend, List.mem_append, List.mem_singleton] at hx
    rcases hx with h | h
    · exact hb.ackedEmpty x h
    · subst h; intro ha; simp only at ha; rw [hfresh] at ha; cases ha
  · intro x hx
    simp only [move, popPend] at hx
    exact hb.penSmall x (mem_eraseIdx hx)

theorem popLoop_core {B : Type} (allow : B → Int → Bool × B) (fuel : Nat) (s : St) (sel : List Nat) (a : PopAcc B) (hb : Core s) :
    Core (popLoop allow fuel s sel a).1 := by
  induction fuel generalizing s sel a with
  | zero => exact hb
  | succ fuel ih =>
    simp only [popLoop]
    cases hp : peek s sel with
    | none => exact hb
    | some ic =>
      obtain ⟨i, c⟩ := ic
      simp only
      have hpi := peek_some hp
      split
      · rename_i hz
        have hlen : c.len = 0 := by
          have := (hb.penSmall c (List.mem_of_getElem? hpi)).1
          have hz' : BitVec.ofNat 32 c.len = 0 := by simpa using hz
          have := congrArg BitVec.toNat hz'
          simp [BitVec.toNat_ofNat] at this; omega
        exact ih _ _ _ (popPend_core s i c hb hpi hlen)
      · cases hd : popDecide s allow a c with
        | skip => exact hb
        | stop b => exact hb
        | take b bip =>
          simp only
          exact ih _ _ _ (move_core (chargeSend s c) i c ((chargeSend_same s c).sameCore.transfer hb) hpi)

theorem probe_core {B : Type} (allow : B → Int → Bool × B) (s : St) (sel : List Nat) (a : PopAcc B) (hb : Core s) :
    Core (probe allow s sel a).1 := by
  unfold probe
  split
  · cases hp : peek s sel with
    | none => exact hb
    | some ic =>
      obtain ⟨i, c⟩ := ic
      simp only
      split
      · split
        · split
          · exact move_core (chargeProbe s c) i c ((chargeProbe_same s c).sameCore.transfer hb) (peek_some hp)
          · exact hb
        · exact hb
      · exact hb
  · exact hb

theorem gather_core (s : St) (orc : Oracle) (sel : List Nat) (hb : Core s) : Core (gather s orc sel).1 := by
  unfold gather
  split
  · exact hb
  · simp only
    have b1 : Core (gatherRtx s orc).1 := (gatherRtx_same s orc).sameCore.transfer hb
    have b2 : Core (gatherNew (gatherRtx s orc).1 orc.allow (gatherRtx s orc).2.2 sel).1 := by
      unfold gatherNew
      split
      · exact probe_core _ _ _ _ (popLoop_core _ _ _ _ _ b1)
      · exact b1
    have b3 := (gatherFast_same _ orc.allow (gatherNew (gatherRtx s orc).1 orc.allow (gatherRtx s orc).2.2 sel).2.b).sameCore.transfer b2
    refine SameCore.transfer ?_ b3
    exact ⟨rfl, rfl, rfl, rfl, rfl⟩

theorem ackPhase_core {s : St} {cum : BitVec 32} {gaps : List (BitVec 16 × BitVec 16)} {r : St × BitVec 32 × Bool}
    (hb : Core s) (h : ackPhase s cum gaps = some r) : Core r.1 := by
  unfold ackPhase at h
  split at h
  · cases h
  · rename_i qa hp
    split at h
    · cases h
    · rename_i g hg
      simp only [Option.some.injEq] at h
      subst h
      obtain ⟨p1, p2, p3, p4, p5, _⟩ := popCum_spec _ _ _ _ _ hb.ackedEmpty (by intro e he; simp at he) (by simp [RelKeysNodup]) hp
      have g0 : GapOk { q := qa.1, infBytes := qa.2.infBytes, rel := qa.2.rel, htna := cum } { q := qa.1, infBytes := qa.2.infBytes, rel := qa.2.rel, htna := cum } :=
        GapOk.refl _ (fun c hc => hb.ackedEmpty c (p1 c hc)) p4 p5
      have gk := markGaps_spec cum gaps _ _ g0 hg
      have hinf : g.infBytes = (sumLen g.q : Int) := by
        have := gk.inf
        have := hb.inf
        simp only at *
        omega
      simp only [ackApply]
      obtain ⟨f1, f2, f3, f4, f5, f6, f7, f8, f9, f10, _⟩ := releaseAll_frame g.rel
        (if sna32LT s.cumAck cum then onCumAdvanced { s with inflight := g.q, infBytes := g.infBytes, inFastRecovery := qa.2.inFR, cumAck := cum } (relTotal g.rel)
         else { s with inflight := g.q, infBytes := g.infBytes, inFastRecovery := qa.2.inFR })
      have key : ∀ x : St, x.inflight = g.q → x.infBytes = g.infBytes → x.pending = s.pending → x.penBytes = s.penBytes →
          x.penChunks = s.penChunks → Core x := by
        intro x h1 h2 h3 h4 h5
        exact ⟨by rw [h1, h2]; exact hinf, by rw [h3, h4]; exact hb.pen, by rw [h3, h5]; exact hb.penN, by rw [h1]; exact gk.ackedEmpty,
          by rw [h3]; exact hb.penSmall⟩
      apply key
      · rw [f7]; split
        · exact (onCumAdvanced_same _ _).2
        · rfl
      · rw [f2]; split
        · exact (onCumAdvanced_same _ _).1.1
        · rfl
      · rw [f8]; split
        · exact (onCumAdvanced_same _ _).1.2.2.1
        · rfl
      · rw [f9]; split
        · exact (onCumAdvanced_same _ _).1.2.2.2.1
        · rfl
      · rw [f10]; split
        · exact (onCumAdvanced_same _ _).1.2.2.2.2.1
        · rfl

theorem sack_core (s : St) (cum arwnd : BitVec 32) (gaps : List (BitVec 16 × BitVec 16)) (marks : List (BitVec 32))
    (hb : Core s) (hm : s.cfg.mtu.toNat < 2^30) : Core (sack s cum arwnd gaps marks).1 := by
  unfold sack
  split
  · exact hb
  · split
    · exact hb
    · split
      · exact hb
      · cases ha : ackPhase s cum gaps with
        | none => exact hb
        | some r =>
          simp only
          have hcfg := (ackPhase_win ha).1
          have hm' : (setPeerWindow r.1 arwnd).cfg.mtu.toNat < 2^30 := by show r.1.cfg.mtu.toNat < 2^30; rw [hcfg]; exact hm
          have f1 := (fastRetransCheck_frame (setPeerWindow r.1 arwnd) cum gaps r.2.1 r.2.2 hm').1.books
          have c0 : Core (setPeerWindow r.1 arwnd) := (setPeerWindow_same r.1 arwnd).sameCore.transfer (ackPhase_core hb ha)
          split
          · exact f1.sameCore.transfer c0
          · have p1 := (prStep_frame (fastRetransCheck (setPeerWindow r.1 arwnd) cum gaps r.2.1 r.2.2).1).1.books
            have m1 := (applyMarks_frame (prStep (fastRetransCheck (setPeerWindow r.1 arwnd) cum gaps r.2.1 r.2.2).1) marks).1.books
            exact (SameBooks.trans f1 (SameBooks.trans p1 m1)).sameCore.transfer c0

theorem write_core (s : St) (si : BitVec 16) (ppi : BitVec 32) (len : Nat) (hb : Core s) : Core (write s si ppi len).1 := by
  unfold write
  cases hs : s.streams si with
  | none => exact hb
  | some st =>
    simp only
    by_cases h1 : len > s.cfg.maxMessageSize.toNat
    · simpa [h1] using hb
    · by_cases h2 : len = 0
      · simpa [h1, h2] using hb
      · by_cases hmp : s.cfg.maxPayload = 0
        · simpa [h1, h2, hmp] using hb
        · simp only [h1, h2, hmp, if_false]
          obtain ⟨p1, p2, p3, p4, p5, p6, _⟩ := packetize_spec s.cfg st si s.nextMsg ppi len hmp
          split
          · refine ⟨hb.inf, ?_, ?_, hb.ackedEmpty, ?_⟩
            · simp only [pushPending, setStream, sumLen_append]; rw [hb.pen]; push_cast; omega
            · simp only [pushPending, setStream, List.length_append]; rw [hb.penN]; push_cast; omega
            · intro c hc
              simp only [pushPending, setStream, List.mem_append] at hc
              rcases hc with h | h
              · exact hb.penSmall c h
              · obtain ⟨a1, a2, a3, _⟩ := p6 c h
                exact ⟨by have := s.cfg.maxPayload.isLt; omega, a3⟩
          · exact ⟨hb.inf, hb.pen, hb.penN, hb.ackedEmpty, hb.penSmall⟩

theorem step_core (s : St) (op : Op) (hb : Core s) (hm : CfgOk s.cfg) : Core (step s op) := by
  cases op with
  | openS si u rt rv th => exact ⟨hb.inf, hb.pen, hb.penN, hb.ackedEmpty, hb.penSmall⟩
  | unreg si =>
    simp only [step, unregister]
    split
    · exact hb
    · exact ⟨hb.inf, hb.pen, hb.penN, hb.ackedEmpty, hb.penSmall⟩
  | setEstablished b => exact ⟨hb.inf, hb.pen, hb.penN, hb.ackedEmpty, hb.penSmall⟩
  | write si ppi len => exact write_core s si ppi len hb
  | gather orc sel => exact gather_core s orc sel hb
  | sack cum arwnd gaps marks => exact sack_core s cum arwnd gaps marks hb hm
  | t3 => exact (t3_same s).sameCore.transfer hb
  | tick ms n marks =>
    have h1 : SameBooks s { s with now := s.now + ms } := ⟨rfl, rfl, rfl, rfl, rfl, rfl, rfl, rfl⟩
    have h2 := iter_t3_same n { s with now := s.now + ms }
    have h3 := (applyMarks_frame (iter t3 n { s with now := s.now + ms }) marks).1.books
    exact (SameBooks.trans h1 (SameBooks.trans h2 h3)).sameCore.transfer hb

theorem run_core (s : St) (ops : List Op) (hb : Core s) (hw : WinInv s) : Core (run s ops) := by
  induction ops generalizing s with
  | nil => exact hb
  | cons op ops ih => exact ih (step s op) (step_core s op hb hw.cfgOk) (step_win s op hw).1

end SenderProofs
