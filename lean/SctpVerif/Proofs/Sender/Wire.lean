import SctpVerif.Proofs.Sender.Acct
/-!
What the sender puts on the wire is what the application wrote.

`Chunk.frag` is everything of a DATA / I-DATA chunk that identifies the piece of user data it carries (stream, message
identity, PPI, U/B/E flags, SSN, MID, FSN); together with `len` it is what the receiver reassembles. The invariant
`WireInv W s` says: every queued chunk (pending or in flight) is a faithful copy of a chunk in `W` (the chunks created by
the accepted writes so far), an acknowledged chunk is never flagged for retransmission, and `Emitted` chunks of a gather
are un-acknowledged faithful copies. Nothing here depends on windows, TSN arithmetic or overflow flags.
-/
namespace SenderProofs
open Gen Sender

/-- the identity of the piece of user data a chunk carries (not its TSN, not its transmission bookkeeping) -/
def Chunk.frag (c : Chunk) : BitVec 16 × Nat × BitVec 32 × Bool × Bool × Bool × BitVec 16 × BitVec 32 × BitVec 32 :=
  (c.si, c.msg, c.ppi, c.unordered, c.bfrag, c.efrag, c.ssn, c.mid, c.fsn)

/-- `x` is what a transition made of the queued chunk `c`: same fragment; either same length / acked flag and
`retransmit` raised only on an un-acked chunk, or it has become acked (payload released, not to be retransmitted) -/
def Upd (c x : Chunk) : Prop :=
  Chunk.frag x = Chunk.frag c ∧
  ((x.len = c.len ∧ x.acked = c.acked ∧ (x.retransmit = true → c.retransmit = true ∨ c.acked = false)) ∨
   (x.acked = true ∧ x.retransmit = false))

theorem Upd.refl (c : Chunk) : Upd c c := ⟨rfl, Or.inl ⟨rfl, rfl, fun h => Or.inl h⟩⟩

theorem Upd.trans {a b c : Chunk} (h1 : Upd a b) (h2 : Upd b c) : Upd a c := by
  obtain ⟨f1, r1⟩ := h1
  obtain ⟨f2, r2⟩ := h2
  refine ⟨f2.trans f1, ?_⟩
  rcases r2 with ⟨l2, a2, t2⟩ | h
  · rcases r1 with ⟨l1, a1, t1⟩ | ⟨ha, ht⟩
    · refine Or.inl ⟨l2.trans l1, a2.trans a1, fun h => ?_⟩
      rcases t2 h with h' | h'
      · exact t1 h'
      · exact Or.inr (a1 ▸ h')
    · refine Or.inr ⟨a2.trans ha, ?_⟩
      cases hc : c.retransmit with
      | false => rfl
      | true =>
        rcases t2 hc with h' | h'
        · rw [ht] at h'; cases h'
        · rw [ha] at h'; cases h'
  · exact Or.inr h

/-- a queued chunk is a faithful copy of a written one, and is not flagged for retransmission once acked -/
def Good (W : List Chunk) (c : Chunk) : Prop :=
  (∃ w ∈ W, Chunk.frag c = Chunk.frag w ∧ (c.acked = false → c.len = w.len)) ∧ (c.acked = true → c.retransmit = false)

theorem Good.upd {W : List Chunk} {c x : Chunk} (hg : Good W c) (hu : Upd c x) : Good W x := by
  obtain ⟨⟨w, hw, hf, hl⟩, hr⟩ := hg
  obtain ⟨f, r⟩ := hu
  rcases r with ⟨l, a, t⟩ | ⟨ha, ht⟩
  · refine ⟨⟨w, hw, f.trans hf, fun h => l.trans (hl (a ▸ h))⟩, fun h => ?_⟩
    cases hx : x.retransmit with
    | false => rfl
    | true =>
      have hca : c.acked = true := a ▸ h
      rcases t hx with h' | h'
      · rw [hr hca] at h'; cases h'
      · rw [hca] at h'; cases h'
  · exact ⟨⟨w, hw, f.trans hf, fun h => by rw [ha] at h; cases h⟩, fun _ => ht⟩

theorem Good.mono {W W' : List Chunk} {c : Chunk} (h : Good W c) (hs : ∀ w ∈ W, w ∈ W') : Good W' c := by
  obtain ⟨⟨w, hw, r⟩, h2⟩ := h
  exact ⟨⟨w, hs w hw, r⟩, h2⟩

structure WireInv (W : List Chunk) (s : St) : Prop where
  pen : ∀ c ∈ s.pending, Good W c ∧ c.acked = false
  inf : ∀ c ∈ s.inflight, Good W c

/-- what a transition may do to the two queues: every in-flight chunk afterwards comes from a chunk queued before,
the pending queue only loses chunks -/
structure Step (s s' : St) : Prop where
  inf : ∀ x ∈ s'.inflight, ∃ c, (c ∈ s.inflight ∨ c ∈ s.pending) ∧ Upd c x
  pen : ∀ x ∈ s'.pending, x ∈ s.pending

theorem Step.refl (s : St) : Step s s := ⟨fun x hx => ⟨x, Or.inl hx, Upd.refl x⟩, fun _ h => h⟩

theorem Step.of_eq {s s' : St} (h1 : s'.inflight = s.inflight) (h2 : s'.pending = s.pending) : Step s s' :=
  ⟨fun x hx => ⟨x, Or.inl (h1 ▸ hx), Upd.refl x⟩, fun x hx => h2 ▸ hx⟩

theorem Step.trans {a b c : St} (h1 : Step a b) (h2 : Step b c) : Step a c := by
  refine ⟨fun x hx => ?_, fun x hx => h1.pen x (h2.pen x hx)⟩
  obtain ⟨y, hy, uy⟩ := h2.inf x hx
  rcases hy with hy | hy
  · obtain ⟨z, hz, uz⟩ := h1.inf y hy
    exact ⟨z, hz, uz.trans uy⟩
  · exact ⟨y, Or.inr (h1.pen y hy), uy⟩

theorem Step.wire {W : List Chunk} {s s' : St} (h : Step s s') (hw : WireInv W s) : WireInv W s' := by
  refine ⟨fun c hc => hw.pen c (h.pen c hc), fun x hx => ?_⟩
  obtain ⟨c, hc, hu⟩ := h.inf x hx
  rcases hc with hc | hc
  · exact (hw.inf c hc).upd hu
  · exact (hw.pen c hc).1.upd hu

/-- in-flight list mapped element-wise by an `Upd`-respecting function -/
theorem Step.of_map {s s' : St} (f : Chunk → Chunk) (hf : ∀ c, Upd c (f c)) (h1 : s'.inflight = s.inflight.map f)
    (h2 : s'.pending = s.pending) : Step s s' := by
  refine ⟨fun x hx => ?_, fun x hx => h2 ▸ hx⟩
  rw [h1, List.mem_map] at hx
  obtain ⟨c, hc, rfl⟩ := hx
  exact ⟨c, Or.inl hc, hf c⟩

/-! ## the scan loops of the two retransmission gathers -/

/-- elements of the scanned list afterwards: unchanged, or `upd` of a chunk `dec` took -/
theorem scanLoop_mem {B : Type} (s : St) (dec : Int → LoopAcc B → Chunk → Take B) (upd : Chunk → Chunk)
    (P : Chunk → Prop) (hP : ∀ i a c b bip, dec i a c = .take b bip → P c) (i : Int) (q : List Chunk) (a : LoopAcc B) :
    (∀ x ∈ (scanLoop s dec upd i q a).1, x ∈ q ∨ ∃ c ∈ q, P c ∧ x = upd c) ∧
    (∀ e ∈ (scanLoop s dec upd i q a).2.out, e ∈ a.out ∨ ∃ c ∈ q, P c ∧ e = upd c) := by
  induction q generalizing i a with
  | nil => simp [scanLoop]
  | cons c rest ih =>
    simp only [scanLoop]
    cases hd : dec i a c with
    | skip =>
      simp only
      obtain ⟨h1, h2⟩ := ih (i+1) a
      refine ⟨fun x hx => ?_, fun e he => ?_⟩
      · rcases List.mem_cons.1 hx with h | h
        · exact Or.inl (h ▸ List.mem_cons_self)
        · rcases h1 x h with h | ⟨c', hc', r⟩
          · exact Or.inl (List.mem_cons_of_mem _ h)
          · exact Or.inr ⟨c', List.mem_cons_of_mem _ hc', r⟩
      · rcases h2 e he with h | ⟨c', hc', r⟩
        · exact Or.inl h
        · exact Or.inr ⟨c', List.mem_cons_of_mem _ hc', r⟩
    | stop b => exact ⟨fun x hx => Or.inl hx, fun e he => Or.inl he⟩
    | take b bip =>
      simp only
      have hc := hP i a c b bip hd
      refine ⟨fun x hx => ?_, fun e he => ?_⟩
      · rcases List.mem_cons.1 hx with h | h
        · exact Or.inr ⟨c, List.mem_cons_self, hc, h⟩
        · rcases (ih (i+1) _).1 x h with h | ⟨c', hc', r⟩
          · exact Or.inl (List.mem_cons_of_mem _ h)
          · exact Or.inr ⟨c', List.mem_cons_of_mem _ hc', r⟩
      · rcases (ih (i+1) _).2 e he with h | ⟨c', hc', r⟩
        · simp only [List.mem_append, List.mem_singleton] at h
          rcases h with h | h
          · exact Or.inl h
          · exact Or.inr ⟨c, List.mem_cons_self, hc, h⟩
        · exact Or.inr ⟨c', List.mem_cons_of_mem _ hc', r⟩

theorem rtxDecide_take {B : Type} (s : St) (allow : B → Int → Bool × B) (awnd : BitVec 32) (i : Int) (a : LoopAcc B) (c : Chunk)
    (b : B) (bip : Int) (h : rtxDecide s allow awnd i a c = .take b bip) : c.retransmit = true := by
  unfold rtxDecide at h
  cases hr : c.retransmit with
  | true => rfl
  | false => simp [hr] at h

theorem fastDecide_take {B : Type} (s : St) (allow : B → Int → Bool × B) (wnd : Int) (i : Int) (a : LoopAcc B) (c : Chunk)
    (b : B) (bip : Int) (h : fastDecide s allow wnd i a c = .take b bip) : c.acked = false := by
  unfold fastDecide at h
  cases hr : c.acked with
  | false => rfl
  | true => simp [hr] at h

theorem rtxUpd_upd (s : St) (c : Chunk) : Upd c (rtxUpd s c) :=
  ⟨rfl, Or.inl ⟨rfl, rfl, fun h => by simp [rtxUpd] at h⟩⟩

theorem fastUpd_upd (s : St) (c : Chunk) : Upd c (fastUpd s c) :=
  ⟨rfl, Or.inl ⟨rfl, rfl, fun h => Or.inl h⟩⟩

/-- what a gather emitted: an un-acked faithful copy of a written chunk -/
def Emitted (W : List Chunk) (e : Chunk) : Prop :=
  e.acked = false ∧ ∃ w ∈ W, Chunk.frag e = Chunk.frag w ∧ e.len = w.len

theorem Good.emitted {W : List Chunk} {c : Chunk} (h : Good W c) (ha : c.acked = false) : Emitted W c := by
  obtain ⟨⟨w, hw, hf, hl⟩, _⟩ := h
  exact ⟨ha, w, hw, hf, hl ha⟩

theorem gatherRtx_wire {W : List Chunk} (s : St) (orc : Oracle) (hw : WireInv W s) :
    Step s (gatherRtx s orc).1 ∧ ∀ e ∈ (gatherRtx s orc).2.1, Emitted W e := by
  have hsplit := scanSplit_append s
  obtain ⟨h1, h2⟩ := scanLoop_mem s (rtxDecide s orc.allow (rtx_awnd s.cwnd s.rwnd)) (rtxUpd s) (fun c => c.retransmit = true)
    (fun i a c b bip h => rtxDecide_take s orc.allow _ i a c b bip h) 0 (scanSplit s).2 { b := orc.b, aband := s.abandonedMsgs }
  have hsuf : ∀ c ∈ (scanSplit s).2, c ∈ s.inflight := fun c hc => by rw [← hsplit]; exact List.mem_append_right _ hc
  refine ⟨⟨fun x hx => ?_, fun x hx => hx⟩, fun e he => ?_⟩
  · simp only [gatherRtx, List.mem_append] at hx
    rcases hx with hx | hx
    · exact ⟨x, Or.inl (by rw [← hsplit]; exact List.mem_append_left _ hx), Upd.refl x⟩
    · rcases h1 x hx with h | ⟨c, hc, _, rfl⟩
      · exact ⟨x, Or.inl (hsuf x h), Upd.refl x⟩
      · exact ⟨c, Or.inl (hsuf c hc), rtxUpd_upd s c⟩
  · simp only [gatherRtx] at he
    rcases h2 e he with h | ⟨c, hc, hr, rfl⟩
    · cases h
    · have hg := hw.inf c (hsuf c hc)
      have hna : c.acked = false := by
        cases ha : c.acked with
        | false => rfl
        | true => rw [hg.2 ha] at hr; cases hr
      exact (hg.upd (rtxUpd_upd s c)).emitted hna

theorem gatherFast_wire {B : Type} {W : List Chunk} (s : St) (allow : B → Int → Bool × B) (b : B) (hw : WireInv W s) :
    Step s (gatherFast s allow b).1 ∧ ∀ e ∈ (gatherFast s allow b).2, Emitted W e := by
  unfold gatherFast
  cases hf : s.willRetransmitFast with
  | false => simp only [Bool.not_false, if_true]; exact ⟨Step.refl s, fun e he => by cases he⟩
  | true =>
    simp only [Bool.not_true, Bool.false_eq_true, if_false]
    let s0 : St := { s with willRetransmitFast := false }
    have hsplit : (scanSplit s0).1 ++ (scanSplit s0).2 = s.inflight := scanSplit_append s0
    obtain ⟨h1, h2⟩ := scanLoop_mem s0 (fastDecide s0 allow (fastRtx_wnd s.cfg.mtu s.cfg.fastRtxWnd)) (fastUpd s0) (fun c => c.acked = false)
      (fun i a c b bip h => fastDecide_take s0 allow _ i a c b bip h) 0 (scanSplit s0).2 { b := b, size := hdr, aband := s.abandonedMsgs }
    have hsuf : ∀ c ∈ (scanSplit s0).2, c ∈ s.inflight := fun c hc => by rw [← hsplit]; exact List.mem_append_right _ hc
    refine ⟨⟨fun x hx => ?_, fun x hx => hx⟩, fun e he => ?_⟩
    · simp only [List.mem_append] at hx
      rcases hx with hx | hx
      · exact ⟨x, Or.inl (by rw [← hsplit]; exact List.mem_append_left _ hx), Upd.refl x⟩
      · rcases h1 x hx with h | ⟨c, hc, _, rfl⟩
        · exact ⟨x, Or.inl (hsuf x h), Upd.refl x⟩
        · exact ⟨c, Or.inl (hsuf c hc), fastUpd_upd s0 c⟩
    · rcases h2 e he with h | ⟨c, hc, hr, rfl⟩
      · cases h
      · exact ((hw.inf c (hsuf c hc)).upd (fastUpd_upd s0 c)).emitted hr

/-! ## new DATA: pending → in flight -/

theorem popPend_step (s : St) (i : Nat) (c : Chunk) : Step s (popPend s i c) :=
  ⟨fun x hx => ⟨x, Or.inl hx, Upd.refl x⟩, fun x hx => mem_eraseIdx hx⟩

/-- `move` keeps the fragment: the chunk only receives its TSN and its transmission bookkeeping -/
theorem move_upd (s : St) (i : Nat) (c : Chunk) : Upd c (move s i c).2 ∧ (move s i c).2.acked = c.acked ∧ (move s i c).2.len = c.len :=
  ⟨⟨rfl, Or.inl ⟨rfl, rfl, fun h => Or.inl h⟩⟩, rfl, rfl⟩

theorem move_step (s : St) (i : Nat) (c : Chunk) (hp : s.pending[i]? = some c) : Step s (move s i c).1 := by
  refine ⟨fun x hx => ?_, fun x hx => ?_⟩
  · simp only [move, popPend, List.mem_append, List.mem_singleton] at hx
    rcases hx with h | h
    · exact ⟨x, Or.inl h, Upd.refl x⟩
    · exact ⟨c, Or.inr (List.mem_of_getElem? hp), h ▸ (move_upd s i c).1⟩
  · simp only [move, popPend] at hx
    exact mem_eraseIdx hx

/-- an admitted chunk record: its chunk is an un-acked copy of a chunk that was pending -/
def FromPending (s : St) (x : Chunk) : Prop := ∃ c ∈ s.pending, Upd c x ∧ x.acked = c.acked ∧ x.len = c.len

theorem FromPending.mono {s s' : St} {x : Chunk} (h : FromPending s' x) (hs : ∀ c ∈ s'.pending, c ∈ s.pending) : FromPending s x := by
  obtain ⟨c, hc, r⟩ := h
  exact ⟨c, hs c hc, r⟩

theorem popLoop_wire {B : Type} (allow : B → Int → Bool × B) (fuel : Nat) (s : St) (sel : List Nat) (a : PopAcc B) :
    Step s (popLoop allow fuel s sel a).1 ∧
    ∀ ad ∈ (popLoop allow fuel s sel a).2.2.admits, ad ∈ a.admits ∨ FromPending s ad.chunk := by
  induction fuel generalizing s sel a with
  | zero => exact ⟨Step.refl s, fun ad h => Or.inl h⟩
  | succ fuel ih =>
    simp only [popLoop]
    cases hp : peek s sel with
    | none => exact ⟨Step.refl s, fun ad h => Or.inl h⟩
    | some ic =>
      obtain ⟨i, c⟩ := ic
      have hpc := peek_some hp
      simp only
      split
      · obtain ⟨h1, h2⟩ := ih (popPend s i c) sel.tail { a with sisToReset := a.sisToReset ++ [c.si] }
        have hst := popPend_step s i c
        refine ⟨hst.trans h1, fun ad had => ?_⟩
        rcases h2 ad had with h | h
        · exact Or.inl h
        · exact Or.inr (h.mono hst.pen)
      · cases hd : popDecide s allow a c with
        | skip => exact ⟨Step.refl s, fun ad h => Or.inl h⟩
        | stop b => exact ⟨Step.refl s, fun ad h => Or.inl h⟩
        | take b bip =>
          simp only
          have hst : Step s (admitChunk s i c).1 := by
            have : Step (chargeSend s c) (move (chargeSend s c) i c).1 := move_step (chargeSend s c) i c hpc
            exact ⟨this.inf, this.pen⟩
          obtain ⟨h1, h2⟩ := ih (admitChunk s i c).1 sel.tail
            { a with b := b, bip := bip, admits := a.admits ++ [mkAdmit s (admitChunk s i c).2 false] }
          refine ⟨hst.trans h1, fun ad had => ?_⟩
          rcases h2 ad had with h | h
          · simp only [List.mem_append, List.mem_singleton] at h
            rcases h with h | h
            · exact Or.inl h
            · refine Or.inr ⟨c, List.mem_of_getElem? hpc, ?_⟩
              rw [h]
              exact move_upd (chargeSend s c) i c
          · exact Or.inr (h.mono hst.pen)

theorem probe_wire {B : Type} (allow : B → Int → Bool × B) (s : St) (sel : List Nat) (a : PopAcc B) :
    Step s (probe allow s sel a).1 ∧
    ∀ ad ∈ (probe allow s sel a).2.2.admits, ad ∈ a.admits ∨ FromPending s ad.chunk := by
  unfold probe
  split
  · cases hp : peek s sel with
    | none => exact ⟨Step.refl s, fun ad h => Or.inl h⟩
    | some ic =>
      obtain ⟨i, c⟩ := ic
      have hpc := peek_some hp
      simp only
      split
      · split
        · split
          · have hst : Step s (admitProbe s i c).1 := by
              have : Step (chargeProbe s c) (move (chargeProbe s c) i c).1 := move_step (chargeProbe s c) i c hpc
              exact ⟨this.inf, this.pen⟩
            refine ⟨hst, fun ad had => ?_⟩
            simp only [List.mem_append, List.mem_singleton] at had
            rcases had with h | h
            · exact Or.inl h
            · refine Or.inr ⟨c, List.mem_of_getElem? hpc, ?_⟩
              rw [h]
              exact move_upd (chargeProbe s c) i c
          · exact ⟨Step.refl s, fun ad h => Or.inl h⟩
        · exact ⟨Step.refl s, fun ad h => Or.inl h⟩
      · exact ⟨Step.refl s, fun ad h => Or.inl h⟩
  · exact ⟨Step.refl s, fun ad h => Or.inl h⟩

theorem gatherNew_wire {B : Type} (allow : B → Int → Bool × B) (b : B) (s : St) (sel : List Nat) :
    Step s (gatherNew s allow b sel).1 ∧ ∀ ad ∈ (gatherNew s allow b sel).2.admits, FromPending s ad.chunk := by
  unfold gatherNew
  split
  · obtain ⟨h1, h2⟩ := popLoop_wire allow (s.pending.length + 1) s sel { b := b }
    obtain ⟨h3, h4⟩ := probe_wire allow (popLoop allow (s.pending.length + 1) s sel { b := b }).1
      (popLoop allow (s.pending.length + 1) s sel { b := b }).2.1 (popLoop allow (s.pending.length + 1) s sel { b := b }).2.2
    refine ⟨h1.trans h3, fun ad had => ?_⟩
    rcases h4 ad had with h | h
    · rcases h2 ad h with h | h
      · cases h
      · exact h
    · exact h.mono h1.pen
  · exact ⟨Step.refl s, fun ad h => by cases h⟩

/-! ## `bundle` only groups -/

theorem bundle_flatten (mtu : BitVec 32) (il : Bool) (chunks cur : List Chunk) (bip : Int) :
    ∀ e ∈ (bundle mtu il chunks cur bip).flatten, e ∈ cur ∨ e ∈ chunks := by
  induction chunks generalizing cur bip with
  | nil =>
    intro e he
    simp only [bundle] at he
    split at he
    · cases he
    · simp at he; exact Or.inl he
  | cons c rest ih =>
    intro e he
    simp only [bundle] at he
    split at he
    · simp only [List.flatten_cons, List.mem_append] at he
      rcases he with h | h
      · exact Or.inl h
      · rcases ih [c] _ e h with h | h
        · simp at h; exact Or.inr (h ▸ List.mem_cons_self)
        · exact Or.inr (List.mem_cons_of_mem _ h)
    · rcases ih (cur ++ [c]) _ e he with h | h
      · simp only [List.mem_append, List.mem_singleton] at h
        rcases h with h | h
        · exact Or.inl h
        · exact Or.inr (h ▸ List.mem_cons_self)
      · exact Or.inr (List.mem_cons_of_mem _ h)

/-! ## gather -/

theorem gather_wire {W : List Chunk} (s : St) (orc : Oracle) (sel : List Nat) (hw : WireInv W s) :
    Step s (gather s orc sel).1 ∧ ∀ e ∈ (gather s orc sel).2.packets.flatten, Emitted W e := by
  unfold gather
  split
  · exact ⟨Step.refl s, fun e he => by simp [GatherOut.packets] at he⟩
  · obtain ⟨s1, e1⟩ := gatherRtx_wire s orc hw
    have hw1 := s1.wire hw
    obtain ⟨s2, e2⟩ := gatherNew_wire orc.allow (gatherRtx s orc).2.2 (gatherRtx s orc).1 sel
    have hw2 := s2.wire hw1
    obtain ⟨s3, e3⟩ := gatherFast_wire (gatherNew (gatherRtx s orc).1 orc.allow (gatherRtx s orc).2.2 sel).1 orc.allow
      (gatherNew (gatherRtx s orc).1 orc.allow (gatherRtx s orc).2.2 sel).2.b hw2
    refine ⟨?_, fun e he => ?_⟩
    · have h123 := (s1.trans s2).trans s3
      exact ⟨h123.inf, h123.pen⟩
    · simp only [GatherOut.packets, List.flatten_append, List.mem_append] at he
      rcases he with (he | he) | he
      · rcases bundle_flatten _ _ _ _ _ e he with h | h
        · cases h
        · exact e1 e h
      · split at he
        · cases he
        · rcases bundle_flatten _ _ _ _ _ e he with h | h
          · cases h
          · rw [List.mem_map] at h
            obtain ⟨ad, had, rfl⟩ := h
            obtain ⟨c, hc, hu, ha, hl⟩ := e2 ad had
            obtain ⟨hg, hna⟩ := hw1.pen c hc
            exact (hg.upd hu).emitted (ha.trans hna)
      · split at he
        · cases he
        · rcases bundle_flatten _ _ _ _ _ e he with h | h
          · cases h
          · exact e3 e h

/-! ## SACK processing, T3 -/

theorem popCum_sub (exitPt : BitVec 32) (q : List Chunk) (idx cum : BitVec 32) (a : CumAcc) {q' : List Chunk} {a' : CumAcc}
    (h : popCum exitPt q idx cum a = some (q', a')) : ∀ x ∈ q', x ∈ q := by
  induction q generalizing idx a with
  | nil =>
    simp only [popCum] at h
    split at h
    · cases h
    · cases h; intro x hx; exact hx
  | cons c rest ih =>
    simp only [popCum] at h
    split at h
    · split at h
      · intro x hx; exact List.mem_cons_of_mem _ (ih _ _ h x hx)
      · cases h
    · cases h; intro x hx; exact hx

theorem markAcked_upd (c : Chunk) : Upd c c.markAcked := ⟨rfl, Or.inr ⟨rfl, rfl⟩⟩

/-- list-level version of `Step.inf` for the gap-ack loops -/
def QUpd (q q' : List Chunk) : Prop := ∀ x ∈ q', ∃ c ∈ q, Upd c x

theorem QUpd.refl (q : List Chunk) : QUpd q q := fun x hx => ⟨x, hx, Upd.refl x⟩
theorem QUpd.trans {a b c : List Chunk} (h1 : QUpd a b) (h2 : QUpd b c) : QUpd a c := by
  intro x hx
  obtain ⟨y, hy, uy⟩ := h2 x hx
  obtain ⟨z, hz, uz⟩ := h1 y hy
  exact ⟨z, hz, uz.trans uy⟩

theorem markOne_q (a : GapAcc) (tsn : BitVec 32) {a' : GapAcc} (h : markOne a tsn = some a') : QUpd a.q a'.q := by
  unfold markOne at h
  split at h
  · cases h
  · rename_i off c hg
    have hc : c ∈ a.q := List.mem_of_getElem? (get_some hg)
    cases h
    split
    · intro x hx
      simp only at hx
      rcases mem_set_cases hx with h | h
      · exact ⟨c, hc, h ▸ markAcked_upd c⟩
      · exact ⟨x, h, Upd.refl x⟩
    · exact QUpd.refl _

theorem markRange_q (cum : BitVec 32) (is : List Nat) (a : GapAcc) {a' : GapAcc} (h : markRange cum is a = some a') : QUpd a.q a'.q := by
  induction is generalizing a with
  | nil => simp only [markRange] at h; cases h; exact QUpd.refl _
  | cons i is ih =>
    simp only [markRange] at h
    split at h
    · cases h
    · rename_i a1 hm
      exact (markOne_q a _ hm).trans (ih a1 h)

theorem markGaps_q (cum : BitVec 32) (gaps : List (BitVec 16 × BitVec 16)) (a : GapAcc) {a' : GapAcc}
    (h : markGaps cum gaps a = some a') : QUpd a.q a'.q := by
  induction gaps generalizing a with
  | nil => simp only [markGaps] at h; cases h; exact QUpd.refl _
  | cons g gs ih =>
    obtain ⟨st, en⟩ := g
    simp only [markGaps] at h
    split at h
    · cases h
    · rename_i a1 hm
      exact (markRange_q cum _ a hm).trans (ih a1 h)

theorem onCumAdvanced_queues (s : St) (total : Int) :
    (onCumAdvanced s total).inflight = s.inflight ∧ (onCumAdvanced s total).pending = s.pending := by
  unfold onCumAdvanced
  split
  · split <;> exact ⟨rfl, rfl⟩
  · simp only; split <;> exact ⟨rfl, rfl⟩

theorem ackPhase_step {s : St} {cum : BitVec 32} {gaps : List (BitVec 16 × BitVec 16)} {r : St × BitVec 32 × Bool}
    (h : ackPhase s cum gaps = some r) : Step s r.1 := by
  unfold ackPhase at h
  split at h
  · cases h
  · rename_i pr hp
    split at h
    · cases h
    · rename_i g hm
      cases h
      have hsub := popCum_sub _ _ _ _ _ hp
      have hq := markGaps_q cum gaps _ hm
      have hfr := releaseAll_frame g.rel
      refine ⟨fun x hx => ?_, fun x hx => ?_⟩
      · simp only [ackApply] at hx
        rw [(hfr _).2.2.2.2.2.2.1] at hx
        have hx' : x ∈ g.q := by
          split at hx
          · rw [(onCumAdvanced_queues _ _).1] at hx; exact hx
          · exact hx
        obtain ⟨c, hc, hu⟩ := hq x hx'
        exact ⟨c, Or.inl (hsub c hc), hu⟩
      · simp only [ackApply] at hx
        rw [(hfr _).2.2.2.2.2.2.2.1] at hx
        split at hx
        · rw [(onCumAdvanced_queues _ _).2] at hx; exact hx
        · exact hx

theorem missLoop_step (htna : BitVec 32) (fuel : Nat) (s : St) (tsn maxTSN : BitVec 32) : Step s (missLoop htna fuel s tsn maxTSN).1 := by
  induction fuel generalizing s tsn with
  | zero => exact Step.refl s
  | succ fuel ih =>
    simp only [missLoop]
    split
    · cases hg : Sender.get s.inflight tsn with
      | none => exact Step.refl s
      | some oc =>
        obtain ⟨off, c⟩ := oc
        simp only
        have hc : c ∈ s.inflight := List.mem_of_getElem? (get_some hg)
        split
        · refine Step.trans ?_ (ih _ _)
          have hset : Step s { s with inflight := s.inflight.set off { c with missIndicator := c.missIndicator + 1 } } := by
            refine ⟨fun x hx => ?_, fun x hx => hx⟩
            simp only at hx
            rcases mem_set_cases hx with h | h
            · exact ⟨c, Or.inl hc, h ▸ ⟨rfl, Or.inl ⟨rfl, rfl, fun h => Or.inl h⟩⟩⟩
            · exact ⟨x, Or.inl h, Upd.refl x⟩
          split
          · exact ⟨hset.inf, hset.pen⟩
          · exact hset
        · exact ih _ _
    · exact Step.refl s

theorem frLoop_step (s : St) (cum : BitVec 32) (gaps : List (BitVec 16 × BitVec 16)) (htna : BitVec 32) (adv : Bool) :
    Step s (frLoop s cum gaps htna adv).1 := by
  unfold frLoop
  split
  · exact missLoop_step _ _ _ _ _
  · exact Step.refl s

theorem frPost_queues (r : St × Bool) (adv : Bool) :
    (frPost r adv).1.inflight = r.1.inflight ∧ (frPost r adv).1.pending = r.1.pending := by
  unfold frPost
  split
  · exact ⟨rfl, rfl⟩
  · split <;> exact ⟨rfl, rfl⟩

theorem fastRetransCheck_step (s : St) (cum : BitVec 32) (gaps : List (BitVec 16 × BitVec 16)) (htna : BitVec 32) (adv : Bool) :
    Step s (fastRetransCheck s cum gaps htna adv).1 := by
  unfold fastRetransCheck
  exact (frLoop_step s cum gaps htna adv).trans (Step.of_eq (frPost_queues _ adv).1 (frPost_queues _ adv).2)

theorem advLoop_queues (fuel : Nat) (s : St) : (advLoop fuel s).inflight = s.inflight ∧ (advLoop fuel s).pending = s.pending := by
  induction fuel generalizing s with
  | zero => exact ⟨rfl, rfl⟩
  | succ fuel ih =>
    simp only [advLoop]
    split
    · exact ⟨rfl, rfl⟩
    · split
      · exact ⟨rfl, rfl⟩
      · exact ih _

theorem advancePeerAck_queues (s : St) : (advancePeerAck s).inflight = s.inflight ∧ (advancePeerAck s).pending = s.pending := by
  unfold advancePeerAck
  simp only
  split <;> exact advLoop_queues _ _

theorem prStep_queues (s : St) : (prStep s).inflight = s.inflight ∧ (prStep s).pending = s.pending := by
  unfold prStep
  split
  · split
    · exact advancePeerAck_queues _
    · exact advancePeerAck_queues _
  · exact ⟨rfl, rfl⟩

theorem applyMarks_step (s : St) (marks : List (BitVec 32)) : Step s (applyMarks s marks) := by
  refine Step.of_map (fun c => if marks.contains c.tsn && !c.acked && !s.abandoned c then { c with retransmit := true } else c) ?_ rfl rfl
  intro c
  split
  · rename_i h
    have hna : c.acked = false := by
      cases ha : c.acked with
      | false => rfl
      | true => simp [ha] at h
    exact ⟨rfl, Or.inl ⟨rfl, rfl, fun _ => Or.inr hna⟩⟩
  · exact Upd.refl c

theorem sack_step (s : St) (cum arwnd : BitVec 32) (gaps : List (BitVec 16 × BitVec 16)) (marks : List (BitVec 32)) :
    Step s (sack s cum arwnd gaps marks).1 := by
  unfold sack
  split
  · exact Step.refl s
  · split
    · exact Step.refl s
    · split
      · exact Step.refl s
      · cases ha : ackPhase s cum gaps with
        | none => exact Step.refl s
        | some r =>
          simp only
          have h1 := ackPhase_step ha
          have h2 : Step r.1 (setPeerWindow r.1 arwnd) := Step.of_eq rfl rfl
          have h3 := fastRetransCheck_step (setPeerWindow r.1 arwnd) cum gaps r.2.1 r.2.2
          have h123 := (h1.trans h2).trans h3
          split
          · exact h123
          · refine h123.trans (Step.trans (Step.of_eq (prStep_queues _).1 (prStep_queues _).2) (applyMarks_step _ marks))

theorem markAll_step (s x : St) (h1 : x.inflight = s.inflight) (h2 : x.pending = s.pending) :
    Step s { x with inflight := markAllToRetransmit x } := by
  refine Step.of_map (fun c => if c.acked || x.abandoned c then c else { c with retransmit := true }) ?_ ?_ h2
  · intro c
    split
    · exact Upd.refl c
    · rename_i h
      have hna : c.acked = false := by
        cases ha : c.acked with
        | false => rfl
        | true => simp [ha] at h
      exact ⟨rfl, Or.inl ⟨rfl, rfl, fun _ => Or.inr hna⟩⟩
  · simp only [markAllToRetransmit, h1]

theorem prAdv_queues (y : St) :
    (if y.cfg.prEnabled then advancePeerAck y else y).inflight = y.inflight ∧
    (if y.cfg.prEnabled then advancePeerAck y else y).pending = y.pending := by
  split
  · exact advancePeerAck_queues y
  · exact ⟨rfl, rfl⟩

theorem t3_step (s : St) : Step s (t3 s) := by
  unfold t3
  simp only
  apply markAll_step
  · rw [(prAdv_queues _).1]; split <;> rfl
  · rw [(prAdv_queues _).2]; split <;> rfl

/-! ## write; traces over runs -/

/-- the chunks an accepted `write` appends to the pending queue (none when the call is rejected or fails) -/
def writeChunks (s : St) (si : BitVec 16) (ppi : BitVec 32) (len : Nat) : List Chunk :=
  match s.streams si with
  | none => []
  | some st =>
    if len > s.cfg.maxMessageSize.toNat then []
    else if len = 0 then []
    else if s.cfg.maxPayload = 0 then []
    else if s.established then (packetize s.cfg st si s.nextMsg ppi len).chunks else []

theorem write_queues (s : St) (si : BitVec 16) (ppi : BitVec 32) (len : Nat) :
    (write s si ppi len).1.inflight = s.inflight ∧ (write s si ppi len).1.pending = s.pending ++ writeChunks s si ppi len := by
  unfold write writeChunks
  cases hs : s.streams si with
  | none => simp
  | some st =>
    simp only
    split
    · simp
    · split
      · simp
      · split
        · simp
        · split
          · exact ⟨rfl, rfl⟩
          · simp [setStream]

theorem mkChunks_fresh (si : BitVec 16) (msg : Nat) (ppi : BitVec 32) (u : Bool) (ssn : BitVec 16) (mid : BitVec 32)
    (fs : List Nat) (fsn : BitVec 32) (first : Bool) :
    ∀ c ∈ mkChunks si msg ppi u ssn mid fs fsn first, c.acked = false ∧ c.retransmit = false := by
  induction fs generalizing fsn first with
  | nil => intro c hc; cases hc
  | cons f rest ih =>
    intro c hc
    simp only [mkChunks, List.mem_cons] at hc
    rcases hc with h | h
    · subst h; exact ⟨rfl, rfl⟩
    · exact ih _ _ c h

theorem writeChunks_fresh (s : St) (si : BitVec 16) (ppi : BitVec 32) (len : Nat) :
    ∀ c ∈ writeChunks s si ppi len, c.acked = false ∧ c.retransmit = false := by
  unfold writeChunks
  cases hs : s.streams si with
  | none => intro c hc; cases hc
  | some st =>
    simp only
    split
    · intro c hc; cases hc
    · split
      · intro c hc; cases hc
      · split
        · intro c hc; cases hc
        · split
          · simp only [packetize]; exact mkChunks_fresh _ _ _ _ _ _ _ _ _
          · intro c hc; cases hc

theorem WireInv.mono {W W' : List Chunk} {s : St} (h : WireInv W s) (hs : ∀ w ∈ W, w ∈ W') : WireInv W' s :=
  ⟨fun c hc => ⟨(h.pen c hc).1.mono hs, (h.pen c hc).2⟩, fun c hc => (h.inf c hc).mono hs⟩

theorem write_wire {W : List Chunk} (s : St) (si : BitVec 16) (ppi : BitVec 32) (len : Nat) (hw : WireInv W s) :
    WireInv (W ++ writeChunks s si ppi len) (write s si ppi len).1 := by
  obtain ⟨h1, h2⟩ := write_queues s si ppi len
  have hm := hw.mono (W' := W ++ writeChunks s si ppi len) (fun w h => List.mem_append_left _ h)
  refine ⟨fun c hc => ?_, fun c hc => hm.inf c (h1 ▸ hc)⟩
  rw [h2, List.mem_append] at hc
  rcases hc with h | h
  · exact hm.pen c h
  · obtain ⟨ha, hr⟩ := writeChunks_fresh s si ppi len c h
    exact ⟨⟨⟨c, List.mem_append_right _ h, rfl, fun _ => rfl⟩, fun _ => hr⟩, ha⟩

def writtenBy (s : St) : Op → List Chunk
  | .write si ppi len => writeChunks s si ppi len
  | _ => []

def emittedBy (s : St) : Op → List Chunk
  | .gather orc sel => (gather s orc sel).2.packets.flatten
  | _ => []

/-- every chunk created by an accepted write of the run, in order -/
def written : St → List Op → List Chunk
  | _, [] => []
  | s, op :: ops => writtenBy s op ++ written (step s op) ops

/-- every DATA chunk put on the wire by the gathers of the run (first transmissions, T3 / RACK / PTO retransmissions,
fast retransmissions), in order -/
def wire : St → List Op → List Chunk
  | _, [] => []
  | s, op :: ops => emittedBy s op ++ wire (step s op) ops

theorem iter_t3_step (n : Nat) (s : St) : Step s (iter t3 n s) := by
  induction n generalizing s with
  | zero => exact Step.refl s
  | succ n ih => exact (t3_step s).trans (ih (t3 s))

theorem step_wire {W : List Chunk} (s : St) (op : Op) (hw : WireInv W s) :
    WireInv (W ++ writtenBy s op) (step s op) ∧ ∀ e ∈ emittedBy s op, Emitted W e := by
  cases op with
  | openS si u rt rv th =>
    refine ⟨?_, fun e he => by cases he⟩
    simp only [writtenBy, List.append_nil, step]
    exact (Step.of_eq (s := s) (s' := openStream s si u rt rv th) (by unfold openStream setStream; rfl) (by unfold openStream setStream; rfl)).wire hw
  | unreg si =>
    refine ⟨?_, fun e he => by cases he⟩
    simp only [writtenBy, List.append_nil, step]
    refine (Step.of_eq (s := s) (s' := unregister s si) ?_ ?_).wire hw
    · unfold unregister; split <;> rfl
    · unfold unregister; split <;> rfl
  | setEstablished b =>
    refine ⟨?_, fun e he => by cases he⟩
    simp only [writtenBy, List.append_nil, step]
    exact (Step.of_eq (s := s) (s' := { s with established := b }) rfl rfl).wire hw
  | write si ppi len =>
    exact ⟨write_wire s si ppi len hw, fun e he => by cases he⟩
  | gather orc sel =>
    obtain ⟨h1, h2⟩ := gather_wire s orc sel hw
    simp only [writtenBy, List.append_nil, step]
    exact ⟨h1.wire hw, h2⟩
  | sack cum arwnd gaps marks =>
    refine ⟨?_, fun e he => by cases he⟩
    simp only [writtenBy, List.append_nil, step]
    exact (sack_step s cum arwnd gaps marks).wire hw
  | t3 =>
    refine ⟨?_, fun e he => by cases he⟩
    simp only [writtenBy, List.append_nil, step]
    exact (t3_step s).wire hw
  | tick ms n marks =>
    refine ⟨?_, fun e he => by cases he⟩
    simp only [writtenBy, List.append_nil, step]
    have h0 : Step s { s with now := s.now + ms } := Step.of_eq rfl rfl
    exact ((h0.trans (iter_t3_step n _)).trans (applyMarks_step _ marks)).wire hw

theorem Emitted.mono {W W' : List Chunk} {e : Chunk} (h : Emitted W e) (hs : ∀ w ∈ W, w ∈ W') : Emitted W' e := by
  obtain ⟨ha, w, hw, r⟩ := h
  exact ⟨ha, w, hs w hw, r⟩

theorem run_wire {W : List Chunk} (s : St) (ops : List Op) (hw : WireInv W s) :
    ∀ e ∈ wire s ops, Emitted (W ++ written s ops) e := by
  induction ops generalizing W s with
  | nil => intro e he; cases he
  | cons op ops ih =>
    intro e he
    obtain ⟨h1, h2⟩ := step_wire s op hw
    simp only [wire, List.mem_append] at he
    simp only [written]
    rcases he with h | h
    · exact (h2 e h).mono (fun w hw => List.mem_append_left _ hw)
    · have := ih (step s op) h1 e h
      rw [List.append_assoc] at this
      exact this

theorem init_wire (cfg : Cfg) (tsn peerRwnd : BitVec 32) : WireInv [] (init cfg tsn peerRwnd) :=
  ⟨fun c hc => by simp [init] at hc, fun c hc => by simp [init] at hc⟩

/-! ## shape of what a write creates -/

theorem mkChunks_get (si : BitVec 16) (msg : Nat) (ppi : BitVec 32) (u : Bool) (ssn : BitVec 16) (mid : BitVec 32)
    (fs : List Nat) (fsn : BitVec 32) (first : Bool) (i : Nat) (c : Chunk)
    (h : (mkChunks si msg ppi u ssn mid fs fsn first)[i]? = some c) :
    c.si = si ∧ c.msg = msg ∧ c.ppi = ppi ∧ c.unordered = u ∧ c.ssn = ssn ∧ c.mid = mid ∧
    c.fsn = fsn + BitVec.ofNat 32 i ∧ c.bfrag = (first && i == 0) ∧ c.efrag = (i + 1 == fs.length) ∧ fs[i]? = some c.len := by
  induction fs generalizing fsn first i with
  | nil => simp [mkChunks] at h
  | cons f rest ih =>
    cases i with
    | zero =>
      simp only [mkChunks, List.getElem?_cons_zero, Option.some.injEq] at h
      subst h
      refine ⟨rfl, rfl, rfl, rfl, rfl, rfl, by simp, by simp, ?_, by simp⟩
      cases rest <;> simp
    | succ i =>
      simp only [mkChunks, List.getElem?_cons_succ] at h
      obtain ⟨h1, h2, h3, h4, h5, h6, h7, h8, h9, h10⟩ := ih (fsn + 1) false i h
      refine ⟨h1, h2, h3, h4, h5, h6, ?_, by simp [h8], by simp [h9], by simpa using h10⟩
      rw [h7, BitVec.add_assoc]
      congr 1
      rw [show i + 1 = 1 + i by omega, BitVec.ofNat_add]
      rfl

end SenderProofs
