import SctpVerif.Proofs.Sender.WireId
/-! Every accepted write creates at least one chunk; hence there are at most as many accepted writes, and at most as
many fragments in one message, as chunks written in all. -/
namespace SenderTsn
open SenderProofs
open Gen Sender
open NetSys (Write accepts)

theorem accepted_pos (lenOf : Nat → Nat) (s : St) (ops : List Op) (hl : LenOk lenOf s ops) :
    ∀ a ∈ accepted s ops, lenOf a.msg ≠ 0 ∧ s.cfg.maxPayload ≠ 0 := by
  induction ops generalizing s with
  | nil => intro a ha; cases ha
  | cons op ops ih =>
    intro a ha
    simp only [accepted, List.mem_append] at ha
    rcases ha with ha | ha
    · cases op with
      | write si ppi len =>
        simp only [accBy] at ha
        cases hacc : accepts s si ppi len with
        | false => simp [hacc] at ha
        | true =>
          simp only [hacc, if_true, List.mem_singleton] at ha
          subst ha
          obtain ⟨st, _, _, h2, hmp, _⟩ := (accepts_iff s si ppi len).1 hacc
          have hlen : len = lenOf s.nextMsg := hl.1
          exact ⟨by rw [← hlen]; exact h2, hmp⟩
      | _ => cases ha
    · have := ih (step s op) hl.2 a ha
      rw [step_cfg_all] at this
      exact this

theorem fragSizes_ne_nil (mp len : Nat) (h1 : len ≠ 0) (h2 : mp ≠ 0) : fragSizes mp len ≠ [] := by
  unfold fragSizes
  cases len with
  | zero => exact absurd rfl h1
  | succ n =>
    simp only [fragAux]
    have : ¬ (n + 1 = 0 ∨ mp = 0) := by omega
    rw [if_neg this]
    exact List.cons_ne_nil _ _

theorem grp_length (il : Bool) (mp len k : Nat) (a : Write) : (grp il mp len k a).length = (fragSizes mp len).length :=
  (mkChunks_spec _ _ _ _ _ _ _ _ _).2.2.1

theorem gen_length (il : Bool) (mp : Nat) (lenOf : Nat → Nat) (pre ws : List Write)
    (h : ∀ a ∈ ws, fragSizes mp (lenOf a.msg) ≠ []) :
    ws.length ≤ (gen il mp lenOf pre ws).length ∧
    ∀ a ∈ ws, (fragSizes mp (lenOf a.msg)).length ≤ (gen il mp lenOf pre ws).length := by
  induction ws generalizing pre with
  | nil => exact ⟨Nat.le_refl _, fun a ha => by cases ha⟩
  | cons a r ih =>
    obtain ⟨i1, i2⟩ := ih (pre ++ [a]) (fun b hb => h b (List.mem_cons_of_mem _ hb))
    have hne := h a List.mem_cons_self
    have hpos : 0 < (fragSizes mp (lenOf a.msg)).length := List.length_pos_iff.2 hne
    simp only [gen, List.length_append, grp_length, List.length_cons]
    refine ⟨by omega, fun b hb => ?_⟩
    rcases List.mem_cons.1 hb with rfl | hb
    · omega
    · have := i2 b hb; omega

/-- in ordered runs from `init`: at most as many accepted writes, and fragments per message, as chunks written -/
theorem accepted_le_written (cfg : Cfg) (tsn peerRwnd : BitVec 32) (lenOf : Nat → Nat) (ops : List Op)
    (ho : ∀ op ∈ ops, OrdOp op) (hl : LenOk lenOf (init cfg tsn peerRwnd) ops) :
    (accepted (init cfg tsn peerRwnd) ops).length ≤ (written (init cfg tsn peerRwnd) ops).length ∧
    ∀ a ∈ accepted (init cfg tsn peerRwnd) ops,
      1 ≤ (fragSizes cfg.maxPayload.toNat (lenOf a.msg)).length ∧
      (fragSizes cfg.maxPayload.toNat (lenOf a.msg)).length ≤ (written (init cfg tsn peerRwnd) ops).length ∧
      0 < cfg.maxPayload.toNat := by
  obtain ⟨hgen, _⟩ := run_gen cfg.useInterleaving lenOf [] (init cfg tsn peerRwnd) ops (init_cinv _ cfg tsn peerRwnd) rfl ho hl
  have hpos := accepted_pos lenOf (init cfg tsn peerRwnd) ops hl
  have hcfg : (init cfg tsn peerRwnd).cfg = cfg := rfl
  rw [hcfg] at hgen hpos
  have hmp : ∀ a ∈ accepted (init cfg tsn peerRwnd) ops, cfg.maxPayload.toNat ≠ 0 := by
    intro a ha h0
    exact (hpos a ha).2 (BitVec.eq_of_toNat_eq (by simpa using h0))
  have hne : ∀ a ∈ accepted (init cfg tsn peerRwnd) ops, fragSizes cfg.maxPayload.toNat (lenOf a.msg) ≠ [] :=
    fun a ha => fragSizes_ne_nil _ _ (hpos a ha).1 (hmp a ha)
  obtain ⟨g1, g2⟩ := gen_length cfg.useInterleaving cfg.maxPayload.toNat lenOf [] _ hne
  rw [hgen]
  exact ⟨g1, fun a ha => ⟨List.length_pos_iff.2 (hne a ha), g2 a ha, Nat.pos_of_ne_zero (hmp a ha)⟩⟩

/-- the moved chunks are at most the written ones -/
theorem moved_le_written (cfg : Cfg) (tsn peerRwnd : BitVec 32) (ops : List Op) :
    (moved (init cfg tsn peerRwnd) ops).length ≤ (written (init cfg tsn peerRwnd) ops).length := by
  have := moved_count_le cfg tsn peerRwnd ops (fun _ => true)
  simpa using this

end SenderTsn
