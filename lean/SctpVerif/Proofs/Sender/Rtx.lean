import SctpVerif.Proofs.Sender.Window
/-! T3 retransmissions (`getDataPacketsToRetransmit`) stay within `min(cwnd, rwnd)`, except the lone probe of the
earliest outstanding chunk when the peer window is smaller than that chunk. -/
namespace SenderProofs
open Gen Sender

/-- loop invariant: either everything taken so far fits the window, or exactly the probe was taken -/
def RtxOk {B : Type} (awnd : BitVec 32) (a : LoopAcc B) : Prop :=
  a.bytesToSend = (sumLen a.out : Int) ∧
  (a.bytesToSend ≤ (awnd.toNat : Int) ∨ (a.out.length = 1 ∧ (awnd.toNat : Int) < a.bytesToSend))

theorem sumLen_snoc (l : List Chunk) (c : Chunk) : sumLen (l ++ [c]) = sumLen l + c.len := by
  induction l with
  | nil => simp [sumLen]
  | cons x r ih => simp [sumLen, ih]; omega

theorem rtxLoop_window {B : Type} (s : St) (allow : B → Int → Bool × B) (i : Int) (q : List Chunk) (a : LoopAcc B)
    (hi : 0 ≤ i) (h0 : i = 0 → a.out = [] ∧ a.bytesToSend = 0)
    (ha : RtxOk (rtx_awnd s.cwnd s.rwnd) a) :
    RtxOk (rtx_awnd s.cwnd s.rwnd) (scanLoop s (rtxDecide s allow (rtx_awnd s.cwnd s.rwnd)) (rtxUpd s) i q a).2 := by
  induction q generalizing i a with
  | nil => simpa [scanLoop] using ha
  | cons c rest ih =>
    simp only [scanLoop]
    cases hd : rtxDecide s allow (rtx_awnd s.cwnd s.rwnd) i a c with
    | skip =>
      -- the first scanned chunk was skipped: nothing can be a probe any more, but nothing was taken either
      refine ih (i + 1) a (by omega) (fun h => by omega) ha
    | stop b => exact ha
    | take b bip =>
      simp only
      apply ih (i + 1) _ (by omega) (fun h => by omega)
      -- what allowed the take
      unfold rtxDecide at hd
      split at hd
      · cases hd
      · split at hd
        · cases hd
        · split at hd
          · cases hd
          · rename_i _ hwin
            simp only [Bool.and_eq_true, Bool.not_eq_true', not_and] at hwin
            obtain ⟨e1, e2⟩ := ha
            have hlen : ((rtxUpd s c).len : Int) = c.len := rfl
            refine ⟨?_, ?_⟩
            · simp only; rw [sumLen_snoc, e1]; push_cast; rw [show (rtxUpd s c).len = c.len from rfl]
            · by_cases hp : rtx_isProbe i s.rwnd (c.len : Int) = true
              · -- the probe: first scanned chunk, larger than rwnd
                simp only [rtx_isProbe, Bool.and_eq_true, beq_iff_eq, decide_eq_true_eq] at hp
                obtain ⟨hi0, hlt⟩ := hp
                obtain ⟨o1, o2⟩ := h0 hi0
                right
                refine ⟨by simp [o1], ?_⟩
                simp only [o2]
                have hle : (rtx_awnd s.cwnd s.rwnd).toNat ≤ s.rwnd.toNat := by
                  simp only [rtx_awnd, min32]
                  by_cases hc : s.cwnd < s.rwnd
                  · simp only [hc, decide_true, if_true]; bv_omega
                  · simp only [hc, decide_false, Bool.false_eq_true, if_false]; omega
                omega
              · have hne : rtx_exceedsWindow a.bytesToSend (c.len : Int) (rtx_awnd s.cwnd s.rwnd) = false := by
                  have := hwin (by simpa using hp)
                  simpa using this
                simp only [rtx_exceedsWindow, decide_eq_false_iff_not, Int.not_lt] at hne
                left; simp only; omega

/-- `getDataPacketsToRetransmit`: the user bytes retransmitted in one gather are at most `min(cwnd, rwnd)`, or the
gather retransmits a single chunk that alone exceeds that window (the zero-window probe of the earliest chunk) -/
theorem gatherRtx_window (s : St) (orc : Oracle) :
    (sumLen (gatherRtx s orc).2.1 : Int) ≤ ((min32 s.cwnd s.rwnd).toNat : Int) ∨ (gatherRtx s orc).2.1.length = 1 := by
  have h := rtxLoop_window s orc.allow 0 (scanSplit s).2 { b := orc.b, aband := s.abandonedMsgs } (by omega)
    (fun _ => ⟨rfl, rfl⟩) ⟨by simp [sumLen], Or.inl (by simp)⟩
  obtain ⟨h1, h2⟩ := h
  rcases h2 with h2 | h2
  · left
    show (sumLen (scanLoop s _ _ 0 _ _).2.out : Int) ≤ _
    rw [← h1]; exact h2
  · right; exact h2.1

end SenderProofs
