import SctpVerif.Proofs.Sender.Core
/-! The low-threshold callback: invocations = downward crossings of the threshold by the stream's buffered amount,
observed after every operation. -/
namespace SenderProofs
open Gen Sender

/-! ### the "bufferedAmount wrapped" flag never goes down -/

theorem popLoop_wrapBuf {B : Type} (allow : B → Int → Bool × B) (fuel : Nat) (s : St) (sel : List Nat) (a : PopAcc B) :
    (popLoop allow fuel s sel a).1.wrapBuf = s.wrapBuf ∧ (popLoop allow fuel s sel a).1.streams = s.streams := by
  induction fuel generalizing s sel a with
  | zero => exact ⟨rfl, rfl⟩
  | succ n ih =>
    simp only [popLoop]
    cases hpk : peek s sel with
    | none => exact ⟨rfl, rfl⟩
    | some ic =>
      obtain ⟨i, c⟩ := ic
      simp only
      split
      · obtain ⟨i1, i2⟩ := ih (popPend s i c) sel.tail { a with sisToReset := a.sisToReset ++ [c.si] }
        exact ⟨i1, i2⟩
      · cases hd : popDecide s allow a c with
        | skip => exact ⟨rfl, rfl⟩
        | stop b => exact ⟨rfl, rfl⟩
        | take b bip =>
          simp only
          obtain ⟨i1, i2⟩ := ih (admitChunk s i c).1 sel.tail { a with b := b, bip := bip, admits := a.admits ++ [mkAdmit s (admitChunk s i c).2 false] }
          exact ⟨i1.trans (move_wrapBuf _ _ _), i2.trans (admitChunk_frame s i c).2.2.2.2.2.2.2.2.1⟩

theorem probe_wrapBuf {B : Type} (allow : B → Int → Bool × B) (s : St) (sel : List Nat) (a : PopAcc B) :
    (probe allow s sel a).1.wrapBuf = s.wrapBuf ∧ (probe allow s sel a).1.streams = s.streams := by
  unfold probe
  split
  · cases hpk : peek s sel with
    | none => exact ⟨rfl, rfl⟩
    | some ic =>
      obtain ⟨i, c⟩ := ic
      simp only
      split
      · split
        · split
          · exact ⟨move_wrapBuf _ _ _, by simp [admitProbe, chargeProbe, move, popPend]⟩
          · exact ⟨rfl, rfl⟩
        · exact ⟨rfl, rfl⟩
      · exact ⟨rfl, rfl⟩
  · exact ⟨rfl, rfl⟩

theorem gather_streams (s : St) (orc : Oracle) (sel : List Nat) :
    (gather s orc sel).1.wrapBuf = s.wrapBuf ∧ (gather s orc sel).1.streams = s.streams := by
  unfold gather
  split
  · exact ⟨rfl, rfl⟩
  · simp only
    have h1 := gatherRtx_same s orc
    have h3 := gatherFast_same (gatherNew (gatherRtx s orc).1 orc.allow (gatherRtx s orc).2.2 sel).1 orc.allow
      (gatherNew (gatherRtx s orc).1 orc.allow (gatherRtx s orc).2.2 sel).2.b
    have h2 : (gatherNew (gatherRtx s orc).1 orc.allow (gatherRtx s orc).2.2 sel).1.wrapBuf = (gatherRtx s orc).1.wrapBuf ∧
        (gatherNew (gatherRtx s orc).1 orc.allow (gatherRtx s orc).2.2 sel).1.streams = (gatherRtx s orc).1.streams := by
      unfold gatherNew
      split
      · simp only
        obtain ⟨p1, p2⟩ := popLoop_wrapBuf orc.allow ((gatherRtx s orc).1.pending.length + 1) (gatherRtx s orc).1 sel { b := (gatherRtx s orc).2.2 }
        obtain ⟨q1, q2⟩ := probe_wrapBuf orc.allow (popLoop orc.allow ((gatherRtx s orc).1.pending.length + 1) (gatherRtx s orc).1 sel { b := (gatherRtx s orc).2.2 }).1
          (popLoop orc.allow ((gatherRtx s orc).1.pending.length + 1) (gatherRtx s orc).1 sel { b := (gatherRtx s orc).2.2 }).2.1
          (popLoop orc.allow ((gatherRtx s orc).1.pending.length + 1) (gatherRtx s orc).1 sel { b := (gatherRtx s orc).2.2 }).2.2
        exact ⟨q1.trans p1, q2.trans p2⟩
      · exact ⟨rfl, rfl⟩
    exact ⟨h3.2.2.2.2.2.2.2.trans (h2.1.trans h1.2.2.2.2.2.2.2), h3.2.2.2.2.2.1.trans (h2.2.trans h1.2.2.2.2.2.1)⟩

/-! ### one release per stream and SACK -/

theorem popCum_nodup (exitPt : BitVec 32) (q : List Chunk) (idx cum : BitVec 32) (a : CumAcc) {q' : List Chunk} {a' : CumAcc}
    (hk : RelKeysNodup a.rel) (h : popCum exitPt q idx cum a = some (q', a')) : RelKeysNodup a'.rel := by
  induction q generalizing idx a with
  | nil =>
    simp only [popCum] at h
    split at h
    · cases h
    · cases h; exact hk
  | cons c r ih =>
    simp only [popCum] at h
    split at h
    · split at h
      · refine ih (idx + 1) _ ?_ h
        simp only
        split
        · exact (addRel_keys _ _ _).2 hk
        · exact hk
      · cases h
    · cases h; exact hk

theorem markGaps_nodup (cum : BitVec 32) (gaps : List (BitVec 16 × BitVec 16)) (a : GapAcc) {a' : GapAcc}
    (hk : RelKeysNodup a.rel) (h : markGaps cum gaps a = some a') : RelKeysNodup a'.rel := by
  have one : ∀ (a : GapAcc) tsn a', RelKeysNodup a.rel → markOne a tsn = some a' → RelKeysNodup a'.rel := by
    intro a tsn a' hk h
    unfold markOne at h
    cases hg : Sender.get a.q tsn with
    | none => simp [hg] at h
    | some oc =>
      obtain ⟨off, c⟩ := oc
      simp only [hg, Option.some.injEq] at h
      subst h
      simp only
      split
      · exact (addRel_keys _ _ _).2 hk
      · exact hk
  have range : ∀ (is : List Nat) (a : GapAcc) a', RelKeysNodup a.rel → markRange cum is a = some a' → RelKeysNodup a'.rel := by
    intro is
    induction is with
    | nil => intro a a' hk h; simp [markRange] at h; subst h; exact hk
    | cons i r ih =>
      intro a a' hk h
      simp only [markRange] at h
      cases hm : markOne a (cum + BitVec.ofNat 32 i) with
      | none => simp [hm] at h
      | some a1 => simp only [hm] at h; exact ih a1 a' (one a _ a1 hk hm) h
  induction gaps generalizing a with
  | nil => simp [markGaps] at h; subst h; exact hk
  | cons g r ih =>
    obtain ⟨st, en⟩ := g
    simp only [markGaps] at h
    cases hm : markRange cum (List.range' st.toNat (en.toNat + 1 - st.toNat)) a with
    | none => simp [hm] at h
    | some a1 => simp only [hm] at h; exact ih a1 (range _ a a1 hk hm) h

/-- number of callback invocations of the Stream object for `si` -/
def cbOf (s : St) (si : BitVec 16) : Nat := match s.streams si with | some st => st.cbCount | none => 0

/-- a downward crossing of the threshold: above it before, at or below it after -/
def crossing (th a b : Nat) : Nat := if a > th ∧ b ≤ th then 1 else 0

/-- the stream object for `si` exists, has the callback installed and threshold `th` -/
def Watched (s : St) (si : BitVec 16) (th : BitVec 64) : Prop := ∃ st, s.streams si = some st ∧ st.threshold = th ∧ st.hasCb = true

theorem release_cb (st : Stream) (n : Int) (hcb : st.hasCb = true) :
    (release st n).1.cbCount = st.cbCount + crossing st.threshold.toNat st.buffered.toNat (release st n).1.buffered.toNat ∧
    (release st n).1.threshold = st.threshold ∧ (release st n).1.hasCb = st.hasCb ∧ (release st n).1.registered = st.registered := by
  unfold release
  split
  · refine ⟨?_, rfl, rfl, rfl⟩
    simp only [crossing]; split <;> omega
  · refine ⟨?_, rfl, rfl, rfl⟩
    simp only [release_crossesLow, crossing, hcb, Bool.true_and, BitVec.lt_def, BitVec.le_def, gt_iff_lt, Bool.and_eq_true, decide_eq_true_eq]


theorem releaseAll_untouched (rel : Rel) (s : St) (si : BitVec 16) (h : si ∉ rel.map (·.1)) :
    (releaseAll rel s).streams si = s.streams si := by
  induction rel generalizing s with
  | nil => rfl
  | cons e r ih =>
    obtain ⟨k, n⟩ := e
    simp only [List.map_cons, List.mem_cons, not_or] at h
    simp only [releaseAll]
    cases hs : s.streams k with
    | none => exact ih s h.2
    | some st =>
      simp only
      split
      · rw [ih _ h.2]; simp [setStream, h.1]
      · exact ih s h.2

theorem crossing_self (th a : Nat) : crossing th a a = 0 := by
  simp only [crossing]; split <;> omega

theorem releaseAll_cb (rel : Rel) (s : St) (hk : RelKeysNodup rel) (si : BitVec 16) (th : BitVec 64) (hw : Watched s si th) :
    Watched (releaseAll rel s) si th ∧
    cbOf (releaseAll rel s) si = cbOf s si + crossing th.toNat (bufOf s si) (bufOf (releaseAll rel s) si) := by
  induction rel generalizing s with
  | nil => exact ⟨hw, by simp [releaseAll, crossing_self]⟩
  | cons e r ih =>
    obtain ⟨k, n⟩ := e
    simp only [RelKeysNodup, List.map_cons, List.nodup_cons] at hk
    obtain ⟨hk1, hk2⟩ := hk
    simp only [releaseAll]
    by_cases hks : k = si
    · subst hks
      obtain ⟨st, hs, hth, hcb⟩ := hw
      simp only [hs]
      by_cases hreg : st.registered = true
      · simp only [hreg, if_true]
        have hun := releaseAll_untouched r { setStream s k (release st n).1 with clamped := s.clamped || (release st n).2 } k hk1
        obtain ⟨c1, c2, c3, _⟩ := release_cb st n hcb
        have hstr : (releaseAll r { setStream s k (release st n).1 with clamped := s.clamped || (release st n).2 }).streams k = some (release st n).1 := by
          rw [hun]; simp [setStream]
        refine ⟨⟨(release st n).1, hstr, by rw [c2, hth], by rw [c3, hcb]⟩, ?_⟩
        simp only [cbOf, bufOf, hstr, hs, c1, hth]
      · simp only [hreg, Bool.false_eq_true, if_false]
        have hun := releaseAll_untouched r s k hk1
        refine ⟨⟨st, by rw [hun]; exact hs, hth, hcb⟩, ?_⟩
        simp only [cbOf, bufOf, hun, hs, crossing_self]; omega
    · cases hs : s.streams k with
      | none => exact ih s hk2 hw
      | some st =>
        simp only
        split
        · have hw' : Watched { setStream s k (release st n).1 with clamped := s.clamped || (release st n).2 } si th := by
            obtain ⟨st0, h1, h2, h3⟩ := hw
            have : ¬ si = k := fun h => hks h.symm
            exact ⟨st0, by simp [setStream, this, h1], h2, h3⟩
          obtain ⟨i1, i2⟩ := ih _ hk2 hw'
          refine ⟨i1, ?_⟩
          have : ¬ si = k := fun h => hks h.symm
          have e1 : cbOf { setStream s k (release st n).1 with clamped := s.clamped || (release st n).2 } si = cbOf s si := by
            simp [cbOf, setStream, this]
          have e2 : bufOf { setStream s k (release st n).1 with clamped := s.clamped || (release st n).2 } si = bufOf s si := by
            simp [bufOf, setStream, this]
          rw [i2, e1, e2]
        · exact ih s hk2 hw


theorem cb_of_streams_eq {s s' : St} (h : s'.streams = s.streams) (si : BitVec 16) (th : BitVec 64) (hw : Watched s si th) :
    Watched s' si th ∧ cbOf s' si = cbOf s si + crossing th.toNat (bufOf s si) (bufOf s' si) := by
  refine ⟨by unfold Watched; rw [h]; exact hw, ?_⟩
  simp only [cbOf, bufOf, h, crossing_self]; omega

/-- the streams after a SACK: the old table with one release per stream named in a duplicate-free table -/
theorem sack_streams (s : St) (cum arwnd : BitVec 32) (gaps : List (BitVec 16 × BitVec 16)) (marks : List (BitVec 32))
    (hm : s.cfg.mtu.toNat < 2^30) :
    (sack s cum arwnd gaps marks).1.wrapBuf = s.wrapBuf ∧
    ∃ rel x, RelKeysNodup rel ∧ x.streams = s.streams ∧ (sack s cum arwnd gaps marks).1.streams = (releaseAll rel x).streams := by
  have triv : s.wrapBuf = s.wrapBuf ∧ ∃ rel x, RelKeysNodup rel ∧ x.streams = s.streams ∧ s.streams = (releaseAll rel x).streams :=
    ⟨rfl, [], s, by simp [RelKeysNodup], rfl, rfl⟩
  unfold sack
  split
  · exact triv
  · split
    · exact triv
    · split
      · exact triv
      · cases ha : ackPhase s cum gaps with
        | none => exact triv
        | some r =>
          simp only
          have hcfg := (ackPhase_win ha).1
          have hm' : (setPeerWindow r.1 arwnd).cfg.mtu.toNat < 2^30 := by show r.1.cfg.mtu.toNat < 2^30; rw [hcfg]; exact hm
          have f1 := (fastRetransCheck_frame (setPeerWindow r.1 arwnd) cum gaps r.2.1 r.2.2 hm').1
          have hr : r.1.wrapBuf = s.wrapBuf ∧ ∃ rel x, RelKeysNodup rel ∧ x.streams = s.streams ∧ r.1.streams = (releaseAll rel x).streams := by
            unfold ackPhase at ha
            split at ha
            · cases ha
            · rename_i qa hp
              split at ha
              · cases ha
              · rename_i g hg
                cases ha
                have k1 := popCum_nodup _ _ _ _ _ (by simp [RelKeysNodup]) hp
                have k2 := markGaps_nodup cum gaps _ k1 hg
                refine ⟨?_, g.rel, _, k2, ?_, rfl⟩
                · simp only [ackApply]
                  rw [(releaseAll_frame _ _).2.2.2.2.2.2.2.2.2.2.1]
                  split
                  · exact (onCumAdvanced_same _ _).1.2.2.2.2.2.2.2
                  · rfl
                · split
                  · exact (onCumAdvanced_same _ _).1.2.2.2.2.2.1
                  · rfl
          obtain ⟨h0, rel, x, h1, h2, h3⟩ := hr
          have fin : ∀ y : St, SameAcct (setPeerWindow r.1 arwnd) y →
              y.wrapBuf = s.wrapBuf ∧ ∃ rel x, RelKeysNodup rel ∧ x.streams = s.streams ∧ y.streams = (releaseAll rel x).streams :=
            fun y hy => ⟨by rw [hy.2.2.2.2.2.2.2.2.2.1]; exact h0, rel, x, h1, h2, by rw [hy.2.2.2.2.2.1]; exact h3⟩
          split
          · exact fin _ f1
          · have p1 := (prStep_frame (fastRetransCheck (setPeerWindow r.1 arwnd) cum gaps r.2.1 r.2.2).1).1
            have m1 := (applyMarks_frame (prStep (fastRetransCheck (setPeerWindow r.1 arwnd) cum gaps r.2.1 r.2.2).1) marks).1
            exact fin _ (SameAcct.trans f1 (SameAcct.trans p1 m1))

theorem iter_t3_streams (n : Nat) (s : St) : (iter t3 n s).streams = s.streams := (iter_t3_same n s).2.2.2.2.2.1

theorem write_cb (s : St) (k : BitVec 16) (ppi : BitVec 32) (len : Nat) (si : BitVec 16) (th : BitVec 64) (hw : Watched s si th)
    (hwb : (write s k ppi len).1.wrapBuf = false) :
    Watched (write s k ppi len).1 si th ∧
    cbOf (write s k ppi len).1 si = cbOf s si + crossing th.toNat (bufOf s si) (bufOf (write s k ppi len).1 si) := by
  unfold write at hwb ⊢
  cases hs : s.streams k with
  | none => exact cb_of_streams_eq rfl si th hw
  | some st =>
    simp only [hs] at hwb ⊢
    by_cases h1 : len > s.cfg.maxMessageSize.toNat
    · simp only [h1, if_true]; exact cb_of_streams_eq rfl si th hw
    · by_cases h2 : len = 0
      · simp only [h2, if_true]; exact cb_of_streams_eq rfl si th hw
      · by_cases hmp : s.cfg.maxPayload = 0
        · simp only [h1, h2, hmp, if_true, if_false]; exact cb_of_streams_eq rfl si th hw
        · simp only [h1, h2, hmp, if_false] at hwb ⊢
          obtain ⟨p1, p2, p3, p4, p5, p6, p7, p8, p9⟩ := packetize_spec s.cfg st k s.nextMsg ppi len hmp
          by_cases hk : si = k
          · subst hk
            obtain ⟨st0, g1, g2, g3⟩ := hw
            rw [hs] at g1; cases g1
            split
            · rename_i hest
              simp only [hest, if_true, pushPending, setStream, Bool.or_eq_false_iff] at hwb
              have hnw : st.buffered.toNat + len < 2^64 := by
                have := hwb.2; rw [p3] at this; simpa using this
              have hbuf : (st.buffered + BitVec.ofNat 64 len).toNat = st.buffered.toNat + len := by
                rw [BitVec.toNat_add, BitVec.toNat_ofNat]; omega
              refine ⟨⟨(packetize s.cfg st si s.nextMsg ppi len).st, by simp [pushPending, setStream], by rw [p7, g2], by rw [p8, g3]⟩, ?_⟩
              simp only [cbOf, bufOf, pushPending, setStream, if_true, hs, p9, p2, hbuf, crossing]
              split <;> omega
            · obtain ⟨r1, r2, r3, r4, r5⟩ := rollback_spec s.cfg (packetize s.cfg st si s.nextMsg ppi len).st (packetize s.cfg st si s.nextMsg ppi len).unordered len
              have hbuf : (rollback s.cfg (packetize s.cfg st si s.nextMsg ppi len).st (packetize s.cfg st si s.nextMsg ppi len).unordered len).buffered = st.buffered := by
                rw [r1, p2]; bv_omega
              refine ⟨⟨rollback s.cfg (packetize s.cfg st si s.nextMsg ppi len).st (packetize s.cfg st si s.nextMsg ppi len).unordered len, by simp [setStream], by rw [r3, p7, g2], by rw [r4, p8, g3]⟩, ?_⟩
              simp only [cbOf, bufOf, setStream, if_true, hs, r5, p9, hbuf, crossing_self]; omega
          · have hstr : ∀ x : St, x.streams = (fun j => if j = k then some (packetize s.cfg st k s.nextMsg ppi len).st else s.streams j) ∨
                x.streams = (fun j => if j = k then some (rollback s.cfg (packetize s.cfg st k s.nextMsg ppi len).st (packetize s.cfg st k s.nextMsg ppi len).unordered len) else
                  (fun j => if j = k then some (packetize s.cfg st k s.nextMsg ppi len).st else s.streams j) j) →
                x.streams si = s.streams si := by
              intro x hx
              rcases hx with h | h <;> simp [h, hk]
            have fin : ∀ x : St, x.streams si = s.streams si →
                Watched x si th ∧ cbOf x si = cbOf s si + crossing th.toNat (bufOf s si) (bufOf x si) := by
              intro x hx
              refine ⟨by unfold Watched; rw [hx]; exact hw, ?_⟩
              simp only [cbOf, bufOf, hx, crossing_self]; omega
            split
            · exact fin _ (hstr _ (Or.inl rfl))
            · exact fin _ (hstr _ (Or.inr rfl))

/-- one operation (other than re-configuring stream `si` itself): the callback count of `si` grows by exactly the
downward crossing, if any, of its buffered amount across the operation -/
theorem step_cb (s : St) (op : Op) (si : BitVec 16) (th : BitVec 64) (hw : Watched s si th) (hm : CfgOk s.cfg)
    (hop : ∀ u rt rv th', op ≠ .openS si u rt rv th') (hwb : (step s op).wrapBuf = false) :
    Watched (step s op) si th ∧ cbOf (step s op) si = cbOf s si + crossing th.toNat (bufOf s si) (bufOf (step s op) si) := by
  cases op with
  | openS k u rt rv th' =>
    have hk : ¬ si = k := fun h => hop u rt rv th' (by rw [h])
    have hstr : (step s (.openS k u rt rv th')).streams si = s.streams si := by simp [step, openStream, setStream, hk]
    refine ⟨by unfold Watched; rw [hstr]; exact hw, ?_⟩
    simp only [cbOf, bufOf, hstr, crossing_self]; omega
  | unreg k =>
    simp only [step, unregister]
    cases hs : s.streams k with
    | none => exact cb_of_streams_eq rfl si th hw
    | some st =>
      simp only
      by_cases hk : si = k
      · subst hk
        obtain ⟨st0, g1, g2, g3⟩ := hw
        rw [hs] at g1; cases g1
        refine ⟨⟨{ st with registered := false }, by simp [setStream], g2, g3⟩, ?_⟩
        simp only [cbOf, bufOf, setStream, if_true, hs, crossing_self]; omega
      · have hstr : (setStream s k { st with registered := false }).streams si = s.streams si := by simp [setStream, hk]
        refine ⟨by unfold Watched; rw [hstr]; exact hw, ?_⟩
        simp only [cbOf, bufOf, hstr, crossing_self]; omega
  | setEstablished b => exact cb_of_streams_eq rfl si th hw
  | write k ppi len => exact write_cb s k ppi len si th hw hwb
  | gather orc sel => exact cb_of_streams_eq (gather_streams s orc sel).2 si th hw
  | sack cum arwnd gaps marks =>
    obtain ⟨_, rel, x, h1, h2, h3⟩ := sack_streams s cum arwnd gaps marks hm
    have hwx : Watched x si th := by unfold Watched; rw [h2]; exact hw
    obtain ⟨r1, r2⟩ := releaseAll_cb rel x h1 si th hwx
    refine ⟨by unfold Watched at r1 ⊢; rw [show (step s (.sack cum arwnd gaps marks)).streams = _ from h3]; exact r1, ?_⟩
    have e1 : cbOf (step s (.sack cum arwnd gaps marks)) si = cbOf (releaseAll rel x) si := by
      simp only [cbOf, show (step s (.sack cum arwnd gaps marks)).streams = _ from h3]
    have e2 : bufOf (step s (.sack cum arwnd gaps marks)) si = bufOf (releaseAll rel x) si := by
      simp only [bufOf, show (step s (.sack cum arwnd gaps marks)).streams = _ from h3]
    have e3 : cbOf x si = cbOf s si := by simp only [cbOf, h2]
    have e4 : bufOf x si = bufOf s si := by simp only [bufOf, h2]
    rw [e1, e2, r2, e3, e4]
  | t3 => exact cb_of_streams_eq (t3_same s).2.2.2.2.2.1 si th hw
  | tick ms n marks =>
    have h : (step s (.tick ms n marks)).streams = s.streams := by
      simp only [step]
      rw [(applyMarks_frame _ marks).1.2.2.2.2.2.1, iter_t3_streams]
    exact cb_of_streams_eq h si th hw

/-- the buffered amount of `si` observed after every operation of a run (starting value first) -/
def traj (si : BitVec 16) : St → List Op → List Nat
  | s, [] => [bufOf s si]
  | s, op :: ops => bufOf s si :: traj si (step s op) ops

/-- downward crossings of `th` along a trajectory -/
def crossings (th : Nat) : List Nat → Nat
  | a :: b :: r => crossing th a b + crossings th (b :: r)
  | _ => 0

theorem traj_head (si : BitVec 16) (s : St) (ops : List Op) : ∃ r, traj si s ops = bufOf s si :: r := by
  cases ops <;> exact ⟨_, rfl⟩

theorem step_wrapBuf (s : St) (op : Op) (hm : CfgOk s.cfg) : (step s op).wrapBuf = false → s.wrapBuf = false := by
  cases op with
  | openS k u rt rv th' => exact id
  | unreg k => intro h; simp only [step, unregister] at h; split at h <;> exact h
  | setEstablished b => exact id
  | write k ppi len => exact write_wrapBuf s k ppi len
  | gather orc sel => intro h; rw [← (gather_streams s orc sel).1]; exact h
  | sack cum arwnd gaps marks => intro h; rw [← (sack_streams s cum arwnd gaps marks hm).1]; exact h
  | t3 => intro h; rw [← (t3_same s).2.2.2.2.2.2.2]; exact h
  | tick ms n marks =>
    intro h
    simp only [step] at h
    rw [(applyMarks_frame _ marks).1.2.2.2.2.2.2.2.2.2.1, (iter_t3_same n _).2.2.2.2.2.2.2] at h
    exact h


theorem run_wrapBuf (s : St) (ops : List Op) (hw : WinInv s) : (run s ops).wrapBuf = false → s.wrapBuf = false := by
  induction ops generalizing s with
  | nil => exact id
  | cons op ops ih => exact fun h => step_wrapBuf s op hw.cfgOk (ih (step s op) (step_win s op hw).1 h)

/-- along any run that does not re-configure stream `si`: callback invocations = downward crossings of the threshold
by the buffered amount observed after each operation -/
theorem run_cb (s : St) (ops : List Op) (si : BitVec 16) (th : BitVec 64) (hw : Watched s si th) (hwin : WinInv s)
    (hops : ∀ op ∈ ops, ∀ u rt rv th', op ≠ .openS si u rt rv th') (hwb : (run s ops).wrapBuf = false) :
    cbOf (run s ops) si = cbOf s si + crossings th.toNat (traj si s ops) := by
  induction ops generalizing s with
  | nil => simp [run, traj, crossings]
  | cons op ops ih =>
    have hwb1 : (step s op).wrapBuf = false := run_wrapBuf (step s op) ops (step_win s op hwin).1 hwb
    obtain ⟨w1, w2⟩ := step_cb s op si th hw hwin.cfgOk (hops op (by simp)) hwb1
    have := ih (step s op) w1 (step_win s op hwin).1 (fun o ho => hops o (by simp [ho])) hwb
    obtain ⟨r, hr⟩ := traj_head si (step s op) ops
    simp only [run, traj]
    rw [this, w2, hr, crossings, ← hr]
    omega

end SenderProofs
