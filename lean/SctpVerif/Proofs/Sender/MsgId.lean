import SctpVerif.Proofs.Sender.Wire
/-! Message identities: `nextMsg` is touched by `write` only, so the `msg` field identifies the write that created a chunk. -/
namespace SenderProofs
open Gen Sender

theorem move_nextMsg (s : St) (i : Nat) (c : Chunk) : (move s i c).1.nextMsg = s.nextMsg := rfl

theorem popLoop_nextMsg {B : Type} (allow : B → Int → Bool × B) (fuel : Nat) (s : St) (sel : List Nat) (a : PopAcc B) :
    (popLoop allow fuel s sel a).1.nextMsg = s.nextMsg := by
  induction fuel generalizing s sel a with
  | zero => rfl
  | succ fuel ih =>
    simp only [popLoop]
    cases hp : peek s sel with
    | none => rfl
    | some ic =>
      obtain ⟨i, c⟩ := ic
      simp only
      split
      · rw [ih]; rfl
      · cases hd : popDecide s allow a c with
        | skip => rfl
        | stop b => rfl
        | take b bip => simp only; rw [ih]; rfl

theorem probe_nextMsg {B : Type} (allow : B → Int → Bool × B) (s : St) (sel : List Nat) (a : PopAcc B) :
    (probe allow s sel a).1.nextMsg = s.nextMsg := by
  unfold probe
  split
  · cases hp : peek s sel with
    | none => rfl
    | some ic =>
      obtain ⟨i, c⟩ := ic
      simp only
      repeat' split
      all_goals rfl
  · rfl

theorem gatherNew_nextMsg {B : Type} (allow : B → Int → Bool × B) (b : B) (s : St) (sel : List Nat) :
    (gatherNew s allow b sel).1.nextMsg = s.nextMsg := by
  unfold gatherNew
  split
  · simp only; rw [probe_nextMsg, popLoop_nextMsg]
  · rfl

theorem gatherFast_nextMsg {B : Type} (s : St) (allow : B → Int → Bool × B) (b : B) : (gatherFast s allow b).1.nextMsg = s.nextMsg := by
  unfold gatherFast
  split <;> rfl

theorem gather_nextMsg (s : St) (orc : Oracle) (sel : List Nat) : (gather s orc sel).1.nextMsg = s.nextMsg := by
  unfold gather
  split
  · rfl
  · simp only; rw [gatherFast_nextMsg, gatherNew_nextMsg]; rfl

theorem releaseAll_nextMsg (rel : Rel) (s : St) : (releaseAll rel s).nextMsg = s.nextMsg := by
  induction rel generalizing s with
  | nil => rfl
  | cons e r ih =>
    obtain ⟨si, n⟩ := e
    simp only [releaseAll]
    cases hs : s.streams si with
    | none => exact ih s
    | some st =>
      simp only
      split
      · rw [ih]; rfl
      · exact ih s

theorem onCumAdvanced_nextMsg (s : St) (total : Int) : (onCumAdvanced s total).nextMsg = s.nextMsg := by
  unfold onCumAdvanced
  split
  · split <;> rfl
  · simp only; split <;> rfl

theorem ackPhase_nextMsg {s : St} {cum : BitVec 32} {gaps : List (BitVec 16 × BitVec 16)} {r : St × BitVec 32 × Bool}
    (h : ackPhase s cum gaps = some r) : r.1.nextMsg = s.nextMsg := by
  unfold ackPhase at h
  split at h
  · cases h
  · split at h
    · cases h
    · cases h
      simp only [ackApply]
      rw [releaseAll_nextMsg]
      split
      · rw [onCumAdvanced_nextMsg]
      · rfl

theorem missLoop_nextMsg (htna : BitVec 32) (fuel : Nat) (s : St) (tsn maxTSN : BitVec 32) :
    (missLoop htna fuel s tsn maxTSN).1.nextMsg = s.nextMsg := by
  induction fuel generalizing s tsn with
  | zero => rfl
  | succ fuel ih =>
    simp only [missLoop]
    split
    · cases hg : Sender.get s.inflight tsn with
      | none => rfl
      | some oc =>
        obtain ⟨off, c⟩ := oc
        simp only
        split
        · rw [ih]; split <;> rfl
        · exact ih _ _
    · rfl

theorem fastRetransCheck_nextMsg (s : St) (cum : BitVec 32) (gaps : List (BitVec 16 × BitVec 16)) (htna : BitVec 32) (adv : Bool) :
    (fastRetransCheck s cum gaps htna adv).1.nextMsg = s.nextMsg := by
  have h1 : (frLoop s cum gaps htna adv).1.nextMsg = s.nextMsg := by
    unfold frLoop
    split
    · exact missLoop_nextMsg _ _ _ _ _
    · rfl
  have h2 : ∀ r : St × Bool, (frPost r adv).1.nextMsg = r.1.nextMsg := by
    intro r
    unfold frPost
    split
    · rfl
    · split <;> rfl
  unfold fastRetransCheck
  rw [h2, h1]

theorem advLoop_nextMsg (fuel : Nat) (s : St) : (advLoop fuel s).nextMsg = s.nextMsg := by
  induction fuel generalizing s with
  | zero => rfl
  | succ fuel ih =>
    simp only [advLoop]
    split
    · rfl
    · split
      · rfl
      · rw [ih]

theorem advancePeerAck_nextMsg (s : St) : (advancePeerAck s).nextMsg = s.nextMsg := by
  unfold advancePeerAck
  simp only
  split <;> exact advLoop_nextMsg _ _

theorem prStep_nextMsg (s : St) : (prStep s).nextMsg = s.nextMsg := by
  unfold prStep
  split
  · split
    · rw [advancePeerAck_nextMsg]
    · rw [advancePeerAck_nextMsg]
  · rfl

theorem sack_nextMsg (s : St) (cum arwnd : BitVec 32) (gaps : List (BitVec 16 × BitVec 16)) (marks : List (BitVec 32)) :
    (sack s cum arwnd gaps marks).1.nextMsg = s.nextMsg := by
  unfold sack
  split
  · rfl
  · split
    · rfl
    · split
      · rfl
      · cases ha : ackPhase s cum gaps with
        | none => rfl
        | some r =>
          simp only
          have h1 := ackPhase_nextMsg ha
          have h3 := fastRetransCheck_nextMsg (setPeerWindow r.1 arwnd) cum gaps r.2.1 r.2.2
          split
          · rw [h3]; exact h1
          · show (prStep _).nextMsg = _
            rw [prStep_nextMsg, h3]; exact h1

theorem prAdv_nextMsg (y : St) : (if y.cfg.prEnabled then advancePeerAck y else y).nextMsg = y.nextMsg := by
  split
  · exact advancePeerAck_nextMsg y
  · rfl

theorem t3_nextMsg (s : St) : (t3 s).nextMsg = s.nextMsg := by
  unfold t3
  simp only
  rw [prAdv_nextMsg]
  split <;> rfl

theorem iter_t3_nextMsg (n : Nat) (s : St) : (iter t3 n s).nextMsg = s.nextMsg := by
  induction n generalizing s with
  | zero => rfl
  | succ n ih => simp only [iter]; rw [ih, t3_nextMsg]

theorem write_nextMsg (s : St) (si : BitVec 16) (ppi : BitVec 32) (len : Nat) :
    s.nextMsg ≤ (write s si ppi len).1.nextMsg ∧
    (writeChunks s si ppi len ≠ [] → (write s si ppi len).1.nextMsg = s.nextMsg + 1) := by
  unfold write writeChunks
  cases hs : s.streams si with
  | none => simp
  | some st =>
    simp only
    split
    · simp
    · split
      · simp
      · split
        · simp
        · split
          · simp [pushPending, setStream]
          · simp [setStream]

theorem step_nextMsg (s : St) (op : Op) :
    s.nextMsg ≤ (step s op).nextMsg ∧ (writtenBy s op ≠ [] → (step s op).nextMsg = s.nextMsg + 1) := by
  cases op with
  | openS si u rt rv th => exact ⟨Nat.le_of_eq (by simp [step, openStream, setStream]), fun h => absurd rfl h⟩
  | unreg si =>
    refine ⟨Nat.le_of_eq ?_, fun h => absurd rfl h⟩
    simp only [step, unregister]; split <;> rfl
  | setEstablished b => exact ⟨Nat.le_refl _, fun h => absurd rfl h⟩
  | write si ppi len => exact write_nextMsg s si ppi len
  | gather orc sel => exact ⟨Nat.le_of_eq (gather_nextMsg s orc sel).symm, fun h => absurd rfl h⟩
  | sack cum arwnd gaps marks => exact ⟨Nat.le_of_eq (sack_nextMsg s cum arwnd gaps marks).symm, fun h => absurd rfl h⟩
  | t3 => exact ⟨Nat.le_of_eq (t3_nextMsg s).symm, fun h => absurd rfl h⟩
  | tick ms n marks =>
    refine ⟨Nat.le_of_eq ?_, fun h => absurd rfl h⟩
    show s.nextMsg = (applyMarks (iter t3 n { s with now := s.now + ms }) marks).nextMsg
    show s.nextMsg = (iter t3 n { s with now := s.now + ms }).nextMsg
    rw [iter_t3_nextMsg]

/-- chunks written by a run carry message identities at or above the counter at its start -/
theorem written_msg_ge (s : St) (ops : List Op) : ∀ c ∈ written s ops, s.nextMsg ≤ c.msg := by
  induction ops generalizing s with
  | nil => intro c hc; cases hc
  | cons op ops ih =>
    intro c hc
    simp only [written, List.mem_append] at hc
    rcases hc with h | h
    · cases op with
      | write si ppi len =>
        simp only [writtenBy] at h
        unfold writeChunks at h
        cases hs : s.streams si with
        | none => simp [hs] at h
        | some st =>
          simp only [hs] at h
          split at h
          · cases h
          · split at h
            · cases h
            · split at h
              · cases h
              · split at h
                · obtain ⟨i, hi⟩ := List.getElem?_of_mem h
                  have := mkChunks_get _ _ _ _ _ _ _ _ _ i c (by simpa only [packetize] using hi)
                  exact Nat.le_of_eq this.2.1.symm
                · cases h
      | _ => cases h
    · exact Nat.le_trans (step_nextMsg s op).1 (ih _ c h)

theorem writeChunks_cases (s : St) (si : BitVec 16) (ppi : BitVec 32) (len : Nat) :
    writeChunks s si ppi len = [] ∨
    ∃ u ssn mid, writeChunks s si ppi len = mkChunks si s.nextMsg ppi u ssn mid (fragSizes s.cfg.maxPayload.toNat len) 0 true ∧
      len ≤ s.cfg.maxMessageSize.toNat ∧ s.cfg.maxPayload ≠ 0 := by
  unfold writeChunks
  cases hs : s.streams si with
  | none => exact Or.inl rfl
  | some st =>
    simp only
    split
    · exact Or.inl rfl
    · split
      · exact Or.inl rfl
      · split
        · exact Or.inl rfl
        · split
          · rename_i h1 _ h3 _
            exact Or.inr ⟨_, _, _, by simp only [packetize]; rfl, by omega, h3⟩
          · exact Or.inl rfl

theorem fragSizes_length_le (mp len : Nat) (hmp : 0 < mp) : (fragSizes mp len).length ≤ len := by
  obtain ⟨h1, h2⟩ := fragAux_spec mp hmp len len (Nat.le_refl _)
  unfold fragSizes
  have : ∀ l : List Nat, (∀ f ∈ l, 0 < f) → l.length ≤ l.sum := by
    intro l
    induction l with
    | nil => intro _; simp
    | cons x r ih =>
      intro h
      have hx := h x List.mem_cons_self
      have := ih (fun f hf => h f (List.mem_cons_of_mem _ hf))
      simp only [List.length_cons, List.sum_cons]; omega
  have := this _ (fun f hf => (h2 f hf).1)
  omega

/-- **Message identity.** Two chunks created by the writes of a run that carry the same `msg` were created by the same
write: same stream, PPI, ordering flag, SSN and MID; if they also have the same FSN they are the same chunk. -/
theorem written_same_msg (s : St) (ops : List Op) :
    ∀ a ∈ written s ops, ∀ b ∈ written s ops, a.msg = b.msg →
      a.si = b.si ∧ a.ppi = b.ppi ∧ a.unordered = b.unordered ∧ a.ssn = b.ssn ∧ a.mid = b.mid ∧ (a.fsn = b.fsn → a = b) := by
  induction ops generalizing s with
  | nil => intro a ha; cases ha
  | cons op ops ih =>
    intro a ha b hb hab
    simp only [written, List.mem_append] at ha hb
    have hge := written_msg_ge (step s op) ops
    have hhead : ∀ c ∈ writtenBy s op, c.msg = s.nextMsg ∧ (step s op).nextMsg = s.nextMsg + 1 := by
      intro c hc
      have hne : writtenBy s op ≠ [] := List.ne_nil_of_mem hc
      refine ⟨?_, (step_nextMsg s op).2 hne⟩
      cases op with
      | write si ppi len =>
        simp only [writtenBy] at hc
        rcases writeChunks_cases s si ppi len with h | ⟨u, ssn, mid, h, _, _⟩
        · rw [h] at hc; cases hc
        · rw [h] at hc
          obtain ⟨i, hi⟩ := List.getElem?_of_mem hc
          exact (mkChunks_get _ _ _ _ _ _ _ _ _ i c hi).2.1
      | _ => cases hc
    rcases ha with ha | ha <;> rcases hb with hb | hb
    · -- both created by this write
      cases op with
      | write si ppi len =>
        simp only [writtenBy] at ha hb
        rcases writeChunks_cases s si ppi len with h | ⟨u, ssn, mid, h, hlen, hmp⟩
        · rw [h] at ha; cases ha
        · rw [h] at ha hb
          obtain ⟨i, hi⟩ := List.getElem?_of_mem ha
          obtain ⟨j, hj⟩ := List.getElem?_of_mem hb
          obtain ⟨a1, _, a3, a4, a5, a6, a7, _, _, a10⟩ := mkChunks_get _ _ _ _ _ _ _ _ _ i a hi
          obtain ⟨b1, _, b3, b4, b5, b6, b7, _, _, b10⟩ := mkChunks_get _ _ _ _ _ _ _ _ _ j b hj
          refine ⟨a1.trans b1.symm, a3.trans b3.symm, a4.trans b4.symm, a5.trans b5.symm, a6.trans b6.symm, fun hf => ?_⟩
          have hmp' : 0 < s.cfg.maxPayload.toNat := by
            rcases Nat.eq_zero_or_pos s.cfg.maxPayload.toNat with h0 | h0
            · exact absurd (BitVec.eq_of_toNat_eq (by simpa using h0)) hmp
            · exact h0
          have hcount := fragSizes_length_le s.cfg.maxPayload.toNat len hmp'
          have hmax : s.cfg.maxMessageSize.toNat < 2^32 := s.cfg.maxMessageSize.isLt
          have hi' : i < (fragSizes s.cfg.maxPayload.toNat len).length := by
            rcases Nat.lt_or_ge i (fragSizes s.cfg.maxPayload.toNat len).length with h' | h'
            · exact h'
            · rw [List.getElem?_eq_none h'] at a10; cases a10
          have hj' : j < (fragSizes s.cfg.maxPayload.toNat len).length := by
            rcases Nat.lt_or_ge j (fragSizes s.cfg.maxPayload.toNat len).length with h' | h'
            · exact h'
            · rw [List.getElem?_eq_none h'] at b10; cases b10
          rw [a7, b7] at hf
          have hij : i = j := by
            have hf' : BitVec.ofNat 32 i = BitVec.ofNat 32 j := by simpa using hf
            have := congrArg BitVec.toNat hf'
            simp only [BitVec.toNat_ofNat] at this
            omega
          subst hij
          rw [hi] at hj
          exact Option.some.inj hj
      | _ => cases ha
    · have h1 := hhead a ha
      have h2 := hge b hb
      omega
    · have h1 := hhead b hb
      have h2 := hge a ha
      omega
    · exact ih (step s op) a ha b hb hab

end SenderProofs
