import SctpVerif.Proofs.Sender.Progress
/-! Recovery against a peer that keeps nothing beyond its cumulative point (except what it gap-acked): the schedule
"T3 expires; gather; the peer acknowledges, cumulatively, exactly what it can have" makes progress in every round.
Used by `C02_recovers_faithful` in `Props/C02.lean`. -/
namespace SenderProofs
open Gen Sender

/-! ### every unacknowledged in-flight chunk fits a packet -/

def InfFit (s : St) : Prop :=
  ∀ c ∈ s.inflight, c.acked = false → hdr + c.sizeInPacket s.cfg.useInterleaving ≤ (s.cfg.mtu.toNat : Int)

theorem mem_of_map_core {l l' : List Chunk} (h : l'.map Chunk.core = l.map Chunk.core) {c' : Chunk} (hc : c' ∈ l') :
    ∃ c ∈ l, Chunk.core c' = Chunk.core c := by
  have : Chunk.core c' ∈ l'.map Chunk.core := List.mem_map_of_mem hc
  rw [h] at this
  obtain ⟨c, h1, h2⟩ := List.mem_map.mp this
  exact ⟨c, h1, h2.symm⟩

theorem core_len_acked {c c' : Chunk} (h : Chunk.core c' = Chunk.core c) : c'.len = c.len ∧ c'.acked = c.acked ∧ c'.tsn = c.tsn := by
  simp only [Chunk.core, Prod.mk.injEq] at h
  exact ⟨h.2.2.1, h.2.2.2.1, h.1⟩

theorem InfFit.of_core {s s' : St} (h : InfFit s) (hc : s'.inflight.map Chunk.core = s.inflight.map Chunk.core) (hcfg : s'.cfg = s.cfg) : InfFit s' := by
  intro c' hc' ha
  obtain ⟨c, h1, h2⟩ := mem_of_map_core hc hc'
  obtain ⟨e1, e2, _⟩ := core_len_acked h2
  rw [hcfg, sip_congr _ c c' e1]
  exact h c h1 (by rw [← e2]; exact ha)

theorem gather_admits_fit (s : St) (orc : Oracle) (sel : List Nat) :
    AllFit s.cfg.mtu s.cfg.useInterleaving ((gather s orc sel).2.admits.map (·.chunk)) := by
  unfold gather
  split
  · exact allFit_nil _ _
  · simp only
    have := (gatherNew_fit orc.allow (gatherRtx s orc).2.2 (gatherRtx s orc).1 sel).2
    rw [(gatherRtx_frame s orc).2.2.2.2.2.1] at this
    exact this

theorem gather_inffit (s : St) (orc : Oracle) (sel : List Nat) (h : InfFit s) : InfFit (gather s orc sel).1 := by
  intro c' hc' ha
  have hin := gather_inflight s orc sel
  have hcfg := gather_cfg s orc sel
  have : Chunk.core c' ∈ (gather s orc sel).1.inflight.map Chunk.core := List.mem_map_of_mem hc'
  rw [hin, List.mem_append] at this
  rw [hcfg]
  rcases this with h1 | h1
  · obtain ⟨c, g1, g2⟩ := List.mem_map.mp h1
    obtain ⟨e1, e2, _⟩ := core_len_acked g2.symm
    rw [sip_congr _ c c' e1]
    exact h c g1 (by rw [← e2]; exact ha)
  · obtain ⟨c, g1, g2⟩ := List.mem_map.mp h1
    obtain ⟨e1, _, _⟩ := core_len_acked g2.symm
    rw [sip_congr _ c c' e1]
    exact gather_admits_fit s orc sel c g1

theorem markOne_unacked (a : GapAcc) (tsn : BitVec 32) {a' : GapAcc} (h : markOne a tsn = some a') :
    ∀ c ∈ a'.q, c.acked = false → c ∈ a.q := by
  unfold markOne at h
  cases hg : Sender.get a.q tsn with
  | none => simp [hg] at h
  | some oc =>
    obtain ⟨off, c0⟩ := oc
    simp only [hg, Option.some.injEq] at h
    subst h
    simp only
    split
    · intro c hc ha
      simp only at hc
      rcases mem_set_cases hc with h1 | h1
      · rw [h1] at ha; cases ha
      · exact h1
    · intro c hc _; exact hc

theorem markRange_unacked (cum : BitVec 32) (is : List Nat) (a : GapAcc) {a' : GapAcc} (h : markRange cum is a = some a') :
    ∀ c ∈ a'.q, c.acked = false → c ∈ a.q := by
  induction is generalizing a with
  | nil => simp [markRange] at h; subst h; intro c hc _; exact hc
  | cons i r ih =>
    simp only [markRange] at h
    cases h1 : markOne a (cum + BitVec.ofNat 32 i) with
    | none => simp [h1] at h
    | some a1 =>
      simp only [h1] at h
      intro c hc ha
      exact markOne_unacked a _ h1 c (ih a1 h c hc ha) ha

theorem markGaps_unacked (cum : BitVec 32) (gaps : List (BitVec 16 × BitVec 16)) (a : GapAcc) {a' : GapAcc} (h : markGaps cum gaps a = some a') :
    ∀ c ∈ a'.q, c.acked = false → c ∈ a.q := by
  induction gaps generalizing a with
  | nil => simp [markGaps] at h; subst h; intro c hc _; exact hc
  | cons g r ih =>
    obtain ⟨st, en⟩ := g
    simp only [markGaps] at h
    cases h1 : markRange cum (List.range' st.toNat (en.toNat + 1 - st.toNat)) a with
    | none => simp [h1] at h
    | some a1 =>
      simp only [h1] at h
      intro c hc ha
      exact markRange_unacked cum _ a h1 c (ih a1 h c hc ha) ha

theorem ackPhase_unacked {s : St} {cum : BitVec 32} {gaps : List (BitVec 16 × BitVec 16)} {r : St × BitVec 32 × Bool}
    (h : ackPhase s cum gaps = some r) : ∀ c ∈ r.1.inflight, c.acked = false → c ∈ s.inflight := by
  unfold ackPhase at h
  split at h
  · cases h
  · rename_i qa hp
    split at h
    · cases h
    · rename_i g hg
      simp only [Option.some.injEq] at h
      subst h
      obtain ⟨k, _, hq⟩ := popCum_drop _ _ _ _ _ hp
      intro c hc ha
      rw [ackApply_inflight] at hc
      have := markGaps_unacked cum gaps _ hg c hc ha
      simp only at this
      rw [hq] at this
      exact List.mem_of_mem_drop this

theorem sack_inffit (s : St) (cum arwnd : BitVec 32) (gaps : List (BitVec 16 × BitVec 16)) (marks : List (BitVec 32))
    (hs : Seq s) (hsm : s.inflight.length < 2^31) (hm : CfgOk s.cfg) (h : InfFit s) : InfFit (sack s cum arwnd gaps marks).1 := by
  rcases sack_cases s cum arwnd gaps marks hs hsm with ⟨_, _, he, _⟩ | ⟨_, _, _, _, r, hr, hrs, _, hfin⟩
  · rw [he]; exact h
  · have hcfg : r.1.cfg = s.cfg := (ackPhase_win hr).1
    have hm' : (setPeerWindow r.1 arwnd).cfg.mtu.toNat < 2^30 := by show r.1.cfg.mtu.toNat < 2^30; rw [hcfg]; exact hm
    have f1 := (fastRetransCheck_frame (setPeerWindow r.1 arwnd) cum gaps r.2.1 r.2.2 hm').1
    have p1 := (prStep_frame (fastRetransCheck (setPeerWindow r.1 arwnd) cum gaps r.2.1 r.2.2).1).1
    have m1 := (applyMarks_frame (prStep (fastRetransCheck (setPeerWindow r.1 arwnd) cum gaps r.2.1 r.2.2).1) marks).1
    have hsame := SameAcct.trans f1 (SameAcct.trans p1 m1)
    rw [← hfin] at hsame
    have h0 : InfFit (setPeerWindow r.1 arwnd) := by
      intro c hc ha
      have hc' : c ∈ r.1.inflight := hc
      have := h c (ackPhase_unacked hr c hc' ha) ha
      show hdr + c.sizeInPacket r.1.cfg.useInterleaving ≤ (r.1.cfg.mtu.toNat : Int)
      rw [hcfg]; exact this
    exact h0.of_core hsame.2.2.2.2.2.2.2.2.2.2.2.2.2 hsame.2.2.2.2.1

theorem t3_inffit (s : St) (h : InfFit s) : InfFit (t3 s) :=
  h.of_core (t3_frame s).1.2.2.2.2.2.2.2.2.2.2.2.2.2 (t3_frame s).1.2.2.2.2.1

theorem step_inffit (s : St) (op : Op) (hs : Seq s) (hw : WinInv s) (hsm : s.inflight.length < 2^31) (h : InfFit s) : InfFit (step s op) := by
  cases op with
  | openS si u rt rv th => exact h
  | unreg si =>
    simp only [step, unregister]
    split <;> exact h
  | setEstablished b => exact h
  | write si ppi len =>
    have f := write_frame s si ppi len
    intro c hc ha
    simp only [step] at hc ⊢
    rw [f.2.2.2.2.1]
    rw [f.2.2.2.2.2.2.1] at hc
    exact h c hc ha
  | gather orc sel => exact gather_inffit s orc sel h
  | sack cum arwnd gaps marks => exact sack_inffit s cum arwnd gaps marks hs hsm hw.cfgOk h
  | t3 => exact t3_inffit s h
  | tick ms n marks =>
    have h1 : SameAcct s { s with now := s.now + ms } := ⟨rfl, rfl, rfl, rfl, rfl, rfl, rfl, rfl, rfl, rfl, rfl, rfl, rfl, rfl⟩
    have hsame := SameAcct.trans h1 (SameAcct.trans (iter_t3_sameAcct n _) (applyMarks_frame _ marks).1)
    exact h.of_core hsame.2.2.2.2.2.2.2.2.2.2.2.2.2 hsame.2.2.2.2.1

theorem run_inffit (s : St) (ops : List Op) (hs : Seq s) (hw : WinInv s) (h : InfFit s) (hok : TsnOk s ops) : InfFit (run s ops) := by
  induction ops generalizing s with
  | nil => exact h
  | cons op ops ih =>
    exact ih (step s op) (step_seq s op hs hw.cfgOk) (step_win s op hw).1 (step_inffit s op hs hw hok.1 h) hok.2

end SenderProofs
