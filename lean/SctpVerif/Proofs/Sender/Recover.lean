import SctpVerif.Proofs.Sender.Progress
/-! Recovery against a peer that keeps nothing beyond its cumulative point (except what it gap-acked): the schedule
"T3 expires; gather; the peer acknowledges, cumulatively, exactly what it can have" makes progress in every round.
Used by `C02_recovers_faithful` in `Props/C02.lean`. -/
namespace SenderProofs
open Gen Sender

/-! ### every unacknowledged in-flight chunk fits a packet -/

def InfFit (s : St) : Prop :=
  ∀ c ∈ s.inflight, c.acked = false → hdr + c.sizeInPacket s.cfg.useInterleaving ≤ (s.cfg.mtu.toNat : Int)

theorem mem_of_map_core {l l' : List Chunk} (h : l'.map Chunk.core = l.map Chunk.core) {c' : Chunk} (hc : c' ∈ l') :
    ∃ c ∈ l, Chunk.core c' = Chunk.core c := by
  have : Chunk.core c' ∈ l'.map Chunk.core := List.mem_map_of_mem hc
  rw [h] at this
  obtain ⟨c, h1, h2⟩ := List.mem_map.mp this
  exact ⟨c, h1, h2.symm⟩

theorem core_len_acked {c c' : Chunk} (h : Chunk.core c' = Chunk.core c) : c'.len = c.len ∧ c'.acked = c.acked ∧ c'.tsn = c.tsn := by
  simp only [Chunk.core, Prod.mk.injEq] at h
  exact ⟨h.2.2.1, h.2.2.2.1, h.1⟩

theorem InfFit.of_core {s s' : St} (h : InfFit s) (hc : s'.inflight.map Chunk.core = s.inflight.map Chunk.core) (hcfg : s'.cfg = s.cfg) : InfFit s' := by
  intro c' hc' ha
  obtain ⟨c, h1, h2⟩ := mem_of_map_core hc hc'
  obtain ⟨e1, e2, _⟩ := core_len_acked h2
  rw [hcfg, sip_congr _ c c' e1]
  exact h c h1 (by rw [← e2]; exact ha)

theorem gather_admits_fit (s : St) (orc : Oracle) (sel : List Nat) :
    AllFit s.cfg.mtu s.cfg.useInterleaving ((gather s orc sel).2.admits.map (·.chunk)) := by
  unfold gather
  split
  · exact allFit_nil _ _
  · simp only
    have := (gatherNew_fit orc.allow (gatherRtx s orc).2.2 (gatherRtx s orc).1 sel).2
    rw [(gatherRtx_frame s orc).2.2.2.2.2.1] at this
    exact this

theorem gather_inffit (s : St) (orc : Oracle) (sel : List Nat) (h : InfFit s) : InfFit (gather s orc sel).1 := by
  intro c' hc' ha
  have hin := gather_inflight s orc sel
  have hcfg := gather_cfg s orc sel
  have : Chunk.core c' ∈ (gather s orc sel).1.inflight.map Chunk.core := List.mem_map_of_mem hc'
  rw [hin, List.mem_append] at this
  rw [hcfg]
  rcases this with h1 | h1
  · obtain ⟨c, g1, g2⟩ := List.mem_map.mp h1
    obtain ⟨e1, e2, _⟩ := core_len_acked g2.symm
    rw [sip_congr _ c c' e1]
    exact h c g1 (by rw [← e2]; exact ha)
  · obtain ⟨c, g1, g2⟩ := List.mem_map.mp h1
    obtain ⟨e1, _, _⟩ := core_len_acked g2.symm
    rw [sip_congr _ c c' e1]
    exact gather_admits_fit s orc sel c g1

theorem markOne_unacked (a : GapAcc) (tsn : BitVec 32) {a' : GapAcc} (h : markOne a tsn = some a') :
    ∀ c ∈ a'.q, c.acked = false → c ∈ a.q := by
  unfold markOne at h
  cases hg : Sender.get a.q tsn with
  | none => simp [hg] at h
  | some oc =>
    obtain ⟨off, c0⟩ := oc
    simp only [hg, Option.some.injEq] at h
    subst h
    simp only
    split
    · intro c hc ha
      simp only at hc
      rcases mem_set_cases hc with h1 | h1
      · rw [h1] at ha; cases ha
      · exact h1
    · intro c hc _; exact hc

theorem markRange_unacked (cum : BitVec 32) (is : List Nat) (a : GapAcc) {a' : GapAcc} (h : markRange cum is a = some a') :
    ∀ c ∈ a'.q, c.acked = false → c ∈ a.q := by
  induction is generalizing a with
  | nil => simp [markRange] at h; subst h; intro c hc _; exact hc
  | cons i r ih =>
    simp only [markRange] at h
    cases h1 : markOne a (cum + BitVec.ofNat 32 i) with
    | none => simp [h1] at h
    | some a1 =>
      simp only [h1] at h
      intro c hc ha
      exact markOne_unacked a _ h1 c (ih a1 h c hc ha) ha

theorem markGaps_unacked (cum : BitVec 32) (gaps : List (BitVec 16 × BitVec 16)) (a : GapAcc) {a' : GapAcc} (h : markGaps cum gaps a = some a') :
    ∀ c ∈ a'.q, c.acked = false → c ∈ a.q := by
  induction gaps generalizing a with
  | nil => simp [markGaps] at h; subst h; intro c hc _; exact hc
  | cons g r ih =>
    obtain ⟨st, en⟩ := g
    simp only [markGaps] at h
    cases h1 : markRange cum (List.range' st.toNat (en.toNat + 1 - st.toNat)) a with
    | none => simp [h1] at h
    | some a1 =>
      simp only [h1] at h
      intro c hc ha
      exact markRange_unacked cum _ a h1 c (ih a1 h c hc ha) ha

theorem ackPhase_unacked {s : St} {cum : BitVec 32} {gaps : List (BitVec 16 × BitVec 16)} {r : St × BitVec 32 × Bool}
    (h : ackPhase s cum gaps = some r) : ∀ c ∈ r.1.inflight, c.acked = false → c ∈ s.inflight := by
  unfold ackPhase at h
  split at h
  · cases h
  · rename_i qa hp
    split at h
    · cases h
    · rename_i g hg
      simp only [Option.some.injEq] at h
      subst h
      obtain ⟨k, _, hq⟩ := popCum_drop _ _ _ _ _ hp
      intro c hc ha
      rw [ackApply_inflight] at hc
      have := markGaps_unacked cum gaps _ hg c hc ha
      simp only at this
      rw [hq] at this
      exact List.mem_of_mem_drop this

theorem sack_inffit (s : St) (cum arwnd : BitVec 32) (gaps : List (BitVec 16 × BitVec 16)) (marks : List (BitVec 32))
    (hs : Seq s) (hsm : s.inflight.length < 2^31) (hm : CfgOk s.cfg) (h : InfFit s) : InfFit (sack s cum arwnd gaps marks).1 := by
  rcases sack_cases s cum arwnd gaps marks hs hsm with ⟨_, _, he, _⟩ | ⟨_, _, _, _, r, hr, hrs, _, hfin⟩
  · rw [he]; exact h
  · have hcfg : r.1.cfg = s.cfg := (ackPhase_win hr).1
    have hm' : (setPeerWindow r.1 arwnd).cfg.mtu.toNat < 2^30 := by show r.1.cfg.mtu.toNat < 2^30; rw [hcfg]; exact hm
    have f1 := (fastRetransCheck_frame (setPeerWindow r.1 arwnd) cum gaps r.2.1 r.2.2 hm').1
    have p1 := (prStep_frame (fastRetransCheck (setPeerWindow r.1 arwnd) cum gaps r.2.1 r.2.2).1).1
    have m1 := (applyMarks_frame (prStep (fastRetransCheck (setPeerWindow r.1 arwnd) cum gaps r.2.1 r.2.2).1) marks).1
    have hsame := SameAcct.trans f1 (SameAcct.trans p1 m1)
    rw [← hfin] at hsame
    have h0 : InfFit (setPeerWindow r.1 arwnd) := by
      intro c hc ha
      have hc' : c ∈ r.1.inflight := hc
      have := h c (ackPhase_unacked hr c hc' ha) ha
      show hdr + c.sizeInPacket r.1.cfg.useInterleaving ≤ (r.1.cfg.mtu.toNat : Int)
      rw [hcfg]; exact this
    exact h0.of_core hsame.2.2.2.2.2.2.2.2.2.2.2.2.2 hsame.2.2.2.2.1

theorem t3_inffit (s : St) (h : InfFit s) : InfFit (t3 s) :=
  h.of_core (t3_frame s).1.2.2.2.2.2.2.2.2.2.2.2.2.2 (t3_frame s).1.2.2.2.2.1

theorem step_inffit (s : St) (op : Op) (hs : Seq s) (hw : WinInv s) (hsm : s.inflight.length < 2^31) (h : InfFit s) : InfFit (step s op) := by
  cases op with
  | openS si u rt rv th => exact h
  | unreg si =>
    simp only [step, unregister]
    split <;> exact h
  | setEstablished b => exact h
  | write si ppi len =>
    have f := write_frame s si ppi len
    intro c hc ha
    simp only [step] at hc ⊢
    rw [f.2.2.2.2.1]
    rw [f.2.2.2.2.2.2.1] at hc
    exact h c hc ha
  | gather orc sel => exact gather_inffit s orc sel h
  | sack cum arwnd gaps marks => exact sack_inffit s cum arwnd gaps marks hs hsm hw.cfgOk h
  | t3 => exact t3_inffit s h
  | tick ms n marks =>
    have h1 : SameAcct s { s with now := s.now + ms } := ⟨rfl, rfl, rfl, rfl, rfl, rfl, rfl, rfl, rfl, rfl, rfl, rfl, rfl, rfl⟩
    have hsame := SameAcct.trans h1 (SameAcct.trans (iter_t3_sameAcct n _) (applyMarks_frame _ marks).1)
    exact h.of_core hsame.2.2.2.2.2.2.2.2.2.2.2.2.2 hsame.2.2.2.2.1

theorem run_inffit (s : St) (ops : List Op) (hs : Seq s) (hw : WinInv s) (h : InfFit s) (hok : TsnOk s ops) : InfFit (run s ops) := by
  induction ops generalizing s with
  | nil => exact h
  | cons op ops ih =>
    exact ih (step s op) (step_seq s op hs hw.cfgOk) (step_win s op hw).1 (step_inffit s op hs hw hok.1 h) hok.2

/-! ### what a gather puts on the wire -/

/-- TSNs of the DATA chunks a gather put on the wire -/
def sentTsns (o : GatherOut) : List (BitVec 32) := o.packets.flatten.map (·.tsn)

theorem bundle_flat (mtu : BitVec 32) (il : Bool) (chunks cur : List Chunk) (bip : Int) :
    (bundle mtu il chunks cur bip).flatten = cur ++ chunks := by
  induction chunks generalizing cur bip with
  | nil =>
    simp only [bundle]
    cases cur with
    | nil => simp
    | cons x r => simp
  | cons c r ih =>
    simp only [bundle]
    split
    · rw [List.flatten_cons, ih]; simp
    · rw [ih]; simp

theorem gather_sent_rtx (s : St) (orc : Oracle) (sel : List Nat) (he : s.established = true) :
    ∀ c ∈ (gatherRtx s orc).2.1, c.tsn ∈ sentTsns (gather s orc sel).2 := by
  intro c hc
  unfold sentTsns GatherOut.packets gather
  simp only [he, Bool.not_true, Bool.false_eq_true, if_false, List.flatten_append, List.map_append, List.mem_append, List.mem_map]
  left; left
  exact ⟨c, by rw [bundle_flat]; simpa using hc, rfl⟩

theorem gather_sent_new (s : St) (orc : Oracle) (sel : List Nat) (he : s.established = true) :
    ∀ x ∈ (gather s orc sel).2.admits, x.chunk.tsn ∈ sentTsns (gather s orc sel).2 := by
  intro x hx
  unfold sentTsns GatherOut.packets
  have hx' := hx
  unfold gather at hx' ⊢
  simp only [he, Bool.not_true, Bool.false_eq_true, if_false, List.flatten_append, List.map_append, List.mem_append, List.mem_map] at hx' ⊢
  left; right
  refine ⟨x.chunk, ?_, rfl⟩
  split
  · rename_i hemp
    have : x.chunk ∈ (gatherNew (gatherRtx s orc).1 orc.allow (gatherRtx s orc).2.2 sel).2.admits.map (·.chunk) := List.mem_map_of_mem hx'
    rw [List.isEmpty_iff.mp hemp] at this
    cases this
  · rw [bundle_flat]
    simpa using List.mem_map_of_mem (f := (·.chunk)) hx'

/-! ### a peer that keeps nothing beyond its cumulative point -/

/-- how far such a peer can acknowledge after a gather: the longest prefix of the in-flight queue whose chunks it had
gap-acked before, was told to skip by the FORWARD-TSN of this gather, or just received -/
def reach (x : St) (o : GatherOut) : Nat → List Chunk → Nat
  | _, [] => 0
  | i, c :: r =>
    if c.acked || (o.fwd.isSome && decide (i < (x.advPeerAck - x.cumAck).toNat)) || (sentTsns o).contains c.tsn then 1 + reach x o (i + 1) r
    else 0

theorem reach_le (x : St) (o : GatherOut) (i : Nat) (l : List Chunk) : reach x o i l ≤ l.length := by
  induction l generalizing i with
  | nil => simp [reach]
  | cons c r ih =>
    simp only [reach, List.length_cons]
    split
    · have := ih (i + 1); omega
    · omega

theorem reach_pos (x : St) (o : GatherOut) (c : Chunk) (r : List Chunk)
    (h : (c.acked || (o.fwd.isSome && decide (0 < (x.advPeerAck - x.cumAck).toNat)) || (sentTsns o).contains c.tsn) = true) :
    1 ≤ reach x o 0 (c :: r) := by
  simp only [reach, h, if_true]; omega

/-- the cumulative TSN that peer reports -/
def faithfulCum (x : St) (o : GatherOut) : BitVec 32 := x.cumAck + BitVec.ofNat 32 (reach x o 0 x.inflight)

/-- one round: T3 expires, one gather, the peer's cumulative SACK (advertising `arwnd`) -/
def roundFOps (pick : St → List Nat) (arwnd : BitVec 32) (s : St) : List Op :=
  [.t3, .gather freeOracle (pick (t3 s)),
   .sack (faithfulCum (gather (t3 s) freeOracle (pick (t3 s))).1 (gather (t3 s) freeOracle (pick (t3 s))).2) arwnd [] []]

def roundF (pick : St → List Nat) (arwnd : BitVec 32) (s : St) : St := run s (roundFOps pick arwnd s)

def roundsF (pick : St → List Nat) (arwnd : BitVec 32) : Nat → St → St
  | 0, s => s
  | n + 1, s => roundsF pick arwnd n (roundF pick arwnd s)

def recoverOps (pick : St → List Nat) (arwnd : BitVec 32) : Nat → St → List Op
  | 0, _ => []
  | n + 1, s => roundFOps pick arwnd s ++ recoverOps pick arwnd n (roundF pick arwnd s)

theorem run_recoverOps (pick : St → List Nat) (arwnd : BitVec 32) (n : Nat) (s : St) :
    run s (recoverOps pick arwnd n s) = roundsF pick arwnd n s := by
  induction n generalizing s with
  | zero => rfl
  | succ n ih =>
    simp only [recoverOps, roundsF, run_append]
    rw [← ih]
    rfl

/-! ### the invariants of the recovery argument are kept by its three steps -/

theorem live_gather {s : St} (h : Live s) (orc : Oracle) (sel : List Nat) : Live (gather s orc sel).1 := by
  have g := gather_prel s orc sel
  have gcfg : (gather s orc sel).1.cfg = s.cfg := gather_cfg s orc sel
  refine ⟨gather_seq s orc sel h.seq, (gather_win s orc sel h.win).1, gather_core s orc sel h.core, ?_, by rw [gcfg]; exact h.cfgFit,
    by rw [(gather_grel s orc sel).2.2.2.2]; exact h.est, by have := g.1; have := h.small; omega⟩
  intro c hc
  rw [gcfg]
  exact h.fit c (g.2.1 c hc)

theorem sack_len_le (s : St) (cum arwnd : BitVec 32) (gaps : List (BitVec 16 × BitVec 16)) (marks : List (BitVec 32))
    (hs : Seq s) (hsm : s.inflight.length < 2^31) :
    (sack s cum arwnd gaps marks).1.inflight.length ≤ s.inflight.length ∧ (sack s cum arwnd gaps marks).1.established = s.established := by
  rcases sack_cases s cum arwnd gaps marks hs hsm with ⟨_, _, he, _⟩ | ⟨_, hest, _, _, r, hr, _, _, hfin⟩
  · rw [he]; exact ⟨Nat.le_refl _, rfl⟩
  · obtain ⟨p1, _, _, k, hk, p4⟩ := ackPhase_shape hr
    have i1 := fastRetransCheck_ident (setPeerWindow r.1 arwnd) cum gaps r.2.1 r.2.2
    have c1 := fastRetransCheck_ctl (setPeerWindow r.1 arwnd) cum gaps r.2.1 r.2.2
    obtain ⟨q1, _, _, _⟩ := prStep_same (fastRetransCheck (setPeerWindow r.1 arwnd) cum gaps r.2.1 r.2.2).1
    constructor
    · have : (sack s cum arwnd gaps marks).1.inflight.map Chunk.ident = (s.inflight.drop k).map Chunk.ident := by
        rw [hfin, applyMarks_ident, q1]; exact i1.trans p4
      have := length_of_ident this
      simp at this; omega
    · rw [hfin]
      show (prStep _).established = _
      have : ∀ x : St, (prStep x).established = x.established := by
        intro x
        unfold prStep
        split
        · split
          · exact (advancePeerAck_ab _).2.2.2.2.1
          · exact (advancePeerAck_ab _).2.2.2.2.1
        · rfl
      rw [this, c1.2.2.2.2.1]
      exact p1.2.2.2.2.1

theorem live_sack {s : St} (h : Live s) (cum arwnd : BitVec 32) (gaps : List (BitVec 16 × BitVec 16)) (marks : List (BitVec 32)) :
    Live (sack s cum arwnd gaps marks).1 := by
  have hsm : s.inflight.length < 2^31 := by have := h.small; omega
  obtain ⟨l1, l2⟩ := sack_len_le s cum arwnd gaps marks h.seq hsm
  have hcfg := sack_cfg s cum arwnd gaps marks h.win.cfgOk
  have hpen := sack_pending s cum arwnd gaps marks
  refine ⟨sack_seq s cum arwnd gaps marks h.seq h.win.cfgOk, (sack_win s cum arwnd gaps marks h.win).1, sack_core s cum arwnd gaps marks h.core h.win.cfgOk,
    ?_, by rw [hcfg]; exact h.cfgFit, by rw [l2]; exact h.est, by rw [hpen]; have := h.small; omega⟩
  intro c hc
  rw [hcfg]
  exact h.fit c (by rw [← hpen]; exact hc)

/-- what the recovery argument carries from round to round -/
structure Rec (s : St) : Prop where
  live : Live s
  adv : AdvInv s
  fit : InfFit s
  pr : s.cfg.prEnabled = true

theorem rec_t3 {s : St} (h : Rec s) : Rec (t3 s) :=
  ⟨live_t3 h.live, t3_adv s h.live.seq (by have := h.live.small; omega) h.pr h.adv, t3_inffit s h.fit,
   by rw [(t3_frame s).1.2.2.2.2.1]; exact h.pr⟩

theorem rec_gather {s : St} (h : Rec s) (orc : Oracle) (sel : List Nat) : Rec (gather s orc sel).1 :=
  ⟨live_gather h.live orc sel,
   step_adv s (.gather orc sel) h.live.seq h.live.win (by have := h.live.small; omega) h.pr h.adv,
   gather_inffit s orc sel h.fit, by rw [gather_cfg]; exact h.pr⟩

theorem rec_sack {s : St} (h : Rec s) (cum arwnd : BitVec 32) (gaps : List (BitVec 16 × BitVec 16)) (marks : List (BitVec 32)) :
    Rec (sack s cum arwnd gaps marks).1 := by
  have hsm : s.inflight.length < 2^31 := by have := h.live.small; omega
  exact ⟨live_sack h.live cum arwnd gaps marks, sack_adv s cum arwnd gaps marks h.live.seq hsm h.live.win.cfgOk h.pr h.adv,
    sack_inffit s cum arwnd gaps marks h.live.seq hsm h.live.win.cfgOk h.fit, by rw [sack_cfg s cum arwnd gaps marks h.live.win.cfgOk]; exact h.pr⟩

/-! ### every round makes progress -/

theorem roundF_eq (pick : St → List Nat) (arwnd : BitVec 32) (s : St) :
    roundF pick arwnd s =
      (sack (gather (t3 s) freeOracle (pick (t3 s))).1
        (faithfulCum (gather (t3 s) freeOracle (pick (t3 s))).1 (gather (t3 s) freeOracle (pick (t3 s))).2) arwnd [] []).1 := rfl

/-- the head of the queue after a gather is the old head, up to flags (or the first admitted chunk if the queue was empty) -/
theorem gather_head (s : St) (orc : Oracle) (sel : List Nat) (f : Chunk) (rest : List Chunk) (hq : s.inflight = f :: rest) :
    ∃ c0 r, (gather s orc sel).1.inflight = c0 :: r ∧ c0.tsn = f.tsn ∧ c0.acked = f.acked := by
  have hin := gather_inflight s orc sel
  rw [hq] at hin
  cases hx : (gather s orc sel).1.inflight with
  | nil => rw [hx] at hin; simp at hin
  | cons c0 r =>
    rw [hx] at hin
    simp only [List.map_cons, List.cons_append, List.cons.injEq] at hin
    obtain ⟨_, e2, e3⟩ := core_len_acked hin.1
    exact ⟨c0, r, rfl, e3, e2⟩

theorem gather_head_new (s : St) (orc : Oracle) (sel : List Nat) (hq : s.inflight = []) (hne : (gather s orc sel).2.admits ≠ []) :
    ∃ c0 r x, (gather s orc sel).1.inflight = c0 :: r ∧ x ∈ (gather s orc sel).2.admits ∧ c0.tsn = x.chunk.tsn := by
  have hin := gather_inflight s orc sel
  rw [hq] at hin
  cases ha : (gather s orc sel).2.admits with
  | nil => exact absurd ha hne
  | cons x xs =>
    rw [ha] at hin
    cases hx : (gather s orc sel).1.inflight with
    | nil => rw [hx] at hin; simp at hin
    | cons c0 r =>
      rw [hx] at hin
      simp only [List.map_cons, List.map_nil, List.nil_append, List.cons.injEq] at hin
      obtain ⟨_, _, e3⟩ := core_len_acked hin.1
      exact ⟨c0, r, x, rfl, by simp, e3⟩

/-- a SACK for the first `k ≥ 1` chunks of the queue is valid and ahead of the cumulative point -/
theorem prefix_sack_ok (x : St) (hs : Seq x) (hsm : x.inflight.length < 2^31) (k : Nat) (h1 : 1 ≤ k) (hk : k ≤ x.inflight.length) :
    sna32LT x.cumAck (x.cumAck + BitVec.ofNat 32 k) = true ∧ validate x (x.cumAck + BitVec.ofNat 32 k) [] = true := by
  have e3 : (BitVec.ofNat 32 k).toNat = k := by simp [BitVec.toNat_ofNat]; omega
  have hlt : sna32LT x.cumAck (x.cumAck + BitVec.ofNat 32 k) = true := by
    simp only [sna32LT, Bool.or_eq_true, Bool.and_eq_true, decide_eq_true_eq]
    bv_omega
  refine ⟨hlt, ?_⟩
  simp only [validate, hlt, if_true, List.all_nil, Bool.and_true]
  rw [get_contig hs.1, get_contig hs.1]
  have h0 : (x.cumAck + 1 - (x.cumAck + 1)).toNat = 0 := by simp
  have h2 : (x.cumAck + BitVec.ofNat 32 k - (x.cumAck + 1)).toNat = k - 1 := by bv_omega
  rw [h0, h2]
  simp only [Bool.and_eq_true, decide_eq_true_eq]
  omega

theorem t3_lengths (s : St) : (t3 s).inflight.length = s.inflight.length ∧ (t3 s).pending = s.pending := by
  have f := (t3_frame s).1
  exact ⟨by simpa using congrArg List.length f.2.2.2.2.2.2.2.2.2.2.2.2.2, f.2.2.2.2.2.2.1⟩

theorem roundF_progress (pick : St → List Nat) (arwnd : BitVec 32) (hp : PickOk pick) (s : St) (h : Rec s) :
    Rec (roundF pick arwnd s) ∧
    (roundF pick arwnd s).inflight.length + (roundF pick arwnd s).pending.length ≤ s.inflight.length + s.pending.length ∧
    (0 < s.inflight.length + s.pending.length →
      (roundF pick arwnd s).inflight.length + (roundF pick arwnd s).pending.length < s.inflight.length + s.pending.length) := by
  rw [roundF_eq]
  have h1 := rec_t3 h
  have hx := rec_gather h1 freeOracle (pick (t3 s))
  obtain ⟨tl1, tl2⟩ := t3_lengths s
  have g := gather_prel (t3 s) freeOracle (pick (t3 s))
  generalize hs1 : t3 s = s1 at *
  generalize hgx : gather s1 freeOracle (pick s1) = gx at *
  have hxsm : gx.1.inflight.length < 2^31 := by have := hx.live.small; omega
  refine ⟨rec_sack hx _ arwnd [] [], ?_, ?_⟩
  · obtain ⟨l1, _⟩ := sack_len_le gx.1 (faithfulCum gx.1 gx.2) arwnd [] [] hx.live.seq hxsm
    rw [sack_pending]
    have := g.1
    rw [tl2] at this
    omega
  · intro hpos
    -- the peer can acknowledge at least the head of the queue
    have hk1 : 1 ≤ reach gx.1 gx.2 0 gx.1.inflight := by
      by_cases hin : s1.inflight = []
      · -- nothing in flight: the gather admits a chunk (zero-window probe at worst), and it was just sent
        have hpne : s1.pending ≠ [] := by
          intro he
          rw [hin] at tl1
          rw [he] at tl2
          have : s.pending.length = 0 := by rw [← tl2]; rfl
          simp only [List.length_nil] at tl1
          omega
        obtain ⟨i, rest, hsel, hi⟩ := hp s1 hpne
        have hpk := peek_of_pick s1 (pick s1) i rest hsel hi
        have hmem : s1.pending[i] ∈ s1.pending := List.getElem_mem hi
        obtain ⟨l0, lfit⟩ := h1.live.fit _ hmem
        have hpen : s1.penChunks > 0 := by
          rw [h1.live.core.penN]
          have : 0 < s1.pending.length := by omega
          omega
        have hadm := (gather_progress s1 freeOracle (pick s1) i s1.pending[i] h1.live.est hin hpen hpk l0 (h1.live.core.penSmall _ hmem).1 lfit rfl).2.1
        rw [hgx] at hadm
        obtain ⟨c0, r, xa, e1, e2, e3⟩ := gather_head_new s1 freeOracle (pick s1) hin (by rw [hgx]; exact hadm)
        rw [hgx] at e1 e2
        rw [e1]
        apply reach_pos
        have := gather_sent_new s1 freeOracle (pick s1) h1.live.est xa (by rw [hgx]; exact e2)
        rw [hgx] at this
        have hc : (sentTsns gx.2).contains c0.tsn = true := by rw [e3]; simpa using this
        rw [hc]; simp
      · -- the head of the queue: gap-acked before, skipped by this gather's FORWARD-TSN, or retransmitted by it
        cases hq : s1.inflight with
        | nil => exact absurd hq hin
        | cons f rest =>
          obtain ⟨c0, r, e1, e2, e3⟩ := gather_head s1 freeOracle (pick s1) f rest hq
          rw [hgx] at e1
          rw [e1]
          apply reach_pos
          by_cases hacked : f.acked = true
          · rw [e3, hacked]; simp
          · have hacked' : f.acked = false := by simpa using hacked
            have hfmem : f ∈ s1.inflight := by rw [hq]; simp
            by_cases hab : s1.abandoned f = true
            · -- abandoned: T3 moved the advanced peer ack point over it and raised the flag
              have hs1sm : s1.inflight.length < 2^31 := by have := h1.live.small; omega
              have hd : 1 ≤ (s1.advPeerAck - s1.cumAck).toNat := by
                rcases Nat.eq_zero_or_pos (s1.advPeerAck - s1.cumAck).toNat with h0 | h0
                · exfalso
                  have heq : s1.advPeerAck = s1.cumAck := by bv_omega
                  have hstop := t3_stop s h.live.seq (by have := h.live.small; omega) h.pr h.adv
                  rw [hs1] at hstop
                  have hget := get_of_lt h1.live.seq.1 (show (s1.advPeerAck + 1 - (s1.cumAck + 1)).toNat < s1.inflight.length by
                    rw [adv_offset, h0, hq]; simp)
                  have h00 : (s1.advPeerAck + 1 - (s1.cumAck + 1)).toNat = 0 := by rw [adv_offset, h0]
                  have := hstop _ _ hget
                  have hf0 : s1.inflight[(s1.advPeerAck + 1 - (s1.cumAck + 1)).toNat]'(by rw [h00, hq]; simp) = f := by
                    simp only [h00, hq]; rfl
                  rw [hf0, hab] at this
                  cases this
                · exact h0
              have hle := h1.adv.le
              have hgt : sna32GT s1.advPeerAck s1.cumAck = true := by
                simp only [sna32GT, Bool.or_eq_true, Bool.and_eq_true, decide_eq_true_eq]
                bv_omega
              have hflag : s1.willSendForwardTSN = true := by
                have := t3_flag s h.pr (by rw [hs1]; exact hgt)
                rw [hs1] at this; exact this
              have hfwd := ((gather_fwd s1 freeOracle (pick s1) h1.live.est).1).mpr ⟨hflag, hgt, Or.inr h1.pr⟩
              rw [hgx] at hfwd
              have hgr := gather_grel s1 freeOracle (pick s1)
              rw [hgx] at hgr
              rw [hfwd, hgr.2.2.1, hgr.2.2.2.1]
              have : decide (0 < (s1.advPeerAck - s1.cumAck).toNat) = true := decide_eq_true (by omega)
              rw [this]; simp
            · -- neither acked nor abandoned: T3 flagged it, and the retransmission gather sends the earliest outstanding chunk
              have hab' : s1.abandoned f = false := by simpa using hab
              have hflagged : f.retransmit = true := by
                have := t3_marks_all s f (by rw [hs1]; exact hfmem) hacked' (by rw [hs1]; exact hab')
                exact this
              have hfit := h1.fit f hfmem hacked'
              have hlen : (f.len : Int) ≤ f.sizeInPacket s1.cfg.useInterleaving := len_le_sizeInPacket _ f
              have hcw : s1.cfg.mtu.toNat ≤ s1.cwnd.toNat := by
                have e := (t3_frame s).2.1
                have c := (t3_frame s).1.2.2.2.2.1
                rw [hs1] at e c
                rw [e, c]
                exact (setCwnd_ge s (t3_cwndArg s.cfg.mtu)).1
              have hwin : ([] = ([] : List Chunk) ∧ s1.rwnd.toNat < f.len) ∨ f.len ≤ (min32 s1.cwnd s1.rwnd).toNat := by
                rw [min32_toNat]
                by_cases hr : s1.rwnd.toNat < f.len
                · exact Or.inl ⟨rfl, hr⟩
                · right
                  have : (0 : Int) ≤ hdr := by decide
                  omega
              obtain ⟨tl, htl⟩ := gatherRtx_lowest s1 freeOracle h1.live.seq [] f rest (by rw [hq]; rfl) (by intro x hx; cases hx) hflagged hab' hwin hfit rfl
              have := gather_sent_rtx s1 freeOracle (pick s1) h1.live.est (rtxUpd s1 f) (by rw [htl]; simp)
              rw [hgx] at this
              have hc : (sentTsns gx.2).contains c0.tsn = true := by
                rw [e2]
                have e : (rtxUpd s1 f).tsn = f.tsn := rfl
                rw [e] at this
                simpa using this
              rw [hc]; simp
    have hkl := reach_le gx.1 gx.2 0 gx.1.inflight
    obtain ⟨plt, pv⟩ := prefix_sack_ok gx.1 hx.live.seq hxsm _ hk1 hkl
    obtain ⟨_, k, hk, hlen, _, _⟩ := sack_ack_progress gx.1 (faithfulCum gx.1 gx.2) arwnd [] [] hx.live.seq hxsm hx.live.win.cfgOk hx.live.core hx.live.est plt pv
    rw [sack_pending]
    have := g.1
    rw [tl2] at this
    omega

/-- **the faithful rounds drain everything**: `in-flight + pending` rounds suffice (one chunk per round at worst) -/
theorem roundsF_drain (pick : St → List Nat) (arwnd : BitVec 32) (hp : PickOk pick) (n : Nat) (s : St) (h : Rec s)
    (hn : s.inflight.length + s.pending.length ≤ n) :
    Rec (roundsF pick arwnd n s) ∧ (roundsF pick arwnd n s).inflight = [] ∧ (roundsF pick arwnd n s).pending = [] := by
  induction n generalizing s with
  | zero =>
    simp only [roundsF]
    exact ⟨h, List.eq_nil_of_length_eq_zero (by omega), List.eq_nil_of_length_eq_zero (by omega)⟩
  | succ n ih =>
    obtain ⟨r1, r2, r3⟩ := roundF_progress pick arwnd hp s h
    simp only [roundsF]
    apply ih _ r1
    rcases Nat.eq_zero_or_pos (s.inflight.length + s.pending.length) with h0 | h0
    · omega
    · have := r3 h0; omega

theorem init_inffit (cfg : Cfg) (tsn peerRwnd : BitVec 32) : InfFit (init cfg tsn peerRwnd) := by
  intro c hc; simp [init] at hc

end SenderProofs
