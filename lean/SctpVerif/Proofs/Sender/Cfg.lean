import SctpVerif.Proofs.Sender.WinRun
import SctpVerif.Proofs.Sender.Admit
/-! The configuration never changes. -/
namespace SenderProofs
open Gen Sender

theorem gather_cfg (s : St) (orc : Oracle) (sel : List Nat) : (gather s orc sel).1.cfg = s.cfg := by
  unfold gather
  split
  · rfl
  · simp only
    rw [(gatherFast_frame _ orc.allow _).2.2.2.2.2.1, (gatherNew_fit orc.allow _ _ sel).1]
    exact (gatherRtx_frame s orc).2.2.2.2.2.1

theorem sack_cfg (s : St) (cum arwnd : BitVec 32) (gaps : List (BitVec 16 × BitVec 16)) (marks : List (BitVec 32))
    (hm : s.cfg.mtu.toNat < 2^30) : (sack s cum arwnd gaps marks).1.cfg = s.cfg := by
  unfold sack
  split
  · rfl
  · split
    · rfl
    · split
      · rfl
      · cases ha : ackPhase s cum gaps with
        | none => rfl
        | some r =>
          simp only
          have hcfg : (setPeerWindow r.1 arwnd).cfg = s.cfg := (ackPhase_win ha).1
          have hm' : (setPeerWindow r.1 arwnd).cfg.mtu.toNat < 2^30 := by rw [hcfg]; exact hm
          have f1 := (fastRetransCheck_frame (setPeerWindow r.1 arwnd) cum gaps r.2.1 r.2.2 hm').1
          split
          · exact f1.2.2.2.2.1.trans hcfg
          · have p1 := (prStep_frame (fastRetransCheck (setPeerWindow r.1 arwnd) cum gaps r.2.1 r.2.2).1).1
            have m1 := (applyMarks_frame (prStep (fastRetransCheck (setPeerWindow r.1 arwnd) cum gaps r.2.1 r.2.2).1) marks).1
            exact (SameAcct.trans f1 (SameAcct.trans p1 m1)).2.2.2.2.1.trans hcfg

theorem step_cfg_eq (s : St) (op : Op) (hm : CfgOk s.cfg) : (step s op).cfg = s.cfg := by
  cases op with
  | openS si u rt rv th => rfl
  | unreg si => simp only [step, unregister]; split <;> rfl
  | setEstablished b => rfl
  | write si ppi len => exact (write_frame s si ppi len).2.2.2.2.1
  | gather orc sel => exact gather_cfg s orc sel
  | sack cum arwnd gaps marks => exact sack_cfg s cum arwnd gaps marks hm
  | t3 => exact (t3_frame s).1.2.2.2.2.1
  | tick ms n marks =>
    simp only [step]
    rw [(applyMarks_frame _ marks).1.2.2.2.2.1]
    have : ∀ n (x : St), (iter t3 n x).cfg = x.cfg := by
      intro n; induction n with
      | zero => intro x; rfl
      | succ k ih => intro x; simp only [iter]; rw [ih, (t3_frame x).1.2.2.2.2.1]
    rw [this]

theorem run_cfg (s : St) (ops : List Op) (hm : CfgOk s.cfg) : (run s ops).cfg = s.cfg := by
  induction ops generalizing s with
  | nil => rfl
  | cons op ops ih =>
    have h1 := step_cfg_eq s op hm
    simp only [run]
    rw [ih (step s op) (by rw [h1]; exact hm), h1]

end SenderProofs
