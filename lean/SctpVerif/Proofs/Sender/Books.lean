import SctpVerif.Proofs.Sender.Frames
/-! Bookkeeping lemmas for the byte accounting: sums over chunk lists, the per-stream release table
(`bytesAckedPerStream`), the two SACK loops. -/
namespace SenderProofs
open Gen Sender

/-! ### sums -/

theorem sumLen_append (a b : List Chunk) : sumLen (a ++ b) = sumLen a + sumLen b := by
  induction a with
  | nil => simp [sumLen]
  | cons c r ih => simp [sumLen, ih]; omega

theorem bytesOf_append (si : BitVec 16) (a b : List Chunk) : bytesOf si (a ++ b) = bytesOf si a + bytesOf si b := by
  induction a with
  | nil => simp [bytesOf]
  | cons c r ih => simp [bytesOf, ih]; omega

theorem bytesOf_le_sumLen (si : BitVec 16) (l : List Chunk) : bytesOf si l ≤ sumLen l := by
  induction l with
  | nil => simp [bytesOf, sumLen]
  | cons c r ih => simp only [bytesOf, sumLen]; split <;> omega

theorem sums_of_core {l l' : List Chunk} (h : l.map Chunk.core = l'.map Chunk.core) :
    sumLen l = sumLen l' ∧ (∀ si, bytesOf si l = bytesOf si l') ∧
    ((∀ c ∈ l, c.acked = true → c.len = 0) → ∀ c ∈ l', c.acked = true → c.len = 0) := by
  induction l generalizing l' with
  | nil => cases l' with
    | nil => exact ⟨rfl, fun _ => rfl, fun h => h⟩
    | cons _ _ => simp at h
  | cons c r ih => cases l' with
    | nil => simp at h
    | cons c' r' =>
      simp only [List.map_cons, List.cons.injEq] at h
      obtain ⟨hc, hr⟩ := h
      obtain ⟨i1, i2, i3⟩ := ih hr
      simp only [Chunk.core, Prod.mk.injEq] at hc
      obtain ⟨_, hsi, hlen, hack, _⟩ := hc
      refine ⟨by simp [sumLen, i1, hlen], fun si => by simp [bytesOf, i2, hlen, hsi], ?_⟩
      intro hall x hx
      rcases List.mem_cons.mp hx with h1 | h1
      · subst h1; intro ha; rw [← hlen]; exact hall c (by simp) (by rw [hack]; exact ha)
      · exact i3 (fun y hy => hall y (by simp [hy])) x h1

theorem sumLen_eraseIdx {l : List Chunk} {i : Nat} {c : Chunk} (h : l[i]? = some c) :
    sumLen (l.eraseIdx i) + c.len = sumLen l ∧ (∀ si, bytesOf si (l.eraseIdx i) + (if c.si = si then c.len else 0) = bytesOf si l) ∧
    (l.eraseIdx i).length + 1 = l.length := by
  induction l generalizing i with
  | nil => simp at h
  | cons x r ih =>
    cases i with
    | zero =>
      simp at h; subst h
      refine ⟨by simp [sumLen]; omega, fun si => by simp [bytesOf]; omega, by simp⟩
    | succ n =>
      simp at h
      obtain ⟨i1, i2, i3⟩ := ih h
      refine ⟨by simp [sumLen]; omega, fun si => ?_, by simp; omega⟩
      have := i2 si
      simp [bytesOf]; omega

theorem mem_eraseIdx {l : List Chunk} {i : Nat} {x : Chunk} (h : x ∈ l.eraseIdx i) : x ∈ l :=
  List.mem_of_mem_eraseIdx h

theorem sumLen_set {l : List Chunk} {i : Nat} {c c' : Chunk} (h : l[i]? = some c) :
    sumLen (l.set i c') + c.len = sumLen l + c'.len ∧
    (∀ si, bytesOf si (l.set i c') + (if c.si = si then c.len else 0) = bytesOf si l + (if c'.si = si then c'.len else 0)) := by
  induction l generalizing i with
  | nil => simp at h
  | cons x r ih =>
    cases i with
    | zero =>
      simp at h; subst h
      exact ⟨by simp [sumLen]; omega, fun si => by simp [bytesOf]; omega⟩
    | succ n =>
      simp at h
      obtain ⟨i1, i2⟩ := ih h
      refine ⟨by simp [sumLen]; omega, fun si => ?_⟩
      have := i2 si
      simp [bytesOf]; omega

/-! ### the release table -/

/-- bytes recorded for stream `si` -/
def relOf : Rel → BitVec 16 → Int
  | [], _ => 0
  | (k, v) :: r, si => (if k = si then v else 0) + relOf r si

def RelNonneg (rel : Rel) : Prop := ∀ e ∈ rel, 0 ≤ e.2

theorem relOf_addRel (rel : Rel) (si : BitVec 16) (n : Int) (k : BitVec 16) :
    relOf (addRel rel si n) k = relOf rel k + (if si = k then n else 0) := by
  induction rel with
  | nil => simp [addRel, relOf]
  | cons e r ih =>
    obtain ⟨k', v⟩ := e
    simp only [addRel]
    split
    · rename_i h; subst h; simp only [relOf]; split <;> omega
    · simp only [relOf, ih]; omega

theorem relNonneg_addRel (rel : Rel) (si : BitVec 16) (n : Int) (h : RelNonneg rel) (hn : 0 ≤ n) : RelNonneg (addRel rel si n) := by
  induction rel with
  | nil => intro e he; simp [addRel] at he; subst he; exact hn
  | cons e r ih =>
    obtain ⟨k', v⟩ := e
    simp only [addRel]
    have hv : 0 ≤ v := h (k', v) (by simp)
    have hr : RelNonneg r := fun x hx => h x (by simp [hx])
    split
    · intro x hx
      rcases List.mem_cons.mp hx with h1 | h1
      · subst h1; show 0 ≤ v + n; omega
      · exact hr x h1
    · intro x hx
      rcases List.mem_cons.mp hx with h1 | h1
      · subst h1; exact hv
      · exact ih hr x h1

theorem relOf_nonneg (rel : Rel) (h : RelNonneg rel) (k : BitVec 16) : 0 ≤ relOf rel k := by
  induction rel with
  | nil => simp [relOf]
  | cons e r ih =>
    obtain ⟨k', v⟩ := e
    have hv : 0 ≤ v := h (k', v) (by simp)
    have := ih (fun x hx => h x (by simp [hx]))
    simp only [relOf]; split <;> omega

theorem relTotal_nonneg (rel : Rel) (h : RelNonneg rel) : 0 ≤ relTotal rel := by
  induction rel with
  | nil => simp [relTotal]
  | cons e r ih =>
    obtain ⟨k', v⟩ := e
    have hv : 0 ≤ v := h (k', v) (by simp)
    have := ih (fun x hx => h x (by simp [hx]))
    simp only [relTotal]; omega

/-- keys of the table are pairwise different: one release per stream and SACK -/
def RelKeysNodup (rel : Rel) : Prop := (rel.map (·.1)).Nodup

theorem addRel_keys (rel : Rel) (si : BitVec 16) (n : Int) :
    (∀ k, k ∈ (addRel rel si n).map (·.1) ↔ k = si ∨ k ∈ rel.map (·.1)) ∧ (RelKeysNodup rel → RelKeysNodup (addRel rel si n)) := by
  induction rel with
  | nil => simp [addRel, RelKeysNodup]
  | cons e r ih =>
    obtain ⟨k', v⟩ := e
    obtain ⟨i1, i2⟩ := ih
    simp only [addRel]
    split
    · rename_i h; subst h
      refine ⟨fun k => by simp, fun hn => by simpa [RelKeysNodup] using hn⟩
    · rename_i hne
      refine ⟨fun k => ?_, fun hn => ?_⟩
      · simp only [List.map_cons, List.mem_cons, i1]
        constructor
        · rintro (h | h | h)
          · exact Or.inr (Or.inl h)
          · exact Or.inl h
          · exact Or.inr (Or.inr h)
        · rintro (h | h | h)
          · exact Or.inr (Or.inl h)
          · exact Or.inl h
          · exact Or.inr (Or.inr h)
      · simp only [RelKeysNodup, List.map_cons, List.nodup_cons] at hn ⊢
        refine ⟨?_, i2 hn.2⟩
        intro hmem
        rcases (i1 k').mp hmem with h | h
        · exact hne h
        · exact hn.1 h

/-! ### the cumulative-ack loop -/

theorem popCum_spec (exitPt : BitVec 32) (q : List Chunk) (idx cum : BitVec 32) (a : CumAcc) {q' : List Chunk} {a' : CumAcc}
    (hq : ∀ c ∈ q, c.acked = true → c.len = 0) (hn : RelNonneg a.rel) (hk : RelKeysNodup a.rel)
    (h : popCum exitPt q idx cum a = some (q', a')) :
    (∀ c ∈ q', c ∈ q) ∧ a'.infBytes + (sumLen q : Int) = a.infBytes + (sumLen q' : Int) ∧
    (∀ si, relOf a'.rel si + (bytesOf si q' : Int) = relOf a.rel si + (bytesOf si q : Int)) ∧
    RelNonneg a'.rel ∧ RelKeysNodup a'.rel ∧ (∃ k, q' = q.drop k) := by
  induction q generalizing idx a with
  | nil =>
    simp only [popCum] at h
    split at h
    · cases h
    · cases h; exact ⟨fun _ h => h, rfl, fun _ => rfl, hn, hk, ⟨0, rfl⟩⟩
  | cons c r ih =>
    simp only [popCum] at h
    split at h
    · split at h
      · have hr : ∀ x ∈ r, x.acked = true → x.len = 0 := fun x hx => hq x (by simp [hx])
        have hn' : RelNonneg (if !c.acked then addRel a.rel c.si (c.len : Int) else a.rel) := by
          split
          · exact relNonneg_addRel _ _ _ hn (by omega)
          · exact hn
        have hk' : RelKeysNodup (if !c.acked then addRel a.rel c.si (c.len : Int) else a.rel) := by
          split
          · exact (addRel_keys _ _ _).2 hk
          · exact hk
        obtain ⟨i1, i2, i3, i4, i5, ⟨k, i6⟩⟩ := ih (idx + 1) _ hr hn' hk' h
        refine ⟨fun x hx => by simp [i1 x hx], ?_, ?_, i4, i5, ⟨k + 1, by simpa using i6⟩⟩
        · simp only [sumLen] at i2 ⊢; push_cast; omega
        · intro si
          have := i3 si
          simp only [bytesOf]
          by_cases hack : c.acked = true
          · have hl := hq c (by simp) hack
            simp only [hack, Bool.not_true, Bool.false_eq_true, if_false] at this
            simp only [hl]; simp; omega
          · simp only [hack, Bool.not_false, if_true, relOf_addRel] at this
            push_cast
            split <;> rename_i hs <;> simp only [hs, if_true, if_false] at this <;> omega
      · cases h
    · cases h; exact ⟨fun _ h => h, rfl, fun _ => rfl, hn, hk, ⟨0, rfl⟩⟩


/-! ### the gap-ack loop -/

/-- what the gap loop maintains -/
structure GapOk (a0 a : GapAcc) : Prop where
  ackedEmpty : ∀ c ∈ a.q, c.acked = true → c.len = 0
  inf : a.infBytes + (sumLen a0.q : Int) = a0.infBytes + (sumLen a.q : Int)
  rel : ∀ si, relOf a.rel si + (bytesOf si a.q : Int) = relOf a0.rel si + (bytesOf si a0.q : Int)
  nonneg : RelNonneg a.rel
  nodup : RelKeysNodup a.rel
  len : a.q.length = a0.q.length
  tsn : a.q.map (·.tsn) = a0.q.map (·.tsn)

theorem GapOk.refl (a : GapAcc) (h1 : ∀ c ∈ a.q, c.acked = true → c.len = 0) (h2 : RelNonneg a.rel) (h3 : RelKeysNodup a.rel) : GapOk a a :=
  ⟨h1, rfl, fun _ => rfl, h2, h3, rfl, rfl⟩

theorem mem_set_cases {l : List Chunk} {i : Nat} {c' x : Chunk} (h : x ∈ l.set i c') : x = c' ∨ x ∈ l := by
  rcases List.mem_or_eq_of_mem_set h with h | h
  · exact Or.inr h
  · exact Or.inl h

theorem map_tsn_set {l : List Chunk} {i : Nat} {c c' : Chunk} (h : l[i]? = some c) (ht : c'.tsn = c.tsn) :
    (l.set i c').map (·.tsn) = l.map (·.tsn) := by
  induction l generalizing i with
  | nil => simp
  | cons x r ih =>
    cases i with
    | zero => simp at h; subst h; simp [ht]
    | succ n => simp at h; simp [ih h]

theorem markOne_spec (a0 a : GapAcc) (tsn : BitVec 32) {a' : GapAcc} (ha : GapOk a0 a) (h : markOne a tsn = some a') : GapOk a0 a' := by
  unfold markOne at h
  cases hg : Sender.get a.q tsn with
  | none => simp [hg] at h
  | some oc =>
    obtain ⟨off, c⟩ := oc
    simp only [hg, Option.some.injEq] at h
    have hq := get_some hg
    by_cases hack : c.acked = true
    · simp only [hack, Bool.not_true, Bool.false_eq_true, if_false] at h
      subst h
      exact ⟨ha.ackedEmpty, ha.inf, ha.rel, ha.nonneg, ha.nodup, ha.len, ha.tsn⟩
    · simp only [hack, Bool.not_false, if_true] at h
      subst h
      obtain ⟨s1, s2⟩ := sumLen_set (c' := c.markAcked) hq
      have e1 : c.markAcked.len = 0 := rfl
      have e2 : c.markAcked.si = c.si := rfl
      have e3 : c.markAcked.acked = true := rfl
      rw [e1] at s1
      simp only [e1, e2] at s2
      refine ⟨?_, ?_, ?_, relNonneg_addRel _ _ _ ha.nonneg (by omega), (addRel_keys _ _ _).2 ha.nodup, by simp [ha.len], ?_⟩
      · intro x hx
        rcases mem_set_cases hx with h1 | h1
        · subst h1; intro _; exact e1
        · exact ha.ackedEmpty x h1
      · have := ha.inf
        simp only at s1 ⊢
        omega
      · intro si
        have h1 := ha.rel si
        have h2 := s2 si
        simp only [relOf_addRel] at h2 ⊢
        by_cases hs : c.si = si
        · simp only [hs, if_true] at h2 ⊢; omega
        · simp only [hs, if_false] at h2 ⊢; omega
      · simp only
        rw [map_tsn_set hq (show c.markAcked.tsn = c.tsn from rfl)]; exact ha.tsn

theorem markRange_spec (cum : BitVec 32) (is : List Nat) (a0 a : GapAcc) {a' : GapAcc} (ha : GapOk a0 a)
    (h : markRange cum is a = some a') : GapOk a0 a' := by
  induction is generalizing a with
  | nil => simp [markRange] at h; subst h; exact ha
  | cons i r ih =>
    simp only [markRange] at h
    cases hm : markOne a (cum + BitVec.ofNat 32 i) with
    | none => simp [hm] at h
    | some a1 => simp only [hm] at h; exact ih a1 (markOne_spec a0 a _ ha hm) h

theorem markGaps_spec (cum : BitVec 32) (gaps : List (BitVec 16 × BitVec 16)) (a0 a : GapAcc) {a' : GapAcc} (ha : GapOk a0 a)
    (h : markGaps cum gaps a = some a') : GapOk a0 a' := by
  induction gaps generalizing a with
  | nil => simp [markGaps] at h; subst h; exact ha
  | cons g r ih =>
    obtain ⟨st, en⟩ := g
    simp only [markGaps] at h
    cases hm : markRange cum (List.range' st.toNat (en.toNat + 1 - st.toNat)) a with
    | none => simp [hm] at h
    | some a1 => simp only [hm] at h; exact ih a1 (markRange_spec cum _ a0 a ha hm) h

end SenderProofs
