import SctpVerif.Proofs.Sender.Adv
import SctpVerif.Proofs.Sender.Callback
/-! Which messages can be abandoned, and which retransmission paths look at `abandoned()`.

* `MsgInv`: the fragments of one message share stream and payload type (message identities are fresh per write).
* `NoAb Q`: no chunk whose (stream, payload type) satisfies `Q` belongs to an abandoned message — kept by every step as long
  as `checkPartialReliabilityStatus` leaves such chunks alone (`Safe Q`): DCEP always, a stream with reliable policy.
* T3 and RACK/PTO marks never flag an abandoned chunk; neither the fast-retransmit gather nor the T3 retransmission
  gather (`getDataPacketsToRetransmit`, since the fix of D21) takes one. -/
namespace SenderProofs
open Gen Sender

/-! ### identity of the queued chunks -/

def Chunk.key3 (c : Chunk) : Nat × BitVec 16 × BitVec 32 := (c.msg, c.si, c.ppi)

theorem key3_of_ident {c c' : Chunk} (h : Chunk.ident c' = Chunk.ident c) : Chunk.key3 c' = Chunk.key3 c := by
  simp only [Chunk.key3, ident_msg h, ident_si h, ident_ppi h]

/-- all chunks the sender holds -/
def chunksOf (s : St) : List Chunk := s.inflight ++ s.pending

/-- every chunk of `s'` is, up to its mutable fields, a chunk of `s` -/
def Sub (s s' : St) : Prop := ∀ c' ∈ chunksOf s', ∃ c ∈ chunksOf s, Chunk.key3 c' = Chunk.key3 c

theorem Sub.refl (s : St) : Sub s s := fun c hc => ⟨c, hc, rfl⟩
theorem Sub.trans {a b c : St} (h1 : Sub a b) (h2 : Sub b c) : Sub a c := by
  intro x hx
  obtain ⟨y, hy, e1⟩ := h2 x hx
  obtain ⟨z, hz, e2⟩ := h1 y hy
  exact ⟨z, hz, e1.trans e2⟩

theorem mem_of_map_ident {l l' : List Chunk} (h : l'.map Chunk.ident = l.map Chunk.ident) {c' : Chunk} (hc : c' ∈ l') :
    ∃ c ∈ l, Chunk.ident c' = Chunk.ident c := by
  have : Chunk.ident c' ∈ l'.map Chunk.ident := List.mem_map_of_mem hc
  rw [h] at this
  obtain ⟨c, h1, h2⟩ := List.mem_map.mp this
  exact ⟨c, h1, h2.symm⟩

theorem Sub.of_ident {s s' : St} (hi : s'.inflight.map Chunk.ident = s.inflight.map Chunk.ident) (hp : s'.pending = s.pending) : Sub s s' := by
  intro c' hc'
  rcases List.mem_append.mp hc' with h | h
  · obtain ⟨c, h1, h2⟩ := mem_of_map_ident hi h
    exact ⟨c, List.mem_append_left _ h1, key3_of_ident h2⟩
  · exact ⟨c', List.mem_append_right _ (by rw [← hp]; exact h), rfl⟩

/-- the fields `checkPartialReliabilityStatus` reads, and the message counter -/
def PolEq (s s' : St) : Prop := s'.cfg = s.cfg ∧ s'.streams = s.streams ∧ s'.now = s.now ∧ s'.nextMsg = s.nextMsg

theorem PolEq.refl (s : St) : PolEq s s := ⟨rfl, rfl, rfl, rfl⟩
theorem PolEq.trans {a b c : St} (h1 : PolEq a b) (h2 : PolEq b c) : PolEq a c :=
  ⟨h2.1.trans h1.1, h2.2.1.trans h1.2.1, h2.2.2.1.trans h1.2.2.1, h2.2.2.2.trans h1.2.2.2⟩

theorem checkPR_congr {s s' : St} (h : PolEq s s') (aband : List Nat) (c : Chunk) : checkPR s' aband c = checkPR s aband c := by
  unfold checkPR
  rw [h.1, h.2.1, h.2.2.1]

/-- `checkPartialReliabilityStatus` never abandons a chunk whose (stream, payload type) satisfies `Q` -/
def Safe (Q : BitVec 16 → BitVec 32 → Prop) (s : St) : Prop := ∀ aband c, Q c.si c.ppi → checkPR s aband c = aband

theorem Safe.congr {Q : BitVec 16 → BitVec 32 → Prop} {s s' : St} (h : PolEq s s') (hs : Safe Q s) : Safe Q s' :=
  fun aband c hq => by rw [checkPR_congr h]; exact hs aband c hq

/-- new entries of the abandoned set are messages of chunks that do not satisfy `Q` -/
def NewAb (Q : BitVec 16 → BitVec 32 → Prop) (s s' : St) : Prop :=
  ∀ m ∈ s'.abandonedMsgs, m ∈ s.abandonedMsgs ∨ ∃ c ∈ chunksOf s, c.msg = m ∧ ¬ Q c.si c.ppi

structure GMsg (Q : BitVec 16 → BitVec 32 → Prop) (s s' : St) : Prop where
  sub : Sub s s'
  pol : PolEq s s'
  nab : NewAb Q s s'

theorem GMsg.refl (Q : BitVec 16 → BitVec 32 → Prop) (s : St) : GMsg Q s s := ⟨Sub.refl s, PolEq.refl s, fun _ h => Or.inl h⟩

theorem GMsg.trans {Q : BitVec 16 → BitVec 32 → Prop} {a b c : St} (h1 : GMsg Q a b) (h2 : GMsg Q b c) : GMsg Q a c := by
  refine ⟨h1.sub.trans h2.sub, h1.pol.trans h2.pol, ?_⟩
  intro m hm
  rcases h2.nab m hm with h | ⟨x, hx, e, hq⟩
  · exact h1.nab m h
  · obtain ⟨y, hy, e2⟩ := h1.sub x hx
    simp only [Chunk.key3, Prod.mk.injEq] at e2
    exact Or.inr ⟨y, hy, by rw [← e2.1]; exact e, by rw [← e2.2.1, ← e2.2.2]; exact hq⟩

/-- same queues (up to flags), same policy fields, same abandoned set -/
theorem GMsg.of_same (Q : BitVec 16 → BitVec 32 → Prop) {s s' : St} (hi : s'.inflight.map Chunk.ident = s.inflight.map Chunk.ident)
    (hp : s'.pending = s.pending) (hpol : PolEq s s') (hab : s'.abandonedMsgs = s.abandonedMsgs) : GMsg Q s s' :=
  ⟨Sub.of_ident hi hp, hpol, fun m hm => Or.inl (by rw [← hab]; exact hm)⟩

/-! ### the scan loops -/

theorem scanLoop_newab {B : Type} (Q : BitVec 16 → BitVec 32 → Prop) (s : St) (hs : Safe Q s) (dec : Int → LoopAcc B → Chunk → Take B)
    (upd : Chunk → Chunk) (hupd : ∀ c, Chunk.ident (upd c) = Chunk.ident c) (i : Int) (q : List Chunk) (a : LoopAcc B) :
    ∀ m ∈ (scanLoop s dec upd i q a).2.aband, m ∈ a.aband ∨ ∃ c ∈ q, c.msg = m ∧ ¬ Q c.si c.ppi := by
  induction q generalizing i a with
  | nil => intro m hm; left; simpa [scanLoop] using hm
  | cons c rest ih =>
    intro m hm
    simp only [scanLoop] at hm
    cases hd : dec i a c with
    | skip =>
      rw [hd] at hm
      rcases ih _ _ m hm with h | ⟨x, hx, e, hq⟩
      · exact Or.inl h
      · exact Or.inr ⟨x, List.mem_cons_of_mem _ hx, e, hq⟩
    | stop b => rw [hd] at hm; exact Or.inl hm
    | take b bip =>
      rw [hd] at hm
      rcases ih _ _ m hm with h | ⟨x, hx, e, hq⟩
      · simp only at h
        by_cases hQ : Q c.si c.ppi
        · rw [hs a.aband (upd c) (by rw [ident_si (hupd c), ident_ppi (hupd c)]; exact hQ)] at h
          exact Or.inl h
        · rcases checkPR_cases s a.aband (upd c) with h1 | h1
          · rw [h1] at h; exact Or.inl h
          · rw [h1] at h
            rcases List.mem_cons.mp h with h2 | h2
            · exact Or.inr ⟨c, List.mem_cons_self, by rw [h2, ident_msg (hupd c)], hQ⟩
            · exact Or.inl h2
      · exact Or.inr ⟨x, List.mem_cons_of_mem _ hx, e, hq⟩

theorem scanSplit_suffix_mem (s : St) {c : Chunk} (h : c ∈ (scanSplit s).2) : c ∈ s.inflight := by
  rw [← scanSplit_append s]; exact List.mem_append_right _ h

theorem gatherRtx_gmsg (Q : BitVec 16 → BitVec 32 → Prop) (s : St) (orc : Oracle) (hs : Safe Q s) : GMsg Q s (gatherRtx s orc).1 := by
  refine ⟨Sub.of_ident (gatherRtx_ident s orc) rfl, ⟨rfl, rfl, rfl, rfl⟩, ?_⟩
  intro m hm
  rcases scanLoop_newab Q s hs _ _ (rtxUpd_ident s) 0 _ { b := orc.b, aband := s.abandonedMsgs } m hm with h | ⟨x, hx, e, hq⟩
  · exact Or.inl h
  · exact Or.inr ⟨x, List.mem_append_left _ (scanSplit_suffix_mem s hx), e, hq⟩

theorem gatherFast_gmsg {B : Type} (Q : BitVec 16 → BitVec 32 → Prop) (s : St) (allow : B → Int → Bool × B) (b : B) (hs : Safe Q s) :
    GMsg Q s (gatherFast s allow b).1 := by
  have hg := gatherFast_grel s allow b
  unfold gatherFast at hg ⊢
  split
  · exact GMsg.refl Q s
  · rename_i hw
    simp only [hw] at hg
    simp only
    have hs0 : Safe Q { s with willRetransmitFast := false } := hs.congr ⟨rfl, rfl, rfl, rfl⟩
    refine ⟨Sub.of_ident ?_ rfl, ⟨rfl, rfl, rfl, rfl⟩, ?_⟩
    · show ((scanSplit { s with willRetransmitFast := false }).1 ++ _).map Chunk.ident = _
      rw [List.map_append, scanLoop_ident _ _ _ (fastUpd_ident _), ← List.map_append, scanSplit_append]
    · intro m hm
      rcases scanLoop_newab Q _ hs0 _ _ (fastUpd_ident _) 0 _ { b := b, size := hdr, aband := s.abandonedMsgs } m hm with h | ⟨x, hx, e, hq⟩
      · exact Or.inl h
      · exact Or.inr ⟨x, List.mem_append_left _ (scanSplit_suffix_mem { s with willRetransmitFast := false } hx), e, hq⟩

/-! ### moving chunks from pending to in flight -/

theorem popPend_gmsg (Q : BitVec 16 → BitVec 32 → Prop) (s : St) (i : Nat) (c : Chunk) : GMsg Q s (popPend s i c) := by
  refine ⟨?_, ⟨rfl, rfl, rfl, rfl⟩, fun m hm => Or.inl hm⟩
  intro x hx
  rcases List.mem_append.mp hx with h | h
  · exact ⟨x, List.mem_append_left _ h, rfl⟩
  · exact ⟨x, List.mem_append_right _ (mem_eraseIdx h), rfl⟩

theorem move_gmsg (Q : BitVec 16 → BitVec 32 → Prop) (s : St) (i : Nat) (c : Chunk) (hs : Safe Q s) (hp : s.pending[i]? = some c) :
    GMsg Q s (move s i c).1 := by
  have hc : c ∈ s.pending := List.mem_of_getElem? hp
  refine ⟨?_, ⟨rfl, rfl, rfl, rfl⟩, ?_⟩
  · intro x hx
    simp only [chunksOf, move, popPend] at hx
    rcases List.mem_append.mp hx with h | h
    · rcases List.mem_append.mp h with h1 | h1
      · exact ⟨x, List.mem_append_left _ h1, rfl⟩
      · simp only [List.mem_singleton] at h1
        exact ⟨c, List.mem_append_right _ hc, by rw [h1]; rfl⟩
    · exact ⟨x, List.mem_append_right _ (mem_eraseIdx h), rfl⟩
  · intro m hm
    have key : ∀ (X : St) (C : Chunk), PolEq s X → C.msg = c.msg → C.si = c.si → C.ppi = c.ppi → m ∈ checkPR X s.abandonedMsgs C →
        m ∈ s.abandonedMsgs ∨ ∃ c ∈ chunksOf s, c.msg = m ∧ ¬ Q c.si c.ppi := by
      intro X C hX e1 e2 e3 hm
      rw [checkPR_congr hX] at hm
      by_cases hQ : Q c.si c.ppi
      · rw [hs _ C (by rw [e2, e3]; exact hQ)] at hm
        exact Or.inl hm
      · rcases checkPR_cases s s.abandonedMsgs C with h1 | h1
        · rw [h1] at hm; exact Or.inl hm
        · rw [h1] at hm
          rcases List.mem_cons.mp hm with h2 | h2
          · exact Or.inr ⟨c, List.mem_append_right _ hc, by rw [h2, e1], hQ⟩
          · exact Or.inl h2
    simp only [move, popPend] at hm
    exact key _ _ (by exact ⟨rfl, rfl, rfl, rfl⟩) (by rfl) (by rfl) (by rfl) hm

theorem popLoop_gmsg {B : Type} (Q : BitVec 16 → BitVec 32 → Prop) (allow : B → Int → Bool × B) (fuel : Nat) (s : St) (sel : List Nat)
    (a : PopAcc B) (hs : Safe Q s) : GMsg Q s (popLoop allow fuel s sel a).1 := by
  induction fuel generalizing s sel a with
  | zero => exact GMsg.refl Q s
  | succ fuel ih =>
    simp only [popLoop]
    cases hp : peek s sel with
    | none => exact GMsg.refl Q s
    | some ic =>
      obtain ⟨i, c⟩ := ic
      simp only
      have hpi := peek_some hp
      split
      · have g1 := popPend_gmsg Q s i c
        exact g1.trans (ih _ _ _ (hs.congr g1.pol))
      · cases hd : popDecide s allow a c with
        | skip => exact GMsg.refl Q s
        | stop b => exact GMsg.refl Q s
        | take b bip =>
          simp only
          have g0 : GMsg Q s (chargeSend s c) := GMsg.of_same Q rfl rfl ⟨rfl, rfl, rfl, rfl⟩ rfl
          have g1 := move_gmsg Q (chargeSend s c) i c (hs.congr g0.pol) hpi
          have g2 := g0.trans g1
          exact g2.trans (ih _ _ _ (hs.congr g2.pol))

theorem probe_gmsg {B : Type} (Q : BitVec 16 → BitVec 32 → Prop) (allow : B → Int → Bool × B) (s : St) (sel : List Nat) (a : PopAcc B)
    (hs : Safe Q s) : GMsg Q s (probe allow s sel a).1 := by
  unfold probe
  split
  · cases hp : peek s sel with
    | none => exact GMsg.refl Q s
    | some ic =>
      obtain ⟨i, c⟩ := ic
      simp only
      split
      · split
        · split
          · have g0 : GMsg Q s (chargeProbe s c) := GMsg.of_same Q rfl rfl ⟨rfl, rfl, rfl, rfl⟩ rfl
            exact g0.trans (move_gmsg Q (chargeProbe s c) i c (hs.congr g0.pol) (peek_some hp))
          · exact GMsg.refl Q s
        · exact GMsg.refl Q s
      · exact GMsg.refl Q s
  · exact GMsg.refl Q s

theorem gatherNew_gmsg {B : Type} (Q : BitVec 16 → BitVec 32 → Prop) (s : St) (allow : B → Int → Bool × B) (b : B) (sel : List Nat)
    (hs : Safe Q s) : GMsg Q s (gatherNew s allow b sel).1 := by
  unfold gatherNew
  split
  · have g1 := popLoop_gmsg Q allow (s.pending.length + 1) s sel { b := b } hs
    exact g1.trans (probe_gmsg Q allow _ _ _ (hs.congr g1.pol))
  · exact GMsg.refl Q s

theorem gather_gmsg (Q : BitVec 16 → BitVec 32 → Prop) (s : St) (orc : Oracle) (sel : List Nat) (hs : Safe Q s) :
    GMsg Q s (gather s orc sel).1 := by
  by_cases he : s.established = true
  · rw [(gather_eq s orc sel he).1]
    have g1 := gatherRtx_gmsg Q s orc hs
    have g2 := g1.trans (gatherNew_gmsg Q _ orc.allow (gatherRtx s orc).2.2 sel (hs.congr g1.pol))
    have g3 : GMsg Q s (gatherPre s orc sel) := g2.trans (gatherFast_gmsg Q _ orc.allow
      (gatherNew (gatherRtx s orc).1 orc.allow (gatherRtx s orc).2.2 sel).2.b (hs.congr g2.pol))
    exact g3.trans (GMsg.of_same Q rfl rfl ⟨rfl, rfl, rfl, rfl⟩ rfl)
  · unfold gather
    simp only [he, Bool.not_false, if_true]
    exact GMsg.refl Q s

/-! ### the acknowledgement side keeps queues (shrunk), policy fields and the abandoned set -/

theorem missLoop_ident (htna : BitVec 32) (fuel : Nat) (s : St) (tsn maxTSN : BitVec 32) :
    (missLoop htna fuel s tsn maxTSN).1.inflight.map Chunk.ident = s.inflight.map Chunk.ident := by
  induction fuel generalizing s tsn with
  | zero => rfl
  | succ fuel ih =>
    simp only [missLoop]
    split
    · cases hg : Sender.get s.inflight tsn with
      | none => rfl
      | some oc =>
        obtain ⟨off, c⟩ := oc
        simp only
        have hset : (s.inflight.set off { c with missIndicator := c.missIndicator + 1 }).map Chunk.ident = s.inflight.map Chunk.ident :=
          list_set_ident _ _ c _ (get_some hg) rfl
        split
        · split
          · rw [ih]; exact hset
          · rw [ih]; exact hset
        · exact ih s (tsn + 1)
    · rfl

theorem fastRetransCheck_ident (s : St) (cum : BitVec 32) (gaps : List (BitVec 16 × BitVec 16)) (htna : BitVec 32) (adv : Bool) :
    (fastRetransCheck s cum gaps htna adv).1.inflight.map Chunk.ident = s.inflight.map Chunk.ident := by
  have h1 : (frLoop s cum gaps htna adv).1.inflight.map Chunk.ident = s.inflight.map Chunk.ident := by
    unfold frLoop
    split
    · exact missLoop_ident _ _ _ _ _
    · rfl
  have h2 : ∀ r : St × Bool, (frPost r adv).1.inflight = r.1.inflight := by
    intro r
    unfold frPost
    split
    · rfl
    · split <;> rfl
  unfold fastRetransCheck
  rw [h2]; exact h1

theorem prStep_same (x : St) : (prStep x).inflight = x.inflight ∧ (prStep x).pending = x.pending ∧ (prStep x).cfg = x.cfg ∧
    (prStep x).cumAck = x.cumAck := by
  unfold prStep
  split
  · split
    · obtain ⟨_, _, a3, a4, _, a6, a7, _⟩ := advancePeerAck_ab { x with advPeerAck := x.cumAck }
      exact ⟨a3, a6, a7, a4⟩
    · obtain ⟨_, _, a3, a4, _, a6, a7, _⟩ := advancePeerAck_ab x
      exact ⟨a3, a6, a7, a4⟩
  · exact ⟨rfl, rfl, rfl, rfl⟩

theorem sub_of_drop {s s' : St} {k : Nat} (hi : s'.inflight.map Chunk.ident = (s.inflight.drop k).map Chunk.ident) (hp : s'.pending = s.pending) :
    Sub s s' := by
  intro c' hc'
  rcases List.mem_append.mp hc' with h | h
  · obtain ⟨c, h1, h2⟩ := mem_of_map_ident hi h
    exact ⟨c, List.mem_append_left _ (List.mem_of_mem_drop h1), key3_of_ident h2⟩
  · exact ⟨c', List.mem_append_right _ (by rw [← hp]; exact h), rfl⟩

/-- a SACK: queued chunks are a subset (up to flags), the message counter and the abandoned set stay -/
theorem sack_sub (s : St) (cum arwnd : BitVec 32) (gaps : List (BitVec 16 × BitVec 16)) (marks : List (BitVec 32)) :
    Sub s (sack s cum arwnd gaps marks).1 ∧ (sack s cum arwnd gaps marks).1.nextMsg = s.nextMsg := by
  unfold sack
  split
  · exact ⟨Sub.refl s, rfl⟩
  · split
    · exact ⟨Sub.refl s, rfl⟩
    · split
      · exact ⟨Sub.refl s, rfl⟩
      · cases ha : ackPhase s cum gaps with
        | none => exact ⟨Sub.refl s, rfl⟩
        | some r =>
          simp only
          obtain ⟨p1, _, _, k, _, p4⟩ := ackPhase_shape ha
          have c1 := fastRetransCheck_ctl (setPeerWindow r.1 arwnd) cum gaps r.2.1 r.2.2
          have i1 := fastRetransCheck_ident (setPeerWindow r.1 arwnd) cum gaps r.2.1 r.2.2
          split
          · exact ⟨sub_of_drop (i1.trans p4) (c1.2.2.2.2.2.2.trans p1.2.2.2.2.2.2), c1.2.2.2.2.2.1.trans p1.2.2.2.2.2.1⟩
          · obtain ⟨q1, q2, _, _⟩ := prStep_same (fastRetransCheck (setPeerWindow r.1 arwnd) cum gaps r.2.1 r.2.2).1
            refine ⟨sub_of_drop (k := k) ?_ ?_, ?_⟩
            · rw [applyMarks_ident, q1]; exact i1.trans p4
            · show (prStep _).pending = _
              rw [q2]; exact c1.2.2.2.2.2.2.trans p1.2.2.2.2.2.2
            · show (prStep _).nextMsg = _
              unfold prStep
              split
              · split
                · obtain ⟨a, b, h⟩ := advancePeerAck_only { (fastRetransCheck (setPeerWindow r.1 arwnd) cum gaps r.2.1 r.2.2).1 with
                    advPeerAck := (fastRetransCheck (setPeerWindow r.1 arwnd) cum gaps r.2.1 r.2.2).1.cumAck }
                  rw [h]; exact c1.2.2.2.2.2.1.trans p1.2.2.2.2.2.1
                · obtain ⟨a, b, h⟩ := advancePeerAck_only (fastRetransCheck (setPeerWindow r.1 arwnd) cum gaps r.2.1 r.2.2).1
                  rw [h]; exact c1.2.2.2.2.2.1.trans p1.2.2.2.2.2.1
              · exact c1.2.2.2.2.2.1.trans p1.2.2.2.2.2.1

theorem t3_ident (s : St) : (t3 s).inflight.map Chunk.ident = s.inflight.map Chunk.ident ∧ (t3 s).pending = s.pending ∧
    PolEq s (t3 s) := by
  obtain ⟨x, hx, x1, x2, x3, x4, x5, x6, x7, x8, x9, x10, x11, x12, x13⟩ := t3_eq s
  obtain ⟨_, _, a3, _, _, a6, a7, a8, a9, a10, _⟩ := advancePeerAck_ab x
  rw [hx]
  split
  · exact ⟨by rw [markAll_ident, a3, x1], a6.trans x9, a7.trans x6, a9.trans x11, a10.trans x12, a8.trans x10⟩
  · exact ⟨by rw [markAll_ident, x1], x9, x6, x11, x12, x10⟩

/-! ### message identities are fresh; fragments of a message share stream and payload type -/

structure MsgInv (s : St) : Prop where
  lt : ∀ c ∈ chunksOf s, c.msg < s.nextMsg
  uni : ∀ c ∈ chunksOf s, ∀ c' ∈ chunksOf s, c.msg = c'.msg → c.si = c'.si ∧ c.ppi = c'.ppi
  ab : ∀ m ∈ s.abandonedMsgs, m < s.nextMsg

/-- no chunk whose (stream, payload type) satisfies `Q` belongs to a message flagged abandoned -/
def NoAb (Q : BitVec 16 → BitVec 32 → Prop) (s : St) : Prop := ∀ c ∈ chunksOf s, Q c.si c.ppi → c.msg ∉ s.abandonedMsgs

/-- nothing new: chunks a subset, same message counter, same abandoned set -/
def Quiet (s s' : St) : Prop := Sub s s' ∧ s'.nextMsg = s.nextMsg ∧ s'.abandonedMsgs = s.abandonedMsgs

theorem Quiet.refl (s : St) : Quiet s s := ⟨Sub.refl s, rfl, rfl⟩
theorem Quiet.trans {a b c : St} (h1 : Quiet a b) (h2 : Quiet b c) : Quiet a c :=
  ⟨h1.1.trans h2.1, h2.2.1.trans h1.2.1, h2.2.2.trans h1.2.2⟩

theorem key3_eq {c c' : Chunk} (h : Chunk.key3 c' = Chunk.key3 c) : c'.msg = c.msg ∧ c'.si = c.si ∧ c'.ppi = c.ppi := by
  simpa [Chunk.key3] using h

theorem MsgInv.of_sub {s s' : St} (h : MsgInv s) (hsub : Sub s s') (hn : s'.nextMsg = s.nextMsg)
    (hab : ∀ m ∈ s'.abandonedMsgs, m < s.nextMsg) : MsgInv s' := by
  refine ⟨?_, ?_, by rw [hn]; exact hab⟩
  · intro c' hc'
    obtain ⟨c, hc, e⟩ := hsub c' hc'
    rw [hn, (key3_eq e).1]; exact h.lt c hc
  · intro c1' h1 c2' h2 hm
    obtain ⟨c1, g1, e1⟩ := hsub c1' h1
    obtain ⟨c2, g2, e2⟩ := hsub c2' h2
    obtain ⟨a1, a2, a3⟩ := key3_eq e1
    obtain ⟨b1, b2, b3⟩ := key3_eq e2
    have := h.uni c1 g1 c2 g2 (by rw [← a1, ← b1]; exact hm)
    rw [a2, a3, b2, b3]; exact this

theorem MsgInv.quiet {s s' : St} (h : MsgInv s) (hq : Quiet s s') : MsgInv s' :=
  h.of_sub hq.1 hq.2.1 (by rw [hq.2.2]; exact h.ab)

theorem NoAb.quiet {Q : BitVec 16 → BitVec 32 → Prop} {s s' : St} (h : NoAb Q s) (hq : Quiet s s') : NoAb Q s' := by
  intro c' hc' hQ
  obtain ⟨c, hc, e⟩ := hq.1 c' hc'
  obtain ⟨a1, a2, a3⟩ := key3_eq e
  rw [hq.2.2, a1]
  exact h c hc (by rw [← a2, ← a3]; exact hQ)

theorem MsgInv.gmsg {s s' : St} (h : MsgInv s) (hg : GMsg (fun _ _ => False) s s') : MsgInv s' := by
  refine h.of_sub hg.sub hg.pol.2.2.2 ?_
  intro m hm
  rcases hg.nab m hm with h1 | ⟨c, hc, e, _⟩
  · exact h.ab m h1
  · rw [← e]; exact h.lt c hc

theorem NoAb.gmsg {Q : BitVec 16 → BitVec 32 → Prop} {s s' : St} (h : NoAb Q s) (hm : MsgInv s) (hg : GMsg Q s s') : NoAb Q s' := by
  intro c' hc' hQ hmem
  obtain ⟨c, hc, e⟩ := hg.sub c' hc'
  obtain ⟨a1, a2, a3⟩ := key3_eq e
  have hQc : Q c.si c.ppi := by rw [← a2, ← a3]; exact hQ
  rcases hg.nab _ hmem with h1 | ⟨x, hx, e2, hq⟩
  · exact h c hc hQc (by rw [← a1]; exact h1)
  · have := hm.uni x hx c hc (by rw [e2, a1])
    apply hq
    rw [this.1, this.2]; exact hQc

theorem safe_false (s : St) : Safe (fun _ _ => False) s := fun _ _ h => absurd h id

/-! ### the quiet steps -/

theorem sack_quiet (s : St) (cum arwnd : BitVec 32) (gaps : List (BitVec 16 × BitVec 16)) (marks : List (BitVec 32)) :
    Quiet s (sack s cum arwnd gaps marks).1 :=
  ⟨(sack_sub s cum arwnd gaps marks).1, (sack_sub s cum arwnd gaps marks).2, (sack_ab s cum arwnd gaps marks).1⟩

theorem t3_quiet (s : St) : Quiet s (t3 s) :=
  ⟨Sub.of_ident (t3_ident s).1 (t3_ident s).2.1, (t3_ident s).2.2.2.2.2, (t3_ab s).1⟩

theorem iter_t3_quiet (n : Nat) (s : St) : Quiet s (iter t3 n s) := by
  induction n generalizing s with
  | zero => exact Quiet.refl s
  | succ n ih => exact (t3_quiet s).trans (ih (t3 s))

theorem mkChunks_key (si : BitVec 16) (msg : Nat) (ppi : BitVec 32) (u : Bool) (ssn : BitVec 16) (mid : BitVec 32)
    (fs : List Nat) (fsn : BitVec 32) (first : Bool) :
    ∀ c ∈ mkChunks si msg ppi u ssn mid fs fsn first, c.msg = msg ∧ c.si = si ∧ c.ppi = ppi := by
  induction fs generalizing fsn first with
  | nil => intro c hc; simp [mkChunks] at hc
  | cons f r ih =>
    intro c hc
    simp only [mkChunks, List.mem_cons] at hc
    rcases hc with h | h
    · subst h; exact ⟨rfl, rfl, rfl⟩
    · exact ih _ _ c h

theorem write_chunks (s : St) (si : BitVec 16) (ppi : BitVec 32) (len : Nat) :
    (write s si ppi len).1.inflight = s.inflight ∧ (write s si ppi len).1.abandonedMsgs = s.abandonedMsgs ∧
    ((write s si ppi len).1.pending = s.pending ∧ ((write s si ppi len).1.nextMsg = s.nextMsg ∨ (write s si ppi len).1.nextMsg = s.nextMsg + 1) ∨
     ∃ new, (write s si ppi len).1.pending = s.pending ++ new ∧ (write s si ppi len).1.nextMsg = s.nextMsg + 1 ∧
       ∀ c ∈ new, c.msg = s.nextMsg ∧ c.si = si ∧ c.ppi = ppi) := by
  unfold write
  cases hst : s.streams si with
  | none => exact ⟨rfl, rfl, Or.inl ⟨rfl, Or.inl rfl⟩⟩
  | some st =>
    simp only
    split
    · exact ⟨rfl, rfl, Or.inl ⟨rfl, Or.inl rfl⟩⟩
    · split
      · exact ⟨rfl, rfl, Or.inl ⟨rfl, Or.inl rfl⟩⟩
      · split
        · exact ⟨rfl, rfl, Or.inl ⟨rfl, Or.inl rfl⟩⟩
        · split
          · refine ⟨rfl, rfl, Or.inr ⟨(packetize s.cfg st si s.nextMsg ppi len).chunks, rfl, rfl, ?_⟩⟩
            intro c hc
            simp only [packetize] at hc
            exact mkChunks_key _ _ _ _ _ _ _ _ _ c hc
          · exact ⟨rfl, rfl, Or.inl ⟨rfl, Or.inr rfl⟩⟩

theorem write_msginv (s : St) (si : BitVec 16) (ppi : BitVec 32) (len : Nat) (h : MsgInv s) : MsgInv (write s si ppi len).1 := by
  obtain ⟨w1, w2, w3⟩ := write_chunks s si ppi len
  rcases w3 with ⟨w3, w4⟩ | ⟨new, w3, w4, w5⟩
  · have hch : chunksOf (write s si ppi len).1 = chunksOf s := by simp only [chunksOf, w1, w3]
    have hle : s.nextMsg ≤ (write s si ppi len).1.nextMsg := by rcases w4 with e | e <;> rw [e] <;> omega
    exact ⟨fun c hc => Nat.lt_of_lt_of_le (h.lt c (by rw [← hch]; exact hc)) hle,
      fun c hc c' hc' => h.uni c (by rw [← hch]; exact hc) c' (by rw [← hch]; exact hc'),
      fun m hm => Nat.lt_of_lt_of_le (h.ab m (by rw [← w2]; exact hm)) hle⟩
  · have hch : ∀ c, c ∈ chunksOf (write s si ppi len).1 ↔ c ∈ chunksOf s ∨ c ∈ new := by
      intro c; simp only [chunksOf, w1, w3, List.mem_append]; exact or_assoc.symm
    refine ⟨?_, ?_, ?_⟩
    · intro c hc
      rw [w4]
      rcases (hch c).mp hc with h1 | h1
      · exact Nat.lt_succ_of_lt (h.lt c h1)
      · rw [(w5 c h1).1]; exact Nat.lt_succ_self _
    · intro c hc c' hc' hm
      rcases (hch c).mp hc with h1 | h1 <;> rcases (hch c').mp hc' with h2 | h2
      · exact h.uni c h1 c' h2 hm
      · have := h.lt c h1; rw [hm, (w5 c' h2).1] at this; omega
      · have := h.lt c' h2; rw [← hm, (w5 c h1).1] at this; omega
      · rw [(w5 c h1).2.1, (w5 c h1).2.2, (w5 c' h2).2.1, (w5 c' h2).2.2]; exact ⟨rfl, rfl⟩
    · intro m hm
      rw [w4]; exact Nat.lt_succ_of_lt (h.ab m (by rw [← w2]; exact hm))

theorem write_noab (Q : BitVec 16 → BitVec 32 → Prop) (s : St) (si : BitVec 16) (ppi : BitVec 32) (len : Nat) (hm : MsgInv s) (h : NoAb Q s) :
    NoAb Q (write s si ppi len).1 := by
  obtain ⟨w1, w2, w3⟩ := write_chunks s si ppi len
  intro c hc hQ
  rw [w2]
  rcases w3 with ⟨w3, _⟩ | ⟨new, w3, _, w5⟩
  · exact h c (by simpa only [chunksOf, w1, w3] using hc) hQ
  · simp only [chunksOf, w1, w3, List.mem_append] at hc
    rcases hc with h1 | h1 | h1
    · exact h c (List.mem_append_left _ h1) hQ
    · exact h c (List.mem_append_right _ h1) hQ
    · intro hmem
      have := hm.ab _ hmem
      rw [(w5 c h1).1] at this; omega

theorem step_msginv (s : St) (op : Op) (h : MsgInv s) : MsgInv (step s op) := by
  cases op with
  | openS si u rt rv th => exact h.quiet ⟨Sub.refl _, rfl, rfl⟩
  | unreg si =>
    simp only [step, unregister]
    split
    · exact h
    · exact h.quiet ⟨Sub.refl _, rfl, rfl⟩
  | setEstablished b => exact h.quiet ⟨Sub.refl _, rfl, rfl⟩
  | write si ppi len => exact write_msginv s si ppi len h
  | gather orc sel => exact h.gmsg (gather_gmsg _ s orc sel (safe_false s))
  | sack cum arwnd gaps marks => exact h.quiet (sack_quiet s cum arwnd gaps marks)
  | t3 => exact h.quiet (t3_quiet s)
  | tick ms n marks =>
    simp only [step]
    have q1 : Quiet s { s with now := s.now + ms } := ⟨Sub.refl _, rfl, rfl⟩
    have q2 := iter_t3_quiet n { s with now := s.now + ms }
    have q3 : Quiet (iter t3 n { s with now := s.now + ms }) (applyMarks (iter t3 n { s with now := s.now + ms }) marks) :=
      ⟨Sub.of_ident (applyMarks_ident _ marks) rfl, rfl, rfl⟩
    exact h.quiet (q1.trans (q2.trans q3))

theorem step_noab (Q : BitVec 16 → BitVec 32 → Prop) (s : St) (op : Op) (hsafe : Safe Q s) (hm : MsgInv s) (h : NoAb Q s) :
    NoAb Q (step s op) := by
  cases op with
  | openS si u rt rv th => exact h.quiet ⟨Sub.refl _, rfl, rfl⟩
  | unreg si =>
    simp only [step, unregister]
    split
    · exact h
    · exact h.quiet ⟨Sub.refl _, rfl, rfl⟩
  | setEstablished b => exact h.quiet ⟨Sub.refl _, rfl, rfl⟩
  | write si ppi len => exact write_noab Q s si ppi len hm h
  | gather orc sel => exact h.gmsg hm (gather_gmsg Q s orc sel hsafe)
  | sack cum arwnd gaps marks => exact h.quiet (sack_quiet s cum arwnd gaps marks)
  | t3 => exact h.quiet (t3_quiet s)
  | tick ms n marks =>
    simp only [step]
    have q1 : Quiet s { s with now := s.now + ms } := ⟨Sub.refl _, rfl, rfl⟩
    have q2 := iter_t3_quiet n { s with now := s.now + ms }
    have q3 : Quiet (iter t3 n { s with now := s.now + ms }) (applyMarks (iter t3 n { s with now := s.now + ms }) marks) :=
      ⟨Sub.of_ident (applyMarks_ident _ marks) rfl, rfl, rfl⟩
    exact h.quiet (q1.trans (q2.trans q3))

theorem run_msginv (s : St) (ops : List Op) (h : MsgInv s) : MsgInv (run s ops) := by
  induction ops generalizing s with
  | nil => exact h
  | cons op ops ih => exact ih (step s op) (step_msginv s op h)

theorem init_msginv (cfg : Cfg) (tsn peerRwnd : BitVec 32) : MsgInv (init cfg tsn peerRwnd) := by
  refine ⟨?_, ?_, ?_⟩ <;> simp [init, chunksOf]

/-- a chunk of a message that is not flagged abandoned is not `abandoned()` -/
theorem NoAb.abandoned {Q : BitVec 16 → BitVec 32 → Prop} {s : St} (h : NoAb Q s) {c : Chunk} (hc : c ∈ chunksOf s) (hQ : Q c.si c.ppi) :
    s.abandoned c = false := by
  have := h c hc hQ
  cases hab : s.abandoned c with
  | false => rfl
  | true =>
    exfalso
    have := (isAbandoned_iff _ _ _).mp hab
    exact (h c hc hQ) this.1

/-! ### who can be abandoned: never DCEP, never a chunk of a stream whose policy is reliable -/

def QDcep : BitVec 16 → BitVec 32 → Prop := fun _ ppi => ppi = BitVec.ofNat 32 PayloadTypeWebRTCDCEP
def QStream (si : BitVec 16) : BitVec 16 → BitVec 32 → Prop := fun si' _ => si' = si

theorem safe_dcep (s : St) : Safe QDcep s := by
  intro aband c hq
  unfold QDcep at hq
  unfold checkPR
  split
  · rfl
  · rw [hq]; simp

/-- the stream's policy is neither "limited retransmissions" nor "timed" (or the stream does not exist) -/
def StreamRel (si : BitVec 16) (s : St) : Prop :=
  ∀ st, s.streams si = some st → (st.relType == BitVec.ofNat 8 ReliabilityTypeRexmit) = false ∧ (st.relType == BitVec.ofNat 8 ReliabilityTypeTimed) = false

theorem safe_stream (si : BitVec 16) (s : St) (h : StreamRel si s) : Safe (QStream si) s := by
  intro aband c hq
  unfold QStream at hq
  unfold checkPR
  split
  · rfl
  · split
    · rfl
    · rw [hq]
      cases hst : s.streams si with
      | none => rfl
      | some st =>
        obtain ⟨h1, h2⟩ := h st hst
        simp only [h1, h2]
        split <;> rfl

/-- the reliability type recorded for a stream -/
def relTypeOf (s : St) (si : BitVec 16) : Option (BitVec 8) := (s.streams si).map (·.relType)

theorem streamRel_of_relType {s s' : St} {si : BitVec 16} (h : relTypeOf s' si = relTypeOf s si) (hr : StreamRel si s) : StreamRel si s' := by
  intro st' hst'
  unfold relTypeOf at h
  rw [hst'] at h
  cases hst : s.streams si with
  | none => rw [hst] at h; cases h
  | some st =>
    rw [hst] at h
    simp only [Option.map_some, Option.some.injEq] at h
    rw [h]; exact hr st hst

theorem release_relType (st : Stream) (n : Int) : (release st n).1.relType = st.relType := by
  unfold release
  split <;> rfl

theorem releaseAll_relType (rel : Rel) (s : St) (si : BitVec 16) : relTypeOf (releaseAll rel s) si = relTypeOf s si := by
  induction rel generalizing s with
  | nil => rfl
  | cons e r ih =>
    obtain ⟨k, n⟩ := e
    simp only [releaseAll]
    cases hs : s.streams k with
    | none => exact ih s
    | some st =>
      simp only
      split
      · rw [ih]
        unfold relTypeOf
        simp only [setStream]
        by_cases hk : si = k
        · subst hk; simp [hs, release_relType]
        · simp [hk]
      · exact ih s

theorem packetize_relType (cfg : Cfg) (st : Stream) (si : BitVec 16) (msg : Nat) (ppi : BitVec 32) (len : Nat) :
    (packetize cfg st si msg ppi len).st.relType = st.relType := by
  simp only [packetize]
  repeat' split
  all_goals rfl

theorem rollback_relType (cfg : Cfg) (st : Stream) (u : Bool) (n : Nat) : (rollback cfg st u n).relType = st.relType := by
  unfold rollback
  simp only
  repeat' split
  all_goals rfl

theorem write_relType (s : St) (k : BitVec 16) (ppi : BitVec 32) (len : Nat) (si : BitVec 16) :
    relTypeOf (write s k ppi len).1 si = relTypeOf s si := by
  unfold write
  cases hs : s.streams k with
  | none => rfl
  | some st =>
    simp only
    split
    · rfl
    · split
      · rfl
      · split
        · rfl
        · split
          · unfold relTypeOf
            simp only [pushPending, setStream]
            by_cases hk : si = k
            · subst hk; simp [hs, packetize_relType]
            · simp [hk]
          · unfold relTypeOf
            simp only [setStream]
            by_cases hk : si = k
            · subst hk; simp [hs, packetize_relType, rollback_relType]
            · simp [hk]

/-- an operation that does not give stream `si` a partially reliable policy -/
def KeepsRel (si : BitVec 16) : Op → Prop
  | .openS k _ rt _ _ => k = si → (rt == BitVec.ofNat 8 ReliabilityTypeRexmit) = false ∧ (rt == BitVec.ofNat 8 ReliabilityTypeTimed) = false
  | _ => True

theorem step_streamRel (s : St) (op : Op) (si : BitVec 16) (hm : CfgOk s.cfg) (hk : KeepsRel si op) (h : StreamRel si s) : StreamRel si (step s op) := by
  cases op with
  | openS k u rt rv th =>
    intro st' hst'
    simp only [step, openStream, setStream] at hst'
    by_cases hki : si = k
    · simp only [hki, if_true, Option.some.injEq] at hst'
      rw [← hst']
      exact hk hki.symm
    · simp only [hki, if_false] at hst'
      exact h st' hst'
  | unreg k =>
    simp only [step, unregister]
    cases hs : s.streams k with
    | none => exact h
    | some st =>
      simp only
      intro st' hst'
      simp only [setStream] at hst'
      by_cases hki : si = k
      · simp only [hki, if_true, Option.some.injEq] at hst'
        rw [← hst']
        exact h st (by rw [hki]; exact hs)
      · simp only [hki, if_false] at hst'
        exact h st' hst'
  | setEstablished b => exact h
  | write k ppi len => exact streamRel_of_relType (write_relType s k ppi len si) h
  | gather orc sel =>
    refine streamRel_of_relType ?_ h
    unfold relTypeOf
    simp only [step]
    rw [(gather_streams s orc sel).2]
  | sack cum arwnd gaps marks =>
    obtain ⟨_, rel, x, _, hx, hr⟩ := sack_streams s cum arwnd gaps marks hm
    refine streamRel_of_relType ?_ h
    have : relTypeOf (sack s cum arwnd gaps marks).1 si = relTypeOf (releaseAll rel x) si := by unfold relTypeOf; rw [hr]
    simp only [step]
    rw [this, releaseAll_relType]
    unfold relTypeOf; rw [hx]
  | t3 =>
    refine streamRel_of_relType ?_ h
    unfold relTypeOf
    simp only [step]
    rw [(t3_ident s).2.2.2.1]
  | tick ms n marks =>
    refine streamRel_of_relType ?_ h
    unfold relTypeOf
    simp only [step]
    show ((iter t3 n { s with now := s.now + ms }).streams si).map _ = _
    rw [iter_t3_streams]

/-- **DCEP is never abandoned**: along every run, no chunk carrying the DCEP payload type belongs to an abandoned message -/
theorem run_noab_dcep (s : St) (ops : List Op) (hm : MsgInv s) (h : NoAb QDcep s) : NoAb QDcep (run s ops) := by
  induction ops generalizing s with
  | nil => exact h
  | cons op ops ih => exact ih (step s op) (step_msginv s op hm) (step_noab QDcep s op (safe_dcep s) hm h)

/-- **a stream with reliable policy never has a message abandoned**, as long as nobody changes its policy -/
theorem run_noab_stream (si : BitVec 16) (s : St) (ops : List Op) (hw : WinInv s) (hm : MsgInv s) (hr : StreamRel si s) (h : NoAb (QStream si) s)
    (hk : ∀ op ∈ ops, KeepsRel si op) : NoAb (QStream si) (run s ops) ∧ StreamRel si (run s ops) := by
  induction ops generalizing s with
  | nil => exact ⟨h, hr⟩
  | cons op ops ih =>
    exact ih (step s op) (step_win s op hw).1 (step_msginv s op hm) (step_streamRel s op si hw.cfgOk (hk op (by simp)) hr)
      (step_noab (QStream si) s op (safe_stream si s hr) hm h) (fun o ho => hk o (by simp [ho]))

/-! ### which retransmission paths look at `abandoned()` -/

/-- `markAllToRetrasmit` on T3: exactly the chunks that are neither acked nor abandoned get flagged; nothing else changes -/
theorem t3_inflight (s : St) :
    (t3 s).inflight = s.inflight.map (fun c => if c.acked || s.abandoned c then c else { c with retransmit := true }) := by
  obtain ⟨x, hx, x1, x2, x3, x4, x5, _⟩ := t3_eq s
  obtain ⟨a1, a2, a3, _⟩ := advancePeerAck_ab x
  rw [hx]
  split
  · simp only [markAllToRetransmit, St.abandoned, a1, a2, a3, x1, x4, x5]; rfl
  · simp only [markAllToRetransmit, St.abandoned, x1, x4, x5]; rfl

theorem scanLoop_out {B : Type} (s : St) (dec : Int → LoopAcc B → Chunk → Take B) (upd : Chunk → Chunk)
    (I : List Nat → Prop) (P : Chunk → Prop) (hI : ∀ aband c, I aband → I (checkPR s aband c))
    (hP : ∀ i a c b bip, I a.aband → dec i a c = .take b bip → P c)
    (i : Int) (q : List Chunk) (a : LoopAcc B) (ha : I a.aband) :
    ∀ x ∈ (scanLoop s dec upd i q a).2.out, x ∈ a.out ∨ ∃ c ∈ q, x = upd c ∧ P c := by
  induction q generalizing i a with
  | nil => intro x hx; left; simpa [scanLoop] using hx
  | cons c rest ih =>
    intro x hx
    simp only [scanLoop] at hx
    cases hd : dec i a c with
    | skip =>
      rw [hd] at hx
      rcases ih _ _ ha x hx with h | ⟨y, hy, e, hp⟩
      · exact Or.inl h
      · exact Or.inr ⟨y, List.mem_cons_of_mem _ hy, e, hp⟩
    | stop b => rw [hd] at hx; exact Or.inl hx
    | take b bip =>
      rw [hd] at hx
      rcases ih _ _ (hI _ _ ha) x hx with h | ⟨y, hy, e, hp⟩
      · simp only [List.mem_append, List.mem_singleton] at h
        rcases h with h | h
        · exact Or.inl h
        · exact Or.inr ⟨c, List.mem_cons_self, h, hP i a c b bip ha hd⟩
      · exact Or.inr ⟨y, List.mem_cons_of_mem _ hy, e, hp⟩

/-- `getDataPacketsToRetransmit` puts on the wire only chunks that carry the `retransmit` flag and are not abandoned -/
theorem gatherRtx_sends_flagged (s : St) (orc : Oracle) :
    ∀ x ∈ (gatherRtx s orc).2.1, ∃ c ∈ s.inflight, c.retransmit = true ∧ s.abandoned c = false ∧ x = rtxUpd s c := by
  intro x hx
  have := scanLoop_out s (rtxDecide s orc.allow (rtx_awnd s.cwnd s.rwnd)) (rtxUpd s)
    (fun aband => ∀ m ∈ s.abandonedMsgs, m ∈ aband) (fun c => c.retransmit = true ∧ s.abandoned c = false)
    (fun aband c h m hm => checkPR_sub _ aband c m (h m hm))
    (by
      intro i a c b bip hI hd
      unfold rtxDecide at hd
      split at hd
      · cases hd
      · rename_i h1
        split at hd
        · cases hd
        · rename_i h2
          refine ⟨by simpa using h1, ?_⟩
          cases hab : s.abandoned c with
          | false => rfl
          | true =>
            have : isAbandoned a.aband s.allInflightMsgs c = true := isAbandoned_mono hI (fun _ h => h) rfl hab
            rw [this] at h2; exact absurd rfl h2)
    0 (scanSplit s).2 { b := orc.b, aband := s.abandonedMsgs } (fun _ h => h) x hx
  rcases this with h | ⟨c, hc, e, hp⟩
  · simp at h
  · exact ⟨c, scanSplit_suffix_mem s hc, hp.1, hp.2, e⟩

/-- the fast-retransmit gather never takes a chunk that is acked or abandoned -/
theorem gatherFast_skips_abandoned {B : Type} (s : St) (allow : B → Int → Bool × B) (b : B) :
    ∀ x ∈ (gatherFast s allow b).2, ∃ c ∈ s.inflight, x = fastUpd { s with willRetransmitFast := false } c ∧ c.acked = false ∧ s.abandoned c = false := by
  unfold gatherFast
  split
  · intro x hx; simp at hx
  · intro x hx
    simp only at hx
    have := scanLoop_out { s with willRetransmitFast := false }
      (fastDecide { s with willRetransmitFast := false } allow (fastRtx_wnd s.cfg.mtu s.cfg.fastRtxWnd)) (fastUpd { s with willRetransmitFast := false })
      (fun aband => ∀ m ∈ s.abandonedMsgs, m ∈ aband) (fun c => c.acked = false ∧ s.abandoned c = false)
      (fun aband c h m hm => checkPR_sub _ aband c m (h m hm))
      (by
        intro i a c b' bip hI hd
        unfold fastDecide at hd
        split at hd
        · cases hd
        · rename_i h
          simp only [Bool.or_eq_true, not_or, Bool.not_eq_true] at h
          refine ⟨h.1, ?_⟩
          cases hab : s.abandoned c with
          | false => rfl
          | true =>
            have : isAbandoned a.aband s.allInflightMsgs c = true := isAbandoned_mono hI (fun _ h => h) rfl hab
            rw [h.2] at this; cases this)
      0 (scanSplit { s with willRetransmitFast := false }).2 { b := b, size := hdr, aband := s.abandonedMsgs } (fun _ h => h) x hx
    rcases this with h | ⟨c, hc, e, hp⟩
    · simp at h
    · exact ⟨c, scanSplit_suffix_mem { s with willRetransmitFast := false } hc, e, hp⟩

end SenderProofs
