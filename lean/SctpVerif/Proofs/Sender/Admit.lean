import SctpVerif.Proofs.Sender.Window
/-! The ghost `Admit` records of a gather are exactly the chunks it appended to the in-flight queue, in order. -/
namespace SenderProofs
open Gen Sender

theorem popLoop_inflight {B : Type} (allow : B → Int → Bool × B) (fuel : Nat) (s : St) (sel : List Nat) (a : PopAcc B) :
    ∃ new : List Admit, (popLoop allow fuel s sel a).2.2.admits = a.admits ++ new ∧
      (popLoop allow fuel s sel a).1.inflight = s.inflight ++ new.map (·.chunk) := by
  induction fuel generalizing s sel a with
  | zero => exact ⟨[], by simp [popLoop], by simp [popLoop]⟩
  | succ fuel ih =>
    simp only [popLoop]
    cases hp : peek s sel with
    | none => exact ⟨[], by simp, by simp⟩
    | some ic =>
      obtain ⟨i, c⟩ := ic
      simp only
      split
      · obtain ⟨new, h1, h2⟩ := ih (popPend s i c) sel.tail { a with sisToReset := a.sisToReset ++ [c.si] }
        exact ⟨new, h1, h2⟩
      · cases hd : popDecide s allow a c with
        | skip => exact ⟨[], by simp, by simp⟩
        | stop b => exact ⟨[], by simp, by simp⟩
        | take b bip =>
          simp only
          obtain ⟨new, h1, h2⟩ := ih (admitChunk s i c).1 sel.tail { a with b := b, bip := bip, admits := a.admits ++ [mkAdmit s (admitChunk s i c).2 false] }
          refine ⟨mkAdmit s (admitChunk s i c).2 false :: new, by rw [h1]; simp, ?_⟩
          rw [h2, (admitChunk_frame s i c).2.2.2.2.2.2.2.1]
          simp [mkAdmit]

theorem probe_inflight {B : Type} (allow : B → Int → Bool × B) (s : St) (sel : List Nat) (a : PopAcc B) :
    ∃ new : List Admit, (probe allow s sel a).2.2.admits = a.admits ++ new ∧
      (probe allow s sel a).1.inflight = s.inflight ++ new.map (·.chunk) := by
  unfold probe
  split
  · cases hp : peek s sel with
    | none => exact ⟨[], by simp, by simp⟩
    | some ic =>
      obtain ⟨i, c⟩ := ic
      simp only
      split
      · split
        · split
          · refine ⟨[mkAdmit s (admitProbe s i c).2 true], rfl, ?_⟩
            simp [admitProbe, chargeProbe, move, popPend, mkAdmit]
          · exact ⟨[], by simp, by simp⟩
        · exact ⟨[], by simp, by simp⟩
      · exact ⟨[], by simp, by simp⟩
  · exact ⟨[], by simp, by simp⟩

/-- the chunks a gather newly puts in flight are exactly its `admits`, appended in order (older chunks keep their
identity and payload length; only flags change) -/
theorem gather_inflight (s : St) (orc : Oracle) (sel : List Nat) :
    (gather s orc sel).1.inflight.map Chunk.core = s.inflight.map Chunk.core ++ ((gather s orc sel).2.admits.map (·.chunk)).map Chunk.core := by
  unfold gather
  split
  · simp
  · simp only
    rw [(gatherFast_frame _ orc.allow _).2.2.2.2.2.2.2.2.2.2.2.2]
    have hr := (gatherRtx_frame s orc).2.2.2.2.2.2.2.2.2.2.2.2
    unfold gatherNew
    split
    · simp only
      obtain ⟨n1, a1, b1⟩ := popLoop_inflight orc.allow ((gatherRtx s orc).1.pending.length + 1) (gatherRtx s orc).1 sel { b := (gatherRtx s orc).2.2 }
      obtain ⟨n2, a2, b2⟩ := probe_inflight orc.allow (popLoop orc.allow ((gatherRtx s orc).1.pending.length + 1) (gatherRtx s orc).1 sel { b := (gatherRtx s orc).2.2 }).1
        (popLoop orc.allow ((gatherRtx s orc).1.pending.length + 1) (gatherRtx s orc).1 sel { b := (gatherRtx s orc).2.2 }).2.1
        (popLoop orc.allow ((gatherRtx s orc).1.pending.length + 1) (gatherRtx s orc).1 sel { b := (gatherRtx s orc).2.2 }).2.2
      rw [b2, b1, a2, a1]
      simp [hr]
    · simp [hr]


/-! ### MTU bound of a gather, for ANY state (no invariant needed) -/

theorem popLoop_fit {B : Type} (allow : B → Int → Bool × B) (fuel : Nat) (s : St) (sel : List Nat) (a : PopAcc B)
    (hb : a.bip = 0 ∨ hdr ≤ a.bip) (hfit : AllFit s.cfg.mtu s.cfg.useInterleaving (a.admits.map (·.chunk))) :
    (popLoop allow fuel s sel a).1.cfg = s.cfg ∧
    AllFit s.cfg.mtu s.cfg.useInterleaving ((popLoop allow fuel s sel a).2.2.admits.map (·.chunk)) := by
  induction fuel generalizing s sel a with
  | zero => exact ⟨rfl, hfit⟩
  | succ fuel ih =>
    simp only [popLoop]
    cases hp : peek s sel with
    | none => exact ⟨rfl, hfit⟩
    | some ic =>
      obtain ⟨i, c⟩ := ic
      simp only
      split
      · exact ih (popPend s i c) sel.tail { a with sisToReset := a.sisToReset ++ [c.si] } hb hfit
      · cases hd : popDecide s allow a c with
        | skip => exact ⟨rfl, hfit⟩
        | stop b => exact ⟨rfl, hfit⟩
        | take b bip =>
          simp only
          obtain ⟨hf1, hf2⟩ := popDecide_fits s allow a c hb hd
          obtain ⟨_, _, _, _, _, g6, g7, _⟩ := admitChunk_frame s i c
          have hfit' : AllFit (admitChunk s i c).1.cfg.mtu (admitChunk s i c).1.cfg.useInterleaving
              (({ a with b := b, bip := bip, admits := a.admits ++ [mkAdmit s (admitChunk s i c).2 false] } : PopAcc B).admits.map (·.chunk)) := by
            rw [g6]
            simp only [List.map_append, List.map_cons, List.map_nil]
            exact allFit_snoc hfit (by show hdr + Chunk.sizeInPacket _ (admitChunk s i c).2 ≤ _; rw [sip_congr _ _ _ g7]; exact hf1)
          obtain ⟨t1, t2⟩ := ih (admitChunk s i c).1 sel.tail _ (Or.inr hf2) hfit'
          rw [g6] at t1 t2
          exact ⟨t1, t2⟩

theorem probe_fit {B : Type} (allow : B → Int → Bool × B) (s : St) (sel : List Nat) (a : PopAcc B)
    (hfit : AllFit s.cfg.mtu s.cfg.useInterleaving (a.admits.map (·.chunk))) :
    AllFit s.cfg.mtu s.cfg.useInterleaving ((probe allow s sel a).2.2.admits.map (·.chunk)) := by
  unfold probe
  split
  · cases hp : peek s sel with
    | none => exact hfit
    | some ic =>
      obtain ⟨i, c⟩ := ic
      simp only
      split
      · split
        · rename_i hsz
          split
          · simp only [List.map_append, List.map_cons, List.map_nil]
            refine allFit_snoc hfit ?_
            show hdr + Chunk.sizeInPacket _ (admitProbe s i c).2 ≤ _
            rw [sip_congr _ _ _ (admitProbe_frame s i c).2.2.2.2.2.2]
            simpa [popPending_probeAllowedSize] using hsz
          · exact hfit
        · exact hfit
      · exact hfit
  · exact hfit

theorem probe_cfg {B : Type} (allow : B → Int → Bool × B) (s : St) (sel : List Nat) (a : PopAcc B) :
    (probe allow s sel a).1.cfg = s.cfg := by
  unfold probe
  split
  · cases hp : peek s sel with
    | none => rfl
    | some ic =>
      obtain ⟨i, c⟩ := ic
      simp only
      split
      · split
        · split
          · exact (admitProbe_frame s i c).2.2.2.2.2.1
          · rfl
        · rfl
      · rfl
  · rfl

theorem gatherNew_fit {B : Type} (allow : B → Int → Bool × B) (b : B) (s : St) (sel : List Nat) :
    (gatherNew s allow b sel).1.cfg = s.cfg ∧
    AllFit s.cfg.mtu s.cfg.useInterleaving ((gatherNew s allow b sel).2.admits.map (·.chunk)) := by
  unfold gatherNew
  split
  · simp only
    obtain ⟨p1, p2⟩ := popLoop_fit allow (s.pending.length + 1) s sel { b := b } (Or.inl rfl) (allFit_nil _ _)
    have q := probe_fit allow (popLoop allow (s.pending.length + 1) s sel { b := b }).1 (popLoop allow (s.pending.length + 1) s sel { b := b }).2.1
      (popLoop allow (s.pending.length + 1) s sel { b := b }).2.2 (by rw [p1]; exact p2)
    rw [p1] at q
    exact ⟨(probe_cfg allow _ _ _).trans p1, q⟩
  · exact ⟨rfl, allFit_nil _ _⟩

/-- every packet of a gather is non-empty and within the MTU, whatever the state and the oracles -/
theorem gather_packets_fit (s : St) (orc : Oracle) (sel : List Nat) :
    ∀ p ∈ (gather s orc sel).2.packets, p ≠ [] ∧ marshalLen s.cfg.useInterleaving p ≤ (s.cfg.mtu.toNat : Int) := by
  unfold gather
  split
  · intro p hp; simp [GatherOut.packets] at hp
  · intro p hp
    simp only [GatherOut.packets, List.mem_append] at hp
    have a6 := (gatherRtx_frame s orc).2.2.2.2.2.1
    have hfitR := gatherRtx_fit s orc
    obtain ⟨n3, hfitN⟩ := gatherNew_fit orc.allow (gatherRtx s orc).2.2 (gatherRtx s orc).1 sel
    rw [a6] at hfitN n3
    have hfitF := gatherFast_fit (gatherNew (gatherRtx s orc).1 orc.allow (gatherRtx s orc).2.2 sel).1 orc.allow
        (gatherNew (gatherRtx s orc).1 orc.allow (gatherRtx s orc).2.2 sel).2.b
    rw [n3] at hfitF
    have fin : ∀ l : List Chunk, AllFit s.cfg.mtu s.cfg.useInterleaving l → p ∈ bundle s.cfg.mtu s.cfg.useInterleaving l [] hdr →
        p ≠ [] ∧ marshalLen s.cfg.useInterleaving p ≤ (s.cfg.mtu.toNat : Int) := by
      intro l hl hp
      refine ⟨bundle_nonempty _ _ l [] hdr (by simp [sipSum]) hl (Or.inr rfl) p hp, ?_⟩
      rw [marshalLen_eq]
      refine bundle_fits _ _ l [] hdr (by simp [sipSum]) ?_ hl p hp
      simp only [sipSum, hdr, commonHeaderSize]
      by_cases hl0 : l = []
      · subst hl0; simp [bundle] at hp
      · obtain ⟨c, hc⟩ := List.exists_mem_of_ne_nil l hl0
        have := hl c hc
        have := (sizeInPacket_nonneg s.cfg.useInterleaving c).1
        simp only [hdr, commonHeaderSize] at *
        omega
    rcases hp with (hp | hp) | hp
    · exact fin _ hfitR hp
    · split at hp
      · simp at hp
      · exact fin _ hfitN hp
    · split at hp
      · simp at hp
      · exact fin _ hfitF hp

end SenderProofs
