import SctpVerif.Proofs.Sender.Still
/-!
TSN assignment. `moved s ops` = the chunks `movePendingDataChunkToInflightQueue` moved from the pending queue to in
flight along a run, in order. Along EVERY run (any SACK contents, any oracle values, any configuration):

* the `j`-th moved chunk got TSN `t0 + j` (`t0` = `myNextTSN` at the start), and `myNextTSN` counts the moves;
* every chunk in flight and every chunk ANY gather ever put on the wire (first transmission, T3 / RACK / PTO
  retransmission, fast retransmission) has the TSN and the fragment identity of a moved chunk: a retransmission
  never changes the TSN of a fragment, never puts a fragment under another TSN;
* the chunks written so far are, as a multiset of fragment identities, the pending chunks, the moved chunks and
  the (empty) chunks dropped from the pending queue: every written chunk is moved AT MOST ONCE — it gets at most
  one TSN.
-/
namespace SenderTsn
open SenderProofs
open Gen Sender

abbrev Frag := BitVec 16 × Nat × BitVec 32 × Bool × Bool × Bool × BitVec 16 × BitVec 32 × BitVec 32

/-- same multiset of fragment identities (stated by counting, for every predicate) -/
def CntEq (l l' : List Chunk) : Prop := ∀ q : Frag → Bool, (l.map Chunk.frag).countP q = (l'.map Chunk.frag).countP q

theorem CntEq.refl (l : List Chunk) : CntEq l l := fun _ => rfl

theorem countP_eraseIdx_frag {l : List Chunk} {i : Nat} {c : Chunk} (h : l[i]? = some c) (q : Frag → Bool) :
    (l.map Chunk.frag).countP q = ((l.eraseIdx i).map Chunk.frag).countP q + (if q (Chunk.frag c) then 1 else 0) := by
  induction l generalizing i with
  | nil => simp at h
  | cons x r ih =>
    cases i with
    | zero =>
      simp only [List.getElem?_cons_zero, Option.some.injEq] at h
      subst h
      simp only [List.map_cons, List.countP_cons, List.eraseIdx_zero, List.tail_cons]
    | succ n =>
      simp only [List.getElem?_cons_succ] at h
      simp only [List.map_cons, List.countP_cons, List.eraseIdx_cons_succ, ih h]
      omega

/-- `s'` results from `s` by moving the chunks `A`, in this order, from the pending queue to in flight
(and dropping some chunks from the pending queue) -/
structure Moves (s s' : St) (A : List Chunk) : Prop where
  cfg : s'.cfg = s.cfg
  msg : s'.nextMsg = s.nextMsg
  est : s'.established = s.established
  str : s'.streams = s.streams
  inf : s'.inflight = s.inflight ++ A
  next : s'.myNextTSN = s.myNextTSN + BitVec.ofNat 32 A.length
  tsn : ∀ j m, A[j]? = some m → m.tsn = s.myNextTSN + BitVec.ofNat 32 j
  cnt : ∃ D, CntEq s.pending (s'.pending ++ A ++ D)

theorem Moves.refl (s : St) : Moves s s [] :=
  ⟨rfl, rfl, rfl, rfl, by simp, by simp, fun j m h => by simp at h, ⟨[], by simpa using CntEq.refl _⟩⟩

theorem Moves.trans {a b c : St} {A B : List Chunk} (h1 : Moves a b A) (h2 : Moves b c B) : Moves a c (A ++ B) := by
  refine ⟨h2.cfg.trans h1.cfg, h2.msg.trans h1.msg, h2.est.trans h1.est, h2.str.trans h1.str, ?_, ?_, ?_, ?_⟩
  · rw [h2.inf, h1.inf, List.append_assoc]
  · rw [h2.next, h1.next, List.length_append, BitVec.ofNat_add, BitVec.add_assoc]
  · intro j m hj
    by_cases hlt : j < A.length
    · rw [List.getElem?_append_left hlt] at hj
      exact h1.tsn j m hj
    · rw [List.getElem?_append_right (by omega)] at hj
      rw [h2.tsn _ m hj, h1.next, BitVec.add_assoc, ← BitVec.ofNat_add]
      congr 2
      omega
  · obtain ⟨D1, c1⟩ := h1.cnt
    obtain ⟨D2, c2⟩ := h2.cnt
    refine ⟨D1 ++ D2, fun q => ?_⟩
    have e1 := c1 q
    have e2 := c2 q
    simp only [List.map_append, List.countP_append] at e1 e2 ⊢
    omega

/-- the left state may be replaced by one that agrees on what `Moves` reads -/
theorem Moves.congr_left {s0 s s' : St} {A : List Chunk} (h : Moves s s' A) (h1 : s.cfg = s0.cfg) (h2 : s.nextMsg = s0.nextMsg)
    (h3 : s.streams = s0.streams) (h4 : s.inflight = s0.inflight) (h5 : s.myNextTSN = s0.myNextTSN) (h6 : s.pending = s0.pending)
    (h7 : s.established = s0.established) :
    Moves s0 s' A :=
  ⟨h.cfg.trans h1, h.msg.trans h2, h.est.trans h7, h.str.trans h3, by rw [h.inf, h4], by rw [h.next, h5], fun j m hj => by rw [h.tsn j m hj, h5],
   by obtain ⟨D, c⟩ := h.cnt; exact ⟨D, by rw [← h6]; exact c⟩⟩

theorem popPend_moves (s : St) (i : Nat) (c : Chunk) (hp : s.pending[i]? = some c) : Moves s (popPend s i c) [] := by
  refine ⟨rfl, rfl, rfl, rfl, by simp [popPend], by simp [popPend], fun j m h => by simp at h, ⟨[c], fun q => ?_⟩⟩
  have := countP_eraseIdx_frag hp q
  simp only [popPend, List.append_nil, List.map_append, List.countP_append, List.map_cons, List.map_nil, List.countP_cons,
    List.countP_nil] at this ⊢
  omega

theorem move_moves (s : St) (i : Nat) (c : Chunk) (hp : s.pending[i]? = some c) : Moves s (move s i c).1 [(move s i c).2] := by
  refine ⟨rfl, rfl, rfl, rfl, (move_frame s i c).2.2.2.2.2.2.2.1, ?_, ?_, ⟨[], fun q => ?_⟩⟩
  · simp [move, popPend]
  · intro j m hj
    cases j with
    | zero =>
      simp only [List.getElem?_cons_zero, Option.some.injEq] at hj
      subst hj
      simp [move, popPend]
    | succ n => simp at hj
  · have := countP_eraseIdx_frag hp q
    have hf : Chunk.frag (move s i c).2 = Chunk.frag c := rfl
    simp only [List.append_nil, List.map_append, List.countP_append, List.map_cons, List.map_nil, List.countP_cons,
      List.countP_nil, hf] at this ⊢
    have hpen : (move s i c).1.pending = s.pending.eraseIdx i := rfl
    rw [hpen]
    omega

theorem popLoop_moves {B : Type} (allow : B → Int → Bool × B) (fuel : Nat) (s : St) (sel : List Nat) (a : PopAcc B) :
    ∃ A, Moves s (popLoop allow fuel s sel a).1 A ∧
      (popLoop allow fuel s sel a).2.2.admits.map (·.chunk) = a.admits.map (·.chunk) ++ A := by
  induction fuel generalizing s sel a with
  | zero => exact ⟨[], Moves.refl s, by simp [popLoop]⟩
  | succ fuel ih =>
    simp only [popLoop]
    cases hp : peek s sel with
    | none => exact ⟨[], Moves.refl s, by simp⟩
    | some ic =>
      obtain ⟨i, c⟩ := ic
      have hpc := peek_some hp
      simp only
      split
      · obtain ⟨A, h1, h2⟩ := ih (popPend s i c) sel.tail { a with sisToReset := a.sisToReset ++ [c.si] }
        exact ⟨A, by simpa using (popPend_moves s i c hpc).trans h1, h2⟩
      · cases hd : popDecide s allow a c with
        | skip => exact ⟨[], Moves.refl s, by simp⟩
        | stop b => exact ⟨[], Moves.refl s, by simp⟩
        | take b bip =>
          simp only
          have hst : Moves s (admitChunk s i c).1 [(admitChunk s i c).2] :=
            (move_moves (chargeSend s c) i c hpc).congr_left rfl rfl rfl rfl rfl rfl rfl
          obtain ⟨A, h1, h2⟩ := ih (admitChunk s i c).1 sel.tail
            { a with b := b, bip := bip, admits := a.admits ++ [mkAdmit s (admitChunk s i c).2 false] }
          refine ⟨(admitChunk s i c).2 :: A, by simpa using hst.trans h1, ?_⟩
          rw [h2]
          simp [mkAdmit]

theorem probe_moves {B : Type} (allow : B → Int → Bool × B) (s : St) (sel : List Nat) (a : PopAcc B) :
    ∃ A, Moves s (probe allow s sel a).1 A ∧
      (probe allow s sel a).2.2.admits.map (·.chunk) = a.admits.map (·.chunk) ++ A := by
  unfold probe
  split
  · cases hp : peek s sel with
    | none => exact ⟨[], Moves.refl s, by simp⟩
    | some ic =>
      obtain ⟨i, c⟩ := ic
      have hpc := peek_some hp
      simp only
      split
      · split
        · split
          · refine ⟨[(admitProbe s i c).2], (move_moves (chargeProbe s c) i c hpc).congr_left rfl rfl rfl rfl rfl rfl rfl, ?_⟩
            simp [mkAdmit]
          · exact ⟨[], Moves.refl s, by simp⟩
        · exact ⟨[], Moves.refl s, by simp⟩
      · exact ⟨[], Moves.refl s, by simp⟩
  · exact ⟨[], Moves.refl s, by simp⟩

theorem gatherNew_moves {B : Type} (allow : B → Int → Bool × B) (b : B) (s : St) (sel : List Nat) :
    Moves s (gatherNew s allow b sel).1 ((gatherNew s allow b sel).2.admits.map (·.chunk)) := by
  unfold gatherNew
  split
  · obtain ⟨A1, h1, e1⟩ := popLoop_moves allow (s.pending.length + 1) s sel { b := b }
    obtain ⟨A2, h2, e2⟩ := probe_moves allow (popLoop allow (s.pending.length + 1) s sel { b := b }).1
      (popLoop allow (s.pending.length + 1) s sel { b := b }).2.1 (popLoop allow (s.pending.length + 1) s sel { b := b }).2.2
    simp only
    rw [e2, e1]
    simpa using h1.trans h2
  · simpa using Moves.refl s

/-! ## `bundle` only groups (converse of `bundle_flatten`) -/

theorem bundle_all (mtu : BitVec 32) (il : Bool) (chunks cur : List Chunk) (bip : Int) :
    ∀ e, e ∈ cur ∨ e ∈ chunks → e ∈ (bundle mtu il chunks cur bip).flatten := by
  induction chunks generalizing cur bip with
  | nil =>
    intro e he
    rcases he with h | h
    · simp only [bundle]
      split
      · rename_i hc; simp at hc; subst hc; cases h
      · simpa using h
    · cases h
  | cons c rest ih =>
    intro e he
    simp only [bundle]
    split
    · simp only [List.flatten_cons, List.mem_append]
      rcases he with h | h
      · exact Or.inl h
      · rcases List.mem_cons.1 h with h | h
        · exact Or.inr (ih [c] _ e (Or.inl (by simp [h])))
        · exact Or.inr (ih [c] _ e (Or.inr h))
    · rcases he with h | h
      · exact ih _ _ e (Or.inl (List.mem_append_left _ h))
      · rcases List.mem_cons.1 h with h | h
        · exact ih _ _ e (Or.inl (by simp [h]))
        · exact ih _ _ e (Or.inr h)

/-! ## runs -/

def movedBy (s : St) : Op → List Chunk
  | .gather orc sel => (gather s orc sel).2.admits.map (·.chunk)
  | _ => []

/-- every chunk moved from pending to in flight along the run, in order (= in TSN order) -/
def moved : St → List Op → List Chunk
  | _, [] => []
  | s, op :: ops => movedBy s op ++ moved (step s op) ops

/-- `e` carries the TSN and the fragment identity of a moved chunk -/
def FromMoved (mv : List Chunk) (e : Chunk) : Prop := ∃ m ∈ mv, m.tsn = e.tsn ∧ Chunk.frag m = Chunk.frag e

theorem FromMoved.mono {mv mv' : List Chunk} {e : Chunk} (h : FromMoved mv e) (hs : ∀ m ∈ mv, m ∈ mv') : FromMoved mv' e := by
  obtain ⟨m, hm, r⟩ := h
  exact ⟨m, hs m hm, r⟩

structure MInv (t0 : BitVec 32) (W mv : List Chunk) (s : St) : Prop where
  next : s.myNextTSN = t0 + BitVec.ofNat 32 mv.length
  tsn : ∀ j m, mv[j]? = some m → m.tsn = t0 + BitVec.ofNat 32 j
  inf : ∀ x ∈ s.inflight, FromMoved mv x
  cnt : ∃ D, CntEq W (s.pending ++ mv ++ D)

theorem MInv.still {t0 : BitVec 32} {W mv : List Chunk} {s s' : St} (h : MInv t0 W mv s) (hq : Still s s') : MInv t0 W mv s' := by
  refine ⟨by rw [hq.q.next]; exact h.next, h.tsn, fun x hx => ?_, by rw [hq.q.pen]; exact h.cnt⟩
  obtain ⟨c, hc, t, f⟩ := hq.k x hx
  obtain ⟨m, hm, t', f'⟩ := h.inf c hc
  exact ⟨m, hm, t'.trans t, f'.trans f⟩

theorem MInv.moves {t0 : BitVec 32} {W mv A : List Chunk} {s s' : St} (h : MInv t0 W mv s) (hm : Moves s s' A) :
    MInv t0 W (mv ++ A) s' := by
  refine ⟨?_, ?_, ?_, ?_⟩
  · rw [hm.next, h.next, List.length_append, BitVec.ofNat_add, BitVec.add_assoc]
  · intro j m hj
    by_cases hlt : j < mv.length
    · rw [List.getElem?_append_left hlt] at hj
      exact h.tsn j m hj
    · rw [List.getElem?_append_right (by omega)] at hj
      rw [hm.tsn _ m hj, h.next, BitVec.add_assoc, ← BitVec.ofNat_add]
      congr 2
      omega
  · intro x hx
    rw [hm.inf, List.mem_append] at hx
    rcases hx with hx | hx
    · exact (h.inf x hx).mono (fun m hm => List.mem_append_left _ hm)
    · exact ⟨x, List.mem_append_right _ hx, rfl, rfl⟩
  · obtain ⟨D1, c1⟩ := h.cnt
    obtain ⟨D2, c2⟩ := hm.cnt
    refine ⟨D1 ++ D2, fun q => ?_⟩
    have e1 := c1 q
    have e2 := c2 q
    simp only [List.map_append, List.countP_append] at e1 e2 ⊢
    omega

theorem write_myNextTSN (s : St) (si : BitVec 16) (ppi : BitVec 32) (len : Nat) :
    (write s si ppi len).1.myNextTSN = s.myNextTSN ∧ (write s si ppi len).1.cfg = s.cfg := by
  unfold write
  cases hs : s.streams si with
  | none => exact ⟨rfl, rfl⟩
  | some st =>
    simp only
    split
    · exact ⟨rfl, rfl⟩
    · split
      · exact ⟨rfl, rfl⟩
      · split
        · exact ⟨rfl, rfl⟩
        · split <;> exact ⟨rfl, rfl⟩

/-- what one `gather` does: quiet, then moves, then quiet -/
theorem gather_minv {t0 : BitVec 32} {W mv : List Chunk} (s : St) (orc : Oracle) (sel : List Nat) (h : MInv t0 W mv s) :
    MInv t0 W (mv ++ (gather s orc sel).2.admits.map (·.chunk)) (gather s orc sel).1 ∧
    (gather s orc sel).1.cfg = s.cfg ∧
    ∀ e ∈ (gather s orc sel).2.packets.flatten, FromMoved (mv ++ (gather s orc sel).2.admits.map (·.chunk)) e := by
  unfold gather
  split
  · simp only [List.map_nil, List.append_nil]
    exact ⟨h, trivial, fun e he => by simp [GatherOut.packets] at he⟩
  · obtain ⟨q1, e1⟩ := gatherRtx_still s orc
    have i1 := h.still q1
    have m2 := gatherNew_moves orc.allow (gatherRtx s orc).2.2 (gatherRtx s orc).1 sel
    have i2 := i1.moves m2
    obtain ⟨q3, e3⟩ := gatherFast_still (gatherNew (gatherRtx s orc).1 orc.allow (gatherRtx s orc).2.2 sel).1 orc.allow
      (gatherNew (gatherRtx s orc).1 orc.allow (gatherRtx s orc).2.2 sel).2.b
    have i3 := i2.still q3
    refine ⟨⟨i3.next, i3.tsn, i3.inf, i3.cnt⟩, ?_, fun e he => ?_⟩
    · show (gatherFast _ _ _).1.cfg = s.cfg
      rw [q3.q.cfg, m2.cfg, q1.q.cfg]
    · simp only [GatherOut.packets, List.flatten_append, List.mem_append] at he
      rcases he with (he | he) | he
      · rcases bundle_flatten _ _ _ _ _ e he with hc | hc
        · cases hc
        · obtain ⟨c, hc', t, f⟩ := e1 e hc
          obtain ⟨m, hm, t', f'⟩ := h.inf c hc'
          exact ⟨m, List.mem_append_left _ hm, t'.trans t, f'.trans f⟩
      · split at he
        · cases he
        · rcases bundle_flatten _ _ _ _ _ e he with hc | hc
          · cases hc
          · exact ⟨e, List.mem_append_right _ hc, rfl, rfl⟩
      · split at he
        · cases he
        · rcases bundle_flatten _ _ _ _ _ e he with hc | hc
          · cases hc
          · obtain ⟨c, hc', t, f⟩ := e3 e hc
            obtain ⟨m, hm, t', f'⟩ := i2.inf c hc'
            exact ⟨m, hm, t'.trans t, f'.trans f⟩

theorem step_minv {t0 : BitVec 32} {W mv : List Chunk} (s : St) (op : Op) (h : MInv t0 W mv s) :
    MInv t0 (W ++ writtenBy s op) (mv ++ movedBy s op) (step s op) ∧ (step s op).cfg = s.cfg ∧
    ∀ e ∈ emittedBy s op, FromMoved (mv ++ movedBy s op) e := by
  cases op with
  | openS si u rt rv th =>
    simp only [writtenBy, movedBy, emittedBy, List.append_nil]
    exact ⟨⟨h.next, h.tsn, h.inf, h.cnt⟩, rfl, fun e he => by cases he⟩
  | unreg si =>
    simp only [writtenBy, movedBy, emittedBy, List.append_nil, step, unregister]
    split
    · exact ⟨h, rfl, fun e he => by cases he⟩
    · exact ⟨⟨h.next, h.tsn, h.inf, h.cnt⟩, rfl, fun e he => by cases he⟩
  | setEstablished b =>
    simp only [writtenBy, movedBy, emittedBy, List.append_nil]
    exact ⟨⟨h.next, h.tsn, h.inf, h.cnt⟩, rfl, fun e he => by cases he⟩
  | write si ppi len =>
    simp only [writtenBy, movedBy, emittedBy, List.append_nil, step]
    obtain ⟨w1, w2⟩ := write_queues s si ppi len
    obtain ⟨w3, w4⟩ := write_myNextTSN s si ppi len
    refine ⟨⟨by rw [w3]; exact h.next, h.tsn, by rw [w1]; exact h.inf, ?_⟩, w4, fun e he => by cases he⟩
    obtain ⟨D, c⟩ := h.cnt
    refine ⟨D, fun q => ?_⟩
    have := c q
    rw [w2]
    simp only [List.map_append, List.countP_append] at this ⊢
    omega
  | gather orc sel =>
    simp only [writtenBy, movedBy, emittedBy, List.append_nil, step]
    exact gather_minv s orc sel h
  | sack cum arwnd gaps marks =>
    simp only [writtenBy, movedBy, emittedBy, List.append_nil, step]
    have q := sack_still s cum arwnd gaps marks
    exact ⟨h.still q, q.q.cfg, fun e he => by cases he⟩
  | t3 =>
    simp only [writtenBy, movedBy, emittedBy, List.append_nil, step]
    exact ⟨h.still (t3_still s), (t3_still s).q.cfg, fun e he => by cases he⟩
  | tick ms n marks =>
    simp only [writtenBy, movedBy, emittedBy, List.append_nil, step]
    exact ⟨h.still (tick_still s ms n marks), (tick_still s ms n marks).q.cfg, fun e he => by cases he⟩

theorem run_minv {t0 : BitVec 32} {W mv : List Chunk} (s : St) (ops : List Op) (h : MInv t0 W mv s) :
    MInv t0 (W ++ written s ops) (mv ++ moved s ops) (run s ops) ∧ (run s ops).cfg = s.cfg ∧
    ∀ e ∈ wire s ops, FromMoved (mv ++ moved s ops) e := by
  induction ops generalizing W mv s with
  | nil => simp only [written, moved, wire, List.append_nil, run]; exact ⟨h, trivial, fun e he => by cases he⟩
  | cons op ops ih =>
    obtain ⟨h1, h2, h3⟩ := step_minv s op h
    obtain ⟨i1, i2, i3⟩ := ih (step s op) h1
    simp only [written, moved, wire, run]
    rw [← List.append_assoc, ← List.append_assoc]
    refine ⟨i1, i2.trans h2, fun e he => ?_⟩
    rcases List.mem_append.1 he with he | he
    · exact (h3 e he).mono (fun m hm => List.mem_append_left _ hm)
    · exact i3 e he

theorem init_minv (cfg : Cfg) (tsn peerRwnd : BitVec 32) : MInv tsn [] [] (init cfg tsn peerRwnd) :=
  ⟨by simp [init], fun j m h => by simp at h, fun x hx => by simp [init] at hx, ⟨[], fun q => by simp [init]⟩⟩

/-- **TSN assignment along every run from `init`.** -/
theorem run_tsn (cfg : Cfg) (tsn peerRwnd : BitVec 32) (ops : List Op) :
    let mv := moved (init cfg tsn peerRwnd) ops
    (run (init cfg tsn peerRwnd) ops).cfg = cfg ∧
    (run (init cfg tsn peerRwnd) ops).myNextTSN = tsn + BitVec.ofNat 32 mv.length ∧
    (∀ j m, mv[j]? = some m → m.tsn = tsn + BitVec.ofNat 32 j) ∧
    (∀ e ∈ wire (init cfg tsn peerRwnd) ops, FromMoved mv e) ∧
    (∃ D, CntEq (written (init cfg tsn peerRwnd) ops) ((run (init cfg tsn peerRwnd) ops).pending ++ mv ++ D)) := by
  obtain ⟨h1, h2, h3⟩ := run_minv (init cfg tsn peerRwnd) ops (init_minv cfg tsn peerRwnd)
  simp only [List.nil_append] at h1 h3
  exact ⟨h2, h1.next, h1.tsn, h3, h1.cnt⟩

/-- no fragment identity occurs more often among the moved chunks than among the written ones -/
theorem moved_count_le (cfg : Cfg) (tsn peerRwnd : BitVec 32) (ops : List Op) (q : Frag → Bool) :
    ((moved (init cfg tsn peerRwnd) ops).map Chunk.frag).countP q ≤ ((written (init cfg tsn peerRwnd) ops).map Chunk.frag).countP q := by
  obtain ⟨D, c⟩ := (run_tsn cfg tsn peerRwnd ops).2.2.2.2
  have := c q
  simp only [List.map_append, List.countP_append] at this
  omega

end SenderTsn
