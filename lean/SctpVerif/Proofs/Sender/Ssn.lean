import SctpVerif.Model.NetSys
import SctpVerif.Proofs.Sender.Moved
import SctpVerif.Proofs.Sender.Cfg
/-!
SSN / MID assignment. In runs in which every stream is opened ordered and none is unregistered (`OrdOps`), the chunks
created by the writes of a run are exactly `gen` of the ACCEPTED writes: the `k`-th accepted write on a stream (counted
from 0) creates the fragments `grp … k` — SSN `k mod 2^16` (DATA), MID `k mod 2^32` and SSN = its low 16 bits
(I-DATA), FSN `i`, `B` on the first, `E` on the last, lengths `fragSizes`. Rejected writes (no such stream, too large,
empty, not established — the last one rolls the counters back) consume no sequence number.
-/
namespace SenderTsn
open SenderProofs
open Gen Sender
open NetSys (Write accepts)

def cntOf (ws : List Write) (si : BitVec 16) : Nat := (ws.filter (·.si == si)).length

/-- the chunks the `k`-th accepted ordered write on its stream creates (payload length `len`) -/
def grp (il : Bool) (mp len k : Nat) (a : Write) : List Chunk :=
  mkChunks a.si a.msg a.ppi false (if il then BitVec.setWidth 16 (BitVec.ofNat 32 k) else BitVec.ofNat 16 k)
    (if il then BitVec.ofNat 32 k else 0) (fragSizes mp len) 0 true

/-- the chunks a list of accepted writes creates, `pre` = the accepted writes before them -/
def gen (il : Bool) (mp : Nat) (lenOf : Nat → Nat) : List Write → List Write → List Chunk
  | _, [] => []
  | pre, a :: r => grp il mp (lenOf a.msg) (cntOf pre a.si) a ++ gen il mp lenOf (pre ++ [a]) r

def accBy (s : St) : Op → List Write
  | .write si ppi len => if accepts s si ppi len then [⟨si, ppi, s.nextMsg⟩] else []
  | _ => []

/-- the accepted writes of a run, in order -/
def accepted : St → List Op → List Write
  | _, [] => []
  | s, op :: ops => accBy s op ++ accepted (step s op) ops

/-- every stream is opened ordered, none is unregistered -/
def OrdOp : Op → Prop
  | .openS _ u _ _ _ => u = false
  | .unreg _ => False
  | _ => True

/-- every write carries the length the ghost assigns to its message identity -/
def LenOp (lenOf : Nat → Nat) (s : St) : Op → Prop
  | .write _ _ len => len = lenOf s.nextMsg
  | _ => True

def LenOk (lenOf : Nat → Nat) : St → List Op → Prop
  | _, [] => True
  | s, op :: ops => LenOp lenOf s op ∧ LenOk lenOf (step s op) ops

/-- the sequence counters of every stream object count the accepted writes on it -/
def CInv (il : Bool) (ws : List Write) (s : St) : Prop :=
  ∀ si, match s.streams si with
    | none => cntOf ws si = 0
    | some st => st.registered = true ∧ st.unordered = false ∧
        (il = true → st.nextOrderedMID = BitVec.ofNat 32 (cntOf ws si)) ∧ (il = false → st.ssn = BitVec.ofNat 16 (cntOf ws si))

theorem CInv.of_sk {il : Bool} {ws : List Write} {s s' : St} (h : CInv il ws s)
    (hs : ∀ si, (s'.streams si).map Stream.sk = (s.streams si).map Stream.sk) : CInv il ws s' := by
  intro si
  have h1 := h si
  have h2 := hs si
  cases hs' : s'.streams si with
  | none =>
    cases hss : s.streams si with
    | none => simpa [hss] using h1
    | some st => simp [hs', hss] at h2
  | some st' =>
    cases hss : s.streams si with
    | none => simp [hs', hss] at h2
    | some st =>
      simp only [hs', hss, Option.map_some, Option.some.injEq, Stream.sk, Prod.mk.injEq] at h2
      simp only [hss] at h1
      obtain ⟨e1, e2, _, e4, e5, _⟩ := h2
      simp only
      rw [e1, e2, e4, e5]
      exact h1

theorem gather_str (s : St) (orc : Oracle) (sel : List Nat) : (gather s orc sel).1.streams = s.streams := by
  unfold gather
  split
  · rfl
  · show (gatherFast _ _ _).1.streams = s.streams
    rw [(gatherFast_frame _ orc.allow _).2.2.2.2.2.2.1, (gatherNew_moves orc.allow _ _ sel).str]
    exact (gatherRtx_frame s orc).2.2.2.2.2.2.1

theorem write_err (s : St) (si : BitVec 16) (ppi : BitVec 32) (len : Nat) :
    (write s si ppi len).2.2 = match s.streams si with
      | none => .noStream
      | some _ => if len > s.cfg.maxMessageSize.toNat then .tooLarge else if len = 0 then .none
          else if s.cfg.maxPayload = 0 then .hang else if s.established then .none else .notEstablished := by
  unfold write
  cases hs : s.streams si with
  | none => rfl
  | some st =>
    simp only
    split
    · rfl
    · split
      · rfl
      · split
        · rfl
        · split <;> rfl

theorem accepts_iff (s : St) (si : BitVec 16) (ppi : BitVec 32) (len : Nat) :
    accepts s si ppi len = true ↔
      ∃ st, s.streams si = some st ∧ ¬ len > s.cfg.maxMessageSize.toNat ∧ len ≠ 0 ∧ s.cfg.maxPayload ≠ 0 ∧ s.established = true := by
  unfold accepts
  rw [write_err]
  cases hs : s.streams si with
  | none => simp
  | some st =>
    simp only
    by_cases h1 : len > s.cfg.maxMessageSize.toNat
    · simp [h1]
    · by_cases h2 : len = 0
      · simp [h2]
      · by_cases hmp : s.cfg.maxPayload = 0#32
        · simp [h1, h2, hmp]
        · cases he : s.established <;> simp [h1, h2, hmp]

/-- a rejected write creates nothing and leaves every stream object as it was -/
theorem write_rejected (s : St) (si : BitVec 16) (ppi : BitVec 32) (len : Nat) (h : accepts s si ppi len = false) :
    writeChunks s si ppi len = [] ∧ (write s si ppi len).1.streams = s.streams := by
  have hn : ¬ ∃ st, s.streams si = some st ∧ ¬ len > s.cfg.maxMessageSize.toNat ∧ len ≠ 0 ∧ s.cfg.maxPayload ≠ 0 ∧ s.established = true := by
    rw [← accepts_iff s si ppi len]; simp [h]
  cases hs : s.streams si with
  | none => simp [writeChunks, write, hs]
  | some st =>
    by_cases h1 : len > s.cfg.maxMessageSize.toNat
    · simp [writeChunks, write, hs, h1]
    · by_cases h2 : len = 0
      · simp [writeChunks, write, hs, h2]
      · by_cases hmp : s.cfg.maxPayload = 0#32
        · simp [writeChunks, write, hs, h1, h2, hmp]
        · have he : s.established = false := by
            cases he : s.established with
            | false => rfl
            | true => exact absurd ⟨st, hs, h1, h2, hmp, he⟩ hn
          refine ⟨by simp [writeChunks, hs, h1, h2, hmp, he], (write_rollback s si ppi len he).1⟩

/-- an accepted write: the chunks `packetize` makes, the stream object `packetize` leaves -/
theorem write_accepted (s : St) (si : BitVec 16) (ppi : BitVec 32) (len : Nat) (h : accepts s si ppi len = true) :
    ∃ st, s.streams si = some st ∧ len ≤ s.cfg.maxMessageSize.toNat ∧ len ≠ 0 ∧ s.cfg.maxPayload ≠ 0 ∧
      writeChunks s si ppi len = (packetize s.cfg st si s.nextMsg ppi len).chunks ∧
      (write s si ppi len).1.streams = fun k => if k = si then some (packetize s.cfg st si s.nextMsg ppi len).st else s.streams k := by
  obtain ⟨st, hs, h1, h2, hmp, he⟩ := (accepts_iff s si ppi len).1 h
  have hmp' : ¬ s.cfg.maxPayload = 0#32 := hmp
  refine ⟨st, hs, by omega, h2, hmp, by simp [writeChunks, hs, h1, h2, hmp', he], ?_⟩
  simp [write, hs, h1, h2, hmp', he, pushPending, setStream]

theorem ofNat16_succ (k : Nat) : BitVec.ofNat 16 k + 1#16 = BitVec.ofNat 16 (k + 1) := by
  rw [BitVec.ofNat_add]

theorem ofNat32_succ (k : Nat) : BitVec.ofNat 32 k + 1#32 = BitVec.ofNat 32 (k + 1) := by
  rw [BitVec.ofNat_add]

theorem cntOf_append_single (ws : List Write) (a : Write) (si : BitVec 16) :
    cntOf (ws ++ [a]) si = cntOf ws si + (if a.si = si then 1 else 0) := by
  simp only [cntOf, List.filter_append, List.length_append, List.filter_cons, List.filter_nil]
  by_cases h : a.si = si <;> simp [h]

theorem step_cinv (il : Bool) (ws : List Write) (s : St) (op : Op) (h : CInv il ws s) (hil : s.cfg.useInterleaving = il) (ho : OrdOp op) :
    CInv il (ws ++ accBy s op) (step s op) ∧
    writtenBy s op = match accBy s op with
      | [] => []
      | a :: _ => grp il s.cfg.maxPayload.toNat (match op with | .write _ _ len => len | _ => 0) (cntOf ws a.si) a := by
  cases op with
  | openS si u rt rv th =>
    simp only [accBy, List.append_nil, writtenBy, and_true]
    simp only [OrdOp] at ho
    subst ho
    intro k
    have hk := h k
    simp only [step, openStream, setStream]
    by_cases hks : k = si
    · subst hks
      simp only [if_true]
      cases hs : s.streams k with
      | none =>
        simp only [hs] at hk
        simp [hk]
      | some st =>
        simp only [hs] at hk
        obtain ⟨r1, r2, r3, r4⟩ := hk
        simp only [r1, if_true]
        exact ⟨trivial, trivial, r3, r4⟩
    · simp only [hks, if_false]
      exact hk
  | unreg si => exact absurd ho (by simp [OrdOp])
  | setEstablished b =>
    simp only [accBy, List.append_nil, writtenBy, and_true]
    exact h
  | write si ppi len =>
    simp only [accBy, writtenBy, step]
    cases hacc : accepts s si ppi len with
    | false =>
      obtain ⟨w1, w2⟩ := write_rejected s si ppi len hacc
      simp only [Bool.false_eq_true, if_false, List.append_nil, w1, and_true]
      intro k
      rw [w2]
      exact h k
    | true =>
      obtain ⟨st, hs, hmax, h0, hmp, w1, w2⟩ := write_accepted s si ppi len hacc
      simp only [if_true]
      have hst := h si
      simp only [hs] at hst
      obtain ⟨r1, r2, r3, r4⟩ := hst
      refine ⟨?_, ?_⟩
      · intro k
        rw [w2]
        by_cases hks : k = si
        · subst hks
          simp only [if_true, cntOf_append_single]
          cases il with
          | true =>
            refine ⟨by simp [packetize, hil, r2, r1], by simp [packetize, hil, r2], fun _ => ?_, fun hc => by cases hc⟩
            simp [packetize, hil, r2, r3 rfl, ofNat32_succ]
          | false =>
            refine ⟨by simp [packetize, hil, r2, r1], by simp [packetize, hil, r2], fun hc => (by cases hc), fun _ => ?_⟩
            simp [packetize, hil, r2, r4 rfl, ofNat16_succ]
        · simp only [hks, if_false]
          have hk := h k
          have hne : ¬ si = k := fun e => hks e.symm
          cases hsk : s.streams k with
          | none => simp only [hsk] at hk ⊢; simp [cntOf_append_single, hne, hk]
          | some st' => simp only [hsk] at hk ⊢; simpa [cntOf_append_single, hne] using hk
      · rw [w1]
        cases il with
        | true => simp [packetize, grp, hil, r2, r3 rfl]
        | false => simp [packetize, grp, hil, r2, r4 rfl]
  | gather orc sel =>
    simp only [accBy, List.append_nil, writtenBy, and_true, step]
    exact h.of_sk (fun si => by rw [gather_str])
  | sack cum arwnd gaps marks =>
    simp only [accBy, List.append_nil, writtenBy, and_true, step]
    exact h.of_sk (sack_still s cum arwnd gaps marks).q.str
  | t3 =>
    simp only [accBy, List.append_nil, writtenBy, and_true, step]
    exact h.of_sk (t3_still s).q.str
  | tick ms n marks =>
    simp only [accBy, List.append_nil, writtenBy, and_true, step]
    exact h.of_sk (tick_still s ms n marks).q.str

theorem step_cfg_all (s : St) (op : Op) : (step s op).cfg = s.cfg := by
  cases op with
  | openS si u rt rv th => rfl
  | unreg si => simp only [step, unregister]; split <;> rfl
  | setEstablished b => rfl
  | write si ppi len => exact (write_myNextTSN s si ppi len).2
  | gather orc sel => exact gather_cfg s orc sel
  | sack cum arwnd gaps marks => exact (sack_still s cum arwnd gaps marks).q.cfg
  | t3 => exact (t3_still s).q.cfg
  | tick ms n marks => exact (tick_still s ms n marks).q.cfg

theorem run_cfg_all (s : St) (ops : List Op) : (run s ops).cfg = s.cfg := by
  induction ops generalizing s with
  | nil => rfl
  | cons op ops ih => simp only [run]; rw [ih, step_cfg_all]

/-- **The chunks the writes of a run create are `gen` of its accepted writes.** -/
theorem run_gen (il : Bool) (lenOf : Nat → Nat) (pre : List Write) (s : St) (ops : List Op) (h : CInv il pre s)
    (hil : s.cfg.useInterleaving = il) (ho : ∀ op ∈ ops, OrdOp op) (hl : LenOk lenOf s ops) :
    written s ops = gen il s.cfg.maxPayload.toNat lenOf pre (accepted s ops) ∧ CInv il (pre ++ accepted s ops) (run s ops) := by
  induction ops generalizing pre s with
  | nil => simp only [written, accepted, gen, List.append_nil, run]; exact ⟨trivial, h⟩
  | cons op ops ih =>
    obtain ⟨h1, h2⟩ := step_cinv il pre s op h hil (ho op List.mem_cons_self)
    have hcfg := step_cfg_all s op
    obtain ⟨i1, i2⟩ := ih (pre ++ accBy s op) (step s op) h1 (by rw [hcfg]; exact hil)
      (fun o ho' => ho o (List.mem_cons_of_mem _ ho')) hl.2
    simp only [written, accepted, run]
    rw [← List.append_assoc]
    refine ⟨?_, i2⟩
    rw [i1, h2, hcfg]
    cases op with
    | write si ppi len =>
      have hlen : len = lenOf s.nextMsg := hl.1
      simp only [accBy]
      cases hacc : accepts s si ppi len with
      | false => simp
      | true => simp [gen, hlen]
    | _ => simp [accBy]

theorem init_cinv (il : Bool) (cfg : Cfg) (tsn peerRwnd : BitVec 32) : CInv il [] (init cfg tsn peerRwnd) := by
  intro si
  simp [init, cntOf]

/-! ## what `gen` contains -/

theorem gen_mem (il : Bool) (mp : Nat) (lenOf : Nat → Nat) (pre ws : List Write) (w : Chunk) (h : w ∈ gen il mp lenOf pre ws) :
    ∃ (ws1 : List Write) (a : Write) (ws2 : List Write) (i : Nat), ws = ws1 ++ a :: ws2 ∧ (grp il mp (lenOf a.msg) (cntOf (pre ++ ws1) a.si) a)[i]? = some w := by
  induction ws generalizing pre with
  | nil => simp [gen] at h
  | cons a r ih =>
    simp only [gen, List.mem_append] at h
    rcases h with h | h
    · obtain ⟨i, hi⟩ := List.getElem?_of_mem h
      exact ⟨[], a, r, i, rfl, by simpa using hi⟩
    · obtain ⟨ws1, b, ws2, i, e, hi⟩ := ih (pre ++ [a]) h
      refine ⟨a :: ws1, b, ws2, i, by rw [e]; rfl, ?_⟩
      simpa [List.append_assoc] using hi

theorem gen_append (il : Bool) (mp : Nat) (lenOf : Nat → Nat) (pre ws1 ws2 : List Write) :
    gen il mp lenOf pre (ws1 ++ ws2) = gen il mp lenOf pre ws1 ++ gen il mp lenOf (pre ++ ws1) ws2 := by
  induction ws1 generalizing pre with
  | nil => simp [gen]
  | cons a r ih => simp only [List.cons_append, gen, ih, List.append_assoc]; simp

/-- the fields of the `i`-th chunk of a group -/
theorem grp_get (il : Bool) (mp len k : Nat) (a : Write) (i : Nat) (w : Chunk) (h : (grp il mp len k a)[i]? = some w) :
    w.si = a.si ∧ w.msg = a.msg ∧ w.ppi = a.ppi ∧ w.unordered = false ∧
    w.ssn = (if il then BitVec.setWidth 16 (BitVec.ofNat 32 k) else BitVec.ofNat 16 k) ∧
    w.mid = (if il then BitVec.ofNat 32 k else 0) ∧ w.fsn = BitVec.ofNat 32 i ∧ w.bfrag = (i == 0) ∧
    w.efrag = (i + 1 == (fragSizes mp len).length) ∧ (fragSizes mp len)[i]? = some w.len := by
  obtain ⟨g1, g2, g3, g4, g5, g6, g7, g8, g9, g10⟩ := mkChunks_get _ _ _ _ _ _ _ _ _ i w h
  exact ⟨g1, g2, g3, g4, g5, g6, by simpa using g7, by simpa using g8, g9, g10⟩

end SenderTsn
