import SctpVerif.Proofs.Sender.MsgId
import SctpVerif.Proofs.Sender.Seq
/-!
Transitions that neither write nor move a chunk to in flight ("quiet": retransmission gathers, SACK processing,
T3, clock ticks, loss marks) leave alone everything the TSN assignment and the SSN / MID assignment depend on:
the configuration, `myNextTSN`, the write counter, the pending queue, the sequence counters of every stream
object — and every chunk in flight afterwards is a chunk that was in flight before, with the SAME TSN and the
same fragment identity (`Chunk.frag`). No hypothesis on the configuration (unlike the `SameAcct` frames of the
window proofs, nothing here needs `4·MTU < 2^32`).
-/
namespace SenderTsn
open SenderProofs
open Gen Sender

/-- what `packetize` reads of a stream object besides the byte counter -/
def Stream.sk (st : Stream) : Bool × Bool × BitVec 8 × BitVec 16 × BitVec 32 × BitVec 32 :=
  (st.registered, st.unordered, st.relType, st.ssn, st.nextOrderedMID, st.nextUnorderedMID)

/-- every chunk in flight afterwards was in flight before: same TSN, same fragment -/
def InfK (s s' : St) : Prop := ∀ x ∈ s'.inflight, ∃ c ∈ s.inflight, c.tsn = x.tsn ∧ Chunk.frag c = Chunk.frag x

theorem InfK.refl (s : St) : InfK s s := fun x hx => ⟨x, hx, rfl, rfl⟩

theorem InfK.of_eq {s s' : St} (h : s'.inflight = s.inflight) : InfK s s' := fun x hx => ⟨x, h ▸ hx, rfl, rfl⟩

theorem InfK.trans {a b c : St} (h1 : InfK a b) (h2 : InfK b c) : InfK a c := by
  intro x hx
  obtain ⟨y, hy, t1, f1⟩ := h2 x hx
  obtain ⟨z, hz, t2, f2⟩ := h1 y hy
  exact ⟨z, hz, t2.trans t1, f2.trans f1⟩

theorem InfK.of_map {s s' : St} (f : Chunk → Chunk) (hf : ∀ c, (f c).tsn = c.tsn ∧ Chunk.frag (f c) = Chunk.frag c)
    (h : s'.inflight = s.inflight.map f) : InfK s s' := by
  intro x hx
  rw [h, List.mem_map] at hx
  obtain ⟨c, hc, rfl⟩ := hx
  exact ⟨c, hc, (hf c).1.symm, (hf c).2.symm⟩

/-- the scalar part: configuration, next TSN, write counter, pending queue, stream counters -/
structure SameQ (s s' : St) : Prop where
  cfg : s'.cfg = s.cfg
  next : s'.myNextTSN = s.myNextTSN
  msg : s'.nextMsg = s.nextMsg
  pen : s'.pending = s.pending
  est : s'.established = s.established
  str : ∀ si, (s'.streams si).map Stream.sk = (s.streams si).map Stream.sk

theorem SameQ.refl (s : St) : SameQ s s := ⟨rfl, rfl, rfl, rfl, rfl, fun _ => rfl⟩

theorem SameQ.trans {a b c : St} (h1 : SameQ a b) (h2 : SameQ b c) : SameQ a c :=
  ⟨h2.cfg.trans h1.cfg, h2.next.trans h1.next, h2.msg.trans h1.msg, h2.pen.trans h1.pen, h2.est.trans h1.est,
   fun si => (h2.str si).trans (h1.str si)⟩

structure Still (s s' : St) : Prop where
  q : SameQ s s'
  k : InfK s s'

theorem Still.refl (s : St) : Still s s := ⟨SameQ.refl s, InfK.refl s⟩
theorem Still.trans {a b c : St} (h1 : Still a b) (h2 : Still b c) : Still a c := ⟨h1.q.trans h2.q, h1.k.trans h2.k⟩

/-! ## the two retransmission gathers -/

theorem scanLoop_K {B : Type} (s : St) (dec : Int → LoopAcc B → Chunk → Take B) (upd : Chunk → Chunk)
    (hu : ∀ c, (upd c).tsn = c.tsn ∧ Chunk.frag (upd c) = Chunk.frag c) (i : Int) (q : List Chunk) (a : LoopAcc B) :
    (∀ x ∈ (scanLoop s dec upd i q a).1, ∃ c ∈ q, c.tsn = x.tsn ∧ Chunk.frag c = Chunk.frag x) ∧
    (∀ e ∈ (scanLoop s dec upd i q a).2.out, e ∈ a.out ∨ ∃ c ∈ q, c.tsn = e.tsn ∧ Chunk.frag c = Chunk.frag e) := by
  obtain ⟨h1, h2⟩ := scanLoop_mem s dec upd (fun _ => True) (fun _ _ _ _ _ _ => trivial) i q a
  refine ⟨fun x hx => ?_, fun e he => ?_⟩
  · rcases h1 x hx with h | ⟨c, hc, _, rfl⟩
    · exact ⟨x, h, rfl, rfl⟩
    · exact ⟨c, hc, (hu c).1.symm, (hu c).2.symm⟩
  · rcases h2 e he with h | ⟨c, hc, _, rfl⟩
    · exact Or.inl h
    · exact Or.inr ⟨c, hc, (hu c).1.symm, (hu c).2.symm⟩

theorem gatherRtx_still (s : St) (orc : Oracle) :
    Still s (gatherRtx s orc).1 ∧ ∀ e ∈ (gatherRtx s orc).2.1, ∃ c ∈ s.inflight, c.tsn = e.tsn ∧ Chunk.frag c = Chunk.frag e := by
  have hsplit := scanSplit_append s
  obtain ⟨h1, h2⟩ := scanLoop_K s (rtxDecide s orc.allow (rtx_awnd s.cwnd s.rwnd)) (rtxUpd s) (fun _ => ⟨rfl, rfl⟩) 0
    (scanSplit s).2 { b := orc.b, aband := s.abandonedMsgs }
  have hsuf : ∀ c ∈ (scanSplit s).2, c ∈ s.inflight := fun c hc => by rw [← hsplit]; exact List.mem_append_right _ hc
  refine ⟨⟨⟨rfl, rfl, rfl, rfl, rfl, fun _ => rfl⟩, fun x hx => ?_⟩, fun e he => ?_⟩
  · simp only [gatherRtx, List.mem_append] at hx
    rcases hx with hx | hx
    · exact ⟨x, by rw [← hsplit]; exact List.mem_append_left _ hx, rfl, rfl⟩
    · obtain ⟨c, hc, r⟩ := h1 x hx
      exact ⟨c, hsuf c hc, r⟩
  · simp only [gatherRtx] at he
    rcases h2 e he with h | ⟨c, hc, r⟩
    · cases h
    · exact ⟨c, hsuf c hc, r⟩

theorem gatherFast_still {B : Type} (s : St) (allow : B → Int → Bool × B) (b : B) :
    Still s (gatherFast s allow b).1 ∧ ∀ e ∈ (gatherFast s allow b).2, ∃ c ∈ s.inflight, c.tsn = e.tsn ∧ Chunk.frag c = Chunk.frag e := by
  unfold gatherFast
  cases hf : s.willRetransmitFast with
  | false => simp only [Bool.not_false, if_true]; exact ⟨Still.refl s, fun e he => by cases he⟩
  | true =>
    simp only [Bool.not_true, Bool.false_eq_true, if_false]
    let s0 : St := { s with willRetransmitFast := false }
    have hsplit : (scanSplit s0).1 ++ (scanSplit s0).2 = s.inflight := scanSplit_append s0
    obtain ⟨h1, h2⟩ := scanLoop_K s0 (fastDecide s0 allow (fastRtx_wnd s.cfg.mtu s.cfg.fastRtxWnd)) (fastUpd s0) (fun _ => ⟨rfl, rfl⟩) 0
      (scanSplit s0).2 { b := b, size := hdr, aband := s.abandonedMsgs }
    have hsuf : ∀ c ∈ (scanSplit s0).2, c ∈ s.inflight := fun c hc => by rw [← hsplit]; exact List.mem_append_right _ hc
    refine ⟨⟨⟨rfl, rfl, rfl, rfl, rfl, fun _ => rfl⟩, fun x hx => ?_⟩, fun e he => ?_⟩
    · simp only [List.mem_append] at hx
      rcases hx with hx | hx
      · exact ⟨x, by rw [← hsplit]; exact List.mem_append_left _ hx, rfl, rfl⟩
      · obtain ⟨c, hc, r⟩ := h1 x hx
        exact ⟨c, hsuf c hc, r⟩
    · rcases h2 e he with h | ⟨c, hc, r⟩
      · cases h
      · exact ⟨c, hsuf c hc, r⟩

/-! ## SACK processing -/

theorem markOne_K (a : GapAcc) (tsn : BitVec 32) {a' : GapAcc} (h : markOne a tsn = some a') :
    ∀ x ∈ a'.q, ∃ c ∈ a.q, c.tsn = x.tsn ∧ Chunk.frag c = Chunk.frag x := by
  unfold markOne at h
  split at h
  · cases h
  · rename_i off c hg
    have hc : c ∈ a.q := List.mem_of_getElem? (get_some hg)
    cases h
    split
    · intro x hx
      simp only at hx
      rcases mem_set_cases hx with h | h
      · exact ⟨c, hc, by rw [h]; rfl, by rw [h]; rfl⟩
      · exact ⟨x, h, rfl, rfl⟩
    · exact fun x hx => ⟨x, hx, rfl, rfl⟩

theorem markRange_K (cum : BitVec 32) (is : List Nat) (a : GapAcc) {a' : GapAcc} (h : markRange cum is a = some a') :
    ∀ x ∈ a'.q, ∃ c ∈ a.q, c.tsn = x.tsn ∧ Chunk.frag c = Chunk.frag x := by
  induction is generalizing a with
  | nil => simp only [markRange] at h; cases h; exact fun x hx => ⟨x, hx, rfl, rfl⟩
  | cons i is ih =>
    simp only [markRange] at h
    split at h
    · cases h
    · rename_i a1 hm
      intro x hx
      obtain ⟨y, hy, t1, f1⟩ := ih a1 h x hx
      obtain ⟨z, hz, t2, f2⟩ := markOne_K a _ hm y hy
      exact ⟨z, hz, t2.trans t1, f2.trans f1⟩

theorem markGaps_K (cum : BitVec 32) (gaps : List (BitVec 16 × BitVec 16)) (a : GapAcc) {a' : GapAcc}
    (h : markGaps cum gaps a = some a') : ∀ x ∈ a'.q, ∃ c ∈ a.q, c.tsn = x.tsn ∧ Chunk.frag c = Chunk.frag x := by
  induction gaps generalizing a with
  | nil => simp only [markGaps] at h; cases h; exact fun x hx => ⟨x, hx, rfl, rfl⟩
  | cons g gs ih =>
    obtain ⟨st, en⟩ := g
    simp only [markGaps] at h
    split at h
    · cases h
    · rename_i a1 hm
      intro x hx
      obtain ⟨y, hy, t1, f1⟩ := ih a1 h x hx
      obtain ⟨z, hz, t2, f2⟩ := markRange_K cum _ a hm y hy
      exact ⟨z, hz, t2.trans t1, f2.trans f1⟩

theorem release_sk (st : Stream) (n : Int) : Stream.sk (release st n).1 = Stream.sk st := by
  unfold release
  split <;> rfl

theorem releaseAll_sk (rel : Rel) (s : St) (si : BitVec 16) :
    ((releaseAll rel s).streams si).map Stream.sk = (s.streams si).map Stream.sk ∧ (releaseAll rel s).established = s.established := by
  induction rel generalizing s with
  | nil => exact ⟨rfl, rfl⟩
  | cons e r ih =>
    obtain ⟨k, n⟩ := e
    simp only [releaseAll]
    cases hs : s.streams k with
    | none => exact ih s
    | some st =>
      simp only
      split
      · obtain ⟨i1, i2⟩ := ih { setStream s k (release st n).1 with clamped := s.clamped || (release st n).2 }
        refine ⟨?_, i2⟩
        rw [i1]
        simp only [setStream]
        by_cases hk : si = k
        · subst hk; simp [hs, release_sk]
        · simp [hk]
      · exact ih s

theorem onCumAdvanced_q (s : St) (total : Int) : SameQ s (onCumAdvanced s total) ∧ (onCumAdvanced s total).inflight = s.inflight := by
  unfold onCumAdvanced
  split
  · split
    · exact ⟨⟨rfl, rfl, rfl, rfl, rfl, fun _ => rfl⟩, rfl⟩
    · exact ⟨SameQ.refl s, rfl⟩
  · simp only
    split
    · exact ⟨⟨rfl, rfl, rfl, rfl, rfl, fun _ => rfl⟩, rfl⟩
    · exact ⟨⟨rfl, rfl, rfl, rfl, rfl, fun _ => rfl⟩, rfl⟩

theorem ackPhase_still {s : St} {cum : BitVec 32} {gaps : List (BitVec 16 × BitVec 16)} {r : St × BitVec 32 × Bool}
    (h : ackPhase s cum gaps = some r) : Still s r.1 := by
  unfold ackPhase at h
  split at h
  · cases h
  · rename_i pr hp
    split at h
    · cases h
    · rename_i g hm
      cases h
      have hsub := popCum_sub _ _ _ _ _ hp
      have hq := markGaps_K cum gaps _ hm
      obtain ⟨f1, f2, f3, f4, f5, f6, f7, f8, f9, f10, f11, f12, f13, f14⟩ := releaseAll_frame g.rel
        (if sna32LT s.cumAck cum then onCumAdvanced { s with inflight := g.q, infBytes := g.infBytes, inFastRecovery := pr.2.inFR, cumAck := cum } (relTotal g.rel)
         else { s with inflight := g.q, infBytes := g.infBytes, inFastRecovery := pr.2.inFR })
      have hmsg := releaseAll_nextMsg g.rel
        (if sna32LT s.cumAck cum then onCumAdvanced { s with inflight := g.q, infBytes := g.infBytes, inFastRecovery := pr.2.inFR, cumAck := cum } (relTotal g.rel)
         else { s with inflight := g.q, infBytes := g.infBytes, inFastRecovery := pr.2.inFR })
      have hsk := releaseAll_sk g.rel
        (if sna32LT s.cumAck cum then onCumAdvanced { s with inflight := g.q, infBytes := g.infBytes, inFastRecovery := pr.2.inFR, cumAck := cum } (relTotal g.rel)
         else { s with inflight := g.q, infBytes := g.infBytes, inFastRecovery := pr.2.inFR })
      have hmid : SameQ s (if sna32LT s.cumAck cum then onCumAdvanced { s with inflight := g.q, infBytes := g.infBytes, inFastRecovery := pr.2.inFR, cumAck := cum } (relTotal g.rel)
         else { s with inflight := g.q, infBytes := g.infBytes, inFastRecovery := pr.2.inFR }) ∧
         (if sna32LT s.cumAck cum then onCumAdvanced { s with inflight := g.q, infBytes := g.infBytes, inFastRecovery := pr.2.inFR, cumAck := cum } (relTotal g.rel)
         else { s with inflight := g.q, infBytes := g.infBytes, inFastRecovery := pr.2.inFR }).inflight = g.q := by
        split
        · obtain ⟨o1, o2⟩ := onCumAdvanced_q { s with inflight := g.q, infBytes := g.infBytes, inFastRecovery := pr.2.inFR, cumAck := cum } (relTotal g.rel)
          refine ⟨SameQ.trans ?_ o1, o2⟩
          exact ⟨rfl, rfl, rfl, rfl, rfl, fun _ => rfl⟩
        · exact ⟨⟨rfl, rfl, rfl, rfl, rfl, fun _ => rfl⟩, rfl⟩
      obtain ⟨m1, m2⟩ := hmid
      refine ⟨⟨?_, ?_, ?_, ?_, ?_, ?_⟩, ?_⟩
      · simp only [ackApply]; rw [f5]; exact m1.cfg
      · simp only [ackApply]; rw [f13]; exact m1.next
      · simp only [ackApply]; rw [hmsg]; exact m1.msg
      · simp only [ackApply]; rw [f8]; exact m1.pen
      · simp only [ackApply]; rw [(hsk 0).2]; exact m1.est
      · intro si; simp only [ackApply]; rw [(hsk si).1]; exact m1.str si
      · intro x hx
        simp only [ackApply] at hx
        rw [f7, m2] at hx
        obtain ⟨c, hc, r⟩ := hq x hx
        exact ⟨c, hsub c hc, r⟩

theorem missLoop_still (htna : BitVec 32) (fuel : Nat) (s : St) (tsn maxTSN : BitVec 32) :
    Still s (missLoop htna fuel s tsn maxTSN).1 := by
  induction fuel generalizing s tsn with
  | zero => exact Still.refl s
  | succ fuel ih =>
    simp only [missLoop]
    split
    · cases hg : Sender.get s.inflight tsn with
      | none => exact Still.refl s
      | some oc =>
        obtain ⟨off, c⟩ := oc
        simp only
        have hc : c ∈ s.inflight := List.mem_of_getElem? (get_some hg)
        split
        · refine Still.trans ?_ (ih _ _)
          have hk : InfK s { s with inflight := s.inflight.set off { c with missIndicator := c.missIndicator + 1 } } := by
            intro x hx
            simp only at hx
            rcases mem_set_cases hx with h | h
            · exact ⟨c, hc, by rw [h], by rw [h]; rfl⟩
            · exact ⟨x, h, rfl, rfl⟩
          split
          · exact ⟨⟨rfl, rfl, rfl, rfl, rfl, fun _ => rfl⟩, hk⟩
          · exact ⟨⟨rfl, rfl, rfl, rfl, rfl, fun _ => rfl⟩, hk⟩
        · exact ih _ _
    · exact Still.refl s

theorem fastRetransCheck_still (s : St) (cum : BitVec 32) (gaps : List (BitVec 16 × BitVec 16)) (htna : BitVec 32) (adv : Bool) :
    Still s (fastRetransCheck s cum gaps htna adv).1 := by
  have h1 : Still s (frLoop s cum gaps htna adv).1 := by
    unfold frLoop
    split
    · exact missLoop_still _ _ _ _ _
    · exact Still.refl s
  have h2 : ∀ r : St × Bool, Still r.1 (frPost r adv).1 := by
    intro r
    unfold frPost
    split
    · exact Still.refl _
    · split
      · exact ⟨⟨rfl, rfl, rfl, rfl, rfl, fun _ => rfl⟩, InfK.of_eq rfl⟩
      · exact Still.refl _
  unfold fastRetransCheck
  exact h1.trans (h2 _)

theorem sameAcct_still {s s' : St} (h : SameAcct s s') (hm : s'.nextMsg = s.nextMsg) (he : s'.established = s.established)
    (hk : InfK s s') : Still s s' :=
  ⟨⟨h.2.2.2.2.1, h.2.2.2.2.2.2.2.2.2.2.2.2.1, hm, h.2.2.2.2.2.2.1, he, fun si => by rw [h.2.2.2.2.2.1]⟩, hk⟩

theorem advLoop_est (fuel : Nat) (s : St) : (advLoop fuel s).established = s.established := by
  induction fuel generalizing s with
  | zero => rfl
  | succ fuel ih =>
    simp only [advLoop]
    split
    · rfl
    · split
      · rfl
      · rw [ih]

theorem advancePeerAck_est (s : St) : (advancePeerAck s).established = s.established := by
  unfold advancePeerAck
  simp only
  split <;> exact advLoop_est _ _

theorem advancePeerAck_still (s : St) : Still s (advancePeerAck s) :=
  sameAcct_still (advancePeerAck_frame s).1 (advancePeerAck_nextMsg s) (advancePeerAck_est s) (InfK.of_eq (advancePeerAck_queues s).1)

theorem prStep_still (s : St) : Still s (prStep s) := by
  unfold prStep
  split
  · split
    · refine Still.trans ?_ (advancePeerAck_still _)
      exact ⟨⟨rfl, rfl, rfl, rfl, rfl, fun _ => rfl⟩, InfK.of_eq rfl⟩
    · exact advancePeerAck_still _
  · exact Still.refl s

theorem applyMarks_still (s : St) (marks : List (BitVec 32)) : Still s (applyMarks s marks) := by
  refine ⟨⟨rfl, rfl, rfl, rfl, rfl, fun _ => rfl⟩, ?_⟩
  refine InfK.of_map (fun c => if marks.contains c.tsn && !c.acked && !s.abandoned c then { c with retransmit := true } else c) ?_ rfl
  intro c
  split <;> exact ⟨rfl, rfl⟩

theorem sack_still (s : St) (cum arwnd : BitVec 32) (gaps : List (BitVec 16 × BitVec 16)) (marks : List (BitVec 32)) :
    Still s (sack s cum arwnd gaps marks).1 := by
  unfold sack
  split
  · exact Still.refl s
  · split
    · exact Still.refl s
    · split
      · exact Still.refl s
      · cases ha : ackPhase s cum gaps with
        | none => exact Still.refl s
        | some r =>
          simp only
          have h1 := ackPhase_still ha
          have h2 : Still r.1 (setPeerWindow r.1 arwnd) := ⟨⟨rfl, rfl, rfl, rfl, rfl, fun _ => rfl⟩, InfK.of_eq rfl⟩
          have h3 := fastRetransCheck_still (setPeerWindow r.1 arwnd) cum gaps r.2.1 r.2.2
          have h123 := (h1.trans h2).trans h3
          split
          · exact h123
          · exact h123.trans ((prStep_still _).trans (applyMarks_still _ marks))

/-! ## T3, clock -/

theorem t3_still (s : St) : Still s (t3 s) := by
  have hmark : ∀ x : St, Still x { x with inflight := markAllToRetransmit x } := by
    intro x
    refine ⟨⟨rfl, rfl, rfl, rfl, rfl, fun _ => rfl⟩, ?_⟩
    refine InfK.of_map (fun c => if c.acked || x.abandoned c then c else { c with retransmit := true }) ?_ rfl
    intro c
    split <;> exact ⟨rfl, rfl⟩
  have hpr : ∀ y : St, Still y (if y.cfg.prEnabled then advancePeerAck y else y) := by
    intro y
    split
    · exact advancePeerAck_still y
    · exact Still.refl y
  unfold t3
  simp only
  refine Still.trans ?_ (Still.trans (hpr _) (hmark _))
  split
  · exact ⟨⟨rfl, rfl, rfl, rfl, rfl, fun _ => rfl⟩, InfK.of_eq rfl⟩
  · exact ⟨⟨rfl, rfl, rfl, rfl, rfl, fun _ => rfl⟩, InfK.of_eq rfl⟩

theorem iter_t3_still (n : Nat) (s : St) : Still s (iter t3 n s) := by
  induction n generalizing s with
  | zero => exact Still.refl s
  | succ n ih => exact (t3_still s).trans (ih (t3 s))

theorem tick_still (s : St) (ms n : Nat) (marks : List (BitVec 32)) :
    Still s (applyMarks (iter t3 n { s with now := s.now + ms }) marks) := by
  refine Still.trans ?_ ((iter_t3_still n _).trans (applyMarks_still _ marks))
  exact ⟨⟨rfl, rfl, rfl, rfl, rfl, fun _ => rfl⟩, InfK.of_eq rfl⟩

end SenderTsn
