import SctpVerif.Proofs.Sender.Gather
/-! Window discipline of the sender: admission of new DATA (cwnd, rwnd, lone probe), the peer-window
invariant, the congestion-window floor. -/
namespace SenderProofs
open Gen Sender

/-- frame of `move` -/
theorem move_frame (s : St) (i : Nat) (c : Chunk) :
    (move s i c).1.rwnd = s.rwnd ∧ (move s i c).1.cwnd = s.cwnd ∧ (move s i c).1.wrapWin = s.wrapWin ∧
    (move s i c).1.lastArwnd = s.lastArwnd ∧ (move s i c).1.infBytes = s.infBytes + (c.len : Int) ∧
    (move s i c).1.cfg = s.cfg ∧ (move s i c).2.len = c.len ∧
    (move s i c).1.inflight = s.inflight ++ [(move s i c).2] ∧ (move s i c).1.streams = s.streams ∧
    (move s i c).1.ssthresh = s.ssthresh ∧ (move s i c).1.established = s.established := by
  simp [move, popPend]

/-- the window invariant (b) of C10, guarded by the ghost "no uint32 wrap so far" flag -/
def RW (s : St) : Prop :=
  s.wrapWin = false → (s.rwnd.toNat : Int) + s.infBytes ≤ max (s.lastArwnd.toNat : Int) s.infBytes

/-- a non-probe admission, in natural numbers; `A` = the peer's last advertised window -/
def AdmitOk (A : Nat) (x : Admit) : Prop :=
  x.probe = false ∧ 0 < x.chunk.len ∧ x.infBefore + (x.chunk.len : Int) ≤ (x.cwnd.toNat : Int) ∧
  x.chunk.len ≤ x.rwndBefore.toNat ∧ x.infBefore + (x.chunk.len : Int) ≤ (A : Int)

theorem popDecide_take {B : Type} (s : St) (allow : B → Int → Bool × B) (a : PopAcc B) (c : Chunk) {b : B} {bip : Int}
    (h : popDecide s allow a c = .take b bip) :
    popPending_exceedsCwnd s.infBytes (BitVec.ofNat 32 c.len) s.cwnd = false ∧
    popPending_exceedsRwnd (BitVec.ofNat 32 c.len) s.rwnd = false := by
  unfold popDecide at h
  simp only at h
  split at h
  · cases h
  · split at h
    · cases h
    · rename_i h1 h2; exact ⟨by simpa using h1, by simpa using h2⟩

theorem admitChunk_frame (s : St) (i : Nat) (c : Chunk) :
    (admitChunk s i c).1.rwnd = popPending_rwndAfterSend s.rwnd (BitVec.ofNat 32 c.len) ∧
    (admitChunk s i c).1.cwnd = s.cwnd ∧
    (admitChunk s i c).1.wrapWin = (s.wrapWin || decide (s.infBytes < 0 ∨ s.infBytes + (c.len : Int) ≥ 2^32)) ∧
    (admitChunk s i c).1.lastArwnd = s.lastArwnd ∧ (admitChunk s i c).1.infBytes = s.infBytes + (c.len : Int) ∧
    (admitChunk s i c).1.cfg = s.cfg ∧ (admitChunk s i c).2.len = c.len ∧
    (admitChunk s i c).1.inflight = s.inflight ++ [(admitChunk s i c).2] ∧ (admitChunk s i c).1.streams = s.streams ∧
    (admitChunk s i c).1.ssthresh = s.ssthresh ∧ (admitChunk s i c).1.established = s.established := by
  simp [admitChunk, chargeSend, move, popPend]

theorem admitChunk_spec (s : St) (i : Nat) (c : Chunk) (hR : RW s)
    (hc : popPending_exceedsCwnd s.infBytes (BitVec.ofNat 32 c.len) s.cwnd = false)
    (hr : popPending_exceedsRwnd (BitVec.ofNat 32 c.len) s.rwnd = false)
    (hz : (BitVec.ofNat 32 c.len == 0) = false) :
    RW (admitChunk s i c).1 ∧
    ((admitChunk s i c).1.wrapWin = false → s.wrapWin = false ∧ AdmitOk s.lastArwnd.toNat (mkAdmit s (admitChunk s i c).2 false)) := by
  obtain ⟨h1, h2, h3, h4, h5, h6, h7, _⟩ := admitChunk_frame s i c
  have key : (s.wrapWin || decide (s.infBytes < 0 ∨ s.infBytes + (c.len : Int) ≥ 2^32)) = false →
      s.wrapWin = false ∧ 0 ≤ s.infBytes ∧ s.infBytes + (c.len : Int) < 2^32 ∧ 0 < c.len ∧
      s.infBytes + (c.len : Int) ≤ (s.cwnd.toNat : Int) ∧ c.len ≤ s.rwnd.toNat ∧
      ((popPending_rwndAfterSend s.rwnd (BitVec.ofNat 32 c.len)).toNat : Int) = (s.rwnd.toNat : Int) - c.len := by
    intro hw
    simp only [Bool.or_eq_false_iff, decide_eq_false_iff_not, not_or, Int.not_lt, ge_iff_le, Int.not_le] at hw
    obtain ⟨hw1, hw2, hw3⟩ := hw
    have hlen : c.len < 2^32 := by omega
    simp only [popPending_exceedsCwnd, popPending_exceedsRwnd, popPending_rwndAfterSend, decide_eq_false_iff_not] at hc hr ⊢
    have hz' : c.len ≠ 0 := by
      intro h0; simp [h0] at hz
    have e1 : (BitVec.ofNat 32 c.len).toNat = c.len := by simp [BitVec.toNat_ofNat]; omega
    have e2 : (BitVec.ofInt 32 s.infBytes).toNat = s.infBytes.toNat := by
      rw [BitVec.toNat_ofInt]; omega
    refine ⟨hw1, hw2, by omega, by omega, ?_, ?_, ?_⟩
    · bv_omega
    · bv_omega
    · bv_omega
  refine ⟨?_, ?_⟩
  · intro hw
    rw [h3] at hw
    obtain ⟨k1, k2, k3, k4, k5, k6, k7⟩ := key hw
    have := hR k1
    rw [h1, h4, h5]
    omega
  · intro hw
    rw [h3] at hw
    obtain ⟨k1, k2, k3, k4, k5, k6, k7⟩ := key hw
    have := hR k1
    refine ⟨k1, rfl, ?_, ?_, ?_, ?_⟩ <;> simp only [mkAdmit, h7] <;> omega

theorem popDecide_fits {B : Type} (s : St) (allow : B → Int → Bool × B) (a : PopAcc B) (c : Chunk) {b : B} {bip : Int}
    (hinv : a.bip = 0 ∨ hdr ≤ a.bip) (h : popDecide s allow a c = .take b bip) :
    hdr + c.sizeInPacket s.cfg.useInterleaving ≤ (s.cfg.mtu.toNat : Int) ∧ hdr ≤ bip := by
  unfold popDecide at h
  simp only at h
  split at h
  · cases h
  · split at h
    · cases h
    · have := packAllow_take allow a.b s.cfg.mtu a.bip _ _ _ (by simp [popPending_packetFull]) (by simp [popPending_firstTooBig]) hinv
        (by have := (sizeInPacket_nonneg s.cfg.useInterleaving c).1; omega) h
      exact ⟨this.1, this.2.1⟩

theorem popPend_RW (s : St) (i : Nat) (c : Chunk) (h : RW s) : RW (popPend s i c) := by
  simpa [RW, popPend] using h

/-- what the admission loop guarantees -/
theorem popLoop_spec {B : Type} (allow : B → Int → Bool × B) (fuel : Nat) (s : St) (sel : List Nat) (a : PopAcc B)
    (hR : RW s) (hb : a.bip = 0 ∨ hdr ≤ a.bip)
    (hfit : AllFit s.cfg.mtu s.cfg.useInterleaving (a.admits.map (·.chunk))) :
    RW (popLoop allow fuel s sel a).1 ∧
    (popLoop allow fuel s sel a).1.lastArwnd = s.lastArwnd ∧
    (popLoop allow fuel s sel a).1.cfg = s.cfg ∧
    AllFit s.cfg.mtu s.cfg.useInterleaving ((popLoop allow fuel s sel a).2.2.admits.map (·.chunk)) ∧
    (∀ x ∈ (popLoop allow fuel s sel a).2.2.admits, x ∈ a.admits ∨ x.probe = false) ∧
    ((popLoop allow fuel s sel a).1.wrapWin = false → s.wrapWin = false ∧
      ∀ x ∈ (popLoop allow fuel s sel a).2.2.admits, x ∈ a.admits ∨ AdmitOk s.lastArwnd.toNat x) := by
  induction fuel generalizing s sel a with
  | zero =>
      simp [popLoop, hR, hfit]
      exact ⟨fun x hx => Or.inl hx, fun h => ⟨h, fun x hx => Or.inl hx⟩⟩
  | succ fuel ih =>
    simp only [popLoop]
    cases hp : peek s sel with
    | none =>
      simp [hR, hfit]
      exact ⟨fun x hx => Or.inl hx, fun h => ⟨h, fun x hx => Or.inl hx⟩⟩
    | some ic =>
      obtain ⟨i, c⟩ := ic
      simp only
      by_cases hz : (BitVec.ofNat 32 c.len == 0) = true
      · simp only [hz, if_true]
        have := ih (popPend s i c) sel.tail { a with sisToReset := a.sisToReset ++ [c.si] } (popPend_RW s i c hR) hb (by simpa [popPend] using hfit)
        simpa [popPend] using this
      · simp only [hz]
        have hz' : (BitVec.ofNat 32 c.len == 0) = false := by simpa using hz
        cases hd : popDecide s allow a c with
        | skip =>
      simp [hR, hfit]
      exact ⟨fun x hx => Or.inl hx, fun h => ⟨h, fun x hx => Or.inl hx⟩⟩
        | stop b =>
      simp [hR, hfit]
      exact ⟨fun x hx => Or.inl hx, fun h => ⟨h, fun x hx => Or.inl hx⟩⟩
        | take b bip =>
          simp only
          obtain ⟨hc, hr⟩ := popDecide_take s allow a c hd
          obtain ⟨hf1, hf2⟩ := popDecide_fits s allow a c hb hd
          obtain ⟨g1, g2, g3, g4, g5, g6, g7, _⟩ := admitChunk_frame s i c
          obtain ⟨k1, k2⟩ := admitChunk_spec s i c hR hc hr hz'
          have hfit' : AllFit (admitChunk s i c).1.cfg.mtu (admitChunk s i c).1.cfg.useInterleaving
              (({ a with b := b, bip := bip, admits := a.admits ++ [mkAdmit s (admitChunk s i c).2 false] } : PopAcc B).admits.map (·.chunk)) := by
            rw [g6]
            simp only [List.map_append, List.map_cons, List.map_nil]
            exact allFit_snoc hfit (by show hdr + Chunk.sizeInPacket _ (admitChunk s i c).2 ≤ _; rw [sip_congr _ _ _ g7]; exact hf1)
          have := ih (admitChunk s i c).1 sel.tail _ k1 (Or.inr hf2) hfit'
          obtain ⟨t1, t2, t3, t4, t5, t6⟩ := this
          rw [g6] at t3 t4
          rw [g4] at t2 t6
          refine ⟨t1, t2, t3, t4, ?_, ?_⟩
          · intro x hx
            rcases t5 x hx with h | h
            · simp only [List.mem_append, List.mem_singleton] at h
              rcases h with h | h
              · exact Or.inl h
              · subst h; exact Or.inr rfl
            · exact Or.inr h
          · intro hw
            obtain ⟨w1, w2⟩ := t6 hw
            obtain ⟨w3, w4⟩ := k2 w1
            refine ⟨w3, ?_⟩
            intro x hx
            rcases w2 x hx with h | h
            · simp only [List.mem_append, List.mem_singleton] at h
              rcases h with h | h
              · exact Or.inl h
              · subst h; exact Or.inr w4
            · exact Or.inr h

/-! ### the zero-window probe -/

theorem admitProbe_frame (s : St) (i : Nat) (c : Chunk) :
    (admitProbe s i c).1.rwnd = (if popPending_probeExhaustsRwnd (BitVec.ofNat 32 c.len) s.rwnd then 0 else popPending_rwndAfterProbe s.rwnd (BitVec.ofNat 32 c.len)) ∧
    (admitProbe s i c).1.cwnd = s.cwnd ∧
    (admitProbe s i c).1.wrapWin = (s.wrapWin || decide (c.len ≥ 2^32)) ∧
    (admitProbe s i c).1.lastArwnd = s.lastArwnd ∧ (admitProbe s i c).1.infBytes = s.infBytes + (c.len : Int) ∧
    (admitProbe s i c).1.cfg = s.cfg ∧ (admitProbe s i c).2.len = c.len := by
  simp [admitProbe, chargeProbe, move, popPend]

theorem admitProbe_RW (s : St) (i : Nat) (c : Chunk) (hR : RW s) :
    RW (admitProbe s i c).1 ∧ ((admitProbe s i c).1.wrapWin = false → s.wrapWin = false) := by
  obtain ⟨h1, h2, h3, h4, h5, h6, h7⟩ := admitProbe_frame s i c
  refine ⟨?_, ?_⟩
  · intro hw
    rw [h3] at hw
    simp only [Bool.or_eq_false_iff, decide_eq_false_iff_not, ge_iff_le, Nat.not_le] at hw
    have := hR hw.1
    have e1 : (BitVec.ofNat 32 c.len).toNat = c.len := by simp [BitVec.toNat_ofNat]; omega
    rw [h1, h4, h5]
    simp only [popPending_probeExhaustsRwnd, popPending_rwndAfterProbe]
    by_cases hge : BitVec.ofNat 32 c.len ≥ s.rwnd
    · simp only [hge, decide_true, if_true]; simp; omega
    · simp only [hge, decide_false, Bool.false_eq_true, if_false]
      have : ((s.rwnd - BitVec.ofNat 32 c.len).toNat : Int) = (s.rwnd.toNat : Int) - c.len := by bv_omega
      omega
  · intro hw
    rw [h3] at hw
    simp only [Bool.or_eq_false_iff] at hw
    exact hw.1

/-- the probe of a gather: alone, with nothing in flight -/
def ProbeOk (admits : List Admit) (x : Admit) : Prop := x.probe = true ∧ admits = [x] ∧ x.nInflightBefore = 0

theorem probe_spec {B : Type} (allow : B → Int → Bool × B) (s : St) (sel : List Nat) (a : PopAcc B) (hR : RW s)
    (hfit : AllFit s.cfg.mtu s.cfg.useInterleaving (a.admits.map (·.chunk))) :
    RW (probe allow s sel a).1 ∧
    (probe allow s sel a).1.lastArwnd = s.lastArwnd ∧
    (probe allow s sel a).1.cfg = s.cfg ∧
    AllFit s.cfg.mtu s.cfg.useInterleaving ((probe allow s sel a).2.2.admits.map (·.chunk)) ∧
    ((probe allow s sel a).1.wrapWin = false → s.wrapWin = false) ∧
    (∀ x ∈ (probe allow s sel a).2.2.admits, x ∈ a.admits ∨ ProbeOk (probe allow s sel a).2.2.admits x) := by
  have base : ∀ a' : PopAcc B, a'.admits = a.admits →
      RW s ∧ s.lastArwnd = s.lastArwnd ∧ s.cfg = s.cfg ∧ AllFit s.cfg.mtu s.cfg.useInterleaving (a'.admits.map (·.chunk)) ∧
      (s.wrapWin = false → s.wrapWin = false) ∧ (∀ x ∈ a'.admits, x ∈ a.admits ∨ ProbeOk a'.admits x) := by
    intro a' h; rw [h]; exact ⟨hR, rfl, rfl, hfit, id, fun x hx => Or.inl hx⟩
  unfold probe
  split
  · rename_i hcond
    simp only [Bool.and_eq_true, List.isEmpty_iff, beq_iff_eq] at hcond
    cases hp : peek s sel with
    | none => exact base a rfl
    | some ic =>
      obtain ⟨i, c⟩ := ic
      simp only
      split
      · split
        · rename_i hsz
          split
          · obtain ⟨g1, g2, g3, g4, g5, g6, g7⟩ := admitProbe_frame s i c
            obtain ⟨k1, k2⟩ := admitProbe_RW s i c hR
            refine ⟨k1, g4, g6, ?_, k2, ?_⟩
            · simp only [List.map_append, List.map_cons, List.map_nil]
              refine allFit_snoc hfit ?_
              show hdr + Chunk.sizeInPacket _ (admitProbe s i c).2 ≤ _
              rw [sip_congr _ _ _ g7]
              simpa [popPending_probeAllowedSize] using hsz
            · intro x hx
              simp only [hcond.1, List.nil_append, List.mem_singleton] at hx
              subst hx
              exact Or.inr ⟨rfl, by simp [hcond.1], by simp [mkAdmit, hcond.2]⟩
          · exact base _ rfl
        · exact base a rfl
      · exact base a rfl
  · exact base a rfl

theorem gatherNew_spec {B : Type} (allow : B → Int → Bool × B) (b : B) (s : St) (sel : List Nat) (hR : RW s) :
    RW (gatherNew s allow b sel).1 ∧
    (gatherNew s allow b sel).1.lastArwnd = s.lastArwnd ∧
    (gatherNew s allow b sel).1.cfg = s.cfg ∧
    AllFit s.cfg.mtu s.cfg.useInterleaving ((gatherNew s allow b sel).2.admits.map (·.chunk)) ∧
    (∀ x ∈ (gatherNew s allow b sel).2.admits, x.probe = false ∨ ProbeOk (gatherNew s allow b sel).2.admits x) ∧
    ((gatherNew s allow b sel).1.wrapWin = false → s.wrapWin = false ∧
      ∀ x ∈ (gatherNew s allow b sel).2.admits, AdmitOk s.lastArwnd.toNat x ∨ ProbeOk (gatherNew s allow b sel).2.admits x) := by
  unfold gatherNew
  split
  · obtain ⟨p1, p2, p3, p4, p5, p6⟩ := popLoop_spec allow (s.pending.length + 1) s sel { b := b } hR (Or.inl rfl) (by intro x hx; simp at hx)
    obtain ⟨q1, q2, q3, q4, q5, q6⟩ := probe_spec allow _ (popLoop allow (s.pending.length + 1) s sel { b := b }).2.1
      (popLoop allow (s.pending.length + 1) s sel { b := b }).2.2 p1 (by rw [p3]; exact p4)
    simp only
    rw [p3] at q3 q4
    refine ⟨q1, q2.trans p2, q3, q4, ?_, ?_⟩
    · intro x hx
      rcases q6 x hx with h | h
      · rcases p5 x h with h' | h'
        · simp at h'
        · exact Or.inl h'
      · exact Or.inr h
    · intro hw
      obtain ⟨w1, w2⟩ := p6 (q5 hw)
      refine ⟨w1, ?_⟩
      intro x hx
      rcases q6 x hx with h | h
      · rcases w2 x h with h' | h'
        · simp at h'
        · exact Or.inl h'
      · exact Or.inr h
  · refine ⟨hR, rfl, rfl, by intro x hx; simp at hx, by intro x hx; simp at hx, fun h => ⟨h, by intro x hx; simp at hx⟩⟩


/-! ### the retransmission scans leave windows and counters alone -/

theorem scanSplit_append (s : St) : (scanSplit s).1 ++ (scanSplit s).2 = s.inflight := by
  unfold scanSplit
  split <;> simp

theorem gatherRtx_frame (s : St) (orc : Oracle) :
    (gatherRtx s orc).1.rwnd = s.rwnd ∧ (gatherRtx s orc).1.infBytes = s.infBytes ∧ (gatherRtx s orc).1.lastArwnd = s.lastArwnd ∧
    (gatherRtx s orc).1.wrapWin = s.wrapWin ∧ (gatherRtx s orc).1.cwnd = s.cwnd ∧ (gatherRtx s orc).1.cfg = s.cfg ∧
    (gatherRtx s orc).1.streams = s.streams ∧ (gatherRtx s orc).1.pending = s.pending ∧ (gatherRtx s orc).1.penBytes = s.penBytes ∧
    (gatherRtx s orc).1.penChunks = s.penChunks ∧ (gatherRtx s orc).1.wrapBuf = s.wrapBuf ∧ (gatherRtx s orc).1.clamped = s.clamped ∧
    (gatherRtx s orc).1.inflight.map Chunk.core = s.inflight.map Chunk.core := by
  refine ⟨rfl, rfl, rfl, rfl, rfl, rfl, rfl, rfl, rfl, rfl, rfl, rfl, ?_⟩
  simp only [gatherRtx, List.map_append]
  rw [scanLoop_core _ _ _ (rtxUpd_core s), ← List.map_append, scanSplit_append]

theorem gatherFast_frame {B : Type} (s : St) (allow : B → Int → Bool × B) (b : B) :
    (gatherFast s allow b).1.rwnd = s.rwnd ∧ (gatherFast s allow b).1.infBytes = s.infBytes ∧ (gatherFast s allow b).1.lastArwnd = s.lastArwnd ∧
    (gatherFast s allow b).1.wrapWin = s.wrapWin ∧ (gatherFast s allow b).1.cwnd = s.cwnd ∧ (gatherFast s allow b).1.cfg = s.cfg ∧
    (gatherFast s allow b).1.streams = s.streams ∧ (gatherFast s allow b).1.pending = s.pending ∧ (gatherFast s allow b).1.penBytes = s.penBytes ∧
    (gatherFast s allow b).1.penChunks = s.penChunks ∧ (gatherFast s allow b).1.wrapBuf = s.wrapBuf ∧ (gatherFast s allow b).1.clamped = s.clamped ∧
    (gatherFast s allow b).1.inflight.map Chunk.core = s.inflight.map Chunk.core := by
  unfold gatherFast
  split
  · simp
  · refine ⟨rfl, rfl, rfl, rfl, rfl, rfl, rfl, rfl, rfl, rfl, rfl, rfl, ?_⟩
    simp only [List.map_append]
    rw [scanLoop_core _ _ _ (fastUpd_core _), ← List.map_append, scanSplit_append]

theorem allFit_nil (mtu : BitVec 32) (il : Bool) : AllFit mtu il [] := fun x hx => absurd hx (List.not_mem_nil)

theorem gatherRtx_fit (s : St) (orc : Oracle) : AllFit s.cfg.mtu s.cfg.useInterleaving (gatherRtx s orc).2.1 :=
  (scanLoop_fit s (rtxDecide s orc.allow (rtx_awnd s.cwnd s.rwnd)) (rtxUpd s) (rtxDecide_fits s orc.allow _) (fun _ => rfl) 0
    (scanSplit s).2 { b := orc.b, aband := s.abandonedMsgs } ⟨Or.inl rfl, allFit_nil _ _⟩).2

theorem gatherFast_fit {B : Type} (s : St) (allow : B → Int → Bool × B) (b : B) :
    AllFit s.cfg.mtu s.cfg.useInterleaving (gatherFast s allow b).2 := by
  unfold gatherFast
  split
  · exact allFit_nil _ _
  · exact (scanLoop_fit { s with willRetransmitFast := false } _ (fastUpd _) (fastDecide_fits _ allow _) (fun _ => rfl) 0 _
      { b := b, size := hdr, aband := s.abandonedMsgs } ⟨Or.inl rfl, allFit_nil _ _⟩).2

theorem RW_congr {s s' : St} (h1 : s'.rwnd = s.rwnd) (h2 : s'.infBytes = s.infBytes) (h3 : s'.lastArwnd = s.lastArwnd)
    (h4 : s'.wrapWin = s.wrapWin) (h : RW s) : RW s' := by
  unfold RW at *; rw [h1, h2, h3, h4]; exact h

/-- one gather: window invariant kept, every new chunk admitted by the rule, every packet within the MTU -/
theorem gather_spec (s : St) (orc : Oracle) (sel : List Nat) (hR : RW s) :
    RW (gather s orc sel).1 ∧ (gather s orc sel).1.lastArwnd = s.lastArwnd ∧ (gather s orc sel).1.cfg = s.cfg ∧
    (∀ x ∈ (gather s orc sel).2.admits, x.probe = false ∨ ProbeOk (gather s orc sel).2.admits x) ∧
    ((gather s orc sel).1.wrapWin = false → s.wrapWin = false ∧
      ∀ x ∈ (gather s orc sel).2.admits, AdmitOk s.lastArwnd.toNat x ∨ ProbeOk (gather s orc sel).2.admits x) ∧
    (∀ p ∈ (gather s orc sel).2.packets, p ≠ [] ∧ marshalLen s.cfg.useInterleaving p ≤ (s.cfg.mtu.toNat : Int)) := by
  unfold gather
  split
  · refine ⟨hR, rfl, rfl, by intro x hx; simp at hx, fun h => ⟨h, by intro x hx; simp at hx⟩, by intro p hp; simp [GatherOut.packets] at hp⟩
  · obtain ⟨a1, a2, a3, a4, a5, a6, _⟩ := gatherRtx_frame s orc
    have hR1 : RW (gatherRtx s orc).1 := RW_congr a1 a2 a3 a4 hR
    obtain ⟨n1, n2, n3, n4, n5, n6⟩ := gatherNew_spec orc.allow (gatherRtx s orc).2.2 (gatherRtx s orc).1 sel hR1
    obtain ⟨f1, f2, f3, f4, f5, f6, _⟩ := gatherFast_frame (gatherNew (gatherRtx s orc).1 orc.allow (gatherRtx s orc).2.2 sel).1 orc.allow
      (gatherNew (gatherRtx s orc).1 orc.allow (gatherRtx s orc).2.2 sel).2.b
    simp only
    refine ⟨?_, ?_, ?_, n5, ?_, ?_⟩
    · exact RW_congr (s := (gatherFast _ orc.allow _).1) rfl rfl rfl rfl (RW_congr f1 f2 f3 f4 n1)
    · exact f3.trans (n2.trans a3)
    · exact f6.trans (n3.trans a6)
    · intro hw
      have hw' : (gatherFast (gatherNew (gatherRtx s orc).1 orc.allow (gatherRtx s orc).2.2 sel).1 orc.allow
        (gatherNew (gatherRtx s orc).1 orc.allow (gatherRtx s orc).2.2 sel).2.b).1.wrapWin = false := hw
      rw [f4] at hw'
      obtain ⟨w1, w2⟩ := n6 hw'
      rw [a4] at w1; rw [a3] at w2
      exact ⟨w1, w2⟩
    · intro p hp
      simp only [GatherOut.packets, List.mem_append] at hp
      have hfitR := gatherRtx_fit s orc
      have hfitN : AllFit s.cfg.mtu s.cfg.useInterleaving
          ((gatherNew (gatherRtx s orc).1 orc.allow (gatherRtx s orc).2.2 sel).2.admits.map (·.chunk)) := by
        have := n4; rw [a6] at this; exact this
      have hfitF := gatherFast_fit (gatherNew (gatherRtx s orc).1 orc.allow (gatherRtx s orc).2.2 sel).1 orc.allow
          (gatherNew (gatherRtx s orc).1 orc.allow (gatherRtx s orc).2.2 sel).2.b
      rw [n3, a6] at hfitF
      have fin : ∀ l : List Chunk, AllFit s.cfg.mtu s.cfg.useInterleaving l → p ∈ bundle s.cfg.mtu s.cfg.useInterleaving l [] hdr →
          p ≠ [] ∧ marshalLen s.cfg.useInterleaving p ≤ (s.cfg.mtu.toNat : Int) := by
        intro l hl hp
        refine ⟨bundle_nonempty _ _ l [] hdr (by simp [sipSum]) hl (Or.inr rfl) p hp, ?_⟩
        rw [marshalLen_eq]
        refine bundle_fits _ _ l [] hdr (by simp [sipSum]) ?_ hl p hp
        simp only [sipSum, hdr, commonHeaderSize]
        by_cases hl0 : l = []
        · subst hl0; simp [bundle] at hp
        · obtain ⟨c, hc⟩ := List.exists_mem_of_ne_nil l hl0
          have := hl c hc
          have := (sizeInPacket_nonneg s.cfg.useInterleaving c).1
          simp only [hdr, commonHeaderSize] at *
          omega
      rcases hp with (hp | hp) | hp
      · exact fin _ hfitR hp
      · split at hp
        · simp at hp
        · exact fin _ hfitN hp
      · split at hp
        · simp at hp
        · exact fin _ hfitF hp

end SenderProofs
