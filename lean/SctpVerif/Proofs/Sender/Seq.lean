import SctpVerif.Proofs.Sender.Core
/-! TSN contiguity of the in-flight queue, and its consequence: a SACK that passes the validation at the head of
`processSelectiveAck` is applied completely — the "error after the state was already modified" returns are unreachable. -/
namespace SenderProofs
open Gen Sender

/-- the chunks carry consecutive TSNs starting at `t` -/
def Contig : List Chunk → BitVec 32 → Prop
  | [], _ => True
  | c :: r, t => c.tsn = t ∧ Contig r (t + 1)

theorem contig_of_tsns {q q' : List Chunk} {t : BitVec 32} (h : q'.map (·.tsn) = q.map (·.tsn)) (hc : Contig q t) : Contig q' t := by
  induction q generalizing q' t with
  | nil => cases q' with
    | nil => trivial
    | cons _ _ => simp at h
  | cons c r ih => cases q' with
    | nil => simp at h
    | cons c' r' =>
      simp only [List.map_cons, List.cons.injEq] at h
      exact ⟨h.1.trans hc.1, ih h.2 hc.2⟩

theorem tsns_of_core {q q' : List Chunk} (h : q'.map Chunk.core = q.map Chunk.core) : q'.map (·.tsn) = q.map (·.tsn) := by
  have : ∀ l : List Chunk, l.map (·.tsn) = (l.map Chunk.core).map (·.1) := by
    intro l; induction l with
    | nil => rfl
    | cons x r ih => simp [Chunk.core, ih]
  rw [this, this, h]

theorem contig_append (q : List Chunk) (t : BitVec 32) (c : Chunk) (hc : Contig q t) (ht : c.tsn = t + BitVec.ofNat 32 q.length) :
    Contig (q ++ [c]) t := by
  induction q generalizing t with
  | nil => simp [Contig] at *; simpa using ht
  | cons x r ih =>
    refine ⟨hc.1, ih (t + 1) hc.2 ?_⟩
    rw [ht]; simp only [List.length_cons]
    apply BitVec.eq_of_toNat_eq
    simp [BitVec.toNat_add, BitVec.toNat_ofNat]
    omega

theorem contig_getElem {q : List Chunk} {t : BitVec 32} (hc : Contig q t) {i : Nat} {c : Chunk} (h : q[i]? = some c) :
    c.tsn = t + BitVec.ofNat 32 i := by
  induction q generalizing t i with
  | nil => simp at h
  | cons x r ih =>
    cases i with
    | zero => simp at h; subst h; simpa using hc.1
    | succ n =>
      simp at h
      rw [ih hc.2 h]
      apply BitVec.eq_of_toNat_eq
      simp [BitVec.toNat_add, BitVec.toNat_ofNat]
      omega

/-- `get` on a contiguous queue starting at `t`: success iff the offset is inside the queue -/
theorem get_contig {q : List Chunk} {t : BitVec 32} (hc : Contig q t) (tsn : BitVec 32) :
    (Sender.get q tsn).isSome = decide ((tsn - t).toNat < q.length) := by
  cases q with
  | nil => simp [Sender.get]
  | cons f r =>
    have hf : f.tsn = t := hc.1
    unfold Sender.get
    simp only [hf]
    by_cases h : (tsn - t).toNat < (f :: r).length
    · have h' : ¬ (tsn - t).toNat ≥ (f :: r).length := by omega
      rw [if_neg h', List.getElem?_eq_getElem h]
      simp only [Option.map_some, Option.isSome_some]
      exact (decide_eq_true h).symm
    · have h' : (tsn - t).toNat ≥ (f :: r).length := by omega
      rw [if_pos h']
      simp only [Option.isSome_none]
      exact (decide_eq_false h).symm

theorem popCum_stop (exitPt : BitVec 32) (q : List Chunk) (idx cum : BitVec 32) (a : CumAcc) (h : sna32LTE idx cum = false) :
    popCum exitPt q idx cum a = some (q, a) := by
  cases q with
  | nil => rw [popCum]; simp [h]
  | cons c r => rw [popCum]; simp [h]

/-- the cumulative-ack loop on a contiguous queue: never fails when the acknowledged TSN is inside the queue -/
theorem popCum_total (exitPt : BitVec 32) (q : List Chunk) (idx cum : BitVec 32) (a : CumAcc)
    (hc : Contig q idx) (hin : (cum - idx).toNat < q.length) (hd : (cum - idx).toNat < 2^31 - 1) :
    ∃ a', popCum exitPt q idx cum a = some (q.drop ((cum - idx).toNat + 1), a') := by
  induction q generalizing idx a with
  | nil => simp at hin
  | cons c r ih =>
    have hle : sna32LTE idx cum = true := by
      simp only [sna32LTE, sna32LT, Bool.or_eq_true, beq_iff_eq, Bool.and_eq_true, decide_eq_true_eq]
      by_cases he : idx = cum
      · exact Or.inl he
      · right; bv_omega
    have htsn : (c.tsn == idx) = true := by simp [hc.1]
    rw [popCum, if_pos hle, if_pos htsn]
    by_cases he : cum = idx
    · subst he
      have hstop : sna32LTE (cum + 1) cum = false := by
        simp only [sna32LTE, sna32LT, Bool.or_eq_false_iff, beq_eq_false_iff_ne, Bool.and_eq_false_iff, decide_eq_false_iff_not]
        refine ⟨by bv_omega, ?_⟩
        constructor <;> bv_omega
      rw [popCum_stop _ _ _ _ _ hstop]
      have hz : (cum - cum).toNat + 1 = 1 := by simp
      rw [hz]
      exact ⟨_, rfl⟩
    · have h1 : (cum - (idx + 1)).toNat = (cum - idx).toNat - 1 := by bv_omega
      have h2 : 0 < (cum - idx).toNat := by
        rcases Nat.eq_zero_or_pos (cum - idx).toNat with h | h
        · exfalso; apply he; bv_omega
        · exact h
      obtain ⟨a', ha'⟩ := ih (idx + 1) _ hc.2 (by rw [h1]; simp only [List.length_cons] at hin; omega) (by rw [h1]; omega)
      refine ⟨a', ?_⟩
      rw [ha', h1]
      have : (cum - idx).toNat - 1 + 1 = (cum - idx).toNat := by omega
      rw [this]
      cases hk : (cum - idx).toNat with
      | zero => omega
      | succ k => simp

theorem contig_drop (q : List Chunk) (t : BitVec 32) (k : Nat) (hc : Contig q t) : Contig (q.drop k) (t + BitVec.ofNat 32 k) := by
  induction k generalizing q t with
  | zero => simpa using hc
  | succ n ih =>
    cases q with
    | nil => simp [Contig]
    | cons x r =>
      simp only [List.drop_succ_cons]
      have := ih r (t + 1) hc.2
      have e : t + 1 + BitVec.ofNat 32 n = t + BitVec.ofNat 32 (n + 1) := by
        apply BitVec.eq_of_toNat_eq
        simp [BitVec.toNat_add, BitVec.toNat_ofNat]; omega
      rw [← e]; exact this


/-! ### the gap-ack loop never fails on a contiguous queue when the blocks lie inside it -/

theorem markOne_total (a : GapAcc) (t tsn : BitVec 32) (hc : Contig a.q t) (hin : (tsn - t).toNat < a.q.length) :
    ∃ a', markOne a tsn = some a' ∧ Contig a'.q t ∧ a'.q.length = a.q.length := by
  have hs := get_contig hc tsn
  rw [decide_eq_true hin] at hs
  cases hg : Sender.get a.q tsn with
  | none => rw [hg] at hs; cases hs
  | some oc =>
    obtain ⟨off, c⟩ := oc
    have hq := get_some hg
    unfold markOne
    simp only [hg]
    refine ⟨_, rfl, ?_, ?_⟩
    · simp only
      split
      · exact contig_of_tsns (map_tsn_set hq (show c.markAcked.tsn = c.tsn from rfl)) hc
      · exact hc
    · simp only
      split
      · simp
      · rfl

theorem markRange_total (cum t : BitVec 32) (is : List Nat) (a : GapAcc) (hc : Contig a.q t)
    (hin : ∀ i ∈ is, (cum + BitVec.ofNat 32 i - t).toNat < a.q.length) :
    ∃ a', markRange cum is a = some a' ∧ Contig a'.q t ∧ a'.q.length = a.q.length := by
  induction is generalizing a with
  | nil => exact ⟨a, rfl, hc, rfl⟩
  | cons i r ih =>
    obtain ⟨a1, h1, h2, h3⟩ := markOne_total a t (cum + BitVec.ofNat 32 i) hc (hin i (by simp))
    obtain ⟨a2, k1, k2, k3⟩ := ih a1 h2 (fun j hj => by rw [h3]; exact hin j (by simp [hj]))
    exact ⟨a2, by simp only [markRange, h1]; exact k1, k2, k3.trans h3⟩

theorem markGaps_total (cum : BitVec 32) (gaps : List (BitVec 16 × BitVec 16)) (a : GapAcc) (hc : Contig a.q (cum + 1))
    (hin : ∀ g ∈ gaps, 1 ≤ g.1.toNat ∧ g.2.toNat ≤ a.q.length) :
    ∃ a', markGaps cum gaps a = some a' ∧ Contig a'.q (cum + 1) ∧ a'.q.length = a.q.length := by
  induction gaps generalizing a with
  | nil => exact ⟨a, rfl, hc, rfl⟩
  | cons g r ih =>
    obtain ⟨st, en⟩ := g
    obtain ⟨g1, g2⟩ := hin (st, en) (by simp)
    simp only at g1 g2
    have hr : ∀ i ∈ List.range' st.toNat (en.toNat + 1 - st.toNat), (cum + BitVec.ofNat 32 i - (cum + 1)).toNat < a.q.length := by
      intro i hi
      simp only [List.mem_range'_1] at hi
      have hen := en.isLt
      have : (cum + BitVec.ofNat 32 i - (cum + 1)).toNat = i - 1 := by
        have hi32 : i < 2^32 := by omega
        have e : (BitVec.ofNat 32 i).toNat = i := by simp [BitVec.toNat_ofNat]; omega
        bv_omega
      rw [this]; omega
    obtain ⟨a1, h1, h2, h3⟩ := markRange_total cum (cum + 1) _ a hc hr
    obtain ⟨a2, k1, k2, k3⟩ := ih a1 h2 (fun g hg => by rw [h3]; exact hin g (by simp [hg]))
    exact ⟨a2, by simp only [markGaps, h1]; exact k1, k2, k3.trans h3⟩

theorem ofNat_succ_toNat (d : BitVec 32) : BitVec.ofNat 32 (d.toNat + 1) = d + 1 := by
  apply BitVec.eq_of_toNat_eq
  simp [BitVec.toNat_add, BitVec.toNat_ofNat]

theorem tsn_shift (a c : BitVec 32) (len : Nat) (h : (c - (a + 1)).toNat < len) :
    a + 1 + BitVec.ofNat 32 len = c + 1 + BitVec.ofNat 32 (len - ((c - (a + 1)).toNat + 1)) := by
  have e1 : len = (len - ((c - (a + 1)).toNat + 1)) + ((c - (a + 1)).toNat + 1) := by omega
  conv => lhs; rw [e1]
  rw [BitVec.ofNat_add, ofNat_succ_toNat]
  generalize BitVec.ofNat 32 (len - ((c - (a + 1)).toNat + 1)) = X
  bv_omega

theorem drop_start (a c : BitVec 32) : a + 1 + BitVec.ofNat 32 ((c - (a + 1)).toNat + 1) = c + 1 := by
  rw [ofNat_succ_toNat]; bv_omega

theorem onCumAdvanced_seq (s : St) (total : Int) :
    (onCumAdvanced s total).cumAck = s.cumAck ∧ (onCumAdvanced s total).myNextTSN = s.myNextTSN := by
  unfold onCumAdvanced
  split
  · split
    · exact ⟨rfl, rfl⟩
    · exact ⟨rfl, rfl⟩
  · simp only
    split
    · exact ⟨rfl, rfl⟩
    · exact ⟨rfl, rfl⟩

/-- the in-flight queue is TSN-contiguous from the cumulative ack point to `myNextTSN` -/
def Seq (s : St) : Prop :=
  Contig s.inflight (s.cumAck + 1) ∧ s.myNextTSN = s.cumAck + 1 + BitVec.ofNat 32 s.inflight.length

/-- **A validated SACK is applied completely**: on a contiguous queue, after the validation at the head of
`processSelectiveAck` has passed (and the SACK is not stale), neither loop can hit its error return. -/
theorem ackPhase_total (s : St) (cum : BitVec 32) (gaps : List (BitVec 16 × BitVec 16)) (hseq : Seq s)
    (hstale : sna32GT s.cumAck cum = false) (hval : validate s cum gaps = true) :
    ∃ r, ackPhase s cum gaps = some r ∧ Seq r.1 := by
  obtain ⟨hc, hnext⟩ := hseq
  simp only [validate, Bool.and_eq_true, List.all_eq_true] at hval
  obtain ⟨hv1, hv2⟩ := hval
  -- the blocks, read against the queue as it is before the pops
  have hgap : ∀ g ∈ gaps, g.1 ≠ 0 ∧ g.1 ≤ g.2 ∧ (cum + BitVec.setWidth 32 g.1 - (s.cumAck + 1)).toNat < s.inflight.length ∧
      (cum + BitVec.setWidth 32 g.2 - (s.cumAck + 1)).toNat < s.inflight.length := by
    intro g hg
    have := hv2 g hg
    obtain ⟨st, en⟩ := g
    simp only [Bool.and_eq_true, bne_iff_ne, ne_eq, decide_eq_true_eq] at this
    obtain ⟨⟨⟨h1, h2⟩, h3⟩, h4⟩ := this
    rw [get_contig hc] at h3
    have h3' := of_decide_eq_true h3
    refine ⟨h1, h2, h3', ?_⟩
    by_cases he : cum + BitVec.setWidth 32 en = cum + BitVec.setWidth 32 st
    · show (cum + BitVec.setWidth 32 en - (s.cumAck + 1)).toNat < _
      rw [he]; exact h3'
    · simp only [he, not_false_eq_true, if_true, bne_iff_ne, ne_eq] at h4
      rw [get_contig hc] at h4
      exact of_decide_eq_true h4
  by_cases hadv : sna32LT s.cumAck cum = true
  · -- the cumulative point advances: pops, then marks
    simp only [hadv, if_true, Bool.and_eq_true] at hv1
    have hv1' := hv1.2
    rw [get_contig hc] at hv1'
    have hin : (cum - (s.cumAck + 1)).toNat < s.inflight.length := of_decide_eq_true hv1'
    have hd : (cum - (s.cumAck + 1)).toNat < 2^31 - 1 := by
      simp only [sna32LT, Bool.or_eq_true, Bool.and_eq_true, decide_eq_true_eq] at hadv
      bv_omega
    obtain ⟨a1, hp⟩ := popCum_total s.fastRecoverExitPoint s.inflight (s.cumAck + 1) cum
      { infBytes := s.infBytes, rel := [], inFR := s.inFastRecovery } hc hin hd
    have hcq : Contig (s.inflight.drop ((cum - (s.cumAck + 1)).toNat + 1)) (cum + 1) := by
      have := contig_drop s.inflight (s.cumAck + 1) ((cum - (s.cumAck + 1)).toNat + 1) hc
      rw [drop_start] at this; exact this
    have hdl : (s.inflight.drop ((cum - (s.cumAck + 1)).toNat + 1)).length = s.inflight.length - ((cum - (s.cumAck + 1)).toNat + 1) := by simp
    obtain ⟨g, hg, hgc, hgl⟩ := markGaps_total cum gaps
      { q := s.inflight.drop ((cum - (s.cumAck + 1)).toNat + 1), infBytes := a1.infBytes, rel := a1.rel, htna := cum } hcq
      (by
        intro g hgm
        obtain ⟨h1, h2, h3, h4⟩ := hgap g hgm
        obtain ⟨st, en⟩ := g
        have hst := st.isLt
        have hen := en.isLt
        have e4 : (cum + BitVec.setWidth 32 en - (s.cumAck + 1)).toNat = (cum - (s.cumAck + 1)).toNat + en.toNat := by
          have : (BitVec.setWidth 32 en).toNat = en.toNat := by simp [BitVec.toNat_setWidth]; omega
          bv_omega
        refine ⟨?_, ?_⟩
        · rcases Nat.eq_zero_or_pos st.toNat with h | h
          · exact absurd (BitVec.eq_of_toNat_eq (by simpa using h)) h1
          · exact h
        · show en.toNat ≤ (s.inflight.drop _).length
          rw [hdl]; simp only at h4; omega)
    have hph : ackPhase s cum gaps = some (ackApply s cum g a1.inFR, g.htna, sna32LT s.cumAck cum) := by
      unfold ackPhase; rw [hp]; simp only; rw [hg]
    refine ⟨_, hph, ?_⟩
    -- contiguity of the result
    simp only [ackApply, hadv, if_true]
    obtain ⟨f1, f2, f3, f4, f5, f6, f7, f8, f9, f10, f11, f12, f13, _⟩ := releaseAll_frame g.rel
      (onCumAdvanced { s with inflight := g.q, infBytes := g.infBytes, inFastRecovery := a1.inFR, cumAck := cum } (relTotal g.rel))
    have o1 := (onCumAdvanced_same { s with inflight := g.q, infBytes := g.infBytes, inFastRecovery := a1.inFR, cumAck := cum } (relTotal g.rel)).2
    obtain ⟨o2, o3⟩ := onCumAdvanced_seq { s with inflight := g.q, infBytes := g.infBytes, inFastRecovery := a1.inFR, cumAck := cum } (relTotal g.rel)
    refine ⟨by rw [f7, f12, o1, o2]; exact hgc, ?_⟩
    rw [f13, f12, f7, o1, o2, o3, hnext, hgl, hdl]
    exact tsn_shift s.cumAck cum s.inflight.length hin
  · -- same cumulative point: no pop, only marks
    have hadv' : sna32LT s.cumAck cum = false := by simpa using hadv
    have heq : cum = s.cumAck := by
      simp only [sna32LT, sna32GT, Bool.or_eq_false_iff, Bool.and_eq_false_iff, decide_eq_false_iff_not] at hadv' hstale
      bv_omega
    subst heq
    have hstop : sna32LTE (s.cumAck + 1) s.cumAck = false := by
      simp only [sna32LTE, sna32LT, Bool.or_eq_false_iff, beq_eq_false_iff_ne, Bool.and_eq_false_iff, decide_eq_false_iff_not]
      refine ⟨by bv_omega, ?_⟩
      constructor <;> bv_omega
    have hp := popCum_stop s.fastRecoverExitPoint s.inflight (s.cumAck + 1) s.cumAck
      { infBytes := s.infBytes, rel := [], inFR := s.inFastRecovery } hstop
    obtain ⟨g, hg, hgc, hgl⟩ := markGaps_total s.cumAck gaps
      { q := s.inflight, infBytes := s.infBytes, rel := [], htna := s.cumAck } hc
      (by
        intro g hgm
        obtain ⟨h1, h2, h3, h4⟩ := hgap g hgm
        obtain ⟨st, en⟩ := g
        have hen := en.isLt
        have e4 : (s.cumAck + BitVec.setWidth 32 en - (s.cumAck + 1)).toNat = en.toNat - 1 ∨ en.toNat = 0 := by
          have : (BitVec.setWidth 32 en).toNat = en.toNat := by simp [BitVec.toNat_setWidth]; omega
          rcases Nat.eq_zero_or_pos en.toNat with h | h
          · exact Or.inr h
          · left; bv_omega
        have hst1 : 1 ≤ st.toNat := by
          rcases Nat.eq_zero_or_pos st.toNat with h | h
          · exact absurd (BitVec.eq_of_toNat_eq (by simpa using h)) h1
          · exact h
        refine ⟨hst1, ?_⟩
        show en.toNat ≤ s.inflight.length
        have : st.toNat ≤ en.toNat := by simpa [BitVec.le_def] using h2
        simp only at h4
        rcases e4 with e | e
        · rw [e] at h4; omega
        · omega)
    have hph : ackPhase s s.cumAck gaps = some (ackApply s s.cumAck g s.inFastRecovery, g.htna, sna32LT s.cumAck s.cumAck) := by
      unfold ackPhase; rw [hp]; simp only; rw [hg]
    refine ⟨_, hph, ?_⟩
    simp only [ackApply, hadv', Bool.false_eq_true, if_false]
    obtain ⟨f1, f2, f3, f4, f5, f6, f7, f8, f9, f10, f11, f12, f13, _⟩ := releaseAll_frame g.rel
      { s with inflight := g.q, infBytes := g.infBytes, inFastRecovery := s.inFastRecovery }
    refine ⟨by rw [f7, f12]; exact hgc, ?_⟩
    rw [f13, f12, f7]
    show s.myNextTSN = s.cumAck + 1 + BitVec.ofNat 32 g.q.length
    rw [hgl]; exact hnext


/-! ### contiguity along runs -/

theorem SameAcct.seq {s s' : St} (h : SameAcct s s') (hs : Seq s) : Seq s' := by
  obtain ⟨hc, hn⟩ := hs
  have ht := tsns_of_core h.2.2.2.2.2.2.2.2.2.2.2.2.2
  have hl : s'.inflight.length = s.inflight.length := by
    have := congrArg List.length ht; simpa using this
  exact ⟨by rw [h.2.2.2.2.2.2.2.2.2.2.2.1]; exact contig_of_tsns ht hc, by rw [h.2.2.2.2.2.2.2.2.2.2.2.2.1, h.2.2.2.2.2.2.2.2.2.2.2.1, hl]; exact hn⟩

theorem gatherRtx_sameAcct (s : St) (orc : Oracle) : SameAcct s (gatherRtx s orc).1 := by
  obtain ⟨a1, a2, a3, a4, a5, a6, a7, a8, a9, a10, a11, a12, a13⟩ := gatherRtx_frame s orc
  exact ⟨a1, a2, a3, a4, a6, a7, a8, a9, a10, a11, a12, rfl, rfl, a13⟩

theorem gatherFast_sameAcct {B : Type} (s : St) (allow : B → Int → Bool × B) (b : B) : SameAcct s (gatherFast s allow b).1 := by
  obtain ⟨a1, a2, a3, a4, a5, a6, a7, a8, a9, a10, a11, a12, a13⟩ := gatherFast_frame s allow b
  refine ⟨a1, a2, a3, a4, a6, a7, a8, a9, a10, a11, a12, ?_, ?_, a13⟩
  · unfold gatherFast; split <;> rfl
  · unfold gatherFast; split <;> rfl

theorem move_seq (s : St) (i : Nat) (c : Chunk) (hs : Seq s) : Seq (move s i c).1 := by
  obtain ⟨hc, hn⟩ := hs
  refine ⟨?_, ?_⟩
  · simp only [move, popPend]
    exact contig_append _ _ _ hc (by simp only; exact hn)
  · simp only [move, popPend, List.length_append, List.length_singleton]
    rw [hn]
    apply BitVec.eq_of_toNat_eq
    simp [BitVec.toNat_add, BitVec.toNat_ofNat]; omega

theorem popLoop_seq {B : Type} (allow : B → Int → Bool × B) (fuel : Nat) (s : St) (sel : List Nat) (a : PopAcc B) (hs : Seq s) :
    Seq (popLoop allow fuel s sel a).1 := by
  induction fuel generalizing s sel a with
  | zero => exact hs
  | succ fuel ih =>
    simp only [popLoop]
    cases hp : peek s sel with
    | none => exact hs
    | some ic =>
      obtain ⟨i, c⟩ := ic
      simp only
      split
      · exact ih _ _ _ (show Seq (popPend s i c) from hs)
      · cases hd : popDecide s allow a c with
        | skip => exact hs
        | stop b => exact hs
        | take b bip => simp only; exact ih _ _ _ (move_seq (chargeSend s c) i c hs)

theorem probe_seq {B : Type} (allow : B → Int → Bool × B) (s : St) (sel : List Nat) (a : PopAcc B) (hs : Seq s) :
    Seq (probe allow s sel a).1 := by
  unfold probe
  split
  · cases hp : peek s sel with
    | none => exact hs
    | some ic =>
      obtain ⟨i, c⟩ := ic
      simp only
      split
      · split
        · split
          · exact move_seq (chargeProbe s c) i c hs
          · exact hs
        · exact hs
      · exact hs
  · exact hs

theorem gather_seq (s : St) (orc : Oracle) (sel : List Nat) (hs : Seq s) : Seq (gather s orc sel).1 := by
  unfold gather
  split
  · exact hs
  · simp only
    have b1 : Seq (gatherRtx s orc).1 := (gatherRtx_sameAcct s orc).seq hs
    have b2 : Seq (gatherNew (gatherRtx s orc).1 orc.allow (gatherRtx s orc).2.2 sel).1 := by
      unfold gatherNew
      split
      · exact probe_seq _ _ _ _ (popLoop_seq _ _ _ _ _ b1)
      · exact b1
    exact (gatherFast_sameAcct _ orc.allow _).seq b2

theorem sack_seq (s : St) (cum arwnd : BitVec 32) (gaps : List (BitVec 16 × BitVec 16)) (marks : List (BitVec 32))
    (hs : Seq s) (hm : s.cfg.mtu.toNat < 2^30) : Seq (sack s cum arwnd gaps marks).1 := by
  unfold sack
  split
  · exact hs
  · rename_i hest
    split
    · exact hs
    · rename_i hst
      split
      · exact hs
      · rename_i hv
        obtain ⟨r, hr, hrs⟩ := ackPhase_total s cum gaps hs (by simpa using hst) (by simpa using hv)
        simp only [hr]
        have hcfg := (ackPhase_win hr).1
        have hm' : (setPeerWindow r.1 arwnd).cfg.mtu.toNat < 2^30 := by show r.1.cfg.mtu.toNat < 2^30; rw [hcfg]; exact hm
        have f1 := (fastRetransCheck_frame (setPeerWindow r.1 arwnd) cum gaps r.2.1 r.2.2 hm').1
        have s0 : Seq (setPeerWindow r.1 arwnd) := hrs
        split
        · exact f1.seq s0
        · have p1 := (prStep_frame (fastRetransCheck (setPeerWindow r.1 arwnd) cum gaps r.2.1 r.2.2).1).1
          have m1 := (applyMarks_frame (prStep (fastRetransCheck (setPeerWindow r.1 arwnd) cum gaps r.2.1 r.2.2).1) marks).1
          exact (SameAcct.trans f1 (SameAcct.trans p1 m1)).seq s0

theorem write_seq (s : St) (si : BitVec 16) (ppi : BitVec 32) (len : Nat) (hs : Seq s) : Seq (write s si ppi len).1 := by
  unfold write
  cases hst : s.streams si with
  | none => exact hs
  | some st =>
    simp only
    split
    · exact hs
    · split
      · exact hs
      · split
        · exact hs
        · split <;> exact hs

theorem iter_t3_sameAcct (n : Nat) (s : St) : SameAcct s (iter t3 n s) := by
  induction n generalizing s with
  | zero => exact SameAcct.refl s
  | succ n ih => exact SameAcct.trans (t3_frame s).1 (ih (t3 s))

theorem step_seq (s : St) (op : Op) (hs : Seq s) (hm : CfgOk s.cfg) : Seq (step s op) := by
  cases op with
  | openS si u rt rv th => exact hs
  | unreg si =>
    simp only [step, unregister]
    split <;> exact hs
  | setEstablished b => exact hs
  | write si ppi len => exact write_seq s si ppi len hs
  | gather orc sel => exact gather_seq s orc sel hs
  | sack cum arwnd gaps marks => exact sack_seq s cum arwnd gaps marks hs hm
  | t3 => exact (t3_frame s).1.seq hs
  | tick ms n marks =>
    have h1 : SameAcct s { s with now := s.now + ms } := ⟨rfl, rfl, rfl, rfl, rfl, rfl, rfl, rfl, rfl, rfl, rfl, rfl, rfl, rfl⟩
    exact (SameAcct.trans h1 (SameAcct.trans (iter_t3_sameAcct n _) (applyMarks_frame _ marks).1)).seq hs

theorem run_seq (s : St) (ops : List Op) (hs : Seq s) (hw : WinInv s) : Seq (run s ops) := by
  induction ops generalizing s with
  | nil => exact hs
  | cons op ops ih => exact ih (step s op) (step_seq s op hs hw.cfgOk) (step_win s op hw).1

theorem init_seq (cfg : Cfg) (tsn peerRwnd : BitVec 32) : Seq (init cfg tsn peerRwnd) := by
  refine ⟨trivial, ?_⟩
  simp only [init, List.length_nil]
  bv_omega

end SenderProofs
