import SctpVerif.Proofs.Sender.Arith
/-! The gather loops: every chunk they hand to `bundle` fits into a packet of its own, and they only touch
flags (`retransmit`, `nSent`, `since`), never the identity / payload length of an in-flight chunk. -/
namespace SenderProofs
open Gen Sender

theorem allFit_snoc {mtu il} {l : List Chunk} {c : Chunk} (h : AllFit mtu il l) (hc : hdr + c.sizeInPacket il ≤ (mtu.toNat : Int)) :
    AllFit mtu il (l ++ [c]) := by
  intro x hx
  rcases List.mem_append.mp hx with h1 | h1
  · exact h x h1
  · simp at h1; subst h1; exact hc

theorem sip_congr (il : Bool) (c c' : Chunk) (h : c'.len = c.len) : c'.sizeInPacket il = c.sizeInPacket il := by
  simp [Chunk.sizeInPacket, h]

/-- what `packAllow` has established when it takes a chunk -/
theorem packAllow_take {B : Type} (allow : B → Int → Bool × B) (b : B) (mtu : BitVec 32) (abip cb : Int) (full tooBig : Bool)
    (hfull : full = decide (abip + cb > (mtu.toNat : Int))) (htb : tooBig = decide (cb + hdr > (mtu.toNat : Int)))
    (hinv : abip = 0 ∨ hdr ≤ abip) (hcb : 0 ≤ cb) {b' : B} {bip' : Int}
    (h : packAllow allow b abip cb full tooBig = .take b' bip') :
    hdr + cb ≤ (mtu.toNat : Int) ∧ hdr ≤ bip' ∧ bip' ≤ (mtu.toNat : Int) := by
  subst hfull htb
  unfold packAllow bip0 at h
  simp only [hdr, commonHeaderSize] at *
  by_cases h0 : abip = 0
  · subst h0
    simp at h
    split at h
    · cases h
    · split at h
      · cases h
      · cases h; omega
  · have h12 : (12:Int) ≤ abip := by rcases hinv with h1 | h1; exact absurd h1 h0; simpa using h1
    by_cases hf : abip + cb > (mtu.toNat : Int)
    · simp [h0, hf] at h
      split at h
      · cases h
      · split at h
        · cases h
        · cases h; omega
    · simp [h0, hf] at h
      split at h
      · cases h
      · cases h; omega

/-- loop accumulator invariant of the gather loops -/
def AccOk {B : Type} (mtu : BitVec 32) (il : Bool) (a : LoopAcc B) : Prop :=
  (a.bip = 0 ∨ hdr ≤ a.bip) ∧ AllFit mtu il a.out

/-- a decision function only takes chunks that fit -/
def DecFits {B : Type} (s : St) (dec : Int → LoopAcc B → Chunk → Take B) : Prop :=
  ∀ i a c b bip, (a.bip = 0 ∨ hdr ≤ a.bip) → dec i a c = .take b bip →
    hdr + c.sizeInPacket s.cfg.useInterleaving ≤ (s.cfg.mtu.toNat : Int) ∧ hdr ≤ bip

theorem scanLoop_fit {B : Type} (s : St) (dec : Int → LoopAcc B → Chunk → Take B) (upd : Chunk → Chunk)
    (hdec : DecFits s dec) (hupd : ∀ c, (upd c).len = c.len)
    (i : Int) (q : List Chunk) (a : LoopAcc B) (ha : AccOk s.cfg.mtu s.cfg.useInterleaving a) :
    AccOk s.cfg.mtu s.cfg.useInterleaving (scanLoop s dec upd i q a).2 := by
  induction q generalizing i a with
  | nil => simpa [scanLoop] using ha
  | cons c rest ih =>
    simp only [scanLoop]
    cases hd : dec i a c with
    | skip => exact ih _ _ ha
    | stop b => exact ha
    | take b bip =>
      have := hdec i a c b bip ha.1 hd
      apply ih
      exact ⟨Or.inr this.2, allFit_snoc ha.2 (by rw [sip_congr _ _ _ (hupd c)]; exact this.1)⟩

theorem rtxDecide_fits {B : Type} (s : St) (allow : B → Int → Bool × B) (awnd : BitVec 32) : DecFits s (rtxDecide s allow awnd) := by
  intro i a c b bip hinv h
  unfold rtxDecide at h
  split at h
  · cases h
  · split at h
    · cases h
    · split at h
      · cases h
      · have := packAllow_take allow a.b s.cfg.mtu a.bip _ _ _ (by simp [rtx_packetFull]) (by simp [rtx_firstTooBig]) hinv
          (by have := (sizeInPacket_nonneg s.cfg.useInterleaving c).1; omega) h
        exact ⟨this.1, this.2.1⟩

theorem fastDecide_fits {B : Type} (s : St) (allow : B → Int → Bool × B) (wnd : Int) : DecFits s (fastDecide s allow wnd) := by
  intro i a c b bip hinv h
  unfold fastDecide at h
  split at h
  · cases h
  · split at h
    · cases h
    · simp only at h
      split at h
      · cases h
      · have := packAllow_take allow a.b s.cfg.mtu a.bip _ _ _ (by simp [fastRtx_packetFull]) (by simp [fastRtx_firstTooBig]) hinv
          (by have := (sizeInPacket_nonneg s.cfg.useInterleaving c).1; omega) h
        exact ⟨this.1, this.2.1⟩

/-! ### identity of chunks -/

/-- what the accounting invariants look at -/
def Chunk.core (c : Chunk) : BitVec 32 × BitVec 16 × Nat × Bool × Nat := (c.tsn, c.si, c.len, c.acked, c.msg)

theorem scanLoop_core {B : Type} (s : St) (dec : Int → LoopAcc B → Chunk → Take B) (upd : Chunk → Chunk)
    (hupd : ∀ c, Chunk.core (upd c) = Chunk.core c) (i : Int) (q : List Chunk) (a : LoopAcc B) :
    (scanLoop s dec upd i q a).1.map Chunk.core = q.map Chunk.core := by
  induction q generalizing i a with
  | nil => simp [scanLoop]
  | cons c rest ih =>
    simp only [scanLoop]
    cases hd : dec i a c with
    | skip => simp [ih]
    | stop b => simp
    | take b bip => simp [ih, hupd]

theorem rtxUpd_core (s : St) (c : Chunk) : Chunk.core (rtxUpd s c) = Chunk.core c := rfl
theorem fastUpd_core (s : St) (c : Chunk) : Chunk.core (fastUpd s c) = Chunk.core c := rfl

end SenderProofs
