import SctpVerif.Proofs.Sender.Ssn
/-!
Identification of every chunk on the wire. In runs from `init` whose streams are all opened ordered and never
unregistered, every DATA / I-DATA chunk any gather puts on the wire is fragment `i` of the `k`-th accepted write on
its stream — with the SSN / MID / FSN / B / E / PPI / length that position dictates — and carries the TSN
`tsn + j`, `j` = the position of that fragment in the order in which fragments were moved to in flight. A fragment
identity occurs at most once among the written chunks, hence at most once among the moved ones: one fragment, one TSN.
-/
namespace SenderTsn
open SenderProofs
open Gen Sender
open NetSys (Write accepts)

theorem map_nodup_of_inj {α β : Type} (f : α → β) (l : List α)
    (h : ∀ (i j : Nat) (a b : α), l[i]? = some a → l[j]? = some b → f a = f b → i = j) : (l.map f).Nodup := by
  induction l with
  | nil => exact List.nodup_nil
  | cons x r ih =>
    rw [List.map_cons, List.nodup_cons]
    refine ⟨fun hm => ?_, ih (fun i j a b hi hj hf => ?_)⟩
    · obtain ⟨b, hb, hfb⟩ := List.mem_map.1 hm
      obtain ⟨j, hj⟩ := List.getElem?_of_mem hb
      have := h 0 (j + 1) x b (by simp) (by simpa using hj) hfb.symm
      omega
    · have := h (i + 1) (j + 1) a b (by simpa using hi) (by simpa using hj) hf
      omega

theorem mkChunks_frag_nodup (si : BitVec 16) (msg : Nat) (ppi : BitVec 32) (u : Bool) (ssn : BitVec 16) (mid : BitVec 32)
    (fs : List Nat) (hfs : fs.length ≤ 2^32) : ((mkChunks si msg ppi u ssn mid fs 0 true).map Chunk.frag).Nodup := by
  apply map_nodup_of_inj
  intro i j a b hi hj hf
  obtain ⟨_, _, _, _, _, _, a7, _, _, a10⟩ := mkChunks_get _ _ _ _ _ _ _ _ _ i a hi
  obtain ⟨_, _, _, _, _, _, b7, _, _, b10⟩ := mkChunks_get _ _ _ _ _ _ _ _ _ j b hj
  have hi' : i < fs.length := by
    rcases Nat.lt_or_ge i fs.length with h' | h'
    · exact h'
    · rw [List.getElem?_eq_none h'] at a10; cases a10
  have hj' : j < fs.length := by
    rcases Nat.lt_or_ge j fs.length with h' | h'
    · exact h'
    · rw [List.getElem?_eq_none h'] at b10; cases b10
  have hfsn : a.fsn = b.fsn := by
    have := congrArg (fun x => x.2.2.2.2.2.2.2.2) hf
    simpa [Chunk.frag] using this
  rw [a7, b7] at hfsn
  have hf' : BitVec.ofNat 32 i = BitVec.ofNat 32 j := by simpa using hfsn
  have := congrArg BitVec.toNat hf'
  simp only [BitVec.toNat_ofNat] at this
  omega

theorem writtenBy_msg (s : St) (op : Op) : ∀ c ∈ writtenBy s op, c.msg = s.nextMsg ∧ (step s op).nextMsg = s.nextMsg + 1 := by
  intro c hc
  have hne : writtenBy s op ≠ [] := List.ne_nil_of_mem hc
  refine ⟨?_, (step_nextMsg s op).2 hne⟩
  cases op with
  | write si ppi len =>
    simp only [writtenBy] at hc
    rcases writeChunks_cases s si ppi len with h | ⟨u, ssn, mid, h, _, _⟩
    · rw [h] at hc; cases hc
    · rw [h] at hc
      obtain ⟨i, hi⟩ := List.getElem?_of_mem hc
      exact (mkChunks_get _ _ _ _ _ _ _ _ _ i c hi).2.1
  | _ => cases hc

/-- **A fragment identity is created at most once**: along every run, the chunks created by the writes have pairwise
distinct fragment identities -/
theorem written_frag_nodup (s : St) (ops : List Op) : ((written s ops).map Chunk.frag).Nodup := by
  induction ops generalizing s with
  | nil => exact List.nodup_nil
  | cons op ops ih =>
    simp only [written, List.map_append]
    rw [List.nodup_append]
    refine ⟨?_, ih (step s op), ?_⟩
    · cases op with
      | write si ppi len =>
        simp only [writtenBy]
        rcases writeChunks_cases s si ppi len with h | ⟨u, ssn, mid, h, hlen, hmp⟩
        · rw [h]; exact List.nodup_nil
        · rw [h]
          apply mkChunks_frag_nodup
          have hmp' : 0 < s.cfg.maxPayload.toNat := by
            rcases Nat.eq_zero_or_pos s.cfg.maxPayload.toNat with h0 | h0
            · exact absurd (BitVec.eq_of_toNat_eq (by simpa using h0)) hmp
            · exact h0
          have := fragSizes_length_le s.cfg.maxPayload.toNat len hmp'
          have := s.cfg.maxMessageSize.isLt
          omega
      | _ => exact List.nodup_nil
    · intro fa ha fb hb hab
      obtain ⟨a, ha', rfl⟩ := List.mem_map.1 ha
      obtain ⟨b, hb', rfl⟩ := List.mem_map.1 hb
      have h1 := writtenBy_msg s op a ha'
      have h2 := written_msg_ge (step s op) ops b hb'
      have hm : a.msg = b.msg := by
        have := congrArg (fun x => x.2.1) hab
        simpa [Chunk.frag] using this
      omega

theorem moved_frag_nodup (cfg : Cfg) (tsn peerRwnd : BitVec 32) (ops : List Op) :
    ((moved (init cfg tsn peerRwnd) ops).map Chunk.frag).Nodup := by
  rw [List.nodup_iff_count]
  intro f
  have h1 := moved_count_le cfg tsn peerRwnd ops (fun x => x == f)
  have h2 := (List.nodup_iff_count.1 (written_frag_nodup (init cfg tsn peerRwnd) ops)) f
  rw [List.count_eq_countP] at h2 ⊢
  exact Nat.le_trans h1 h2

/-- the fragment identity of fragment `i` (of `n`) of the `k`-th accepted write `a` on its stream -/
def fragOf (il : Bool) (a : Write) (k i n : Nat) : Frag :=
  (a.si, a.msg, a.ppi, false, i == 0, i + 1 == n,
   (if il then BitVec.setWidth 16 (BitVec.ofNat 32 k) else BitVec.ofNat 16 k), (if il then BitVec.ofNat 32 k else 0), BitVec.ofNat 32 i)

/-- **Every chunk on the wire, identified.** -/
theorem wire_ident (cfg : Cfg) (tsn peerRwnd : BitVec 32) (lenOf : Nat → Nat) (ops : List Op)
    (ho : ∀ op ∈ ops, OrdOp op) (hl : LenOk lenOf (init cfg tsn peerRwnd) ops) :
    ∀ e ∈ wire (init cfg tsn peerRwnd) ops,
      ∃ (ws1 : List Write) (a : Write) (ws2 : List Write) (i : Nat),
        accepted (init cfg tsn peerRwnd) ops = ws1 ++ a :: ws2 ∧
        i < (fragSizes cfg.maxPayload.toNat (lenOf a.msg)).length ∧
        Chunk.frag e = fragOf cfg.useInterleaving a (cntOf ws1 a.si) i (fragSizes cfg.maxPayload.toNat (lenOf a.msg)).length ∧
        (fragSizes cfg.maxPayload.toNat (lenOf a.msg))[i]? = some e.len ∧
        ((moved (init cfg tsn peerRwnd) ops).map Chunk.frag).idxOf (Chunk.frag e) < (moved (init cfg tsn peerRwnd) ops).length ∧
        e.tsn = tsn + BitVec.ofNat 32 (((moved (init cfg tsn peerRwnd) ops).map Chunk.frag).idxOf (Chunk.frag e)) := by
  intro e he
  -- a faithful copy of a written chunk
  have hem := run_wire (W := []) (init cfg tsn peerRwnd) ops (init_wire cfg tsn peerRwnd) e he
  obtain ⟨_, w, hw, hfw, hlw⟩ := hem
  simp only [List.nil_append] at hw
  -- the written chunks are `gen` of the accepted writes
  obtain ⟨hgen, _⟩ := run_gen cfg.useInterleaving lenOf [] (init cfg tsn peerRwnd) ops (init_cinv _ cfg tsn peerRwnd) rfl ho hl
  rw [hgen] at hw
  obtain ⟨ws1, a, ws2, i, hacc, hi⟩ := gen_mem _ _ _ _ _ w hw
  have hcfg : (init cfg tsn peerRwnd).cfg = cfg := rfl
  rw [hcfg] at hi
  simp only [List.nil_append] at hi
  obtain ⟨g1, g2, g3, g4, g5, g6, g7, g8, g9, g10⟩ := grp_get _ _ _ _ _ i w hi
  have hilt : i < (fragSizes cfg.maxPayload.toNat (lenOf a.msg)).length := by
    rcases Nat.lt_or_ge i (fragSizes cfg.maxPayload.toNat (lenOf a.msg)).length with h' | h'
    · exact h'
    · rw [List.getElem?_eq_none h'] at g10; cases g10
  -- the TSN is that of a moved chunk
  obtain ⟨_, _, htsn, hfm, _⟩ := run_tsn cfg tsn peerRwnd ops
  obtain ⟨m, hm, hmt, hmf⟩ := hfm e he
  obtain ⟨j, hj⟩ := List.getElem?_of_mem hm
  have hjlt : j < (moved (init cfg tsn peerRwnd) ops).length := by
    rcases Nat.lt_or_ge j (moved (init cfg tsn peerRwnd) ops).length with h' | h'
    · exact h'
    · rw [List.getElem?_eq_none h'] at hj; cases hj
  have hnd := moved_frag_nodup cfg tsn peerRwnd ops
  have hjl' : j < ((moved (init cfg tsn peerRwnd) ops).map Chunk.frag).length := by simpa using hjlt
  have hidx := hnd.idxOf_getElem j hjl'
  have hget : ((moved (init cfg tsn peerRwnd) ops).map Chunk.frag)[j] = Chunk.frag e := by
    rw [List.getElem_map]
    have : (moved (init cfg tsn peerRwnd) ops)[j] = m := by
      rw [List.getElem?_eq_getElem hjlt] at hj
      exact Option.some.inj hj
    rw [this, hmf]
  rw [hget] at hidx
  refine ⟨ws1, a, ws2, i, hacc, hilt, ?_, by rw [hlw]; exact g10, by rw [hidx]; exact hjlt, ?_⟩
  · rw [hfw]
    simp only [Chunk.frag, fragOf, g1, g2, g3, g4, g5, g6, g7, g8, g9]
  · rw [hidx, ← hmt]
    exact htsn j m hj

end SenderTsn
