import SctpVerif.Proofs.Sender.AdvMsg
import SctpVerif.Proofs.Sender.Rtx
/-! Progress lemmas for the sender half (used by `Props/C02.lean`): T3 marks everything outstanding; the lowest marked chunk
is retransmitted whatever the windows are; the zero-window probe; a cumulative SACK removes what it covers; the
"gather, then acknowledge everything in flight" rounds drain every reachable state. -/
namespace SenderProofs
open Gen Sender

/-! ### T3 -/

theorem iter_succ' (f : St → St) (n : Nat) (s : St) : iter f (n + 1) s = f (iter f n s) := by
  induction n generalizing s with
  | zero => rfl
  | succ n ih =>
    show iter f (n + 1) (f s) = f (iter f (n + 1) s)
    rw [ih (f s)]
    rfl

/-- after T3 every in-flight chunk that is neither acked nor abandoned is flagged for retransmission -/
theorem t3_marks_all (s : St) : ∀ c ∈ (t3 s).inflight, c.acked = false → (t3 s).abandoned c = false → c.retransmit = true := by
  intro c hc ha hb
  rw [t3_inflight] at hc
  obtain ⟨c0, _, e⟩ := List.mem_map.mp hc
  have hab : (t3 s).abandoned c = s.abandoned c0 := by
    show isAbandoned (t3 s).abandonedMsgs (t3 s).allInflightMsgs c = isAbandoned s.abandonedMsgs s.allInflightMsgs c0
    rw [(t3_ab s).1, (t3_ab s).2]
    have : c.msg = c0.msg := by rw [← e]; split <;> rfl
    simp only [isAbandoned, this]
  by_cases h : (c0.acked || s.abandoned c0) = true
  · rw [if_pos h] at e
    subst e
    rw [hab] at hb
    simp only [Bool.or_eq_true] at h
    rcases h with h | h
    · rw [h] at ha; cases ha
    · rw [h] at hb; cases hb
  · rw [if_neg h] at e
    rw [← e]

/-! ### shape of an accepted SACK -/

/-- an accepted SACK on a reachable state: `k` chunks are popped from the front, the rest of the queue keeps its
identities; pending queue, configuration, state and the SACK's cumulative point are as expected -/
theorem sack_ok_shape (s : St) (cum arwnd : BitVec 32) (gaps : List (BitVec 16 × BitVec 16)) (marks : List (BitVec 32))
    (hs : Seq s) (hsm : s.inflight.length < 2^31) (hm : CfgOk s.cfg) (he : s.established = true) (hst : sna32GT s.cumAck cum = false)
    (hv : validate s cum gaps = true) :
    (sack s cum arwnd gaps marks).2 = .ok ∧
    ∃ k, k ≤ s.inflight.length ∧ cum = s.cumAck + BitVec.ofNat 32 k ∧
      (sack s cum arwnd gaps marks).1.inflight.map Chunk.ident = (s.inflight.drop k).map Chunk.ident ∧
      (sack s cum arwnd gaps marks).1.cumAck = cum ∧ (sack s cum arwnd gaps marks).1.pending = s.pending ∧
      (sack s cum arwnd gaps marks).1.established = true := by
  rcases sack_cases s cum arwnd gaps marks hs hsm with ⟨_, _, _, h | h | h⟩ | ⟨hok, _, _, _, r, hr, hrs, hcum, hfin⟩
  · rw [he] at h; cases h
  · rw [hst] at h; cases h
  · rw [hv] at h; cases h
  · refine ⟨hok, ?_⟩
    obtain ⟨p1, p2, p3, k, hk, p4⟩ := ackPhase_shape hr
    have hlen : r.1.inflight.length = s.inflight.length - k := by simpa using length_of_ident p4
    have hpop := popped_count hs hrs p2 hk hlen (by omega)
    rw [hcum] at hpop
    have c1 := fastRetransCheck_ctl (setPeerWindow r.1 arwnd) cum gaps r.2.1 r.2.2
    have i1 := fastRetransCheck_ident (setPeerWindow r.1 arwnd) cum gaps r.2.1 r.2.2
    obtain ⟨q1, q2, _, q4⟩ := prStep_same (fastRetransCheck (setPeerWindow r.1 arwnd) cum gaps r.2.1 r.2.2).1
    refine ⟨k, hk, hpop, ?_, ?_, ?_, ?_⟩
    · rw [hfin, applyMarks_ident, q1]; exact i1.trans p4
    · rw [hfin]
      show (prStep _).cumAck = cum
      rw [q4]
      have hcfg : r.1.cfg = s.cfg := (ackPhase_win hr).1
      have hm' : (setPeerWindow r.1 arwnd).cfg.mtu.toNat < 2^30 := by show r.1.cfg.mtu.toNat < 2^30; rw [hcfg]; exact hm
      have hfr : (fastRetransCheck (setPeerWindow r.1 arwnd) cum gaps r.2.1 r.2.2).1.cumAck = r.1.cumAck :=
        (fastRetransCheck_frame (setPeerWindow r.1 arwnd) cum gaps r.2.1 r.2.2 hm').1.2.2.2.2.2.2.2.2.2.2.2.1
      rw [hfr, hcum]
    · rw [hfin]
      show (prStep _).pending = _
      rw [q2]; exact c1.2.2.2.2.2.2.trans p1.2.2.2.2.2.2
    · rw [hfin]
      show (prStep _).established = true
      have : ∀ x : St, (prStep x).established = x.established := by
        intro x
        unfold prStep
        split
        · split
          · exact (advancePeerAck_ab _).2.2.2.2.1
          · exact (advancePeerAck_ab _).2.2.2.2.1
        · rfl
      rw [this, c1.2.2.2.2.1]
      show r.1.established = true
      rw [p1.2.2.2.2.1]; exact he

/-! ### the lowest flagged chunk is retransmitted -/

theorem scanLoop_out_prefix {B : Type} (s : St) (dec : Int → LoopAcc B → Chunk → Take B) (upd : Chunk → Chunk) (i : Int) (q : List Chunk)
    (a : LoopAcc B) : ∃ tl, (scanLoop s dec upd i q a).2.out = a.out ++ tl := by
  induction q generalizing i a with
  | nil => exact ⟨[], by simp [scanLoop]⟩
  | cons c rest ih =>
    simp only [scanLoop]
    cases hd : dec i a c with
    | skip => exact ih _ _
    | stop b => exact ⟨[], by simp⟩
    | take b bip =>
      obtain ⟨tl, h⟩ := ih (i + 1) (LoopAcc.mk b (a.bytesToSend + (c.len : Int)) bip (a.size + c.sizeInPacket s.cfg.useInterleaving)
        (a.out ++ [upd c]) (checkPR s a.aband (upd c)))
      exact ⟨upd c :: tl, by simp only; rw [h]; simp⟩

/-- the shared tail of the gather loops for the first chunk of a packet that fits and that the budget allows -/
theorem packAllow_first {B : Type} (allow : B → Int → Bool × B) (b : B) (cb : Int) (mtu : BitVec 32) (full : Bool)
    (hfit : hdr + cb ≤ (mtu.toNat : Int)) (hal : (allow b (cb + hdr)).1 = true) :
    packAllow allow b 0 cb full (decide (cb + hdr > (mtu.toNat : Int))) = .take (allow b (cb + hdr)).2 (hdr + cb) := by
  have h1 : decide (cb + hdr > (mtu.toNat : Int)) = false := by simp; omega
  simp [packAllow, bip0, h1, hal]

theorem rtx_first {B : Type} (s : St) (allow : B → Int → Bool × B) (awnd : BitVec 32) (pre : List Chunk) (c : Chunk) (post : List Chunk)
    (i : Int) (a : LoopAcc B) (hpre : ∀ x ∈ pre, x.retransmit = false) (hc : c.retransmit = true)
    (hnab : isAbandoned a.aband s.allInflightMsgs c = false)
    (ha : a.bytesToSend = 0 ∧ a.bip = 0)
    (hwin : rtx_isProbe (i + (pre.length : Int)) s.rwnd (c.len : Int) = true ∨ rtx_exceedsWindow 0 (c.len : Int) awnd = false)
    (hfit : hdr + c.sizeInPacket s.cfg.useInterleaving ≤ (s.cfg.mtu.toNat : Int))
    (hal : (allow a.b (c.sizeInPacket s.cfg.useInterleaving + hdr)).1 = true) :
    ∃ tl, (scanLoop s (rtxDecide s allow awnd) (rtxUpd s) i (pre ++ c :: post) a).2.out = a.out ++ rtxUpd s c :: tl := by
  induction pre generalizing i with
  | nil =>
    simp only [List.nil_append, scanLoop]
    have hd : rtxDecide s allow awnd i a c =
        .take (allow a.b (c.sizeInPacket s.cfg.useInterleaving + hdr)).2 (hdr + c.sizeInPacket s.cfg.useInterleaving) := by
      unfold rtxDecide
      simp only [hc, Bool.not_true, Bool.false_eq_true, if_false, hnab]
      have hw : (!(rtx_isProbe i s.rwnd (c.len : Int)) && rtx_exceedsWindow a.bytesToSend (c.len : Int) awnd) = false := by
        rw [ha.1]
        rcases hwin with h | h
        · simp only [List.length_nil, Int.natCast_zero, Int.add_zero] at h
          rw [h]; rfl
        · rw [h]; simp
      rw [hw]
      simp only [Bool.false_eq_true, if_false, ha.2]
      exact packAllow_first allow a.b _ s.cfg.mtu _ hfit hal
    rw [hd]
    simp only
    obtain ⟨tl, h⟩ := scanLoop_out_prefix s (rtxDecide s allow awnd) (rtxUpd s) (i + 1) post
      (LoopAcc.mk (allow a.b (c.sizeInPacket s.cfg.useInterleaving + hdr)).2 (a.bytesToSend + (c.len : Int))
        (hdr + c.sizeInPacket s.cfg.useInterleaving) (a.size + c.sizeInPacket s.cfg.useInterleaving)
        (a.out ++ [rtxUpd s c]) (checkPR s a.aband (rtxUpd s c)))
    exact ⟨tl, by rw [h]; simp⟩
  | cons x pre' ih =>
    simp only [List.cons_append, scanLoop]
    have hx : rtxDecide s allow awnd i a x = .skip := by
      unfold rtxDecide
      simp [hpre x (by simp)]
    rw [hx]
    simp only
    apply ih (i + 1) (fun y hy => hpre y (by simp [hy]))
    simp only [List.length_cons, Int.natCast_add, Int.natCast_one] at hwin
    have e : i + 1 + (pre'.length : Int) = i + ((pre'.length : Int) + 1) := by omega
    rw [e]; exact hwin

theorem scanSplit_seq (s : St) (hs : Seq s) : scanSplit s = ([], s.inflight) := by
  unfold scanSplit
  cases hq : s.inflight with
  | nil => simp [Sender.get]
  | cons f r =>
    have h0 : (s.cumAck + 1 - (s.cumAck + 1)).toNat = 0 := by simp
    have hc : Contig (f :: r) (s.cumAck + 1) := by rw [← hq]; exact hs.1
    cases hg : Sender.get (f :: r) (s.cumAck + 1) with
    | none =>
      have := get_of_lt hc (show (s.cumAck + 1 - (s.cumAck + 1)).toNat < (f :: r).length by rw [h0]; simp)
      rw [hg] at this; cases this
    | some oc =>
      obtain ⟨o1, _, _⟩ := get_off hc hg
      rw [h0] at o1
      simp [o1]

/-- **`getDataPacketsToRetransmit` sends the lowest flagged chunk** (flagged chunks are never abandoned when they are flagged; one
that was abandoned afterwards is skipped — hypothesis `hnab`) when it is the earliest outstanding chunk and the peer
window is smaller than it (probe), or when it fits `min(cwnd, rwnd)` — provided it fits the MTU and the burst budget
allows a first chunk -/
theorem gatherRtx_lowest (s : St) (orc : Oracle) (hs : Seq s) (pre : List Chunk) (c : Chunk) (post : List Chunk)
    (hq : s.inflight = pre ++ c :: post) (hpre : ∀ x ∈ pre, x.retransmit = false) (hc : c.retransmit = true)
    (hnab : s.abandoned c = false)
    (hwin : (pre = [] ∧ s.rwnd.toNat < c.len) ∨ c.len ≤ (min32 s.cwnd s.rwnd).toNat)
    (hfit : hdr + c.sizeInPacket s.cfg.useInterleaving ≤ (s.cfg.mtu.toNat : Int))
    (hal : (orc.allow orc.b (c.sizeInPacket s.cfg.useInterleaving + hdr)).1 = true) :
    ∃ tl, (gatherRtx s orc).2.1 = rtxUpd s c :: tl := by
  have := rtx_first s orc.allow (rtx_awnd s.cwnd s.rwnd) pre c post 0 { b := orc.b, aband := s.abandonedMsgs } hpre hc hnab ⟨rfl, rfl⟩
    (by
      rcases hwin with ⟨h1, h2⟩ | h
      · left
        subst h1
        simp only [rtx_isProbe, List.length_nil, Int.natCast_zero, Int.add_zero, beq_self_eq_true, Bool.true_and, decide_eq_true_eq]
        exact Int.ofNat_lt.mpr h2
      · right
        simp only [rtx_exceedsWindow, rtx_awnd]
        have h' : (c.len : Int) ≤ ((min32 s.cwnd s.rwnd).toNat : Int) := Int.ofNat_le.mpr h
        simp only [decide_eq_false_iff_not, Int.not_lt, gt_iff_lt]
        omega)
    hfit hal
  obtain ⟨tl, h⟩ := this
  refine ⟨tl, ?_⟩
  show (scanLoop s _ _ 0 (scanSplit s).2 _).2.out = _
  rw [scanSplit_seq s hs, hq, h]
  rfl

theorem bundle_cur_head (mtu : BitVec 32) (il : Bool) (chunks cur : List Chunk) (bip : Int) (hcur : cur ≠ []) :
    ∃ p rest, bundle mtu il chunks cur bip = (cur ++ p) :: rest := by
  induction chunks generalizing cur bip with
  | nil =>
    simp only [bundle]
    have : cur.isEmpty = false := by cases cur with | nil => exact absurd rfl hcur | cons _ _ => rfl
    rw [this]
    exact ⟨[], [], by simp⟩
  | cons c r ih =>
    simp only [bundle]
    split
    · exact ⟨[], bundle mtu il r [c] (hdr + c.sizeInPacket il), by simp⟩
    · obtain ⟨p, rest, h⟩ := ih (cur ++ [c]) (bip + c.sizeInPacket il) (by simp)
      exact ⟨c :: p, rest, by rw [h]; simp⟩

/-- the first packet `bundleDataChunksIntoPackets` builds starts with the first chunk it is given (if that chunk fits a packet) -/
theorem bundle_head (mtu : BitVec 32) (il : Bool) (c : Chunk) (r : List Chunk) (hfit : hdr + c.sizeInPacket il ≤ (mtu.toNat : Int)) :
    ∃ p rest, bundle mtu il (c :: r) [] hdr = (c :: p) :: rest := by
  simp only [bundle]
  have : bundle_packetFull hdr (c.sizeInPacket il) mtu = false := by
    simp only [bundle_packetFull, decide_eq_false_iff_not, Int.not_lt]; omega
  rw [this]
  simp only [Bool.false_eq_true, if_false, List.nil_append]
  obtain ⟨p, rest, h⟩ := bundle_cur_head mtu il r [c] (hdr + c.sizeInPacket il) (by simp)
  exact ⟨p, rest, by rw [h]; simp⟩

/-! ### a cumulative SACK removes what it covers -/

theorem markOne_sumLen_le (a : GapAcc) (tsn : BitVec 32) {a' : GapAcc} (h : markOne a tsn = some a') : sumLen a'.q ≤ sumLen a.q := by
  unfold markOne at h
  cases hg : Sender.get a.q tsn with
  | none => simp [hg] at h
  | some oc =>
    obtain ⟨off, c⟩ := oc
    simp only [hg, Option.some.injEq] at h
    subst h
    simp only
    split
    · have := (sumLen_set (c' := c.markAcked) (get_some hg)).1
      have e : c.markAcked.len = 0 := rfl
      simp only
      omega
    · exact Nat.le_refl _

theorem markRange_sumLen_le (cum : BitVec 32) (is : List Nat) (a : GapAcc) {a' : GapAcc} (h : markRange cum is a = some a') :
    sumLen a'.q ≤ sumLen a.q := by
  induction is generalizing a with
  | nil => simp [markRange] at h; subst h; exact Nat.le_refl _
  | cons i r ih =>
    simp only [markRange] at h
    cases h1 : markOne a (cum + BitVec.ofNat 32 i) with
    | none => simp [h1] at h
    | some a1 =>
      simp only [h1] at h
      exact Nat.le_trans (ih a1 h) (markOne_sumLen_le a _ h1)

theorem markGaps_sumLen_le (cum : BitVec 32) (gaps : List (BitVec 16 × BitVec 16)) (a : GapAcc) {a' : GapAcc} (h : markGaps cum gaps a = some a') :
    sumLen a'.q ≤ sumLen a.q := by
  induction gaps generalizing a with
  | nil => simp [markGaps] at h; subst h; exact Nat.le_refl _
  | cons g r ih =>
    obtain ⟨st, en⟩ := g
    simp only [markGaps] at h
    cases h1 : markRange cum (List.range' st.toNat (en.toNat + 1 - st.toNat)) a with
    | none => simp [h1] at h
    | some a1 =>
      simp only [h1] at h
      exact Nat.le_trans (ih a1 h) (markRange_sumLen_le cum _ a h1)

theorem ackPhase_sumLen {s : St} {cum : BitVec 32} {gaps : List (BitVec 16 × BitVec 16)} {r : St × BitVec 32 × Bool}
    (h : ackPhase s cum gaps = some r) :
    ∃ k, k ≤ s.inflight.length ∧ r.1.inflight.length = s.inflight.length - k ∧ sumLen r.1.inflight ≤ sumLen (s.inflight.drop k) := by
  unfold ackPhase at h
  split at h
  · cases h
  · rename_i qa hp
    split at h
    · cases h
    · rename_i g hg
      simp only [Option.some.injEq] at h
      subst h
      obtain ⟨k, hk, hq⟩ := popCum_drop _ _ _ _ _ hp
      have hid := length_of_ident (markGaps_ident cum gaps _ hg)
      have hle := markGaps_sumLen_le cum gaps _ hg
      simp only at hid hle
      refine ⟨k, hk, ?_, ?_⟩
      · rw [ackApply_inflight, hid, hq]; simp
      · rw [ackApply_inflight]; rw [hq] at hle; exact hle

theorem sumLen_take_drop (l : List Chunk) (k : Nat) : sumLen (l.take k) + sumLen (l.drop k) = sumLen l := by
  rw [← sumLen_append, List.take_append_drop]

/-- **a SACK whose cumulative TSN covers the lowest outstanding chunk removes it**: `k ≥ 1` chunks leave the queue
and the byte counter of the in-flight queue falls by at least their bytes -/
theorem sack_ack_progress (s : St) (cum arwnd : BitVec 32) (gaps : List (BitVec 16 × BitVec 16)) (marks : List (BitVec 32))
    (hs : Seq s) (hsm : s.inflight.length < 2^31) (hm : CfgOk s.cfg) (hc : Core s) (he : s.established = true)
    (hlt : sna32LT s.cumAck cum = true) (hv : validate s cum gaps = true) :
    (sack s cum arwnd gaps marks).2 = .ok ∧
    ∃ k, 1 ≤ k ∧ (sack s cum arwnd gaps marks).1.inflight.length + k = s.inflight.length ∧
      (sack s cum arwnd gaps marks).1.cumAck = s.cumAck + BitVec.ofNat 32 k ∧
      (sack s cum arwnd gaps marks).1.infBytes + (sumLen (s.inflight.take k) : Int) ≤ s.infBytes := by
  have hst : sna32GT s.cumAck cum = false := by
    simp only [sna32LT, sna32GT, Bool.or_eq_true, Bool.and_eq_true, decide_eq_true_eq, Bool.or_eq_false_iff, Bool.and_eq_false_iff,
      decide_eq_false_iff_not] at hlt ⊢
    constructor <;> bv_omega
  obtain ⟨hok, k, hk, hcum, hid, hca, _, _⟩ := sack_ok_shape s cum arwnd gaps marks hs hsm hm he hst hv
  refine ⟨hok, k, ?_, ?_, by rw [hca, hcum], ?_⟩
  · rcases Nat.eq_zero_or_pos k with h0 | h0
    · exfalso
      rw [h0] at hcum
      have z : BitVec.ofNat 32 0 = 0#32 := rfl
      rw [z] at hcum
      simp only [sna32LT, Bool.or_eq_true, Bool.and_eq_true, decide_eq_true_eq] at hlt
      bv_omega
    · exact h0
  · have := length_of_ident hid
    simp at this; omega
  · -- bytes
    have hcore' : Core (sack s cum arwnd gaps marks).1 := sack_core s cum arwnd gaps marks hc hm
    rcases sack_cases s cum arwnd gaps marks hs hsm with ⟨hne, _⟩ | ⟨_, _, _, _, r, hr, hrs, _, hfin⟩
    · exact absurd hok hne
    · obtain ⟨k', hk', hl', hsum⟩ := ackPhase_sumLen hr
      have hcfg : r.1.cfg = s.cfg := (ackPhase_win hr).1
      have hm' : (setPeerWindow r.1 arwnd).cfg.mtu.toNat < 2^30 := by show r.1.cfg.mtu.toNat < 2^30; rw [hcfg]; exact hm
      have f1 := (fastRetransCheck_frame (setPeerWindow r.1 arwnd) cum gaps r.2.1 r.2.2 hm').1
      have p1 := (prStep_frame (fastRetransCheck (setPeerWindow r.1 arwnd) cum gaps r.2.1 r.2.2).1).1
      have m1 := (applyMarks_frame (prStep (fastRetransCheck (setPeerWindow r.1 arwnd) cum gaps r.2.1 r.2.2).1) marks).1
      have hsame := (SameAcct.trans f1 (SameAcct.trans p1 m1)).2.2.2.2.2.2.2.2.2.2.2.2.2
      rw [← hfin] at hsame
      have hs1 := (sums_of_core hsame).1
      have hlen1 : (sack s cum arwnd gaps marks).1.inflight.length = r.1.inflight.length := by
        have : (sack s cum arwnd gaps marks).1.inflight.length = (setPeerWindow r.1 arwnd).inflight.length := by
          simpa using congrArg List.length hsame
        exact this
      have hk2 : (sack s cum arwnd gaps marks).1.inflight.length + k = s.inflight.length := by
        have := length_of_ident hid
        simp at this; omega
      have hkk : k' = k := by omega
      rw [hkk] at hsum
      have htd := sumLen_take_drop s.inflight k
      have e1 : sumLen (setPeerWindow r.1 arwnd).inflight = sumLen r.1.inflight := rfl
      rw [hcore'.inf, hc.inf, hs1, e1]
      have : (sumLen r.1.inflight : Int) ≤ (sumLen (s.inflight.drop k) : Int) := Int.ofNat_le.mpr hsum
      have : (sumLen (s.inflight.take k) : Int) + (sumLen (s.inflight.drop k) : Int) = (sumLen s.inflight : Int) := by
        rw [← htd]; push_cast; rfl
      omega

/-! ### counting chunks across a gather -/

/-- chunks only move from pending to in flight -/
def PRel (s s' : St) : Prop :=
  s'.inflight.length + s'.pending.length ≤ s.inflight.length + s.pending.length ∧ (∀ c ∈ s'.pending, c ∈ s.pending) ∧
  s'.pending.length ≤ s.pending.length

theorem PRel.refl (s : St) : PRel s s := ⟨Nat.le_refl _, fun _ h => h, Nat.le_refl _⟩
theorem PRel.trans {a b c : St} (h1 : PRel a b) (h2 : PRel b c) : PRel a c :=
  ⟨Nat.le_trans h2.1 h1.1, fun x hx => h1.2.1 x (h2.2.1 x hx), Nat.le_trans h2.2.2 h1.2.2⟩

theorem PRel.of_same {s s' : St} (hi : s'.inflight.length = s.inflight.length) (hp : s'.pending = s.pending) : PRel s s' :=
  ⟨by rw [hi, hp]; exact Nat.le_refl _, fun c h => by rw [← hp]; exact h, by rw [hp]; exact Nat.le_refl _⟩

theorem popPend_prel (s : St) (i : Nat) (c : Chunk) : PRel s (popPend s i c) := by
  have : (s.pending.eraseIdx i).length ≤ s.pending.length := List.length_eraseIdx_le _ _
  exact ⟨by simp only [popPend]; omega, fun x hx => mem_eraseIdx hx, this⟩

theorem move_prel (s : St) (i : Nat) (c : Chunk) (hp : s.pending[i]? = some c) :
    PRel s (move s i c).1 ∧ (move s i c).1.pending.length + 1 = s.pending.length := by
  have hi : i < s.pending.length := by
    rcases Nat.lt_or_ge i s.pending.length with h | h
    · exact h
    · rw [List.getElem?_eq_none h] at hp; cases hp
  have hl : (s.pending.eraseIdx i).length = s.pending.length - 1 := by rw [List.length_eraseIdx]; simp [hi]
  refine ⟨⟨?_, fun x hx => mem_eraseIdx hx, ?_⟩, ?_⟩
  · simp only [move, popPend, List.length_append, List.length_singleton]; omega
  · simp only [move, popPend]; omega
  · simp only [move, popPend]; omega

theorem popLoop_prel {B : Type} (allow : B → Int → Bool × B) (fuel : Nat) (s : St) (sel : List Nat) (a : PopAcc B) :
    PRel s (popLoop allow fuel s sel a).1 := by
  induction fuel generalizing s sel a with
  | zero => exact PRel.refl s
  | succ fuel ih =>
    simp only [popLoop]
    cases hp : peek s sel with
    | none => exact PRel.refl s
    | some ic =>
      obtain ⟨i, c⟩ := ic
      simp only
      split
      · exact (popPend_prel s i c).trans (ih _ _ _)
      · cases hd : popDecide s allow a c with
        | skip => exact PRel.refl s
        | stop b => exact PRel.refl s
        | take b bip =>
          simp only
          have h0 : PRel s (chargeSend s c) := PRel.of_same rfl rfl
          exact (h0.trans (move_prel (chargeSend s c) i c (peek_some hp)).1).trans (ih _ _ _)

theorem probe_prel {B : Type} (allow : B → Int → Bool × B) (s : St) (sel : List Nat) (a : PopAcc B) : PRel s (probe allow s sel a).1 := by
  unfold probe
  split
  · cases hp : peek s sel with
    | none => exact PRel.refl s
    | some ic =>
      obtain ⟨i, c⟩ := ic
      simp only
      split
      · split
        · split
          · have h0 : PRel s (chargeProbe s c) := PRel.of_same rfl rfl
            exact h0.trans (move_prel (chargeProbe s c) i c (peek_some hp)).1
          · exact PRel.refl s
        · exact PRel.refl s
      · exact PRel.refl s
  · exact PRel.refl s

theorem gatherNew_prel {B : Type} (s : St) (allow : B → Int → Bool × B) (b : B) (sel : List Nat) : PRel s (gatherNew s allow b sel).1 := by
  unfold gatherNew
  split
  · exact (popLoop_prel _ _ _ _ _).trans (probe_prel _ _ _ _)
  · exact PRel.refl s

theorem gather_prel (s : St) (orc : Oracle) (sel : List Nat) : PRel s (gather s orc sel).1 := by
  by_cases he : s.established = true
  · rw [(gather_eq s orc sel he).1]
    have g1 : PRel s (gatherRtx s orc).1 := PRel.of_same (length_of_ident (gatherRtx_ident s orc)) rfl
    have g2 := g1.trans (gatherNew_prel _ orc.allow (gatherRtx s orc).2.2 sel)
    have g3 : PRel (gatherNew (gatherRtx s orc).1 orc.allow (gatherRtx s orc).2.2 sel).1 (gatherPre s orc sel) := by
      have f := gatherFast_frame (gatherNew (gatherRtx s orc).1 orc.allow (gatherRtx s orc).2.2 sel).1 orc.allow
        (gatherNew (gatherRtx s orc).1 orc.allow (gatherRtx s orc).2.2 sel).2.b
      unfold gatherPre
      exact PRel.of_same (by simpa using congrArg List.length f.2.2.2.2.2.2.2.2.2.2.2.2) f.2.2.2.2.2.2.2.1
    exact (g2.trans g3).trans (PRel.of_same rfl rfl)
  · unfold gather
    simp only [he, Bool.not_false, if_true]
    exact PRel.refl s

/-! ### the zero-window probe: with nothing in flight a gather always admits a chunk -/

theorem gatherRtx_nil (s : St) (orc : Oracle) (h : s.inflight = []) : gatherRtx s orc = (s, [], orc.b) := by
  have hsp : scanSplit s = ([], []) := by unfold scanSplit; rw [h]; rfl
  unfold gatherRtx
  simp only [hsp, scanLoop, List.append_nil]
  congr 1
  cases s
  simp_all

theorem ofNat_len_ne_zero (n : Nat) (h0 : 0 < n) (h1 : n < 2^32) : (BitVec.ofNat 32 n == 0) = false := by
  have : (BitVec.ofNat 32 n).toNat = n := by simp [BitVec.toNat_ofNat]; omega
  cases hb : (BitVec.ofNat 32 n == 0) with
  | false => rfl
  | true =>
    have := congrArg BitVec.toNat (beq_iff_eq.mp hb)
    simp at this; omega

/-- what `popDecide` can answer when the chunk would open a packet, fits the MTU and the budget allows it -/
theorem popDecide_first {B : Type} (s : St) (allow : B → Int → Bool × B) (a : PopAcc B) (c : Chunk) (ha : a.bip = 0)
    (hfit : hdr + c.sizeInPacket s.cfg.useInterleaving ≤ (s.cfg.mtu.toNat : Int))
    (hal : (allow a.b (c.sizeInPacket s.cfg.useInterleaving + hdr)).1 = true) :
    popDecide s allow a c = .stop a.b ∨
    popDecide s allow a c = .take (allow a.b (c.sizeInPacket s.cfg.useInterleaving + hdr)).2 (hdr + c.sizeInPacket s.cfg.useInterleaving) := by
  unfold popDecide
  simp only
  split
  · exact Or.inl rfl
  · split
    · exact Or.inl rfl
    · right
      rw [ha]
      exact packAllow_first allow a.b _ s.cfg.mtu _ hfit hal

theorem probe_fires {B : Type} (allow : B → Int → Bool × B) (s : St) (sel : List Nat) (b : B) (sis : List (BitVec 16)) (i : Nat) (c : Chunk)
    (hin : s.inflight = []) (hp : peek s sel = some (i, c)) (hl0 : 0 < c.len)
    (hfit : hdr + c.sizeInPacket s.cfg.useInterleaving ≤ (s.cfg.mtu.toNat : Int))
    (hal : (allow b (c.sizeInPacket s.cfg.useInterleaving + hdr)).1 = true) :
    (probe allow s sel { b := b, sisToReset := sis }).1 = (admitProbe s i c).1 ∧
    (probe allow s sel { b := b, sisToReset := sis }).2.2.admits = [mkAdmit s (admitProbe s i c).2 true] := by
  unfold probe
  have e : hdr + c.sizeInPacket s.cfg.useInterleaving = c.sizeInPacket s.cfg.useInterleaving + hdr := Int.add_comm _ _
  simp only [List.isEmpty_nil, hin, List.length_nil, beq_self_eq_true, Bool.and_self, if_true, hp, hl0,
    popPending_probeAllowedSize, Bool.and_true, decide_eq_true_eq, e ▸ hfit, e, hal, List.nil_append]
  simp only [and_self]

/-- **With nothing in flight and something pending, `popPendingDataChunksToSend` admits at least one chunk**, whatever
cwnd and rwnd are: by the rule if both windows admit it, otherwise as the zero-window probe. -/
theorem gatherNew_progress {B : Type} (s : St) (allow : B → Int → Bool × B) (b : B) (sel : List Nat) (i : Nat) (c : Chunk)
    (hin : s.inflight = []) (hpen : s.penChunks > 0) (hp : peek s sel = some (i, c)) (hl0 : 0 < c.len) (hl1 : c.len < 2^32)
    (hfit : hdr + c.sizeInPacket s.cfg.useInterleaving ≤ (s.cfg.mtu.toNat : Int))
    (hal : (allow b (c.sizeInPacket s.cfg.useInterleaving + hdr)).1 = true) :
    (gatherNew s allow b sel).1.pending.length < s.pending.length ∧ (gatherNew s allow b sel).2.admits ≠ [] ∧
    ((popPending_exceedsCwnd s.infBytes (BitVec.ofNat 32 c.len) s.cwnd = true ∨ popPending_exceedsRwnd (BitVec.ofNat 32 c.len) s.rwnd = true) →
      (gatherNew s allow b sel).2.admits = [mkAdmit s (admitProbe s i c).2 true]) := by
  have hpi := peek_some hp
  have hnz := ofNat_len_ne_zero c.len hl0 hl1
  unfold gatherNew
  rw [if_pos hpen]
  simp only
  -- first iteration of the loop
  have hloop : popLoop allow (s.pending.length + 1) s sel { b := b } =
      match popDecide s allow { b := b } c with
      | .skip => (s, sel, { b := b })
      | .stop b' => (s, sel, { b := b' })
      | .take b' bip => popLoop allow s.pending.length (admitChunk s i c).1 sel.tail
          { b := b', bip := bip, admits := [mkAdmit s (admitChunk s i c).2 false] } := by
    simp only [popLoop, hp, hnz, Bool.false_eq_true, if_false]
    cases popDecide s allow { b := b } c <;> simp
  rcases popDecide_first s allow { b := b } c rfl hfit hal with hd | hd
  · -- the loop stops at the first chunk: the probe fires
    rw [hloop, hd]
    simp only
    obtain ⟨q1, q2⟩ := probe_fires allow s sel b [] i c hin hp hl0 hfit hal
    rw [q1, q2]
    refine ⟨?_, by simp, fun _ => rfl⟩
    have := (move_prel (chargeProbe s c) i c hpi).2
    show (move (chargeProbe s c) i c).1.pending.length < s.pending.length
    have e : (chargeProbe s c).pending = s.pending := rfl
    rw [e] at this; omega
  · -- admitted by the rule; more may follow; the probe does not apply
    rw [hloop, hd]
    simp only
    obtain ⟨new, n1, n2⟩ := popLoop_inflight allow s.pending.length (admitChunk s i c).1 sel.tail
      (PopAcc.mk (allow b (c.sizeInPacket s.cfg.useInterleaving + hdr)).2 (hdr + c.sizeInPacket s.cfg.useInterleaving)
        [mkAdmit s (admitChunk s i c).2 false] [])
    have hle := (popLoop_prel allow s.pending.length (admitChunk s i c).1 sel.tail
      (PopAcc.mk (allow b (c.sizeInPacket s.cfg.useInterleaving + hdr)).2 (hdr + c.sizeInPacket s.cfg.useInterleaving)
        [mkAdmit s (admitChunk s i c).2 false] [])).2.2
    have hmv := (move_prel (chargeSend s c) i c hpi).2
    have e : (chargeSend s c).pending = s.pending := rfl
    rw [e] at hmv
    have hmv' : (admitChunk s i c).1.pending.length + 1 = s.pending.length := hmv
    generalize popLoop allow s.pending.length (admitChunk s i c).1 sel.tail
      (PopAcc.mk (allow b (c.sizeInPacket s.cfg.useInterleaving + hdr)).2 (hdr + c.sizeInPacket s.cfg.useInterleaving)
        [mkAdmit s (admitChunk s i c).2 false] []) = R at n1 n2 hle
    obtain ⟨R1, R2, R3⟩ := R
    simp only at n1 n2 hle ⊢
    have hne : R3.admits.isEmpty = false := by rw [n1]; rfl
    have hpr : probe allow R1 R2 R3 = (R1, R2, R3) := by
      unfold probe
      simp [hne]
    rw [hpr]
    refine ⟨by simp only; omega, by simp only; rw [n1]; simp, ?_⟩
    intro hex
    exfalso
    have := popDecide_take s allow { b := b } c hd
    rcases hex with h | h
    · rw [this.1] at h; cases h
    · rw [this.2] at h; cases h

theorem gather_progress (s : St) (orc : Oracle) (sel : List Nat) (i : Nat) (c : Chunk) (he : s.established = true)
    (hin : s.inflight = []) (hpen : s.penChunks > 0) (hp : peek s sel = some (i, c)) (hl0 : 0 < c.len) (hl1 : c.len < 2^32)
    (hfit : hdr + c.sizeInPacket s.cfg.useInterleaving ≤ (s.cfg.mtu.toNat : Int))
    (hal : (orc.allow orc.b (c.sizeInPacket s.cfg.useInterleaving + hdr)).1 = true) :
    (gather s orc sel).1.pending.length < s.pending.length ∧ (gather s orc sel).2.admits ≠ [] ∧
    ((popPending_exceedsCwnd s.infBytes (BitVec.ofNat 32 c.len) s.cwnd = true ∨ popPending_exceedsRwnd (BitVec.ofNat 32 c.len) s.rwnd = true) →
      (gather s orc sel).2.admits = [mkAdmit s (admitProbe s i c).2 true]) := by
  have hg : (gather s orc sel).2.admits = (gatherNew s orc.allow orc.b sel).2.admits ∧
      (gather s orc sel).1.pending = (gatherNew s orc.allow orc.b sel).1.pending := by
    rw [(gather_eq s orc sel he).1]
    unfold gather gatherPre
    simp only [he, Bool.not_true, Bool.false_eq_true, if_false, gatherRtx_nil s orc hin]
    exact ⟨trivial, (gatherFast_frame _ orc.allow _).2.2.2.2.2.2.2.1⟩
  rw [hg.1, hg.2]
  exact gatherNew_progress s orc.allow orc.b sel i c hin hpen hp hl0 hl1 hfit hal

/-! ### every pending chunk carries data and fits a packet -/

/-- the fragment size the association uses is not larger than what `maxPayloadSizeForMTU` computes for its MTU -/
def CfgFit (cfg : Cfg) : Prop := cfg.maxPayload.toNat ≤ (maxPayloadSizeForMTU cfg.mtu cfg.useInterleaving).toNat

def PendFit (s : St) : Prop :=
  ∀ c ∈ s.pending, 0 < c.len ∧ hdr + c.sizeInPacket s.cfg.useInterleaving ≤ (s.cfg.mtu.toNat : Int)

theorem write_pending (s : St) (si : BitVec 16) (ppi : BitVec 32) (len : Nat) :
    (write s si ppi len).1.pending = s.pending ∨
    ∃ new, (write s si ppi len).1.pending = s.pending ++ new ∧ ∀ c ∈ new, 0 < c.len ∧ c.len ≤ s.cfg.maxPayload.toNat := by
  unfold write
  cases hst : s.streams si with
  | none => exact Or.inl rfl
  | some st =>
    simp only
    split
    · exact Or.inl rfl
    · split
      · exact Or.inl rfl
      · split
        · exact Or.inl rfl
        · rename_i hmp
          split
          · right
            refine ⟨(packetize s.cfg st si s.nextMsg ppi len).chunks, rfl, ?_⟩
            intro c hc
            have := (packetize_spec s.cfg st si s.nextMsg ppi len hmp).2.2.2.2.2.1 c hc
            exact ⟨this.1, this.2.1⟩
          · exact Or.inl rfl

theorem sack_pending (s : St) (cum arwnd : BitVec 32) (gaps : List (BitVec 16 × BitVec 16)) (marks : List (BitVec 32)) :
    (sack s cum arwnd gaps marks).1.pending = s.pending := by
  unfold sack
  split
  · rfl
  · split
    · rfl
    · split
      · rfl
      · cases ha : ackPhase s cum gaps with
        | none => rfl
        | some r =>
          simp only
          have p1 := (ackPhase_shape ha).1
          have c1 := fastRetransCheck_ctl (setPeerWindow r.1 arwnd) cum gaps r.2.1 r.2.2
          split
          · exact c1.2.2.2.2.2.2.trans p1.2.2.2.2.2.2
          · show (prStep _).pending = _
            rw [(prStep_same _).2.1]
            exact c1.2.2.2.2.2.2.trans p1.2.2.2.2.2.2

theorem iter_t3_pending (n : Nat) (s : St) : (iter t3 n s).pending = s.pending := by
  induction n generalizing s with
  | zero => rfl
  | succ n ih => simp only [iter]; rw [ih, (t3_ident s).2.1]

theorem step_pendfit (s : St) (op : Op) (hm : CfgOk s.cfg) (hf : CfgFit s.cfg) (h : PendFit s) : PendFit (step s op) := by
  have hcfg := step_cfg_eq s op hm
  unfold PendFit
  rw [hcfg]
  have same : (step s op).pending = s.pending → ∀ c ∈ (step s op).pending, 0 < c.len ∧ hdr + c.sizeInPacket s.cfg.useInterleaving ≤ (s.cfg.mtu.toNat : Int) :=
    fun e c hc => h c (by rw [← e]; exact hc)
  cases op with
  | openS si u rt rv th => exact same rfl
  | unreg si =>
    apply same
    simp only [step, unregister]
    split <;> rfl
  | setEstablished b => exact same rfl
  | write si ppi len =>
    rcases write_pending s si ppi len with e | ⟨new, e, hn⟩
    · exact same e
    · intro c hc
      simp only [step] at hc
      rw [e] at hc
      rcases List.mem_append.mp hc with h1 | h1
      · exact h c h1
      · obtain ⟨l0, l1⟩ := hn c h1
        refine ⟨l0, ?_⟩
        have hle : c.len ≤ (maxPayloadSizeForMTU s.cfg.mtu s.cfg.useInterleaving).toNat := Nat.le_trans l1 hf
        have hmp : maxPayloadSizeForMTU s.cfg.mtu s.cfg.useInterleaving ≠ 0 := by
          intro h0; rw [h0] at hle; simp at hle; omega
        have := fragment_fits s.cfg.mtu s.cfg.useInterleaving c.len hmp hle
        rw [sip_congr s.cfg.useInterleaving ({ len := c.len } : Chunk) c rfl]
        exact this
  | gather orc sel => exact fun c hc => h c ((gather_prel s orc sel).2.1 c hc)
  | sack cum arwnd gaps marks => exact same (sack_pending s cum arwnd gaps marks)
  | t3 => exact same (t3_ident s).2.1
  | tick ms n marks =>
    apply same
    simp only [step]
    show (iter t3 n _).pending = _
    rw [iter_t3_pending]

theorem run_pendfit (s : St) (ops : List Op) (hw : WinInv s) (hf : CfgFit s.cfg) (h : PendFit s) : PendFit (run s ops) := by
  induction ops generalizing s with
  | nil => exact h
  | cons op ops ih =>
    exact ih (step s op) (step_win s op hw).1 (by rw [step_cfg_eq s op hw.cfgOk]; exact hf) (step_pendfit s op hw.cfgOk hf h)

/-! ### "gather, then acknowledge everything in flight" -/

/-- a state from which the drain argument runs -/
structure Live (s : St) : Prop where
  seq : Seq s
  win : WinInv s
  core : Core s
  fit : PendFit s
  cfgFit : CfgFit s.cfg
  est : s.established = true
  small : s.inflight.length + s.pending.length < 2^31

/-- the peer acknowledges everything that is in flight and advertises `arwnd` -/
def ackAll (arwnd : BitVec 32) (x : St) : St := (sack x (x.myNextTSN - 1) arwnd [] []).1

/-- one round: a gather (any burst budget that allows a first chunk is fine; here the free one), then the full cumulative SACK -/
def round (pick : St → List Nat) (arwnd : BitVec 32) (s : St) : St := ackAll arwnd (gather s freeOracle (pick s)).1

def rounds (pick : St → List Nat) (arwnd : BitVec 32) : Nat → St → St
  | 0, s => s
  | n + 1, s => rounds pick arwnd n (round pick arwnd s)

/-- the pending-queue selection names an existing chunk whenever the queue is not empty (what `pendingQueue.peek` does) -/
def PickOk (pick : St → List Nat) : Prop := ∀ s : St, s.pending ≠ [] → ∃ i rest, pick s = i :: rest ∧ i < s.pending.length

theorem ackAll_spec (arwnd : BitVec 32) (x : St) (hs : Seq x) (hsm : x.inflight.length < 2^31) (hm : CfgOk x.cfg) (he : x.established = true) :
    (ackAll arwnd x).inflight = [] ∧ (ackAll arwnd x).pending = x.pending ∧ (ackAll arwnd x).established = true ∧
    (sack x (x.myNextTSN - 1) arwnd [] []).2 = .ok := by
  have hnext := hs.2
  have e1 : (BitVec.ofNat 32 x.inflight.length).toNat = x.inflight.length := by simp [BitVec.toNat_ofNat]; omega
  have hst : sna32GT x.cumAck (x.myNextTSN - 1) = false := by
    simp only [sna32GT, Bool.or_eq_false_iff, Bool.and_eq_false_iff, decide_eq_false_iff_not]
    rw [hnext]
    constructor <;> bv_omega
  have hv : validate x (x.myNextTSN - 1) [] = true := by
    simp only [validate, List.all_nil, Bool.and_true]
    split
    · rename_i hlt
      rw [get_contig hs.1, get_contig hs.1]
      have hpos : 0 < x.inflight.length := by
        rcases Nat.eq_zero_or_pos x.inflight.length with h | h
        · exfalso
          rw [hnext, h] at hlt
          simp only [sna32LT, Bool.or_eq_true, Bool.and_eq_true, decide_eq_true_eq] at hlt
          have z : BitVec.ofNat 32 0 = 0#32 := rfl
          rw [z] at hlt
          bv_omega
        · exact h
      have h0 : (x.cumAck + 1 - (x.cumAck + 1)).toNat = 0 := by simp
      have h1 : (x.myNextTSN - 1 - (x.cumAck + 1)).toNat = x.inflight.length - 1 := by rw [hnext]; bv_omega
      rw [h0, h1]
      simp only [Bool.and_eq_true, decide_eq_true_eq]
      omega
    · rfl
  obtain ⟨hok, k, hk, hcum, hid, _, hpen, hest⟩ := sack_ok_shape x (x.myNextTSN - 1) arwnd [] [] hs hsm hm he hst hv
  have e3 : (BitVec.ofNat 32 k).toNat = k := by simp [BitVec.toNat_ofNat]; omega
  have hkl : k = x.inflight.length := by rw [hnext] at hcum; bv_omega
  refine ⟨?_, hpen, hest, hok⟩
  have := length_of_ident hid
  rw [hkl] at this
  simp at this
  exact this

theorem peek_of_pick (s : St) (sel : List Nat) (i : Nat) (rest : List Nat) (hsel : sel = i :: rest) (hi : i < s.pending.length) :
    peek s sel = some (i, s.pending[i]) := by
  subst hsel
  simp [peek, List.getElem?_eq_getElem hi]

theorem round_live (pick : St → List Nat) (arwnd : BitVec 32) (s : St) (hp : PickOk pick) (h : Live s) :
    Live (round pick arwnd s) ∧ (round pick arwnd s).inflight = [] ∧ (round pick arwnd s).pending.length ≤ s.pending.length ∧
    (s.inflight = [] → s.pending ≠ [] → (round pick arwnd s).pending.length < s.pending.length) := by
  have g := gather_prel s freeOracle (pick s)
  have gs : Seq (gather s freeOracle (pick s)).1 := gather_seq s freeOracle (pick s) h.seq
  have gw : WinInv (gather s freeOracle (pick s)).1 := (gather_win s freeOracle (pick s) h.win).1
  have gc : Core (gather s freeOracle (pick s)).1 := gather_core s freeOracle (pick s) h.core
  have gcfg : (gather s freeOracle (pick s)).1.cfg = s.cfg := gather_cfg s freeOracle (pick s)
  have ge : (gather s freeOracle (pick s)).1.established = true := by rw [(gather_grel s freeOracle (pick s)).2.2.2.2]; exact h.est
  have gsm : (gather s freeOracle (pick s)).1.inflight.length < 2^31 := by have := g.1; have := h.small; omega
  obtain ⟨a1, a2, a3, _⟩ := ackAll_spec arwnd (gather s freeOracle (pick s)).1 gs gsm gw.cfgOk ge
  have scfg : (round pick arwnd s).cfg = s.cfg := (sack_cfg _ _ _ _ _ gw.cfgOk).trans gcfg
  refine ⟨⟨sack_seq _ _ _ _ _ gs gw.cfgOk, (sack_win _ _ _ _ _ gw).1, sack_core _ _ _ _ _ gc gw.cfgOk, ?_, by rw [scfg]; exact h.cfgFit, a3, ?_⟩,
    a1, ?_, ?_⟩
  · intro c hc
    have hc' : c ∈ (gather s freeOracle (pick s)).1.pending := by
      have : (round pick arwnd s).pending = (gather s freeOracle (pick s)).1.pending := a2
      rw [← this]; exact hc
    rw [scfg]
    exact h.fit c (g.2.1 c hc')
  · have e1 : (round pick arwnd s).inflight = [] := a1
    have e2 : (round pick arwnd s).pending = (gather s freeOracle (pick s)).1.pending := a2
    rw [e1, e2]
    have := g.2.2; have := h.small
    simp only [List.length_nil]; omega
  · have e2 : (round pick arwnd s).pending = (gather s freeOracle (pick s)).1.pending := a2
    rw [e2]; exact g.2.2
  · intro hin hne
    obtain ⟨i, rest, hsel, hi⟩ := hp s hne
    have hpk := peek_of_pick s (pick s) i rest hsel hi
    have hmem : s.pending[i] ∈ s.pending := List.getElem_mem hi
    obtain ⟨l0, lfit⟩ := h.fit _ hmem
    have hpen : s.penChunks > 0 := by
      rw [h.core.penN]
      have : 0 < s.pending.length := by omega
      omega
    have := (gather_progress s freeOracle (pick s) i s.pending[i] h.est hin hpen hpk l0 (h.core.penSmall _ hmem).1 lfit rfl).1
    have e2 : (round pick arwnd s).pending = (gather s freeOracle (pick s)).1.pending := a2
    rw [e2]; exact this

/-- **the rounds drain everything**: after the first round nothing is in flight; from then on every round admits at
least one pending chunk and gets it acknowledged; `pending + 1` rounds suffice -/
theorem rounds_drain (pick : St → List Nat) (arwnd : BitVec 32) (hp : PickOk pick) (n : Nat) (s : St) (h : Live s)
    (hn : s.pending.length + 1 ≤ n) :
    Live (rounds pick arwnd n s) ∧ (rounds pick arwnd n s).inflight = [] ∧ (rounds pick arwnd n s).pending = [] := by
  have aux : ∀ (m : Nat) (x : St), Live x → x.inflight = [] → x.pending.length ≤ m →
      Live (rounds pick arwnd m x) ∧ (rounds pick arwnd m x).inflight = [] ∧ (rounds pick arwnd m x).pending = [] := by
    intro m
    induction m with
    | zero =>
      intro x hx hi hm
      simp only [rounds]
      exact ⟨hx, hi, List.eq_nil_of_length_eq_zero (by omega)⟩
    | succ m ih =>
      intro x hx hi hm
      obtain ⟨r1, r2, r3, r4⟩ := round_live pick arwnd x hp hx
      simp only [rounds]
      apply ih _ r1 r2
      by_cases hne : x.pending = []
      · have h0 : x.pending.length = 0 := by rw [hne]; rfl
        omega
      · have := r4 hi hne; omega
  cases n with
  | zero => omega
  | succ n =>
    obtain ⟨r1, r2, r3, _⟩ := round_live pick arwnd s hp h
    simp only [rounds]
    exact aux n _ r1 r2 (by omega)

/-- the rounds as operations of the model -/
def roundOps (pick : St → List Nat) (arwnd : BitVec 32) (s : St) : List Op :=
  [.gather freeOracle (pick s), .sack ((gather s freeOracle (pick s)).1.myNextTSN - 1) arwnd [] []]

def drainOps (pick : St → List Nat) (arwnd : BitVec 32) : Nat → St → List Op
  | 0, _ => []
  | n + 1, s => roundOps pick arwnd s ++ drainOps pick arwnd n (round pick arwnd s)

theorem run_drainOps (pick : St → List Nat) (arwnd : BitVec 32) (n : Nat) (s : St) :
    run s (drainOps pick arwnd n s) = rounds pick arwnd n s := by
  induction n generalizing s with
  | zero => rfl
  | succ n ih =>
    simp only [drainOps, rounds, run_append]
    rw [← ih]
    rfl

/-- the drain operations need no stream bookkeeping premise (they are gathers and SACKs only) -/
theorem runOk_drainOps (pick : St → List Nat) (arwnd : BitVec 32) (n : Nat) (s : St) : RunOk s (drainOps pick arwnd n s) := by
  induction n generalizing s with
  | zero => trivial
  | succ n ih =>
    simp only [drainOps, roundOps, List.cons_append, List.nil_append]
    exact ⟨trivial, trivial, ih _⟩

theorem runOk_append {s : St} {ops ops' : List Op} (h : RunOk s ops) (h' : RunOk (run s ops) ops') : RunOk s (ops ++ ops') := by
  induction ops generalizing s with
  | nil => exact h'
  | cons op ops ih => exact ⟨h.1, ih h.2 h'⟩

theorem init_pendfit (cfg : Cfg) (tsn peerRwnd : BitVec 32) : PendFit (init cfg tsn peerRwnd) := by
  intro c hc; simp [init] at hc

/-! ### small facts used by `Props/C02.lean` -/

theorem len_le_sizeInPacket (il : Bool) (c : Chunk) : (c.len : Int) ≤ c.sizeInPacket il := by
  rw [sizeInPacket_eq, size_eq]
  have hp := getPadding_spec ((if il then 20 else 16) + (c.len : Int)) (by split <;> omega)
  revert hp; generalize getPadding _ = p; intro hp
  cases il <;> simp at hp ⊢ <;> omega

theorem min32_toNat (a b : BitVec 32) : (min32 a b).toNat = min a.toNat b.toNat := by
  simp only [min32]
  by_cases h : a < b
  · simp only [h, decide_true, if_true]; bv_omega
  · simp only [h, decide_false, Bool.false_eq_true, if_false]; bv_omega

/-- every pending chunk holds at least one byte: the number of pending chunks is at most the pending bytes -/
theorem pending_le_bytes (s : St) (h : PendFit s) : s.pending.length ≤ sumLen s.pending := by
  have : ∀ l : List Chunk, (∀ c ∈ l, 0 < c.len) → l.length ≤ sumLen l := by
    intro l
    induction l with
    | nil => intro _; simp [sumLen]
    | cons c r ih =>
      intro hl
      have := hl c (by simp)
      have := ih (fun x hx => hl x (by simp [hx]))
      simp only [List.length_cons, sumLen]; omega
  exact this s.pending (fun c hc => (h c hc).1)

theorem live_t3 {s : St} (h : Live s) : Live (t3 s) := by
  have f := (t3_frame s).1
  have hl : (t3 s).inflight.length = s.inflight.length := by simpa using congrArg List.length f.2.2.2.2.2.2.2.2.2.2.2.2.2
  obtain ⟨x, hx, x1, x2, x3, x4, x5, x6, x7, x8, x9, _⟩ := t3_eq s
  have hest : (t3 s).established = true := by
    rw [hx]
    split
    · show (advancePeerAck x).established = true
      rw [(advancePeerAck_ab x).2.2.2.2.1, x8]; exact h.est
    · show x.established = true
      rw [x8]; exact h.est
  refine ⟨f.seq h.seq, (t3_win s h.win).1, (t3_same s).sameCore.transfer h.core, ?_, by rw [f.2.2.2.2.1]; exact h.cfgFit, hest, ?_⟩
  · intro c hc
    rw [f.2.2.2.2.1]
    exact h.fit c (by rw [← f.2.2.2.2.2.2.1]; exact hc)
  · rw [hl, f.2.2.2.2.2.2.1]; exact h.small

/-- `peek` = "the oldest chunk" is a valid selection -/
theorem pickHead_ok : PickOk (fun s => List.replicate s.pending.length 0) := by
  intro s hne
  cases hq : s.pending with
  | nil => exact absurd hq hne
  | cons c r => exact ⟨0, List.replicate r.length 0, by simp only [hq]; rfl, by simp⟩


end SenderProofs
