import SctpVerif.Proofs.Sender.Window
/-! Frame lemmas: which parts of the sender state the flag-only transitions (loss marking, miss indications,
advanced-peer-ack point, T3) leave alone; the congestion window never leaves `[MTU, …)` in them. -/
namespace SenderProofs
open Gen Sender

/-- everything the accounting and peer-window invariants read is unchanged (in-flight chunks up to their flags) -/
def SameAcct (s s' : St) : Prop :=
  s'.rwnd = s.rwnd ∧ s'.infBytes = s.infBytes ∧ s'.lastArwnd = s.lastArwnd ∧ s'.wrapWin = s.wrapWin ∧ s'.cfg = s.cfg ∧
  s'.streams = s.streams ∧ s'.pending = s.pending ∧ s'.penBytes = s.penBytes ∧ s'.penChunks = s.penChunks ∧
  s'.wrapBuf = s.wrapBuf ∧ s'.clamped = s.clamped ∧ s'.cumAck = s.cumAck ∧ s'.myNextTSN = s.myNextTSN ∧
  s'.inflight.map Chunk.core = s.inflight.map Chunk.core

theorem SameAcct.refl (s : St) : SameAcct s s := ⟨rfl, rfl, rfl, rfl, rfl, rfl, rfl, rfl, rfl, rfl, rfl, rfl, rfl, rfl⟩

theorem SameAcct.trans {a b c : St} (h1 : SameAcct a b) (h2 : SameAcct b c) : SameAcct a c := by
  obtain ⟨a1, a2, a3, a4, a5, a6, a7, a8, a9, a10, a11, a12, a13, a14⟩ := h1
  obtain ⟨b1, b2, b3, b4, b5, b6, b7, b8, b9, b10, b11, b12, b13, b14⟩ := h2
  exact ⟨b1.trans a1, b2.trans a2, b3.trans a3, b4.trans a4, b5.trans a5, b6.trans a6, b7.trans a7, b8.trans a8, b9.trans a9,
    b10.trans a10, b11.trans a11, b12.trans a12, b13.trans a13, b14.trans a14⟩

theorem SameAcct.RW {s s' : St} (h : SameAcct s s') (hR : RW s) : RW s' :=
  RW_congr h.1 h.2.1 h.2.2.1 h.2.2.2.1 hR

/-- the congestion-window floor, guarded by the "no uint32 wrap so far" flag -/
def CwndFloor (s : St) : Prop := s.wrapWin = false → s.cfg.mtu.toNat ≤ s.cwnd.toNat

theorem setCwnd_ge (s : St) (v : BitVec 32) : v.toNat ≤ (setCwnd s v).toNat ∧ s.cfg.minCwnd.toNat ≤ (setCwnd s v).toNat := by
  simp only [setCwnd, Association_setCWND]
  by_cases h : v < s.cfg.minCwnd
  · simp [h]; bv_omega
  · simp [h]; bv_omega

theorem setCwnd_eq (s : St) (v : BitVec 32) : (setCwnd s v).toNat = max v.toNat s.cfg.minCwnd.toNat := by
  simp only [setCwnd, Association_setCWND]
  by_cases h : v < s.cfg.minCwnd
  · simp [h]; bv_omega
  · simp [h]; bv_omega

/-- the RFC 4960 §7.2.3 formula of the generated `t3_ssthresh` / `fastRecovery_ssthresh`, in natural numbers -/
theorem ssthresh_formula (cw mtu : BitVec 32) (hm : mtu.toNat < 2^30) :
    (t3_ssthresh cw mtu).toNat = max (cw.toNat / 2) (4 * mtu.toNat) ∧
    (fastRecovery_ssthresh cw mtu).toNat = max (cw.toNat / 2) (4 * mtu.toNat) := by
  have e1 : (cw / 2#32).toNat = cw.toNat / 2 := by simp [BitVec.toNat_udiv]
  have e2 : (4#32 * mtu).toNat = 4 * mtu.toNat := by simp [BitVec.toNat_mul]; omega
  simp only [t3_ssthresh, fastRecovery_ssthresh, max32]
  by_cases h : cw / 2#32 > 4#32 * mtu
  · have h' := h
    rw [gt_iff_lt, BitVec.lt_def, e1, e2] at h'
    simp only [h, decide_true, if_true, e1]; omega
  · have h' := h
    rw [gt_iff_lt, BitVec.lt_def, e1, e2] at h'
    simp only [h, decide_false, Bool.false_eq_true, if_false, e2]; omega

theorem list_set_core (q : List Chunk) (off : Nat) (c c' : Chunk) (hq : q[off]? = some c) (hc : Chunk.core c' = Chunk.core c) :
    (q.set off c').map Chunk.core = q.map Chunk.core := by
  rw [List.map_set]
  apply List.ext_getElem?
  intro i
  by_cases hi : i = off
  · subst hi
    have hlt : i < q.length := by
      rcases Nat.lt_or_ge i q.length with h | h
      · exact h
      · rw [List.getElem?_eq_none h] at hq; cases hq
    have hqi : q[i] = c := by
      have := List.getElem?_eq_getElem hlt; rw [hq] at this; exact (Option.some.inj this).symm
    simp [hlt, hc, hqi]
  · simp [Ne.symm hi]

theorem get_some {q : List Chunk} {tsn : BitVec 32} {off : Nat} {c : Chunk} (h : Sender.get q tsn = some (off, c)) : q[off]? = some c := by
  cases q with
  | nil => simp [Sender.get] at h
  | cons f r =>
    simp [Sender.get] at h
    obtain ⟨_, h1, h2⟩ := h
    rw [← h2]; exact h1

theorem missLoop_frame (htna : BitVec 32) (fuel : Nat) (s : St) (tsn maxTSN : BitVec 32) (hm : s.cfg.mtu.toNat < 2^30) :
    SameAcct s (missLoop htna fuel s tsn maxTSN).1 ∧
    (s.cfg.mtu.toNat ≤ s.cwnd.toNat → s.cfg.mtu.toNat ≤ (missLoop htna fuel s tsn maxTSN).1.cwnd.toNat) := by
  induction fuel generalizing s tsn with
  | zero => exact ⟨SameAcct.refl s, id⟩
  | succ fuel ih =>
    simp only [missLoop]
    split
    · cases hg : Sender.get s.inflight tsn with
      | none => exact ⟨SameAcct.refl s, id⟩
      | some oc =>
        obtain ⟨off, c⟩ := oc
        simp only
        split
        · have hcore : SameAcct s { s with inflight := s.inflight.set off { c with missIndicator := c.missIndicator + 1 } } := by
            refine ⟨rfl, rfl, rfl, rfl, rfl, rfl, rfl, rfl, rfl, rfl, rfl, rfl, rfl, ?_⟩
            exact list_set_core _ _ c _ (get_some hg) rfl
          split
          · obtain ⟨i1, i2⟩ := ih
              { s with inflight := s.inflight.set off { c with missIndicator := c.missIndicator + 1 },
                       inFastRecovery := true, fastRecoverExitPoint := htna, ssthresh := fastRecovery_ssthresh s.cwnd s.cfg.mtu,
                       cwnd := setCwnd { s with inflight := s.inflight.set off { c with missIndicator := c.missIndicator + 1 } }
                         (fastRecovery_cwndArg (fastRecovery_ssthresh s.cwnd s.cfg.mtu)),
                       partialBytesAcked := 0, willRetransmitFast := true } (tsn + 1) hm
            refine ⟨SameAcct.trans ?_ i1, fun _ => i2 ?_⟩
            · refine ⟨rfl, rfl, rfl, rfl, rfl, rfl, rfl, rfl, rfl, rfl, rfl, rfl, rfl, hcore.2.2.2.2.2.2.2.2.2.2.2.2.2⟩
            · have h1 := (setCwnd_ge { s with inflight := s.inflight.set off { c with missIndicator := c.missIndicator + 1 } }
                (fastRecovery_cwndArg (fastRecovery_ssthresh s.cwnd s.cfg.mtu))).1
              have h2 := (ssthresh_formula s.cwnd s.cfg.mtu hm).2
              simp only [fastRecovery_cwndArg] at h1 ⊢
              omega
          · obtain ⟨i1, i2⟩ := ih { s with inflight := s.inflight.set off { c with missIndicator := c.missIndicator + 1 } } (tsn + 1) hm
            exact ⟨SameAcct.trans hcore i1, i2⟩
        · exact ih s (tsn + 1) hm
    · exact ⟨SameAcct.refl s, id⟩


theorem fastRetransCheck_frame (s : St) (cum : BitVec 32) (gaps : List (BitVec 16 × BitVec 16)) (htna : BitVec 32) (adv : Bool)
    (hm : s.cfg.mtu.toNat < 2^30) :
    SameAcct s (fastRetransCheck s cum gaps htna adv).1 ∧
    (s.cfg.mtu.toNat ≤ s.cwnd.toNat → s.cfg.mtu.toNat ≤ (fastRetransCheck s cum gaps htna adv).1.cwnd.toNat) := by
  have h1 : SameAcct s (frLoop s cum gaps htna adv).1 ∧
      (s.cfg.mtu.toNat ≤ s.cwnd.toNat → s.cfg.mtu.toNat ≤ (frLoop s cum gaps htna adv).1.cwnd.toNat) := by
    unfold frLoop
    split
    · exact missLoop_frame _ _ _ _ _ hm
    · exact ⟨SameAcct.refl s, id⟩
  have h2 : ∀ r : St × Bool, SameAcct r.1 (frPost r adv).1 ∧ (frPost r adv).1.cwnd = r.1.cwnd := by
    intro r
    unfold frPost
    split
    · exact ⟨SameAcct.refl _, rfl⟩
    · split
      · exact ⟨⟨rfl, rfl, rfl, rfl, rfl, rfl, rfl, rfl, rfl, rfl, rfl, rfl, rfl, rfl⟩, rfl⟩
      · exact ⟨SameAcct.refl _, rfl⟩
  unfold fastRetransCheck
  obtain ⟨p1, p2⟩ := h2 (frLoop s cum gaps htna adv)
  exact ⟨SameAcct.trans h1.1 p1, fun h => by rw [p2]; exact h1.2 h⟩

theorem advLoop_frame (fuel : Nat) (s : St) : SameAcct s (advLoop fuel s) ∧ (advLoop fuel s).cwnd = s.cwnd := by
  induction fuel generalizing s with
  | zero => exact ⟨SameAcct.refl s, rfl⟩
  | succ fuel ih =>
    simp only [advLoop]
    cases hg : Sender.get s.inflight (s.advPeerAck + 1) with
    | none => exact ⟨SameAcct.refl s, rfl⟩
    | some oc =>
      simp only
      split
      · exact ⟨SameAcct.refl s, rfl⟩
      · obtain ⟨i1, i2⟩ := ih { s with advPeerAck := s.advPeerAck + 1 }
        exact ⟨SameAcct.trans ⟨rfl, rfl, rfl, rfl, rfl, rfl, rfl, rfl, rfl, rfl, rfl, rfl, rfl, rfl⟩ i1, i2⟩

theorem advancePeerAck_frame (s : St) : SameAcct s (advancePeerAck s) ∧ (advancePeerAck s).cwnd = s.cwnd := by
  unfold advancePeerAck
  obtain ⟨i1, i2⟩ := advLoop_frame (s.inflight.length + 1) s
  simp only
  split
  · exact ⟨SameAcct.trans i1 ⟨rfl, rfl, rfl, rfl, rfl, rfl, rfl, rfl, rfl, rfl, rfl, rfl, rfl, rfl⟩, i2⟩
  · exact ⟨i1, i2⟩

theorem prStep_frame (s : St) : SameAcct s (prStep s) ∧ (prStep s).cwnd = s.cwnd := by
  unfold prStep
  split
  · split
    · obtain ⟨i1, i2⟩ := advancePeerAck_frame { s with advPeerAck := s.cumAck }
      exact ⟨SameAcct.trans ⟨rfl, rfl, rfl, rfl, rfl, rfl, rfl, rfl, rfl, rfl, rfl, rfl, rfl, rfl⟩ i1, i2⟩
    · exact advancePeerAck_frame s
  · exact ⟨SameAcct.refl s, rfl⟩

theorem map_core_flags (q : List Chunk) (f : Chunk → Chunk) (hf : ∀ c, Chunk.core (f c) = Chunk.core c) :
    (q.map f).map Chunk.core = q.map Chunk.core := by
  induction q with
  | nil => rfl
  | cons c r ih => simp [hf, ih]

theorem applyMarks_frame (s : St) (marks : List (BitVec 32)) : SameAcct s (applyMarks s marks) ∧ (applyMarks s marks).cwnd = s.cwnd := by
  refine ⟨⟨rfl, rfl, rfl, rfl, rfl, rfl, rfl, rfl, rfl, rfl, rfl, rfl, rfl, ?_⟩, rfl⟩
  simp only [applyMarks]
  apply map_core_flags
  intro c; split <;> rfl

theorem t3_frame (s : St) : SameAcct s (t3 s) ∧ (t3 s).cwnd = setCwnd s (t3_cwndArg s.cfg.mtu) ∧
    (t3 s).ssthresh = t3_ssthresh s.cwnd s.cfg.mtu := by
  have hmark : ∀ x : St, SameAcct x { x with inflight := markAllToRetransmit x } := by
    intro x
    refine ⟨rfl, rfl, rfl, rfl, rfl, rfl, rfl, rfl, rfl, rfl, rfl, rfl, rfl, ?_⟩
    simp only [markAllToRetransmit]
    apply map_core_flags
    intro c; split <;> rfl
  unfold t3
  simp only
  have key : ∀ x : St, SameAcct s x → x.cwnd = setCwnd s (t3_cwndArg s.cfg.mtu) → x.ssthresh = t3_ssthresh s.cwnd s.cfg.mtu →
      SameAcct s { (if x.cfg.prEnabled then advancePeerAck x else x) with inflight := markAllToRetransmit (if x.cfg.prEnabled then advancePeerAck x else x) } ∧
      ({ (if x.cfg.prEnabled then advancePeerAck x else x) with inflight := markAllToRetransmit (if x.cfg.prEnabled then advancePeerAck x else x) } : St).cwnd = setCwnd s (t3_cwndArg s.cfg.mtu) ∧
      ({ (if x.cfg.prEnabled then advancePeerAck x else x) with inflight := markAllToRetransmit (if x.cfg.prEnabled then advancePeerAck x else x) } : St).ssthresh = t3_ssthresh s.cwnd s.cfg.mtu := by
    intro x hx hc hs
    split
    · obtain ⟨i1, i2⟩ := advancePeerAck_frame x
      refine ⟨SameAcct.trans hx (SameAcct.trans i1 (hmark _)), i2.trans hc, ?_⟩
      show (advancePeerAck x).ssthresh = _
      have : (advancePeerAck x).ssthresh = x.ssthresh := by
        unfold advancePeerAck
        have : ∀ fuel (y : St), (advLoop fuel y).ssthresh = y.ssthresh := by
          intro fuel; induction fuel with
          | zero => intro y; rfl
          | succ n ih => intro y; simp only [advLoop]; split; rfl; split; rfl; rw [ih]
        simp only; split <;> simp [this]
      rw [this, hs]
    · exact ⟨SameAcct.trans hx (hmark _), hc, hs⟩
  split
  · exact key _ ⟨rfl, rfl, rfl, rfl, rfl, rfl, rfl, rfl, rfl, rfl, rfl, rfl, rfl, rfl⟩ rfl rfl
  · exact key _ ⟨rfl, rfl, rfl, rfl, rfl, rfl, rfl, rfl, rfl, rfl, rfl, rfl, rfl, rfl⟩ rfl rfl

end SenderProofs
