import SctpVerif.Proofs.Sender.Books
import SctpVerif.Proofs.Sender.WinRun
/-! Byte accounting of the sender (C15): the books (`infBytes`, `penBytes`, `penChunks`, per-stream `bufferedAmount`)
agree with the chunks actually queued, along arbitrary runs. -/
namespace SenderProofs
open Gen Sender

/-- `Stream.BufferedAmount()` of the Stream object for `si` (0 if there is none) -/
def bufOf (s : St) (si : BitVec 16) : Nat := match s.streams si with | some st => st.buffered.toNat | none => 0

/-- user bytes of stream `si` in pending ∪ in-flight (an acknowledged chunk holds no bytes: its payload was released) -/
def outstanding (s : St) (si : BitVec 16) : Nat := bytesOf si s.pending + bytesOf si s.inflight

structure Books (s : St) : Prop where
  inf : s.infBytes = (sumLen s.inflight : Int)
  pen : s.penBytes = (sumLen s.pending : Int)
  penN : s.penChunks = (s.pending.length : Int)
  ackedEmpty : ∀ c ∈ s.inflight, c.acked = true → c.len = 0
  penSmall : ∀ c ∈ s.pending, c.len < 2^32 ∧ c.acked = false
  streams : ∀ si, bufOf s si = outstanding s si
  unreg : ∀ si st, s.streams si = some st → st.registered = false → outstanding s si = 0
  noClamp : s.clamped = false

/-- guarded by the ghost flag "a uint64 bufferedAmount addition wrapped" -/
def BooksG (s : St) : Prop := s.wrapBuf = false → Books s

/-! ### release -/

theorem release_spec (st : Stream) (n : Int) (h0 : 0 ≤ n) (hle : n ≤ (st.buffered.toNat : Int)) :
    ((release st n).1.buffered.toNat : Int) = (st.buffered.toNat : Int) - n ∧ (release st n).2 = false ∧
    (release st n).1.registered = st.registered := by
  unfold release
  split
  · have : n = 0 := by omega
    subst this; simp
  · have hlt := st.buffered.isLt
    have e : (BitVec.ofInt 64 n).toNat = n.toNat := by rw [BitVec.toNat_ofInt]; omega
    have hu : release_underflows st.buffered n = false := by
      simp only [release_underflows, decide_eq_false_iff_not, BitVec.lt_def, e]; omega
    have hsub : (st.buffered - BitVec.ofInt 64 n).toNat = st.buffered.toNat - n.toNat := by
      rw [BitVec.toNat_sub, e]; omega
    refine ⟨?_, ?_, ?_⟩
    · simp only [hu, Bool.false_eq_true, if_false, hsub]; omega
    · simp only [hu]
    · rfl

theorem bufOf_setStream (s : St) (si : BitVec 16) (st : Stream) (k : BitVec 16) :
    bufOf (setStream s si st) k = if k = si then st.buffered.toNat else bufOf s k := by
  simp only [bufOf, setStream]
  by_cases h : k = si <;> simp [h]

/-- registered Stream object for `si`? -/
def regOf (s : St) (si : BitVec 16) : Bool := match s.streams si with | some st => st.registered | none => false

theorem relOf_cons_le {k : BitVec 16} {n : Int} {r : Rel} {si : BitVec 16} {X : Int} (hn : 0 ≤ n)
    (h : relOf ((k, n) :: r) si ≤ X) : relOf r si ≤ X := by
  simp only [relOf] at h; split at h <;> omega

theorem relOf_cons_zero {k : BitVec 16} {n : Int} {r : Rel} {si : BitVec 16} (hn : 0 ≤ n) (hr : 0 ≤ relOf r si)
    (h : relOf ((k, n) :: r) si = 0) : relOf r si = 0 ∧ (k = si → n = 0) := by
  simp only [relOf] at h
  split at h
  · exact ⟨by omega, fun _ => by omega⟩
  · rename_i hne; exact ⟨by omega, fun h' => absurd h' hne⟩

theorem relOf_cons_n0 (k : BitVec 16) (r : Rel) (si : BitVec 16) : relOf ((k, 0) :: r) si = relOf r si := by
  simp only [relOf]; split <;> omega

theorem releaseAll_spec (rel : Rel) (s : St) (hn : RelNonneg rel) (hb : ∀ si, relOf rel si ≤ (bufOf s si : Int))
    (hu : ∀ si, regOf s si = false → relOf rel si = 0) (hc : s.clamped = false) :
    (∀ si, (bufOf (releaseAll rel s) si : Int) = (bufOf s si : Int) - relOf rel si) ∧ (releaseAll rel s).clamped = false ∧
    (∀ si, (releaseAll rel s).streams si = none ↔ s.streams si = none) ∧
    (∀ si st', (releaseAll rel s).streams si = some st' → ∃ st, s.streams si = some st ∧ st'.registered = st.registered) := by
  induction rel generalizing s with
  | nil =>
    refine ⟨fun si => by simp [releaseAll, relOf], hc, fun _ => Iff.rfl, fun si st' h => ⟨st', h, rfl⟩⟩
  | cons e r ih =>
    obtain ⟨k, n⟩ := e
    have hn0 : 0 ≤ n := hn (k, n) (by simp)
    have hnr : RelNonneg r := fun x hx => hn x (by simp [hx])
    have hrk := relOf_nonneg r hnr
    simp only [releaseAll]
    cases hs : s.streams k with
    | none =>
      simp only
      have hz := hu k (by simp [regOf, hs])
      simp only [relOf, if_true] at hz
      have hn00 : n = 0 := by have := hrk k; omega
      subst hn00
      obtain ⟨i1, i2, i3, i4⟩ := ih s hnr (fun si => relOf_cons_le hn0 (hb si))
        (fun si h => (relOf_cons_zero hn0 (hrk si) (hu si h)).1) hc
      refine ⟨fun si => ?_, i2, i3, i4⟩
      rw [i1 si, relOf_cons_n0]
    | some st =>
      simp only
      by_cases hreg : st.registered = true
      · simp only [hreg, if_true]
        have hbk := hb k
        simp only [relOf, if_true, bufOf, hs] at hbk
        obtain ⟨r1, r2, r3⟩ := release_spec st n hn0 (by have := hrk k; omega)
        have hb' : ∀ si, relOf r si ≤ (bufOf { setStream s k (release st n).1 with clamped := s.clamped || (release st n).2 } si : Int) := by
          intro si
          have := hb si
          show relOf r si ≤ (bufOf (setStream s k (release st n).1) si : Int)
          rw [bufOf_setStream]
          simp only [relOf] at this
          by_cases hsi : si = k
          · subst hsi; simp only [if_true] at this ⊢; simp only [bufOf, hs] at this; omega
          · have hsi' : ¬ k = si := fun h => hsi h.symm
            simp only [hsi, hsi', if_false] at this ⊢; omega
        have hu' : ∀ si, regOf { setStream s k (release st n).1 with clamped := s.clamped || (release st n).2 } si = false → relOf r si = 0 := by
          intro si hsi
          by_cases hk : si = k
          · subst hk; simp [regOf, setStream, r3, hreg] at hsi
          · have : regOf s si = false := by simpa [regOf, setStream, hk] using hsi
            have := hu si this
            have hk' : ¬ k = si := fun h => hk h.symm
            simpa [relOf, hk'] using this
        obtain ⟨i1, i2, i3, i4⟩ := ih _ hnr hb' hu' (by simp [hc, r2])
        refine ⟨fun si => ?_, i2, fun si => ?_, fun si st' h => ?_⟩
        · rw [i1 si]
          show ((bufOf (setStream s k (release st n).1) si : Nat) : Int) - relOf r si = _
          rw [bufOf_setStream]
          simp only [relOf]
          by_cases hsi : si = k
          · subst hsi; simp only [if_true, bufOf, hs]; omega
          · have hsi' : ¬ k = si := fun h => hsi h.symm
            simp only [hsi, hsi', if_false]; omega
        · rw [i3 si]
          simp only [setStream]
          by_cases hsi : si = k
          · subst hsi; simp [hs]
          · simp [hsi]
        · obtain ⟨st1, h1, h2⟩ := i4 si st' h
          simp only [setStream] at h1
          by_cases hsi : si = k
          · subst hsi; simp only [if_true, Option.some.injEq] at h1; subst h1; exact ⟨st, hs, by rw [h2, r3]⟩
          · simp only [hsi, if_false] at h1; exact ⟨st1, h1, h2⟩
      · simp only [hreg, Bool.false_eq_true, if_false]
        have hz := hu k (by simp [regOf, hs, hreg])
        simp only [relOf, if_true] at hz
        have hn00 : n = 0 := by have := hrk k; omega
        subst hn00
        obtain ⟨i1, i2, i3, i4⟩ := ih s hnr (fun si => relOf_cons_le hn0 (hb si))
          (fun si h => (relOf_cons_zero hn0 (hrk si) (hu si h)).1) hc
        refine ⟨fun si => ?_, i2, i3, i4⟩
        rw [i1 si, relOf_cons_n0]


/-! ### transfer along transitions that do not touch the books -/

/-- the fields `Books` reads are the same (in-flight chunks up to flags) -/
def SameBooks (s s' : St) : Prop :=
  s'.infBytes = s.infBytes ∧ s'.inflight.map Chunk.core = s.inflight.map Chunk.core ∧ s'.pending = s.pending ∧
  s'.penBytes = s.penBytes ∧ s'.penChunks = s.penChunks ∧ s'.streams = s.streams ∧ s'.clamped = s.clamped ∧ s'.wrapBuf = s.wrapBuf

theorem SameAcct.books {s s' : St} (h : SameAcct s s') : SameBooks s s' :=
  ⟨h.2.1, h.2.2.2.2.2.2.2.2.2.2.2.2.2, h.2.2.2.2.2.2.1, h.2.2.2.2.2.2.2.1, h.2.2.2.2.2.2.2.2.1, h.2.2.2.2.2.1,
   h.2.2.2.2.2.2.2.2.2.2.1, h.2.2.2.2.2.2.2.2.2.1⟩

theorem SameBooks.refl (s : St) : SameBooks s s := ⟨rfl, rfl, rfl, rfl, rfl, rfl, rfl, rfl⟩

theorem SameBooks.trans {a b c : St} (h1 : SameBooks a b) (h2 : SameBooks b c) : SameBooks a c :=
  ⟨h2.1.trans h1.1, h2.2.1.trans h1.2.1, h2.2.2.1.trans h1.2.2.1, h2.2.2.2.1.trans h1.2.2.2.1, h2.2.2.2.2.1.trans h1.2.2.2.2.1,
   h2.2.2.2.2.2.1.trans h1.2.2.2.2.2.1, h2.2.2.2.2.2.2.1.trans h1.2.2.2.2.2.2.1, h2.2.2.2.2.2.2.2.trans h1.2.2.2.2.2.2.2⟩

theorem SameBooks.transfer {s s' : St} (h : SameBooks s s') (hb : Books s) : Books s' := by
  obtain ⟨h1, h2, h3, h4, h5, h6, h7, _⟩ := h
  obtain ⟨c1, c2, c3⟩ := sums_of_core h2.symm
  refine ⟨by rw [h1, hb.inf, c1], by rw [h4, h3, hb.pen], by rw [h5, h3, hb.penN], c3 hb.ackedEmpty, by rw [h3]; exact hb.penSmall, ?_, ?_, by rw [h7]; exact hb.noClamp⟩
  · intro si
    have := hb.streams si
    simp only [bufOf, outstanding, h6, h3, ← c2 si] at this ⊢; exact this
  · intro si st hs hr
    rw [h6] at hs
    have := hb.unreg si st hs hr
    simp only [outstanding, h3, ← c2 si] at this ⊢; exact this

theorem SameBooks.transferG {s s' : St} (h : SameBooks s s') (hb : BooksG s) : BooksG s' :=
  fun hw => h.transfer (hb (by rw [← h.2.2.2.2.2.2.2]; exact hw))

/-! ### moving a chunk from pending to in-flight -/

theorem popPend_books (s : St) (i : Nat) (c : Chunk) (hb : Books s) (hp : s.pending[i]? = some c) (hz : c.len = 0) : Books (popPend s i c) := by
  obtain ⟨e1, e2, e3⟩ := sumLen_eraseIdx hp
  have hpen := hb.pen
  refine ⟨hb.inf, ?_, ?_, hb.ackedEmpty, fun x hx => hb.penSmall x (mem_eraseIdx hx), ?_, ?_, hb.noClamp⟩
  · simp only [popPend, hz]; rw [hpen]; simp; split <;> omega
  · simp only [popPend]; rw [hb.penN]; omega
  · intro si
    have := hb.streams si
    have := e2 si
    simp only [bufOf, outstanding, popPend, hz, ite_self] at *; omega
  · intro si st hs hr
    have := hb.unreg si st hs hr
    have := e2 si
    simp only [outstanding, popPend, hz, ite_self] at *; omega

theorem move_books (s : St) (i : Nat) (c : Chunk) (hb : Books s) (hp : s.pending[i]? = some c) : Books (move s i c).1 := by
  obtain ⟨e1, e2, e3⟩ := sumLen_eraseIdx hp
  obtain ⟨hsmall, hfresh⟩ := hb.penSmall c (List.mem_of_getElem? hp)
  refine ⟨?_, ?_, ?_, ?_, ?_, ?_, ?_, ?_⟩
  · simp only [move, popPend, sumLen_append, sumLen]; rw [hb.inf]; push_cast; omega
  · simp only [move, popPend]; rw [hb.pen]; split <;> omega
  · simp only [move, popPend]; rw [hb.penN]; omega
  · intro x hx
    simp only [move, popPend, List.mem_append, List.mem_singleton] at hx
    rcases hx with h | h
    · exact hb.ackedEmpty x h
    · subst h; intro ha; simp only at ha; rw [hfresh] at ha; cases ha
  · intro x hx
    simp only [move, popPend] at hx
    exact hb.penSmall x (mem_eraseIdx hx)
  · intro si
    have := hb.streams si
    have := e2 si
    simp only [bufOf, outstanding, move, popPend, bytesOf_append, bytesOf] at *
    omega
  · intro si st hs hr
    have hs' : s.streams si = some st := by simpa [move, popPend] using hs
    have := hb.unreg si st hs' hr
    have := e2 si
    simp only [outstanding, move, popPend, bytesOf_append, bytesOf] at *
    omega
  · simpa [move, popPend] using hb.noClamp


theorem peek_some {s : St} {sel : List Nat} {i : Nat} {c : Chunk} (h : peek s sel = some (i, c)) : s.pending[i]? = some c := by
  unfold peek at h
  cases sel with
  | nil => cases h
  | cons j r =>
    simp only at h
    cases hq : s.pending[j]? with
    | none => simp [hq] at h
    | some x => simp [hq] at h; obtain ⟨h1, h2⟩ := h; subst h1 h2; exact hq

theorem chargeSend_same (s : St) (c : Chunk) : SameBooks s (chargeSend s c) := ⟨rfl, rfl, rfl, rfl, rfl, rfl, rfl, rfl⟩
theorem chargeProbe_same (s : St) (c : Chunk) : SameBooks s (chargeProbe s c) := ⟨rfl, rfl, rfl, rfl, rfl, rfl, rfl, rfl⟩

theorem move_wrapBuf (s : St) (i : Nat) (c : Chunk) : (move s i c).1.wrapBuf = s.wrapBuf := by simp [move, popPend]

theorem popLoop_books {B : Type} (allow : B → Int → Bool × B) (fuel : Nat) (s : St) (sel : List Nat) (a : PopAcc B) (hb : Books s) :
    Books (popLoop allow fuel s sel a).1 ∧ (popLoop allow fuel s sel a).1.wrapBuf = s.wrapBuf := by
  induction fuel generalizing s sel a with
  | zero => exact ⟨hb, rfl⟩
  | succ fuel ih =>
    simp only [popLoop]
    cases hp : peek s sel with
    | none => exact ⟨hb, rfl⟩
    | some ic =>
      obtain ⟨i, c⟩ := ic
      simp only
      have hpi := peek_some hp
      split
      · rename_i hz
        have hlen : c.len = 0 := by
          have := (hb.penSmall c (List.mem_of_getElem? hpi)).1
          have hz' : BitVec.ofNat 32 c.len = 0 := by simpa using hz
          have := congrArg BitVec.toNat hz'
          simp [BitVec.toNat_ofNat] at this; omega
        exact ih _ _ _ (popPend_books s i c hb hpi hlen)
      · cases hd : popDecide s allow a c with
        | skip => exact ⟨hb, rfl⟩
        | stop b => exact ⟨hb, rfl⟩
        | take b bip =>
          simp only
          have h1 : Books (admitChunk s i c).1 := move_books (chargeSend s c) i c ((chargeSend_same s c).transfer hb) hpi
          obtain ⟨i1, i2⟩ := ih (admitChunk s i c).1 sel.tail _ h1
          exact ⟨i1, i2.trans (move_wrapBuf _ _ _)⟩

theorem probe_books {B : Type} (allow : B → Int → Bool × B) (s : St) (sel : List Nat) (a : PopAcc B) (hb : Books s) :
    Books (probe allow s sel a).1 ∧ (probe allow s sel a).1.wrapBuf = s.wrapBuf := by
  unfold probe
  split
  · cases hp : peek s sel with
    | none => exact ⟨hb, rfl⟩
    | some ic =>
      obtain ⟨i, c⟩ := ic
      simp only
      split
      · split
        · split
          · exact ⟨move_books (chargeProbe s c) i c ((chargeProbe_same s c).transfer hb) (peek_some hp), move_wrapBuf _ _ _⟩
          · exact ⟨hb, rfl⟩
        · exact ⟨hb, rfl⟩
      · exact ⟨hb, rfl⟩
  · exact ⟨hb, rfl⟩

theorem gatherNew_books {B : Type} (allow : B → Int → Bool × B) (b : B) (s : St) (sel : List Nat) (hb : Books s) :
    Books (gatherNew s allow b sel).1 ∧ (gatherNew s allow b sel).1.wrapBuf = s.wrapBuf := by
  unfold gatherNew
  split
  · obtain ⟨p1, p2⟩ := popLoop_books allow (s.pending.length + 1) s sel { b := b } hb
    obtain ⟨q1, q2⟩ := probe_books allow _ (popLoop allow (s.pending.length + 1) s sel { b := b }).2.1
      (popLoop allow (s.pending.length + 1) s sel { b := b }).2.2 p1
    exact ⟨q1, q2.trans p2⟩
  · exact ⟨hb, rfl⟩

theorem gatherRtx_same (s : St) (orc : Oracle) : SameBooks s (gatherRtx s orc).1 := by
  obtain ⟨_, a2, _, _, _, _, a7, a8, a9, a10, a11, a12, a13⟩ := gatherRtx_frame s orc
  exact ⟨a2, a13, a8, a9, a10, a7, a12, a11⟩

theorem gatherFast_same {B : Type} (s : St) (allow : B → Int → Bool × B) (b : B) : SameBooks s (gatherFast s allow b).1 := by
  obtain ⟨_, a2, _, _, _, _, a7, a8, a9, a10, a11, a12, a13⟩ := gatherFast_frame s allow b
  exact ⟨a2, a13, a8, a9, a10, a7, a12, a11⟩

theorem gather_books (s : St) (orc : Oracle) (sel : List Nat) (hb : BooksG s) :
    BooksG (gather s orc sel).1 ∧ (gather s orc sel).1.wrapBuf = s.wrapBuf := by
  unfold gather
  split
  · exact ⟨hb, rfl⟩
  · simp only
    have h1 := gatherRtx_same s orc
    have hw : (gatherFast (gatherNew (gatherRtx s orc).1 orc.allow (gatherRtx s orc).2.2 sel).1 orc.allow
        (gatherNew (gatherRtx s orc).1 orc.allow (gatherRtx s orc).2.2 sel).2.b).1.wrapBuf = s.wrapBuf := by
      rw [(gatherFast_same _ _ _).2.2.2.2.2.2.2]
      by_cases hbk : Books (gatherRtx s orc).1
      · rw [(gatherNew_books orc.allow _ _ sel hbk).2, h1.2.2.2.2.2.2.2]
      · -- wrapBuf is untouched by the admission loop whatever the books say
        have : ∀ (x : St), (gatherNew x orc.allow (gatherRtx s orc).2.2 sel).1.wrapBuf = x.wrapBuf := by
          intro x
          unfold gatherNew
          split
          · simp only
            have hp : ∀ fuel (y : St) sel' (a : PopAcc orc.B), (popLoop orc.allow fuel y sel' a).1.wrapBuf = y.wrapBuf := by
              intro fuel
              induction fuel with
              | zero => intro y sel' a; rfl
              | succ n ih =>
                intro y sel' a
                simp only [popLoop]
                cases hpk : peek y sel' with
                | none => rfl
                | some ic =>
                  obtain ⟨i, c⟩ := ic
                  simp only
                  split
                  · rw [ih]; rfl
                  · cases hd : popDecide y orc.allow a c with
                    | skip => rfl
                    | stop b => rfl
                    | take b bip => simp only; rw [ih]; exact move_wrapBuf _ _ _
            have hq : ∀ (y : St) sel' (a : PopAcc orc.B), (probe orc.allow y sel' a).1.wrapBuf = y.wrapBuf := by
              intro y sel' a
              unfold probe
              split
              · cases hpk : peek y sel' with
                | none => rfl
                | some ic =>
                  obtain ⟨i, c⟩ := ic
                  simp only
                  split
                  · split
                    · split
                      · exact move_wrapBuf _ _ _
                      · rfl
                    · rfl
                  · rfl
              · rfl
            rw [hq, hp]
          · rfl
        rw [this, h1.2.2.2.2.2.2.2]
    refine ⟨?_, hw⟩
    intro hwf
    have hwf' : s.wrapBuf = false := by
      have : (gatherFast (gatherNew (gatherRtx s orc).1 orc.allow (gatherRtx s orc).2.2 sel).1 orc.allow
        (gatherNew (gatherRtx s orc).1 orc.allow (gatherRtx s orc).2.2 sel).2.b).1.wrapBuf = false := hwf
      rw [hw] at this; exact this
    have b1 : Books (gatherRtx s orc).1 := h1.transfer (hb hwf')
    have b2 := (gatherNew_books orc.allow (gatherRtx s orc).2.2 _ sel b1).1
    have b3 := (gatherFast_same _ orc.allow (gatherNew (gatherRtx s orc).1 orc.allow (gatherRtx s orc).2.2 sel).2.b).transfer b2
    refine SameBooks.transfer ?_ b3
    exact ⟨rfl, rfl, rfl, rfl, rfl, rfl, rfl, rfl⟩


/-! ### SACK -/

theorem onCumAdvanced_same (s : St) (total : Int) : SameBooks s (onCumAdvanced s total) ∧
    (onCumAdvanced s total).inflight = s.inflight := by
  unfold onCumAdvanced
  split
  · split
    · exact ⟨⟨rfl, rfl, rfl, rfl, rfl, rfl, rfl, rfl⟩, rfl⟩
    · exact ⟨SameBooks.refl s, rfl⟩
  · simp only
    split
    · exact ⟨⟨rfl, rfl, rfl, rfl, rfl, rfl, rfl, rfl⟩, rfl⟩
    · exact ⟨⟨rfl, rfl, rfl, rfl, rfl, rfl, rfl, rfl⟩, rfl⟩

theorem ackApply_books (s : St) (cum : BitVec 32) (g : GapAcc) (inFR : Bool) (hb : Books s)
    (hinf : g.infBytes = (sumLen g.q : Int))
    (hrel : ∀ si, relOf g.rel si + (bytesOf si g.q : Int) = (bytesOf si s.inflight : Int))
    (hnn : RelNonneg g.rel) (hae : ∀ c ∈ g.q, c.acked = true → c.len = 0) :
    Books (ackApply s cum g inFR) ∧ (ackApply s cum g inFR).wrapBuf = s.wrapBuf := by
  unfold ackApply
  simp only
  -- the state handed to releaseAll: queue and counters replaced, streams / pending untouched
  have key : ∀ x : St, x.inflight = g.q → x.infBytes = g.infBytes → x.pending = s.pending → x.penBytes = s.penBytes →
      x.penChunks = s.penChunks → x.streams = s.streams → x.clamped = s.clamped → x.wrapBuf = s.wrapBuf →
      Books (releaseAll g.rel x) ∧ (releaseAll g.rel x).wrapBuf = s.wrapBuf := by
    intro x h1 h2 h3 h4 h5 h6 h7 h8
    have hbuf : ∀ si, bufOf x si = bufOf s si := fun si => by simp [bufOf, h6]
    have hreg : ∀ si, regOf x si = regOf s si := fun si => by simp [regOf, h6]
    have hle : ∀ si, relOf g.rel si ≤ (bufOf x si : Int) := by
      intro si
      have := hrel si
      have := hb.streams si
      rw [hbuf]
      simp only [outstanding] at this
      omega
    have hu : ∀ si, regOf x si = false → relOf g.rel si = 0 := by
      intro si hr
      rw [hreg] at hr
      have hnn' := relOf_nonneg g.rel hnn si
      have hrl := hrel si
      cases hs : s.streams si with
      | none =>
        have := hb.streams si
        simp only [bufOf, hs, outstanding] at this
        omega
      | some st =>
        have hr' : st.registered = false := by simpa [regOf, hs] using hr
        have := hb.unreg si st hs hr'
        simp only [outstanding] at this
        omega
    obtain ⟨r1, r2, r3, r4⟩ := releaseAll_spec g.rel x hnn hle hu (by rw [h7]; exact hb.noClamp)
    obtain ⟨f1, f2, f3, f4, f5, f6, f7, f8, f9, f10, f11, _⟩ := releaseAll_frame g.rel x
    refine ⟨⟨?_, ?_, ?_, ?_, ?_, ?_, ?_, r2⟩, f11.trans h8⟩
    · rw [f2, f7, h1, h2]; exact hinf
    · rw [f9, f8, h3, h4]; exact hb.pen
    · rw [f10, f8, h3, h5]; exact hb.penN
    · rw [f7, h1]; exact hae
    · rw [f8, h3]; exact hb.penSmall
    · intro si
      have := r1 si
      have := hrel si
      have := hb.streams si
      rw [hbuf] at *
      simp only [outstanding, f7, f8, h1, h3] at *
      omega
    · intro si st' hs' hr'
      obtain ⟨st, hs, hrr⟩ := r4 si st' hs'
      rw [h6] at hs
      have := hb.unreg si st hs (by rw [← hrr]; exact hr')
      have hnn' := relOf_nonneg g.rel hnn si
      have := hrel si
      simp only [outstanding, f7, f8, h1, h3] at *
      omega
  split
  · obtain ⟨o1, o2⟩ := onCumAdvanced_same { s with inflight := g.q, infBytes := g.infBytes, inFastRecovery := inFR, cumAck := cum } (relTotal g.rel)
    exact key _ o2 o1.1 o1.2.2.1 o1.2.2.2.1 o1.2.2.2.2.1 o1.2.2.2.2.2.1 o1.2.2.2.2.2.2.1 o1.2.2.2.2.2.2.2
  · exact key _ rfl rfl rfl rfl rfl rfl rfl rfl

theorem ackPhase_books {s : St} {cum : BitVec 32} {gaps : List (BitVec 16 × BitVec 16)} {r : St × BitVec 32 × Bool}
    (hb : Books s) (h : ackPhase s cum gaps = some r) : Books r.1 ∧ r.1.wrapBuf = s.wrapBuf := by
  unfold ackPhase at h
  split at h
  · cases h
  · rename_i qa hp
    split at h
    · cases h
    · rename_i g hg
      simp only [Option.some.injEq] at h
      subst h
      obtain ⟨p1, p2, p3, p4, p5, _⟩ := popCum_spec _ _ _ _ _ hb.ackedEmpty (by intro e he; simp at he) (by simp [RelKeysNodup]) hp
      have g0 : GapOk { q := qa.1, infBytes := qa.2.infBytes, rel := qa.2.rel, htna := cum } { q := qa.1, infBytes := qa.2.infBytes, rel := qa.2.rel, htna := cum } :=
        GapOk.refl _ (fun c hc => hb.ackedEmpty c (p1 c hc)) p4 p5
      have gk := markGaps_spec cum gaps _ _ g0 hg
      apply ackApply_books s cum g qa.2.inFR hb
      · have := gk.inf
        have := hb.inf
        simp only at *
        omega
      · intro si
        have := gk.rel si
        have := p3 si
        simp only [relOf] at *
        omega
      · exact gk.nonneg
      · exact gk.ackedEmpty

theorem setPeerWindow_same (s : St) (arwnd : BitVec 32) : SameBooks s (setPeerWindow s arwnd) := ⟨rfl, rfl, rfl, rfl, rfl, rfl, rfl, rfl⟩

theorem sack_books (s : St) (cum arwnd : BitVec 32) (gaps : List (BitVec 16 × BitVec 16)) (marks : List (BitVec 32))
    (hb : BooksG s) (hm : s.cfg.mtu.toNat < 2^30) :
    BooksG (sack s cum arwnd gaps marks).1 ∧ (sack s cum arwnd gaps marks).1.wrapBuf = s.wrapBuf := by
  unfold sack
  split
  · exact ⟨hb, rfl⟩
  · split
    · exact ⟨hb, rfl⟩
    · split
      · exact ⟨hb, rfl⟩
      · cases ha : ackPhase s cum gaps with
        | none => exact ⟨hb, rfl⟩
        | some r =>
          simp only
          have hcfg := (ackPhase_win ha).1
          have hm' : (setPeerWindow r.1 arwnd).cfg.mtu.toNat < 2^30 := by show r.1.cfg.mtu.toNat < 2^30; rw [hcfg]; exact hm
          have f1 := (fastRetransCheck_frame (setPeerWindow r.1 arwnd) cum gaps r.2.1 r.2.2 hm').1.books
          have fin : ∀ x : St, SameBooks (setPeerWindow r.1 arwnd) x → BooksG x ∧ x.wrapBuf = s.wrapBuf := by
            intro x hx
            have hsame := SameBooks.trans (setPeerWindow_same r.1 arwnd) hx
            -- wrapBuf: unchanged by ackPhase whatever the books say
            have hwb : r.1.wrapBuf = s.wrapBuf := by
              unfold ackPhase at ha
              split at ha
              · cases ha
              · split at ha
                · cases ha
                · cases ha
                  simp only [ackApply]
                  rw [(releaseAll_frame _ _).2.2.2.2.2.2.2.2.2.2.1]
                  split
                  · exact (onCumAdvanced_same _ _).1.2.2.2.2.2.2.2
                  · rfl
            refine ⟨fun hw => ?_, hsame.2.2.2.2.2.2.2.trans hwb⟩
            have hw' : s.wrapBuf = false := by rw [← hwb, ← hsame.2.2.2.2.2.2.2]; exact hw
            exact hsame.transfer (ackPhase_books (hb hw') ha).1
          split
          · exact fin _ f1
          · have p1 := (prStep_frame (fastRetransCheck (setPeerWindow r.1 arwnd) cum gaps r.2.1 r.2.2).1).1.books
            have m1 := (applyMarks_frame (prStep (fastRetransCheck (setPeerWindow r.1 arwnd) cum gaps r.2.1 r.2.2).1) marks).1.books
            exact fin _ (SameBooks.trans f1 (SameBooks.trans p1 m1))


/-! ### write -/

theorem fragAux_spec (mp : Nat) (hmp : 0 < mp) (fuel remaining : Nat) (hf : remaining ≤ fuel) :
    (fragAux mp fuel remaining).sum = remaining ∧ ∀ f ∈ fragAux mp fuel remaining, 0 < f ∧ f ≤ mp := by
  induction fuel generalizing remaining with
  | zero =>
    have : remaining = 0 := by omega
    subst this; simp [fragAux]
  | succ n ih =>
    simp only [fragAux]
    by_cases h0 : remaining = 0
    · subst h0; simp
    · have hc : ¬ (remaining = 0 ∨ mp = 0) := by omega
      simp only [hc, if_false]
      obtain ⟨i1, i2⟩ := ih (remaining - min mp remaining) (by omega)
      refine ⟨by simp [i1]; omega, ?_⟩
      intro f hf'
      rcases List.mem_cons.mp hf' with h | h
      · subst h; omega
      · exact i2 f h

theorem mkChunks_spec (si : BitVec 16) (msg : Nat) (ppi : BitVec 32) (u : Bool) (ssn : BitVec 16) (mid : BitVec 32)
    (fs : List Nat) (fsn : BitVec 32) (first : Bool) :
    sumLen (mkChunks si msg ppi u ssn mid fs fsn first) = fs.sum ∧
    (∀ k, bytesOf k (mkChunks si msg ppi u ssn mid fs fsn first) = if k = si then fs.sum else 0) ∧
    (mkChunks si msg ppi u ssn mid fs fsn first).length = fs.length ∧
    (∀ c ∈ mkChunks si msg ppi u ssn mid fs fsn first, c.len ∈ fs ∧ c.acked = false ∧ c.si = si) := by
  induction fs generalizing fsn first with
  | nil => simp [mkChunks, sumLen, bytesOf]
  | cons f r ih =>
    obtain ⟨i1, i2, i3, i4⟩ := ih (fsn + 1) false
    refine ⟨by simp only [mkChunks, sumLen, List.sum_cons, i1], fun k => ?_, by simp only [mkChunks, List.length_cons, i3], ?_⟩
    · simp only [mkChunks, bytesOf, i2 k, List.sum_cons]
      by_cases hk : k = si
      · subst hk; simp
      · have : ¬ si = k := fun h => hk h.symm
        simp [hk, this]
    · intro c hc
      simp only [mkChunks, List.mem_cons] at hc
      rcases hc with h | h
      · subst h; simp
      · obtain ⟨a1, a2, a3⟩ := i4 c h
        exact ⟨by simp [a1], a2, a3⟩

theorem packetize_spec (cfg : Cfg) (st : Stream) (si : BitVec 16) (msg : Nat) (ppi : BitVec 32) (len : Nat) (hmp : cfg.maxPayload ≠ 0) :
    (packetize cfg st si msg ppi len).st.registered = st.registered ∧
    (packetize cfg st si msg ppi len).st.buffered = st.buffered + BitVec.ofNat 64 len ∧
    (packetize cfg st si msg ppi len).wrap = decide (st.buffered.toNat + len ≥ 2^64) ∧
    sumLen (packetize cfg st si msg ppi len).chunks = len ∧
    (∀ k, bytesOf k (packetize cfg st si msg ppi len).chunks = if k = si then len else 0) ∧
    (∀ c ∈ (packetize cfg st si msg ppi len).chunks, 0 < c.len ∧ c.len ≤ cfg.maxPayload.toNat ∧ c.acked = false ∧ c.si = si) ∧
    (packetize cfg st si msg ppi len).st.threshold = st.threshold ∧ (packetize cfg st si msg ppi len).st.hasCb = st.hasCb ∧
    (packetize cfg st si msg ppi len).st.cbCount = st.cbCount := by
  have hmp' : 0 < cfg.maxPayload.toNat := by
    rcases Nat.eq_zero_or_pos cfg.maxPayload.toNat with h | h
    · exact absurd (BitVec.eq_of_toNat_eq (by simpa using h)) hmp
    · exact h
  obtain ⟨f1, f2⟩ := fragAux_spec cfg.maxPayload.toNat hmp' len len (Nat.le_refl _)
  simp only [packetize, fragSizes]
  refine ⟨?_, ?_, ?_, ?_, ?_, ?_, ?_, ?_, ?_⟩
  · repeat' split
    all_goals rfl
  · repeat' split
    all_goals rfl
  · repeat' split
    all_goals rfl
  · rw [(mkChunks_spec _ _ _ _ _ _ _ _ _).1, f1]
  · intro k; rw [(mkChunks_spec _ _ _ _ _ _ _ _ _).2.1 k, f1]
  · intro c hc
    obtain ⟨a1, a2, a3⟩ := (mkChunks_spec _ _ _ _ _ _ _ _ _).2.2.2 c hc
    exact ⟨(f2 _ a1).1, (f2 _ a1).2, a2, a3⟩
  · repeat' split
    all_goals rfl
  · repeat' split
    all_goals rfl
  · repeat' split
    all_goals rfl

theorem rollback_spec (cfg : Cfg) (st : Stream) (u : Bool) (n : Nat) :
    (rollback cfg st u n).buffered = st.buffered - BitVec.ofNat 64 n ∧ (rollback cfg st u n).registered = st.registered ∧
    (rollback cfg st u n).threshold = st.threshold ∧ (rollback cfg st u n).hasCb = st.hasCb ∧ (rollback cfg st u n).cbCount = st.cbCount := by
  unfold rollback
  simp only
  repeat' split
  all_goals exact ⟨rfl, rfl, rfl, rfl, rfl⟩

/-- a write never lowers the "bufferedAmount wrapped" flag -/
theorem write_wrapBuf (s : St) (si : BitVec 16) (ppi : BitVec 32) (len : Nat) :
    (write s si ppi len).1.wrapBuf = false → s.wrapBuf = false := by
  unfold write
  cases hs : s.streams si with
  | none => exact id
  | some st =>
    simp only
    split
    · exact id
    · split
      · exact id
      · split
        · exact id
        · split
          · intro h; simp only [pushPending, setStream, Bool.or_eq_false_iff] at h; exact h.1
          · intro h; simp only [setStream, Bool.or_eq_false_iff] at h; exact h.1

theorem write_books (s : St) (si : BitVec 16) (ppi : BitVec 32) (len : Nat) (hb : BooksG s)
    (hreg : ∀ st, s.streams si = some st → st.registered = true) : BooksG (write s si ppi len).1 := by
  intro hw
  have hw0 := write_wrapBuf s si ppi len hw
  have hbk := hb hw0
  unfold write at hw ⊢
  cases hs : s.streams si with
  | none => simpa [hs] using hbk
  | some st =>
    simp only [hs] at hw ⊢
    by_cases h1 : len > s.cfg.maxMessageSize.toNat
    · simpa [h1] using hbk
    · by_cases h2 : len = 0
      · simpa [h1, h2] using hbk
      · by_cases hmp : s.cfg.maxPayload = 0
        · simpa [h1, h2, hmp] using hbk
        · simp only [h1, h2, hmp, if_false] at hw ⊢
          obtain ⟨p1, p2, p3, p4, p5, p6, _⟩ := packetize_spec s.cfg st si s.nextMsg ppi len hmp
          have hbs := hbk.streams si
          simp only [bufOf, hs] at hbs
          split
          · -- established: the chunks are queued
            rename_i hest
            simp only [hest, if_true, pushPending, setStream, Bool.or_eq_false_iff] at hw
            have hnw : st.buffered.toNat + len < 2^64 := by
              have := hw.2; rw [p3] at this; simpa using this
            have hbuf : (st.buffered + BitVec.ofNat 64 len).toNat = st.buffered.toNat + len := by
              rw [BitVec.toNat_add, BitVec.toNat_ofNat]; omega
            refine ⟨hbk.inf, ?_, ?_, hbk.ackedEmpty, ?_, ?_, ?_, hbk.noClamp⟩
            · simp only [pushPending, setStream, sumLen_append]; rw [hbk.pen]; push_cast; omega
            · simp only [pushPending, setStream, List.length_append]; rw [hbk.penN]; push_cast; omega
            · intro c hc
              simp only [pushPending, setStream, List.mem_append] at hc
              rcases hc with h | h
              · exact hbk.penSmall c h
              · obtain ⟨a1, a2, a3, _⟩ := p6 c h
                exact ⟨by have := s.cfg.maxPayload.isLt; omega, a3⟩
            · intro k
              have := hbk.streams k
              simp only [bufOf, outstanding, pushPending, setStream, bytesOf_append, p5 k] at *
              by_cases hk : k = si
              · subst hk; simp only [if_true, p2, hbuf]; omega
              · simp only [hk, if_false]; omega
            · intro k st' hs' hr'
              simp only [pushPending, setStream] at hs'
              by_cases hk : k = si
              · subst hk
                simp only [if_true, Option.some.injEq] at hs'
                subst hs'
                rw [p1, hreg st hs] at hr'; cases hr'
              · simp only [hk, if_false] at hs'
                have := hbk.unreg k st' hs' hr'
                simp only [outstanding, pushPending, setStream, bytesOf_append, p5 k, hk, if_false] at *
                omega
          · -- not established: rolled back
            obtain ⟨r1, r2, _⟩ := rollback_spec s.cfg (packetize s.cfg st si s.nextMsg ppi len).st (packetize s.cfg st si s.nextMsg ppi len).unordered len
            have hbuf : (rollback s.cfg (packetize s.cfg st si s.nextMsg ppi len).st (packetize s.cfg st si s.nextMsg ppi len).unordered len).buffered = st.buffered := by
              rw [r1, p2]; bv_omega
            refine ⟨hbk.inf, hbk.pen, hbk.penN, hbk.ackedEmpty, hbk.penSmall, ?_, ?_, hbk.noClamp⟩
            · intro k
              have := hbk.streams k
              simp only [bufOf, outstanding, setStream] at *
              by_cases hk : k = si
              · subst hk; simp only [if_true, hbuf]; omega
              · simp only [hk, if_false]; exact this
            · intro k st' hs' hr'
              simp only [setStream] at hs'
              by_cases hk : k = si
              · subst hk
                simp only [if_true, Option.some.injEq] at hs'
                subst hs'
                rw [r2, p1, hreg st hs] at hr'; cases hr'
              · simp only [hk, if_false] at hs'
                exact hbk.unreg k st' hs' hr'


/-! ### streams, T3, the whole step -/

/-- "a stream is registered with the association while it has data outstanding" (the hypothesis deviation D9 forces):
the association drops a stream only when nothing of it is outstanding, and nobody writes to a dropped stream -/
def OpOk (s : St) : Op → Prop
  | .unreg si => outstanding s si = 0
  | .write si _ _ => ∀ st, s.streams si = some st → st.registered = true
  | _ => True

def RunOk : St → List Op → Prop
  | _, [] => True
  | s, op :: ops => OpOk s op ∧ RunOk (step s op) ops

theorem openStream_books (s : St) (si : BitVec 16) (u : Bool) (rt : BitVec 8) (rv : BitVec 32) (th : BitVec 64) (hb : Books s) :
    Books (openStream s si u rt rv th) := by
  have hsi := hb.streams si
  refine ⟨hb.inf, hb.pen, hb.penN, hb.ackedEmpty, hb.penSmall, ?_, ?_, hb.noClamp⟩
  · intro k
    have := hb.streams k
    simp only [bufOf, outstanding, openStream, setStream] at *
    by_cases hk : k = si
    · subst hk
      simp only [if_true]
      cases hs : s.streams k with
      | none => simp only [hs] at this ⊢; simpa using this
      | some st =>
        simp only [hs] at this ⊢
        by_cases hr : st.registered = true
        · simpa [hr] using this
        · have := hb.unreg k st hs (by simpa using hr)
          simp only [outstanding] at this
          simp [hr]; omega
    · simp only [hk, if_false]; exact this
  · intro k st' hs' hr'
    simp only [openStream, setStream] at hs'
    by_cases hk : k = si
    · subst hk
      simp only [if_true, Option.some.injEq] at hs'
      subst hs'
      cases hs : s.streams k with
      | none => simp [hs] at hr'
      | some st =>
        by_cases hr : st.registered = true
        · simp [hs, hr] at hr'
        · simp [hs, hr] at hr'
    · simp only [hk, if_false] at hs'
      exact hb.unreg k st' hs' hr'

theorem unregister_books (s : St) (si : BitVec 16) (hb : Books s) (h0 : outstanding s si = 0) : Books (unregister s si) := by
  unfold unregister
  cases hs : s.streams si with
  | none => exact hb
  | some st =>
    refine ⟨hb.inf, hb.pen, hb.penN, hb.ackedEmpty, hb.penSmall, ?_, ?_, hb.noClamp⟩
    · intro k
      have := hb.streams k
      simp only [bufOf, outstanding, setStream] at *
      by_cases hk : k = si
      · subst hk; simp only [if_true, hs] at this ⊢; exact this
      · simp only [hk, if_false]; exact this
    · intro k st' hs' hr'
      simp only [setStream] at hs'
      by_cases hk : k = si
      · subst hk; exact h0
      · simp only [hk, if_false] at hs'; exact hb.unreg k st' hs' hr'

theorem t3_same (s : St) : SameBooks s (t3 s) := (t3_frame s).1.books

theorem iter_t3_same (n : Nat) (s : St) : SameBooks s (iter t3 n s) := by
  induction n generalizing s with
  | zero => exact SameBooks.refl s
  | succ n ih => exact SameBooks.trans (t3_same s) (ih (t3 s))

/-- every step keeps the books, provided streams stay registered while they have data outstanding -/
theorem step_books (s : St) (op : Op) (hb : BooksG s) (hm : CfgOk s.cfg) (hok : OpOk s op) :
    BooksG (step s op) ∧ ((step s op).wrapBuf = false → s.wrapBuf = false) := by
  cases op with
  | openS si u rt rv th => exact ⟨fun hw => openStream_books s si u rt rv th (hb hw), id⟩
  | unreg si =>
    refine ⟨fun hw => ?_, ?_⟩
    · have hw' : s.wrapBuf = false := by
        simp only [step, unregister] at hw; split at hw <;> exact hw
      exact unregister_books s si (hb hw') hok
    · intro hw; simp only [step, unregister] at hw; split at hw <;> exact hw
  | setEstablished b =>
    have h : SameBooks s (step s (.setEstablished b)) := ⟨rfl, rfl, rfl, rfl, rfl, rfl, rfl, rfl⟩
    exact ⟨h.transferG hb, id⟩
  | write si ppi len => exact ⟨write_books s si ppi len hb hok, write_wrapBuf s si ppi len⟩
  | gather orc sel =>
    obtain ⟨g1, g2⟩ := gather_books s orc sel hb
    exact ⟨g1, fun hw => by rw [← g2]; exact hw⟩
  | sack cum arwnd gaps marks =>
    obtain ⟨g1, g2⟩ := sack_books s cum arwnd gaps marks hb hm
    exact ⟨g1, fun hw => by rw [← g2]; exact hw⟩
  | t3 => exact ⟨(t3_same s).transferG hb, fun hw => by rw [← (t3_same s).2.2.2.2.2.2.2]; exact hw⟩
  | tick ms n marks =>
    have h1 : SameBooks s { s with now := s.now + ms } := ⟨rfl, rfl, rfl, rfl, rfl, rfl, rfl, rfl⟩
    have h2 := iter_t3_same n { s with now := s.now + ms }
    have h3 := (applyMarks_frame (iter t3 n { s with now := s.now + ms }) marks).1.books
    have h := SameBooks.trans h1 (SameBooks.trans h2 h3)
    exact ⟨h.transferG hb, fun hw => by rw [← h.2.2.2.2.2.2.2]; exact hw⟩

theorem step_cfg (s : St) (op : Op) (h : WinInv s) : CfgOk (step s op).cfg := (step_win s op h).1.cfgOk

theorem run_books (s : St) (ops : List Op) (hb : BooksG s) (hw : WinInv s) (hok : RunOk s ops) :
    BooksG (run s ops) ∧ ((run s ops).wrapBuf = false → s.wrapBuf = false) := by
  induction ops generalizing s with
  | nil => exact ⟨hb, id⟩
  | cons op ops ih =>
    obtain ⟨s1, s2⟩ := step_books s op hb hw.cfgOk hok.1
    obtain ⟨r1, r2⟩ := ih (step s op) s1 (step_win s op hw).1 hok.2
    exact ⟨r1, fun h => s2 (r2 h)⟩

theorem init_books (cfg : Cfg) (tsn peerRwnd : BitVec 32) : Books (init cfg tsn peerRwnd) := by
  refine ⟨rfl, rfl, rfl, ?_, ?_, ?_, ?_, rfl⟩
  · intro c hc; simp [init] at hc
  · intro c hc; simp [init] at hc
  · intro si; simp [bufOf, outstanding, init, bytesOf]
  · intro si st hs; simp [init] at hs


theorem bytesOf_zero_iff (si : BitVec 16) (l : List Chunk) : bytesOf si l = 0 ↔ ∀ c ∈ l, c.si = si → c.len = 0 := by
  induction l with
  | nil => simp [bytesOf]
  | cons x r ih =>
    simp only [bytesOf, List.mem_cons, forall_eq_or_imp]
    by_cases hx : x.si = si
    · simp only [hx, if_true, forall_const]
      rw [← ih]; omega
    · simp only [hx, if_false, false_implies, true_and]
      rw [← ih]; omega

theorem sumLen_zero_iff (l : List Chunk) : sumLen l = 0 ↔ ∀ c ∈ l, c.len = 0 := by
  induction l with
  | nil => simp [sumLen]
  | cons x r ih =>
    simp only [sumLen, List.mem_cons, forall_eq_or_imp]
    rw [← ih]; omega

/-- `rollback` undoes `packetize` on the stream: buffered amount, SSN, both MID counters -/
theorem rollback_packetize (cfg : Cfg) (st : Stream) (si : BitVec 16) (msg : Nat) (ppi : BitVec 32) (len : Nat) :
    rollback cfg (packetize cfg st si msg ppi len).st (packetize cfg st si msg ppi len).unordered len = st := by
  obtain ⟨reg, un, rt, rv, buf, th, hcb, cb, ssn, om, um⟩ := st
  simp only [packetize, rollback]
  cases hil : cfg.useInterleaving <;> cases hd : (ppi != BitVec.ofNat 32 PayloadTypeWebRTCDCEP) <;> cases un <;>
    simp [BitVec.add_sub_cancel]

/-- a write outside the established state is rolled back completely -/
theorem write_rollback (s : St) (si : BitVec 16) (ppi : BitVec 32) (len : Nat) (h : s.established = false) :
    (write s si ppi len).1.streams = s.streams ∧ (write s si ppi len).1.pending = s.pending ∧
    (write s si ppi len).1.penBytes = s.penBytes ∧ (write s si ppi len).1.penChunks = s.penChunks ∧ (write s si ppi len).2.1 = 0 := by
  unfold write
  cases hs : s.streams si with
  | none => simp
  | some st =>
    simp only
    by_cases h1 : len > s.cfg.maxMessageSize.toNat
    · simp [h1]
    · by_cases h2 : len = 0
      · simp [h2]
      · by_cases hmp : s.cfg.maxPayload = 0
        · simp [h1, h2, hmp]
        · simp only [h1, h2, hmp, h, if_false, Bool.false_eq_true]
          refine ⟨?_, ?_⟩
          · funext k
            simp only [setStream]
            by_cases hk : k = si
            · subst hk; simp only [if_true, hs, rollback_packetize]
            · simp [hk]
          · simp [setStream]

end SenderProofs
