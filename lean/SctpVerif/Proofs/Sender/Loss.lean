import SctpVerif.Proofs.Sender.Frames
/-! Response to loss: T3 expiry and entry to fast recovery apply the RFC 4960 §7.2.3 formula, once. -/
namespace SenderProofs
open Gen Sender

/-- what the miss-indication pass does to the congestion state, from a state inside / outside fast recovery -/
theorem missLoop_loss (htna : BitVec 32) (fuel : Nat) (s : St) (tsn maxTSN : BitVec 32) :
    (missLoop htna fuel s tsn maxTSN).1.cfg = s.cfg ∧
    (s.inFastRecovery = true →
      (missLoop htna fuel s tsn maxTSN).1.cwnd = s.cwnd ∧ (missLoop htna fuel s tsn maxTSN).1.ssthresh = s.ssthresh ∧
      (missLoop htna fuel s tsn maxTSN).1.inFastRecovery = true) ∧
    (s.inFastRecovery = false →
      ((missLoop htna fuel s tsn maxTSN).1.inFastRecovery = false ∧ (missLoop htna fuel s tsn maxTSN).1.cwnd = s.cwnd ∧
        (missLoop htna fuel s tsn maxTSN).1.ssthresh = s.ssthresh) ∨
      ((missLoop htna fuel s tsn maxTSN).1.inFastRecovery = true ∧
        (missLoop htna fuel s tsn maxTSN).1.ssthresh = fastRecovery_ssthresh s.cwnd s.cfg.mtu ∧
        (missLoop htna fuel s tsn maxTSN).1.cwnd = setCwnd s (fastRecovery_cwndArg (fastRecovery_ssthresh s.cwnd s.cfg.mtu)) ∧
        (missLoop htna fuel s tsn maxTSN).1.fastRecoverExitPoint = htna ∧
        (missLoop htna fuel s tsn maxTSN).1.willRetransmitFast = true)) := by
  induction fuel generalizing s tsn with
  | zero => exact ⟨rfl, fun h => ⟨rfl, rfl, h⟩, fun h => Or.inl ⟨h, rfl, rfl⟩⟩
  | succ fuel ih =>
    simp only [missLoop]
    split
    · cases hg : Sender.get s.inflight tsn with
      | none => exact ⟨rfl, fun h => ⟨rfl, rfl, h⟩, fun h => Or.inl ⟨h, rfl, rfl⟩⟩
      | some oc =>
        obtain ⟨off, c⟩ := oc
        simp only
        split
        · split
          · rename_i hent
            simp only [Bool.and_eq_true, Bool.not_eq_true'] at hent
            obtain ⟨i1, i2, _⟩ := ih
              { s with inflight := s.inflight.set off { c with missIndicator := c.missIndicator + 1 },
                       inFastRecovery := true, fastRecoverExitPoint := htna, ssthresh := fastRecovery_ssthresh s.cwnd s.cfg.mtu,
                       cwnd := setCwnd { s with inflight := s.inflight.set off { c with missIndicator := c.missIndicator + 1 } }
                         (fastRecovery_cwndArg (fastRecovery_ssthresh s.cwnd s.cfg.mtu)),
                       partialBytesAcked := 0, willRetransmitFast := true } (tsn + 1)
            obtain ⟨j1, j2, j3⟩ := i2 rfl
            refine ⟨i1, fun h => ?_, fun _ => Or.inr ⟨j3, j2, j1, ?_, ?_⟩⟩
            · rw [h] at hent; cases hent.2
            · -- exit point and flag are not touched once inside fast recovery
              have : ∀ fuel (x : St) t, x.inFastRecovery = true →
                  (missLoop htna fuel x t maxTSN).1.fastRecoverExitPoint = x.fastRecoverExitPoint ∧
                  ((missLoop htna fuel x t maxTSN).1.willRetransmitFast = x.willRetransmitFast) := by
                intro fuel
                induction fuel with
                | zero => intro x t _; exact ⟨rfl, rfl⟩
                | succ n ihn =>
                  intro x t hx
                  simp only [missLoop]
                  split
                  · cases hgx : Sender.get x.inflight t with
                    | none => exact ⟨rfl, rfl⟩
                    | some oc' =>
                      obtain ⟨off', c'⟩ := oc'
                      simp only
                      split
                      · split
                        · rename_i he; simp [hx] at he
                        · exact ihn _ _ hx
                      · exact ihn _ _ hx
                  · exact ⟨rfl, rfl⟩
              exact (this fuel _ (tsn + 1) rfl).1
            · have : ∀ fuel (x : St) t, x.inFastRecovery = true →
                  ((missLoop htna fuel x t maxTSN).1.willRetransmitFast = x.willRetransmitFast) := by
                intro fuel
                induction fuel with
                | zero => intro x t _; rfl
                | succ n ihn =>
                  intro x t hx
                  simp only [missLoop]
                  split
                  · cases hgx : Sender.get x.inflight t with
                    | none => rfl
                    | some oc' =>
                      obtain ⟨off', c'⟩ := oc'
                      simp only
                      split
                      · split
                        · rename_i he; simp [hx] at he
                        · exact ihn _ _ hx
                      · exact ihn _ _ hx
                  · rfl
              exact this fuel _ (tsn + 1) rfl
          · exact ih { s with inflight := s.inflight.set off { c with missIndicator := c.missIndicator + 1 } } (tsn + 1)
        · exact ih s (tsn + 1)
    · exact ⟨rfl, fun h => ⟨rfl, rfl, h⟩, fun h => Or.inl ⟨h, rfl, rfl⟩⟩

/-- `processFastRetransmission`: if it takes the sender into fast recovery, ssthresh and cwnd are set by the formula
from the cwnd at that moment; if the sender already was in fast recovery, neither is touched -/
theorem fastRetransCheck_loss (s : St) (cum : BitVec 32) (gaps : List (BitVec 16 × BitVec 16)) (htna : BitVec 32) (adv : Bool) :
    (s.inFastRecovery = true →
      (fastRetransCheck s cum gaps htna adv).1.cwnd = s.cwnd ∧ (fastRetransCheck s cum gaps htna adv).1.ssthresh = s.ssthresh) ∧
    (s.inFastRecovery = false → (fastRetransCheck s cum gaps htna adv).1.inFastRecovery = true →
      (fastRetransCheck s cum gaps htna adv).1.ssthresh = fastRecovery_ssthresh s.cwnd s.cfg.mtu ∧
      (fastRetransCheck s cum gaps htna adv).1.cwnd = setCwnd s (fastRecovery_cwndArg (fastRecovery_ssthresh s.cwnd s.cfg.mtu)) ∧
      (fastRetransCheck s cum gaps htna adv).1.willRetransmitFast = true) ∧
    (s.inFastRecovery = false → (fastRetransCheck s cum gaps htna adv).1.inFastRecovery = false →
      (fastRetransCheck s cum gaps htna adv).1.cwnd = s.cwnd ∧ (fastRetransCheck s cum gaps htna adv).1.ssthresh = s.ssthresh) := by
  have hpost : ∀ r : St × Bool, (frPost r adv).1.cwnd = r.1.cwnd ∧ (frPost r adv).1.ssthresh = r.1.ssthresh ∧
      (frPost r adv).1.inFastRecovery = r.1.inFastRecovery ∧ (r.1.willRetransmitFast = true → (frPost r adv).1.willRetransmitFast = true) := by
    intro r
    unfold frPost
    split
    · exact ⟨rfl, rfl, rfl, id⟩
    · split
      · exact ⟨rfl, rfl, rfl, fun _ => rfl⟩
      · exact ⟨rfl, rfl, rfl, id⟩
  obtain ⟨q1, q2, q3, q4⟩ := hpost (frLoop s cum gaps htna adv)
  unfold fastRetransCheck
  rw [q1, q2, q3]
  unfold frLoop at q4 ⊢
  split
  · obtain ⟨m1, m2, m3⟩ := missLoop_loss htna (s.inflight.length + 1) s (cum + 1)
      (if (!s.inFastRecovery) = true then htna else match gaps.getLast? with | some (_, en) => cum + BitVec.setWidth 32 en | none => cum)
    rename_i hc
    simp only [hc, if_true] at q4
    refine ⟨fun h => ⟨(m2 h).1, (m2 h).2.1⟩, fun h hin => ?_, fun h hout => ?_⟩
    · rcases m3 h with ⟨a, _, _⟩ | ⟨a, b, c, d, e⟩
      · exact absurd (a.symm.trans hin) (by decide)
      · exact ⟨b, c, q4 e⟩
    · rcases m3 h with ⟨a, b, c⟩ | ⟨a, _⟩
      · exact ⟨b, c⟩
      · exact absurd (a.symm.trans hout) (by decide)
  · refine ⟨fun _ => ⟨rfl, rfl⟩, fun h hin => ?_, fun _ _ => ⟨rfl, rfl⟩⟩
    rw [h] at hin; cases hin

end SenderProofs
