import SctpVerif.Proofs.Sender.Seq
import SctpVerif.Proofs.Sender.Cfg
/-! Partial reliability on the sender side: abandonment only grows; the advanced peer ack point walks over abandoned
chunks only (`AdvInv`), as far as it can (`advLoop_stop`); a validated SACK never hits the late error return of
`processFastRetransmission` (`sack_not_failedLate`); what the FORWARD-TSN / I-FORWARD-TSN lists contain. -/
namespace SenderProofs
open Gen Sender

/-! ### what never changes about a chunk -/

/-- the immutable part of a chunk (everything but `len`, `acked`, `retransmit`, `nSent`, `missIndicator`, `since`, `firstSent`) -/
def Chunk.ident (c : Chunk) : BitVec 32 × Nat × BitVec 16 × BitVec 32 × Bool × BitVec 16 × BitVec 32 × Bool × Bool :=
  (c.tsn, c.msg, c.si, c.ppi, c.unordered, c.ssn, c.mid, c.bfrag, c.efrag)

theorem ident_msg {c c' : Chunk} (h : Chunk.ident c' = Chunk.ident c) : c'.msg = c.msg := by
  simp only [Chunk.ident, Prod.mk.injEq] at h; exact h.2.1

theorem ident_tsn {c c' : Chunk} (h : Chunk.ident c' = Chunk.ident c) : c'.tsn = c.tsn := by
  simp only [Chunk.ident, Prod.mk.injEq] at h; exact h.1

theorem ident_si {c c' : Chunk} (h : Chunk.ident c' = Chunk.ident c) : c'.si = c.si := by
  simp only [Chunk.ident, Prod.mk.injEq] at h; exact h.2.2.1

theorem ident_ppi {c c' : Chunk} (h : Chunk.ident c' = Chunk.ident c) : c'.ppi = c.ppi := by
  simp only [Chunk.ident, Prod.mk.injEq] at h; exact h.2.2.2.1

theorem map_ident_flags (q : List Chunk) (f : Chunk → Chunk) (hf : ∀ c, Chunk.ident (f c) = Chunk.ident c) :
    (q.map f).map Chunk.ident = q.map Chunk.ident := by
  induction q with
  | nil => rfl
  | cons c r ih => simp [hf, ih]

theorem list_set_ident (q : List Chunk) (off : Nat) (c c' : Chunk) (hq : q[off]? = some c) (hc : Chunk.ident c' = Chunk.ident c) :
    (q.set off c').map Chunk.ident = q.map Chunk.ident := by
  rw [List.map_set]
  apply List.ext_getElem?
  intro i
  by_cases hi : i = off
  · subst hi
    have hlt : i < q.length := by
      rcases Nat.lt_or_ge i q.length with h | h
      · exact h
      · rw [List.getElem?_eq_none h] at hq; cases hq
    have hqi : q[i] = c := by
      have := List.getElem?_eq_getElem hlt; rw [hq] at this; exact (Option.some.inj this).symm
    simp [hlt, hc, hqi]
  · simp [Ne.symm hi]

theorem scanLoop_ident {B : Type} (s : St) (dec : Int → LoopAcc B → Chunk → Take B) (upd : Chunk → Chunk)
    (hupd : ∀ c, Chunk.ident (upd c) = Chunk.ident c) (i : Int) (q : List Chunk) (a : LoopAcc B) :
    (scanLoop s dec upd i q a).1.map Chunk.ident = q.map Chunk.ident := by
  induction q generalizing i a with
  | nil => simp [scanLoop]
  | cons c rest ih =>
    simp only [scanLoop]
    cases hd : dec i a c with
    | skip => simp [ih]
    | stop b => simp
    | take b bip => simp [ih, hupd]

/-- `l'` is `l` (up to flags) followed by more chunks -/
def IdentPrefix (l l' : List Chunk) : Prop := ∃ x, l'.map Chunk.ident = l.map Chunk.ident ++ x

theorem IdentPrefix.refl (l : List Chunk) : IdentPrefix l l := ⟨[], by simp⟩

theorem IdentPrefix.of_eq {l l' : List Chunk} (h : l'.map Chunk.ident = l.map Chunk.ident) : IdentPrefix l l' := ⟨[], by simp [h]⟩

theorem IdentPrefix.trans {a b c : List Chunk} (h1 : IdentPrefix a b) (h2 : IdentPrefix b c) : IdentPrefix a c := by
  obtain ⟨x, hx⟩ := h1
  obtain ⟨y, hy⟩ := h2
  exact ⟨x ++ y, by rw [hy, hx, List.append_assoc]⟩

theorem IdentPrefix.append (l : List Chunk) (x : List Chunk) : IdentPrefix l (l ++ x) := ⟨x.map Chunk.ident, by simp⟩

theorem IdentPrefix.length {l l' : List Chunk} (h : IdentPrefix l l') : l.length ≤ l'.length := by
  obtain ⟨x, hx⟩ := h
  have := congrArg List.length hx
  simp at this; omega

theorem IdentPrefix.get {l l' : List Chunk} (h : IdentPrefix l l') {i : Nat} {c' : Chunk} (hi : i < l.length) (hc : l'[i]? = some c') :
    ∃ c, l[i]? = some c ∧ Chunk.ident c' = Chunk.ident c := by
  obtain ⟨x, hx⟩ := h
  refine ⟨l[i], List.getElem?_eq_getElem hi, ?_⟩
  have h1 : (l'.map Chunk.ident)[i]? = some (Chunk.ident c') := by simp [hc]
  rw [hx, List.getElem?_append_left (by simpa using hi)] at h1
  simpa [hi] using h1.symm

theorem ident_of_eq_get {l l' : List Chunk} (h : l'.map Chunk.ident = l.map Chunk.ident) {i : Nat} {c' : Chunk} (hc : l'[i]? = some c') :
    ∃ c, l[i]? = some c ∧ Chunk.ident c' = Chunk.ident c := by
  have hl : l'.length = l.length := by simpa using congrArg List.length h
  have hi : i < l.length := by
    rcases Nat.lt_or_ge i l'.length with h1 | h1
    · omega
    · rw [List.getElem?_eq_none h1] at hc; cases hc
  exact (IdentPrefix.of_eq h).get hi hc

/-! ### abandonment only grows -/

theorem isAbandoned_iff (aband allInf : List Nat) (c : Chunk) : isAbandoned aband allInf c = true ↔ c.msg ∈ aband ∧ c.msg ∈ allInf := by
  simp [isAbandoned]

theorem isAbandoned_mono {a a' b b' : List Nat} {c c' : Chunk} (ha : ∀ m ∈ a, m ∈ a') (hb : ∀ m ∈ b, m ∈ b') (hm : c'.msg = c.msg)
    (h : isAbandoned a b c = true) : isAbandoned a' b' c' = true := by
  rw [isAbandoned_iff] at h ⊢
  rw [hm]; exact ⟨ha _ h.1, hb _ h.2⟩

/-- `checkPartialReliabilityStatus` leaves the set alone or adds the chunk's message -/
theorem checkPR_cases (s : St) (aband : List Nat) (c : Chunk) : checkPR s aband c = aband ∨ checkPR s aband c = c.msg :: aband := by
  unfold checkPR
  repeat' split
  all_goals first | exact Or.inl rfl | exact Or.inr rfl

theorem checkPR_sub (s : St) (aband : List Nat) (c : Chunk) : ∀ m ∈ aband, m ∈ checkPR s aband c := by
  intro m hm
  rcases checkPR_cases s aband c with h | h <;> rw [h]
  · exact hm
  · exact List.mem_cons_of_mem _ hm

theorem scanLoop_aband_mono {B : Type} (s : St) (dec : Int → LoopAcc B → Chunk → Take B) (upd : Chunk → Chunk)
    (i : Int) (q : List Chunk) (a : LoopAcc B) : ∀ m ∈ a.aband, m ∈ (scanLoop s dec upd i q a).2.aband := by
  induction q generalizing i a with
  | nil => intro m hm; simpa [scanLoop] using hm
  | cons c rest ih =>
    intro m hm
    simp only [scanLoop]
    cases hd : dec i a c with
    | skip => exact ih _ _ m hm
    | stop b => exact hm
    | take b bip => exact ih _ _ m (checkPR_sub s a.aband (upd c) m hm)

/-- the partial-reliability books of `s'` contain those of `s` -/
def AbLe (s s' : St) : Prop :=
  (∀ m ∈ s.abandonedMsgs, m ∈ s'.abandonedMsgs) ∧ (∀ m ∈ s.allInflightMsgs, m ∈ s'.allInflightMsgs)

theorem AbLe.refl (s : St) : AbLe s s := ⟨fun _ h => h, fun _ h => h⟩
theorem AbLe.trans {a b c : St} (h1 : AbLe a b) (h2 : AbLe b c) : AbLe a c :=
  ⟨fun m h => h2.1 m (h1.1 m h), fun m h => h2.2 m (h1.2 m h)⟩
theorem AbLe.of_eq {s s' : St} (h1 : s'.abandonedMsgs = s.abandonedMsgs) (h2 : s'.allInflightMsgs = s.allInflightMsgs) : AbLe s s' :=
  ⟨fun m h => by rw [h1]; exact h, fun m h => by rw [h2]; exact h⟩

theorem AbLe.abandoned {s s' : St} (h : AbLe s s') {c c' : Chunk} (hm : c'.msg = c.msg) (ha : s.abandoned c = true) : s'.abandoned c' = true :=
  isAbandoned_mono h.1 h.2 hm ha

/-! ### fields the acknowledgement path never touches -/

/-- control fields of partial reliability are unchanged -/
def SameCtl (s s' : St) : Prop :=
  s'.abandonedMsgs = s.abandonedMsgs ∧ s'.allInflightMsgs = s.allInflightMsgs ∧ s'.advPeerAck = s.advPeerAck ∧
  s'.willSendForwardTSN = s.willSendForwardTSN ∧ s'.established = s.established ∧ s'.nextMsg = s.nextMsg ∧ s'.pending = s.pending

theorem SameCtl.refl (s : St) : SameCtl s s := ⟨rfl, rfl, rfl, rfl, rfl, rfl, rfl⟩
theorem SameCtl.trans {a b c : St} (h1 : SameCtl a b) (h2 : SameCtl b c) : SameCtl a c := by
  obtain ⟨a1, a2, a3, a4, a5, a6, a7⟩ := h1
  obtain ⟨b1, b2, b3, b4, b5, b6, b7⟩ := h2
  exact ⟨b1.trans a1, b2.trans a2, b3.trans a3, b4.trans a4, b5.trans a5, b6.trans a6, b7.trans a7⟩

theorem SameCtl.abLe {s s' : St} (h : SameCtl s s') : AbLe s s' := AbLe.of_eq h.1 h.2.1

theorem releaseAll_ctl (rel : Rel) (s : St) : SameCtl s (releaseAll rel s) := by
  induction rel generalizing s with
  | nil => exact SameCtl.refl s
  | cons e r ih =>
    obtain ⟨si, n⟩ := e
    simp only [releaseAll]
    cases hs : s.streams si with
    | none => exact ih s
    | some st =>
      simp only
      split
      · exact SameCtl.trans ⟨rfl, rfl, rfl, rfl, rfl, rfl, rfl⟩ (ih _)
      · exact ih s

theorem onCumAdvanced_ctl (s : St) (total : Int) : SameCtl s (onCumAdvanced s total) := by
  unfold onCumAdvanced
  split
  · split
    · exact ⟨rfl, rfl, rfl, rfl, rfl, rfl, rfl⟩
    · exact SameCtl.refl s
  · simp only
    split
    · exact ⟨rfl, rfl, rfl, rfl, rfl, rfl, rfl⟩
    · exact ⟨rfl, rfl, rfl, rfl, rfl, rfl, rfl⟩

theorem ackApply_ctl (s : St) (cum : BitVec 32) (g : GapAcc) (inFR : Bool) : SameCtl s (ackApply s cum g inFR) := by
  unfold ackApply
  simp only
  refine SameCtl.trans ?_ (releaseAll_ctl _ _)
  split
  · exact SameCtl.trans ⟨rfl, rfl, rfl, rfl, rfl, rfl, rfl⟩ (onCumAdvanced_ctl _ _)
  · exact ⟨rfl, rfl, rfl, rfl, rfl, rfl, rfl⟩

theorem missLoop_ctl (htna : BitVec 32) (fuel : Nat) (s : St) (tsn maxTSN : BitVec 32) :
    SameCtl s (missLoop htna fuel s tsn maxTSN).1 := by
  induction fuel generalizing s tsn with
  | zero => exact SameCtl.refl s
  | succ fuel ih =>
    simp only [missLoop]
    split
    · cases hg : Sender.get s.inflight tsn with
      | none => exact SameCtl.refl s
      | some oc =>
        obtain ⟨off, c⟩ := oc
        simp only
        split
        · split
          · exact SameCtl.trans ⟨rfl, rfl, rfl, rfl, rfl, rfl, rfl⟩ (ih _ _)
          · exact SameCtl.trans ⟨rfl, rfl, rfl, rfl, rfl, rfl, rfl⟩ (ih _ _)
        · exact ih s (tsn + 1)
    · exact SameCtl.refl s

theorem fastRetransCheck_ctl (s : St) (cum : BitVec 32) (gaps : List (BitVec 16 × BitVec 16)) (htna : BitVec 32) (adv : Bool) :
    SameCtl s (fastRetransCheck s cum gaps htna adv).1 := by
  have h1 : SameCtl s (frLoop s cum gaps htna adv).1 := by
    unfold frLoop
    split
    · exact missLoop_ctl _ _ _ _ _
    · exact SameCtl.refl s
  have h2 : ∀ r : St × Bool, SameCtl r.1 (frPost r adv).1 := by
    intro r
    unfold frPost
    split
    · exact SameCtl.refl _
    · split
      · exact ⟨rfl, rfl, rfl, rfl, rfl, rfl, rfl⟩
      · exact SameCtl.refl _
  unfold fastRetransCheck
  exact SameCtl.trans h1 (h2 _)

theorem applyMarks_ctl (s : St) (marks : List (BitVec 32)) : SameCtl s (applyMarks s marks) := ⟨rfl, rfl, rfl, rfl, rfl, rfl, rfl⟩

theorem applyMarks_ident (s : St) (marks : List (BitVec 32)) : (applyMarks s marks).inflight.map Chunk.ident = s.inflight.map Chunk.ident := by
  simp only [applyMarks]
  apply map_ident_flags
  intro c; split <;> rfl

theorem markAll_ident (s : St) : (markAllToRetransmit s).map Chunk.ident = s.inflight.map Chunk.ident := by
  simp only [markAllToRetransmit]
  apply map_ident_flags
  intro c; split <;> rfl

/-- `SameAcct` keeps message identities (`Chunk.core` contains `tsn` and `msg`) -/
theorem msgs_of_core {q q' : List Chunk} (h : q'.map Chunk.core = q.map Chunk.core) : q'.map (·.msg) = q.map (·.msg) := by
  have : ∀ l : List Chunk, l.map (·.msg) = (l.map Chunk.core).map (·.2.2.2.2) := by
    intro l; induction l with
    | nil => rfl
    | cons x r ih => simp [Chunk.core, ih]
  rw [this, this, h]

/-! ### the gather side: abandonment grows, the queue is extended, the ack points stay -/

/-- what a gather (or a part of it) does to the fields partial reliability reads -/
def GRel (s s' : St) : Prop :=
  AbLe s s' ∧ IdentPrefix s.inflight s'.inflight ∧ s'.advPeerAck = s.advPeerAck ∧ s'.cumAck = s.cumAck ∧
  s'.willSendForwardTSN = s.willSendForwardTSN ∧ s'.established = s.established

theorem GRel.refl (s : St) : GRel s s := ⟨AbLe.refl s, IdentPrefix.refl _, rfl, rfl, rfl, rfl⟩

theorem GRel.trans {a b c : St} (h1 : GRel a b) (h2 : GRel b c) : GRel a c := by
  obtain ⟨a1, a2, a3, a4, a5, a6⟩ := h1
  obtain ⟨b1, b2, b3, b4, b5, b6⟩ := h2
  exact ⟨a1.trans b1, a2.trans b2, b3.trans a3, b4.trans a4, b5.trans a5, b6.trans a6⟩

theorem rtxUpd_ident (s : St) (c : Chunk) : Chunk.ident (rtxUpd s c) = Chunk.ident c := rfl
theorem fastUpd_ident (s : St) (c : Chunk) : Chunk.ident (fastUpd s c) = Chunk.ident c := rfl

theorem gatherRtx_ident (s : St) (orc : Oracle) : (gatherRtx s orc).1.inflight.map Chunk.ident = s.inflight.map Chunk.ident := by
  show ((scanSplit s).1 ++ _).map Chunk.ident = _
  rw [List.map_append, scanLoop_ident s _ _ (rtxUpd_ident s), ← List.map_append, scanSplit_append]

theorem gatherRtx_grel (s : St) (orc : Oracle) : GRel s (gatherRtx s orc).1 :=
  ⟨⟨scanLoop_aband_mono s _ _ 0 _ { b := orc.b, aband := s.abandonedMsgs }, fun _ h => h⟩,
   IdentPrefix.of_eq (gatherRtx_ident s orc), rfl, rfl, rfl, rfl⟩

theorem gatherFast_grel {B : Type} (s : St) (allow : B → Int → Bool × B) (b : B) : GRel s (gatherFast s allow b).1 := by
  unfold gatherFast
  split
  · exact GRel.refl s
  · simp only
    refine ⟨⟨scanLoop_aband_mono _ _ _ 0 _ { b := b, size := hdr, aband := s.abandonedMsgs }, fun _ h => h⟩, IdentPrefix.of_eq ?_, rfl, rfl, rfl, rfl⟩
    show ((scanSplit { s with willRetransmitFast := false }).1 ++ _).map Chunk.ident = _
    rw [List.map_append, scanLoop_ident _ _ _ (fastUpd_ident _), ← List.map_append, scanSplit_append]

theorem move_grel (s : St) (i : Nat) (c : Chunk) : GRel s (move s i c).1 := by
  refine ⟨⟨?_, ?_⟩, ?_, rfl, rfl, rfl, rfl⟩
  · intro m hm
    exact checkPR_sub _ _ _ m hm
  · intro m hm
    simp only [move, popPend]
    split
    · exact List.mem_cons_of_mem _ hm
    · exact hm
  · simp only [move, popPend]
    exact IdentPrefix.append _ _

theorem popLoop_grel {B : Type} (allow : B → Int → Bool × B) (fuel : Nat) (s : St) (sel : List Nat) (a : PopAcc B) :
    GRel s (popLoop allow fuel s sel a).1 := by
  induction fuel generalizing s sel a with
  | zero => exact GRel.refl s
  | succ fuel ih =>
    simp only [popLoop]
    cases hp : peek s sel with
    | none => exact GRel.refl s
    | some ic =>
      obtain ⟨i, c⟩ := ic
      simp only
      split
      · exact GRel.trans (show GRel s (popPend s i c) from GRel.refl s) (ih _ _ _)
      · cases hd : popDecide s allow a c with
        | skip => exact GRel.refl s
        | stop b => exact GRel.refl s
        | take b bip =>
          simp only
          exact GRel.trans (GRel.trans (show GRel s (chargeSend s c) from GRel.refl s) (move_grel (chargeSend s c) i c)) (ih _ _ _)

theorem probe_grel {B : Type} (allow : B → Int → Bool × B) (s : St) (sel : List Nat) (a : PopAcc B) : GRel s (probe allow s sel a).1 := by
  unfold probe
  split
  · cases hp : peek s sel with
    | none => exact GRel.refl s
    | some ic =>
      obtain ⟨i, c⟩ := ic
      simp only
      split
      · split
        · split
          · exact GRel.trans (show GRel s (chargeProbe s c) from GRel.refl s) (move_grel (chargeProbe s c) i c)
          · exact GRel.refl s
        · exact GRel.refl s
      · exact GRel.refl s
  · exact GRel.refl s

theorem gatherNew_grel {B : Type} (s : St) (allow : B → Int → Bool × B) (b : B) (sel : List Nat) : GRel s (gatherNew s allow b sel).1 := by
  unfold gatherNew
  split
  · exact GRel.trans (popLoop_grel _ _ _ _ _) (probe_grel _ _ _ _)
  · exact GRel.refl s

/-- the state of a gather just before `gatherOutboundForwardTSNPackets` clears the flag -/
def gatherPre (s : St) (orc : Oracle) (sel : List Nat) : St :=
  (gatherFast (gatherNew (gatherRtx s orc).1 orc.allow (gatherRtx s orc).2.2 sel).1 orc.allow (gatherNew (gatherRtx s orc).1 orc.allow (gatherRtx s orc).2.2 sel).2.b).1

theorem gatherPre_grel (s : St) (orc : Oracle) (sel : List Nat) : GRel s (gatherPre s orc sel) :=
  GRel.trans (gatherRtx_grel s orc) (GRel.trans (gatherNew_grel _ _ _ _) (gatherFast_grel _ _ _))

theorem gather_eq (s : St) (orc : Oracle) (sel : List Nat) (he : s.established = true) :
    (gather s orc sel).1 = { gatherPre s orc sel with willSendForwardTSN := false } ∧
    (gather s orc sel).2.fwd = fwdOut (gatherPre s orc sel) := by
  unfold gather
  simp only [he, Bool.not_true, Bool.false_eq_true, if_false]
  constructor <;> first | rfl | trivial

/-- abandonment, queue prefix and ack points across a whole gather (the flag is cleared at the end) -/
theorem gather_grel (s : St) (orc : Oracle) (sel : List Nat) :
    AbLe s (gather s orc sel).1 ∧ IdentPrefix s.inflight (gather s orc sel).1.inflight ∧
    (gather s orc sel).1.advPeerAck = s.advPeerAck ∧ (gather s orc sel).1.cumAck = s.cumAck ∧
    (gather s orc sel).1.established = s.established := by
  by_cases he : s.established = true
  · rw [(gather_eq s orc sel he).1]
    obtain ⟨g1, g2, g3, g4, _, g6⟩ := gatherPre_grel s orc sel
    exact ⟨g1, g2, g3, g4, g6⟩
  · unfold gather
    simp only [he, Bool.not_false, if_true]
    exact ⟨AbLe.refl s, IdentPrefix.refl _, trivial, trivial, trivial⟩

/-! ### `get` on a contiguous queue -/

theorem get_off {q : List Chunk} {t tsn : BitVec 32} {off : Nat} {c : Chunk} (hc : Contig q t) (h : Sender.get q tsn = some (off, c)) :
    off = (tsn - t).toNat ∧ q[off]? = some c ∧ off < q.length := by
  cases q with
  | nil => simp [Sender.get] at h
  | cons f r =>
    have hf : f.tsn = t := hc.1
    simp only [Sender.get, hf] at h
    split at h
    · cases h
    · rename_i hlt
      simp only [Option.map_eq_some_iff, Prod.mk.injEq] at h
      obtain ⟨a, h1, h2, h3⟩ := h
      subst h3
      exact ⟨h2.symm, by rw [← h2]; exact h1, by rw [← h2]; omega⟩

theorem get_of_lt {q : List Chunk} {t tsn : BitVec 32} (hc : Contig q t) (h : (tsn - t).toNat < q.length) :
    Sender.get q tsn = some ((tsn - t).toNat, q[(tsn - t).toNat]) := by
  cases q with
  | nil => simp at h
  | cons f r =>
    have hf : f.tsn = t := hc.1
    simp only [Sender.get, hf]
    rw [if_neg (by omega), List.getElem?_eq_getElem h]
    rfl

theorem get_none_of_ge {q : List Chunk} {t tsn : BitVec 32} (hc : Contig q t) (h : q.length ≤ (tsn - t).toNat) :
    Sender.get q tsn = none := by
  cases q with
  | nil => rfl
  | cons f r =>
    have hf : f.tsn = t := hc.1
    simp only [Sender.get, hf]
    rw [if_pos h]

/-! ### the advanced peer ack point covers abandoned chunks only -/

/-- `advancedPeerTSNAckPoint` lies inside the in-flight queue and every chunk up to it is abandoned -/
structure AdvInv (s : St) : Prop where
  le : (s.advPeerAck - s.cumAck).toNat ≤ s.inflight.length
  ab : ∀ i c, i < (s.advPeerAck - s.cumAck).toNat → s.inflight[i]? = some c → s.abandoned c = true

/-- `l'` carries the messages of `l`, in order, followed by more -/
def MsgPrefix (l l' : List Chunk) : Prop := ∃ x, l'.map (·.msg) = l.map (·.msg) ++ x

theorem msgs_of_ident {q q' : List Chunk} (h : q'.map Chunk.ident = q.map Chunk.ident) : q'.map (·.msg) = q.map (·.msg) := by
  have : ∀ l : List Chunk, l.map (·.msg) = (l.map Chunk.ident).map (·.2.1) := by
    intro l; induction l with
    | nil => rfl
    | cons x r ih => simp [Chunk.ident, ih]
  rw [this, this, h]

theorem IdentPrefix.msgs {l l' : List Chunk} (h : IdentPrefix l l') : MsgPrefix l l' := by
  obtain ⟨x, hx⟩ := h
  have : ∀ l : List Chunk, l.map (·.msg) = (l.map Chunk.ident).map (·.2.1) := by
    intro l; induction l with
    | nil => rfl
    | cons x r ih => simp [Chunk.ident, ih]
  exact ⟨x.map (·.2.1), by rw [this l', hx, List.map_append, ← this l]⟩

theorem MsgPrefix.of_eq {l l' : List Chunk} (h : l'.map (·.msg) = l.map (·.msg)) : MsgPrefix l l' := ⟨[], by simp [h]⟩
theorem MsgPrefix.of_core {l l' : List Chunk} (h : l'.map Chunk.core = l.map Chunk.core) : MsgPrefix l l' := MsgPrefix.of_eq (msgs_of_core h)
theorem MsgPrefix.of_ident {l l' : List Chunk} (h : l'.map Chunk.ident = l.map Chunk.ident) : MsgPrefix l l' := MsgPrefix.of_eq (msgs_of_ident h)

theorem MsgPrefix.length {l l' : List Chunk} (h : MsgPrefix l l') : l.length ≤ l'.length := by
  obtain ⟨x, hx⟩ := h
  have := congrArg List.length hx
  simp at this; omega

theorem MsgPrefix.get {l l' : List Chunk} (h : MsgPrefix l l') {i : Nat} {c' : Chunk} (hi : i < l.length) (hc : l'[i]? = some c') :
    ∃ c, l[i]? = some c ∧ c'.msg = c.msg := by
  obtain ⟨x, hx⟩ := h
  refine ⟨l[i], List.getElem?_eq_getElem hi, ?_⟩
  have h1 : (l'.map (·.msg))[i]? = some c'.msg := by simp [hc]
  rw [hx, List.getElem?_append_left (by simpa using hi)] at h1
  simpa [hi] using h1.symm

theorem AdvInv.transfer {s s' : St} (h : AdvInv s) (ha : s'.advPeerAck = s.advPeerAck) (hc : s'.cumAck = s.cumAck)
    (hp : MsgPrefix s.inflight s'.inflight) (hab : AbLe s s') : AdvInv s' := by
  refine ⟨?_, ?_⟩
  · rw [ha, hc]; exact Nat.le_trans h.le hp.length
  · intro i c' hi hc'
    rw [ha, hc] at hi
    obtain ⟨c, h1, h2⟩ := hp.get (Nat.lt_of_lt_of_le hi h.le) hc'
    exact hab.abandoned h2 (h.ab i c hi h1)

theorem advLoop_only (fuel : Nat) (s : St) : ∃ a, advLoop fuel s = { s with advPeerAck := a } := by
  induction fuel generalizing s with
  | zero => exact ⟨s.advPeerAck, rfl⟩
  | succ fuel ih =>
    simp only [advLoop]
    cases hg : Sender.get s.inflight (s.advPeerAck + 1) with
    | none => exact ⟨s.advPeerAck, rfl⟩
    | some oc =>
      simp only
      split
      · exact ⟨s.advPeerAck, rfl⟩
      · obtain ⟨a, ha⟩ := ih { s with advPeerAck := s.advPeerAck + 1 }
        exact ⟨a, by rw [ha]⟩

theorem adv_offset (adv cum : BitVec 32) : (adv + 1 - (cum + 1)).toNat = (adv - cum).toNat := by
  congr 1; bv_omega

/-- RFC 3758 C2 loop: the invariant is kept -/
theorem advLoop_inv (fuel : Nat) (s : St) (hs : Contig s.inflight (s.cumAck + 1)) (hsm : s.inflight.length < 2^32) (h : AdvInv s) :
    AdvInv (advLoop fuel s) := by
  induction fuel generalizing s with
  | zero => exact h
  | succ fuel ih =>
    simp only [advLoop]
    cases hg : Sender.get s.inflight (s.advPeerAck + 1) with
    | none => exact h
    | some oc =>
      obtain ⟨off, c⟩ := oc
      simp only
      split
      · exact h
      · rename_i hab
        have hab' : s.abandoned c = true := by simpa using hab
        obtain ⟨o1, o2, o3⟩ := get_off hs hg
        rw [adv_offset] at o1
        apply ih { s with advPeerAck := s.advPeerAck + 1 } hs hsm
        have hd : (s.advPeerAck + 1 - s.cumAck).toNat = (s.advPeerAck - s.cumAck).toNat + 1 := by
          have := h.le
          bv_omega
        refine ⟨?_, ?_⟩
        · show (s.advPeerAck + 1 - s.cumAck).toNat ≤ s.inflight.length
          rw [hd]; omega
        · intro i x hi hx
          have hi' : i < (s.advPeerAck - s.cumAck).toNat + 1 := by
            have : i < (s.advPeerAck + 1 - s.cumAck).toNat := hi
            rw [hd] at this; exact this
          rcases Nat.lt_succ_iff_lt_or_eq.mp hi' with h1 | h1
          · exact h.ab i x h1 hx
          · have hx' : s.inflight[i]? = some x := hx
            rw [h1, ← o1, o2] at hx'
            cases hx'
            exact hab'

/-- … and it stops only where it must: the chunk right after the point, if in flight, is not abandoned -/
theorem advLoop_stop (fuel : Nat) (s : St) (hs : Contig s.inflight (s.cumAck + 1)) (hsm : s.inflight.length < 2^32) (h : AdvInv s)
    (hf : s.inflight.length - (s.advPeerAck - s.cumAck).toNat < fuel) :
    ∀ off c, Sender.get (advLoop fuel s).inflight ((advLoop fuel s).advPeerAck + 1) = some (off, c) → (advLoop fuel s).abandoned c = false := by
  induction fuel generalizing s with
  | zero => omega
  | succ fuel ih =>
    simp only [advLoop]
    cases hg : Sender.get s.inflight (s.advPeerAck + 1) with
    | none => intro off c hc; simp only at hc; rw [hg] at hc; cases hc
    | some oc =>
      obtain ⟨off0, c0⟩ := oc
      simp only
      split
      · rename_i hab
        intro off c hc
        rw [hg] at hc
        cases hc
        simpa using hab
      · rename_i hab
        have hab' : s.abandoned c0 = true := by simpa using hab
        obtain ⟨o1, o2, o3⟩ := get_off hs hg
        rw [adv_offset] at o1
        have hd : (s.advPeerAck + 1 - s.cumAck).toNat = (s.advPeerAck - s.cumAck).toNat + 1 := by
          have := h.le
          bv_omega
        have hinv : AdvInv { s with advPeerAck := s.advPeerAck + 1 } := by
          have := advLoop_inv 1 s hs hsm h
          simp only [advLoop, hg, hab] at this
          simpa using this
        apply ih { s with advPeerAck := s.advPeerAck + 1 } hs hsm hinv
        show s.inflight.length - (s.advPeerAck + 1 - s.cumAck).toNat < fuel
        rw [hd]; omega

/-! ### shape of the state after `processAcknowledgement` -/

theorem popCum_drop (exitPt : BitVec 32) (q : List Chunk) (idx cum : BitVec 32) (a : CumAcc) {q' : List Chunk} {a' : CumAcc}
    (h : popCum exitPt q idx cum a = some (q', a')) : ∃ k, k ≤ q.length ∧ q' = q.drop k := by
  induction q generalizing idx a with
  | nil =>
    rw [popCum] at h
    split at h
    · cases h
    · cases h; exact ⟨0, by simp, rfl⟩
  | cons c r ih =>
    rw [popCum] at h
    split at h
    · split at h
      · obtain ⟨k, hk, e⟩ := ih _ _ h
        exact ⟨k + 1, by simp only [List.length_cons]; omega, by simpa using e⟩
      · cases h
    · cases h; exact ⟨0, by simp, rfl⟩

theorem markOne_ident (a : GapAcc) (tsn : BitVec 32) {a' : GapAcc} (h : markOne a tsn = some a') :
    a'.q.map Chunk.ident = a.q.map Chunk.ident := by
  unfold markOne at h
  cases hg : Sender.get a.q tsn with
  | none => simp [hg] at h
  | some oc =>
    obtain ⟨off, c⟩ := oc
    simp only [hg, Option.some.injEq] at h
    subst h
    simp only
    split
    · exact list_set_ident _ _ c _ (get_some hg) rfl
    · rfl

theorem markRange_ident (cum : BitVec 32) (is : List Nat) (a : GapAcc) {a' : GapAcc} (h : markRange cum is a = some a') :
    a'.q.map Chunk.ident = a.q.map Chunk.ident := by
  induction is generalizing a with
  | nil => simp [markRange] at h; subst h; rfl
  | cons i r ih =>
    simp only [markRange] at h
    cases h1 : markOne a (cum + BitVec.ofNat 32 i) with
    | none => simp [h1] at h
    | some a1 =>
      simp only [h1] at h
      rw [ih a1 h, markOne_ident a _ h1]

theorem markGaps_ident (cum : BitVec 32) (gaps : List (BitVec 16 × BitVec 16)) (a : GapAcc) {a' : GapAcc} (h : markGaps cum gaps a = some a') :
    a'.q.map Chunk.ident = a.q.map Chunk.ident := by
  induction gaps generalizing a with
  | nil => simp [markGaps] at h; subst h; rfl
  | cons g r ih =>
    obtain ⟨st, en⟩ := g
    simp only [markGaps] at h
    cases h1 : markRange cum (List.range' st.toNat (en.toNat + 1 - st.toNat)) a with
    | none => simp [h1] at h
    | some a1 =>
      simp only [h1] at h
      rw [ih a1 h, markRange_ident cum _ a h1]

/-- what `processAcknowledgement` leaves: control fields untouched, the cumulative point, a suffix of the queue (up to flags) -/
theorem ackPhase_shape {s : St} {cum : BitVec 32} {gaps : List (BitVec 16 × BitVec 16)} {r : St × BitVec 32 × Bool}
    (h : ackPhase s cum gaps = some r) :
    SameCtl s r.1 ∧ r.1.myNextTSN = s.myNextTSN ∧ r.1.cumAck = (if sna32LT s.cumAck cum then cum else s.cumAck) ∧
    ∃ k, k ≤ s.inflight.length ∧ r.1.inflight.map Chunk.ident = (s.inflight.drop k).map Chunk.ident := by
  unfold ackPhase at h
  split at h
  · cases h
  · rename_i qa hp
    split at h
    · cases h
    · rename_i g hg
      simp only [Option.some.injEq] at h
      subst h
      obtain ⟨k, hk, hq⟩ := popCum_drop _ _ _ _ _ hp
      have hid := markGaps_ident cum gaps _ hg
      simp only at hid
      refine ⟨ackApply_ctl s cum g qa.2.inFR, ?_, ?_, k, hk, ?_⟩
      · simp only [ackApply]
        rw [(releaseAll_frame _ _).2.2.2.2.2.2.2.2.2.2.2.2.1]
        split
        · exact (onCumAdvanced_seq _ _).2
        · rfl
      · simp only [ackApply]
        rw [(releaseAll_frame _ _).2.2.2.2.2.2.2.2.2.2.2.1]
        split
        · exact (onCumAdvanced_seq _ _).1
        · rfl
      · simp only [ackApply]
        rw [(releaseAll_frame _ _).2.2.2.2.2.2.1]
        split
        · rw [(onCumAdvanced_same _ _).2]; simp only; rw [hid, hq]
        · simp only; rw [hid, hq]

/-- number of chunks a SACK pops, from contiguity before and after -/
theorem popped_count {s r : St} (hs : Seq s) (hr : Seq r) (hn : r.myNextTSN = s.myNextTSN) {k : Nat} (hk : k ≤ s.inflight.length)
    (hl : r.inflight.length = s.inflight.length - k) (hsm : s.inflight.length < 2^32) :
    r.cumAck = s.cumAck + BitVec.ofNat 32 k := by
  have h1 := hs.2
  have h2 := hr.2
  rw [hn, h1, hl] at h2
  have e1 : (BitVec.ofNat 32 s.inflight.length).toNat = s.inflight.length := by simp [BitVec.toNat_ofNat]; omega
  have e2 : (BitVec.ofNat 32 (s.inflight.length - k)).toNat = s.inflight.length - k := by simp [BitVec.toNat_ofNat]; omega
  have e3 : (BitVec.ofNat 32 k).toNat = k := by simp [BitVec.toNat_ofNat]; omega
  bv_omega

/-! ### a validated SACK never reaches the late error return of `processFastRetransmission` -/

theorem tsns_of_ident {q q' : List Chunk} (h : q'.map Chunk.ident = q.map Chunk.ident) : q'.map (·.tsn) = q.map (·.tsn) := by
  have : ∀ l : List Chunk, l.map (·.tsn) = (l.map Chunk.ident).map (·.1) := by
    intro l; induction l with
    | nil => rfl
    | cons x r ih => simp [Chunk.ident, ih]
  rw [this, this, h]

theorem length_of_ident {q q' : List Chunk} (h : q'.map Chunk.ident = q.map Chunk.ident) : q'.length = q.length := by
  simpa using congrArg List.length h

theorem missLoop_ok (htna c0 maxTSN : BitVec 32) (fuel : Nat) (s : St) (tsn : BitVec 32)
    (hc : Contig s.inflight (c0 + 1)) (hm : (maxTSN - c0).toNat ≤ s.inflight.length) (hsm : s.inflight.length < 2^31)
    (hj : (tsn - (c0 + 1)).toNat ≤ (maxTSN - c0).toNat) (hf : (maxTSN - c0).toNat - (tsn - (c0 + 1)).toNat < fuel) :
    (missLoop htna fuel s tsn maxTSN).2 = true := by
  induction fuel generalizing s tsn with
  | zero => omega
  | succ fuel ih =>
    simp only [missLoop]
    by_cases hlt : sna32LT tsn maxTSN = true
    · rw [if_pos hlt]
      have hj1 : (tsn - (c0 + 1)).toNat + 1 < (maxTSN - c0).toNat := by
        simp only [sna32LT, Bool.or_eq_true, Bool.and_eq_true, decide_eq_true_eq] at hlt
        bv_omega
      have hin : (tsn - (c0 + 1)).toNat < s.inflight.length := by omega
      rw [get_of_lt hc hin]
      simp only
      have hnext : (tsn + 1 - (c0 + 1)).toNat = (tsn - (c0 + 1)).toNat + 1 := by bv_omega
      have key : ∀ x : St, x.inflight.map (·.tsn) = s.inflight.map (·.tsn) → (missLoop htna fuel x (tsn + 1) maxTSN).2 = true := by
        intro x hx
        have hl : x.inflight.length = s.inflight.length := by simpa using congrArg List.length hx
        exact ih x (tsn + 1) (contig_of_tsns hx hc) (by rw [hl]; exact hm) (by rw [hl]; exact hsm) (by rw [hnext]; omega) (by rw [hnext]; omega)
      split
      · have hset : (s.inflight.set (tsn - (c0 + 1)).toNat
            { s.inflight[(tsn - (c0 + 1)).toNat] with missIndicator := s.inflight[(tsn - (c0 + 1)).toNat].missIndicator + 1 }).map (·.tsn) =
            s.inflight.map (·.tsn) := map_tsn_set (List.getElem?_eq_getElem hin) rfl
        split
        · exact key _ hset
        · exact key _ hset
      · exact key s rfl
    · rw [if_neg hlt]

theorem fastRetransCheck_ok (x : St) (cum : BitVec 32) (gaps : List (BitVec 16 × BitVec 16)) (htna : BitVec 32) (adv : Bool)
    (hc : Contig x.inflight (cum + 1)) (hsm : x.inflight.length < 2^31) (hh : (htna - cum).toNat ≤ x.inflight.length)
    (hg : ∀ st en, gaps.getLast? = some (st, en) → en.toNat ≤ x.inflight.length) :
    (fastRetransCheck x cum gaps htna adv).2 = true := by
  have h1 : (frLoop x cum gaps htna adv).2 = true := by
    unfold frLoop
    split
    · have key : ∀ M : BitVec 32, (M - cum).toNat ≤ x.inflight.length → (missLoop htna (x.inflight.length + 1) x (cum + 1) M).2 = true :=
        fun M hM => by
          have h0 : (cum + 1 - (cum + 1)).toNat = 0 := by simp
          exact missLoop_ok htna cum M _ x (cum + 1) hc hM hsm (by omega) (by omega)
      apply key
      split
      · exact hh
      · cases hl : gaps.getLast? with
        | none => simp
        | some g =>
          obtain ⟨st, en⟩ := g
          simp only
          have := hg st en hl
          have e : (BitVec.setWidth 32 en).toNat = en.toNat := by
            have := en.isLt
            simp [BitVec.toNat_setWidth]; omega
          have : (cum + BitVec.setWidth 32 en - cum).toNat = en.toNat := by bv_omega
          omega
    · rfl
  unfold fastRetransCheck frPost
  rw [h1]
  rfl

def HtnaOk (t : BitVec 32) (a : GapAcc) : Prop := a.htna + 1 = t ∨ (a.htna - t).toNat < a.q.length

theorem markOne_htna (t : BitVec 32) (a : GapAcc) (tsn : BitVec 32) {a' : GapAcc} (hc : Contig a.q t) (hh : HtnaOk t a)
    (h : markOne a tsn = some a') : HtnaOk t a' := by
  have hid := length_of_ident (markOne_ident a tsn h)
  unfold markOne at h
  cases hg : Sender.get a.q tsn with
  | none => simp [hg] at h
  | some oc =>
    obtain ⟨off, c⟩ := oc
    obtain ⟨o1, o2, o3⟩ := get_off hc hg
    simp only [hg, Option.some.injEq] at h
    subst h
    unfold HtnaOk at hh ⊢
    rw [hid]
    simp only
    split
    · split
      · right; rw [← o1]; exact o3
      · exact hh
    · split
      · right; rw [← o1]; exact o3
      · exact hh

theorem markRange_htna (t cum : BitVec 32) (is : List Nat) (a : GapAcc) {a' : GapAcc} (hc : Contig a.q t) (hh : HtnaOk t a)
    (h : markRange cum is a = some a') : HtnaOk t a' := by
  induction is generalizing a with
  | nil => simp [markRange] at h; subst h; exact hh
  | cons i r ih =>
    simp only [markRange] at h
    cases h1 : markOne a (cum + BitVec.ofNat 32 i) with
    | none => simp [h1] at h
    | some a1 =>
      simp only [h1] at h
      exact ih a1 (contig_of_tsns (tsns_of_ident (markOne_ident a _ h1)) hc) (markOne_htna t a _ hc hh h1) h

theorem markGaps_htna (t cum : BitVec 32) (gaps : List (BitVec 16 × BitVec 16)) (a : GapAcc) {a' : GapAcc} (hc : Contig a.q t) (hh : HtnaOk t a)
    (h : markGaps cum gaps a = some a') : HtnaOk t a' := by
  induction gaps generalizing a with
  | nil => simp [markGaps] at h; subst h; exact hh
  | cons g r ih =>
    obtain ⟨st, en⟩ := g
    simp only [markGaps] at h
    cases h1 : markRange cum (List.range' st.toNat (en.toNat + 1 - st.toNat)) a with
    | none => simp [h1] at h
    | some a1 =>
      simp only [h1] at h
      exact ih a1 (contig_of_tsns (tsns_of_ident (markRange_ident cum _ a h1)) hc) (markRange_htna t cum _ a hc hh h1) h

theorem ackApply_inflight (s : St) (cum : BitVec 32) (g : GapAcc) (inFR : Bool) : (ackApply s cum g inFR).inflight = g.q := by
  simp only [ackApply]
  rw [(releaseAll_frame _ _).2.2.2.2.2.2.1]
  split
  · rw [(onCumAdvanced_same _ _).2]
  · rfl

/-- the highest newly acked TSN the gap loop reports lies at the cumulative point or inside the queue it leaves -/
theorem ackPhase_htna {s : St} {cum : BitVec 32} {gaps : List (BitVec 16 × BitVec 16)} {r : St × BitVec 32 × Bool}
    (h : ackPhase s cum gaps = some r) (hr : Contig r.1.inflight (cum + 1)) :
    r.2.1 = cum ∨ (r.2.1 - (cum + 1)).toNat < r.1.inflight.length := by
  unfold ackPhase at h
  split at h
  · cases h
  · rename_i qa hp
    split at h
    · cases h
    · rename_i g hg
      simp only [Option.some.injEq] at h
      subst h
      simp only at hr ⊢
      rw [ackApply_inflight] at hr ⊢
      have hid := markGaps_ident cum gaps _ hg
      have hc0 : Contig qa.1 (cum + 1) := contig_of_tsns (tsns_of_ident hid).symm hr
      have := markGaps_htna (cum + 1) cum gaps { q := qa.1, infBytes := qa.2.infBytes, rel := qa.2.rel, htna := cum } hc0 (Or.inl rfl) hg
      rcases this with h1 | h1
      · left; bv_omega
      · right; exact h1

/-- **Structure of `handleSack` on reachable states**: it either leaves the state untouched (association not established,
stale, rejected by the validation) or runs the whole pipeline — both loops of `processAcknowledgement`, the window
update, `processFastRetransmission` WITHOUT its error return, the partial-reliability step, the RACK marks. -/
theorem sack_cases (s : St) (cum arwnd : BitVec 32) (gaps : List (BitVec 16 × BitVec 16)) (marks : List (BitVec 32))
    (hs : Seq s) (hsm : s.inflight.length < 2^31) :
    ((sack s cum arwnd gaps marks).2 ≠ .ok ∧ (sack s cum arwnd gaps marks).2 ≠ .failedLate ∧ (sack s cum arwnd gaps marks).1 = s ∧
      (s.established = false ∨ sna32GT s.cumAck cum = true ∨ validate s cum gaps = false)) ∨
    ((sack s cum arwnd gaps marks).2 = .ok ∧ s.established = true ∧ sna32GT s.cumAck cum = false ∧ validate s cum gaps = true ∧
      ∃ r, ackPhase s cum gaps = some r ∧ Seq r.1 ∧ r.1.cumAck = cum ∧
        (sack s cum arwnd gaps marks).1 =
          applyMarks (prStep (fastRetransCheck (setPeerWindow r.1 arwnd) cum gaps r.2.1 r.2.2).1) marks) := by
  unfold sack
  split
  · rename_i hest
    exact Or.inl ⟨by simp, by simp, rfl, Or.inl (by simpa using hest)⟩
  · rename_i hest
    split
    · rename_i hst
      exact Or.inl ⟨by simp, by simp, rfl, Or.inr (Or.inl hst)⟩
    · rename_i hst
      split
      · rename_i hv
        exact Or.inl ⟨by simp, by simp, rfl, Or.inr (Or.inr (by simpa using hv))⟩
      · rename_i hv
        have hst' : sna32GT s.cumAck cum = false := by simpa using hst
        have hv' : validate s cum gaps = true := by simpa using hv
        obtain ⟨r, hr, hrs⟩ := ackPhase_total s cum gaps hs hst' hv'
        obtain ⟨p1, p2, p3, k, hk, p4⟩ := ackPhase_shape hr
        have hcum : r.1.cumAck = cum := by
          rw [p3]
          split
          · rfl
          · rename_i hlt
            simp only [sna32LT, sna32GT, Bool.or_eq_true, Bool.and_eq_true, decide_eq_true_eq, not_or, not_and,
              Bool.or_eq_false_iff, Bool.and_eq_false_iff, decide_eq_false_iff_not] at hlt hst'
            bv_omega
        have hlen : r.1.inflight.length = s.inflight.length - k := by
          have := length_of_ident p4; simpa using this
        have hcq : Contig r.1.inflight (cum + 1) := by have := hrs.1; rw [hcum] at this; exact this
        have hpop := popped_count hs hrs p2 hk hlen (by omega)
        rw [hcum] at hpop
        have hh := ackPhase_htna hr hcq
        have hf : (fastRetransCheck (setPeerWindow r.1 arwnd) cum gaps r.2.1 r.2.2).2 = true := by
          apply fastRetransCheck_ok (setPeerWindow r.1 arwnd) cum gaps r.2.1 r.2.2 hcq (by show r.1.inflight.length < 2^31; omega)
          · show (r.2.1 - cum).toNat ≤ r.1.inflight.length
            rcases hh with h1 | h1
            · rw [h1]; simp
            · bv_omega
          · intro st en hl
            show en.toNat ≤ r.1.inflight.length
            have hmem := List.mem_of_getLast? hl
            simp only [validate, Bool.and_eq_true, List.all_eq_true] at hv'
            have := hv'.2 _ hmem
            simp only [bne_iff_ne, ne_eq, decide_eq_true_eq] at this
            obtain ⟨⟨⟨g1, g2⟩, g3⟩, g4⟩ := this
            have g5 : (Sender.get s.inflight (cum + BitVec.setWidth 32 en)).isSome = true := by
              by_cases he : cum + BitVec.setWidth 32 en = cum + BitVec.setWidth 32 st
              · rw [he]; exact g3
              · simpa [he] using g4
            rw [get_contig hs.1] at g5
            have g6 := of_decide_eq_true g5
            have e1 : (BitVec.setWidth 32 en).toNat = en.toNat := by
              have := en.isLt
              simp [BitVec.toNat_setWidth]; omega
            have e3 : (BitVec.ofNat 32 k).toNat = k := by simp [BitVec.toNat_ofNat]; omega
            have hen := en.isLt
            have hst1 : 1 ≤ st.toNat := by
              rcases Nat.eq_zero_or_pos st.toNat with h | h
              · exact absurd (BitVec.eq_of_toNat_eq (by simpa using h)) g1
              · exact h
            have hse : st.toNat ≤ en.toNat := by simpa [BitVec.le_def] using g2
            rw [hlen]
            bv_omega
        simp only [hr, hf, Bool.not_true, Bool.false_eq_true, if_false]
        exact Or.inr ⟨trivial, by simpa using hest, hst', hv', r, rfl, hrs, hcum, rfl⟩

/-! ### the invariant across `handleSack` and T3 -/

/-- the cumulative point has overtaken the advanced peer ack point (transient, inside `handleSack`) -/
def Behind (x : St) : Prop := 0 < (x.cumAck - x.advPeerAck).toNat ∧ (x.cumAck - x.advPeerAck).toNat < 2^31

theorem pop_adv {s r : St} (h : AdvInv s) (hsm : s.inflight.length < 2^31) (hctl : SameCtl s r) {k : Nat} (hk : k ≤ s.inflight.length)
    (hcum : r.cumAck = s.cumAck + BitVec.ofNat 32 k) (hid : r.inflight.map Chunk.ident = (s.inflight.drop k).map Chunk.ident) :
    AdvInv r ∨ Behind r := by
  have e3 : (BitVec.ofNat 32 k).toNat = k := by simp [BitVec.toNat_ofNat]; omega
  have hle := h.le
  have hlen : r.inflight.length = s.inflight.length - k := by simpa using length_of_ident hid
  by_cases hkd : k ≤ (s.advPeerAck - s.cumAck).toNat
  · left
    have hd : (r.advPeerAck - r.cumAck).toNat = (s.advPeerAck - s.cumAck).toNat - k := by
      rw [hctl.2.2.1, hcum]; bv_omega
    refine ⟨by rw [hd, hlen]; omega, ?_⟩
    intro i c' hi hc'
    rw [hd] at hi
    obtain ⟨c, h1, h2⟩ := ident_of_eq_get hid hc'
    rw [List.getElem?_drop] at h1
    have := h.ab (k + i) c (by omega) h1
    exact hctl.abLe.abandoned (ident_msg h2) this
  · right
    unfold Behind
    rw [hctl.2.2.1, hcum]
    constructor <;> bv_omega

theorem AdvInv.flag {z : St} (h : AdvInv z) (b : Bool) : AdvInv { z with willSendForwardTSN := b } := ⟨h.le, h.ab⟩

theorem advancePeerAck_inv (y : St) (hc : Contig y.inflight (y.cumAck + 1)) (hsm : y.inflight.length < 2^32) (h : AdvInv y) :
    AdvInv (advancePeerAck y) := by
  unfold advancePeerAck
  have := advLoop_inv (y.inflight.length + 1) y hc hsm h
  simp only
  split
  · exact this.flag true
  · exact this

theorem advancePeerAck_only (y : St) : ∃ a b, advancePeerAck y = { y with advPeerAck := a, willSendForwardTSN := b } := by
  unfold advancePeerAck
  obtain ⟨a, ha⟩ := advLoop_only (y.inflight.length + 1) y
  simp only [ha]
  split
  · exact ⟨a, true, rfl⟩
  · exact ⟨a, y.willSendForwardTSN, rfl⟩

/-- after `advancePeerAck` the chunk right after the point, if in flight, is not abandoned -/
theorem advancePeerAck_stop (y : St) (hc : Contig y.inflight (y.cumAck + 1)) (hsm : y.inflight.length < 2^32) (h : AdvInv y) :
    ∀ off c, Sender.get (advancePeerAck y).inflight ((advancePeerAck y).advPeerAck + 1) = some (off, c) → (advancePeerAck y).abandoned c = false := by
  have := advLoop_stop (y.inflight.length + 1) y hc hsm h (by omega)
  unfold advancePeerAck
  simp only
  split
  · exact this
  · exact this

/-- after `advancePeerAck`: the flag is up whenever the point is ahead of the cumulative point -/
theorem advancePeerAck_flag (y : St) (h : sna32GT (advancePeerAck y).advPeerAck (advancePeerAck y).cumAck = true) :
    (advancePeerAck y).willSendForwardTSN = true := by
  unfold advancePeerAck at h ⊢
  simp only at h ⊢
  by_cases hc : sna32GT (advLoop (y.inflight.length + 1) y).advPeerAck (advLoop (y.inflight.length + 1) y).cumAck = true
  · rw [if_pos hc]
  · rw [if_neg hc] at h; exact absurd h hc

/-- the state `prStep` hands to `advancePeerAck` -/
def prSync (x : St) : St := if sna32LT x.advPeerAck x.cumAck then { x with advPeerAck := x.cumAck } else x

theorem prStep_eq (x : St) (hpr : x.cfg.prEnabled = true) : prStep x = advancePeerAck (prSync x) := by
  unfold prStep prSync
  rw [if_pos hpr]

theorem prSync_inv (x : St) (h : AdvInv x ∨ Behind x) :
    AdvInv (prSync x) ∧ (prSync x).inflight = x.inflight ∧ (prSync x).cumAck = x.cumAck ∧
    (prSync x).abandonedMsgs = x.abandonedMsgs ∧ (prSync x).allInflightMsgs = x.allInflightMsgs ∧ (prSync x).cfg = x.cfg ∧
    (prSync x).myNextTSN = x.myNextTSN := by
  unfold prSync
  split
  · refine ⟨⟨by simp, ?_⟩, rfl, rfl, rfl, rfl, rfl, rfl⟩
    intro i c hi
    simp at hi
  · rename_i hlt
    refine ⟨?_, rfl, rfl, rfl, rfl, rfl, rfl⟩
    rcases h with h | h
    · exact h
    · exfalso
      apply hlt
      obtain ⟨b1, b2⟩ := h
      simp only [sna32LT, Bool.or_eq_true, Bool.and_eq_true, decide_eq_true_eq]
      bv_omega

theorem get_map_flags (q : List Chunk) (f : Chunk → Chunk) (hf : ∀ c, (f c).tsn = c.tsn) (tsn : BitVec 32) :
    Sender.get (q.map f) tsn = (Sender.get q tsn).map (fun oc => (oc.1, f oc.2)) := by
  cases q with
  | nil => rfl
  | cons x r =>
    simp only [Sender.get, List.map_cons, hf, List.length_cons, List.length_map]
    split
    · rfl
    · rw [← List.map_cons, List.getElem?_map]
      cases (x :: r)[(tsn - x.tsn).toNat]? <;> rfl

/-- an accepted SACK, on a reachable state with partial reliability: the result is `advancePeerAck`, then the RACK
marks, applied to a state `y` that satisfies the invariant, is contiguous and has the SACK's cumulative point -/
theorem sack_ok_form (s : St) (cum arwnd : BitVec 32) (gaps : List (BitVec 16 × BitVec 16)) (marks : List (BitVec 32))
    (hs : Seq s) (hsm : s.inflight.length < 2^31) (hm : CfgOk s.cfg) (hpr : s.cfg.prEnabled = true) (h : AdvInv s)
    (hok : (sack s cum arwnd gaps marks).2 = .ok) :
    ∃ y : St, AdvInv y ∧ Seq y ∧ y.inflight.length ≤ s.inflight.length ∧ y.cfg = s.cfg ∧
      y.abandonedMsgs = s.abandonedMsgs ∧ y.allInflightMsgs = s.allInflightMsgs ∧ y.cumAck = cum ∧
      (sack s cum arwnd gaps marks).1 = applyMarks (advancePeerAck y) marks := by
  rcases sack_cases s cum arwnd gaps marks hs hsm with ⟨hne, _, _, _⟩ | ⟨_, _, _, _, r, hr, hrs, hcum, he⟩
  · exact absurd hok hne
  · obtain ⟨p1, p2, p3, k, hk, p4⟩ := ackPhase_shape hr
    have hlen : r.1.inflight.length = s.inflight.length - k := by simpa using length_of_ident p4
    have hpop := popped_count hs hrs p2 hk hlen (by omega)
    have hcfg : r.1.cfg = s.cfg := (ackPhase_win hr).1
    have hm' : (setPeerWindow r.1 arwnd).cfg.mtu.toNat < 2^30 := by show r.1.cfg.mtu.toNat < 2^30; rw [hcfg]; exact hm
    have f1 := (fastRetransCheck_frame (setPeerWindow r.1 arwnd) cum gaps r.2.1 r.2.2 hm').1
    have c1 := fastRetransCheck_ctl (setPeerWindow r.1 arwnd) cum gaps r.2.1 r.2.2
    rw [he]
    generalize (fastRetransCheck (setPeerWindow r.1 arwnd) cum gaps r.2.1 r.2.2).1 = x at f1 c1
    have a0 := pop_adv h hsm p1 hk hpop p4
    have hxs : Seq x := f1.seq (show Seq (setPeerWindow r.1 arwnd) from hrs)
    have hxl : x.inflight.length = r.1.inflight.length := by
      have : x.inflight.length = (setPeerWindow r.1 arwnd).inflight.length := by
        simpa using congrArg List.length f1.2.2.2.2.2.2.2.2.2.2.2.2.2
      exact this
    have hxc : x.cumAck = r.1.cumAck := f1.2.2.2.2.2.2.2.2.2.2.2.1
    have hxa : x.advPeerAck = r.1.advPeerAck := c1.2.2.1
    have a1 : AdvInv x ∨ Behind x := by
      rcases a0 with a | a
      · left
        exact a.transfer hxa hxc (MsgPrefix.of_core f1.2.2.2.2.2.2.2.2.2.2.2.2.2) (SameCtl.abLe c1)
      · right
        unfold Behind at a ⊢
        rw [hxc, hxa]; exact a
    have hxcfg : x.cfg = s.cfg := by
      have : x.cfg = r.1.cfg := f1.2.2.2.2.1
      rw [this, hcfg]
    have hxpr : x.cfg.prEnabled = true := by rw [hxcfg]; exact hpr
    rw [prStep_eq x hxpr]
    obtain ⟨b1, b2, b3, b4, b5, b6, b7⟩ := prSync_inv x a1
    refine ⟨prSync x, b1, ⟨by rw [b2, b3]; exact hxs.1, by rw [b7, b2, b3]; exact hxs.2⟩, by rw [b2, hxl, hlen]; omega, by rw [b6, hxcfg],
      ?_, ?_, by rw [b3, hxc, hcum], rfl⟩
    · rw [b4, c1.1]; exact p1.1
    · rw [b5, c1.2.1]; exact p1.2.1

theorem sack_adv (s : St) (cum arwnd : BitVec 32) (gaps : List (BitVec 16 × BitVec 16)) (marks : List (BitVec 32))
    (hs : Seq s) (hsm : s.inflight.length < 2^31) (hm : CfgOk s.cfg) (hpr : s.cfg.prEnabled = true) (h : AdvInv s) :
    AdvInv (sack s cum arwnd gaps marks).1 := by
  by_cases hok : (sack s cum arwnd gaps marks).2 = .ok
  · obtain ⟨y, y1, y2, y3, _, _, _, _, he⟩ := sack_ok_form s cum arwnd gaps marks hs hsm hm hpr h hok
    rw [he]
    have a2 := advancePeerAck_inv y y2.1 (by omega) y1
    exact a2.transfer rfl rfl (MsgPrefix.of_ident (applyMarks_ident _ marks)) (AbLe.refl _)
  · rcases sack_cases s cum arwnd gaps marks hs hsm with ⟨_, _, he, _⟩ | ⟨h1, _⟩
    · rw [he]; exact h
    · exact absurd h1 hok

/-- **maximality after a SACK**: the chunk right after the advanced peer ack point, if in flight, is not abandoned -/
theorem sack_stop (s : St) (cum arwnd : BitVec 32) (gaps : List (BitVec 16 × BitVec 16)) (marks : List (BitVec 32))
    (hs : Seq s) (hsm : s.inflight.length < 2^31) (hm : CfgOk s.cfg) (hpr : s.cfg.prEnabled = true) (h : AdvInv s)
    (hok : (sack s cum arwnd gaps marks).2 = .ok) :
    ∀ off c, Sender.get (sack s cum arwnd gaps marks).1.inflight ((sack s cum arwnd gaps marks).1.advPeerAck + 1) = some (off, c) →
      (sack s cum arwnd gaps marks).1.abandoned c = false := by
  obtain ⟨y, y1, y2, y3, _, _, _, _, he⟩ := sack_ok_form s cum arwnd gaps marks hs hsm hm hpr h hok
  rw [he]
  intro off c hg
  have hstop := advancePeerAck_stop y y2.1 (by omega) y1
  simp only [applyMarks] at hg
  rw [get_map_flags _ _ (by intro c; split <;> rfl)] at hg
  cases hq : Sender.get (advancePeerAck y).inflight ((advancePeerAck y).advPeerAck + 1) with
  | none => rw [hq] at hg; cases hg
  | some oc =>
    rw [hq] at hg
    simp only [Option.map_some, Option.some.injEq, Prod.mk.injEq] at hg
    have := hstop oc.1 oc.2 hq
    obtain ⟨_, hc⟩ := hg
    have hmsg : c.msg = oc.2.msg := by rw [← hc]; split <;> rfl
    show isAbandoned _ _ c = false
    have e : isAbandoned (advancePeerAck y).abandonedMsgs (advancePeerAck y).allInflightMsgs c =
        isAbandoned (advancePeerAck y).abandonedMsgs (advancePeerAck y).allInflightMsgs oc.2 := by
      simp only [isAbandoned, hmsg]
    exact e.trans this

/-- **the flag after a SACK**: advanced peer ack point ahead of the cumulative point ⇒ a FORWARD-TSN will be sent -/
theorem sack_flag (s : St) (cum arwnd : BitVec 32) (gaps : List (BitVec 16 × BitVec 16)) (marks : List (BitVec 32))
    (hs : Seq s) (hsm : s.inflight.length < 2^31) (hm : CfgOk s.cfg) (hpr : s.cfg.prEnabled = true) (h : AdvInv s)
    (hok : (sack s cum arwnd gaps marks).2 = .ok)
    (hgt : sna32GT (sack s cum arwnd gaps marks).1.advPeerAck (sack s cum arwnd gaps marks).1.cumAck = true) :
    (sack s cum arwnd gaps marks).1.willSendForwardTSN = true := by
  obtain ⟨y, _, _, _, _, _, _, _, he⟩ := sack_ok_form s cum arwnd gaps marks hs hsm hm hpr h hok
  rw [he] at hgt ⊢
  exact advancePeerAck_flag y hgt

/-- `onRetransmissionTimeout(T3)` as "some bookkeeping that leaves the partial-reliability fields alone, then
`advancePeerAck`, then `markAllToRetrasmit`" -/
theorem t3_eq (s : St) : ∃ x : St,
    t3 s = { (if x.cfg.prEnabled then advancePeerAck x else x) with
             inflight := markAllToRetransmit (if x.cfg.prEnabled then advancePeerAck x else x) } ∧
    x.inflight = s.inflight ∧ x.cumAck = s.cumAck ∧ x.advPeerAck = s.advPeerAck ∧
    x.abandonedMsgs = s.abandonedMsgs ∧ x.allInflightMsgs = s.allInflightMsgs ∧ x.cfg = s.cfg ∧
    x.willSendForwardTSN = s.willSendForwardTSN ∧ x.established = s.established ∧ x.pending = s.pending ∧
    x.nextMsg = s.nextMsg ∧ x.streams = s.streams ∧ x.now = s.now ∧ x.myNextTSN = s.myNextTSN := by
  unfold t3
  simp only
  split
  · exact ⟨_, rfl, rfl, rfl, rfl, rfl, rfl, rfl, rfl, rfl, rfl, rfl, rfl, rfl, rfl⟩
  · exact ⟨_, rfl, rfl, rfl, rfl, rfl, rfl, rfl, rfl, rfl, rfl, rfl, rfl, rfl, rfl⟩

theorem t3_adv (s : St) (hs : Seq s) (hsm : s.inflight.length < 2^32) (hpr : s.cfg.prEnabled = true) (h : AdvInv s) : AdvInv (t3 s) := by
  obtain ⟨x, hx, x1, x2, x3, x4, x5, x6, x7, x8, x9⟩ := t3_eq s
  rw [hx]
  have hxpr : x.cfg.prEnabled = true := by rw [x6]; exact hpr
  simp only [hxpr, if_true]
  have hx0 : AdvInv x := h.transfer x3 x2 (MsgPrefix.of_eq (by rw [x1])) (AbLe.of_eq x4 x5)
  have a2 := advancePeerAck_inv x (by rw [x1, x2]; exact hs.1) (by rw [x1]; exact hsm) hx0
  exact a2.transfer rfl rfl (MsgPrefix.of_ident (markAll_ident _)) (AbLe.refl _)

/-- **maximality after T3** -/
theorem t3_stop (s : St) (hs : Seq s) (hsm : s.inflight.length < 2^32) (hpr : s.cfg.prEnabled = true) (h : AdvInv s) :
    ∀ off c, Sender.get (t3 s).inflight ((t3 s).advPeerAck + 1) = some (off, c) → (t3 s).abandoned c = false := by
  obtain ⟨x, hx, x1, x2, x3, x4, x5, x6, x7, x8, x9⟩ := t3_eq s
  rw [hx]
  have hxpr : x.cfg.prEnabled = true := by rw [x6]; exact hpr
  simp only [hxpr, if_true]
  have hx0 : AdvInv x := h.transfer x3 x2 (MsgPrefix.of_eq (by rw [x1])) (AbLe.of_eq x4 x5)
  have hstop := advancePeerAck_stop x (by rw [x1, x2]; exact hs.1) (by rw [x1]; exact hsm) hx0
  intro off c hg
  simp only [markAllToRetransmit] at hg
  rw [get_map_flags _ _ (by intro c; split <;> rfl)] at hg
  cases hq : Sender.get (advancePeerAck x).inflight ((advancePeerAck x).advPeerAck + 1) with
  | none => rw [hq] at hg; cases hg
  | some oc =>
    rw [hq] at hg
    simp only [Option.map_some, Option.some.injEq, Prod.mk.injEq] at hg
    have := hstop oc.1 oc.2 hq
    obtain ⟨_, hc⟩ := hg
    have hmsg : c.msg = oc.2.msg := by rw [← hc]; split <;> rfl
    show isAbandoned _ _ c = false
    have e : isAbandoned (advancePeerAck x).abandonedMsgs (advancePeerAck x).allInflightMsgs c =
        isAbandoned (advancePeerAck x).abandonedMsgs (advancePeerAck x).allInflightMsgs oc.2 := by
      simp only [isAbandoned, hmsg]
    exact e.trans this

/-- **the flag after T3** -/
theorem t3_flag (s : St) (hpr : s.cfg.prEnabled = true) (hgt : sna32GT (t3 s).advPeerAck (t3 s).cumAck = true) :
    (t3 s).willSendForwardTSN = true := by
  obtain ⟨x, hx, x1, x2, x3, x4, x5, x6, x7, x8, x9⟩ := t3_eq s
  rw [hx] at hgt ⊢
  have hxpr : x.cfg.prEnabled = true := by rw [x6]; exact hpr
  simp only [hxpr, if_true] at hgt ⊢
  exact advancePeerAck_flag x hgt

/-! ### along runs -/

/-- **Run premise for serial-number arithmetic**: fewer than 2^31 TSNs are outstanding in every state the run passes
through (the first, every intermediate one, the last). Decidable; real runs satisfy it by far (the peer's window and
the congestion window bound the outstanding data long before). -/
def TsnOk : St → List Op → Prop
  | s, [] => s.inflight.length < 2^31
  | s, op :: ops => s.inflight.length < 2^31 ∧ TsnOk (step s op) ops

instance TsnOk.dec : (s : St) → (ops : List Op) → Decidable (TsnOk s ops)
  | s, [] => inferInstanceAs (Decidable (s.inflight.length < 2^31))
  | s, op :: ops => @instDecidableAnd _ _ _ (TsnOk.dec (step s op) ops)

theorem TsnOk.head {s : St} {ops : List Op} (h : TsnOk s ops) : s.inflight.length < 2^31 := by
  cases ops with
  | nil => exact h
  | cons op ops => exact h.1

theorem TsnOk.last {s : St} {ops : List Op} (h : TsnOk s ops) : (run s ops).inflight.length < 2^31 := by
  induction ops generalizing s with
  | nil => exact h
  | cons op ops ih => exact ih h.2

theorem TsnOk.append {s : St} {ops ops' : List Op} (h : TsnOk s ops) (h' : TsnOk (run s ops) ops') : TsnOk s (ops ++ ops') := by
  induction ops generalizing s with
  | nil => exact h'
  | cons op ops ih => exact ⟨h.1, ih h.2 h'⟩

theorem TsnOk.take {s : St} {ops ops' : List Op} (h : TsnOk s (ops ++ ops')) : TsnOk s ops := by
  induction ops generalizing s with
  | nil => exact h.head
  | cons op ops ih => exact ⟨h.1, ih h.2⟩

theorem run_append (s : St) (ops ops' : List Op) : run s (ops ++ ops') = run (run s ops) ops' := by
  induction ops generalizing s with
  | nil => rfl
  | cons op ops ih => exact ih (step s op)

theorem iter_t3_adv (n : Nat) (s : St) (hs : Seq s) (hsm : s.inflight.length < 2^32) (hpr : s.cfg.prEnabled = true) (h : AdvInv s) :
    AdvInv (iter t3 n s) := by
  induction n generalizing s with
  | zero => exact h
  | succ n ih =>
    simp only [iter]
    have f := (t3_frame s).1
    have hl : (t3 s).inflight.length = s.inflight.length := by
      simpa using congrArg List.length f.2.2.2.2.2.2.2.2.2.2.2.2.2
    exact ih (t3 s) (f.seq hs) (by rw [hl]; exact hsm) (by rw [f.2.2.2.2.1]; exact hpr) (t3_adv s hs hsm hpr h)

theorem step_adv (s : St) (op : Op) (hs : Seq s) (hw : WinInv s) (hsm : s.inflight.length < 2^31) (hpr : s.cfg.prEnabled = true)
    (h : AdvInv s) : AdvInv (step s op) := by
  cases op with
  | openS si u rt rv th => exact ⟨h.le, h.ab⟩
  | unreg si =>
    simp only [step, unregister]
    split
    · exact h
    · exact ⟨h.le, h.ab⟩
  | setEstablished b => exact ⟨h.le, h.ab⟩
  | write si ppi len =>
    simp only [step]
    unfold write
    cases hst : s.streams si with
    | none => exact h
    | some st =>
      simp only
      split
      · exact h
      · split
        · exact h
        · split
          · exact h
          · split
            · exact ⟨h.le, h.ab⟩
            · exact ⟨h.le, h.ab⟩
  | gather orc sel =>
    obtain ⟨g1, g2, g3, g4, _⟩ := gather_grel s orc sel
    exact h.transfer g3 g4 g2.msgs g1
  | sack cum arwnd gaps marks => exact sack_adv s cum arwnd gaps marks hs hsm hw.cfgOk hpr h
  | t3 => exact t3_adv s hs (by omega) hpr h
  | tick ms n marks =>
    simp only [step]
    have h0 : AdvInv { s with now := s.now + ms } := ⟨h.le, h.ab⟩
    have := iter_t3_adv n { s with now := s.now + ms } hs (by show s.inflight.length < 2^32; omega) hpr h0
    exact this.transfer rfl rfl (MsgPrefix.of_ident (applyMarks_ident _ marks)) (AbLe.refl _)

theorem run_adv (s : St) (ops : List Op) (hs : Seq s) (hw : WinInv s) (hpr : s.cfg.prEnabled = true) (h : AdvInv s) (hok : TsnOk s ops) :
    AdvInv (run s ops) := by
  induction ops generalizing s with
  | nil => exact h
  | cons op ops ih =>
    exact ih (step s op) (step_seq s op hs hw.cfgOk) (step_win s op hw).1 (by rw [step_cfg_eq s op hw.cfgOk]; exact hpr)
      (step_adv s op hs hw hok.1 hpr h) hok.2

theorem init_adv (cfg : Cfg) (tsn peerRwnd : BitVec 32) : AdvInv (init cfg tsn peerRwnd) := by
  refine ⟨by simp [init], ?_⟩
  intro i c hi
  simp [init] at hi

/-! ### abandonment is monotone along every run (no invariant needed) -/

theorem advancePeerAck_ab (y : St) : (advancePeerAck y).abandonedMsgs = y.abandonedMsgs ∧ (advancePeerAck y).allInflightMsgs = y.allInflightMsgs ∧
    (advancePeerAck y).inflight = y.inflight ∧ (advancePeerAck y).cumAck = y.cumAck ∧ (advancePeerAck y).established = y.established ∧
    (advancePeerAck y).pending = y.pending ∧ (advancePeerAck y).cfg = y.cfg ∧ (advancePeerAck y).nextMsg = y.nextMsg ∧
    (advancePeerAck y).streams = y.streams ∧ (advancePeerAck y).now = y.now ∧ (advancePeerAck y).myNextTSN = y.myNextTSN := by
  obtain ⟨a, b, h⟩ := advancePeerAck_only y
  rw [h]
  exact ⟨rfl, rfl, rfl, rfl, rfl, rfl, rfl, rfl, rfl, rfl, rfl⟩

theorem prStep_ab (x : St) : (prStep x).abandonedMsgs = x.abandonedMsgs ∧ (prStep x).allInflightMsgs = x.allInflightMsgs := by
  unfold prStep
  split
  · split
    · exact ⟨(advancePeerAck_ab _).1, (advancePeerAck_ab _).2.1⟩
    · exact ⟨(advancePeerAck_ab _).1, (advancePeerAck_ab _).2.1⟩
  · exact ⟨rfl, rfl⟩

theorem sack_ab (s : St) (cum arwnd : BitVec 32) (gaps : List (BitVec 16 × BitVec 16)) (marks : List (BitVec 32)) :
    (sack s cum arwnd gaps marks).1.abandonedMsgs = s.abandonedMsgs ∧ (sack s cum arwnd gaps marks).1.allInflightMsgs = s.allInflightMsgs := by
  unfold sack
  split
  · exact ⟨rfl, rfl⟩
  · split
    · exact ⟨rfl, rfl⟩
    · split
      · exact ⟨rfl, rfl⟩
      · cases ha : ackPhase s cum gaps with
        | none => exact ⟨rfl, rfl⟩
        | some r =>
          simp only
          have p1 := (ackPhase_shape ha).1
          have c1 := fastRetransCheck_ctl (setPeerWindow r.1 arwnd) cum gaps r.2.1 r.2.2
          split
          · exact ⟨c1.1.trans p1.1, c1.2.1.trans p1.2.1⟩
          · have p2 := prStep_ab (fastRetransCheck (setPeerWindow r.1 arwnd) cum gaps r.2.1 r.2.2).1
            exact ⟨p2.1.trans (c1.1.trans p1.1), p2.2.trans (c1.2.1.trans p1.2.1)⟩

theorem t3_ab (s : St) : (t3 s).abandonedMsgs = s.abandonedMsgs ∧ (t3 s).allInflightMsgs = s.allInflightMsgs := by
  obtain ⟨x, hx, x1, x2, x3, x4, x5, x6, x7, x8, x9⟩ := t3_eq s
  rw [hx]
  split
  · exact ⟨(advancePeerAck_ab x).1.trans x4, (advancePeerAck_ab x).2.1.trans x5⟩
  · exact ⟨x4, x5⟩

theorem iter_t3_ab (n : Nat) (s : St) : (iter t3 n s).abandonedMsgs = s.abandonedMsgs ∧ (iter t3 n s).allInflightMsgs = s.allInflightMsgs := by
  induction n generalizing s with
  | zero => exact ⟨rfl, rfl⟩
  | succ n ih =>
    simp only [iter]
    exact ⟨(ih (t3 s)).1.trans (t3_ab s).1, (ih (t3 s)).2.trans (t3_ab s).2⟩

theorem write_ab (s : St) (si : BitVec 16) (ppi : BitVec 32) (len : Nat) :
    (write s si ppi len).1.abandonedMsgs = s.abandonedMsgs ∧ (write s si ppi len).1.allInflightMsgs = s.allInflightMsgs ∧
    (write s si ppi len).1.advPeerAck = s.advPeerAck ∧ (write s si ppi len).1.cumAck = s.cumAck ∧
    (write s si ppi len).1.willSendForwardTSN = s.willSendForwardTSN ∧ (write s si ppi len).1.established = s.established := by
  unfold write
  cases hst : s.streams si with
  | none => exact ⟨rfl, rfl, rfl, rfl, rfl, rfl⟩
  | some st =>
    simp only
    split
    · exact ⟨rfl, rfl, rfl, rfl, rfl, rfl⟩
    · split
      · exact ⟨rfl, rfl, rfl, rfl, rfl, rfl⟩
      · split
        · exact ⟨rfl, rfl, rfl, rfl, rfl, rfl⟩
        · split
          · exact ⟨rfl, rfl, rfl, rfl, rfl, rfl⟩
          · exact ⟨rfl, rfl, rfl, rfl, rfl, rfl⟩

/-- whatever the operation, no message leaves the abandoned set and none leaves the all-fragments-in-flight set -/
theorem step_abLe (s : St) (op : Op) : AbLe s (step s op) := by
  cases op with
  | openS si u rt rv th => exact AbLe.of_eq rfl rfl
  | unreg si =>
    simp only [step, unregister]
    split
    · exact AbLe.refl s
    · exact AbLe.of_eq rfl rfl
  | setEstablished b => exact AbLe.of_eq rfl rfl
  | write si ppi len => exact AbLe.of_eq (write_ab s si ppi len).1 (write_ab s si ppi len).2.1
  | gather orc sel => exact (gather_grel s orc sel).1
  | sack cum arwnd gaps marks => exact AbLe.of_eq (sack_ab s cum arwnd gaps marks).1 (sack_ab s cum arwnd gaps marks).2
  | t3 => exact AbLe.of_eq (t3_ab s).1 (t3_ab s).2
  | tick ms n marks =>
    simp only [step]
    exact AbLe.of_eq (iter_t3_ab n _).1 (iter_t3_ab n _).2

theorem run_abLe (s : St) (ops : List Op) : AbLe s (run s ops) := by
  induction ops generalizing s with
  | nil => exact AbLe.refl s
  | cons op ops ih => exact (step_abLe s op).trans (ih (step s op))

/-! ### what a gather does with the flag and the FORWARD-TSN -/

theorem gather_flag (s : St) (orc : Oracle) (sel : List Nat) (he : s.established = true) :
    (gather s orc sel).1.willSendForwardTSN = false := by
  rw [(gather_eq s orc sel he).1]

theorem fwdOut_isSome (x : St) : (fwdOut x).isSome = true ↔
    (x.willSendForwardTSN = true ∧ sna32GT x.advPeerAck x.cumAck = true ∧ (x.cfg.useIForwardTSN = true ∨ x.cfg.prEnabled = true)) := by
  unfold fwdOut
  by_cases h1 : x.willSendForwardTSN = true <;> by_cases h2 : sna32GT x.advPeerAck x.cumAck = true <;>
    by_cases h3 : x.cfg.useIForwardTSN = true <;> by_cases h4 : x.cfg.prEnabled = true <;> simp [h1, h2, h3, h4]

/-! ### contents of FORWARD-TSN / I-FORWARD-TSN -/

theorem fwdScan_congr {s s' : St} (h1 : s'.advPeerAck = s.advPeerAck) (h2 : s'.inflight = s.inflight) (fuel : Nat) (i : BitVec 32) :
    fwdScan s' fuel i = fwdScan s fuel i := by
  induction fuel generalizing i with
  | zero => rfl
  | succ fuel ih => simp only [fwdScan, h1, h2, ih]

/-- the flag does not matter for what a FORWARD-TSN would contain -/
theorem fwd_flag (x : St) (b : Bool) : fwdChunks { x with willSendForwardTSN := b } = fwdChunks x := by
  unfold fwdChunks
  exact fwdScan_congr (s := x) (s' := { x with willSendForwardTSN := b }) rfl rfl _ _

/-- the scan of `createForwardTSN` visits exactly the first `advPeerAck − cumAck` chunks of the queue -/
theorem fwdScan_eq (s : St) (hc : Contig s.inflight (s.cumAck + 1)) (hsm : s.inflight.length < 2^31)
    (hle : (s.advPeerAck - s.cumAck).toNat ≤ s.inflight.length) (fuel : Nat) (i : BitVec 32)
    (hj : (i - (s.cumAck + 1)).toNat ≤ (s.advPeerAck - s.cumAck).toNat)
    (hf : (s.advPeerAck - s.cumAck).toNat - (i - (s.cumAck + 1)).toNat < fuel) :
    fwdScan s fuel i = (s.inflight.drop (i - (s.cumAck + 1)).toNat).take ((s.advPeerAck - s.cumAck).toNat - (i - (s.cumAck + 1)).toNat) := by
  induction fuel generalizing i with
  | zero => omega
  | succ fuel ih =>
    simp only [fwdScan]
    by_cases hlt : (i - (s.cumAck + 1)).toNat < (s.advPeerAck - s.cumAck).toNat
    · have hle' : sna32LTE i s.advPeerAck = true := by
        simp only [sna32LTE, sna32LT, Bool.or_eq_true, beq_iff_eq, Bool.and_eq_true, decide_eq_true_eq]
        by_cases he : i = s.advPeerAck
        · exact Or.inl he
        · right; bv_omega
      have hin : (i - (s.cumAck + 1)).toNat < s.inflight.length := by omega
      rw [if_pos hle', get_of_lt hc hin]
      simp only
      have hnext : (i + 1 - (s.cumAck + 1)).toNat = (i - (s.cumAck + 1)).toNat + 1 := by bv_omega
      rw [ih (i + 1) (by rw [hnext]; omega) (by rw [hnext]; omega), hnext]
      have e : (s.advPeerAck - s.cumAck).toNat - (i - (s.cumAck + 1)).toNat =
          ((s.advPeerAck - s.cumAck).toNat - ((i - (s.cumAck + 1)).toNat + 1)) + 1 := by omega
      rw [e, List.drop_eq_getElem_cons hin, List.take_succ_cons]
    · have heq : (i - (s.cumAck + 1)).toNat = (s.advPeerAck - s.cumAck).toNat := by omega
      have hle' : sna32LTE i s.advPeerAck = false := by
        simp only [sna32LTE, sna32LT, Bool.or_eq_false_iff, beq_eq_false_iff_ne, Bool.and_eq_false_iff, decide_eq_false_iff_not]
        refine ⟨by intro he; subst he; bv_omega, ?_⟩
        constructor <;> bv_omega
      rw [hle', heq]
      simp

theorem fwdChunks_eq (s : St) (hs : Seq s) (hsm : s.inflight.length < 2^31) (h : AdvInv s) :
    fwdChunks s = s.inflight.take (s.advPeerAck - s.cumAck).toNat := by
  unfold fwdChunks
  have h0 : (s.cumAck + 1 - (s.cumAck + 1)).toNat = 0 := by simp
  rw [fwdScan_eq s hs.1 hsm h.le _ _ (by omega) (by have := h.le; omega), h0]
  simp

/-- the generic "greatest per key" fold both chunk builders run -/
def upFold {K V : Type} [DecidableEq K] (lt : V → V → Bool) : List (K × V) → List (K × V) → List (K × V)
  | [], m => m
  | (k, v) :: r, m => upFold lt r (upsertMax lt m k v)

def getv {K V : Type} [DecidableEq K] : List (K × V) → K → Option V
  | [], _ => none
  | (k', v') :: r, k => if k' = k then some v' else getv r k

theorem getv_mem {K V : Type} [DecidableEq K] {m : List (K × V)} {k : K} {v : V} (h : getv m k = some v) : (k, v) ∈ m := by
  induction m with
  | nil => cases h
  | cons e r ih =>
    obtain ⟨k', v'⟩ := e
    simp only [getv] at h
    split at h
    · rename_i hk; cases h; subst hk; exact List.mem_cons_self
    · exact List.mem_cons_of_mem _ (ih h)

theorem getv_upsert {K V : Type} [DecidableEq K] (lt : V → V → Bool) (m : List (K × V)) (k : K) (v : V) (k' : K) :
    getv (upsertMax lt m k v) k' =
      if k' = k then some (match getv m k with | none => v | some v' => if lt v' v then v else v') else getv m k' := by
  induction m with
  | nil =>
    simp only [upsertMax, getv]
    by_cases h : k' = k
    · subst h; simp
    · simp [h, Ne.symm h]
  | cons e r ih =>
    obtain ⟨k0, v0⟩ := e
    simp only [upsertMax]
    by_cases h0 : k0 = k
    · subst h0
      simp only [if_true, getv]
      by_cases h : k' = k0
      · subst h; simp
      · simp [h, Ne.symm h]
    · simp only [h0, if_false, getv]
      by_cases h : k' = k
      · subst h; simp only [h0, if_false, ih, if_true]
      · by_cases h1 : k0 = k'
        · simp [h1, h]
        · simp [h1, h, ih]

theorem upsert_mem {K V : Type} [DecidableEq K] (lt : V → V → Bool) (m : List (K × V)) (k : K) (v : V) (e : K × V)
    (h : e ∈ upsertMax lt m k v) : e ∈ m ∨ e = (k, v) := by
  induction m with
  | nil => simp [upsertMax] at h; exact Or.inr h
  | cons e0 r ih =>
    obtain ⟨k0, v0⟩ := e0
    simp only [upsertMax] at h
    split at h
    · rename_i hk
      rcases List.mem_cons.mp h with h1 | h1
      · split at h1
        · right; rw [h1, hk]
        · left; rw [h1]; exact List.mem_cons_self
      · left; exact List.mem_cons_of_mem _ h1
    · rcases List.mem_cons.mp h with h1 | h1
      · left; rw [h1]; exact List.mem_cons_self
      · rcases ih h1 with h2 | h2
        · left; exact List.mem_cons_of_mem _ h2
        · right; exact h2

theorem upsert_keys {K V : Type} [DecidableEq K] (lt : V → V → Bool) (m : List (K × V)) (k : K) (v : V) :
    (∀ k', k' ∈ (upsertMax lt m k v).map (·.1) ↔ k' = k ∨ k' ∈ m.map (·.1)) ∧
    ((m.map (·.1)).Nodup → ((upsertMax lt m k v).map (·.1)).Nodup) := by
  induction m with
  | nil => simp [upsertMax]
  | cons e0 r ih =>
    obtain ⟨k0, v0⟩ := e0
    simp only [upsertMax]
    by_cases h0 : k0 = k
    · subst h0
      simp only [if_true, List.map_cons]
      refine ⟨fun k' => by simp, fun h => h⟩
    · simp only [h0, if_false, List.map_cons]
      refine ⟨fun k' => by simp [ih.1 k']; exact or_left_comm, fun h => ?_⟩
      rw [List.nodup_cons] at h ⊢
      refine ⟨?_, ih.2 h.2⟩
      intro hm
      rcases (ih.1 k0).mp hm with h1 | h1
      · exact h0 h1
      · exact h.1 h1

theorem upFold_mem {K V : Type} [DecidableEq K] (lt : V → V → Bool) (kvs m : List (K × V)) (e : K × V)
    (h : e ∈ upFold lt kvs m) : e ∈ m ∨ e ∈ kvs := by
  induction kvs generalizing m with
  | nil => exact Or.inl h
  | cons kv r ih =>
    obtain ⟨k, v⟩ := kv
    simp only [upFold] at h
    rcases ih _ h with h1 | h1
    · rcases upsert_mem lt m k v e h1 with h2 | h2
      · exact Or.inl h2
      · right; rw [h2]; exact List.mem_cons_self
    · exact Or.inr (List.mem_cons_of_mem _ h1)

theorem upFold_nodup {K V : Type} [DecidableEq K] (lt : V → V → Bool) (kvs m : List (K × V)) (h : (m.map (·.1)).Nodup) :
    ((upFold lt kvs m).map (·.1)).Nodup := by
  induction kvs generalizing m with
  | nil => exact h
  | cons kv r ih =>
    obtain ⟨k, v⟩ := kv
    exact ih _ ((upsert_keys lt m k v).2 h)

/-- `a` is not above `b` -/
def LeBy {V : Type} (lt : V → V → Bool) (a b : V) : Prop := a = b ∨ lt a b = true

/-- every value seen so far is dominated by the entry kept for its key, provided `lt` is a total order on the
values of each key (`W`) -/
theorem upFold_max {K V : Type} [DecidableEq K] (lt : V → V → Bool) (W : K → V → Prop)
    (htot : ∀ k a b, W k a → W k b → lt a b = false → LeBy lt b a)
    (htr : ∀ k a b c, W k a → W k b → W k c → LeBy lt a b → lt b c = true → LeBy lt a c)
    (kvs m seen : List (K × V)) (hW : ∀ e ∈ seen ++ kvs, W e.1 e.2) (hWm : ∀ e ∈ m, W e.1 e.2)
    (hdom : ∀ e ∈ seen, ∃ v, getv m e.1 = some v ∧ LeBy lt e.2 v) :
    ∀ e ∈ seen ++ kvs, ∃ v, getv (upFold lt kvs m) e.1 = some v ∧ LeBy lt e.2 v := by
  induction kvs generalizing m seen with
  | nil => simpa [upFold] using hdom
  | cons kv r ih =>
    obtain ⟨k, v⟩ := kv
    simp only [upFold]
    have hWkv : W k v := hW (k, v) (by simp)
    have := ih (upsertMax lt m k v) (seen ++ [(k, v)]) (by simpa using hW)
      (by
        intro e he
        rcases upsert_mem lt m k v e he with h1 | h1
        · exact hWm e h1
        · rw [h1]; exact hWkv)
      (by
        intro e he
        rw [getv_upsert]
        rcases List.mem_append.mp he with h1 | h1
        · obtain ⟨v0, g1, g2⟩ := hdom e h1
          by_cases hk : e.1 = k
          · rw [if_pos hk]
            rw [hk] at g1
            rw [g1]
            simp only
            have hW0 : W k v0 := hWm (k, v0) (getv_mem g1)
            have hWe : W k e.2 := by have := hW e (by simp [h1]); rw [hk] at this; exact this
            by_cases hl : lt v0 v = true
            · rw [if_pos hl]; exact ⟨v, rfl, htr k e.2 v0 v hWe hW0 hWkv g2 hl⟩
            · rw [if_neg hl]; exact ⟨v0, rfl, g2⟩
          · rw [if_neg hk]; exact ⟨v0, g1, g2⟩
        · simp only [List.mem_singleton] at h1
          subst h1
          simp only [if_true]
          cases hg : getv m k with
          | none => exact ⟨v, rfl, Or.inl rfl⟩
          | some v0 =>
            simp only
            have hW0 : W k v0 := hWm (k, v0) (getv_mem hg)
            by_cases hl : lt v0 v = true
            · rw [if_pos hl]; exact ⟨v, rfl, Or.inl rfl⟩
            · rw [if_neg hl]; exact ⟨v0, rfl, htot k v0 v hW0 hWkv (by simpa using hl)⟩)
    simpa using this

theorem fwdStreams_eq (L : List Chunk) (m : List (BitVec 16 × BitVec 16)) :
    fwdStreams L m = upFold sna16LT ((L.filter (fun c => !c.unordered)).map fun c => (c.si, c.ssn)) m := by
  induction L generalizing m with
  | nil => rfl
  | cons c r ih =>
    simp only [fwdStreams]
    by_cases hu : c.unordered = true
    · simp [hu, ih]
    · have hu' : c.unordered = false := by simpa using hu
      simp [hu', ih, upFold]

theorem ifwdStreams_eq (L : List Chunk) (m : List ((BitVec 16 × Bool) × BitVec 32)) :
    ifwdStreams L m = upFold sna32LT (L.map fun c => ((c.si, c.unordered), c.mid)) m := by
  induction L generalizing m with
  | nil => rfl
  | cons c r ih => simp [ifwdStreams, ih, upFold]

/-- serial order on 16-bit numbers inside a half-space window is total and transitive -/
theorem sna16_window (base a b c : BitVec 16) (ha : (a - base).toNat < 2^15) (hb : (b - base).toNat < 2^15) (hc : (c - base).toNat < 2^15) :
    (sna16LT a b = false → LeBy sna16LT b a) ∧ (LeBy sna16LT a b → sna16LT b c = true → LeBy sna16LT a c) := by
  unfold LeBy
  simp only [sna16LT, Bool.or_eq_true, Bool.and_eq_true, decide_eq_true_eq, Bool.or_eq_false_iff, Bool.and_eq_false_iff, decide_eq_false_iff_not]
  constructor
  · intro h
    by_cases he : b = a
    · exact Or.inl he
    · right; bv_omega
  · intro h1 h2
    right
    rcases h1 with h1 | h1
    · subst h1; exact h2
    · bv_omega

theorem sna32_window (base a b c : BitVec 32) (ha : (a - base).toNat < 2^31) (hb : (b - base).toNat < 2^31) (hc : (c - base).toNat < 2^31) :
    (sna32LT a b = false → LeBy sna32LT b a) ∧ (LeBy sna32LT a b → sna32LT b c = true → LeBy sna32LT a c) := by
  unfold LeBy
  simp only [sna32LT, Bool.or_eq_true, Bool.and_eq_true, decide_eq_true_eq, Bool.or_eq_false_iff, Bool.and_eq_false_iff, decide_eq_false_iff_not]
  constructor
  · intro h
    by_cases he : b = a
    · exact Or.inl he
    · right; bv_omega
  · intro h1 h2
    right
    rcases h1 with h1 | h1
    · subst h1; exact h2
    · bv_omega

/-- **what a gather puts on the wire as FORWARD-TSN**: one goes out exactly when the flag is up and the advanced peer ack
point is ahead of the cumulative point; it carries that point and the lists computed on the state the gather leaves -/
theorem gather_fwd (s : St) (orc : Oracle) (sel : List Nat) (he : s.established = true) :
    ((gather s orc sel).2.fwd.isSome = true ↔
      (s.willSendForwardTSN = true ∧ sna32GT s.advPeerAck s.cumAck = true ∧ (s.cfg.useIForwardTSN = true ∨ s.cfg.prEnabled = true))) ∧
    (∀ f, (gather s orc sel).2.fwd = some f →
      f = (if s.cfg.useIForwardTSN then Fwd.ifwd s.advPeerAck (iForwardTSN (gather s orc sel).1).2
           else Fwd.fwd s.advPeerAck (forwardTSN (gather s orc sel).1).2)) := by
  obtain ⟨e1, e2⟩ := gather_eq s orc sel he
  obtain ⟨_, _, g3, g4, g5, _⟩ := gatherPre_grel s orc sel
  have hcfg : (gatherPre s orc sel).cfg = s.cfg := by
    have := gather_cfg s orc sel
    rw [e1] at this; exact this
  refine ⟨?_, ?_⟩
  · rw [e2, fwdOut_isSome, g3, g4, g5, hcfg]
  · intro f hf
    rw [e2] at hf
    rw [e1]
    have h1 : (iForwardTSN { gatherPre s orc sel with willSendForwardTSN := false }).2 = (iForwardTSN (gatherPre s orc sel)).2 := by
      simp only [iForwardTSN, fwd_flag]
    have h2 : (forwardTSN { gatherPre s orc sel with willSendForwardTSN := false }).2 = (forwardTSN (gatherPre s orc sel)).2 := by
      simp only [forwardTSN, fwd_flag]
    rw [h1, h2]
    unfold fwdOut at hf
    rw [hcfg] at hf
    split at hf
    · split at hf
      · rename_i hi
        rw [if_pos hi]
        simp only [Option.some.injEq] at hf
        rw [← hf]
        simp only [iForwardTSN, g3]
      · rename_i hi
        rw [if_neg hi]
        split at hf
        · simp only [Option.some.injEq] at hf
          rw [← hf]
          simp only [forwardTSN, g3]
        · cases hf
    · cases hf

/-- the stream list of `createForwardTSN` over a chunk list: one entry per stream that has an ORDERED chunk in the list,
each entry is the SSN of such a chunk, and (SSNs of a stream within one half-space window) it is the greatest -/
theorem fwdStreams_spec (L : List Chunk) :
    ((fwdStreams L []).map (·.1)).Nodup ∧
    (∀ e ∈ fwdStreams L [], ∃ c ∈ L, c.unordered = false ∧ c.si = e.1 ∧ c.ssn = e.2) ∧
    (∀ base : BitVec 16 → BitVec 16, (∀ c ∈ L, c.unordered = false → (c.ssn - base c.si).toNat < 2^15) →
      ∀ c ∈ L, c.unordered = false → ∃ ssn, (c.si, ssn) ∈ fwdStreams L [] ∧ sna16LTE c.ssn ssn = true) := by
  rw [fwdStreams_eq]
  refine ⟨upFold_nodup _ _ _ (by simp), ?_, ?_⟩
  · intro e he
    rcases upFold_mem _ _ _ e he with h | h
    · cases h
    · simp only [List.mem_map, List.mem_filter] at h
      obtain ⟨c, ⟨hc1, hc2⟩, hc3⟩ := h
      exact ⟨c, hc1, by simpa using hc2, by rw [← hc3], by rw [← hc3]⟩
  · intro base hwin c hc hu
    have hkv : ∀ e ∈ (L.filter (fun c => !c.unordered)).map (fun c => (c.si, c.ssn)), (e.2 - base e.1).toNat < 2^15 := by
      intro e he
      simp only [List.mem_map, List.mem_filter] at he
      obtain ⟨c', ⟨h1, h2⟩, h3⟩ := he
      rw [← h3]; exact hwin c' h1 (by simpa using h2)
    have := upFold_max sna16LT (fun k v => (v - base k).toNat < 2^15)
      (fun k a b ha hb => (sna16_window (base k) a b b ha hb hb).1)
      (fun k a b c ha hb hc => (sna16_window (base k) a b c ha hb hc).2)
      ((L.filter (fun c => !c.unordered)).map (fun c => (c.si, c.ssn))) [] [] (by simpa using hkv) (by simp) (by simp)
      (c.si, c.ssn) (by simp only [List.nil_append, List.mem_map, List.mem_filter]; exact ⟨c, ⟨hc, by simp [hu]⟩, rfl⟩)
    obtain ⟨v, hv1, hv2⟩ := this
    refine ⟨v, getv_mem hv1, ?_⟩
    simp only [sna16LTE, Bool.or_eq_true, beq_iff_eq]
    exact hv2

/-- likewise for `createIForwardTSN`: keys are (stream, unordered flag), values message identifiers -/
theorem ifwdStreams_spec (L : List Chunk) :
    ((ifwdStreams L []).map (·.1)).Nodup ∧
    (∀ e ∈ ifwdStreams L [], ∃ c ∈ L, (c.si, c.unordered) = e.1 ∧ c.mid = e.2) ∧
    (∀ base : BitVec 16 × Bool → BitVec 32, (∀ c ∈ L, (c.mid - base (c.si, c.unordered)).toNat < 2^31) →
      ∀ c ∈ L, ∃ mid, ((c.si, c.unordered), mid) ∈ ifwdStreams L [] ∧ sna32LTE c.mid mid = true) := by
  rw [ifwdStreams_eq]
  refine ⟨upFold_nodup _ _ _ (by simp), ?_, ?_⟩
  · intro e he
    rcases upFold_mem _ _ _ e he with h | h
    · cases h
    · simp only [List.mem_map] at h
      obtain ⟨c, hc1, hc3⟩ := h
      exact ⟨c, hc1, by rw [← hc3], by rw [← hc3]⟩
  · intro base hwin c hc
    have hkv : ∀ e ∈ L.map (fun c => ((c.si, c.unordered), c.mid)), (e.2 - base e.1).toNat < 2^31 := by
      intro e he
      simp only [List.mem_map] at he
      obtain ⟨c', h1, h3⟩ := he
      rw [← h3]; exact hwin c' h1
    have := upFold_max sna32LT (fun k v => (v - base k).toNat < 2^31)
      (fun k a b ha hb => (sna32_window (base k) a b b ha hb hb).1)
      (fun k a b c ha hb hc => (sna32_window (base k) a b c ha hb hc).2)
      (L.map (fun c => ((c.si, c.unordered), c.mid))) [] [] (by simpa using hkv) (by simp) (by simp)
      ((c.si, c.unordered), c.mid) (by simp only [List.nil_append, List.mem_map]; exact ⟨c, hc, rfl⟩)
    obtain ⟨v, hv1, hv2⟩ := this
    refine ⟨v, getv_mem hv1, ?_⟩
    simp only [sna32LTE, Bool.or_eq_true, beq_iff_eq]
    exact hv2

end SenderProofs
