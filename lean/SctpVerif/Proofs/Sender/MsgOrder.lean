import SctpVerif.Proofs.Sender.AccLen
/-!
Message identities grow along the accepted writes, so a message identity names ONE accepted write (`split_unique`);
identification of every written and every moved chunk (`written_ident`, `moved_ident`); and two list-level facts about
a move order that keeps the fragments of a message together (`Contig`): looking backward, every moved fragment `i` sits
`i` places after the first fragment of its message; looking forward, the fragments of a message whose first fragment was
moved follow it without a gap as far as the moves go.
-/
namespace SenderTsn
open SenderProofs
open Gen Sender
open NetSys (Write accepts)

theorem accBy_msg (s : St) (op : Op) : ∀ a ∈ accBy s op, a.msg = s.nextMsg ∧ (step s op).nextMsg = s.nextMsg + 1 := by
  intro a ha
  cases op with
  | write si ppi len =>
    simp only [accBy] at ha
    cases hacc : accepts s si ppi len with
    | false => simp [hacc] at ha
    | true =>
      simp only [hacc, if_true, List.mem_singleton] at ha
      subst ha
      refine ⟨rfl, ?_⟩
      obtain ⟨st, hs, h1, h2, hmp, he⟩ := (accepts_iff s si ppi len).1 hacc
      have hmp' : ¬ s.cfg.maxPayload = 0#32 := hmp
      simp [step, write, hs, h1, h2, hmp', he, pushPending, setStream]
  | _ => cases ha

theorem accepted_msg_ge (s : St) (ops : List Op) : ∀ a ∈ accepted s ops, s.nextMsg ≤ a.msg := by
  induction ops generalizing s with
  | nil => intro a ha; cases ha
  | cons op ops ih =>
    intro a ha
    simp only [accepted, List.mem_append] at ha
    rcases ha with ha | ha
    · exact Nat.le_of_eq (accBy_msg s op a ha).1.symm
    · exact Nat.le_trans (step_nextMsg s op).1 (ih _ a ha)

/-- message identities strictly increase along the accepted writes -/
theorem accepted_sorted (s : St) (ops : List Op) : (accepted s ops).Pairwise (fun a b => a.msg < b.msg) := by
  induction ops generalizing s with
  | nil => exact List.Pairwise.nil
  | cons op ops ih =>
    simp only [accepted]
    rw [List.pairwise_append]
    refine ⟨?_, ih _, ?_⟩
    · cases op with
      | write si ppi len =>
        simp only [accBy]
        split
        · exact List.pairwise_singleton _ _
        · exact List.Pairwise.nil
      | _ => exact List.Pairwise.nil
    · intro a ha b hb
      have h1 := accBy_msg s op a ha
      have h2 := accepted_msg_ge (step s op) ops b hb
      omega

/-- a message identity names one position in a list with increasing identities -/
theorem split_unique (acc : List Write) (hs : acc.Pairwise (fun a b => a.msg < b.msg)) (ws1 ws2 ws1' ws2' : List Write) (a a' : Write)
    (h1 : acc = ws1 ++ a :: ws2) (h2 : acc = ws1' ++ a' :: ws2') (hm : a.msg = a'.msg) : ws1 = ws1' ∧ a = a' ∧ ws2 = ws2' := by
  induction ws1 generalizing acc ws1' with
  | nil =>
    cases ws1' with
    | nil =>
      rw [h1] at h2
      simp only [List.nil_append, List.cons.injEq] at h2
      exact ⟨rfl, h2.1, h2.2⟩
    | cons b r =>
      rw [h1] at h2
      simp only [List.nil_append, List.cons_append, List.cons.injEq] at h2
      obtain ⟨e1, e2⟩ := h2
      rw [h1] at hs
      simp only [List.nil_append, List.pairwise_cons] at hs
      have : a.msg < a'.msg := hs.1 a' (by rw [e2]; simp)
      omega
  | cons b r ih =>
    cases ws1' with
    | nil =>
      have h2c := h2
      rw [h1] at h2
      simp only [List.nil_append, List.cons_append, List.cons.injEq] at h2
      obtain ⟨e1, e2⟩ := h2
      rw [h2c] at hs
      simp only [List.nil_append, List.pairwise_cons] at hs
      have : a'.msg < a.msg := hs.1 a (by rw [← e2]; simp)
      omega
    | cons b' r' =>
      rw [h1] at h2 hs
      simp only [List.cons_append, List.cons.injEq] at h2
      simp only [List.cons_append, List.pairwise_cons] at hs
      obtain ⟨e1, e2⟩ := h2
      obtain ⟨i1, i2, i3⟩ := ih (r ++ a :: ws2) hs.2 r' rfl e2
      exact ⟨by rw [e1, i1], i2, i3⟩

/-! ## identification of written and moved chunks -/

theorem written_ident (cfg : Cfg) (tsn peerRwnd : BitVec 32) (lenOf : Nat → Nat) (ops : List Op)
    (ho : ∀ op ∈ ops, OrdOp op) (hl : LenOk lenOf (init cfg tsn peerRwnd) ops) :
    ∀ w ∈ written (init cfg tsn peerRwnd) ops,
      ∃ (ws1 : List Write) (a : Write) (ws2 : List Write) (i : Nat),
        accepted (init cfg tsn peerRwnd) ops = ws1 ++ a :: ws2 ∧
        i < (fragSizes cfg.maxPayload.toNat (lenOf a.msg)).length ∧
        Chunk.frag w = fragOf cfg.useInterleaving a (cntOf ws1 a.si) i (fragSizes cfg.maxPayload.toNat (lenOf a.msg)).length ∧
        (fragSizes cfg.maxPayload.toNat (lenOf a.msg))[i]? = some w.len := by
  intro w hw
  obtain ⟨hgen, _⟩ := run_gen cfg.useInterleaving lenOf [] (init cfg tsn peerRwnd) ops (init_cinv _ cfg tsn peerRwnd) rfl ho hl
  rw [hgen] at hw
  obtain ⟨ws1, a, ws2, i, hacc, hi⟩ := gen_mem _ _ _ _ _ w hw
  have hcfg : (init cfg tsn peerRwnd).cfg = cfg := rfl
  rw [hcfg] at hi
  simp only [List.nil_append] at hi
  obtain ⟨g1, g2, g3, g4, g5, g6, g7, g8, g9, g10⟩ := grp_get _ _ _ _ _ i w hi
  have hilt : i < (fragSizes cfg.maxPayload.toNat (lenOf a.msg)).length := by
    rcases Nat.lt_or_ge i (fragSizes cfg.maxPayload.toNat (lenOf a.msg)).length with h' | h'
    · exact h'
    · rw [List.getElem?_eq_none h'] at g10; cases g10
  refine ⟨ws1, a, ws2, i, hacc, hilt, ?_, g10⟩
  simp only [Chunk.frag, fragOf, g1, g2, g3, g4, g5, g6, g7, g8, g9]

theorem moved_ident (cfg : Cfg) (tsn peerRwnd : BitVec 32) (lenOf : Nat → Nat) (ops : List Op)
    (ho : ∀ op ∈ ops, OrdOp op) (hl : LenOk lenOf (init cfg tsn peerRwnd) ops) :
    ∀ j m, (moved (init cfg tsn peerRwnd) ops)[j]? = some m →
      m.tsn = tsn + BitVec.ofNat 32 j ∧
      ∃ (ws1 : List Write) (a : Write) (ws2 : List Write) (i : Nat),
        accepted (init cfg tsn peerRwnd) ops = ws1 ++ a :: ws2 ∧
        i < (fragSizes cfg.maxPayload.toNat (lenOf a.msg)).length ∧
        Chunk.frag m = fragOf cfg.useInterleaving a (cntOf ws1 a.si) i (fragSizes cfg.maxPayload.toNat (lenOf a.msg)).length := by
  intro j m hj
  refine ⟨(run_tsn cfg tsn peerRwnd ops).2.2.1 j m hj, ?_⟩
  have hm : m ∈ moved (init cfg tsn peerRwnd) ops := List.mem_of_getElem? hj
  have hc := moved_count_le cfg tsn peerRwnd ops (fun x => x == Chunk.frag m)
  have hpos : 0 < ((moved (init cfg tsn peerRwnd) ops).map Chunk.frag).countP (fun x => x == Chunk.frag m) :=
    List.countP_pos_iff.2 ⟨Chunk.frag m, List.mem_map.2 ⟨m, hm, rfl⟩, by simp⟩
  obtain ⟨f, hf, hfe⟩ := List.countP_pos_iff.1 (Nat.lt_of_lt_of_le hpos hc)
  obtain ⟨w, hw, rfl⟩ := List.mem_map.1 hf
  have hfe' : Chunk.frag w = Chunk.frag m := by simpa using hfe
  obtain ⟨ws1, a, ws2, i, e1, e2, e3, _⟩ := written_ident cfg tsn peerRwnd lenOf ops ho hl w hw
  exact ⟨ws1, a, ws2, i, e1, e2, by rw [← hfe']; exact e3⟩

/-! ## a move order that keeps the fragments of a message together -/

/-- the first moved chunk is a first fragment; after a last fragment comes a first fragment; after any other fragment
comes the next fragment of the same message -/
structure Contig (mv : List Chunk) : Prop where
  head : ∀ c, mv[0]? = some c → c.bfrag = true
  next : ∀ j x y, mv[j]? = some x → mv[j + 1]? = some y →
    if x.efrag then y.bfrag = true else (y.msg = x.msg ∧ y.fsn = x.fsn + 1)

/-- backward: fragment `i` of a message sits `i` places after its first fragment -/
theorem Contig.back {mv : List Chunk} (h : Contig mv)
    (hwf : ∀ c ∈ mv, (c.bfrag = true ↔ c.fsn = 0) ∧ c.fsn.toNat + 1 < 2^32) :
    ∀ (j : Nat) (c : Chunk), mv[j]? = some c → c.fsn.toNat ≤ j ∧ ∃ b : Chunk, mv[j - c.fsn.toNat]? = some b ∧ b.msg = c.msg ∧ b.bfrag = true := by
  intro j
  induction j with
  | zero =>
    intro c hc
    have hb := h.head c hc
    have h0 : c.fsn = 0 := ((hwf c (List.mem_of_getElem? hc)).1).1 hb
    rw [h0]
    exact ⟨by simp, c, by simpa using hc, rfl, hb⟩
  | succ j ih =>
    intro c hc
    cases hb : c.bfrag with
    | true =>
      have h0 : c.fsn = 0 := ((hwf c (List.mem_of_getElem? hc)).1).1 hb
      rw [h0]
      exact ⟨by simp, c, by simpa using hc, rfl, hb⟩
    | false =>
      have hjl : j < mv.length := by
        rcases Nat.lt_or_ge (j + 1) mv.length with h' | h'
        · omega
        · rw [List.getElem?_eq_none h'] at hc; cases hc
      have hx : mv[j]? = some mv[j] := List.getElem?_eq_getElem hjl
      have hn := h.next j mv[j] c hx hc
      cases he : (mv[j]).efrag with
      | true => simp [he, hb] at hn
      | false =>
        simp only [he, Bool.false_eq_true, if_false] at hn
        obtain ⟨n1, n2⟩ := hn
        have hxw := (hwf mv[j] (List.getElem_mem hjl)).2
        have hfs : c.fsn.toNat = (mv[j]).fsn.toNat + 1 := by
          rw [n2, BitVec.toNat_add]
          simp only [BitVec.toNat_ofNat, Nat.reducePow, Nat.reduceMod]
          exact Nat.mod_eq_of_lt hxw
        obtain ⟨i1, b, i2, i3, i4⟩ := ih mv[j] hx
        refine ⟨by omega, b, ?_, i3.trans n1.symm, i4⟩
        have : j + 1 - c.fsn.toNat = j - (mv[j]).fsn.toNat := by omega
        rw [this]; exact i2

/-- forward: behind a moved first fragment the fragments of its message follow without a gap, as far as the moves go -/
theorem Contig.fwd {mv : List Chunk} (h : Contig mv) (J0 : Nat) (b : Chunk) (hb : mv[J0]? = some b) (hb0 : b.fsn = 0) (n : Nat)
    (hn : n < 2^32) (he : ∀ c ∈ mv, c.msg = b.msg → c.efrag = (c.fsn.toNat + 1 == n)) :
    ∀ i, i < n → J0 + i < mv.length → ∃ c, mv[J0 + i]? = some c ∧ c.msg = b.msg ∧ c.fsn = BitVec.ofNat 32 i := by
  intro i
  induction i with
  | zero => intro _ _; exact ⟨b, by simpa using hb, rfl, by simpa using hb0⟩
  | succ i ih =>
    intro hi hl
    obtain ⟨x, hx, x1, x2⟩ := ih (by omega) (by omega)
    have hy : mv[J0 + i + 1]? = some mv[J0 + i + 1] := List.getElem?_eq_getElem (by omega)
    have hne := h.next (J0 + i) x _ hx hy
    have hxe : x.efrag = false := by
      rw [he x (List.mem_of_getElem? hx) x1, x2, BitVec.toNat_ofNat, Nat.mod_eq_of_lt (by omega)]
      simp; omega
    simp only [hxe, Bool.false_eq_true, if_false] at hne
    refine ⟨_, hy, hne.1.trans x1, ?_⟩
    rw [hne.2, x2]
    show BitVec.ofNat 32 i + BitVec.ofNat 32 1 = _
    rw [← BitVec.ofNat_add]

end SenderTsn
