import SctpVerif.Model.Sender
/-! Arithmetic of DATA chunk / packet sizes on the translator-generated defs (`Gen.getPadding`,
`Gen.chunkPayloadData_chunkSize[InPacket]`, `Gen.maxPayloadSizeForMTU`) and the bundling loop. -/
namespace SenderProofs
open Gen Sender

theorem getPadding_spec (l : Int) (h : 0 ≤ l) : 0 ≤ getPadding l ∧ getPadding l < 4 ∧ (l + getPadding l) % 4 = 0 := by
  unfold getPadding
  simp only [Int.tmod_eq_emod_of_nonneg h]
  have : 0 ≤ 4 - l % 4 := by omega
  rw [Int.tmod_eq_emod_of_nonneg this]
  omega

theorem sizeInPacket_eq (il : Bool) (c : Chunk) :
    c.sizeInPacket il = c.size il + getPadding (c.size il) := by
  simp [Chunk.sizeInPacket, Chunk.size, chunkPayloadData_chunkSizeInPacket]

theorem size_eq (il : Bool) (c : Chunk) : c.size il = (if il then 20 else 16) + (c.len : Int) := by
  cases il <;> simp [Chunk.size, chunkPayloadData_chunkSize, chunkPayloadData_isIData]

theorem maxPayload_spec (mtu : BitVec 32) (il : Bool) (hmp : maxPayloadSizeForMTU mtu il ≠ 0) :
    (if il then 32 else 28) < mtu.toNat ∧
    (maxPayloadSizeForMTU mtu il).toNat = (mtu.toNat - (if il then 32 else 28)) - (mtu.toNat - (if il then 32 else 28)) % 4 := by
  cases il
  · simp [maxPayloadSizeForMTU, payloadDataChunkHeaderSize] at hmp ⊢
    obtain ⟨h1, _⟩ := hmp
    have h2 : ¬ mtu ≤ 28#32 := by bv_omega
    simp [h2]
    bv_omega
  · simp [maxPayloadSizeForMTU, payloadDataChunkHeaderSize] at hmp ⊢
    obtain ⟨h1, _⟩ := hmp
    have h2 : ¬ mtu ≤ 32#32 := by bv_omega
    simp [h2]
    bv_omega

/-- the arithmetic fact the sender relies on -/
theorem fragment_fits (mtu : BitVec 32) (il : Bool) (len : Nat)
    (hmp : maxPayloadSizeForMTU mtu il ≠ 0) (hlen : len ≤ (maxPayloadSizeForMTU mtu il).toNat) :
    hdr + (({ len := len } : Chunk).sizeInPacket il) ≤ (mtu.toNat : Int) := by
  rw [sizeInPacket_eq, size_eq]
  have hp := getPadding_spec ((if il then 20 else 16) + (len : Int)) (by split <;> omega)
  revert hp
  generalize getPadding _ = p
  intro hp
  have hs := maxPayload_spec mtu il hmp
  simp only [hdr, commonHeaderSize]
  cases il <;> simp at hs hp ⊢ <;> omega

theorem sizeInPacket_nonneg (il : Bool) (c : Chunk) : 16 ≤ c.sizeInPacket il ∧ (c.sizeInPacket il) % 4 = 0 := by
  rw [sizeInPacket_eq, size_eq]
  have hp := getPadding_spec ((if il then 20 else 16) + (c.len : Int)) (by split <;> omega)
  revert hp; generalize getPadding _ = p; intro hp
  cases il <;> simp at hp ⊢ <;> omega

/-- sum of the padded chunk sizes of a packet -/
def sipSum (il : Bool) : List Chunk → Int
  | [] => 0
  | c :: r => c.sizeInPacket il + sipSum il r

theorem sipSum_append (il : Bool) (a b : List Chunk) : sipSum il (a ++ b) = sipSum il a + sipSum il b := by
  induction a with
  | nil => simp [sipSum]
  | cons c r ih => simp [sipSum, ih]; omega

theorem sipSum_nonneg (il : Bool) (p : List Chunk) : 0 ≤ sipSum il p := by
  induction p with
  | nil => simp [sipSum]
  | cons c r ih => have := (sizeInPacket_nonneg il c).1; simp [sipSum]; omega

theorem getPadding_add_of_mod (raw l : Int) (hr : 0 ≤ raw) (hm : raw % 4 = 0) (hl : 0 ≤ l) :
    getPadding (raw + l) = getPadding l := by
  have h1 := getPadding_spec (raw + l) (by omega)
  have h2 := getPadding_spec l hl
  omega

theorem marshal_fold (il : Bool) (p : List Chunk) (raw : Int) (hr : 0 ≤ raw) (hm : raw % 4 = 0) :
    p.foldl (fun raw c => let r := raw + c.size il; r + getPadding r) raw = raw + sipSum il p := by
  induction p generalizing raw with
  | nil => simp [sipSum]
  | cons c r ih =>
    have hs : 0 ≤ c.size il := by rw [size_eq]; split <;> omega
    have hp := getPadding_spec (c.size il) hs
    simp only [List.foldl_cons, sipSum]
    rw [getPadding_add_of_mod raw _ hr hm hs, ih _ (by omega) (by omega), sizeInPacket_eq]
    omega

/-- the marshalled length of a DATA packet is the common header plus the padded chunk sizes -/
theorem marshalLen_eq (il : Bool) (p : List Chunk) : marshalLen il p = hdr + sipSum il p := by
  unfold marshalLen
  rw [marshal_fold il p _ (by decide) (by decide)]
  rfl

/-- every chunk fits in a packet of its own -/
def AllFit (mtu : BitVec 32) (il : Bool) (l : List Chunk) : Prop := ∀ c ∈ l, hdr + c.sizeInPacket il ≤ (mtu.toNat : Int)

theorem bundle_fits (mtu : BitVec 32) (il : Bool) (chunks cur : List Chunk) (bip : Int)
    (hb : bip = hdr + sipSum il cur) (hc : hdr + sipSum il cur ≤ (mtu.toNat : Int)) (hall : AllFit mtu il chunks) :
    ∀ p ∈ bundle mtu il chunks cur bip, hdr + sipSum il p ≤ (mtu.toNat : Int) := by
  induction chunks generalizing cur bip with
  | nil =>
    intro p hp
    simp only [bundle] at hp
    split at hp
    · simp at hp
    · simp at hp; subst hp; exact hc
  | cons c rest ih =>
    intro p hp
    have hfit := hall c (by simp)
    have hrest : AllFit mtu il rest := fun x hx => hall x (by simp [hx])
    simp only [bundle] at hp
    split at hp
    · rcases List.mem_cons.mp hp with h | h
      · subst h; exact hc
      · exact ih [c] _ (by simp [sipSum]) (by simpa [sipSum] using hfit) hrest p h
    · rename_i hfull
      simp only [bundle_packetFull, decide_eq_true_eq] at hfull
      refine ih (cur ++ [c]) _ ?_ ?_ hrest p hp
      · rw [sipSum_append]; simp [sipSum]; omega
      · rw [sipSum_append]; simp [sipSum]; omega

/-- no packet produced by bundling is empty, given a non-empty (or absent) current packet and chunks that fit -/
theorem bundle_nonempty (mtu : BitVec 32) (il : Bool) (chunks cur : List Chunk) (bip : Int)
    (hb : bip = hdr + sipSum il cur) (hall : AllFit mtu il chunks) (hcur : cur ≠ [] ∨ bip = hdr) :
    ∀ p ∈ bundle mtu il chunks cur bip, p ≠ [] := by
  induction chunks generalizing cur bip with
  | nil =>
    intro p hp
    simp only [bundle] at hp
    split at hp
    · simp at hp
    · rename_i h; simp at hp; subst hp; intro h'; simp [h'] at h
  | cons c rest ih =>
    intro p hp
    have hfit := hall c (by simp)
    have hrest : AllFit mtu il rest := fun x hx => hall x (by simp [hx])
    simp only [bundle] at hp
    split at hp
    · rename_i hfull
      simp only [bundle_packetFull, decide_eq_true_eq] at hfull
      rcases List.mem_cons.mp hp with h | h
      · subst h
        rcases hcur with h1 | h1
        · exact h1
        · exfalso; omega
      · exact ih [c] _ (by simp [sipSum]) hrest (Or.inl (by simp)) p h
    · exact ih (cur ++ [c]) _ (by rw [sipSum_append]; simp [sipSum]; omega) hrest (Or.inl (by simp)) p hp

end SenderProofs
