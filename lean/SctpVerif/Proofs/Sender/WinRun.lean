import SctpVerif.Proofs.Sender.Frames
/-! The two window invariants along arbitrary runs: peer window (`RW`) and congestion-window floor (`CwndFloor`). -/
namespace SenderProofs
open Gen Sender

/-- configurations in which `4·MTU` does not wrap a uint32 -/
def CfgOk (cfg : Cfg) : Prop := cfg.mtu.toNat < 2^30

/-- both invariants, the configuration constraint, and "the no-wrap flag, once raised, stays raised" packaged per step -/
structure WinInv (s : St) : Prop where
  cfgOk : CfgOk s.cfg
  rw : RW s
  floor : CwndFloor s

theorem releaseAll_frame (rel : Rel) (s : St) :
    (releaseAll rel s).rwnd = s.rwnd ∧ (releaseAll rel s).infBytes = s.infBytes ∧ (releaseAll rel s).lastArwnd = s.lastArwnd ∧
    (releaseAll rel s).wrapWin = s.wrapWin ∧ (releaseAll rel s).cfg = s.cfg ∧ (releaseAll rel s).cwnd = s.cwnd ∧
    (releaseAll rel s).inflight = s.inflight ∧ (releaseAll rel s).pending = s.pending ∧ (releaseAll rel s).penBytes = s.penBytes ∧
    (releaseAll rel s).penChunks = s.penChunks ∧ (releaseAll rel s).wrapBuf = s.wrapBuf ∧ (releaseAll rel s).cumAck = s.cumAck ∧
    (releaseAll rel s).myNextTSN = s.myNextTSN ∧ (releaseAll rel s).ssthresh = s.ssthresh := by
  induction rel generalizing s with
  | nil => simp [releaseAll]
  | cons e r ih =>
    obtain ⟨si, n⟩ := e
    simp only [releaseAll]
    cases hs : s.streams si with
    | none => exact ih s
    | some st =>
      simp only
      split
      · have := ih { setStream s si (release st n).1 with clamped := s.clamped || (release st n).2 }
        simpa [setStream] using this
      · exact ih s

theorem onCumAdvanced_win (s : St) (total : Int) :
    (onCumAdvanced s total).rwnd = s.rwnd ∧ (onCumAdvanced s total).infBytes = s.infBytes ∧
    (onCumAdvanced s total).lastArwnd = s.lastArwnd ∧ (onCumAdvanced s total).cfg = s.cfg ∧
    ((onCumAdvanced s total).wrapWin = false → s.wrapWin = false ∧ s.cwnd.toNat ≤ (onCumAdvanced s total).cwnd.toNat) := by
  unfold onCumAdvanced
  split
  · split
    · refine ⟨rfl, rfl, rfl, rfl, ?_⟩
      intro hw
      simp only [Bool.or_eq_false_iff, decide_eq_false_iff_not, not_or, Int.not_lt, ge_iff_le, Nat.not_le] at hw
      refine ⟨hw.1, ?_⟩
      have := (setCwnd_ge s (cumAck_slowStartCwndArg s.cwnd total)).1
      simp only [cumAck_slowStartCwndArg] at this ⊢
      have h3 := hw.2.2.2
      have : (s.cwnd + min32 (BitVec.ofInt 32 total) s.cwnd).toNat = s.cwnd.toNat + (min32 (BitVec.ofInt 32 total) s.cwnd).toNat := by
        rw [BitVec.toNat_add]; omega
      omega
    · exact ⟨rfl, rfl, rfl, rfl, fun h => ⟨h, Nat.le_refl _⟩⟩
  · simp only
    split
    · refine ⟨rfl, rfl, rfl, rfl, ?_⟩
      intro hw
      simp only [Bool.or_eq_false_iff, decide_eq_false_iff_not, ge_iff_le, Nat.not_le] at hw
      refine ⟨hw.1, ?_⟩
      have := (setCwnd_ge s (cumAck_caCwndArg s.cwnd (cumAck_caStep s.cfg.mtu s.cfg.cwndCAStep))).1
      simp only [cumAck_caCwndArg] at this ⊢
      have : (s.cwnd + cumAck_caStep s.cfg.mtu s.cfg.cwndCAStep).toNat = s.cwnd.toNat + (cumAck_caStep s.cfg.mtu s.cfg.cwndCAStep).toNat := by
        rw [BitVec.toNat_add]; omega
      omega
    · exact ⟨rfl, rfl, rfl, rfl, fun h => ⟨h, Nat.le_refl _⟩⟩

theorem ackApply_win (s : St) (cum : BitVec 32) (g : GapAcc) (inFR : Bool) :
    (ackApply s cum g inFR).cfg = s.cfg ∧
    ((ackApply s cum g inFR).wrapWin = false → s.wrapWin = false ∧ s.cwnd.toNat ≤ (ackApply s cum g inFR).cwnd.toNat) := by
  unfold ackApply
  simp only
  obtain ⟨_, _, _, r4, r5, r6, _⟩ := releaseAll_frame g.rel
    (if sna32LT s.cumAck cum then onCumAdvanced { s with inflight := g.q, infBytes := g.infBytes, inFastRecovery := inFR, cumAck := cum } (relTotal g.rel)
     else { s with inflight := g.q, infBytes := g.infBytes, inFastRecovery := inFR })
  rw [r4, r5, r6]
  split
  · obtain ⟨_, _, _, o4, o5⟩ := onCumAdvanced_win { s with inflight := g.q, infBytes := g.infBytes, inFastRecovery := inFR, cumAck := cum } (relTotal g.rel)
    exact ⟨o4, o5⟩
  · exact ⟨rfl, fun h => ⟨h, Nat.le_refl _⟩⟩

theorem ackPhase_win {s : St} {cum : BitVec 32} {gaps : List (BitVec 16 × BitVec 16)} {r : St × BitVec 32 × Bool}
    (h : ackPhase s cum gaps = some r) :
    r.1.cfg = s.cfg ∧ (r.1.wrapWin = false → s.wrapWin = false ∧ s.cwnd.toNat ≤ r.1.cwnd.toNat) := by
  unfold ackPhase at h
  split at h
  · cases h
  · split at h
    · cases h
    · cases h; exact ackApply_win _ _ _ _

theorem setPeerWindow_RW (s : St) (arwnd : BitVec 32) : RW (setPeerWindow s arwnd) := by
  intro hw
  simp only [setPeerWindow, Bool.or_eq_false_iff, decide_eq_false_iff_not, not_or, Int.not_lt, ge_iff_le, Int.not_le] at hw ⊢
  obtain ⟨_, h1, h2⟩ := hw
  have e : (BitVec.ofInt 32 s.infBytes).toNat = s.infBytes.toNat := by rw [BitVec.toNat_ofInt]; omega
  simp only [sack_windowFull, sack_rwndArg]
  by_cases hf : BitVec.ofInt 32 s.infBytes ≥ arwnd
  · simp only [hf, decide_true, if_true]
    have : arwnd.toNat ≤ (BitVec.ofInt 32 s.infBytes).toNat := by simpa [BitVec.le_def] using hf
    simp; omega
  · simp only [hf, decide_false, Bool.false_eq_true, if_false]
    have : (BitVec.ofInt 32 s.infBytes).toNat < arwnd.toNat := by simpa [BitVec.le_def] using hf
    have : ((arwnd - BitVec.ofInt 32 s.infBytes).toNat : Int) = (arwnd.toNat : Int) - s.infBytes := by bv_omega
    omega

theorem sack_win (s : St) (cum arwnd : BitVec 32) (gaps : List (BitVec 16 × BitVec 16)) (marks : List (BitVec 32))
    (h : WinInv s) : WinInv (sack s cum arwnd gaps marks).1 ∧ ((sack s cum arwnd gaps marks).1.wrapWin = false → s.wrapWin = false) := by
  unfold sack
  split
  · exact ⟨h, id⟩
  · split
    · exact ⟨h, id⟩
    · split
      · exact ⟨h, id⟩
      · cases ha : ackPhase s cum gaps with
        | none => exact ⟨h, id⟩
        | some r =>
          simp only
          obtain ⟨a1, a2⟩ := ackPhase_win ha
          have hcfg : (setPeerWindow r.1 arwnd).cfg = s.cfg := a1
          have hm : (setPeerWindow r.1 arwnd).cfg.mtu.toNat < 2^30 := by rw [hcfg]; exact h.cfgOk
          obtain ⟨f1, f2⟩ := fastRetransCheck_frame (setPeerWindow r.1 arwnd) cum gaps r.2.1 r.2.2 hm
          have hwmono : ∀ x : St, SameAcct (setPeerWindow r.1 arwnd) x → x.wrapWin = false → s.wrapWin = false ∧ s.cwnd.toNat ≤ r.1.cwnd.toNat := by
            intro x hx hw
            rw [hx.2.2.2.1] at hw
            simp only [setPeerWindow, Bool.or_eq_false_iff] at hw
            exact a2 hw.1
          have fin : ∀ x : St, SameAcct (setPeerWindow r.1 arwnd) x →
              (s.cfg.mtu.toNat ≤ r.1.cwnd.toNat → s.cfg.mtu.toNat ≤ x.cwnd.toNat) →
              WinInv x ∧ (x.wrapWin = false → s.wrapWin = false) := by
            intro x hx hc
            refine ⟨⟨?_, hx.RW (setPeerWindow_RW _ _), ?_⟩, fun hw => (hwmono x hx hw).1⟩
            · show x.cfg.mtu.toNat < 2^30
              rw [hx.2.2.2.2.1]; exact hm
            · intro hw
              obtain ⟨w1, w2⟩ := hwmono x hx hw
              rw [hx.2.2.2.2.1, hcfg]
              exact hc (Nat.le_trans (h.floor w1) w2)
          have hc0 : s.cfg.mtu.toNat ≤ r.1.cwnd.toNat → s.cfg.mtu.toNat ≤ (fastRetransCheck (setPeerWindow r.1 arwnd) cum gaps r.2.1 r.2.2).1.cwnd.toNat := by
            intro hh
            have := f2 (by rw [hcfg]; exact hh)
            rw [hcfg] at this; exact this
          split
          · exact fin _ f1 hc0
          · obtain ⟨p1, p2⟩ := prStep_frame (fastRetransCheck (setPeerWindow r.1 arwnd) cum gaps r.2.1 r.2.2).1
            obtain ⟨m1, m2⟩ := applyMarks_frame (prStep (fastRetransCheck (setPeerWindow r.1 arwnd) cum gaps r.2.1 r.2.2).1) marks
            exact fin _ (SameAcct.trans f1 (SameAcct.trans p1 m1)) (fun hh => by rw [m2, p2]; exact hc0 hh)


theorem popLoop_cwnd {B : Type} (allow : B → Int → Bool × B) (fuel : Nat) (s : St) (sel : List Nat) (a : PopAcc B) :
    (popLoop allow fuel s sel a).1.cwnd = s.cwnd := by
  induction fuel generalizing s sel a with
  | zero => rfl
  | succ fuel ih =>
    simp only [popLoop]
    cases hp : peek s sel with
    | none => rfl
    | some ic =>
      obtain ⟨i, c⟩ := ic
      simp only
      split
      · rw [ih]; rfl
      · cases hd : popDecide s allow a c with
        | skip => rfl
        | stop b => rfl
        | take b bip => simp only; rw [ih]; exact (admitChunk_frame s i c).2.1

theorem probe_cwnd {B : Type} (allow : B → Int → Bool × B) (s : St) (sel : List Nat) (a : PopAcc B) :
    (probe allow s sel a).1.cwnd = s.cwnd := by
  unfold probe
  split
  · cases hp : peek s sel with
    | none => rfl
    | some ic =>
      obtain ⟨i, c⟩ := ic
      simp only
      split
      · split
        · split
          · exact (admitProbe_frame s i c).2.1
          · rfl
        · rfl
      · rfl
  · rfl

theorem gather_cwnd (s : St) (orc : Oracle) (sel : List Nat) : (gather s orc sel).1.cwnd = s.cwnd := by
  unfold gather
  split
  · rfl
  · simp only
    rw [(gatherFast_frame _ orc.allow _).2.2.2.2.1]
    unfold gatherNew
    split
    · simp only; rw [probe_cwnd, popLoop_cwnd]; exact (gatherRtx_frame s orc).2.2.2.2.1
    · exact (gatherRtx_frame s orc).2.2.2.2.1

theorem gather_win (s : St) (orc : Oracle) (sel : List Nat) (h : WinInv s) :
    WinInv (gather s orc sel).1 ∧ ((gather s orc sel).1.wrapWin = false → s.wrapWin = false) := by
  obtain ⟨g1, g2, g3, g4, g5, g6⟩ := gather_spec s orc sel h.rw
  refine ⟨⟨?_, g1, ?_⟩, fun hw => (g5 hw).1⟩
  · show (gather s orc sel).1.cfg.mtu.toNat < 2^30
    rw [g3]; exact h.cfgOk
  · intro hw
    rw [g3, gather_cwnd]
    exact h.floor (g5 hw).1

theorem t3_win (s : St) (h : WinInv s) : WinInv (t3 s) ∧ ((t3 s).wrapWin = false → s.wrapWin = false) := by
  obtain ⟨f1, f2, _⟩ := t3_frame s
  refine ⟨⟨?_, f1.RW h.rw, ?_⟩, fun hw => by rw [f1.2.2.2.1] at hw; exact hw⟩
  · show (t3 s).cfg.mtu.toNat < 2^30
    rw [f1.2.2.2.2.1]; exact h.cfgOk
  · intro _
    rw [f1.2.2.2.2.1, f2]
    have := (setCwnd_ge s (t3_cwndArg s.cfg.mtu)).1
    simpa [t3_cwndArg] using this

theorem write_frame (s : St) (si : BitVec 16) (ppi : BitVec 32) (len : Nat) :
    (write s si ppi len).1.rwnd = s.rwnd ∧ (write s si ppi len).1.infBytes = s.infBytes ∧ (write s si ppi len).1.lastArwnd = s.lastArwnd ∧
    (write s si ppi len).1.wrapWin = s.wrapWin ∧ (write s si ppi len).1.cfg = s.cfg ∧ (write s si ppi len).1.cwnd = s.cwnd ∧
    (write s si ppi len).1.inflight = s.inflight ∧ (write s si ppi len).1.clamped = s.clamped ∧
    (write s si ppi len).1.ssthresh = s.ssthresh := by
  unfold write
  cases hs : s.streams si with
  | none => simp
  | some st =>
    simp only
    split
    · simp
    · split
      · simp
      · split
        · simp
        · split <;> simp [pushPending, setStream]

theorem winInv_of_frame {s s' : St} (h : WinInv s) (h1 : s'.rwnd = s.rwnd) (h2 : s'.infBytes = s.infBytes) (h3 : s'.lastArwnd = s.lastArwnd)
    (h4 : s'.wrapWin = s.wrapWin) (h5 : s'.cfg = s.cfg) (h6 : s'.cwnd = s.cwnd) :
    WinInv s' ∧ (s'.wrapWin = false → s.wrapWin = false) := by
  refine ⟨⟨?_, RW_congr h1 h2 h3 h4 h.rw, ?_⟩, fun hw => by rw [h4] at hw; exact hw⟩
  · show s'.cfg.mtu.toNat < 2^30
    rw [h5]; exact h.cfgOk
  · intro hw; rw [h4] at hw; rw [h5, h6]; exact h.floor hw

theorem iter_t3_win (n : Nat) (s : St) (h : WinInv s) : WinInv (iter t3 n s) ∧ ((iter t3 n s).wrapWin = false → s.wrapWin = false) := by
  induction n generalizing s with
  | zero => exact ⟨h, id⟩
  | succ n ih =>
    simp only [iter]
    obtain ⟨t1, t2⟩ := t3_win s h
    obtain ⟨i1, i2⟩ := ih (t3 s) t1
    exact ⟨i1, fun hw => t2 (i2 hw)⟩

/-- every step keeps both window invariants, and never lowers the "a uint32 computation wrapped" flag -/
theorem step_win (s : St) (op : Op) (h : WinInv s) : WinInv (step s op) ∧ ((step s op).wrapWin = false → s.wrapWin = false) := by
  cases op with
  | openS si u rt rv th => exact winInv_of_frame h rfl rfl rfl rfl rfl rfl
  | unreg si =>
    simp only [step, unregister]
    split
    · exact ⟨h, id⟩
    · exact winInv_of_frame h rfl rfl rfl rfl rfl rfl
  | setEstablished b => exact winInv_of_frame h rfl rfl rfl rfl rfl rfl
  | write si ppi len =>
    obtain ⟨w1, w2, w3, w4, w5, w6, _⟩ := write_frame s si ppi len
    exact winInv_of_frame h w1 w2 w3 w4 w5 w6
  | gather orc sel => exact gather_win s orc sel h
  | sack cum arwnd gaps marks => exact sack_win s cum arwnd gaps marks h
  | t3 => exact t3_win s h
  | tick ms n marks =>
    simp only [step]
    obtain ⟨a1, a2⟩ := winInv_of_frame (s' := { s with now := s.now + ms }) h rfl rfl rfl rfl rfl rfl
    obtain ⟨i1, i2⟩ := iter_t3_win n _ a1
    obtain ⟨m1, m2⟩ := applyMarks_frame (iter t3 n { s with now := s.now + ms }) marks
    obtain ⟨b1, b2⟩ := winInv_of_frame i1 m1.1 m1.2.1 m1.2.2.1 m1.2.2.2.1 m1.2.2.2.2.1 m2
    exact ⟨b1, fun hw => a2 (i2 (b2 hw))⟩

theorem run_win (s : St) (ops : List Op) (h : WinInv s) : WinInv (run s ops) ∧ ((run s ops).wrapWin = false → s.wrapWin = false) := by
  induction ops generalizing s with
  | nil => exact ⟨h, id⟩
  | cons op ops ih =>
    obtain ⟨s1, s2⟩ := step_win s op h
    obtain ⟨r1, r2⟩ := ih (step s op) s1
    exact ⟨r1, fun hw => s2 (r2 hw)⟩

theorem init_win (cfg : Cfg) (tsn peerRwnd : BitVec 32) (hc : CfgOk cfg) : WinInv (init cfg tsn peerRwnd) := by
  refine ⟨hc, ?_, ?_⟩
  · intro _; simp [init]
  · intro _
    unfold CfgOk at hc
    simp only [init, Association_setCWND, initialCwnd, min32, max32]
    have e4 : (4#32 * cfg.mtu).toNat = 4 * cfg.mtu.toNat := by simp [BitVec.toNat_mul]; omega
    have e2 : (2#32 * cfg.mtu).toNat = 2 * cfg.mtu.toNat := by simp [BitVec.toNat_mul]; omega
    repeat' split
    all_goals (simp only [BitVec.lt_def, gt_iff_lt, decide_eq_true_eq, Nat.not_lt, e4, e2] at *; try omega)


end SenderProofs
