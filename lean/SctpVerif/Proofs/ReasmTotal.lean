import SctpVerif.Proofs.Reasm
/-!
The two places where `reassemblyQueue.pushWithError` would index an empty slice (`set.chunks[0]` in the
search for a fragmented set, `chunks[0]` of the run found by `findCompleteUnorderedChunkSet`) are
unreachable: the model's `Err.panic` is never returned from a queue in which no ordered set is empty, and
every operation keeps that invariant.
-/
namespace Reasm
open Gen

/-- no `chunkSet` in `ordered` is empty -/
def NoEmpty (q : Q) : Prop := ∀ s ∈ q.ordered, s.chunks ≠ []

theorem NoEmpty_new (si : BitVec 16) (me : BitVec 32) : NoEmpty (new si me) := by
  intro s hs; simp [new] at hs

/-- the scan reports a non-empty run that lies inside the slice -/
theorem scanUnordered_bounds (cs : List Chunk) (i : Nat) (start : Option Nat) (n : Nat) (last : BitVec 32)
    (hst : ∀ s0, start = some s0 → s0 + n = i) (s k : Nat)
    (h : scanUnordered cs i start n last = some (s, k)) : s + k ≤ i + cs.length ∧ 1 ≤ k := by
  induction cs generalizing i start n last with
  | nil => simp [scanUnordered] at h
  | cons c cs ih =>
    simp only [scanUnordered] at h
    split at h
    · split at h
      · simp only [Option.some.injEq, Prod.mk.injEq] at h
        obtain ⟨rfl, rfl⟩ := h
        simp
      · have := ih (i + 1) (some i) 1 c.tsn (by intro s0 hs0; cases hs0; rfl) h
        simp only [List.length_cons]; omega
    · cases start with
      | none =>
        have := ih (i + 1) none n last (by intro s0 hs0; cases hs0) h
        simp only [List.length_cons]; omega
      | some s0 =>
        have hs0 := hst s0 rfl
        simp only at h
        split at h
        · have := ih (i + 1) none n last (by intro s0 hs0; cases hs0) h
          simp only [List.length_cons]; omega
        · split at h
          · simp only [Option.some.injEq, Prod.mk.injEq] at h
            obtain ⟨rfl, rfl⟩ := h
            simp only [List.length_cons]; omega
          · have := ih (i + 1) (some s0) (n + 1) c.tsn (by intro s1 hs1; cases hs1; omega) h
            simp only [List.length_cons]; omega

def FoundU.isPanic : FoundU → Bool
  | .panic => true
  | _ => false

theorem findCompleteUnordered_no_panic (uc : List Chunk) : (findCompleteUnorderedChunkSet uc).isPanic = false := by
  unfold findCompleteUnorderedChunkSet
  split
  · rfl
  · rename_i start n hsc
    have hb := scanUnordered_bounds uc 0 none 0 0 (by intro s0 hs0; cases hs0) start n hsc
    dsimp only
    split
    · rename_i hnil
      have hlen : ((uc.drop start).take n).length = 0 := by rw [hnil]; rfl
      simp only [List.length_take, List.length_drop] at hlen
      omega
    · rfl

theorem FindO.cons_panic (s : ChunkSet) (r : FindO) : (FindO.cons s r = .panic) ↔ r = .panic := by
  cases r <;> simp [FindO.cons]

theorem findFragSet_no_panic (ssn : BitVec 16) (l : List ChunkSet) (h : ∀ s ∈ l, s.chunks ≠ []) :
    findFragSet ssn l ≠ .panic := by
  induction l with
  | nil => simp [findFragSet]
  | cons s rest ih =>
    have ih' := ih (fun x hx => h x (List.mem_cons_of_mem _ hx))
    simp only [findFragSet]
    split
    · split
      · rename_i hc; exact absurd hc (h s List.mem_cons_self)
      · split
        · simp
        · rw [Ne, FindO.cons_panic]; exact ih'
    · rw [Ne, FindO.cons_panic]; exact ih'

theorem pushOrderedIData_err (q : Q) (c : Chunk) : (q.pushOrderedIData c).2.2 ≠ .panic := by
  unfold Q.pushOrderedIData
  split
  · simp
  · split
    · dsimp only
      split <;> simp
    · split
      · simp
      · dsimp only
        split <;> simp

theorem pushUnorderedIData_err (q : Q) (c : Chunk) : (q.pushUnorderedIData c).2.2 ≠ .panic := by
  unfold Q.pushUnorderedIData
  split
  · simp
  · dsimp only
    split
    · split
      · simp
      · split <;> simp
    · split
      · simp
      · split
        · simp
        · split <;> simp

theorem pushIData_err (q : Q) (c : Chunk) : (q.pushIData c).2.2 ≠ .panic := by
  unfold Q.pushIData
  split
  · simp
  · split
    · exact pushUnorderedIData_err q c
    · exact pushOrderedIData_err q c

/-- ✱ `pushWithError` never takes a panic branch from a queue without empty ordered sets -/
theorem pushWithError_no_panic (q : Q) (c : Chunk) (h : NoEmpty q) : (q.pushWithError c).2.2 ≠ .panic := by
  unfold Q.pushWithError
  split
  · exact pushIData_err _ c
  · split
    · simp
    · split
      · split
        · simp
        · dsimp only
          have := findCompleteUnordered_no_panic (sortChunksByTSN (q.unorderedChunks ++ [c]))
          split
          · rename_i hp; rw [hp] at this; simp [FoundU.isPanic] at this
          · simp
          · simp
      · split
        · simp
        · split
          · rename_i hp
            split at hp
            · exact absurd hp (findFragSet_no_panic c.ssn q.ordered h)
            · cases hp
          · repeat' split
            all_goals simp
          · repeat' split
            all_goals simp

/-! ### every operation keeps `NoEmpty` -/

theorem pushOrderedIData_ordered (q : Q) (c : Chunk) : (q.pushOrderedIData c).1.ordered = q.ordered := by
  unfold Q.pushOrderedIData
  split
  · rfl
  · split
    · dsimp only
      split <;> simp [Q.addBytes]
    · split
      · rfl
      · dsimp only
        split <;> simp [Q.addBytes]

theorem pushUnorderedIData_ordered (q : Q) (c : Chunk) : (q.pushUnorderedIData c).1.ordered = q.ordered := by
  unfold Q.pushUnorderedIData
  split
  · rfl
  · dsimp only
    split
    · split
      · rfl
      · split <;> simp [Q.addBytes]
    · split
      · rfl
      · split
        · rfl
        · split <;> simp [Q.addBytes]

theorem pushIData_ordered (q : Q) (c : Chunk) : (q.pushIData c).1.ordered = q.ordered := by
  unfold Q.pushIData
  split
  · rfl
  · split
    · exact pushUnorderedIData_ordered q c
    · exact pushOrderedIData_ordered q c

theorem sortTSN_ne_nil (l : List Chunk) (h : l ≠ []) : sortChunksByTSN l ≠ [] := by
  intro hn
  have := length_sortTSN l
  rw [hn] at this
  cases l with
  | nil => exact h rfl
  | cons a b => simp at this

theorem mem_sortSSN (l : List ChunkSet) (s : ChunkSet) : s ∈ sortChunksBySSN l ↔ s ∈ l :=
  (goSort_perm _ l).mem_iff

theorem pushWithError_noEmpty (q : Q) (c : Chunk) (h : NoEmpty q) : NoEmpty (q.pushWithError c).1 := by
  unfold Q.pushWithError
  split
  · intro s hs
    rw [pushIData_ordered] at hs
    exact h s hs
  · split
    · exact h
    · split
      · split
        · exact h
        · dsimp only
          split <;> (intro s hs; exact h s (by simpa [Q.addBytes] using hs))
      · split
        · exact h
        · split
          · exact h
          · rename_i pre cset post hf
            have hf' : q.ordered = pre ++ cset :: post := by
              split at hf
              · exact findFragSet_found hf
              · cases hf
            split
            · exact h
            · split
              · exact h
              · intro s hs
                simp only [Q.addBytes, List.mem_append, List.mem_cons] at hs
                rcases hs with hs | rfl | hs
                · exact h s (by rw [hf']; simp [hs])
                · simp only [ChunkSet.pushNoDuplicate]
                  exact sortTSN_ne_nil _ (by simp)
                · exact h s (by rw [hf']; simp [hs])
          · split
            · exact h
            · intro s hs
              simp only [Q.addBytes] at hs
              rw [mem_sortSSN] at hs
              simp only [List.mem_append, List.mem_singleton] at hs
              rcases hs with hs | rfl
              · exact h s hs
              · simp only [ChunkSet.pushNoDuplicate]
                exact sortTSN_ne_nil _ (by simp)

theorem read_noEmpty (q : Q) (n : Nat) (h : NoEmpty q) : NoEmpty (q.read n).1 := by
  unfold Q.read
  split
  · dsimp only
    repeat' split
    all_goals first | exact h | (intro s hs; exact h s (by simpa [Q.subtractNumBytes] using hs))
  · dsimp only
    split
    · split
      · exact h
      · intro s hs; exact h s (by simpa [Q.subtractNumBytes] using hs)
    · split
      · rename_i cset rest hq
        repeat' split
        all_goals first | exact h | (intro s hs; exact h s (by rw [hq]; simp only [Q.subtractNumBytes] at hs; exact List.mem_cons_of_mem _ hs))
      · exact h

theorem fwdOrderedLoop_mem (lastSSN : BitVec 16) (l : List ChunkSet) (nb : BitVec 64) (s : ChunkSet)
    (hs : s ∈ (fwdOrderedLoop lastSSN l nb).2) : s ∈ l := by
  induction l generalizing nb with
  | nil => simp [fwdOrderedLoop] at hs
  | cons x rest ih =>
    simp only [fwdOrderedLoop] at hs
    split at hs
    · exact List.mem_cons_of_mem _ (ih _ hs)
    · simp only [List.mem_cons] at hs
      rcases hs with rfl | hs
      · exact List.mem_cons_self
      · exact List.mem_cons_of_mem _ (ih _ hs)

theorem step_noEmpty (q : Q) (op : Op) (h : NoEmpty q) : NoEmpty (q.step op) := by
  cases op with
  | push c => exact pushWithError_noEmpty q c h
  | read n => exact read_noEmpty q n h
  | fwdO s =>
    intro x hx
    simp only [Q.step, Q.forwardTSNForOrdered] at hx
    exact h x (fwdOrderedLoop_mem _ _ _ _ hx)
  | fwdU t =>
    intro x hx
    simp only [Q.step, Q.forwardTSNForUnordered] at hx
    split at hx <;> exact h x hx
  | fwdOM m => intro x hx; simp only [Q.step, Q.forwardTSNForOrderedMID] at hx; exact h x hx
  | fwdUM m => intro x hx; simp only [Q.step, Q.forwardTSNForUnorderedMID] at hx; exact h x hx

end Reasm
