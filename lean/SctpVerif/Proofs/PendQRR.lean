import SctpVerif.Proofs.PendQMsg
import Mathlib.Data.Finset.Card
import Mathlib.Data.Finset.Range
/-!
Helper lemmas for C17, part 4: round robin — rounds and no starvation.
-/
namespace PendQ

variable {α : Type} [Num α]

/-- the queue of stream `s` inside the interleaving policies (message policy: the chunks of `s` in
both class queues) -/
def Policy.streamQ (p : Policy α) (s : Nat) : List Chunk :=
  match p with
  | .msg m => (m.unord ++ m.ord).filter (·.sid == s)
  | .rr r => r.sq s
  | .wfq w => (w.sq s).map Prod.fst

/-- stream `s` has queued data -/
def PQ.backlogged (q : PQ α) (s : Nat) : Prop := q.policy.streamQ s ≠ []

/-- `p` holds in every state the run of `ops` from `q` passes through (first and last included) -/
def PQ.AllStates (p : PQ α → Prop) (q : PQ α) : List Op → Prop
  | [] => p q
  | o :: os => p q ∧ PQ.AllStates p (q.step o).1 os

instance (q : PQ α) (s : Nat) : Decidable (q.backlogged s) := by unfold PQ.backlogged; infer_instance

instance PQ.decAllStates (p : PQ α → Prop) [DecidablePred p] : ∀ (ops : List Op) (q : PQ α), Decidable (PQ.AllStates p q ops)
  | [], q => by unfold PQ.AllStates; infer_instance
  | o :: os, q => by
    unfold PQ.AllStates
    have := PQ.decAllStates p os (q.step o).1
    infer_instance

instance (p : PQ α → Prop) [DecidablePred p] (q : PQ α) (ops : List Op) : Decidable (PQ.AllStates p q ops) :=
  PQ.decAllStates p ops q

/-- what one basic operation does to the observations `order`, `sq` of a well-formed RR state -/
def RRStep (r : RR) (o : Op) (r' : RR) (po : List Chunk) : Prop :=
  match o with
  | .push c => po = [] ∧ r'.order = (if r.sq c.sid = [] then r.order ++ [c.sid] else r.order) ∧
      ∀ s, r'.sq s = if s = c.sid then r.sq s ++ [c] else r.sq s
  | .pop => (r.order = [] ∧ po = [] ∧ r'.order = [] ∧ ∀ s, r'.sq s = r.sq s) ∨
      (∃ s rest c tl, r.order = s :: rest ∧ r.sq s = c :: tl ∧ po = [c] ∧
        r'.order = (if tl = [] then rest else rest ++ [s]) ∧ ∀ s', r'.sq s' = if s' = s then tl else r.sq s')
  | _ => po = [] ∧ r'.order = r.order ∧ ∀ s, r'.sq s = r.sq s

theorem rr_step_obs {q : PQ α} {r : RR} (hq : q.policy = .rr r) (h : r.WF) (o : Op) (ho : o.basic = true) :
    ∃ r', (q.step o).1.policy = .rr r' ∧ r'.WF ∧ RRStep r o r' (evPop (o, (q.step o).2)) ∧
      evPush (o, (q.step o).2) = (match o with | .push c => [c] | _ => []) := by
  cases o with
  | rawPop c => simp [Op.basic] at ho
  | popNil => simp [Op.basic] at ho
  | setil b => simp [Op.basic] at ho
  | push c =>
    refine ⟨r.push c, by simp [PQ.step, PQ.push, PQ.policyPush, hq], RR.push_wf h c, ?_, by simp [evPush]⟩
    exact ⟨by simp [evPop, PQ.step], RR.push_order h c, RR.push_sq r c⟩
  | peek =>
    obtain ⟨hwf', hq', ho', _, _, _⟩ := RR.peek_spec h
    refine ⟨(r.peek).1, by simp [PQ.step, PQ.peek, PQ.policyPeek, hq], hwf', ?_, by simp [evPush]⟩
    exact ⟨by simp [evPop, PQ.step], ho', fun s => by simp [RR.sq, hq']⟩
  | pop =>
    obtain ⟨hwf', hq', ho', hres, _, hsame⟩ := RR.peek_spec h
    cases hord : r.order with
    | nil =>
      have hpk : r.peek = (r, .chunk none) := by
        have := hsame hord
        have h2 : (r.peek).2 = .chunk none := by simp [hres, hord]
        exact Prod.ext this h2
      refine ⟨r, by simp [PQ.step, PQ.peek, PQ.policyPeek, hq, hpk], h, ?_, by simp [evPush]⟩
      left
      exact ⟨hord, by simp [PQ.step, PQ.peek, PQ.policyPeek, hq, hpk, evPop], hord, fun _ => rfl⟩
    | cons s rest =>
      obtain ⟨c, tl, hsqs, hpk, hok, hwf'', hord'', hsq'', _, _, _⟩ := RR.serve_spec h hord
      have hstep : q.step .pop = ({ q with policy := .rr ((r.peek).1.pop c).1, nBytes := (if q.nBytes - (c.len : Int) < 0 then 0 else q.nBytes - c.len), nChunks := (q.nChunks - 1) }, .popped (some c) .ok) := by
        simp only [PQ.step, PQ.peek, PQ.policyPeek, hq, hpk, PQ.pop, PQ.policyPop]
        generalize hpp : (r.peek).1.pop c = pp at hok
        obtain ⟨p2, r2⟩ := pp
        simp only at hok; subst hok; rfl
      refine ⟨((r.peek).1.pop c).1, by rw [hstep], hwf'', ?_, by simp [evPush]⟩
      right
      exact ⟨s, rest, c, tl, hord, hsqs, by rw [hstep]; simp [evPop], hord'', hsq''⟩

/-! ### rounds -/

/-- `s` is in the service order, `t` before it and not yet served (`K = 0`) or behind it and served
once (`K = 1`) -/
def SegInv (r : RR) (s t : Nat) (K : Nat) : Prop :=
  ∃ A B, r.order = A ++ s :: B ∧ ((t ∈ A ∧ K = 0) ∨ (t ∈ B ∧ K = 1))

theorem cons_eq_append_cons {a s : Nat} {rest A B : List Nat} (h : a :: rest = A ++ s :: B) :
    (A = [] ∧ a = s ∧ rest = B) ∨ (∃ A', A = a :: A' ∧ rest = A' ++ s :: B) := by
  cases A with
  | nil => left; simpa using h
  | cons x A' => right; simp at h; exact ⟨A', by simp [h.1], h.2⟩

theorem round_aux (s t : Nat) :
    ∀ (ops : List Op) (q : PQ α) (r : RR) (K : Nat), q.policy = .rr r → r.WF → (∀ o ∈ ops, o.basic = true) →
      SegInv r s t K → (∀ c ∈ popsOf (q.run ops).2, c.sid ≠ s) →
      PQ.AllStates (fun q => q.backlogged t) q ops →
      ∃ r', (q.run ops).1.policy = .rr r' ∧ r'.WF ∧
        SegInv r' s t (K + ((popsOf (q.run ops).2).filter (·.sid == t)).length) := by
  intro ops
  induction ops with
  | nil => intro q r K hq h _ hseg _ _; exact ⟨r, hq, h, by simpa [PQ.run, popsOf] using hseg⟩
  | cons o os ih =>
    intro q r K hq h hops hseg hnos hall
    obtain ⟨r', hq', hwf', hstep, _⟩ := rr_step_obs hq h o (hops o (by simp))
    have hrun : (q.run (o :: os)) = (((q.step o).1.run os).1, (o, (q.step o).2) :: ((q.step o).1.run os).2) := by
      simp [PQ.run]
    rw [hrun] at hnos ⊢
    simp only [popsOf_cons] at hnos ⊢
    have hall' : PQ.AllStates (fun q => q.backlogged t) (q.step o).1 os := by
      simp only [PQ.AllStates] at hall; exact hall.2
    have hbl' : (q.step o).1.backlogged t := by
      cases os with
      | nil => simpa [PQ.AllStates] using hall'
      | cons o' os' => simp only [PQ.AllStates] at hall'; exact hall'.1
    have hbl'' : r'.sq t ≠ [] := by
      simpa [PQ.backlogged, hq', Policy.streamQ] using hbl'
    -- the segment invariant after this step
    have hseg' : SegInv r' s t (K + ((evPop (o, (q.step o).2)).filter (·.sid == t)).length) := by
      obtain ⟨A, B, hAB, halt⟩ := hseg
      cases o with
      | rawPop c => simp [Op.basic] at hops
      | popNil => simp [Op.basic] at hops
      | setil b => simp [Op.basic] at hops
      | peek =>
        obtain ⟨hpo, hord, _⟩ := hstep
        rw [hpo]; exact ⟨A, B, by rw [hord, hAB], by simpa using halt⟩
      | push c =>
        obtain ⟨hpo, hord, _⟩ := hstep
        rw [hpo]
        by_cases he : r.sq c.sid = []
        · refine ⟨A, B ++ [c.sid], by rw [hord, hAB]; simp [he], ?_⟩
          rcases halt with ⟨h1, h2⟩ | ⟨h1, h2⟩
          · left; exact ⟨h1, by simpa using h2⟩
          · right; exact ⟨by simp [h1], by simpa using h2⟩
        · exact ⟨A, B, by rw [hord, hAB]; simp [he], by simpa using halt⟩
      | pop =>
        rcases hstep with ⟨hnil, _⟩ | ⟨a, rest, c, tl, hord, hsqa, hpo, hord', hsq'⟩
        · rw [hAB] at hnil; simp at hnil
        · have hca : c.sid = a := RR.sid_of_mem_sq h (by rw [hsqa]; simp)
          rw [hpo]
          rw [hord] at hAB
          rcases cons_eq_append_cons hAB with ⟨_, has, _⟩ | ⟨A', hA, hrest⟩
          · -- the head is `s`: a service of `s`, excluded
            exact absurd (hca.trans has) (hnos c (by rw [hpo]; simp))
          · have hnd : (a :: rest).Nodup := hord ▸ h.nodupOrder
            have hta : t = a → t ∉ B := by
              intro hta htB
              rw [hrest] at hnd
              have := (List.nodup_cons.mp hnd).1
              exact this (by rw [← hta]; simp [htB])
            by_cases hta' : t = a
            · -- the stream served is `t`
              have hK : K = 0 := by
                rcases halt with ⟨_, h2⟩ | ⟨h1, _⟩
                · exact h2
                · exact absurd h1 (hta hta')
              have htl : tl ≠ [] := by
                intro htl
                have := hsq' t
                rw [hta', if_pos rfl, htl] at this
                exact hbl'' (hta' ▸ this)
              refine ⟨A', B ++ [a], by rw [hord', hrest]; simp [htl], ?_⟩
              right
              refine ⟨by simp [hta'], ?_⟩
              simp [hK, hca, hta']
            · have hct : ¬ c.sid = t := by rw [hca]; exact fun h => hta' h.symm
              have halt' : (t ∈ A' ∧ K = 0) ∨ (t ∈ B ∧ K = 1) := by
                rcases halt with ⟨h1, h2⟩ | h2
                · left; rw [hA] at h1; simp [hta'] at h1; exact ⟨h1, h2⟩
                · right; exact h2
              by_cases htl : tl = []
              · refine ⟨A', B, by rw [hord', hrest]; simp [htl], ?_⟩
                simpa [hct] using halt'
              · refine ⟨A', B ++ [a], by rw [hord', hrest]; simp [htl], ?_⟩
                rcases halt' with ⟨h1, h2⟩ | ⟨h1, h2⟩
                · left; exact ⟨h1, by simpa [hct] using h2⟩
                · right; exact ⟨by simp [h1], by simpa [hct] using h2⟩
    obtain ⟨r'', hq'', hwf'', hseg''⟩ := ih (q.step o).1 r' _ hq' hwf' (fun o' ho' => hops o' (by simp [ho'])) hseg'
      (fun c hc => hnos c (by simp [hc])) hall'
    refine ⟨r'', hq'', hwf'', ?_⟩
    simpa [List.filter_append, Nat.add_assoc] using hseg''

/-! ### no starvation -/

theorem length_le_of_nodup_lt {l : List Nat} {N : Nat} (hnd : l.Nodup) (hlt : ∀ x ∈ l, x < N) : l.length ≤ N := by
  have h1 : l.toFinset.card = l.length := List.toFinset_card_of_nodup hnd
  have h2 : l.toFinset ⊆ Finset.range N := by
    intro x hx; simp only [List.mem_toFinset] at hx; simpa using hlt x hx
  have := Finset.card_le_card h2
  simp only [Finset.card_range] at this
  omega

/-- chunk `c` sits at depth `|l1|` of stream `s`, which is at position `|A|` of the service order -/
def Waiting (r : RR) (c : Chunk) (s : Nat) (d p : Nat) : Prop :=
  ∃ l1 l2 A B, r.sq s = l1 ++ c :: l2 ∧ r.order = A ++ s :: B ∧ l1.length = d ∧ A.length = p

theorem starv_aux (N : Nat) (c : Chunk) (s : Nat) :
    ∀ (ops : List Op) (q : PQ α) (r : RR) (d p : Nat), q.policy = .rr r → r.WF → (∀ o ∈ ops, o.basic = true) →
      (∀ x ∈ r.order, x < N) → (∀ c' ∈ pushesOf (q.run ops).2, c'.sid < N) → Waiting r c s d p →
      c ∈ popsOf (q.run ops).2 ∨ (popsOf (q.run ops).2).length ≤ d * N + p := by
  intro ops
  induction ops with
  | nil => intro q r d p _ _ _ _ _ _; right; simp [PQ.run, popsOf]
  | cons o os ih =>
    intro q r d p hq h hops hN hpush hw
    obtain ⟨r', hq', hwf', hstep, hpu⟩ := rr_step_obs hq h o (hops o (by simp))
    have hrun : (q.run (o :: os)) = (((q.step o).1.run os).1, (o, (q.step o).2) :: ((q.step o).1.run os).2) := by
      simp [PQ.run]
    rw [hrun] at hpush ⊢
    simp only [popsOf_cons, pushesOf_cons] at hpush ⊢
    have hpush' : ∀ c' ∈ pushesOf ((q.step o).1.run os).2, c'.sid < N := fun c' hc' => hpush c' (by simp [hc'])
    have hops' : ∀ o' ∈ os, o'.basic = true := fun o' ho' => hops o' (by simp [ho'])
    obtain ⟨l1, l2, A, B, hsq, hord, hd, hp⟩ := hw
    have hlen : r.order.length ≤ N := length_le_of_nodup_lt h.nodupOrder hN
    cases o with
    | rawPop c => simp [Op.basic] at hops
    | popNil => simp [Op.basic] at hops
    | setil b => simp [Op.basic] at hops
    | peek =>
      obtain ⟨hpo, hord', hsq'⟩ := hstep
      have := ih (q.step .peek).1 r' d p hq' hwf' hops' (by rw [hord']; exact hN) hpush'
        ⟨l1, l2, A, B, by rw [hsq' s, hsq], by rw [hord', hord], hd, hp⟩
      simpa [hpo] using this
    | push c' =>
      obtain ⟨hpo, hord', hsq'⟩ := hstep
      have hc'N : c'.sid < N := hpush c' (by simp [hpu])
      have hN' : ∀ x ∈ r'.order, x < N := by
        rw [hord']; intro x hx
        split at hx
        · simp at hx; rcases hx with hx | hx
          · exact hN x hx
          · rw [hx]; exact hc'N
        · exact hN x hx
      have hw' : Waiting r' c s d p := by
        refine ⟨l1, if s = c'.sid then l2 ++ [c'] else l2, A,
          if r.sq c'.sid = [] then B ++ [c'.sid] else B, ?_, ?_, hd, hp⟩
        · rw [hsq' s, hsq]; split <;> simp
        · rw [hord', hord]; split <;> simp
      have := ih (q.step (.push c')).1 r' d p hq' hwf' hops' hN' hpush' hw'
      simpa [hpo] using this
    | pop =>
      rcases hstep with ⟨hnil, _⟩ | ⟨a, rest, c', tl, horda, hsqa, hpo, hord', hsq'⟩
      · rw [hord] at hnil; simp at hnil
      · rw [hpo]
        rw [horda] at hord
        have hnd : (a :: rest).Nodup := horda ▸ h.nodupOrder
        have hN' : ∀ x ∈ r'.order, x < N := by
          rw [hord']; intro x hx
          have : x ∈ a :: rest := by
            split at hx
            · simp [hx]
            · simp at hx; rcases hx with hx | hx <;> simp [hx]
          exact hN x (horda ▸ this)
        rcases cons_eq_append_cons hord with ⟨hA, has, hrest⟩ | ⟨A', hA, hrest⟩
        · -- the stream of `c` is served
          subst has
          rw [hsq] at hsqa
          cases l1 with
          | nil =>
            simp at hsqa
            left; simp [hsqa.1]
          | cons x l1' =>
            simp at hsqa
            obtain ⟨rfl, htl⟩ := hsqa
            have htl' : tl ≠ [] := by rw [← htl]; simp
            have hw' : Waiting r' c a l1'.length B.length :=
              ⟨l1', l2, B, [], by rw [hsq' a]; simp [htl], by rw [hord', hrest]; simp [htl'], rfl, rfl⟩
            rcases ih (q.step .pop).1 r' _ _ hq' hwf' hops' hN' hpush' hw' with hin | hle
            · left; simp [hin]
            · right
              have hB : B.length + 1 ≤ N := by rw [horda, hrest] at hlen; simpa using hlen
              simp only [List.length_cons] at hd
              simp only [List.length_append, List.length_singleton]
              subst hd; subst hp; subst hA
              simp only [List.length_nil] at *
              have : (l1'.length + 1) * N = l1'.length * N + N := by rw [Nat.add_mul, Nat.one_mul]
              omega
        · -- another stream is served: `s` moves one place forward
          have has : a ≠ s := by
            intro has
            rw [hrest] at hnd
            exact (List.nodup_cons.mp hnd).1 (by rw [has]; simp)
          have hw' : Waiting r' c s d (p - 1) := by
            refine ⟨l1, l2, A', if tl = [] then B else B ++ [a], ?_, ?_, hd, ?_⟩
            · rw [hsq' s, if_neg (fun h => has h.symm), hsq]
            · rw [hord', hrest]; split <;> simp
            · rw [hA] at hp; simp at hp; omega
          have hp1 : 1 ≤ p := by rw [hA] at hp; simp at hp; omega
          rcases ih (q.step .pop).1 r' _ _ hq' hwf' hops' hN' hpush' hw' with hin | hle
          · left; simp [hin]
          · right; simp only [List.length_append, List.length_singleton]; omega


/-! ### from a fresh round-robin queue -/

theorem PQ.AllStates.imp {p p' : PQ α → Prop} (hpp : ∀ q, p q → p' q) :
    ∀ (ops : List Op) (q : PQ α), PQ.AllStates p q ops → PQ.AllStates p' q ops := by
  intro ops
  induction ops with
  | nil => intro q h; exact hpp q h
  | cons o os ih => intro q h; exact ⟨hpp q h.1, ih _ h.2⟩

theorem PQ.AllStates.head {p : PQ α → Prop} {q : PQ α} {ops : List Op} (h : PQ.AllStates p q ops) : p q := by
  cases ops with
  | nil => exact h
  | cons o os => exact h.1

theorem PQ.AllStates.last {p : PQ α → Prop} :
    ∀ (ops : List Op) (q : PQ α), PQ.AllStates p q ops → p (q.run ops).1 := by
  intro ops
  induction ops with
  | nil => intro q h; exact h
  | cons o os ih => intro q h; simpa [PQ.run] using ih _ h.2

/-- the queue after `newPendingQueue(rr)` and `setInterleaving(true)` -/
def rrFresh : PQ α := ((PQ.new .rr : PQ α).setInterleaving true).1

theorem rrFresh_policy : (rrFresh : PQ α).policy = .rr {} := by
  simp [rrFresh, PQ.new, PQ.setInterleaving]

/-- basic operations keep a round-robin queue round-robin, well-formed, and its service order within
the stream ids that were pushed -/
theorem rr_run_inv (N : Nat) :
    ∀ (ops : List Op) (q : PQ α) (r : RR), q.policy = .rr r → r.WF → (∀ o ∈ ops, o.basic = true) →
      (∀ x ∈ r.order, x < N) → (∀ c' ∈ pushesOf (q.run ops).2, c'.sid < N) →
      ∃ r', (q.run ops).1.policy = .rr r' ∧ r'.WF ∧ ∀ x ∈ r'.order, x < N := by
  intro ops
  induction ops with
  | nil => intro q r hq h _ hN _; exact ⟨r, hq, h, hN⟩
  | cons o os ih =>
    intro q r hq h hops hN hpush
    obtain ⟨r', hq', hwf', hstep, hpu⟩ := rr_step_obs hq h o (hops o (by simp))
    have hrun : (q.run (o :: os)) = (((q.step o).1.run os).1, (o, (q.step o).2) :: ((q.step o).1.run os).2) := by
      simp [PQ.run]
    rw [hrun] at hpush ⊢
    simp only [pushesOf_cons] at hpush
    have hN' : ∀ x ∈ r'.order, x < N := by
      cases o with
      | rawPop c => simp [Op.basic] at hops
      | popNil => simp [Op.basic] at hops
      | setil b => simp [Op.basic] at hops
      | peek => obtain ⟨_, hord', _⟩ := hstep; rw [hord']; exact hN
      | push c' =>
        obtain ⟨_, hord', _⟩ := hstep
        have hc'N : c'.sid < N := hpush c' (by simp [hpu])
        rw [hord']; intro x hx
        split at hx
        · simp at hx; rcases hx with hx | hx
          · exact hN x hx
          · rw [hx]; exact hc'N
        · exact hN x hx
      | pop =>
        rcases hstep with ⟨_, _, hord', _⟩ | ⟨a, rest, c', tl, horda, _, _, hord', _⟩
        · rw [hord']; simp
        · rw [hord']; intro x hx
          have : x ∈ a :: rest := by
            split at hx
            · simp [hx]
            · simp at hx; rcases hx with hx | hx <;> simp [hx]
          exact hN x (horda ▸ this)
    exact ih _ r' hq' hwf' (fun o' ho' => hops o' (by simp [ho'])) hN' (fun c' hc' => hpush c' (by simp [hc']))

theorem rr_reach (pre : List Op) (hpre : ∀ o ∈ pre, o.basic = true) :
    ∃ r, ((rrFresh : PQ α).run pre).1.policy = .rr r ∧ r.WF := by
  -- a bound on the stream ids is irrelevant here: take one above every id pushed
  have hb : ∃ N, ∀ c' ∈ pushesOf ((rrFresh : PQ α).run pre).2, c'.sid < N := by
    generalize pushesOf ((rrFresh : PQ α).run pre).2 = l
    induction l with
    | nil => exact ⟨0, by simp⟩
    | cons a l ih =>
      obtain ⟨N, hN⟩ := ih
      refine ⟨max N (a.sid + 1), ?_⟩
      intro c' hc'
      simp at hc'
      rcases hc' with rfl | hc'
      · omega
      · have := hN c' hc'; omega
  obtain ⟨N, hN⟩ := hb
  obtain ⟨r, hr, hwf, _⟩ := rr_run_inv N pre (rrFresh : PQ α) {} rrFresh_policy RR.wf_empty hpre (by simp) hN
  exact ⟨r, hr, hwf⟩

theorem evPop_eq_of_popped {o : Op} {r : Res} {c : Chunk} (h : r = .popped (some c) .ok) : evPop (o, r) = [c] := by
  subst h; cases o <;> rfl

/-- round-robin rounds, from any well-formed round-robin state -/
theorem rr_round {q1 : PQ α} {r1 : RR} (hq1 : q1.policy = .rr r1) (hwf1 : r1.WF)
    (mid : List Op) (hmid : ∀ o ∈ mid, o.basic = true)
    (s t : Nat) (hst : t ≠ s) (c1 c2 : Chunk)
    (h1 : (q1.step .pop).2 = .popped (some c1) .ok) (hc1 : c1.sid = s)
    (h2 : (((q1.step .pop).1.run mid).1.step .pop).2 = .popped (some c2) .ok) (hc2 : c2.sid = s)
    (hnos : ∀ c ∈ popsOf ((q1.step .pop).1.run mid).2, c.sid ≠ s)
    (hall : PQ.AllStates (fun q => q.backlogged s ∧ q.backlogged t) (q1.step .pop).1 mid) :
    ((popsOf ((q1.step .pop).1.run mid).2).filter (·.sid == t)).length = 1 := by
  -- first service of `s`
  obtain ⟨r1', hq1', hwf1', hstep1, _⟩ := rr_step_obs hq1 hwf1 .pop rfl
  rw [evPop_eq_of_popped h1] at hstep1
  have hbl := hall.head
  have hbls : r1'.sq s ≠ [] := by simpa [PQ.backlogged, hq1', Policy.streamQ] using hbl.1
  have hblt : r1'.sq t ≠ [] := by simpa [PQ.backlogged, hq1', Policy.streamQ] using hbl.2
  have hseg : SegInv r1' s t 0 := by
    rcases hstep1 with ⟨_, hpo, _⟩ | ⟨a, rest, c, tl, hord, hsqa, hpo, hord', hsq'⟩
    · simp at hpo
    · simp at hpo; subst hpo
      have has : a = s := by rw [← hc1]; exact (RR.sid_of_mem_sq hwf1 (by rw [hsqa]; simp)).symm
      subst has
      have htl : tl ≠ [] := by
        intro htl; have := hsq' a; rw [if_pos rfl, htl] at this; exact hbls this
      have htm : t ∈ r1'.order := (RR.sq_ne_nil_iff hwf1' t).mp hblt
      rw [hord'] at htm; simp [htl, hst] at htm
      exact ⟨rest, [], by rw [hord']; simp [htl], Or.inl ⟨htm, rfl⟩⟩
  obtain ⟨r2, hq2, hwf2, hseg2⟩ := round_aux s t mid _ r1' 0 hq1' hwf1' hmid hseg hnos
    (PQ.AllStates.imp (fun q h => h.2) mid _ hall)
  -- second service of `s`
  obtain ⟨r2', _, _, hstep2, _⟩ := rr_step_obs hq2 hwf2 .pop rfl
  rw [evPop_eq_of_popped h2] at hstep2
  rcases hstep2 with ⟨_, hpo, _⟩ | ⟨a, rest, c, tl, hord, hsqa, hpo, _, _⟩
  · simp at hpo
  · simp at hpo; subst hpo
    have has : a = s := by rw [← hc2]; exact (RR.sid_of_mem_sq hwf2 (by rw [hsqa]; simp)).symm
    subst has
    obtain ⟨A, B, hAB, halt⟩ := hseg2
    rw [hord] at hAB
    have hnd : (a :: rest).Nodup := hord ▸ hwf2.nodupOrder
    rcases cons_eq_append_cons hAB with ⟨hA, _, _⟩ | ⟨A', _, hrest⟩
    · subst hA
      rcases halt with ⟨hm, _⟩ | ⟨_, hK⟩
      · simp at hm
      · simpa using hK
    · rw [hrest] at hnd
      exact absurd (by simp) (List.nodup_cons.mp hnd).1

/-- no starvation under round robin, from any reachable state -/
theorem rr_no_starvation (N : Nat) (pre ops : List Op) (hpre : ∀ o ∈ pre, o.basic = true)
    (hops : ∀ o ∈ ops, o.basic = true)
    (hNpre : ∀ c' ∈ pushesOf ((rrFresh : PQ α).run pre).2, c'.sid < N)
    (hNops : ∀ c' ∈ pushesOf (((rrFresh : PQ α).run pre).1.run ops).2, c'.sid < N)
    (c : Chunk) (s d : Nat) (l1 l2 : List Chunk)
    (hq : ((rrFresh : PQ α).run pre).1.policy.streamQ s = l1 ++ c :: l2) (hd : l1.length = d)
    (hmany : (d + 1) * N ≤ (popsOf (((rrFresh : PQ α).run pre).1.run ops).2).length) :
    c ∈ popsOf (((rrFresh : PQ α).run pre).1.run ops).2 := by
  obtain ⟨r1, hq1, hwf1, hN1⟩ := rr_run_inv N pre (rrFresh : PQ α) {} rrFresh_policy RR.wf_empty hpre (by simp) hNpre
  have hsq : r1.sq s = l1 ++ c :: l2 := by simpa [hq1, Policy.streamQ] using hq
  have hsm : s ∈ r1.order := (RR.sq_ne_nil_iff hwf1 s).mp (by rw [hsq]; simp)
  obtain ⟨A, B, hAB⟩ := List.append_of_mem hsm
  have hlen : r1.order.length ≤ N := length_le_of_nodup_lt hwf1.nodupOrder hN1
  have hA : A.length < N := by rw [hAB] at hlen; simp at hlen; omega
  rcases starv_aux N c s ops _ r1 d A.length hq1 hwf1 hops hN1 hNops ⟨l1, l2, A, B, hsq, hAB, hd, rfl⟩ with h | h
  · exact h
  · have : (d + 1) * N = d * N + N := by rw [Nat.add_mul, Nat.one_mul]
    omega

end PendQ
