import SctpVerif.Proofs.ReasmUnordMid
/-!
Helper lemmas for C06 (unordered reassembly), part 7: unordered I-DATA — the push step, the read step, runs.
-/
set_option linter.unusedVariables false
set_option linter.unusedSimpArgs false
namespace Reasm
open Gen

theorem pairwise_ne_unique {A : Tab} (hk : A.Pairwise (fun a b => a.1 ≠ b.1)) {k : Nat} {js js' : List Nat}
    (h1 : (k, js) ∈ A) (h2 : (k, js') ∈ A) : js = js' := by
  induction A with
  | nil => simp at h1
  | cons e rest ih =>
    rw [List.pairwise_cons] at hk
    rcases List.mem_cons.1 h1 with e1 | h1 <;> rcases List.mem_cons.1 h2 with e2 | h2
    · rw [← e1] at e2; simp only [Prod.mk.injEq] at e2; exact e2.2.symm
    · exact absurd rfl (by have := hk.1 _ h2; rw [← e1] at this; exact this)
    · exact absurd rfl (by have := hk.1 _ h1; rw [← e2] at this; exact this)
    · exact ih hk.2 h1 h2

theorem goUI_il (c : Chunk) (q : Q) (s : ChunkSetMID) : (goUI c q s).1.useInterleaving = q.useInterleaving := by
  unfold goUI
  dsimp only
  split
  · rfl
  · split <;> rfl

/-- pushing a fresh unordered I-DATA fragment of the universe. -/
theorem UMInv.push {S τ q D W A P G} (h : UMInv S τ q D W A P G) (hS : S.UMWF) {k i : Nat}
    (hk : k < S.msgs.length) (hi : i < S.nf k) (hP : (k, i) ∉ P) :
    FrameUM q (q.pushWithError (S.uidataFrag τ k i)).1 ∧
    (q.pushWithError (S.uidataFrag τ k i)).1.useInterleaving = true ∧
    ∃ W' A', UMInv S τ (q.pushWithError (S.uidataFrag τ k i)).1 D W' A' ((k, i) :: P)
      ((if (q.pushWithError (S.uidataFrag τ k i)).2.2 = .none then [(k, i)] else []) ++ G) := by
  have hspan := hS.span
  obtain ⟨q1, hq1⟩ : ∃ q1 : Q, q1 = ({ q with useInterleaving := true } : Q) := ⟨_, rfl⟩
  have e : q.pushWithError (S.uidataFrag τ k i) = q1.pushUnorderedIData (S.uidataFrag τ k i) := by
    rw [hq1]; simp [Q.pushWithError, Q.pushIData, Sender.uidataFrag, Sender.idataFrag, h.si]
  have hq1il : q1.useInterleaving = true := by rw [hq1]
  have hq1map : q1.unorderedMIDMap = A.map (S.usetMID τ) := by rw [hq1]; exact h.map
  have hq1um : q1.unorderedMID = W.map (S.usetFull τ) := by rw [hq1]; exact h.um
  have hq1si : q1.si = S.si := by rw [hq1]; exact h.si
  have h1 : UMInv S τ q1 D W A P G :=
    ⟨hq1si, (fun hc => by rw [hq1il] at hc; cases hc), hq1map, hq1um, h.keys, h.awf, h.apush, h.nodup, h.dwlen,
      h.dwpush, h.disj, h.track⟩
  have hmono : UMInv S τ q1 D W A ((k, i) :: P) G :=
    { h1 with apush := fun e he j hj => List.mem_cons_of_mem _ (h1.apush e he j hj),
              dwpush := fun x hx j hj => List.mem_cons_of_mem _ (h1.dwpush x hx j hj) }
  have hfr1 : FrameUM q q1 := by rw [hq1]; constructor <;> rfl
  have hcmid : (S.uidataFrag τ k i).mid = BitVec.ofNat 32 k := rfl
  have hq : q1.hasQueuedUnorderedMID (BitVec.ofNat 32 k) = false := by
    simp only [Q.hasQueuedUnorderedMID, hq1um, List.any_map, List.any_eq_false, Function.comp]
    intro k' hk' heq
    have hk'len := h.dwlen k' (by simp [hk'])
    simp only [Sender.usetFull, Sender.usetMID, beq_iff_eq] at heq
    have := (ofNat32_eq_iff _ _ (by omega) (by omega)).1 heq
    subst this
    exact hP (h.dwpush k' (by simp [hk']) i hi)
  rw [e, pushUnorderedIData_eq, hcmid, hq]
  simp only [Bool.false_eq_true, ↓reduceIte]
  rcases findKey_conc (S.usetMID τ) (fun _ => rfl) k (by omega) A (fun e he => by have := (h.awf e he).1; omega) with
    ⟨hfresh, hnone⟩ | ⟨pre, js, post, hA, hpre, hsome, _, _⟩
  · rw [← hq1map] at hnone
    rw [hnone]
    simp only
    split
    · -- MID limit: refused with an error
      refine ⟨hfr1, hq1il, W, A, ?_⟩
      simp only [reduceCtorEq, ↓reduceIte, List.nil_append]
      exact hmono
    · have hgo := h1.afterGo hS hk hi hP A [] [] (newChunkSetMID (BitVec.ofNat 32 k) (S.uidataFrag τ k i).ppi)
        { q1 with unorderedMIDMap := q1.unorderedMIDMap ++ [newChunkSetMID (BitVec.ofNat 32 k) (S.uidataFrag τ k i).ppi] }
        (by simp) (by simpa using h.keys) (by simpa using hfresh) (by intro e he; left; simpa using he)
        List.Pairwise.nil (by simp) (by have := (S.nf_pos hS.wf hk).1; intro hc; have := congrArg List.length hc; simp at this; omega)
        (by simp) rfl hq1il rfl (by simp [hq1map]) rfl rfl
        (by intro h0; simp [Sender.uidataFrag, Sender.idataFrag, h0, newChunkSetMID])
      obtain ⟨herr, f1, f2, f3, f4, f5, f6, f7, f8, W', A', hinv⟩ := hgo
      refine ⟨⟨f1.trans hfr1.si, f2.trans hfr1.ordered, f3.trans hfr1.unordered, f4.trans hfr1.unorderedChunks, f5.trans hfr1.nextSSN, f6.trans hfr1.nextMID, f7.trans hfr1.orderedMID, f8.trans hfr1.maxEntries⟩, ?_, W', A', ?_⟩
      · rw [goUI_il]; exact hq1il
      · rw [herr]; simpa using hinv
  · rw [← hq1map] at hsome
    rw [hsome]
    simp only
    have hin : (k, js) ∈ A := by rw [hA]; simp
    have hwf := h.awf _ hin
    have hkeys := h.keys
    rw [hA, List.pairwise_append, List.pairwise_cons] at hkeys
    have hgo := h1.afterGo hS hk hi hP pre post js (S.usetMID τ (k, js)) q1
      (by intro e he; rw [hA]; rcases List.mem_append.1 he with h | h <;> simp [h])
      (by
        rw [List.pairwise_append]
        exact ⟨hkeys.1, hkeys.2.1.2, fun a ha b hb => hkeys.2.2 a ha b (List.mem_cons_of_mem _ hb)⟩)
      (by
        intro e he
        rcases List.mem_append.1 he with h | h
        · exact hpre e h
        · exact (hkeys.2.1.1 e h).symm)
      (by
        intro e he; rw [hA] at he
        simp only [List.mem_append, List.mem_cons] at he ⊢
        rcases he with h | h | h
        · exact .inl (.inl h)
        · exact .inr h
        · exact .inl (.inr h))
      hwf.2.1 hwf.2.2.1 hwf.2.2.2 (fun j hj => h.apush _ hin j hj) rfl hq1il rfl
      (by rw [hq1map, hA]; simp) rfl rfl (fun _ => rfl)
    obtain ⟨herr, f1, f2, f3, f4, f5, f6, f7, f8, W', A', hinv⟩ := hgo
    refine ⟨⟨f1.trans hfr1.si, f2.trans hfr1.ordered, f3.trans hfr1.unordered, f4.trans hfr1.unorderedChunks, f5.trans hfr1.nextSSN, f6.trans hfr1.nextMID, f7.trans hfr1.orderedMID, f8.trans hfr1.maxEntries⟩, ?_, W', A', ?_⟩
    · rw [goUI_il]; exact hq1il
    · rw [herr]; simpa using hinv

/-- `read` in interleaving mode with a complete unordered message waiting: serves the first one. -/
theorem UMInv.read {S τ q D W A P G} (h : UMInv S τ q D W A P G) (hil : q.useInterleaving = true)
    {k : Nat} {W' : List Nat} (hW : W = k :: W') (hk : 1 ≤ S.nf k) (n : Nat) :
    ((q.read n).2.err = .shortBuffer ∧ (q.read n).1 = q) ∨
    ((q.read n).2.err = .ok ∧ (q.read n).2.ppi = (S.msg k).ppi ∧ (q.read n).2.data = (S.msg k).payload ∧
      FrameUM q (q.read n).1 ∧ (q.read n).1.useInterleaving = true ∧
      UMInv S τ (q.read n).1 (D ++ [k]) W' A P G) := by
  subst hW
  unfold Q.read
  simp only [hil, ↓reduceIte, h.um, List.map_cons]
  cases herr : (copyLoop (n : Int) (S.usetFull τ k).chunks 0 false []).2.1 with
  | true => left; simp [herr]
  | false =>
    right
    have hdata := copyLoop_ok _ _ _ _ herr
    simp only [herr, Bool.false_eq_true, ↓reduceIte]
    have hmemDW : ∀ x, x ∈ (D ++ [k]) ++ W' ↔ x ∈ D ++ k :: W' := by intro x; simp
    refine ⟨trivial, ?_, ?_, by constructor <;> simp [Q.subtractNumBytes], by simp [Q.subtractNumBytes], ?_⟩
    · have : 0 ∈ List.range (S.nf k) := List.mem_range.2 (by omega)
      simp [Sender.usetFull, Sender.usetMID, this]
    · rw [hdata]; simp only [Sender.usetFull, Sender.usetMID, List.nil_append]; exact uidataFrags_payload S τ k
    · exact
        { si := by simp [Q.subtractNumBytes, h.si], il := by simp [Q.subtractNumBytes],
          map := by simp [Q.subtractNumBytes, h.map], um := by simp [Q.subtractNumBytes],
          keys := h.keys, awf := h.awf, apush := h.apush,
          nodup := by have := h.nodup; simpa [List.append_assoc] using this,
          dwlen := fun x hx => h.dwlen x ((hmemDW x).1 hx),
          dwpush := fun x hx => h.dwpush x ((hmemDW x).1 hx),
          disj := fun p hp hin => h.disj p hp ((hmemDW _).1 hin),
          track := by
            intro p hp
            rcases h.track p hp with hin | hin
            · exact .inl ((hmemDW _).2 hin)
            · exact .inr hin }

theorem read_nothing_il (q : Q) (h : q.useInterleaving = true) (hu : q.unorderedMID = []) (ho : q.orderedMID = [])
    (n : Nat) : q.read n = (q, .tryAgain) := by
  unfold Q.read
  simp [h, hu, ho]

/-- the containers of the other classes stay empty along a pure unordered I-DATA run. -/
def OthersEmpty (q : Q) : Prop := q.ordered = [] ∧ q.unordered = [] ∧ q.orderedMID = []

theorem UMInv.run {S : Sender} {τ} (hS : S.UMWF) (ops : List HOp) :
    ∀ {q D W A P G}, UMInv S τ q D W A P G → OthersEmpty q → S.AdmissibleU P ops →
      ∃ D' W' A' P' G', UMInv S τ (finalQ (S.uidataFrag τ) q ops) (D ++ D') W' A' P' G' ∧
        S.deliveries (S.uidataFrag τ) q ops = D'.map S.out ∧
        (∀ p, p ∈ G' ↔ p ∈ G ∨ p ∈ accepted (S.uidataFrag τ) q ops) ∧
        (∀ p, p ∈ P' → p ∈ P ∨ HOp.push p.1 p.2 ∈ ops) := by
  induction ops with
  | nil =>
    intro q D W A P G h _ _
    exact ⟨[], W, A, P, G, by simpa [finalQ] using h, by simp [Sender.deliveries], by simp [accepted],
      fun p hp => .inl hp⟩
  | cons op ops ih =>
    intro q D W A P G h ho hadm
    cases op with
    | push k i =>
      simp only [Sender.AdmissibleU] at hadm
      obtain ⟨hk, hi, hP, hrest⟩ := hadm
      obtain ⟨hfr, _, W1, A1, h1⟩ := h.push hS hk hi hP
      obtain ⟨D', W', A', P', G', h', hdel, hG, hPP⟩ := ih h1
        ⟨by rw [hfr.ordered, ho.1], by rw [hfr.unordered, ho.2.1], by rw [hfr.orderedMID, ho.2.2]⟩ hrest
      refine ⟨D', W', A', P', G', by simpa [finalQ] using h', by simpa [Sender.deliveries] using hdel, ?_, ?_⟩
      · intro p
        rw [hG p]
        simp only [accepted, List.mem_append]
        constructor
        · rintro ((h | h) | h)
          · exact .inr (.inl h)
          · exact .inl h
          · exact .inr (.inr h)
        · rintro (h | h | h)
          · exact .inl (.inr h)
          · exact .inl (.inl h)
          · exact .inr h
      · intro p hp
        rcases hPP p hp with h | h
        · rcases List.mem_cons.1 h with rfl | h
          · exact .inr (List.mem_cons_self ..)
          · exact .inl h
        · exact .inr (List.mem_cons_of_mem _ h)
    | read n =>
      simp only [Sender.AdmissibleU] at hadm
      have hnothing : q.read n = (q, .tryAgain) →
          ∃ D' W' A' P' G', UMInv S τ (finalQ (S.uidataFrag τ) q (.read n :: ops)) (D ++ D') W' A' P' G' ∧
            S.deliveries (S.uidataFrag τ) q (.read n :: ops) = D'.map S.out ∧
            (∀ p, p ∈ G' ↔ p ∈ G ∨ p ∈ accepted (S.uidataFrag τ) q (.read n :: ops)) ∧
            (∀ p, p ∈ P' → p ∈ P ∨ HOp.push p.1 p.2 ∈ HOp.read n :: ops) := by
        intro hr
        obtain ⟨D', W', A', P', G', h', hdel, hG, hPP⟩ := ih h ho hadm
        refine ⟨D', W', A', P', G', by simpa [finalQ, hr] using h', ?_, by simpa [accepted, hr] using hG, ?_⟩
        · simp only [Sender.deliveries, hr, ReadRes.tryAgain, reduceCtorEq, ↓reduceIte, List.nil_append]
          exact hdel
        · intro p hp
          rcases hPP p hp with h | h
          · exact .inl h
          · exact .inr (List.mem_cons_of_mem _ h)
      cases hil : q.useInterleaving with
      | false => exact hnothing (read_nothing q hil ho.2.1 ho.1 n)
      | true =>
        cases hW : W with
        | nil => exact hnothing (read_nothing_il q hil (by rw [h.um, hW]; rfl) ho.2.2 n)
        | cons k W0 =>
          have hklen := h.dwlen k (by simp [hW])
          rcases h.read hil hW (S.nf_pos hS.wf hklen).1 n with ⟨herr, hq⟩ | ⟨hok, hppi, hdata, hfr, _, h1⟩
          · obtain ⟨D', W', A', P', G', h', hdel, hG, hPP⟩ := ih h ho hadm
            refine ⟨D', W', A', P', G', by simpa [finalQ, hq] using h', ?_, by simpa [accepted, hq] using hG, ?_⟩
            · simp only [Sender.deliveries, herr, reduceCtorEq, ↓reduceIte, List.nil_append, hq]
              exact hdel
            · intro p hp
              rcases hPP p hp with h | h
              · exact .inl h
              · exact .inr (List.mem_cons_of_mem _ h)
          · obtain ⟨D', W', A', P', G', h', hdel, hG, hPP⟩ := ih h1
              ⟨by rw [hfr.ordered, ho.1], by rw [hfr.unordered, ho.2.1], by rw [hfr.orderedMID, ho.2.2]⟩ hadm
            refine ⟨k :: D', W', A', P', G', by simpa [finalQ] using h', ?_, by simpa [accepted] using hG, ?_⟩
            · simp only [Sender.deliveries, hok, ↓reduceIte, List.singleton_append, List.map_cons, hdel, hppi, hdata]
              rfl
            · intro p hp
              rcases hPP p hp with h | h
              · exact .inl h
              · exact .inr (List.mem_cons_of_mem _ h)

end Reasm
