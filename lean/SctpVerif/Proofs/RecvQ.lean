import SctpVerif.Proofs.RecvQ.Basic
import SctpVerif.Proofs.RecvQ.Pop
