import SctpVerif.Proofs.RecvQ.Basic
import SctpVerif.Proofs.RecvQ.Pop
import SctpVerif.Proofs.RecvQ.Advance
import SctpVerif.Proofs.RecvQ.History
import SctpVerif.Proofs.RecvQ.Gaps
import SctpVerif.Proofs.RecvQ.Mono
import SctpVerif.Proofs.RecvQ.Shift
/-!
Lemmas about the L0 model of `receivePayloadQueue` used by `Props/C05.lean`, split by topic:
`Basic` (bit arrays, ring index, sizing, invariant, push), `Pop`, `Advance`, `History`
(ghost-instrumented runs), `Gaps` (gap blocks = maximal runs), `Mono` (movement of the
cumulative point, pop loop), `Shift` (shift invariance).
-/
