import SctpVerif.Proofs.PendQWfq
import Mathlib.Tactic.Ring
/-!
Helper lemmas for C17, part 6: WFQ fairness when no push slips in between a `peek` and the `pop` of
the chunk it selected (what one `popPendingDataChunksToSend` pass does).
-/
namespace PendQ
namespace WFQ

/-- invariants that need atomic peek-pop -/
structure AInv (w : WFQ Rat) : Prop extends GInv w where
  /-- every queued tag is at least the virtual time -/
  b : ∀ s c f tl, w.sq s = (c, f) :: tl → w.vtime ≤ f
  /-- a cached selection is still a chunk with the least tag -/
  m : w.sel = true → ∃ c f tl, w.sq w.selStream = (c, f) :: tl ∧ ∀ s' c' f' tl', w.sq s' = (c', f') :: tl' → f ≤ f'
  /-- within a backlogged stream the start tag of a chunk is the finish tag of its predecessor -/
  ce : ∀ s l1 c1 f1 c2 f2 l2, w.sq s = l1 ++ (c1, f1) :: (c2, f2) :: l2 → f2 - (c2.len : Rat) / wt w s = f1

theorem ainv_new (ws : AMap Nat) : AInv (WFQ.new ws : WFQ Rat) := by
  have hsq : ∀ s, (WFQ.new ws : WFQ Rat).sq s = [] := fun s => by simp [sq, WFQ.new]
  exact ⟨ginv_new ws, fun s c f tl h => by rw [hsq] at h; simp at h, by simp [WFQ.new],
    fun s l1 c1 f1 c2 f2 l2 h => by rw [hsq] at h; simp at h⟩

/-- the tag of the last chunk of a non-empty queue is at least the virtual time -/
theorem last_ge_vtime {w : WFQ Rat} (h : AInv w) {s : Nat} {l : List (Chunk × Rat)} {x : Chunk × Rat}
    (hq : w.sq s = l ++ [x]) : w.vtime ≤ x.2 := by
  cases l with
  | nil => exact h.b s x.1 x.2 [] (by rw [hq]; simp)
  | cons hd tl =>
    have h1 := h.b s hd.1 hd.2 (tl ++ [x]) (by rw [hq]; simp)
    have h2 := h.t1 s
    rw [hq] at h2
    simp only [List.cons_append, List.pairwise_cons] at h2
    exact le_trans h1 (h2.1 x (by simp))

theorem ainv_step {w w' : WFQ Rat} {o : Op} {po : List Chunk} (h : AInv w) (hs : WStep w o w' po)
    (hat : ∀ c, o = .push c → w.sel = false) : AInv w' := by
  have hg : GInv w' := ginv_step h.toGInv hs
  obtain ⟨hwt, hs⟩ := hs
  have hwt' : ∀ s, wt w' s = wt w s := wt_congr hwt
  cases o with
  | rawPop c =>
    obtain ⟨_, hsq, _, hv, hsel⟩ := hs
    refine ⟨hg, fun s c f tl hq => by rw [hsq] at hq; rw [hv]; exact h.b s c f tl hq, ?_,
      fun s l1 c1 f1 c2 f2 l2 hq => by rw [hsq] at hq; rw [hwt']; exact h.ce s l1 c1 f1 c2 f2 l2 hq⟩
    intro hsel'
    rcases hsel with ⟨h1, _, h3⟩ | ⟨_, h2, _⟩ | ⟨_, _, c, f, tl, h4, h5⟩
    · obtain ⟨c, f, tl, hq, hmin⟩ := h.m h1
      exact ⟨c, f, tl, by rw [hsq, h3]; exact hq, fun s' c' f' tl' hq' => hmin s' c' f' tl' (by rw [← hsq]; exact hq')⟩
    · rw [h2] at hsel'; cases hsel'
    · exact ⟨c, f, tl, by rw [hsq]; exact h4, fun s' c' f' tl' hq' => (h5 s' c' f' tl' (by rw [← hsq]; exact hq')).1⟩
  | popNil =>
    obtain ⟨_, hsq, _, hv, hsel⟩ := hs
    refine ⟨hg, fun s c f tl hq => by rw [hsq] at hq; rw [hv]; exact h.b s c f tl hq, ?_,
      fun s l1 c1 f1 c2 f2 l2 hq => by rw [hsq] at hq; rw [hwt']; exact h.ce s l1 c1 f1 c2 f2 l2 hq⟩
    intro hsel'
    rcases hsel with ⟨h1, _, h3⟩ | ⟨_, h2, _⟩ | ⟨_, _, c, f, tl, h4, h5⟩
    · obtain ⟨c, f, tl, hq, hmin⟩ := h.m h1
      exact ⟨c, f, tl, by rw [hsq, h3]; exact hq, fun s' c' f' tl' hq' => hmin s' c' f' tl' (by rw [← hsq]; exact hq')⟩
    · rw [h2] at hsel'; cases hsel'
    · exact ⟨c, f, tl, by rw [hsq]; exact h4, fun s' c' f' tl' hq' => (h5 s' c' f' tl' (by rw [← hsq]; exact hq')).1⟩
  | setil b' =>
    obtain ⟨_, hsq, _, hv, hsel⟩ := hs
    refine ⟨hg, fun s c f tl hq => by rw [hsq] at hq; rw [hv]; exact h.b s c f tl hq, ?_,
      fun s l1 c1 f1 c2 f2 l2 hq => by rw [hsq] at hq; rw [hwt']; exact h.ce s l1 c1 f1 c2 f2 l2 hq⟩
    intro hsel'
    rcases hsel with ⟨h1, _, h3⟩ | ⟨_, h2, _⟩ | ⟨_, _, c, f, tl, h4, h5⟩
    · obtain ⟨c, f, tl, hq, hmin⟩ := h.m h1
      exact ⟨c, f, tl, by rw [hsq, h3]; exact hq, fun s' c' f' tl' hq' => hmin s' c' f' tl' (by rw [← hsq]; exact hq')⟩
    · rw [h2] at hsel'; cases hsel'
    · exact ⟨c, f, tl, by rw [hsq]; exact h4, fun s' c' f' tl' hq' => (h5 s' c' f' tl' (by rw [← hsq]; exact hq')).1⟩
  | peek =>
    obtain ⟨_, hsq, _, hv, hsel⟩ := hs
    refine ⟨hg, fun s c f tl hq => by rw [hsq] at hq; rw [hv]; exact h.b s c f tl hq, ?_,
      fun s l1 c1 f1 c2 f2 l2 hq => by rw [hsq] at hq; rw [hwt']; exact h.ce s l1 c1 f1 c2 f2 l2 hq⟩
    intro hsel'
    rcases hsel with ⟨h1, _, h3⟩ | ⟨_, h2, _⟩ | ⟨_, _, c, f, tl, h4, h5⟩
    · obtain ⟨c, f, tl, hq, hmin⟩ := h.m h1
      exact ⟨c, f, tl, by rw [hsq, h3]; exact hq, fun s' c' f' tl' hq' => hmin s' c' f' tl' (by rw [← hsq]; exact hq')⟩
    · rw [h2] at hsel'; cases hsel'
    · exact ⟨c, f, tl, by rw [hsq]; exact h4, fun s' c' f' tl' hq' => (h5 s' c' f' tl' (by rw [← hsq]; exact hq')).1⟩
  | push c =>
    obtain ⟨_, hsq, _, hv, hsel, _⟩ := hs
    have hselF : w.sel = false := hat c rfl
    have hT : pushTag w c = max w.vtime (w.fin c.sid) + (c.len : Rat) / wt w c.sid := pushTag_eq w c
    refine ⟨hg, fun s c' f tl hq => ?_, by rw [hsel, hselF]; simp, fun s l1 c1 f1 c2 f2 l2 hq => ?_⟩
    · rw [hv]; rw [hsq] at hq; split at hq
      · rename_i hsc; subst hsc
        cases hq0 : w.sq c.sid with
        | nil =>
          rw [hq0] at hq; simp at hq
          obtain ⟨⟨_, rfl⟩, _⟩ := hq
          rw [hT]
          have := div_wt_nonneg w c.len c.sid; have := le_max_left w.vtime (w.fin c.sid); linarith
        | cons hd tl0 =>
          rw [hq0] at hq; simp at hq
          exact h.b _ c' f tl0 (by rw [hq0, hq.1])
      · exact h.b s c' f tl hq
    · rw [hwt']; rw [hsq] at hq; split at hq
      · rename_i hsc; subst hsc
        rcases last_of_append_cons hq with ⟨_, hx, hl⟩ | ⟨l2', _, hl⟩
        · simp only [Prod.mk.injEq] at hx
          obtain ⟨rfl, rfl⟩ := hx
          have hf1 := h.t2l _ _ _ hl
          have hge := last_ge_vtime h hl
          simp only at hf1 hge
          rw [hT, hf1, max_eq_right hge]; ring
        · exact h.ce _ l1 c1 f1 c2 f2 l2' hl
      · exact h.ce s l1 c1 f1 c2 f2 l2 hq
  | pop =>
    rcases hs with ⟨_, hsq, _, hv, _, hsel', _⟩ | ⟨s0, c, f, tl, hq0, _, _, hselT, hselF, hsq, _, hv, hsel'⟩
    · exact ⟨hg, fun s c f tl hq => by rw [hsq] at hq; rw [hv]; exact h.b s c f tl hq, by rw [hsel']; simp,
        fun s l1 c1 f1 c2 f2 l2 hq => by rw [hsq] at hq; rw [hwt']; exact h.ce s l1 c1 f1 c2 f2 l2 hq⟩
    · -- the served chunk carries the least tag
      have hmin : ∀ s' c' f' tl', w.sq s' = (c', f') :: tl' → f ≤ f' := by
        cases hsel : w.sel with
        | true =>
          obtain ⟨c1, f1, tl1, hq1, hm⟩ := h.m hsel
          rw [← hselT hsel, hq0] at hq1
          simp only [List.cons.injEq, Prod.mk.injEq] at hq1
          obtain ⟨⟨_, rfl⟩, _⟩ := hq1
          exact hm
        | false => exact fun s' c' f' tl' hq' => (hselF hsel s' c' f' tl' hq').1
      have hVf : w'.vtime = f := by rw [hv]; exact max_eq_right (h.b s0 c f tl hq0)
      refine ⟨hg, fun s c' f' tl' hq => ?_, by rw [hsel']; simp, fun s l1 c1 f1 c2 f2 l2 hq => ?_⟩
      · rw [hVf]; rw [hsq] at hq; split at hq
        · rename_i hsc; subst hsc
          have := h.t1 s; rw [hq0, hq] at this
          exact (List.pairwise_cons.mp this).1 (c', f') (by simp)
        · exact hmin s c' f' tl' hq
      · rw [hwt']; rw [hsq] at hq; split at hq
        · rename_i hsc; subst hsc
          exact h.ce s ((c, f) :: l1) c1 f1 c2 f2 l2 (by rw [hq0, hq]; simp)
        · exact h.ce s l1 c1 f1 c2 f2 l2 hq

/-- start tag of the head of stream `s` (0 if the stream is idle) -/
def sigma (w : WFQ Rat) (s : Nat) : Rat :=
  match (w.sq s).head? with
  | some (c, f) => f - (c.len : Rat) / wt w s
  | none => 0

/-- payload length of the head of stream `s` -/
def headLen (w : WFQ Rat) (s : Nat) : Nat :=
  match (w.sq s).head? with
  | some (c, _) => c.len
  | none => 0

theorem sigma_bounds {w : WFQ Rat} (h : AInv w) {s : Nat} (hne : w.sq s ≠ []) :
    w.vtime - (headLen w s : Rat) / wt w s ≤ sigma w s ∧ sigma w s ≤ w.vtime := by
  cases hq : w.sq s with
  | nil => exact absurd hq hne
  | cons hd tl =>
    obtain ⟨c, f⟩ := hd
    have ha := h.a s c f tl hq
    have hb := h.b s c f tl hq
    simp only [sigma, headLen, hq, List.head?_cons]
    constructor <;> linarith

/-- one step, stream `i` backlogged before and after: the start tag of its head advances by exactly
its normalised service -/
theorem tele_step {w w' : WFQ Rat} {o : Op} {po : List Chunk} (h : AInv w) (hs : WStep w o w' po) (i : Nat)
    (hb : w.sq i ≠ []) (hb' : w'.sq i ≠ []) :
    sigma w' i - sigma w i = (lenSum (po.filter (·.sid == i)) : Rat) / wt w i := by
  obtain ⟨hwt, hs⟩ := hs
  have hwt' : ∀ s, wt w' s = wt w s := wt_congr hwt
  have same : (∀ s, w'.sq s = w.sq s) → po = [] → sigma w' i - sigma w i = (lenSum (po.filter (·.sid == i)) : Rat) / wt w i := by
    intro hsq hpo
    simp [sigma, hsq, hwt', hpo]
  cases o with
  | rawPop c => exact same hs.2.1 hs.1
  | popNil => exact same hs.2.1 hs.1
  | setil b => exact same hs.2.1 hs.1
  | peek => exact same hs.2.1 hs.1
  | push c =>
    obtain ⟨hpo, hsq, _⟩ := hs
    have : (w'.sq i).head? = (w.sq i).head? := by
      rw [hsq]; split
      · cases hq : w.sq i with
        | nil => exact absurd hq hb
        | cons a t => simp
      · rfl
    simp [sigma, this, hwt', hpo]
  | pop =>
    rcases hs with ⟨hpo, hsq, _⟩ | ⟨s0, c, f, tl, hq0, hpo, hcs, _, _, hsq, _⟩
    · exact same hsq hpo
    · by_cases hi : i = s0
      · subst hi
        have htl : w'.sq i = tl := by rw [hsq]; simp
        cases tl with
        | nil => exact absurd htl hb'
        | cons hd2 tl2 =>
          obtain ⟨c2, f2⟩ := hd2
          have := h.ce i [] c f c2 f2 tl2 (by rw [hq0]; simp)
          simp only [sigma, htl, hq0, List.head?_cons, hwt', hpo, List.filter_cons, hcs, beq_self_eq_true,
            if_true, List.filter_nil, lenSum_cons, lenSum_nil]
          rw [this]; push_cast; ring
      · have hne : ¬ c.sid = i := by rw [hcs]; exact fun h => hi h.symm
        have : w'.sq i = w.sq i := by rw [hsq]; simp [hi]
        simp [sigma, this, hwt', hpo, hne]

end WFQ

/-! ### runs -/

/-- no push happens while a selection made by an earlier `peek` is still cached (WFQ states only) -/
def PQ.Atomic (q : PQ Rat) : List Op → Prop
  | [] => True
  | o :: os => (∀ c w, o = .push c → q.policy = .wfq w → w.sel = false) ∧ PQ.Atomic (q.step o).1 os

/-- payload bytes of stream `s` popped along a trace -/
def served (tr : List (Op × Res)) (s : Nat) : Nat := lenSum ((popsOf tr).filter (·.sid == s))

theorem served_cons (e : Op × Res) (tr : List (Op × Res)) (s : Nat) :
    served (e :: tr) s = lenSum ((evPop e).filter (·.sid == s)) + served tr s := by
  simp [served, popsOf_cons, List.filter_append]

theorem run_cons (q : PQ Rat) (o : Op) (os : List Op) :
    q.run (o :: os) = (((q.step o).1.run os).1, (o, (q.step o).2) :: ((q.step o).1.run os).2) := by
  simp [PQ.run]

theorem run_append (q : PQ Rat) (a b : List Op) :
    (q.run (a ++ b)).1 = ((q.run a).1.run b).1 ∧ (q.run (a ++ b)).2 = (q.run a).2 ++ ((q.run a).1.run b).2 := by
  induction a generalizing q with
  | nil => simp [PQ.run]
  | cons o os ih =>
    have := ih (q.step o).1
    simp only [List.cons_append, run_cons]
    exact ⟨this.1, by simp [this.2]⟩

theorem pushesOf_append (a b : List (Op × Res)) : pushesOf (a ++ b) = pushesOf a ++ pushesOf b := by
  induction a with
  | nil => rfl
  | cons e a ih => simp [pushesOf_cons, ih]

theorem atomic_append (q : PQ Rat) (a b : List Op) :
    PQ.Atomic q (a ++ b) ↔ PQ.Atomic q a ∧ PQ.Atomic (q.run a).1 b := by
  induction a generalizing q with
  | nil => simp [PQ.Atomic, PQ.run]
  | cons o os ih =>
    simp only [List.cons_append, PQ.Atomic, run_cons, ih, and_assoc]

theorem backlogged_wfq {q : PQ Rat} {w : WFQ Rat} (hq : q.policy = .wfq w) (s : Nat) :
    q.backlogged s ↔ w.sq s ≠ [] := by
  simp [PQ.backlogged, hq, Policy.streamQ]

open WFQ in
theorem wfq_run :
    ∀ (ops : List Op) (q : PQ Rat) (w : WFQ Rat), q.policy = .wfq w → AInv w → w.WF →
      (∀ o ∈ ops, o.basic = true) → PQ.Atomic q ops →
      ∃ w', (q.run ops).1.policy = .wfq w' ∧ AInv w' ∧ w'.WF ∧ w'.weights = w.weights ∧
        ∀ i, PQ.AllStates (fun q => q.backlogged i) q ops →
          sigma w' i - sigma w i = (served (q.run ops).2 i : Rat) / wt w i := by
  intro ops
  induction ops with
  | nil =>
    intro q w hq ha hwf _ _
    exact ⟨w, hq, ha, hwf, rfl, fun i _ => by simp [PQ.run, served, popsOf]⟩
  | cons o os ih =>
    intro q w hq ha hwf hops hat
    obtain ⟨w1, hq1, hwf1, hstep, _⟩ := wfq_step_obs hq hwf o (hops o (by simp))
    have ha1 : AInv w1 := ainv_step ha hstep (fun c hc => hat.1 c w hc hq)
    obtain ⟨w', hq', ha', hwf', hwt', htele⟩ := ih (q.step o).1 w1 hq1 ha1 hwf1
      (fun o' ho' => hops o' (by simp [ho'])) hat.2
    refine ⟨w', by rw [run_cons]; exact hq', ha', hwf', by rw [hwt', hstep.1], ?_⟩
    intro i hall
    have hb : w.sq i ≠ [] := (backlogged_wfq hq i).mp hall.1
    have hb1 : w1.sq i ≠ [] := (backlogged_wfq hq1 i).mp (PQ.AllStates.head hall.2)
    have h1 := tele_step ha hstep i hb hb1
    have h2 := htele i hall.2
    rw [run_cons, served_cons]
    have hw : wt w1 i = wt w i := wt_congr hstep.1 i
    rw [hw] at h2
    have : sigma w' i - sigma w i = (sigma w' i - sigma w1 i) + (sigma w1 i - sigma w i) := by ring
    rw [this, h1, h2]; push_cast; ring

open WFQ in
/-- WFQ fairness from any state satisfying the invariants -/
theorem wfq_fair_core {q : PQ Rat} {w : WFQ Rat} (hq : q.policy = .wfq w) (ha : AInv w) (hwf : w.WF)
    (mid : List Op) (hmid : ∀ o ∈ mid, o.basic = true) (hat : PQ.Atomic q mid) (i j : Nat)
    (hall : PQ.AllStates (fun q => q.backlogged i ∧ q.backlogged j) q mid) :
    ∃ w', (q.run mid).1.policy = .wfq w' ∧ w'.WF ∧
      |(served (q.run mid).2 i : Rat) / wt w i - (served (q.run mid).2 j : Rat) / wt w j| ≤
        (max (headLen w i) (headLen w' i) : Rat) / wt w i + (max (headLen w j) (headLen w' j) : Rat) / wt w j := by
  obtain ⟨w', hq', ha', hwf', hwt', htele⟩ := wfq_run mid q w hq ha hwf hmid hat
  refine ⟨w', hq', hwf', ?_⟩
  have hi := htele i (PQ.AllStates.imp (fun q h => h.1) mid q hall)
  have hj := htele j (PQ.AllStates.imp (fun q h => h.2) mid q hall)
  have hb0 := PQ.AllStates.head hall
  have hbe : ((q.run mid).1.backlogged i ∧ (q.run mid).1.backlogged j) := PQ.AllStates.last mid q hall
  obtain ⟨l0i, u0i⟩ := sigma_bounds ha ((backlogged_wfq hq i).mp hb0.1)
  obtain ⟨l0j, u0j⟩ := sigma_bounds ha ((backlogged_wfq hq j).mp hb0.2)
  obtain ⟨l1i, u1i⟩ := sigma_bounds ha' ((backlogged_wfq hq' i).mp hbe.1)
  obtain ⟨l1j, u1j⟩ := sigma_bounds ha' ((backlogged_wfq hq' j).mp hbe.2)
  have hwi : wt w' i = wt w i := wt_congr hwt' i
  have hwj : wt w' j = wt w j := wt_congr hwt' j
  rw [hwi] at l1i; rw [hwj] at l1j
  have pi := wt_pos w i; have pj := wt_pos w j
  have m0i : (headLen w i : Rat) / wt w i ≤ (max (headLen w i) (headLen w' i) : Rat) / wt w i :=
    div_le_div_of_nonneg_right (le_max_left _ _) (le_of_lt pi)
  have m1i : (headLen w' i : Rat) / wt w i ≤ (max (headLen w i) (headLen w' i) : Rat) / wt w i :=
    div_le_div_of_nonneg_right (le_max_right _ _) (le_of_lt pi)
  have m0j : (headLen w j : Rat) / wt w j ≤ (max (headLen w j) (headLen w' j) : Rat) / wt w j :=
    div_le_div_of_nonneg_right (le_max_left _ _) (le_of_lt pj)
  have m1j : (headLen w' j : Rat) / wt w j ≤ (max (headLen w j) (headLen w' j) : Rat) / wt w j :=
    div_le_div_of_nonneg_right (le_max_right _ _) (le_of_lt pj)
  rw [← hi, ← hj, abs_le]
  constructor <;> linarith


/-! ### from a fresh WFQ queue -/

/-- the queue after `newPendingQueue(wfq with weights ws)` and `setInterleaving(true)` -/
def wfqFresh (ws : AMap Nat) : PQ Rat := ((PQ.new (.wfq ws) : PQ Rat).setInterleaving true).1

theorem wfqFresh_policy (ws : AMap Nat) : (wfqFresh ws).policy = .wfq (WFQ.new ws) := by
  simp [wfqFresh, PQ.new, PQ.setInterleaving]

open WFQ in
/-- the general tag invariants hold after every list of basic operations -/
theorem wfq_run_g :
    ∀ (ops : List Op) (q : PQ Rat) (w : WFQ Rat), q.policy = .wfq w → GInv w → w.WF →
      (∀ o ∈ ops, o.basic = true) →
      ∃ w', (q.run ops).1.policy = .wfq w' ∧ GInv w' ∧ w'.WF ∧ w'.weights = w.weights := by
  intro ops
  induction ops with
  | nil => intro q w hq hg hwf _; exact ⟨w, hq, hg, hwf, rfl⟩
  | cons o os ih =>
    intro q w hq hg hwf hops
    obtain ⟨w1, hq1, hwf1, hstep, _⟩ := wfq_step_obs hq hwf o (hops o (by simp))
    obtain ⟨w', hq', hg', hwf', hwt'⟩ := ih (q.step o).1 w1 hq1 (ginv_step hg hstep) hwf1
      (fun o' ho' => hops o' (by simp [ho']))
    exact ⟨w', by rw [run_cons]; exact hq', hg', hwf', by rw [hwt', hstep.1]⟩

theorem basic_proper {o : Op} (h : o.basic = true) : o.proper = true := by
  cases o <;> simp_all [Op.basic, Op.proper]

/-- every chunk queued in a WFQ state reached from a fresh queue was pushed -/
theorem wfq_queued_mem_pushes (ws : AMap Nat) (ops : List Op) (hops : ∀ o ∈ ops, o.basic = true)
    {w : WFQ Rat} (hq : ((wfqFresh ws).run ops).1.policy = .wfq w) {s : Nat} {x : Chunk × Rat}
    (hx : x ∈ w.sq s) : x.1 ∈ pushesOf ((wfqFresh ws).run ops).2 := by
  have h0 : Inv (wfqFresh ws) [] [] := inv_setil (inv_new _) true
  have h := inv_run h0 ops (fun o ho => basic_proper (hops o ho))
  simp only [List.nil_append] at h
  have hf := h.fifo s x.1.unordered
  have hmem : x.1 ∈ ((wfqFresh ws).run ops).1.policy.queued s x.1.unordered := by
    rw [hq]
    simp only [Policy.queued, WFQ.queued, List.mem_filter, List.mem_map, beq_self_eq_true, and_true]
    exact ⟨x, hx, rfl⟩
  have : x.1 ∈ (pushesOf ((wfqFresh ws).run ops).2).filter (key s x.1.unordered) := by
    rw [hf]; exact List.mem_append_right _ hmem
  exact (List.mem_filter.mp this).1

end PendQ
